/-
  C14 — Arc predicates and intersections agree with exact spherical geometry.

  Theorems about the exact model `UxVerif.Arcs` (the oracle the driver executes at `Rat`), over
  EVERY commutative ring / linearly ordered field and ALL direction vectors:

  * the predicate `OnArc` is what the property calls "on the great circle and between the end
    points": `onArc_iff_cone` (the closed cone spanned by the end points);
  * the reported intersections are exactly the common points of the two arcs
    (`intersections_on_both`, `common_point_reported`, `disjoint_none`, `crossing_one`);
  * invariance under swapping an arc's end points, swapping the two arcs and rotating about the
    polar axis (`onArc_swap`, `meet_swap_ends`, `meet_swap_arcs`, `onArc_rotZ`, `meet_rotZ`);
  * the closed form of `extreme_gca_latitude` (`code_param`, `code_dmax_iff`) and that the value it
    selects is the largest latitude over ALL points of the arc (`apex_bound`, `apex_attained`,
    `endpoint_max`, `extreme_is_max`), the smallest by reflection (`extreme_is_min`).

  * purity (`session_state_const`, `session_answers`, `runWith_pure`), the exact numeric boundaries
    of the closed forms (`extreme_opposite_latitudes`, `extreme_equatorial`, `apexInside_quarter_turn`,
    `intersection_at_endpoint`, `same_circle_not_diff`, `interior_sign`);
  * the floating-point evaluation of the plane residual in the standard model of rounding
    (`plane_residual_error`: within 69u of the exact value; `plane_test_rejects`,
    `plane_test_accepts`, `margin_decides_plane_test`, `double_plane_thresholds`): the 1e-6 margin
    at which the harness judges is enough for the plane decision of `point_within_gca`, and a
    tolerance of `MACHINE_EPSILON` is too small to accept every on-circle point.

  The rest of the floating-point evaluation inside the implementation is not modelled: it is tied by the
  differential run (harness/c14.py), whose verdicts are computed by these definitions at `Rat`.
-/
import Mathlib.Tactic.Ring
import Mathlib.Tactic.Linarith
import Mathlib.Tactic.LinearCombination
import Mathlib.Tactic.Positivity
import Mathlib.Tactic.FieldSimp
import Mathlib.Algebra.Order.Field.Basic
import Mathlib.Algebra.Order.Ring.Rat
import UxVerif.Model.Arcs
import UxVerif.Gen.Constants

namespace UxVerif.C14
open UxVerif.Arcs

set_option linter.unusedSectionVars false
set_option linter.unusedVariables false

/-! ## Algebra (any commutative ring) -/
section Ring
variable {K : Type} [CommRing K]

theorem v3_ext {a b : V3 K} (hx : a.x = b.x) (hy : a.y = b.y) (hz : a.z = b.z) : a = b := by
  cases a; cases b; simp_all

theorem neg_neg_v (a : V3 K) : neg (neg a) = a := by
  apply v3_ext <;> simp [neg]

theorem cross_swap (a b : V3 K) : cross b a = neg (cross a b) := by
  apply v3_ext <;> simp [cross, neg] <;> ring

theorem meetDir_swap_arcs (a b c d : V3 K) : meetDir c d a b = neg (meetDir a b c d) := by
  apply v3_ext <;> simp [meetDir, cross, neg] <;> ring

theorem meetDir_swap_ends (a b c d : V3 K) : meetDir b a c d = neg (meetDir a b c d) := by
  apply v3_ext <;> simp [meetDir, cross, neg] <;> ring

theorem meetDir_swap_ends' (a b c d : V3 K) : meetDir a b d c = neg (meetDir a b c d) := by
  apply v3_ext <;> simp [meetDir, cross, neg] <;> ring

/-- rotation about the polar axis preserves the dot product -/
theorem dot_rotZ {c s : K} (h : c * c + s * s = 1) (a b : V3 K) :
    dot (rotZ c s a) (rotZ c s b) = dot a b := by
  simp only [dot, rotZ]
  linear_combination (a.x * b.x + a.y * b.y) * h

/-- rotation about the polar axis commutes with the cross product -/
theorem cross_rotZ {c s : K} (h : c * c + s * s = 1) (a b : V3 K) :
    cross (rotZ c s a) (rotZ c s b) = rotZ c s (cross a b) := by
  apply v3_ext <;> simp only [cross, rotZ]
  · ring
  · ring
  · linear_combination (a.x * b.y - a.y * b.x) * h

theorem meetDir_rotZ {c s : K} (h : c * c + s * s = 1) (a b c' d : V3 K) :
    meetDir (rotZ c s a) (rotZ c s b) (rotZ c s c') (rotZ c s d) = rotZ c s (meetDir a b c' d) := by
  unfold meetDir
  rw [cross_rotZ h, cross_rotZ h, cross_rotZ h]

theorem neg_rotZ (c s : K) (a : V3 K) : neg (rotZ c s a) = rotZ c s (neg a) := by
  apply v3_ext <;> simp [neg, rotZ] <;> ring

/-- the rotation by the opposite angle undoes the rotation -/
theorem rotZ_inv {c s : K} (h : c * c + s * s = 1) (a : V3 K) :
    rotZ c (-s) (rotZ c s a) = a := by
  apply v3_ext <;> simp only [rotZ]
  · linear_combination a.x * h
  · linear_combination a.y * h

theorem rotZ_zero (c s : K) : rotZ c s (zero : V3 K) = zero := by
  apply v3_ext <;> simp [rotZ, zero]

theorem rotZ_eq_zero_iff {c s : K} (h : c * c + s * s = 1) (a : V3 K) :
    rotZ c s a = zero ↔ a = zero := by
  constructor
  · intro ha
    have := rotZ_inv h a
    rw [ha, rotZ_zero] at this
    exact this.symm
  · intro ha; rw [ha, rotZ_zero]

/-- **decomposition of any `p` in the basis `a, b, a×b`** (scaled by `|a×b|²`) -/
theorem basis_identity (a b p : V3 K) :
    smul (normSq (cross a b)) p =
      add (add (smul (dot (cross p b) (cross a b)) a) (smul (dot (cross a p) (cross a b)) b))
        (smul (dot (cross a b) p) (cross a b)) := by
  apply v3_ext <;> simp only [smul, add, normSq, dot, cross] <;> ring

/-- `|n|² x = (x·n) n + (n₂·x) (n×n₁) − (n₁·x) (n×n₂)` for `n = n₁×n₂` -/
theorem perp_identity (n₁ n₂ x : V3 K) :
    smul (normSq (cross n₁ n₂)) x =
      add (smul (dot x (cross n₁ n₂)) (cross n₁ n₂))
        (add (smul (dot n₂ x) (cross (cross n₁ n₂) n₁))
          (neg (smul (dot n₁ x) (cross (cross n₁ n₂) n₂)))) := by
  apply v3_ext <;> simp only [smul, add, neg, normSq, dot, cross] <;> ring

/-- a vector perpendicular to two normals is parallel to their cross product -/
theorem parallel_of_perp (n₁ n₂ x : V3 K) (h₁ : dot n₁ x = 0) (h₂ : dot n₂ x = 0) :
    smul (normSq (cross n₁ n₂)) x = smul (dot x (cross n₁ n₂)) (cross n₁ n₂) := by
  rw [perp_identity n₁ n₂ x, h₁, h₂]
  apply v3_ext <;> simp [smul, add, neg]

/-- the candidate direction lies on both great circles -/
theorem meetDir_perp (a b c d : V3 K) :
    dot (cross a b) (meetDir a b c d) = 0 ∧ dot (cross c d) (meetDir a b c d) = 0 := by
  constructor <;> simp only [meetDir, dot, cross] <;> ring

/-- the apex direction lies on the great circle -/
theorem apex_on_circle (a b : V3 K) : dot (cross a b) (apex a b) = 0 := by
  simp only [apex, apexOf, dot, cross]; ring

/-- the apex is `rise b a • a + rise a b • b` — the point the closed form of
    `extreme_gca_latitude` interpolates to -/
theorem apex_eq_comb (a b : V3 K) :
    apex a b = add (smul (rise b a) a) (smul (rise a b) b) := by
  apply v3_ext <;> simp only [apex, apexOf, add, smul, rise, normSq, dot, cross] <;> ring

end Ring

/-! ## Order (any linearly ordered commutative ring) -/
section Ordered
variable {K : Type} [CommRing K] [LinearOrder K] [IsStrictOrderedRing K]

theorem normSq_nonneg (v : V3 K) : 0 ≤ normSq v := by
  simp only [normSq, dot]
  nlinarith [mul_self_nonneg v.x, mul_self_nonneg v.y, mul_self_nonneg v.z]

theorem normSq_eq_zero {v : V3 K} (h : normSq v = 0) : v = zero := by
  simp only [normSq, dot] at h
  have hx : v.x * v.x = 0 := by
    nlinarith [mul_self_nonneg v.x, mul_self_nonneg v.y, mul_self_nonneg v.z]
  have hy : v.y * v.y = 0 := by
    nlinarith [mul_self_nonneg v.x, mul_self_nonneg v.y, mul_self_nonneg v.z]
  have hz : v.z * v.z = 0 := by
    nlinarith [mul_self_nonneg v.x, mul_self_nonneg v.y, mul_self_nonneg v.z]
  apply v3_ext
  · exact mul_self_eq_zero.mp hx
  · exact mul_self_eq_zero.mp hy
  · exact mul_self_eq_zero.mp hz

theorem normSq_pos {v : V3 K} (h : v ≠ zero) : 0 < normSq v :=
  lt_of_le_of_ne (normSq_nonneg v) (fun h0 => h (normSq_eq_zero h0.symm))

theorem smul_eq_zero_v {k : K} {v : V3 K} (hk : k ≠ 0) (h : smul k v = zero) : v = zero := by
  have hx : k * v.x = 0 := congrArg V3.x h
  have hy : k * v.y = 0 := congrArg V3.y h
  have hz : k * v.z = 0 := congrArg V3.z h
  apply v3_ext
  · exact (mul_eq_zero.mp hx).resolve_left hk
  · exact (mul_eq_zero.mp hy).resolve_left hk
  · exact (mul_eq_zero.mp hz).resolve_left hk

/-- **swapping the arc's end points does not change membership** -/
theorem onArc_swap (a b p : V3 K) : OnArc b a p ↔ OnArc a b p := by
  unfold OnArc
  have h1 : dot (cross b a) p = - dot (cross a b) p := by simp only [dot, cross]; ring
  have h2 : dot (cross b p) (cross b a) = dot (cross p b) (cross a b) := by
    simp only [dot, cross]; ring
  have h3 : dot (cross p a) (cross b a) = dot (cross a p) (cross a b) := by
    simp only [dot, cross]; ring
  rw [h1, h2, h3, neg_eq_zero]
  tauto

/-- **rotating everything about the polar axis does not change membership** -/
theorem onArc_rotZ {c s : K} (h : c * c + s * s = 1) (a b p : V3 K) :
    OnArc (rotZ c s a) (rotZ c s b) (rotZ c s p) ↔ OnArc a b p := by
  unfold OnArc
  rw [cross_rotZ h, cross_rotZ h, cross_rotZ h, dot_rotZ h, dot_rotZ h, dot_rotZ h]

/-- membership only depends on the direction of the query point -/
theorem onArc_smul_pos {k : K} (hk : 0 < k) (a b p : V3 K) :
    OnArc a b (smul k p) ↔ OnArc a b p := by
  unfold OnArc
  have h1 : dot (cross a b) (smul k p) = k * dot (cross a b) p := by
    simp only [dot, cross, smul]; ring
  have h2 : dot (cross a (smul k p)) (cross a b) = k * dot (cross a p) (cross a b) := by
    simp only [dot, cross, smul]; ring
  have h3 : dot (cross (smul k p) b) (cross a b) = k * dot (cross p b) (cross a b) := by
    simp only [dot, cross, smul]; ring
  rw [h1, h2, h3]
  constructor
  · rintro ⟨e, f, g⟩
    exact ⟨(mul_eq_zero.mp e).resolve_left hk.ne', (mul_nonneg_iff_of_pos_left hk).mp f,
      (mul_nonneg_iff_of_pos_left hk).mp g⟩
  · rintro ⟨e, f, g⟩
    exact ⟨by rw [e, mul_zero], mul_nonneg hk.le f, mul_nonneg hk.le g⟩

theorem onBoth_rotZ {c s : K} (h : c * c + s * s = 1) (a b c' d x : V3 K) :
    OnBoth (rotZ c s a) (rotZ c s b) (rotZ c s c') (rotZ c s d) (rotZ c s x) ↔
      OnBoth a b c' d x := by
  unfold OnBoth
  rw [onArc_rotZ h, onArc_rotZ h]

theorem mem_intersections (a b c d x : V3 K) :
    x ∈ intersections a b c d ↔
      (x = meetDir a b c d ∨ x = neg (meetDir a b c d)) ∧ OnBoth a b c d x := by
  unfold intersections
  simp [List.mem_filter]

/-- **each returned point lies on both arcs** -/
theorem intersections_on_both (a b c d x : V3 K) (h : x ∈ intersections a b c d) :
    OnArc a b x ∧ OnArc c d x :=
  ((mem_intersections a b c d x).mp h).2

/-- **swapping the two arcs** returns the same points (in the opposite order) -/
theorem meet_swap_arcs (a b c d : V3 K) :
    intersections c d a b = (intersections a b c d).reverse := by
  unfold intersections
  rw [meetDir_swap_arcs a b c d, neg_neg_v]
  have hP : ∀ x, decide (OnBoth c d a b x) = decide (OnBoth a b c d x) := by
    intro x; exact decide_eq_decide.mpr (by unfold OnBoth; exact and_comm)
  simp only [List.filter_cons, List.filter_nil, hP]
  by_cases h1 : OnBoth a b c d (meetDir a b c d) <;>
    by_cases h2 : OnBoth a b c d (neg (meetDir a b c d)) <;> simp [h1, h2]

/-- **swapping the end points of the first arc** returns the same points -/
theorem meet_swap_ends (a b c d : V3 K) :
    intersections b a c d = (intersections a b c d).reverse := by
  unfold intersections
  rw [meetDir_swap_ends a b c d, neg_neg_v]
  have hP : ∀ x, decide (OnBoth b a c d x) = decide (OnBoth a b c d x) := by
    intro x; exact decide_eq_decide.mpr (by unfold OnBoth; rw [onArc_swap a b x])
  simp only [List.filter_cons, List.filter_nil, hP]
  by_cases h1 : OnBoth a b c d (meetDir a b c d) <;>
    by_cases h2 : OnBoth a b c d (neg (meetDir a b c d)) <;> simp [h1, h2]

/-- **swapping the end points of the second arc** returns the same points -/
theorem meet_swap_ends' (a b c d : V3 K) :
    intersections a b d c = (intersections a b c d).reverse := by
  unfold intersections
  rw [meetDir_swap_ends' a b c d, neg_neg_v]
  have hP : ∀ x, decide (OnBoth a b d c x) = decide (OnBoth a b c d x) := by
    intro x; exact decide_eq_decide.mpr (by unfold OnBoth; rw [onArc_swap c d x])
  simp only [List.filter_cons, List.filter_nil, hP]
  by_cases h1 : OnBoth a b c d (meetDir a b c d) <;>
    by_cases h2 : OnBoth a b c d (neg (meetDir a b c d)) <;> simp [h1, h2]

/-- **rotating both arcs about the polar axis** rotates the returned points -/
theorem meet_rotZ {c s : K} (h : c * c + s * s = 1) (a b c' d : V3 K) :
    intersections (rotZ c s a) (rotZ c s b) (rotZ c s c') (rotZ c s d) =
      (intersections a b c' d).map (rotZ c s) := by
  unfold intersections
  rw [meetDir_rotZ h, neg_rotZ]
  simp only [List.filter_cons, List.filter_nil, onBoth_rotZ h]
  by_cases h1 : OnBoth a b c' d (meetDir a b c' d) <;>
    by_cases h2 : OnBoth a b c' d (neg (meetDir a b c' d)) <;> simp [h1, h2]

theorem diffCircles_rotZ {c s : K} (h : c * c + s * s = 1) (a b c' d : V3 K) :
    DiffCircles (rotZ c s a) (rotZ c s b) (rotZ c s c') (rotZ c s d) ↔ DiffCircles a b c' d := by
  unfold DiffCircles
  rw [meetDir_rotZ h, Ne, rotZ_eq_zero_iff h]

theorem neg_ne_zero_v {v : V3 K} (h : v ≠ zero) : neg v ≠ zero := by
  intro hn
  apply h
  have := congrArg neg hn
  rw [neg_neg_v] at this
  rw [this]; apply v3_ext <;> simp [neg, zero]

/-- **disjoint arcs: nothing is reported** -/
theorem disjoint_none (a b c d : V3 K) (hd : DiffCircles a b c d)
    (hdis : ∀ x, x ≠ zero → ¬ OnBoth a b c d x) : intersections a b c d = [] := by
  apply List.eq_nil_iff_forall_not_mem.mpr
  intro x hx
  obtain ⟨hx1, hx2⟩ := (mem_intersections a b c d x).mp hx
  rcases hx1 with rfl | rfl
  · exact hdis _ hd hx2
  · exact hdis _ (neg_ne_zero_v hd) hx2

/-- on different great circles the two antipodal candidates are never both on the first arc -/
theorem not_both_candidates (a b c d : V3 K) (hd : DiffCircles a b c d) :
    ¬ (OnArc a b (meetDir a b c d) ∧ OnArc a b (neg (meetDir a b c d))) := by
  rintro ⟨⟨h0, h1, h2⟩, ⟨_, h1', h2'⟩⟩
  have e1 : dot (cross a (neg (meetDir a b c d))) (cross a b)
      = - dot (cross a (meetDir a b c d)) (cross a b) := by simp only [dot, cross, neg]; ring
  have e2 : dot (cross (neg (meetDir a b c d)) b) (cross a b)
      = - dot (cross (meetDir a b c d) b) (cross a b) := by simp only [dot, cross, neg]; ring
  rw [e1] at h1'; rw [e2] at h2'
  have z1 : dot (cross a (meetDir a b c d)) (cross a b) = 0 := le_antisymm (by linarith) h1
  have z2 : dot (cross (meetDir a b c d) b) (cross a b) = 0 := le_antisymm (by linarith) h2
  have hb := basis_identity a b (meetDir a b c d)
  rw [z1, z2, h0] at hb
  have hz : smul (normSq (cross a b)) (meetDir a b c d) = zero := by
    rw [hb]; apply v3_ext <;> simp [add, smul, zero]
  have hN : cross a b ≠ zero := by
    intro hN
    apply hd
    unfold meetDir
    rw [hN]; apply v3_ext <;> simp [cross, zero]
  exact hd (smul_eq_zero_v (normSq_pos hN).ne' hz)

/-- **at most one point is reported for arcs on different great circles** -/
theorem intersections_length_le_one (a b c d : V3 K) (hd : DiffCircles a b c d) :
    (intersections a b c d).length ≤ 1 := by
  have hnb := not_both_candidates a b c d hd
  unfold intersections
  simp only [List.filter_cons, List.filter_nil]
  by_cases h1 : OnBoth a b c d (meetDir a b c d) <;>
    by_cases h2 : OnBoth a b c d (neg (meetDir a b c d)) <;> simp [h1, h2]
  exact hnb ⟨h1.1, h2.1⟩

/-- **completeness: every common point of the two arcs is reported** (as a direction: the
    returned vector is a positive multiple of it). -/
theorem common_point_reported (a b c d x : V3 K) (hd : DiffCircles a b c d) (hx : x ≠ zero)
    (hon : OnBoth a b c d x) :
    ∃ y ∈ intersections a b c d, ∃ k l : K, 0 < k ∧ 0 < l ∧ smul k x = smul l y := by
  have hpar := parallel_of_perp (cross a b) (cross c d) x hon.1.1 hon.2.1
  change smul (normSq (meetDir a b c d)) x = smul (dot x (meetDir a b c d)) (meetDir a b c d)
    at hpar
  have hn := normSq_pos hd
  have hμ : dot x (meetDir a b c d) ≠ 0 := by
    intro h0
    rw [h0] at hpar
    have : smul (normSq (meetDir a b c d)) x = zero := by
      rw [hpar]; apply v3_ext <;> simp [smul, zero]
    exact hx (smul_eq_zero_v hn.ne' this)
  rcases lt_or_gt_of_ne hμ with hneg | hpos
  · -- x points along -n
    have hpar' : smul (normSq (meetDir a b c d)) x
        = smul (-(dot x (meetDir a b c d))) (neg (meetDir a b c d)) := by
      rw [hpar]; apply v3_ext <;> simp [smul, neg]
    have hl : 0 < -(dot x (meetDir a b c d)) := by linarith
    have hon' : OnBoth a b c d (neg (meetDir a b c d)) := by
      constructor
      · rw [← onArc_smul_pos hl, ← hpar', onArc_smul_pos hn]; exact hon.1
      · rw [← onArc_smul_pos hl, ← hpar', onArc_smul_pos hn]; exact hon.2
    exact ⟨_, (mem_intersections _ _ _ _ _).mpr ⟨Or.inr rfl, hon'⟩, _, _, hn, hl, hpar'⟩
  · have hon' : OnBoth a b c d (meetDir a b c d) := by
      constructor
      · rw [← onArc_smul_pos hpos, ← hpar, onArc_smul_pos hn]; exact hon.1
      · rw [← onArc_smul_pos hpos, ← hpar, onArc_smul_pos hn]; exact hon.2
    exact ⟨_, (mem_intersections _ _ _ _ _).mpr ⟨Or.inl rfl, hon'⟩, _, _, hn, hpos, hpar⟩

/-- **a crossing is reported exactly once**: arcs on different great circles with a common
    point `x` yield exactly one point, in the direction of `x`. -/
theorem crossing_one (a b c d x : V3 K) (hd : DiffCircles a b c d) (hx : x ≠ zero)
    (hon : OnBoth a b c d x) :
    ∃ y, intersections a b c d = [y] ∧ ∃ k l : K, 0 < k ∧ 0 < l ∧ smul k x = smul l y := by
  obtain ⟨y, hy, k, l, hk, hl, e⟩ := common_point_reported a b c d x hd hx hon
  have hlen := intersections_length_le_one a b c d hd
  match hL : intersections a b c d, hy, hlen with
  | [y'], hy, _ =>
    have : y = y' := by simpa using hy
    subst this
    exact ⟨y, rfl, k, l, hk, hl, e⟩
  | [], hy, _ => cases hy
  | _ :: _ :: _, _, hlen => simp at hlen

end Ordered

/-! ## Ordered fields: the cone characterisation and the extreme latitude -/
section Field
variable {K : Type} [Field K] [LinearOrder K] [IsStrictOrderedRing K]

/-- **`OnArc` is "on the great circle and between the end points"**: for a valid arc the
    points of the minor arc are exactly the non-negative combinations of the end points. -/
theorem onArc_iff_cone (a b p : V3 K) (hv : ValidArc a b) :
    OnArc a b p ↔ ∃ s t : K, 0 ≤ s ∧ 0 ≤ t ∧ p = add (smul s a) (smul t b) := by
  have hN := normSq_pos hv
  constructor
  · rintro ⟨h0, h1, h2⟩
    refine ⟨dot (cross p b) (cross a b) / normSq (cross a b),
      dot (cross a p) (cross a b) / normSq (cross a b),
      div_nonneg h2 hN.le, div_nonneg h1 hN.le, ?_⟩
    have hb := basis_identity a b p
    rw [h0] at hb
    have hx := congrArg V3.x hb
    have hy := congrArg V3.y hb
    have hz := congrArg V3.z hb
    simp only [smul, add] at hx hy hz
    apply v3_ext <;> simp only [smul, add] <;> field_simp <;> linarith
  · rintro ⟨s, t, hs, ht, rfl⟩
    refine ⟨?_, ?_, ?_⟩
    · simp only [dot, cross, add, smul]; ring
    · have : dot (cross a (add (smul s a) (smul t b))) (cross a b) = t * normSq (cross a b) := by
        simp only [dot, cross, add, smul, normSq]; ring
      rw [this]; exact mul_nonneg ht hN.le
    · have : dot (cross (add (smul s a) (smul t b)) b) (cross a b) = s * normSq (cross a b) := by
        simp only [dot, cross, add, smul, normSq]; ring
      rw [this]; exact mul_nonneg hs hN.le

/-! ### The extreme latitude of an arc -/

/-- Lagrange's identity `|a×b|² = |a|²|b|² − (a·b)²` -/
theorem lagrange (a b : V3 K) :
    normSq (cross a b) = normSq a * normSq b - dot a b * dot a b := by
  simp only [normSq, dot, cross]; ring

/-- the end points of a valid arc are on the arc -/
theorem onArc_left (a b : V3 K) : OnArc a b a := by
  refine ⟨?_, ?_, ?_⟩
  · simp only [dot, cross]; ring
  · have : dot (cross a a) (cross a b) = 0 := by simp only [dot, cross]; ring
    rw [this]
  · exact normSq_nonneg (cross a b)

theorem onArc_right (a b : V3 K) : OnArc a b b := by
  rw [← onArc_swap]; exact onArc_left b a

/-- **no point of the great circle is higher than its apex**: for every `p` on the circle with
    normal `n`, `sin²(lat p) ≤ (n_x²+n_y²)/|n|²` (cross-multiplied). -/
theorem apex_bound (n p : V3 K) (h : dot n p = 0) :
    p.z * p.z * normSq n ≤ (n.x * n.x + n.y * n.y) * normSq p := by
  simp only [dot] at h
  have hz : n.z * p.z = -(n.x * p.x + n.y * p.y) := by linarith
  have key : (n.x * n.x + n.y * n.y) * normSq p - p.z * p.z * normSq n
      = (n.x * p.y - n.y * p.x) * (n.x * p.y - n.y * p.x) := by
    simp only [normSq, dot]
    have : (n.z * p.z) * (n.z * p.z) = (n.x * p.x + n.y * p.y) * (n.x * p.x + n.y * p.y) := by
      rw [hz]; ring
    linear_combination -this
  nlinarith [mul_self_nonneg (n.x * p.y - n.y * p.x)]

/-- **the apex attains the bound** and is in the northern half -/
theorem apex_attained (a b : V3 K) :
    (apex a b).z * (apex a b).z * normSq (cross a b)
      = ((cross a b).x * (cross a b).x + (cross a b).y * (cross a b).y) * normSq (apex a b) ∧
    0 ≤ (apex a b).z := by
  constructor
  · simp only [apex, apexOf, normSq, dot]; ring
  · simp only [apex, apexOf]
    nlinarith [mul_self_nonneg (cross a b).x, mul_self_nonneg (cross a b).y]

/-- when the closed form says the apex is interior, the apex is a point of the arc -/
theorem apexInside_onArc (a b : V3 K) (h : ApexInside a b) : OnArc a b (apex a b) := by
  have h1 : dot (cross a (apex a b)) (cross a b) = normSq (cross a b) * rise a b := by
    simp only [apex, apexOf, rise, normSq, dot, cross]; ring
  have h2 : dot (cross (apex a b) b) (cross a b) = normSq (cross a b) * rise b a := by
    simp only [apex, apexOf, rise, normSq, dot, cross]; ring
  refine ⟨apex_on_circle a b, ?_, ?_⟩
  · rw [h1]; exact mul_nonneg (normSq_nonneg _) h.1.le
  · rw [h2]; exact mul_nonneg (normSq_nonneg _) h.2.le

/-- scalar core of `endpoint_max`, case `bz ≤ az` -/
theorem endpoint_max_aux {az bz c s t rp : K} (hc : c * c < 1) (hs : 0 ≤ s) (ht : 0 ≤ t)
    (hrp : 0 ≤ rp) (hrp2 : rp * rp = s * s + 2 * s * t * c + t * t)
    (hnot : ¬ (0 < bz - c * az ∧ 0 < az - c * bz)) (hab : bz ≤ az) :
    s * az + t * bz ≤ az * rp := by
  have hc1 : c < 1 := by nlinarith
  have tri : rp ≤ s + t := by
    by_contra hlt
    rw [not_le] at hlt
    have : (s + t) * (s + t) < rp * rp := by nlinarith
    nlinarith [mul_nonneg (mul_nonneg hs ht) (sub_pos.mpr hc1).le]
  have key1 : s + t * c ≤ rp := by
    by_contra hlt
    rw [not_le] at hlt
    have h1 : rp * rp < (s + t * c) * (s + t * c) := by nlinarith
    nlinarith [mul_nonneg (mul_self_nonneg t) (sub_pos.mpr hc).le]
  have key2 : t + s * c ≤ rp := by
    by_contra hlt
    rw [not_le] at hlt
    have h1 : rp * rp < (t + s * c) * (t + s * c) := by nlinarith
    nlinarith [mul_nonneg (mul_self_nonneg s) (sub_pos.mpr hc).le]
  rcases le_or_gt az 0 with haz | haz
  · -- both end points at or below the equator: convex combination and the triangle inequality
    have h1 : s * az + t * bz ≤ az * (s + t) := by nlinarith
    nlinarith
  · by_cases hu : 0 < bz - c * az
    · have hv : az - c * bz ≤ 0 := by
        by_contra hv
        rw [not_le] at hv
        exact hnot ⟨hu, hv⟩
      rcases le_or_gt 0 bz with hbz | hbz
      · have h1 : s * az + t * bz ≤ bz * (t + s * c) := by nlinarith
        nlinarith
      · -- impossible: a above the equator rising towards b, b below it falling towards a
        exfalso
        have hcneg : c < 0 := by
          by_contra hcn
          rw [not_lt] at hcn
          nlinarith
        have h2 : c * bz < c * (c * az) := by nlinarith
        nlinarith
    · rw [not_lt] at hu
      have h1 : s * az + t * bz ≤ az * (s + t * c) := by nlinarith
      nlinarith

/-- scalar core of `endpoint_max` -/
theorem endpoint_max_scalar {az bz c s t rp : K} (hc : c * c < 1) (hs : 0 ≤ s) (ht : 0 ≤ t)
    (hrp : 0 ≤ rp) (hrp2 : rp * rp = s * s + 2 * s * t * c + t * t)
    (hnot : ¬ (0 < bz - c * az ∧ 0 < az - c * bz)) :
    s * az + t * bz ≤ max az bz * rp := by
  rcases le_total bz az with h | h
  · rw [max_eq_left h]
    exact endpoint_max_aux hc hs ht hrp hrp2 hnot h
  · rw [max_eq_right h]
    have := endpoint_max_aux (az := bz) (bz := az) (s := t) (t := s) hc ht hs hrp
      (by rw [hrp2]; ring) (fun hh => hnot ⟨hh.2, hh.1⟩) h
    linarith

/-- for unit end points `rise a b = b_z − (a·b) a_z` -/
theorem rise_unit (a b : V3 K) (ha : normSq a = 1) : rise a b = b.z - dot a b * a.z := by
  unfold rise; rw [ha]; ring

theorem dot_sq_lt_one (a b : V3 K) (ha : normSq a = 1) (hb : normSq b = 1) (hv : ValidArc a b) :
    dot a b * dot a b < 1 := by
  have := normSq_pos hv
  rw [lagrange, ha, hb] at this
  linarith

/-- **when the apex is not interior, no point of the arc is higher than the higher end point**
    (`a`, `b` unit vectors; `p = s·a + t·b` any point of the arc, `rp = |p|`). -/
theorem endpoint_max (a b : V3 K) (ha : normSq a = 1) (hb : normSq b = 1) (hv : ValidArc a b)
    (hnot : ¬ ApexInside a b) (s t rp : K) (hs : 0 ≤ s) (ht : 0 ≤ t) (hrp : 0 ≤ rp)
    (hrp2 : rp * rp = normSq (add (smul s a) (smul t b))) :
    (add (smul s a) (smul t b)).z ≤ max a.z b.z * rp := by
  have hc := dot_sq_lt_one a b ha hb hv
  have hn : normSq (add (smul s a) (smul t b)) = s * s + 2 * s * t * dot a b + t * t := by
    have : normSq (add (smul s a) (smul t b))
        = s * s * normSq a + 2 * s * t * dot a b + t * t * normSq b := by
      simp only [normSq, dot, add, smul]; ring
    rw [this, ha, hb]; ring
  have hz : (add (smul s a) (smul t b)).z = s * a.z + t * b.z := by simp only [add, smul]
  rw [hz]
  apply endpoint_max_scalar hc hs ht hrp (by rw [hrp2, hn])
  intro hh
  apply hnot
  unfold ApexInside
  rw [rise_unit a b ha, rise_unit b a hb]
  have : dot b a = dot a b := by simp only [dot]; ring
  rw [this]
  exact hh

/-- **when the apex is interior, no point of the arc is higher than the apex**
    (`σ ≥ 0` is the sine of the apex latitude: `σ²|n|² = n_x²+n_y²`). -/
theorem apex_max (a b : V3 K) (hv : ValidArc a b) (p : V3 K) (hp : dot (cross a b) p = 0)
    (σ rp : K) (hσ : 0 ≤ σ)
    (hσ2 : σ * σ * normSq (cross a b)
      = (cross a b).x * (cross a b).x + (cross a b).y * (cross a b).y)
    (hrp : 0 ≤ rp) (hrp2 : rp * rp = normSq p) : p.z ≤ σ * rp := by
  have hN := normSq_pos hv
  have hb := apex_bound (cross a b) p hp
  rw [← hσ2, ← hrp2] at hb
  by_contra hlt
  rw [not_le] at hlt
  have h0 : 0 ≤ σ * rp := mul_nonneg hσ hrp
  have h1 : (σ * rp) * (σ * rp) < p.z * p.z := by nlinarith
  have h2 : (σ * rp) * (σ * rp) * normSq (cross a b) < p.z * p.z * normSq (cross a b) :=
    mul_lt_mul_of_pos_right h1 hN
  nlinarith

/-- **the extreme latitude of an arc is the largest latitude over all of its points.**
    For unit end points, `extremeMax a b` bounds `sin(lat p) = p_z/|p|` for EVERY point
    `p = s·a + t·b` (`s,t ≥ 0`) of the arc: by the apex value when the closed form says the
    apex is interior, by the higher end point otherwise. Both bounds are attained
    (`apexInside_onArc` + `apex_attained`, `onArc_left/right`). -/
theorem extreme_is_max (a b : V3 K) (ha : normSq a = 1) (hb : normSq b = 1) (hv : ValidArc a b)
    (s t rp σ : K) (hs : 0 ≤ s) (ht : 0 ≤ t) (hrp : 0 ≤ rp)
    (hrp2 : rp * rp = normSq (add (smul s a) (smul t b)))
    (hσ : 0 ≤ σ) (hσ2 : (extremeMax a b).1 = true → σ * σ = (extremeMax a b).2) :
    (add (smul s a) (smul t b)).z ≤
      (if (extremeMax a b).1 then σ else (extremeMax a b).2) * rp := by
  unfold extremeMax at hσ2 ⊢
  by_cases hin : ApexInside a b
  · simp only [hin, if_true] at hσ2 ⊢
    have hN := normSq_pos hv
    apply apex_max a b hv _ _ σ rp hσ _ hrp hrp2
    · simp only [dot, cross, add, smul]; ring
    · rw [hσ2 trivial]; field_simp
  · simp only [hin, if_false] at hσ2 ⊢
    have : maxK a.z b.z = max a.z b.z := by
      unfold maxK; split
      · rename_i h; exact (max_eq_right h).symm
      · rename_i h; exact (max_eq_left (le_of_not_ge h)).symm
    rw [this]
    exact endpoint_max a b ha hb hv hin s t rp hs ht hrp hrp2

/-! mirror image in the equatorial plane: "min" is "max" of the reflected arc -/

theorem flipZ_comb (a b : V3 K) (s t : K) :
    flipZ (add (smul s a) (smul t b)) = add (smul s (flipZ a)) (smul t (flipZ b)) := by
  apply v3_ext <;> simp [flipZ, add, smul]; ring

theorem normSq_flipZ (a : V3 K) : normSq (flipZ a) = normSq a := by
  simp only [normSq, dot, flipZ]; ring

theorem rise_flipZ (a b : V3 K) : rise (flipZ a) (flipZ b) = - rise a b := by
  simp only [rise, normSq, dot, flipZ]; ring

theorem validArc_flipZ (a b : V3 K) (hv : ValidArc a b) : ValidArc (flipZ a) (flipZ b) := by
  intro h
  apply hv
  have hx := congrArg V3.x h
  have hy := congrArg V3.y h
  have hz := congrArg V3.z h
  simp only [cross, flipZ, zero] at hx hy hz
  apply v3_ext <;> simp only [cross, zero] <;> linarith

theorem apexInside_flipZ (a b : V3 K) : ApexInside (flipZ a) (flipZ b) ↔ NadirInside a b := by
  unfold ApexInside NadirInside
  rw [rise_flipZ, rise_flipZ]
  constructor <;> rintro ⟨h1, h2⟩ <;> constructor <;> linarith

/-- the exact minimum is the mirror image of the exact maximum -/
theorem extremeMin_flipZ (a b : V3 K) :
    extremeMin a b = ((extremeMax (flipZ a) (flipZ b)).1,
      if (extremeMax (flipZ a) (flipZ b)).1 then (extremeMax (flipZ a) (flipZ b)).2
      else - (extremeMax (flipZ a) (flipZ b)).2) := by
  unfold extremeMin extremeMax
  by_cases h : NadirInside a b
  · have h' := (apexInside_flipZ a b).mpr h
    simp only [h, h', if_true]
    congr 1
    simp only [normSq, dot, cross, flipZ]; ring
  · have h' : ¬ ApexInside (flipZ a) (flipZ b) := fun hh => h ((apexInside_flipZ a b).mp hh)
    simp only [h, h', if_false]
    congr 1
    simp only [flipZ, maxK, minK]
    by_cases hab : a.z ≤ b.z
    · have : ¬ (-a.z ≤ -b.z) ∨ a.z = b.z := by
        rcases lt_or_eq_of_le hab with h1 | h1
        · left; linarith
        · right; exact h1
      rcases this with h1 | h1
      · simp [hab, h1]
      · simp [h1]
    · have : -a.z ≤ -b.z := by rw [not_le] at hab; linarith
      simp [hab, this]

/-- **the extreme latitude of an arc is the smallest latitude over all of its points** -/
theorem extreme_is_min (a b : V3 K) (ha : normSq a = 1) (hb : normSq b = 1) (hv : ValidArc a b)
    (s t rp σ : K) (hs : 0 ≤ s) (ht : 0 ≤ t) (hrp : 0 ≤ rp)
    (hrp2 : rp * rp = normSq (add (smul s a) (smul t b)))
    (hσ : 0 ≤ σ) (hσ2 : (extremeMin a b).1 = true → σ * σ = (extremeMin a b).2) :
    (if (extremeMin a b).1 then -σ else (extremeMin a b).2) * rp ≤
      (add (smul s a) (smul t b)).z := by
  have hmax := extreme_is_max (flipZ a) (flipZ b) (by rw [normSq_flipZ, ha])
    (by rw [normSq_flipZ, hb]) (validArc_flipZ a b hv) s t rp σ hs ht hrp
    (by rw [← flipZ_comb, normSq_flipZ]; exact hrp2) hσ
  rw [extremeMin_flipZ] at hσ2 ⊢
  rw [← flipZ_comb] at hmax
  cases hE : (extremeMax (flipZ a) (flipZ b)).1
  · simp only [hE, Bool.false_eq_true, if_false] at hσ2 hmax ⊢
    have := hmax (fun h => absurd h (by simp))
    simp only [flipZ] at this
    simp only [flipZ]
    linarith
  · simp only [hE, if_true] at hσ2 hmax ⊢
    have := hmax (fun _ => hσ2 trivial)
    simp only [flipZ] at this
    linarith

/-! the closed form of the code -/

/-- **`node3` of the code is the apex (up to the positive/negative scale `u+v`)**: with
    `d = d_a_max`, `(u+v)·((1−d)a + d b) = v·a + u·b = apex`, for unit end points and a
    non-vanishing denominator. -/
theorem code_param (a b : V3 K) (ha : normSq a = 1) (hb : normSq b = 1)
    (hden : (a.z + b.z) * (dot a b - 1) ≠ 0) :
    smul (rise a b + rise b a) (node3 a b) = apex a b := by
  have hba : dot b a = dot a b := by simp only [dot]; ring
  have hsum : rise a b + rise b a = -((a.z + b.z) * (dot a b - 1)) := by
    rw [rise_unit a b ha, rise_unit b a hb, hba]; ring
  have hd : dAMax a b * (rise a b + rise b a) = rise a b := by
    unfold dAMax
    rw [hsum, rise_unit a b ha, div_mul_eq_mul_div, div_eq_iff hden]
    ring
  rw [apex_eq_comb]
  have hd' : (rise a b + rise b a) * (1 - dAMax a b) = rise b a := by linear_combination -hd
  apply v3_ext <;> simp only [node3, smul, add]
  · linear_combination a.x * hd' + b.x * hd
  · linear_combination a.y * hd' + b.y * hd
  · linear_combination a.z * hd' + b.z * hd

/-- **the branch `0 < d_a_max < 1` of the code is "north or south apex strictly inside"** -/
theorem code_dmax_iff (a b : V3 K) (ha : normSq a = 1) (hb : normSq b = 1)
    (hden : (a.z + b.z) * (dot a b - 1) ≠ 0) :
    codeInterior a b ↔ (ApexInside a b ∨ NadirInside a b) := by
  have hba : dot b a = dot a b := by simp only [dot]; ring
  have hsum : rise a b + rise b a = -((a.z + b.z) * (dot a b - 1)) := by
    rw [rise_unit a b ha, rise_unit b a hb, hba]; ring
  have hS : rise a b + rise b a ≠ 0 := by rw [hsum]; exact neg_ne_zero.mpr hden
  have hd : dAMax a b = rise a b / (rise a b + rise b a) := by
    unfold dAMax
    rw [hsum, rise_unit a b ha, div_neg, ← neg_div]
    congr 1; ring
  have h1d : 1 - dAMax a b = rise b a / (rise a b + rise b a) := by
    rw [hd]; field_simp; ring
  unfold codeInterior ApexInside NadirInside
  have e1 : dAMax a b < 1 ↔ 0 < 1 - dAMax a b := sub_pos.symm
  rw [e1, h1d, hd]
  rcases lt_or_gt_of_ne hS with hneg | hpos
  · rw [div_pos_iff, div_pos_iff]
    constructor
    · rintro ⟨h1 | h1, h2 | h2⟩
      · linarith [h1.2]
      · linarith [h1.2]
      · linarith [h2.2]
      · right; exact ⟨h1.1, h2.1⟩
    · rintro (⟨h1, h2⟩ | ⟨h1, h2⟩)
      · linarith
      · exact ⟨Or.inr ⟨h1, hneg⟩, Or.inr ⟨h2, hneg⟩⟩
  · rw [div_pos_iff, div_pos_iff]
    constructor
    · rintro ⟨h1 | h1, h2 | h2⟩
      · left; exact ⟨h1.1, h2.1⟩
      · linarith [h2.2]
      · linarith [h1.2]
      · linarith [h1.2]
    · rintro (⟨h1, h2⟩ | ⟨h1, h2⟩)
      · exact ⟨Or.inl ⟨h1, hpos⟩, Or.inl ⟨h2, hpos⟩⟩
      · linarith

/-- when the denominator of `d_a_max` vanishes (numpy yields ±inf / nan, so the code takes the
    end-point branch) neither apex is strictly inside – the end-point branch is the right one -/
theorem dmax_degenerate (a b : V3 K) (ha : normSq a = 1) (hb : normSq b = 1)
    (hden : (a.z + b.z) * (dot a b - 1) = 0) : ¬ ApexInside a b ∧ ¬ NadirInside a b := by
  have hba : dot b a = dot a b := by simp only [dot]; ring
  have hsum : rise a b + rise b a = 0 := by
    rw [rise_unit a b ha, rise_unit b a hb, hba]; linear_combination -hden
  constructor
  · rintro ⟨h1, h2⟩; linarith
  · rintro ⟨h1, h2⟩; linarith


end Field

/-! ## As-is defects of the unrepaired longitude/latitude logic (regression witnesses)

  `fixes/C14-point-within-gca-vector-test.patch` replaces, for undirected arcs, the
  longitude/latitude interval logic by the two sign tests of `OnArc` (whose correctness is
  `onArc_iff_cone`).  The as-is logic of the through-a-pole branch accepts points that are not
  on the arc; the Cartesian witnesses below are replayed on the implementation by the harness
  (corpus/C14). -/
section AsIs
variable {K : Type} [Field K] [LinearOrder K] [IsStrictOrderedRing K]

/-- as-is: an arc that starts ON THE EQUATOR (lon 0) and runs through the south pole to a
    southern point at lon π is given the NORTH pole by `_decide_pole_latitude` (it tests
    `lat1 > 0`, false for 0), so every northern point of the lon-π meridian is accepted. -/
theorem asis_pole_branch_equator_start (pi lat1 latp : K) (hpi : 0 < pi)
    (h1 : -(pi / 2) < lat1) (h1' : lat1 < 0) (hp : 0 < latp) (hp' : latp ≤ pi / 2) :
    asIsPoleBranch pi 0 0 pi lat1 pi latp = true := by
  have hne : (0 : K) ≠ pi := hpi.ne
  have hext : ¬ (absK (pi / 2 - absK (0 : K)) + pi / 2 + absK lat1 < pi) := by
    have a0 : absK (0 : K) = 0 := by simp [absK]
    have a1 : absK lat1 = -lat1 := by simp [absK, h1']
    have a2 : absK (pi / 2 - 0) = pi / 2 := by
      have : ¬ (pi / 2 < 0) := by rw [not_lt]; linarith
      simp only [absK, sub_zero, this, if_false]
    rw [a0, a2, a1]; intro h; linarith
  have hpole : decidePoleLat pi 0 lat1 = pi / 2 := by
    unfold decidePoleLat
    rw [if_neg hext]
    simp
  unfold asIsPoleBranch
  have c1 : ¬ ((0 : K) ≠ pi ∧ pi ≠ pi) := by simp
  have c2 : ¬ (((0 : K) < 0 ∧ 0 < lat1) ∨ ((0 : K) < 0 ∧ lat1 < 0)) := by simp
  rw [if_neg c1]
  simp only [c2, if_false, hpole]
  simp [inBetween, hp.le, hp']

/-- as-is: both end points northern (lon 0 and lon π, arc over the north pole): a point on the
    FIRST end point's meridian, south of it but north of the second end point's latitude, is
    accepted because both latitude intervals are tried whatever meridian the point is on. -/
theorem asis_pole_branch_wrong_meridian (pi lat0 lat1 latp : K) (hpi : 0 < pi)
    (h0 : 0 < lat0) (h1 : 0 < lat1) (hlt : latp < lat0) (hge : lat1 ≤ latp)
    (hp' : latp ≤ pi / 2) :
    asIsPoleBranch pi 0 lat0 pi lat1 0 latp = true := by
  unfold asIsPoleBranch
  have c1 : ¬ ((0 : K) ≠ 0 ∧ pi ≠ 0) := by simp
  have c2 : (0 < lat0 ∧ 0 < lat1) ∨ (lat0 < 0 ∧ lat1 < 0) := Or.inl ⟨h0, h1⟩
  rw [if_neg c1, if_pos c2, if_pos h0]
  simp [inBetween, hge, hp']

end AsIs


/-! ## Purity: the primitives are functions of the values (call sequences on one arc object) -/
section Session
variable {K : Type} [Field K] [LinearOrder K] [IsStrictOrderedRing K]

/-- the answers depend only on the values handed in (`*_congr`) -/
theorem onArc_congr {a b p a' b' p' : V3 K} (ha : a = a') (hb : b = b') (hp : p = p') :
    OnArc a b p ↔ OnArc a' b' p' := by subst ha hb hp; exact Iff.rfl

theorem intersections_congr {a b c d a' b' c' d' : V3 K} (ha : a = a') (hb : b = b')
    (hc : c = c') (hd : d = d') : intersections a b c d = intersections a' b' c' d' := by
  subst ha hb hc hd; rfl

theorem extreme_congr {a b a' b' : V3 K} (ha : a = a') (hb : b = b') :
    extremeMax a b = extremeMax a' b' ∧ extremeMin a b = extremeMin a' b' := by
  subst ha hb; exact ⟨rfl, rfl⟩

/-- **no history of calls changes the arc object** -/
theorem session_state_const (s : Arc K) (ops : List (Op K)) : (runSession s ops).1 = s := by
  unfold runSession
  induction ops generalizing s with
  | nil => rfl
  | cons op ops ih => simp only [runWith, step]; exact ih s

/-- **history independence: in EVERY sequence of calls on a shared arc object, every answer is
    the answer on the original values** (whatever was called before, in whatever order). -/
theorem session_answers (s : Arc K) (ops : List (Op K)) :
    (runSession s ops).2 = ops.map (answer s.1 s.2) := by
  unfold runSession
  induction ops generalizing s with
  | nil => rfl
  | cons op ops ih => simp only [runWith, step, List.map_cons]; rw [ih s]

/-- the answer to a call does not depend on what preceded it -/
theorem session_prefix_irrelevant (s : Arc K) (pre : List (Op K)) (op : Op K) :
    (runSession s (pre ++ [op])).2.getLast? = some (answer s.1 s.2 op) := by
  rw [session_answers]; simp

/-- the general loop agrees with the pure one for ANY step function that returns its state
    unchanged and answers from the values – this is the clause the harness checks on the
    implementation (bytes of every argument unchanged, answers equal to those on a fresh copy) -/
theorem runWith_pure (st : Arc K → Op K → Arc K × Ans K)
    (hstate : ∀ s op, (st s op).1 = s) (hans : ∀ s op, (st s op).2 = answer s.1 s.2 op)
    (s : Arc K) (ops : List (Op K)) : runWith st s ops = (s, ops.map (answer s.1 s.2)) := by
  induction ops generalizing s with
  | nil => rfl
  | cons op ops ih =>
    simp only [runWith, List.map_cons]
    rw [hstate s op, ih s, hans s op]

end Session


/-! ## Exact numeric boundaries (degenerate classes of the closed form and of the intersection) -/
section Boundaries
variable {K : Type} [Field K] [LinearOrder K] [IsStrictOrderedRing K]

theorem maxK_eq_max (x y : K) : maxK x y = max x y := by
  unfold maxK; split
  · rename_i h; exact (max_eq_right h).symm
  · rename_i h; exact (max_eq_left (le_of_not_ge h)).symm

theorem minK_eq_min (x y : K) : minK x y = min x y := by
  unfold minK; split
  · rename_i h; exact (min_eq_left h).symm
  · rename_i h; exact (min_eq_right (le_of_not_ge h)).symm

/-- **end points at opposite latitudes** (`z₁ = −z₂`: the denominator of `d_a_max` is exactly 0,
    numpy divides by zero): neither apex is interior, the maximum is `|z|` and the minimum `−|z|`,
    both at end points. -/
theorem extreme_opposite_latitudes (a b : V3 K) (ha : normSq a = 1) (hb : normSq b = 1)
    (hz : a.z = -b.z) :
    extremeMax a b = (false, |a.z|) ∧ extremeMin a b = (false, -|a.z|) := by
  have hden : (a.z + b.z) * (dot a b - 1) = 0 := by rw [hz]; ring
  obtain ⟨h1, h2⟩ := dmax_degenerate a b ha hb hden
  unfold extremeMax extremeMin
  rw [if_neg h1, if_neg h2, maxK_eq_max, minK_eq_min]
  have hbz : b.z = -a.z := by rw [hz]; ring
  rw [hbz]
  have hmax : max a.z (-a.z) = |a.z| := (abs_eq_max_neg).symm
  have hmin : min a.z (-a.z) = -|a.z| := by
    rcases le_total 0 a.z with h | h
    · rw [abs_of_nonneg h, min_eq_right (by linarith)]
    · rw [abs_of_nonpos h, min_eq_left (by linarith), neg_neg]
  rw [hmax, hmin]
  exact ⟨rfl, rfl⟩

/-- **an arc along the equator** (`0/0` in the closed form): every latitude is 0 -/
theorem extreme_equatorial (a b : V3 K) (ha : normSq a = 1) (hb : normSq b = 1)
    (haz : a.z = 0) (hbz : b.z = 0) :
    extremeMax a b = (false, 0) ∧ extremeMin a b = (false, 0) := by
  have h := extreme_opposite_latitudes a b ha hb (by rw [haz, hbz]; ring)
  rw [haz] at h
  simpa using h

/-- **T-junction**: when an end point `c` of the second arc lies on the first arc (different
    great circles) exactly one point is reported, in the direction of `c`. -/
theorem intersection_at_endpoint (a b c d : V3 K) (hd : DiffCircles a b c d) (hc : c ≠ zero)
    (hon : OnArc a b c) :
    ∃ y, intersections a b c d = [y] ∧ ∃ k l : K, 0 < k ∧ 0 < l ∧ smul k c = smul l y :=
  crossing_one a b c d c hd hc ⟨hon, onArc_left c d⟩

/-- **arcs on the same great circle** (collinear, overlapping or not) are outside the "different
    great circles" clause: the candidate direction vanishes, `DiffCircles` is false -/
theorem same_circle_not_diff (a b c d : V3 K) (hc : dot (cross a b) c = 0)
    (hd : dot (cross a b) d = 0) : ¬ DiffCircles a b c d := by
  intro h
  apply h
  simp only [dot, cross] at hc hd
  apply v3_ext <;> simp only [meetDir, cross, zero]
  · linear_combination (c.x) * hd - (d.x) * hc
  · linear_combination (c.y) * hd - (d.y) * hc
  · linear_combination (c.z) * hd - (d.z) * hc

/-- a quarter-turn arc (`a·b = 0`): the closed form's parameter is `d = z₂/(z₁+z₂)`, the apex is
    interior iff both end points are strictly in the northern half -/
theorem apexInside_quarter_turn (a b : V3 K) (ha : normSq a = 1) (hb : normSq b = 1)
    (h90 : dot a b = 0) : ApexInside a b ↔ (0 < a.z ∧ 0 < b.z) := by
  have hba : dot b a = 0 := by rw [← h90]; simp only [dot]; ring
  unfold ApexInside
  rw [rise_unit a b ha, rise_unit b a hb, h90, hba]
  simp only [zero_mul, sub_zero]
  exact and_comm

/-- **which apex is interior is read off the sign of `z₁ + z₂`** (used by the repaired closed
    form, which takes the apex latitude from the circle's normal): north apex interior ⇒
    `z₁ + z₂ > 0`, south apex interior ⇒ `z₁ + z₂ < 0`. -/
theorem interior_sign (a b : V3 K) (ha : normSq a = 1) (hb : normSq b = 1) (hv : ValidArc a b) :
    (ApexInside a b → 0 < a.z + b.z) ∧ (NadirInside a b → a.z + b.z < 0) := by
  have hc := dot_sq_lt_one a b ha hb hv
  have hc1 : dot a b < 1 := by nlinarith
  have hba : dot b a = dot a b := by simp only [dot]; ring
  have hsum : rise a b + rise b a = (a.z + b.z) * (1 - dot a b) := by
    rw [rise_unit a b ha, rise_unit b a hb, hba]; ring
  have hpos : 0 < 1 - dot a b := by linarith
  constructor
  · rintro ⟨h1, h2⟩
    have : 0 < (a.z + b.z) * (1 - dot a b) := by rw [← hsum]; linarith
    exact (mul_pos_iff_of_pos_right hpos).mp this
  · rintro ⟨h1, h2⟩
    have : (a.z + b.z) * (1 - dot a b) < 0 := by rw [← hsum]; linarith
    by_contra hge
    rw [not_lt] at hge
    have := mul_nonneg hge hpos.le
    linarith

end Boundaries


/-! ## Floating-point evaluation of the plane residual (standard model of rounding)

  `IsRnd u f`: `|f x − x| ≤ u|x|` for every `x` (no overflow/underflow).  Every operation site may
  round differently (`r i`), which covers round-to-nearest and contracted multiply-adds. -/
section FloatError
variable {K : Type} [Field K] [LinearOrder K] [IsStrictOrderedRing K]

/-- the standard model of one rounding: relative error at most `u` -/
def IsRnd (u : K) (f : K → K) : Prop := ∀ x, |f x - x| ≤ u * |x|

/-- `x'` approximates `x` with absolute error at most `e` -/
def Approx (x' x e : K) : Prop := |x' - x| ≤ e

theorem approx_mono {x' x e e' : K} (h : Approx x' x e) (hle : e ≤ e') : Approx x' x e' :=
  le_trans h hle

theorem approx_rnd {u : K} {f : K → K} (hf : IsRnd u f) (hu : 0 ≤ u) {x' x e B : K}
    (h : Approx x' x e) (hB : |x| ≤ B) : Approx (f x') x (e + u * (B + e)) := by
  unfold Approx at *
  have h1 : |f x' - x| ≤ |f x' - x'| + |x' - x| := abs_sub_le _ _ _
  have h2 : |x'| ≤ B + e := by
    have : |x'| ≤ |x' - x| + |x| := by
      have := abs_add_le (x' - x) x
      simpa using this
    linarith
  have h3 : |f x' - x'| ≤ u * (B + e) := le_trans (hf x') (mul_le_mul_of_nonneg_left h2 hu)
  linarith

theorem approx_sub {x' x e y' y f : K} (h1 : Approx x' x e) (h2 : Approx y' y f) :
    Approx (x' - y') (x - y) (e + f) := by
  unfold Approx at *
  have : x' - y' - (x - y) = (x' - x) - (y' - y) := by ring
  rw [this]
  exact le_trans (abs_sub _ _) (add_le_add h1 h2)

theorem approx_add {x' x e y' y f : K} (h1 : Approx x' x e) (h2 : Approx y' y f) :
    Approx (x' + y') (x + y) (e + f) := by
  unfold Approx at *
  have : x' + y' - (x + y) = (x' - x) + (y' - y) := by ring
  rw [this]
  exact le_trans (abs_add_le _ _) (add_le_add h1 h2)

theorem approx_mul {x' x e y' y f Bx By : K} (h1 : Approx x' x e) (h2 : Approx y' y f)
    (hx : |x| ≤ Bx) (hy : |y| ≤ By) (he : 0 ≤ e) :
    Approx (x' * y') (x * y) (e * (By + f) + Bx * f) := by
  unfold Approx at *
  have hy' : |y'| ≤ By + f := by
    have := abs_add_le (y' - y) y
    have e1 : y' - y + y = y' := by ring
    rw [e1] at this
    linarith
  have : x' * y' - x * y = (x' - x) * y' + x * (y' - y) := by ring
  rw [this]
  have hf0 : 0 ≤ f := le_trans (abs_nonneg _) h2
  have hBx : 0 ≤ Bx := le_trans (abs_nonneg _) hx
  calc |(x' - x) * y' + x * (y' - y)| ≤ |(x' - x) * y'| + |x * (y' - y)| := abs_add_le _ _
    _ = |x' - x| * |y'| + |x| * |y' - y| := by rw [abs_mul, abs_mul]
    _ ≤ e * (By + f) + Bx * f := by
      apply add_le_add
      · exact mul_le_mul h1 hy' (abs_nonneg _) he
      · exact mul_le_mul hx h2 (abs_nonneg _) hBx

/-- every coordinate is at most 1 in absolute value (true of unit vectors: `bounded_of_unit`) -/
def Bounded (v : V3 K) : Prop := |v.x| ≤ 1 ∧ |v.y| ≤ 1 ∧ |v.z| ≤ 1

theorem bounded_of_unit {v : V3 K} (h : normSq v = 1) : Bounded v := by
  simp only [normSq, dot] at h
  refine ⟨?_, ?_, ?_⟩ <;> apply abs_le_one_iff_mul_self_le_one.mpr <;>
    nlinarith [mul_self_nonneg v.x, mul_self_nonneg v.y, mul_self_nonneg v.z]

/-- a correctly rounded input coordinate -/
theorem approx_input {u : K} {f : K → K} (hf : IsRnd u f) (hu : 0 ≤ u) {x : K} (hx : |x| ≤ 1) :
    Approx (f x) x u := by
  have h0 : Approx x x 0 := by simp [Approx]
  have := approx_rnd hf hu h0 hx
  simpa using this

/-- rounded product of two rounded input coordinates -/
theorem fl_prod_in {u : K} {f g h : K → K} (hf : IsRnd u f) (hg : IsRnd u g) (hh : IsRnd u h)
    (hu : 0 ≤ u) (h64 : 64 * u ≤ 1) {x y : K} (hx : |x| ≤ 1) (hy : |y| ≤ 1) :
    Approx (h (f x * g y)) (x * y) (5 * u) := by
  have hq : 64 * (u * u) ≤ u := by nlinarith [mul_nonneg hu (sub_nonneg.mpr h64)]
  have m := approx_mul (approx_input hf hu hx) (approx_input hg hu hy) hx hy hu
  have hxy : |x * y| ≤ 1 := by
    rw [abs_mul]; exact mul_le_one₀ hx (abs_nonneg _) hy
  have m' : Approx (f x * g y) (x * y) (3 * u) := approx_mono m (by nlinarith)
  exact approx_mono (approx_rnd hh hu m' hxy) (by nlinarith)

/-- one coordinate of the computed cross product -/
theorem fl_cross_comp {u : K} {h : K → K} (hh : IsRnd u h) (hu : 0 ≤ u) (h64 : 64 * u ≤ 1)
    {P1 P2 t1 t2 : K} (h1 : Approx P1 t1 (5 * u)) (h2 : Approx P2 t2 (5 * u))
    (ht1 : |t1| ≤ 1) (ht2 : |t2| ≤ 1) : Approx (h (P1 - P2)) (t1 - t2) (13 * u) := by
  have hq : 64 * (u * u) ≤ u := by nlinarith [mul_nonneg hu (sub_nonneg.mpr h64)]
  have hB : |t1 - t2| ≤ 2 := le_trans (abs_sub _ _) (by linarith)
  exact approx_mono (approx_rnd hh hu (approx_sub h1 h2) hB) (by nlinarith)

/-- one rounded term `c_i * p_i` of the computed dot product -/
theorem fl_term {u : K} {f h : K → K} (hf : IsRnd u f) (hh : IsRnd u h) (hu : 0 ≤ u)
    (h64 : 64 * u ≤ 1) {c n p : K} (hc : Approx c n (13 * u)) (hn : |n| ≤ 2) (hp : |p| ≤ 1) :
    Approx (h (c * f p)) (n * p) (19 * u) := by
  have hq : 64 * (u * u) ≤ u := by nlinarith [mul_nonneg hu (sub_nonneg.mpr h64)]
  have m := approx_mul hc (approx_input hf hu hp) hn hp (by linarith)
  have hnp : |n * p| ≤ 2 := by
    rw [abs_mul]
    calc |n| * |p| ≤ 2 * 1 := mul_le_mul hn hp (abs_nonneg _) (by norm_num)
      _ = 2 := by ring
  have m' : Approx (c * f p) (n * p) (16 * u) := approx_mono m (by nlinarith)
  exact approx_mono (approx_rnd hh hu m' hnp) (by nlinarith)

/-- the two rounded additions of the computed dot product -/
theorem fl_sum3 {u : K} {g h : K → K} (hg : IsRnd u g) (hh : IsRnd u h) (hu : 0 ≤ u)
    (h64 : 64 * u ≤ 1) {q1 q2 q3 t1 t2 t3 : K} (h1 : Approx q1 t1 (19 * u))
    (h2 : Approx q2 t2 (19 * u)) (h3 : Approx q3 t3 (19 * u)) (b1 : |t1| ≤ 2) (b2 : |t2| ≤ 2)
    (b3 : |t3| ≤ 2) : Approx (h (g (q1 + q2) + q3)) (t1 + t2 + t3) (69 * u) := by
  have hq : 64 * (u * u) ≤ u := by nlinarith [mul_nonneg hu (sub_nonneg.mpr h64)]
  have hB12 : |t1 + t2| ≤ 4 := le_trans (abs_add_le _ _) (by linarith)
  have s12 : Approx (g (q1 + q2)) (t1 + t2) (43 * u) :=
    approx_mono (approx_rnd hg hu (approx_add h1 h2) hB12) (by nlinarith)
  have hB : |t1 + t2 + t3| ≤ 6 := le_trans (abs_add_le _ _) (by linarith)
  exact approx_mono (approx_rnd hh hu (approx_add s12 h3) hB) (by nlinarith)

/-- **forward error of the plane residual**: for points with coordinates in [-1,1] (unit vectors),
    handed over as correctly rounded numbers, with ANY arithmetic whose every operation has
    relative error ≤ u ≤ 1/64, the computed `(a×b)·p` is within `69·u` of the exact value. -/
theorem plane_residual_error {u : K} (r : Nat → K → K) (hr : ∀ i, IsRnd u (r i)) (hu : 0 ≤ u)
    (h64 : 64 * u ≤ 1) (a b p : V3 K) (ha : Bounded a) (hb : Bounded b) (hp : Bounded p) :
    |flResidual r a b p - dot (cross a b) p| ≤ 69 * u := by
  obtain ⟨ax, ay, az⟩ := ha
  obtain ⟨bx, by', bz⟩ := hb
  obtain ⟨px, py, pz⟩ := hp
  have m : ∀ {x y : K}, |x| ≤ 1 → |y| ≤ 1 → |x * y| ≤ 1 := by
    intro x y hx hy; rw [abs_mul]; exact mul_le_one₀ hx (abs_nonneg _) hy
  have two : ∀ {s t : K}, |s| ≤ 1 → |t| ≤ 1 → |s - t| ≤ 2 := by
    intro s t hs ht; exact le_trans (abs_sub _ _) (by linarith)
  -- the three coordinates of the computed normal
  have cx := fl_cross_comp (hr 2) hu h64
    (fl_prod_in (hr 15) (hr 19) (hr 0) hu h64 ay bz) (fl_prod_in (hr 16) (hr 18) (hr 1) hu h64 az by')
    (m ay bz) (m az by')
  have cy := fl_cross_comp (hr 5) hu h64
    (fl_prod_in (hr 16) (hr 17) (hr 3) hu h64 az bx) (fl_prod_in (hr 14) (hr 19) (hr 4) hu h64 ax bz)
    (m az bx) (m ax bz)
  have cz := fl_cross_comp (hr 8) hu h64
    (fl_prod_in (hr 14) (hr 18) (hr 6) hu h64 ax by') (fl_prod_in (hr 15) (hr 17) (hr 7) hu h64 ay bx)
    (m ax by') (m ay bx)
  have tx := fl_term (hr 20) (hr 9) hu h64 cx (two (m ay bz) (m az by')) px
  have ty := fl_term (hr 21) (hr 10) hu h64 cy (two (m az bx) (m ax bz)) py
  have tz := fl_term (hr 22) (hr 11) hu h64 cz (two (m ax by') (m ay bx)) pz
  have b2 : ∀ {n q : K}, |n| ≤ 2 → |q| ≤ 1 → |n * q| ≤ 2 := by
    intro n q hn hq
    rw [abs_mul]
    calc |n| * |q| ≤ 2 * 1 := mul_le_mul hn hq (abs_nonneg _) (by norm_num)
      _ = 2 := by ring
  have := fl_sum3 (hr 12) (hr 13) hu h64 tx ty tz
    (b2 (two (m ay bz) (m az by')) px) (b2 (two (m az bx) (m ax bz)) py)
    (b2 (two (m ax by') (m ay bx)) pz)
  unfold Approx at this
  simpa [flResidual, flDot, flCross, rndV, dot, cross] using this


/-- a plane test with threshold `τ` REJECTS every point whose exact residual exceeds `τ + 69u` -/
theorem plane_test_rejects {u τ : K} (r : Nat → K → K) (hr : ∀ i, IsRnd u (r i)) (hu : 0 ≤ u)
    (h64 : 64 * u ≤ 1) (a b p : V3 K) (ha : Bounded a) (hb : Bounded b) (hp : Bounded p)
    (hm : τ + 69 * u < |dot (cross a b) p|) : τ < |flResidual r a b p| := by
  have h := plane_residual_error r hr hu h64 a b p ha hb hp
  have : |dot (cross a b) p| ≤ |flResidual r a b p| + |flResidual r a b p - dot (cross a b) p| := by
    have := abs_sub_le (dot (cross a b) p) (flResidual r a b p) 0
    simp only [sub_zero] at this
    rw [abs_sub_comm] at this
    linarith
  linarith

/-- a plane test with threshold `τ ≥ 69u` ACCEPTS every point that is exactly on the great circle
    (a threshold of `MACHINE_EPSILON = 2u` is not covered: the known finding / repaired tolerance) -/
theorem plane_test_accepts {u τ : K} (r : Nat → K → K) (hr : ∀ i, IsRnd u (r i)) (hu : 0 ≤ u)
    (h64 : 64 * u ≤ 1) (a b p : V3 K) (ha : Bounded a) (hb : Bounded b) (hp : Bounded p)
    (h0 : dot (cross a b) p = 0) (hτ : 69 * u ≤ τ) : |flResidual r a b p| ≤ τ := by
  have h := plane_residual_error r hr hu h64 a b p ha hb hp
  rw [h0, sub_zero] at h
  linarith

/-- the margins the driver evaluates (`offCircleBy`, `arcLenMargin` with `tol2 = tol²`) bound the
    exact residual of unit vectors from below by `tol2` -/
theorem residual_of_margins (a b p : V3 K) (ha : normSq a = 1) (hb : normSq b = 1)
    (hp : normSq p = 1) (t2 : K) (ht : 0 ≤ t2) (hoff : offCircleBy t2 a b p = true)
    (hlen : arcLenMargin t2 a b = true) : t2 ≤ |dot (cross a b) p| := by
  simp only [offCircleBy, farFromZero, arcLenMargin, decide_eq_true_eq, ha, hb, hp, mul_one] at hoff hlen
  have h1 : t2 * t2 ≤ dot (cross a b) p * dot (cross a b) p :=
    le_trans (mul_le_mul_of_nonneg_left hlen ht) hoff
  rw [← abs_mul_abs_self (dot (cross a b) p)] at h1
  by_contra hlt
  rw [not_le] at hlt
  have := mul_lt_mul'' hlt hlt (abs_nonneg _) (abs_nonneg _)
  linarith

/-- **the 1e-6 margin is enough for the plane decision**: for unit points judged by the harness
    (exact margin `tol` from the great circle, arc at least `tol` from degenerate), every
    evaluation in the standard model with `τ + 69u < tol²` rejects an off-circle point, and every
    evaluation with `69u ≤ τ` accepts an on-circle point. -/
theorem margin_decides_plane_test {u τ t2 : K} (r : Nat → K → K) (hr : ∀ i, IsRnd u (r i))
    (hu : 0 ≤ u) (h64 : 64 * u ≤ 1) (a b p : V3 K) (ha : normSq a = 1) (hb : normSq b = 1)
    (hp : normSq p = 1) (ht : 0 ≤ t2) (hlen : arcLenMargin t2 a b = true) :
    (offCircleBy t2 a b p = true → τ + 69 * u < t2 → τ < |flResidual r a b p|) ∧
    (dot (cross a b) p = 0 → 69 * u ≤ τ → |flResidual r a b p| ≤ τ) := by
  refine ⟨fun hoff hτ => ?_, fun h0 hτ => ?_⟩
  · exact plane_test_rejects r hr hu h64 a b p (bounded_of_unit ha) (bounded_of_unit hb)
      (bounded_of_unit hp) (lt_of_lt_of_le hτ (residual_of_margins a b p ha hb hp t2 ht hoff hlen))
  · exact plane_test_accepts r hr hu h64 a b p (bounded_of_unit ha) (bounded_of_unit hb)
      (bounded_of_unit hp) h0 hτ

end FloatError

/-- the numbers for IEEE doubles (`u = 2⁻⁵³`) and the regenerated constants: the as-is threshold
    `MACHINE_EPSILON` satisfies the rejection condition for the 1e-6 margin (`tol² = 1e-12`) but
    NOT the acceptance condition `69u ≤ τ` (known finding); `ERROR_TOLERANCE·|n|` with
    `|n| ≥ 1e-6` (fixes/C14-plane-test-relative-tolerance.patch) satisfies both. -/
theorem double_plane_thresholds :
    let u : Rat := 1 / 2 ^ 53
    let eps : Rat := mkRat Gen.MACHINE_EPSILON_num Gen.MACHINE_EPSILON_den
    let et : Rat := mkRat Gen.ERROR_TOLERANCE_num Gen.ERROR_TOLERANCE_den
    64 * u ≤ 1 ∧ eps + 69 * u < 1 / 10 ^ 12 ∧ ¬ (69 * u ≤ eps) ∧
    69 * u ≤ et * (1 / 10 ^ 6) * (99 / 100) ∧ et * (101 / 100) + 69 * u < 1 / 10 ^ 6 := by
  decide +kernel


/-! ## The regenerated tolerance constants (translator tie)

  The harness judges only inputs whose exact margin is ≥ 1e-6 rad and accepts returned points up
  to 1e-9.  These statements are about the constants as they stand in `uxarray/constants.py`
  *now* (`Gen/Constants.lean` is rewritten on every run): the library's own tolerances stay far
  inside the margin, so no tolerance of the library can legitimately decide a judged case.  If
  the constants are changed beyond that, this theorem stops checking. -/
theorem library_tolerances_below_margin :
    0 < Gen.ERROR_TOLERANCE_num ∧
    Gen.ERROR_TOLERANCE_num * 50 * 10 ^ 6 ≤ (Gen.ERROR_TOLERANCE_den : Int) ∧
    0 < Gen.MACHINE_EPSILON_num ∧
    Gen.MACHINE_EPSILON_num * 10 ^ 15 ≤ (Gen.MACHINE_EPSILON_den : Int) := by
  decide +kernel

/-! ## Non-vacuity: concrete inputs meeting the hypotheses (evaluated by the kernel at `ℚ`) -/
section Examples

private def v (x y z : Int) : V3 Rat := ⟨x, y, z⟩
private def u (x y z r : Int) : V3 Rat := ⟨mkRat x r.toNat, mkRat y r.toNat, mkRat z r.toNat⟩

-- membership, both ways, and its invariances instantiated
example : OnArc (v 1 0 0) (v 0 1 0) (v 1 1 0) ∧ ¬ OnArc (v 1 0 0) (v 0 1 0) (v (-1) 1 0) ∧
    ¬ OnArc (v 1 0 0) (v 0 1 0) (v 1 1 1) := by decide +kernel
example : OnArc (v 0 1 0) (v 1 0 0) (v 1 1 0) := (onArc_swap (v 1 0 0) (v 0 1 0) (v 1 1 0)).mpr (by decide +kernel)
-- a rotation about z by the Pythagorean angle (3/5, 4/5)
example : (mkRat 3 5 : Rat) * mkRat 3 5 + mkRat 4 5 * mkRat 4 5 = 1 := by decide +kernel
example : OnArc (rotZ (mkRat 3 5) (mkRat 4 5) (v 1 0 0)) (rotZ (mkRat 3 5) (mkRat 4 5) (v 0 1 0))
    (rotZ (mkRat 3 5) (mkRat 4 5) (v 1 1 0)) :=
  (onArc_rotZ (by decide +kernel) _ _ _).mpr (by decide +kernel)
-- the cone characterisation has a valid arc to talk about
example : ValidArc (v 1 0 0) (v 0 1 0) := by decide +kernel
-- a crossing: hypotheses of `crossing_one` / `common_point_reported`, and its conclusion observed
example : DiffCircles (v 1 0 0) (v 0 1 0) (v 1 1 1) (v 1 1 (-1)) ∧ v 1 1 0 ≠ zero ∧
    OnBoth (v 1 0 0) (v 0 1 0) (v 1 1 1) (v 1 1 (-1)) (v 1 1 0) := by decide +kernel
example : intersections (v 1 0 0) (v 0 1 0) (v 1 1 1) (v 1 1 (-1)) = [v 2 2 0] := by decide +kernel
-- disjoint arcs on different great circles: nothing reported
example : DiffCircles (v 1 0 0) (v 0 1 0) (v (-1) (-1) 1) (v (-1) (-1) (-1)) ∧
    intersections (v 1 0 0) (v 0 1 0) (v (-1) (-1) 1) (v (-1) (-1) (-1)) = [] := by decide +kernel
-- an arc through the north pole, across the antimeridian, along the equator
example : OnArc (v 3 0 4) (v (-3) 0 4) (v 0 0 1) ∧ OnArc (v (-1) 1 0) (v (-1) (-1) 0) (v (-1) 0 0) ∧
    ¬ OnArc (v (-1) 1 0) (v (-1) (-1) 0) (v 1 0 0) := by decide +kernel
-- extreme latitude: unit end points with the apex inside / not inside
example : normSq (u 3 0 4 5) = 1 ∧ normSq (u 0 3 4 5) = 1 ∧ ValidArc (u 3 0 4 5) (u 0 3 4 5) ∧
    ApexInside (u 3 0 4 5) (u 0 3 4 5) ∧ extremeMax (u 3 0 4 5) (u 0 3 4 5) = (true, mkRat 32 41) := by
  decide +kernel
example : normSq (u 3 4 0 5) = 1 ∧ ValidArc (u 3 4 0 5) (u 0 3 4 5) ∧ ¬ ApexInside (u 3 4 0 5) (u 0 3 4 5) ∧
    extremeMax (u 3 4 0 5) (u 0 3 4 5) = (false, mkRat 4 5) ∧
    extremeMin (u 3 4 0 5) (u 0 3 4 5) = (false, 0) := by decide +kernel
example : NadirInside (u 3 0 (-4) 5) (u 0 3 (-4) 5) ∧
    extremeMin (u 3 0 (-4) 5) (u 0 3 (-4) 5) = (true, mkRat 32 41) := by decide +kernel
-- the closed form of the code: non-degenerate denominator, interior branch taken
example : (u 3 0 4 5).z + (u 0 3 4 5).z ≠ 0 ∧ codeInterior (u 3 0 4 5) (u 0 3 4 5) := by decide +kernel
-- Cartesian witnesses of the two as-is defects (not on the arc, yet accepted before the repair)
example : ValidArc (v 1 0 0) (v (-4) 0 (-3)) ∧ ¬ OnArc (v 1 0 0) (v (-4) 0 (-3)) (v (-3) 0 4) := by
  decide +kernel
example : ValidArc (v 3 0 4) (v (-4) 0 3) ∧ ¬ OnArc (v 3 0 4) (v (-4) 0 3) (v 4 0 3) := by decide +kernel
example : asIsPoleBranch (4 : Rat) 0 0 4 (-1) 4 1 = true := by decide +kernel

-- purity is not vacuous: a step that leaves the interior chord point in the first end point's slot
-- (the shape of an in-place `node3 = n1; node3 += d*(n2-n1)`) answers 'max' correctly, and the
-- next call on the same object – is the original first end point on the arc? – answers for a
-- truncated arc
example : codeInterior (u 3 0 4 5) (u 0 4 3 5) ∧
    (runWith stepOverwrite (u 3 0 4 5, u 0 4 3 5) [.extMax]).2 =
      (runSession (u 3 0 4 5, u 0 4 3 5) [.extMax]).2 ∧
    (runWith stepOverwrite (u 3 0 4 5, u 0 4 3 5) [.extMax, .within (u 3 0 4 5)]).2.getLast?
      = some (.bool false) ∧
    (runSession (u 3 0 4 5, u 0 4 3 5) [.extMax, .within (u 3 0 4 5)]).2.getLast?
      = some (.bool true) := by decide +kernel
example : (runSession (u 3 0 4 5, u 0 3 4 5) [.extMax, .within (v 1 1 2), .extMin]).1
    = (u 3 0 4 5, u 0 3 4 5) := session_state_const _ _

-- the boundary classes exist: opposite latitudes (denominator exactly 0), a quarter turn, a T-junction
example : normSq (u 3 0 4 5) = 1 ∧ normSq (u 0 3 (-4) 5) = 1 ∧ (u 3 0 4 5).z = -(u 0 3 (-4) 5).z ∧
    ValidArc (u 3 0 4 5) (u 0 3 (-4) 5) ∧
    ((u 3 0 4 5).z + (u 0 3 (-4) 5).z) * (dot (u 3 0 4 5) (u 0 3 (-4) 5) - 1) = 0 ∧
    extremeMax (u 3 0 4 5) (u 0 3 (-4) 5) = (false, mkRat 4 5) := by decide +kernel
example : dot (u 2 (-2) 1 3) (u 1 2 2 3) = 0 ∧ ApexInside (u 2 (-2) 1 3) (u 1 2 2 3) := by decide +kernel
example : DiffCircles (v 1 0 0) (v 0 1 0) (v 1 1 0) (v 0 0 1) ∧ v 1 1 0 ≠ zero ∧
    OnArc (v 1 0 0) (v 0 1 0) (v 1 1 0) ∧
    intersections (v 1 0 0) (v 0 1 0) (v 1 1 0) (v 0 0 1) = [v 1 1 0] := by decide +kernel
example : ¬ DiffCircles (v 1 0 0) (v 0 1 0) (v 1 1 0) (v (-1) 1 0) :=
  same_circle_not_diff _ _ _ _ (by decide +kernel) (by decide +kernel)
-- the float model is not vacuous: a rounding that inflates every result by 1/64 is in the class,
-- unit vectors are bounded, and the margin hypotheses hold for a concrete off-circle point
example : IsRnd (1 / 64 : Rat) (fun x => x * (1 + 1 / 64)) := by
  intro x
  have : x * (1 + 1 / 64) - x = 1 / 64 * x := by ring
  rw [this, abs_mul]
  norm_num
example : normSq (u 3 0 4 5) = 1 ∧ normSq (u 0 4 3 5) = 1 ∧ normSq (u 0 0 1 1) = 1 ∧
    offCircleBy (mkRat 1 (10 ^ 12)) (u 3 0 4 5) (u 0 4 3 5) (u 0 0 1 1) = true ∧
    arcLenMargin (mkRat 1 (10 ^ 12)) (u 3 0 4 5) (u 0 4 3 5) = true := by decide +kernel

end Examples

end UxVerif.C14
