/-
  C20 — Grid equality distinguishes any difference in coordinates or connectivity.

  Every theorem is about ALL grids: arbitrary format strings, arbitrary (unbounded) lists of
  IEEE-754 bit patterns for the node longitudes / latitudes (NaNs, ±0, infinities included),
  arbitrary connectivity tables of any shape, and any non-Grid right operand.

  `gridEq` is the REPAIRED `Grid.__eq__`: connective `and` (fixes/C20-eq-connective.patch) and
  VARIABLES compared instead of DataArrays (fixes/C20-eq-compares-variables.patch).  For it the
  whole Spec is proved without hypotheses: `gridEq_iff` (`a == b` ⇔ same format and identical
  arrays), `impl_meets_spec`, `single_change_detected`, `eq_refl`, `eq_symm`, `eq_trans`,
  `ne_iff_not_eq`, `copy_eq`, `non_grid_false`, `backing_irrelevant`, `eq_implies_same_shape`.

  Regression witnesses for the two earlier versions of the code (proved counterexamples):
  `gridEqAsIs` (snapshot, `or`): `asis_violates_spec`;
  `gridEqCoords` (`and`, `DataArray.equals`, coordinates compared too):
  `coords_structure_violates_spec`, exact behaviour `gridEqCoords_iff`, agreement class
  `coords_partial` (same coordinates attached to all three variables);
  `gridEqConnDA` (node variables compared, connectivity as a DataArray again):
  `conn_coords_violate_spec`, `gridEqConnDA_iff`.
  `eq_ignores_coord_storage`: the repaired `==` reads no coordinate attached to any of the three
  compared variables (node, face, width dimension or scalar).
-/
import UxVerif.Model.GridEq

namespace UxVerif.C20
open UxVerif UxVerif.GridEq

/-! ## The specification (Prop level, never edited to make a proof pass) -/

/-- the bit pattern is a NaN -/
def IsNaN (b : Nat) : Prop := (b / 2 ^ 52) % 2048 = 2047 ∧ b % 2 ^ 52 ≠ 0
/-- the bit pattern is `+0.0` or `-0.0` -/
def IsZero (b : Nat) : Prop := b % 2 ^ 63 = 0

/-- two doubles are *identical as array entries* (`DataArray.equals`): both NaN, or the same
    number (same bits, or both a zero). -/
def ValSame (x y : Nat) : Prop :=
  (IsNaN x ∧ IsNaN y) ∨ (¬ IsNaN x ∧ ¬ IsNaN y ∧ (x = y ∨ (IsZero x ∧ IsZero y)))

/-- identical 1-D arrays: same length and entry-wise identical. -/
def ArrSame {α : Type} (R : α → α → Prop) (l₁ l₂ : List α) : Prop :=
  l₁.length = l₂.length ∧ ∀ (i : Nat) (h₁ : i < l₁.length) (h₂ : i < l₂.length), R l₁[i] l₂[i]

/-- same format and identical node longitudes, node latitudes and face-node connectivity
    (identical arrays: same shape, entry-wise identical). -/
def Same (a b : Grid) : Prop :=
  a.spec = b.spec ∧ ArrSame ValSame a.lon b.lon ∧ ArrSame ValSame a.lat b.lat ∧
    a.nFace = b.nFace ∧ a.width = b.width ∧ a.conn = b.conn

/-- **Spec**: `a == b` is True iff the grids are the same in the above sense, and `a != b` is
    its negation. -/
def Spec (a b : Grid) (eqOut neOut : Bool) : Prop :=
  (eqOut = true ↔ Same a b) ∧ neOut = !eqOut

/-- one single change of `a` (or a change of a size / of the format) -/
inductive Change (a : Grid) : Grid → Prop
  /-- one longitude replaced by a different value -/
  | lon (i v : Nat) (hi : i < a.lon.length) (hv : valEq a.lon[i] v = false) :
      Change a { a with lon := a.lon.set i v }
  /-- one latitude replaced by a different value -/
  | lat (i v : Nat) (hi : i < a.lat.length) (hv : valEq a.lat[i] v = false) :
      Change a { a with lat := a.lat.set i v }
  /-- one connectivity entry replaced by a different integer (a node index or the fill value) -/
  | conn (i : Nat) (v : Int) (hi : i < a.conn.length) (hv : a.conn[i] ≠ v) :
      Change a { a with conn := a.conn.set i v }
  /-- any grid with another number of nodes (whatever else it contains) -/
  | nNode (b : Grid) (h : b.lon.length ≠ a.lon.length ∨ b.lat.length ≠ a.lat.length) : Change a b
  /-- any grid with another number of faces -/
  | nFace (b : Grid) (h : b.nFace ≠ a.nFace) : Change a b
  /-- any grid with another connectivity width -/
  | width (b : Grid) (h : b.width ≠ a.width) : Change a b
  /-- any grid stemming from another format -/
  | format (b : Grid) (h : b.spec ≠ a.spec) : Change a b

/-! ## element comparison: reflection and equivalence -/

theorem isNaN_iff (b : Nat) : isNaN b = true ↔ IsNaN b := by
  simp [isNaN, IsNaN, expBits, manBits]

theorem isZero_iff (b : Nat) : isZero b = true ↔ IsZero b := by
  simp [isZero, IsZero]

theorem valEq_iff (x y : Nat) : valEq x y = true ↔ ValSame x y := by
  simp only [ValSame, ← isNaN_iff, ← isZero_iff, valEq, ieeeEq]
  cases isNaN x <;> cases isNaN y <;> simp

/-- NaN-aware equality is reflexive (plain IEEE `==` is not: `asis`-free fact `ieeeEq_nan`). -/
theorem valEq_refl (x : Nat) : valEq x x = true := by
  simp only [valEq, ieeeEq]
  cases isNaN x <;> simp

theorem ValSame.symm {x y : Nat} (h : ValSame x y) : ValSame y x := by
  rcases h with ⟨hx, hy⟩ | ⟨hx, hy, h⟩
  · exact Or.inl ⟨hy, hx⟩
  · refine Or.inr ⟨hy, hx, ?_⟩
    rcases h with h | ⟨h1, h2⟩
    · exact Or.inl h.symm
    · exact Or.inr ⟨h2, h1⟩

theorem ValSame.trans {x y z : Nat} (h1 : ValSame x y) (h2 : ValSame y z) : ValSame x z := by
  rcases h1 with ⟨hx, hy⟩ | ⟨hx, hy, h1⟩
  · rcases h2 with ⟨_, hz⟩ | ⟨hy', _, _⟩
    · exact Or.inl ⟨hx, hz⟩
    · exact absurd hy hy'
  · rcases h2 with ⟨hy', _⟩ | ⟨_, hz, h2⟩
    · exact absurd hy' hy
    · refine Or.inr ⟨hx, hz, ?_⟩
      rcases h1 with rfl | ⟨zx, zy⟩
      · exact h2
      · rcases h2 with rfl | ⟨_, zz⟩
        · exact Or.inr ⟨zx, zy⟩
        · exact Or.inr ⟨zx, zz⟩

theorem valEq_symm (x y : Nat) : valEq x y = valEq y x := by
  rw [Bool.eq_iff_iff, valEq_iff, valEq_iff]
  exact ⟨ValSame.symm, ValSame.symm⟩

theorem valEq_trans {x y z : Nat} (h1 : valEq x y = true) (h2 : valEq y z = true) :
    valEq x z = true :=
  (valEq_iff x z).mpr (((valEq_iff x y).mp h1).trans ((valEq_iff y z).mp h2))

/-- plain IEEE equality is NOT reflexive on a NaN — which is why `equals` is NaN-aware. -/
theorem ieeeEq_nan : ieeeEq 0x7FF8000000000000 0x7FF8000000000000 = false := by decide

/-! ## array comparison -/

variable {α : Type}

/-- `arrEq` is True exactly when the shapes agree and every pair of entries compares equal. -/
theorem arrEq_true_iff (eq : α → α → Bool) (l₁ l₂ : List α) :
    arrEq eq l₁ l₂ = true ↔
      l₁.length = l₂.length ∧
        ∀ (i : Nat) (h₁ : i < l₁.length) (h₂ : i < l₂.length), eq l₁[i] l₂[i] = true := by
  induction l₁ generalizing l₂ with
  | nil =>
    cases l₂ with
    | nil => simp [arrEq]
    | cons y ys => simp [arrEq]
  | cons x xs ih =>
    cases l₂ with
    | nil => simp [arrEq]
    | cons y ys =>
      simp only [arrEq, Bool.and_eq_true, ih, List.length_cons, Nat.add_right_cancel_iff]
      constructor
      · rintro ⟨h0, hl, hr⟩
        refine ⟨hl, ?_⟩
        intro i h₁ h₂
        cases i with
        | zero => exact h0
        | succ i => exact hr i (Nat.lt_of_succ_lt_succ h₁) (Nat.lt_of_succ_lt_succ h₂)
      · rintro ⟨hl, hr⟩
        refine ⟨hr 0 (Nat.succ_pos _) (Nat.succ_pos _), hl, ?_⟩
        intro i h₁ h₂
        exact hr (i + 1) (Nat.succ_lt_succ h₁) (Nat.succ_lt_succ h₂)

/-- a difference in length or in ANY ONE entry makes the comparison False. -/
theorem arrEq_false_iff (eq : α → α → Bool) (l₁ l₂ : List α) :
    arrEq eq l₁ l₂ = false ↔
      l₁.length ≠ l₂.length ∨
        ∃ (i : Nat) (h₁ : i < l₁.length) (h₂ : i < l₂.length), eq l₁[i] l₂[i] = false := by
  rw [← Bool.not_eq_true, arrEq_true_iff]
  constructor
  · intro h
    cases Nat.decEq l₁.length l₂.length with
    | isFalse hne => exact Or.inl hne
    | isTrue he =>
      refine Or.inr ?_
      apply Classical.byContradiction
      intro hno
      apply h
      refine ⟨he, ?_⟩
      intro i h₁ h₂
      cases hv : eq l₁[i] l₂[i] with
      | true => rfl
      | false => exact absurd ⟨i, h₁, h₂, hv⟩ hno
  · rintro (hne | ⟨i, h₁, h₂, hv⟩) ⟨he, hall⟩
    · exact hne he
    · rw [hall i h₁ h₂] at hv; cases hv

theorem arrEq_refl (eq : α → α → Bool) (hr : ∀ x, eq x x = true) (l : List α) :
    arrEq eq l l = true := by
  induction l with
  | nil => rfl
  | cons x xs ih => simp [arrEq, hr, ih]

theorem arrEq_symm (eq : α → α → Bool) (hs : ∀ x y, eq x y = eq y x) (l₁ l₂ : List α) :
    arrEq eq l₁ l₂ = arrEq eq l₂ l₁ := by
  induction l₁ generalizing l₂ with
  | nil => cases l₂ <;> rfl
  | cons x xs ih =>
    cases l₂ with
    | nil => rfl
    | cons y ys => simp only [arrEq, hs x y, ih ys]

/-- replacing ONE entry by a value that compares different is detected, wherever it is. -/
theorem arrEq_set_false (eq : α → α → Bool) (l : List α) (i : Nat) (v : α) (hi : i < l.length)
    (hv : eq l[i] v = false) : arrEq eq l (l.set i v) = false := by
  induction l generalizing i with
  | nil => simp at hi
  | cons x xs ih =>
    cases i with
    | zero => simp only [List.getElem_cons_zero] at hv; simp [arrEq, hv]
    | succ i =>
      simp only [List.getElem_cons_succ] at hv
      simp [arrEq, ih i (by simpa using hi) hv]

theorem arrEq_intEq_iff (l₁ l₂ : List Int) : arrEq intEq l₁ l₂ = true ↔ l₁ = l₂ := by
  induction l₁ generalizing l₂ with
  | nil => cases l₂ <;> simp [arrEq]
  | cons x xs ih => cases l₂ <;> simp [arrEq, intEq, ih]

theorem arrEq_iff_arrSame (eq : α → α → Bool) (R : α → α → Prop)
    (h : ∀ x y, eq x y = true ↔ R x y) (l₁ l₂ : List α) :
    arrEq eq l₁ l₂ = true ↔ ArrSame R l₁ l₂ := by
  simp only [arrEq_true_iff, ArrSame, h]

theorem arrEq_valEq_iff (l₁ l₂ : List Nat) :
    arrEq valEq l₁ l₂ = true ↔ ArrSame ValSame l₁ l₂ :=
  arrEq_iff_arrSame valEq ValSame valEq_iff l₁ l₂

/-! ## refinement: what the (repaired) implementation computes -/

theorem connEq_iff (a b : Grid) :
    connEq a b = true ↔ a.nFace = b.nFace ∧ a.width = b.width ∧ a.conn = b.conn := by
  simp [connEq, arrEq_intEq_iff, and_assoc]

/-- `Same` in terms of the model's own comparisons. -/
theorem same_iff_bools (a b : Grid) :
    Same a b ↔ a.spec = b.spec ∧ arrEq valEq a.lon b.lon = true ∧
      arrEq valEq a.lat b.lat = true ∧ connEq a b = true := by
  unfold Same
  rw [← arrEq_valEq_iff, ← arrEq_valEq_iff, ← connEq_iff]

/-- **exact characterisation of `==`** (repaired): True iff same format, identical longitudes,
    latitudes and connectivity — nothing else (in particular not the way the source dataset
    stored the coordinates). -/
theorem gridEq_iff (a b : Grid) : gridEq a b = true ↔ Same a b := by
  rw [same_iff_bools]
  unfold gridEq lonEq latEq
  generalize arrEq valEq a.lon b.lon = L
  generalize arrEq valEq a.lat b.lat = T
  generalize connEq a b = C
  by_cases hs : a.spec = b.spec
  · cases L <;> cases T <;> cases C <;> simp [hs]
  · simp [hs]

/-- **equal ⇒ same**: whenever `a == b` is True the grids stem from the same format and have
    identical longitudes, latitudes and connectivity. -/
theorem eq_sound (a b : Grid) (h : gridEq a b = true) : Same a b := (gridEq_iff a b).mp h

/-- **same ⇒ equal**, for all pairs. -/
theorem eq_complete (a b : Grid) (h : Same a b) : gridEq a b = true := (gridEq_iff a b).mpr h

/-- **`==` reads no coordinate attached to any of the three compared variables**: whatever
    coordinates (on the node, face or width dimension, or scalar) the source datasets attached to
    `node_lon`, `node_lat` and `face_node_connectivity` on either side, the result is the same. -/
theorem eq_ignores_coord_storage (a b : Grid) (x y z x' y' z' : List Coord) :
    gridEq { a with cLon := x, cLat := y, cConn := z } { b with cLon := x', cLat := y', cConn := z' }
      = gridEq a b := rfl

/-- `Same` does not mention the attached coordinates either (the Spec is about the values). -/
theorem same_ignores_coord_storage (a b : Grid) (x y z x' y' z' : List Coord) :
    Same { a with cLon := x, cLat := y, cConn := z } { b with cLon := x', cLat := y', cConn := z' }
      ↔ Same a b := Iff.rfl

/-- every way of being unequal: the 2^4 combinations of differing fields collapse to "some
    comparison fails". -/
theorem gridEq_false_iff (a b : Grid) :
    gridEq a b = false ↔
      a.spec ≠ b.spec ∨ lonEq a b = false ∨ latEq a b = false ∨ connEq a b = false := by
  unfold gridEq
  by_cases hs : a.spec = b.spec
  · cases h1 : lonEq a b <;> cases h2 : latEq a b <;> cases h3 : connEq a b <;> simp [hs]
  · simp [hs]

/-- **refinement**: for EVERY pair of grids the outputs of `==` and `!=` satisfy the Spec. -/
theorem impl_meets_spec (a b : Grid) : Spec a b (pyEq a (.grid b)) (pyNe a (.grid b)) :=
  ⟨gridEq_iff a b, rfl⟩

example : Spec ⟨[85], [0, 1], [0, 0], 1, 2, [0, 1], [], [], []⟩ ⟨[85], [0, 1], [0, 0], 1, 2, [0, 1], [⟨[1], [0, 1]⟩], [⟨[1], [0, 1]⟩], [⟨[7], [5]⟩]⟩
    true false := impl_meets_spec _ _
example : Spec ⟨[85], [0, 1], [0, 0], 1, 2, [0, 1], [⟨[1], [0, 1]⟩], [⟨[1], [0, 1]⟩], [⟨[7], [5]⟩]⟩ ⟨[85], [0, 2], [0, 0], 1, 2, [0, 1], [⟨[1], [0, 1]⟩], [⟨[1], [0, 1]⟩], [⟨[7], [5]⟩]⟩
    false true := impl_meets_spec _ _

/-- the Spec determines both outputs: "Spec fails on the observed output" and "observed output
    differs from the model" coincide. -/
theorem spec_unique (a b : Grid) (e n : Bool) (h : Spec a b e n) :
    e = gridEq a b ∧ n = !gridEq a b := by
  obtain ⟨h1, h2⟩ := h
  have he : e = gridEq a b := by
    rw [Bool.eq_iff_iff, h1, gridEq_iff a b]
  exact ⟨he, by rw [h2, he]⟩

/-! ## the laws named by the property -/

theorem Same.refl (a : Grid) : Same a a :=
  ⟨rfl, (arrEq_valEq_iff _ _).mp (arrEq_refl valEq valEq_refl _),
    (arrEq_valEq_iff _ _).mp (arrEq_refl valEq valEq_refl _), rfl, rfl, rfl⟩

theorem Same.symm {a b : Grid} (h : Same a b) : Same b a := by
  obtain ⟨h1, h2, h3, h4, h5, h6⟩ := h
  refine ⟨h1.symm, ?_, ?_, h4.symm, h5.symm, h6.symm⟩
  · rw [← arrEq_valEq_iff] at h2 ⊢; rwa [arrEq_symm valEq valEq_symm]
  · rw [← arrEq_valEq_iff] at h3 ⊢; rwa [arrEq_symm valEq valEq_symm]

theorem Same.trans {a b c : Grid} (h1 : Same a b) (h2 : Same b c) : Same a c := by
  obtain ⟨a1, a2, a3, a4, a5, a6⟩ := h1
  obtain ⟨b1, b2, b3, b4, b5, b6⟩ := h2
  refine ⟨a1.trans b1, ?_, ?_, a4.trans b4, a5.trans b5, a6.trans b6⟩
  · refine ⟨a2.1.trans b2.1, fun i h₁ h₂ => ?_⟩
    exact (a2.2 i h₁ (a2.1 ▸ h₁)).trans (b2.2 i (a2.1 ▸ h₁) h₂)
  · refine ⟨a3.1.trans b3.1, fun i h₁ h₂ => ?_⟩
    exact (a3.2 i h₁ (a3.1 ▸ h₁)).trans (b3.2 i (a3.1 ▸ h₁) h₂)

/-- **reflexive**: every grid equals itself — also one whose coordinates contain NaN. -/
theorem eq_refl (a : Grid) : gridEq a a = true := (gridEq_iff a a).mpr (Same.refl a)

example : gridEq ⟨[85], [0x7FF8000000000000, 1], [0, 0], 1, 2, [0, FILL], [], [], []⟩
    ⟨[85], [0x7FF8000000000000, 1], [0, 0], 1, 2, [0, FILL], [], [], []⟩ = true := eq_refl _

/-- **symmetric**: `a == b` and `b == a` always agree. -/
theorem eq_symm (a b : Grid) : gridEq a b = gridEq b a := by
  rw [Bool.eq_iff_iff, gridEq_iff, gridEq_iff]
  exact ⟨Same.symm, Same.symm⟩

/-- (beyond the statement) equality is transitive, hence an equivalence relation on grids. -/
theorem eq_trans {a b c : Grid} (h1 : gridEq a b = true) (h2 : gridEq b c = true) :
    gridEq a c = true := by
  rw [gridEq_iff] at *
  exact h1.trans h2

/-- **`!=` is the negation of `==`**, for a Grid or any other right operand. -/
theorem ne_iff_not_eq (a : Grid) (o : Obj) : pyNe a o = true ↔ ¬ (pyEq a o = true) := by
  simp [pyNe]

theorem ne_eq_not (a : Grid) (o : Obj) : pyNe a o = !pyEq a o := rfl

/-- **comparison with a non-Grid is False** (and `!=` is True), whatever the object is. -/
theorem non_grid_false (a : Grid) (t : Nat) :
    pyEq a (.other t) = false ∧ pyNe a (.other t) = true := ⟨rfl, rfl⟩

/-- **a copy of a grid equals the grid**, in both operand orders. -/
theorem copy_eq (a : Grid) :
    pyEq a (.grid (copy a)) = true ∧ pyEq (copy a) (.grid a) = true ∧
      pyNe a (.grid (copy a)) = false ∧ pyNe (copy a) (.grid a) = false := by
  have hc : copy a = a := by cases a; rfl
  simp [pyNe, pyEq, hc, eq_refl]

example : pyEq ⟨[85], [0, 1], [0, 0], 1, 2, [0, 1], [⟨[1], [0, 1]⟩], [⟨[1], [0, 1]⟩], [⟨[7], [5]⟩]⟩
    (.grid (copy ⟨[85], [0, 1], [0, 0], 1, 2, [0, 1], [⟨[1], [0, 1]⟩], [⟨[1], [0, 1]⟩], [⟨[7], [5]⟩]⟩)) = true := (copy_eq _).1

theorem not_same_of_change {a b : Grid} (h : Change a b) : ¬ Same a b := by
  intro hs
  obtain ⟨h1, h2, h3, h4, h5, h6⟩ := hs
  rw [← arrEq_valEq_iff] at h2 h3
  cases h with
  | lon i v hi hv => simp [arrEq_set_false valEq a.lon i v hi hv] at h2
  | lat i v hi hv => simp [arrEq_set_false valEq a.lat i v hi hv] at h3
  | conn i v hi hv =>
    have := congrArg (fun l => l[i]?) h6
    simp [hi] at this
    exact hv this
  | nNode _ h =>
    have l2 := ((arrEq_true_iff _ _ _).mp h2).1
    have l3 := ((arrEq_true_iff _ _ _).mp h3).1
    rcases h with h | h
    · exact h l2.symm
    · exact h l3.symm
  | nFace _ h => exact h h4.symm
  | width _ h => exact h h5.symm
  | format _ h => exact h h1.symm

/-- (stronger, beyond single changes) ANY difference — in any number of entries — is detected. -/
theorem any_difference_detected (a b : Grid) (h : ¬ Same a b) : gridEq a b = false := by
  cases hh : gridEq a b with
  | false => rfl
  | true => exact absurd (eq_sound a b hh) h

/-- **any single change is detected** (unconditional): replacing one longitude, one latitude or
    one connectivity entry (at any position, by any different value — another number, a NaN, the
    fill value), or changing the number of nodes or faces (or the width / the format), makes the
    grids unequal, in both operand orders, and `!=` True. -/
theorem single_change_detected {a b : Grid} (h : Change a b) :
    gridEq a b = false ∧ gridEq b a = false ∧ pyNe a (.grid b) = true ∧ pyNe b (.grid a) = true := by
  have h1 : gridEq a b = false := any_difference_detected a b (not_same_of_change h)
  have h2 : gridEq b a = false := by rw [eq_symm]; exact h1
  simp [pyNe, pyEq, h1, h2]

-- non-vacuity: one longitude changed by one ulp; a node replaced by the fill value; a node added
example : gridEq ⟨[85], [4607182418800017408, 0], [0, 0], 1, 2, [0, 1], [], [], []⟩
    ⟨[85], [4607182418800017409, 0], [0, 0], 1, 2, [0, 1], [], [], []⟩ = false :=
  (single_change_detected (Change.lon (a := ⟨[85], [4607182418800017408, 0], [0, 0], 1, 2, [0, 1], [], [], []⟩)
    0 4607182418800017409 (by decide) (by decide))).1
example : gridEq ⟨[85], [1, 0], [0, 0], 1, 2, [0, 1], [], [], []⟩
    ⟨[85], [1, 0], [0, 0], 1, 2, [0, FILL], [], [], []⟩ = false :=
  (single_change_detected (Change.conn (a := ⟨[85], [1, 0], [0, 0], 1, 2, [0, 1], [], [], []⟩)
    1 FILL (by decide) (by decide))).1
example : gridEq ⟨[85], [1, 0], [0, 0], 1, 2, [0, 1], [], [], []⟩
    ⟨[85], [1, 0, 5], [0, 0, 5], 1, 2, [0, 1], [], [], []⟩ = false :=
  (single_change_detected (Change.nNode _ (Or.inl (by decide)))).1

/-- two coordinate arrays are reported different iff the lengths differ or some entry does. -/
theorem coordArr_false_iff (l₁ l₂ : List Nat) :
    arrEq valEq l₁ l₂ = false ↔
      l₁.length ≠ l₂.length ∨
        ∃ (i : Nat) (h₁ : i < l₁.length) (h₂ : i < l₂.length), valEq l₁[i] l₂[i] = false :=
  arrEq_false_iff valEq l₁ l₂

/-! ## reflection of the executable checker -/

theorem sameB_iff (a b : Grid) : sameB a b = true ↔ Same a b := by
  simp [sameB, Same, arrEq_valEq_iff, and_assoc]

/-- **`specB` decides `Spec`** — the driver's verdict on the implementation's outputs is the
    Spec's. -/
theorem specB_iff (a b : Grid) (e n : Bool) : specB a b e n = true ↔ Spec a b e n := by
  simp only [specB, Spec, ← sameB_iff]
  cases e <;> cases n <;> cases sameB a b <;> simp

theorem failing_nil_iff (a b : Grid) (e n : Bool) : failing a b e n = [] ↔ Spec a b e n := by
  rw [← specB_iff]
  simp only [failing, specB]
  cases h1 : (e == sameB a b) <;> cases h2 : (n == !e) <;> simp

/-! ## the version before fixes/C20-eq-compares-variables.patch: the way the coordinates are
    stored leaked into `==` — regression witness

    Same triangle, same format, identical arrays; `cA` keeps `node_lon`/`node_lat` as data
    variables, `cB` as xarray coordinates.  `DataArray.equals` compares coordinates too. -/

def cA : Grid := ⟨[85], [0, 4621819117588971520, 4626322717216342016],
  [0, 0, 4617315517961601024], 1, 3, [0, 1, 2], [], [], []⟩
def nodeCoords (g : Grid) : List Coord := [⟨[1], g.lon⟩, ⟨[2], g.lat⟩]
def cB : Grid := { cA with cLon := nodeCoords cA, cLat := nodeCoords cA }

/-- what `DataArray.equals` made of `==`: also the same coordinates attached to each of the
    three variables. -/
theorem gridEqCoords_iff (a b : Grid) :
    gridEqCoords a b = true ↔ Same a b ∧ sameCoords a b = true := by
  rw [same_iff_bools]
  unfold gridEqCoords lonEqDA latEqDA connEqDA sameCoords
  generalize arrEq valEq a.lon b.lon = L
  generalize arrEq valEq a.lat b.lat = T
  generalize connEq a b = C
  generalize coordsEq a.cLon b.cLon = c1
  generalize coordsEq a.cLat b.cLat = c2
  generalize coordsEq a.cConn b.cConn = c3
  by_cases hs : a.spec = b.spec
  · cases L <;> cases T <;> cases C <;> cases c1 <;> cases c2 <;> cases c3 <;> simp [hs]
  · simp [hs]

/-- … so identical grids whose source datasets stored the coordinates differently compared
    unequal: the Spec was violated (and is met by the repaired `gridEq` on the same pair). -/
theorem coords_structure_violates_spec :
    ¬ Spec cA cB (gridEqCoords cA cB) (!gridEqCoords cA cB) := by
  intro h
  have := (specB_iff _ _ _ _).mpr h
  revert this
  decide

example : Spec cA cB (gridEq cA cB) (!gridEq cA cB) := impl_meets_spec cA cB
example : gridEq cA cB = true := by decide

/-- the `DataArray.equals` version was right exactly on pairs carrying the same coordinates; it
    never called different grids equal. -/
theorem coords_partial (a b : Grid) (hc : sameCoords a b = true) :
    gridEqCoords a b = gridEq a b := by
  rw [Bool.eq_iff_iff, gridEqCoords_iff, gridEq_iff]
  exact ⟨fun h => h.1, fun h => ⟨h, hc⟩⟩

theorem coords_sound (a b : Grid) (h : gridEqCoords a b = true) : gridEq a b = true :=
  (gridEq_iff a b).mpr ((gridEqCoords_iff a b).mp h).1

/-! ### partial regression: only the connectivity compared as a DataArray

    `fB` is `cA` read from a dataset in which `face_lon` is an xarray coordinate (it lives on
    `n_face`, so `face_node_connectivity` carries it); `fC` has an index coordinate on `n_face`,
    `fD` a scalar coordinate.  Values of lon / lat / connectivity are identical throughout. -/

def fB : Grid := { cA with cConn := [⟨[3], [4621819117588971520]⟩] }
def fC : Grid := { cA with cConn := [⟨[4], [0]⟩] }
def fD : Grid := { cA with cLon := [⟨[5], [0]⟩], cLat := [⟨[5], [0]⟩], cConn := [⟨[5], [0]⟩] }

theorem gridEqConnDA_iff (a b : Grid) :
    gridEqConnDA a b = true ↔ Same a b ∧ coordsEq a.cConn b.cConn = true := by
  rw [same_iff_bools]
  unfold gridEqConnDA lonEq latEq connEqDA
  generalize arrEq valEq a.lon b.lon = L
  generalize arrEq valEq a.lat b.lat = T
  generalize connEq a b = C
  generalize coordsEq a.cConn b.cConn = c3
  by_cases hs : a.spec = b.spec
  · cases L <;> cases T <;> cases C <;> cases c3 <;> simp [hs]
  · simp [hs]

/-- comparing the connectivity as a DataArray violates the Spec on identical grids that differ
    only in a face-dimension coordinate, an index coordinate or a scalar coordinate of the source
    dataset — while the node-coordinate witness `cA`/`cB` no longer shows it. -/
theorem conn_coords_violate_spec :
    ¬ Spec cA fB (gridEqConnDA cA fB) (!gridEqConnDA cA fB) ∧
    ¬ Spec cA fC (gridEqConnDA cA fC) (!gridEqConnDA cA fC) ∧
    ¬ Spec cA fD (gridEqConnDA cA fD) (!gridEqConnDA cA fD) ∧
    gridEqConnDA cA cB = true := by
  refine ⟨?_, ?_, ?_, by decide⟩ <;>
  · intro h
    have := (specB_iff _ _ _ _).mpr h
    revert this
    decide

example : gridEq cA fB = true ∧ gridEq fC cA = true ∧ gridEq fD fB = true := by decide

theorem connDA_partial (a b : Grid) (hc : coordsEq a.cConn b.cConn = true) :
    gridEqConnDA a b = gridEq a b := by
  rw [Bool.eq_iff_iff, gridEqConnDA_iff, gridEq_iff]
  exact ⟨fun h => h.1, fun h => ⟨h, hc⟩⟩

/-! ## the snapshot's connective (`or`) — regression witness

    Triangle with node longitudes (0, 10, 20) and latitudes (0, 0, 5); in `wB` the longitude of
    node 1 is 11 instead of 10.  The harness replays exactly this pair on the implementation. -/

def wA : Grid := cA
def wB : Grid := { wA with lon := wA.lon.set 1 4622382067542392832 }

/-- with `or`, a single changed longitude goes unnoticed … -/
theorem asis_single_change_undetected :
    ∃ (a : Grid) (i v : Nat) (hi : i < a.lon.length),
      valEq a.lon[i] v = false ∧ gridEqAsIs a { a with lon := a.lon.set i v } = true :=
  ⟨wA, 1, 4622382067542392832, by decide, by decide, by decide⟩

/-- … so the as-is algorithm violates the Spec (while the repaired one meets it on the same pair). -/
theorem asis_violates_spec : ¬ Spec wA wB (gridEqAsIs wA wB) (!gridEqAsIs wA wB) := by
  intro h
  have := (specB_iff _ _ _ _).mpr h
  revert this
  decide

example : Spec wA wB (gridEq wA wB) (!gridEq wA wB) := impl_meets_spec wA wB

/-! ## the backing state (numpy / dask) is not an input of `==`

    `gridEqB` transcribes what xarray does on dask-backed variables (lazy shortcut on equal graph
    names).  As long as dask names are faithful — equal name (and shape) only on equal values,
    which is what content-derived tokens give and what the driver evaluates on every observed
    pair — the result is the value-level `gridEq`: chunking, re-chunking with other arguments,
    chunking one side only … cannot change the answer, and every theorem above transfers. -/

theorem lazyEquiv_some {ba bb : Backing} {r : Bool} (h : lazyEquiv ba bb = some r) : r = true := by
  cases ba <;> cases bb <;> simp [lazyEquiv] at h
  exact h.2

theorem varEqB_eq (s : Bool) (ba bb : Backing) (v : Bool) (hs : s = false → v = false)
    (hf : faithful1 s ba bb v = true) : varEqB s ba bb v = v := by
  unfold varEqB
  cases s with
  | false => simp [hs rfl]
  | true =>
    simp only [Bool.not_true, Bool.false_eq_true, if_false]
    cases hl : lazyEquiv ba bb with
    | none => rfl
    | some r =>
      have hr := lazyEquiv_some hl
      subst hr
      simp [faithful1, hl] at hf
      exact hf.symm

theorem lonShape_false (a b : Grid) (h : lonShapeEq a b = false) :
    arrEq valEq a.lon b.lon = false := by
  cases hh : arrEq valEq a.lon b.lon with
  | false => rfl
  | true =>
    have := ((arrEq_true_iff _ _ _).mp hh).1
    simp [lonShapeEq, this] at h

theorem latShape_false (a b : Grid) (h : latShapeEq a b = false) :
    arrEq valEq a.lat b.lat = false := by
  cases hh : arrEq valEq a.lat b.lat with
  | false => rfl
  | true =>
    have := ((arrEq_true_iff _ _ _).mp hh).1
    simp [latShapeEq, this] at h

theorem connShape_false (a b : Grid) (h : connShapeEq a b = false) : connEq a b = false := by
  cases hh : connEq a b with
  | false => rfl
  | true =>
    obtain ⟨h1, h2, h3⟩ := (connEq_iff a b).mp hh
    simp [connShapeEq, h1, h2, h3] at h

/-- **the backing does not influence `==`** when dask names are faithful. -/
theorem backing_irrelevant (a b : BGrid) (h : namesFaithful a b = true) :
    gridEqB a b = gridEq a.g b.g := by
  simp only [namesFaithful, Bool.and_eq_true] at h
  obtain ⟨⟨h1, h2⟩, h3⟩ := h
  unfold gridEqB gridEq lonEqB latEqB connEqB lonEq latEq
  rw [varEqB_eq _ _ _ _ (lonShape_false a.g b.g) h1, varEqB_eq _ _ _ _ (latShape_false a.g b.g) h2,
    varEqB_eq _ _ _ _ (connShape_false a.g b.g) h3]

/-- numpy-backed on at least one side: nothing is decided lazily, names are vacuously faithful. -/
theorem namesFaithful_numpy_left (g : Grid) (b : BGrid) :
    namesFaithful { g := g } b = true := by
  simp [namesFaithful, faithful1, lazyEquiv]

theorem namesFaithful_numpy_right (a : BGrid) (g : Grid) :
    namesFaithful a { g := g } = true := by
  unfold namesFaithful faithful1
  cases a.bLon <;> cases a.bLat <;> cases a.bConn <;> simp [lazyEquiv]

theorem eqB_numpy (a b : Grid) : gridEqB { g := a } { g := b } = gridEq a b :=
  backing_irrelevant _ _ (namesFaithful_numpy_left a _)

/-- **`==` is a function of the values only**: two pairs with the same values but any other
    backing states (other chunk sizes, other names, numpy on one side …) get the same answer. -/
theorem eqB_values_only (a b a' b' : BGrid) (ha : a.g = a'.g) (hb : b.g = b'.g)
    (h : namesFaithful a b = true) (h' : namesFaithful a' b' = true) :
    gridEqB a b = gridEqB a' b' := by
  rw [backing_irrelevant a b h, backing_irrelevant a' b' h', ha, hb]

theorem eqB_sound (a b : BGrid) (h : namesFaithful a b = true) (he : gridEqB a b = true) :
    Same a.g b.g := eq_sound _ _ (backing_irrelevant a b h ▸ he)

/-- a single changed entry is detected in every backing state with faithful names. -/
theorem single_change_detectedB (a b : BGrid) (h : namesFaithful a b = true)
    (hc : Change a.g b.g) : gridEqB a b = false := by
  rw [backing_irrelevant a b h]; exact (single_change_detected hc).1

example : gridEqB ⟨wA, .dask 1 [2, 1], .dask 2 [2, 1], .dask 3 [1]⟩
    ⟨wB, .dask 4 [3], .dask 2 [3], .dask 3 [1]⟩ = false :=
  single_change_detectedB _ _ (by decide)
    (Change.lon (a := wA) 1 4622382067542392832 (by decide) (by decide))

/-- … and NOT otherwise: if two grids that differ in one longitude carry the same dask names
    (names derived from format / variable name / dtype / shape instead of the contents), the lazy
    shortcut answers True.  This is the invariant `Grid.chunk()` has to keep. -/
theorem unfaithful_names_break :
    ∃ a b : BGrid, namesFaithful a b = false ∧ gridEqB a b = true ∧ gridEq a.g b.g = false :=
  ⟨⟨wA, .dask 1 [3], .dask 2 [3], .dask 3 [1]⟩, ⟨wB, .dask 1 [3], .dask 2 [3], .dask 3 [1]⟩,
    by decide, by decide, by decide⟩

/-! ## the 2-D shape of the connectivity is part of equality

    `face_node_connectivity.equals` compares the shape `(n_face, n_max_face_nodes)` before the
    entries, so two tables that flatten to the same sequence but have different shapes (12
    consecutively numbered nodes as 4 triangles, 3 quadrilaterals or 2 hexagons) are different
    grids.  Any rewrite that compares a projection of the arrays (flattened values, sorted
    values, sums, lengths …) instead of the arrays loses this. -/

/-- **equal ⇒ same number of faces and same width** (unconditional). -/
theorem eq_implies_same_shape (a b : Grid) (h : gridEq a b = true) :
    a.nFace = b.nFace ∧ a.width = b.width := by
  obtain ⟨_, _, _, h4, h5, _⟩ := eq_sound a b h
  exact ⟨h4, h5⟩

/-- also in every backing state, faithful dask names or not: the shape test precedes xarray's
    lazy shortcut. -/
theorem eqB_implies_same_shape (a b : BGrid) (h : gridEqB a b = true) :
    a.g.nFace = b.g.nFace ∧ a.g.width = b.g.width := by
  have hc : connEqB a b = true := by
    unfold gridEqB at h
    cases hc : connEqB a b with
    | true => rfl
    | false => simp [hc] at h
  have hs : connShapeEq a.g b.g = true := by
    cases hs : connShapeEq a.g b.g with
    | true => rfl
    | false => simp [connEqB, varEqB, hs] at hc
  simp [connShapeEq] at hs
  exact ⟨hs.1.1, hs.1.2⟩

/-- **a reshape is detected**: same flattened connectivity (fills included), another
    `(n_face, width)` ⇒ unequal, in both orders, whatever the coordinates are. -/
theorem reshape_detected (a b : Grid) (_hflat : a.conn = b.conn)
    (hshape : a.nFace ≠ b.nFace ∨ a.width ≠ b.width) :
    gridEq a b = false ∧ gridEq b a = false := by
  rcases hshape with h | h
  · exact ⟨(single_change_detected (Change.nFace b (Ne.symm h))).1,
      (single_change_detected (Change.nFace b (Ne.symm h))).2.1⟩
  · exact ⟨(single_change_detected (Change.width b (Ne.symm h))).1,
      (single_change_detected (Change.width b (Ne.symm h))).2.1⟩

/-- 12 nodes on a circle of latitude; the same flattened table `0 … 11` as 4×3, 3×4 and 2×6 -/
def rLon : List Nat := [0, 4629137466983448576, 4633641066610819072, 4636033603912859648,
  4638144666238189568, 4639481672377565184, 4640537203540230144, 4641592734702895104,
  4642648265865560064, 4643457506423603200, 4643985272004935680, 4644513037586268160]
def rLat : List Nat := List.replicate 12 4621819117588971520
def r43 : Grid := ⟨[85], rLon, rLat, 4, 3, [0, 1, 2, 3, 4, 5, 6, 7, 8, 9, 10, 11], [], [], []⟩
def r34 : Grid := { r43 with nFace := 3, width := 4 }
def r26 : Grid := { r43 with nFace := 2, width := 6 }

example : gridEq r43 r34 = false ∧ gridEq r34 r43 = false := reshape_detected r43 r34 rfl (Or.inl (by decide))
example : gridEq r34 r26 = false ∧ gridEq r26 r34 = false := reshape_detected r34 r26 rfl (Or.inl (by decide))

/-- a comparison of the flattened tables is blind to the shape: it calls 4 triangles, 3
    quadrilaterals and 2 hexagons over the same 12 nodes equal and so violates the Spec, while
    `gridEq` tells them apart. -/
theorem flatten_blind_wrong :
    gridEqFlat r43 r34 = true ∧ gridEqFlat r34 r26 = true ∧ gridEqFlat r43 r26 = true ∧
    gridEq r43 r34 = false ∧ gridEq r34 r26 = false ∧ gridEq r43 r26 = false ∧
    ¬ Spec r43 r34 (gridEqFlat r43 r34) (!gridEqFlat r43 r34) := by
  refine ⟨by decide, by decide, by decide, by decide, by decide, by decide, ?_⟩
  intro h
  have := (specB_iff _ _ _ _).mpr h
  revert this
  decide

/-- the flattened comparison is right exactly when the shapes agree. -/
theorem flat_partial (a b : Grid) (h1 : a.nFace = b.nFace) (h2 : a.width = b.width) :
    gridEqFlat a b = gridEq a b := by
  unfold gridEqFlat gridEq connEq
  simp [h1, h2]

/-! ## the reader is injective on connectivity: `==` distinguishes SOURCE descriptions

    `gridEq` compares stored tables.  What the user changes is an entry of the source table written
    in some dialect (fill value, start index); `_process_connectivity` / `_replace_fill_values`
    map it to the stored table.  The clause "changing any single connectivity entry makes the grids
    unequal" therefore needs this map to be injective on valid source tables.  (C01 proves the
    round trips `UxVerif.C01.topology_roundtrip`, `UxVerif.C01.ugrid_roundtrip` with
    `UxVerif.C01.pad_inj`, i.e. decode ∘ encode = id, which gives the same; the entry-level form
    used here is proved directly so that C20 does not depend on C01's file.)  The harness checks
    `reader_corresponds` (stored = `procTable` source) on every source pair. -/

theorem procEntry_inj (fill : Option Int) (start x y : Int)
    (hx : validEntry fill start x = true) (hy : validEntry fill start y = true)
    (h : procEntry fill start x = procEntry fill start y) : x = y := by
  cases fill with
  | none => simp only [procEntry] at h; omega
  | some f =>
    simp only [validEntry, Bool.or_eq_true, beq_iff_eq, Bool.and_eq_true, bne_iff_ne, ne_eq] at hx hy
    simp only [procEntry] at h
    by_cases hf : f = FILL
    · subst hf
      simp only [ne_eq, not_true_eq_false, false_and, if_false] at h
      by_cases h1 : x = FILL <;> by_cases h2 : y = FILL <;> simp [h1, h2] at h hx hy ⊢
      · omega
      · omega
      · omega
    · by_cases h1 : x = f <;> by_cases h2 : y = f
      · rw [h1, h2]
      · exfalso
        rcases hy with hy | ⟨hy1, hy2⟩
        · exact h2 hy
        · simp [hf, h1, h2, hy1] at h; omega
      · exfalso
        rcases hx with hx | ⟨hx1, hx2⟩
        · exact h1 hx
        · simp [hf, h1, h2, hx1] at h; omega
      · rcases hx with hx | ⟨hx1, hx2⟩
        · exact absurd hx h1
        · rcases hy with hy | ⟨hy1, hy2⟩
          · exact absurd hy h2
          · simp [h1, h2, hx1, hy1] at h; omega

theorem map_inj_on {β γ : Type} (g : β → γ) (P : β → Prop)
    (hinj : ∀ x y, P x → P y → g x = g y → x = y) :
    ∀ (l₁ l₂ : List β), (∀ x ∈ l₁, P x) → (∀ x ∈ l₂, P x) → l₁.map g = l₂.map g → l₁ = l₂ := by
  intro l₁
  induction l₁ with
  | nil => intro l₂ _ _ h; cases l₂ with
    | nil => rfl
    | cons _ _ => simp at h
  | cons a l ih =>
    intro l₂ h1 h2 h
    cases l₂ with
    | nil => simp at h
    | cons b l' =>
      simp only [List.map_cons, List.cons.injEq] at h
      have hab := hinj a b (h1 a (by simp)) (h2 b (by simp)) h.1
      have := ih l' (fun x hx => h1 x (List.mem_cons_of_mem _ hx))
        (fun x hx => h2 x (List.mem_cons_of_mem _ hx)) h.2
      rw [hab, this]

/-- **the reader is injective on valid source tables** (any fill value incl. large positive
    sentinels, any start index): distinct source tables are stored as distinct tables. -/
theorem procTable_inj (fill : Option Int) (start : Int) (t₁ t₂ : Table)
    (h1 : validTable fill start t₁ = true) (h2 : validTable fill start t₂ = true)
    (h : procTable fill start t₁ = procTable fill start t₂) : t₁ = t₂ := by
  simp only [validTable, List.all_eq_true] at h1 h2
  unfold procTable at h
  refine map_inj_on (fun r : List Int => r.map (procEntry fill start))
    (fun r => ∀ x ∈ r, validEntry fill start x = true) ?_ t₁ t₂ h1 h2 h
  intro r₁ r₂ hr1 hr2 hr
  exact map_inj_on (procEntry fill start) (fun x => validEntry fill start x = true)
    (fun x y hx hy hxy => procEntry_inj fill start x y hx hy hxy) r₁ r₂ hr1 hr2 hr

theorem flatten_inj_width (w : Nat) :
    ∀ (t₁ t₂ : Table), (∀ r ∈ t₁, r.length = w) → (∀ r ∈ t₂, r.length = w) →
      t₁.length = t₂.length → t₁.flatten = t₂.flatten → t₁ = t₂ := by
  intro t₁
  induction t₁ with
  | nil => intro t₂ _ _ hl _; cases t₂ with
    | nil => rfl
    | cons _ _ => simp at hl
  | cons r t ih =>
    intro t₂ h1 h2 hl hf
    cases t₂ with
    | nil => simp at hl
    | cons r' t' =>
      simp only [List.flatten_cons] at hf
      have hlen : r.length = r'.length := by rw [h1 r (by simp), h2 r' (by simp)]
      obtain ⟨hr, ht⟩ := List.append_inj hf hlen
      have := ih t' (fun x hx => h1 x (List.mem_cons_of_mem _ hx))
        (fun x hx => h2 x (List.mem_cons_of_mem _ hx)) (by simpa using hl) ht
      rw [hr, this]

/-- **changing the source description is detected**: two grids read from valid source tables of
    the same shape in the same dialect, whatever their coordinates and attached coordinates — if
    the source tables differ (one entry: a real index ↔ padding, index ↔ index ± 1, …) the grids
    are unequal, in both orders. -/
theorem source_change_detected (fill : Option Int) (start : Int) (w : Nat) (t₁ t₂ : Table)
    (hw1 : ∀ r ∈ t₁, r.length = w) (hw2 : ∀ r ∈ t₂, r.length = w) (hl : t₁.length = t₂.length)
    (h1 : validTable fill start t₁ = true) (h2 : validTable fill start t₂ = true)
    (a b : Grid) (ha : a.conn = (procTable fill start t₁).flatten)
    (hb : b.conn = (procTable fill start t₂).flatten) (hne : t₁ ≠ t₂) :
    gridEq a b = false ∧ gridEq b a = false := by
  have hconn : a.conn ≠ b.conn := by
    intro h
    apply hne
    apply procTable_inj fill start t₁ t₂ h1 h2
    apply flatten_inj_width w
    · intro r hr
      simp only [procTable, List.mem_map] at hr
      obtain ⟨r0, hr0, rfl⟩ := hr
      simp [hw1 r0 hr0]
    · intro r hr
      simp only [procTable, List.mem_map] at hr
      obtain ⟨r0, hr0, rfl⟩ := hr
      simp [hw2 r0 hr0]
    · simp [procTable, hl]
    · rw [← ha, ← hb, h]
  have hns : ¬ Same a b := fun hs => hconn hs.2.2.2.2.2
  have h := any_difference_detected a b hns
  exact ⟨h, by rw [eq_symm]; exact h⟩

-- non-vacuity: one-past-the-end sentinel 100000 on 100000 nodes; the highest index 99999 vs padding
example : procTable (some 100000) 0 [[5, 99998, 99999]] ≠ procTable (some 100000) 0 [[5, 99998, 100000]] := by
  decide
example : validTable (some 100000) 0 [[5, 99998, 99999]] = true ∧
    validTable (some 999999) 1 [[999998, 7, 999999]] = true := by decide

/-- a TOLERANT fill test (`np.isclose` with its default relative tolerance 1e-5 ⇒ ±1 around the
    sentinel 100000, ±9 around 999999) is not injective: the highest real index is read as
    padding, so a quadrilateral and the triangle without that corner are stored identically. -/
theorem tolerant_fill_not_injective :
    [[5, 99997, 99998, 99999]].map (·.map (procEntryTol 1 100000 0))
      = [[5, 99997, 99998, 100000]].map (·.map (procEntryTol 1 100000 0)) ∧
    [[3, 4, 999990]].map (·.map (procEntryTol 9 999999 0))
      = [[3, 4, 999999]].map (·.map (procEntryTol 9 999999 0)) ∧
    procTable (some 100000) 0 [[5, 99997, 99998, 99999]]
      ≠ procTable (some 100000) 0 [[5, 99997, 99998, 100000]] := by decide

/-! ## the stored coordinate representation is not an input of `==` -/

/-- **`==` compares longitude / latitude values whatever the grids store** (spherical, Cartesian
    or both; whatever was read before). -/
theorem eq_ignores_stored_representation (a b : Grid) (s₁ t₁ s₂ t₂ : Bool) :
    gridEqS ⟨a, s₁, t₁⟩ ⟨b, s₂, t₂⟩ = gridEq a b := rfl

theorem eqS_sound (a b : SGrid) (h : gridEqS a b = true) : Same a.g b.g := eq_sound _ _ h

/-- comparing only the representations BOTH grids already store is wrong: a grid storing
    lon/lat and one storing x/y/z (same format, same connectivity, `wA`/`wB`: different
    longitudes) have no representation in common, nothing is compared, and they are called equal —
    until one side's longitudes happen to have been derived (state dependence). -/
theorem common_subset_wrong (xyzEq : Bool) :
    gridEqCommon xyzEq ⟨wA, true, false⟩ ⟨wB, false, true⟩ = true ∧
    gridEqCommon xyzEq ⟨wA, true, false⟩ ⟨wB, true, true⟩ = false ∧
    gridEqS ⟨wA, true, false⟩ ⟨wB, false, true⟩ = false ∧
    ¬ Spec wA wB (gridEqCommon xyzEq ⟨wA, true, false⟩ ⟨wB, false, true⟩)
        (!gridEqCommon xyzEq ⟨wA, true, false⟩ ⟨wB, false, true⟩) := by
  cases xyzEq <;>
  · refine ⟨by decide, by decide, by decide, ?_⟩
    intro h
    have := (specB_iff _ _ _ _).mpr h
    revert this
    decide

/-- the common-subset comparison is right when both grids store longitude / latitude. -/
theorem common_partial (xyzEq : Bool) (a b : SGrid) (ha : a.hasLL = true) (hb : b.hasLL = true)
    (hx : a.hasXYZ = false ∨ b.hasXYZ = false) : gridEqCommon xyzEq a b = gridEqS a b := by
  unfold gridEqCommon gridEqS gridEq
  rcases hx with hx | hx <;> simp [ha, hb, hx]

/-- what `or` computes: it forgets one of the two coordinate comparisons. -/
theorem asis_eq_iff (a b : Grid) :
    gridEqAsIs a b = true ↔
      a.spec = b.spec ∧ (lonEqDA a b = true ∨ latEqDA a b = true) ∧ connEqDA a b = true := by
  unfold gridEqAsIs
  by_cases hs : a.spec = b.spec
  · cases h1 : lonEqDA a b <;> cases h2 : latEqDA a b <;> cases h3 : connEqDA a b <;> simp [hs]
  · simp [hs]

/-- the snapshot's algorithm agrees with the `and` version exactly on the class where the two
    coordinate comparisons agree (the only pairs the test-suite compares). -/
theorem asis_partial (a b : Grid) (h : lonEqDA a b = latEqDA a b) :
    gridEqAsIs a b = gridEqCoords a b := by
  unfold gridEqAsIs gridEqCoords
  rw [h]
  cases latEqDA a b <;> simp

/-- … in particular on grids whose node coordinates are xarray coordinates of one another (Exodus
    reader): there each `DataArray.equals` call already compares both arrays, which masked the
    wrong connective. -/
theorem asis_nodeCoords (a b : Grid) (ha : a.cLon = nodeCoords a ∧ a.cLat = nodeCoords a)
    (hb : b.cLon = nodeCoords b ∧ b.cLat = nodeCoords b) :
    gridEqAsIs a b = gridEqCoords a b := by
  apply asis_partial
  unfold lonEqDA latEqDA
  rw [ha.1, ha.2, hb.1, hb.2]
  simp only [coordsEq, nodeCoords, arrEq, coordEq]
  cases arrEq valEq a.lon b.lon <;> cases arrEq valEq a.lat b.lat <;> simp

end UxVerif.C20
