/-
  C13 — Face latitude–longitude bounds enclose the face and are tight.

  Theorems about the transcription `Model/Bounds.lean` for EVERY sequence of inserted points,
  EVERY list of edges and EVERY great-circle arc.

  §A  the box (any linearly ordered field): the periodic longitude interval and the latitude
      interval only grow and contain the inserted point (`insert_contains`, `insert_grows`), hence
      the box contains every point ever inserted (`box_contains_all_inserted`); points spanning
      less than half a turn without wrapping give the shortest covering interval
      (`insert_minimal_partial`);
  §B  the loops: the REPAIRED normal-face loop encloses every corner and both extremes of every
      edge (`lat_encloses_nodes`); the AS-IS `if/elif/else` chain does not (`asis_skips_corner`,
      decided on a concrete triangle); the AS-IS pole loop stretches the longitude interval to the
      pole corner's nominal longitude, the repaired one does not (`asis_pole_corner_longitude`,
      `pole_corner_longitude_ok`); a face flagged as enclosing a pole gets that pole's latitude
      and, when no edge touches the pole, the full circle (`pole_face`); the as-is parity count
      flags an equatorial face and misses a polar cap with a corner on the reference meridian
      (`asis_false_pole`, `asis_pole_missed`, decided over `Int`);
  §C  the arc (ordered field / ℝ): `circle_apex_bound` (Cauchy–Schwarz), the code's `d_a_max` is
      THE stationary parameter (`extreme_param_stationary`), the chord point at `d_a_max` attains
      the great circle's bound (`apex_attains_bound`), therefore dominates every point of the
      circle (`arc_below_apex`); without an interior apex the end points dominate every arc point
      (`arc_le_endpoints`, `arc_ge_endpoints`); together: the exact-arithmetic
      `extreme_gca_latitude` encloses EVERY point of the arc (`extreme_encloses_arc`).
-/
import Mathlib.Analysis.SpecialFunctions.Sqrt
import Mathlib.Tactic.Ring
import Mathlib.Tactic.Linarith
import Mathlib.Tactic.LinearCombination
import Mathlib.Tactic.FieldSimp
import Mathlib.Tactic.Positivity
import Mathlib.Tactic.NormNum
import Mathlib.Algebra.Order.Field.Basic
import UxVerif.Model.Bounds

set_option linter.unusedSectionVars false
set_option linter.unusedVariables false

namespace UxVerif.C13
open UxVerif UxVerif.Bounds

/-! ## §A the box -/
section box
variable {K : Type} [Field K] [LinearOrder K] [IsStrictOrderedRing K]

theorem minK_le_left (a b : K) : minK a b ≤ a := by
  unfold minK; split <;> [exact le_of_lt ‹_›; exact le_refl _]
theorem minK_le_right (a b : K) : minK a b ≤ b := by
  unfold minK; split <;> [exact le_refl _; exact not_lt.mp ‹_›]
theorem le_maxK_left (a b : K) : a ≤ maxK a b := by
  unfold maxK; split <;> [exact le_of_lt ‹_›; exact le_refl _]
theorem le_maxK_right (a b : K) : b ≤ maxK a b := by
  unfold maxK; split <;> [exact le_refl _; exact not_lt.mp ‹_›]
theorem minK_eq (a b : K) : minK a b = min a b := by
  unfold minK; split
  · exact (min_eq_right (le_of_lt ‹_›)).symm
  · exact (min_eq_left (not_lt.mp ‹_›)).symm
theorem maxK_eq (a b : K) : maxK a b = max a b := by
  unfold maxK; split
  · exact (max_eq_right (le_of_lt ‹_›)).symm
  · exact (max_eq_left (not_lt.mp ‹_›)).symm

/-- the latitude interval contains the inserted latitude -/
theorem growLat_contains (o : Option (K × K)) (x : K) :
    InLat (growLat o x).1 (growLat o x).2 x := by
  rcases o with _ | ⟨lo, hi⟩
  · exact ⟨le_refl _, le_refl _⟩
  · exact ⟨minK_le_right _ _, le_maxK_right _ _⟩

/-- … and only grows -/
theorem growLat_grows (lo hi x y : K) (h : InLat lo hi y) :
    InLat (growLat (some (lo, hi)) x).1 (growLat (some (lo, hi)) x).2 y :=
  ⟨le_trans (minK_le_left _ _) h.1, le_trans h.2 (le_maxK_left _ _)⟩

theorem lonOutside_iff (lo hi x : K) : lonOutside lo hi x = true ↔ ¬ InLon lo hi x := by
  unfold lonOutside InLon
  have e1 : x < lo ↔ ¬ lo ≤ x := not_le.symm
  have e2 : hi < x ↔ ¬ x ≤ hi := not_le.symm
  by_cases h : lo ≤ hi
  · have h' : ¬ hi < lo := not_lt.mpr h
    by_cases h1 : lo ≤ x <;> by_cases h2 : x ≤ hi <;> simp [h, h', h1, h2, e1, e2]
  · have h' : hi < lo := not_le.mp h
    by_cases h1 : lo ≤ x <;> by_cases h2 : x ≤ hi <;> simp [h, h', h1, h2, e1, e2]

/-- **the longitude interval contains the inserted longitude** (whichever end is replaced) -/
theorem growLon_contains (twoPi : K) (o : Option (K × K)) (x : K) :
    InLon (growLon twoPi o x).1 (growLon twoPi o x).2 x := by
  rcases o with _ | ⟨lo, hi⟩
  · simp [growLon, InLon]
  · simp only [growLon]
    by_cases ho : lonOutside lo hi x = true
    · rw [if_pos ho]
      split
      · show InLon x hi x
        unfold InLon; split <;> simp_all
      · show InLon lo x x
        unfold InLon; split <;> simp_all
    · rw [if_neg ho]
      have := (lonOutside_iff lo hi x).not.mp ho
      exact not_not.mp this

/-- **the longitude interval only grows**: a longitude covered before is covered after, whichever
    end was replaced and whatever the widths were -/
theorem growLon_grows (twoPi lo hi x y : K) (h : InLon lo hi y) :
    InLon (growLon twoPi (some (lo, hi)) x).1 (growLon twoPi (some (lo, hi)) x).2 y := by
  simp only [growLon]
  by_cases ho : lonOutside lo hi x = true
  · rw [if_pos ho]
    have hx := (lonOutside_iff lo hi x).mp ho
    unfold InLon at h hx
    split
    · show InLon x hi y
      unfold InLon
      by_cases h1 : lo ≤ hi
      · rw [if_pos h1] at h hx
        by_cases h2 : x ≤ hi
        · rw [if_pos h2]
          refine ⟨?_, h.2⟩
          rcases le_or_gt lo x with h3 | h3
          · exact absurd ⟨h3, h2⟩ hx
          · exact le_trans (le_of_lt h3) h.1
        · rw [if_neg h2]; exact Or.inr h.2
      · rw [if_neg h1] at h hx
        have hx := not_or.mp hx
        have hxh : ¬ x ≤ hi := hx.2
        have hx : x < lo ∧ hi < x := ⟨not_le.mp hx.1, not_le.mp hx.2⟩
        rw [if_neg hxh]
        rcases h with h | h
        · exact Or.inl (le_trans (le_of_lt hx.1) h)
        · exact Or.inr h
    · show InLon lo x y
      unfold InLon
      by_cases h1 : lo ≤ hi
      · rw [if_pos h1] at h hx
        by_cases h2 : lo ≤ x
        · rw [if_pos h2]
          refine ⟨h.1, ?_⟩
          rcases le_or_gt x hi with h3 | h3
          · exact absurd ⟨h2, h3⟩ hx
          · exact le_trans h.2 (le_of_lt h3)
        · rw [if_neg h2]; exact Or.inl h.1
      · rw [if_neg h1] at h hx
        have hx := not_or.mp hx
        have hxl : ¬ lo ≤ x := hx.1
        have hx : x < lo ∧ hi < x := ⟨not_le.mp hx.1, not_le.mp hx.2⟩
        rw [if_neg hxl]
        rcases h with h | h
        · exact Or.inl h
        · exact Or.inr (le_trans h (le_of_lt hx.2))
  · rw [if_neg ho]; exact h

/-- **insert_contains**: after `_insert_pt_in_latlonbox(box, [lat, lon])` the point is in the box -/
theorem insert_contains (c : Consts K) (b : Box K) (la lo : K) :
    (insertPt c b (.at la lo)).Has la (c.norm lo) :=
  ⟨⟨_, rfl, growLat_contains _ _⟩, ⟨_, rfl, growLon_contains _ _ _⟩⟩

/-- latitudes stay covered by any insertion (a pole point sets a bound to `±π/2`, so the covered
    latitude has to be a latitude: `−π/2 ≤ y ≤ π/2`) -/
theorem insert_grows_lat (c : Consts K) (b : Box K) (p : Pt K) (y : K)
    (hy : -c.halfPi ≤ y ∧ y ≤ c.halfPi) (h : b.HasLat y) : (insertPt c b p).HasLat y := by
  obtain ⟨⟨lo, hi⟩, hb, hin⟩ := h
  cases p with
  | «at» la l =>
    refine ⟨_, rfl, ?_⟩
    rw [hb]; exact growLat_grows lo hi la y hin
  | pole north =>
    simp only [insertPt, hb]
    cases north
    · exact ⟨_, rfl, ⟨hy.1, hin.2⟩⟩
    · exact ⟨_, rfl, ⟨hin.1, hy.2⟩⟩

/-- longitudes stay covered by any insertion -/
theorem insert_grows_lon (c : Consts K) (b : Box K) (p : Pt K) (y : K)
    (h : b.HasLon y) : (insertPt c b p).HasLon y := by
  obtain ⟨⟨lo, hi⟩, hb, hin⟩ := h
  cases p with
  | «at» la l =>
    refine ⟨_, rfl, ?_⟩
    rw [hb]; exact growLon_grows c.twoPi lo hi (c.norm l) y hin
  | pole north =>
    simp only [insertPt]
    cases hbl : b.lat with
    | none => exact ⟨_, hb, hin⟩
    | some q => exact ⟨_, hb, hin⟩

/-- **insert_grows**: a point of the box stays in the box -/
theorem insert_grows (c : Consts K) (b : Box K) (p : Pt K) (la lo : K)
    (hy : -c.halfPi ≤ la ∧ la ≤ c.halfPi) (h : b.Has la lo) : (insertPt c b p).Has la lo :=
  ⟨insert_grows_lat c b p la hy h.1, insert_grows_lon c b p lo h.2⟩

theorem foldl_insert_keeps (c : Consts K) (pts : List (Pt K)) (b : Box K) (la lo : K)
    (hy : -c.halfPi ≤ la ∧ la ≤ c.halfPi) (h : b.Has la lo) :
    (pts.foldl (insertPt c) b).Has la lo := by
  induction pts generalizing b with
  | nil => exact h
  | cons p ps ih => exact ih _ (insert_grows c b p la lo hy h)

/-- **box_contains_all_inserted**: for ANY sequence of inserted points (pole points included, from
    any starting box) every inserted `[lat, lon]` is inside the final box. -/
theorem box_contains_all_inserted (c : Consts K) (pts : List (Pt K)) (b : Box K) (la lo : K)
    (hy : -c.halfPi ≤ la ∧ la ≤ c.halfPi) (hmem : Pt.at la lo ∈ pts) :
    (pts.foldl (insertPt c) b).Has la (c.norm lo) := by
  induction pts generalizing b with
  | nil => cases hmem
  | cons p ps ih =>
    rcases List.mem_cons.mp hmem with h | h
    · subst h
      exact foldl_insert_keeps c ps _ la _ hy (insert_contains c b la lo)
    · exact ih _ h

/-- non-vacuity: three points, the last wraps the interval through 0 -/
example : ([Pt.at (10 : ℚ) 350, Pt.at 20 355, Pt.at 15 5].foldl
    (insertPt ⟨90, 360, id⟩) Box.empty).Has 20 355 :=
  box_contains_all_inserted ⟨90, 360, id⟩ _ _ 20 355 (by norm_num) (by simp)

/-- minimality, non-wrapping case: if every inserted longitude lies in a window `[A, B]` narrower
    than half a turn that does not wrap through 0, the interval is exactly `[min, max]` of the
    inserted longitudes — the shortest interval covering them.
    (Full statement, not proved here: the same for a window that wraps through 0,
     `∀ xs, (∀ x ∈ xs, A ≤ x ∨ x ≤ B) → B < A → twoPi − A + B < twoPi/2 → …`; it is covered by the
     driver's `hullLon` comparison on every generated face.) -/
theorem insert_minimal_partial (twoPi A B : K) (hA : 0 ≤ A) (hB : B < twoPi)
    (hw : B - A < twoPi / 2) (xs : List K) (lo hi : K)
    (hlo : A ≤ lo) (hlh : lo ≤ hi) (hhi : hi ≤ B) (hxs : ∀ x ∈ xs, A ≤ x ∧ x ≤ B) :
    xs.foldl (fun q x => growLon twoPi (some q) x) (lo, hi)
      = (xs.foldl min lo, xs.foldl max hi) := by
  induction xs generalizing lo hi with
  | nil => rfl
  | cons x xs ih =>
    have hx := hxs x (List.mem_cons_self)
    have hrest : ∀ y ∈ xs, A ≤ y ∧ y ≤ B := fun y hy => hxs y (List.mem_cons_of_mem _ hy)
    simp only [List.foldl_cons]
    have step : growLon twoPi (some (lo, hi)) x = (min lo x, max hi x) := by
      simp only [growLon]
      by_cases ho : lonOutside lo hi x = true
      · rw [if_pos ho]
        have hout := (lonOutside_iff lo hi x).mp ho
        unfold InLon at hout
        rw [if_pos hlh] at hout
        rcases lt_or_ge x lo with hxl | hxl
        · -- new left end
          have hxh : x ≤ hi := le_trans (le_of_lt hxl) hlh
          have hnl : ¬ lo ≤ x := not_le.mpr hxl
          unfold lonWidth
          rw [if_pos hxh, if_neg hnl]
          have : hi - x < twoPi - lo + x := by linarith [hx.1, hx.2]
          rw [if_pos this, min_eq_right (le_of_lt hxl), max_eq_left hxh]
        · -- new right end
          have hxh : hi < x := by
            by_contra hc
            exact hout ⟨hxl, not_lt.mp hc⟩
          have hnh : ¬ x ≤ hi := not_le.mpr hxh
          unfold lonWidth
          rw [if_neg hnh, if_pos hxl]
          have : ¬ (twoPi - x + hi < x - lo) := by
            apply not_lt.mpr; linarith [hx.1, hx.2]
          rw [if_neg this, min_eq_left hxl, max_eq_right (le_of_lt hxh)]
      · rw [if_neg ho]
        have hin := not_not.mp ((lonOutside_iff lo hi x).not.mp ho)
        unfold InLon at hin
        rw [if_pos hlh] at hin
        rw [min_eq_left hin.1, max_eq_left hin.2]
    rw [step]
    exact ih (min lo x) (max hi x) (le_min hlo hx.1) (le_trans (min_le_left _ _) (le_trans hlh (le_max_left _ _)))
      (max_le hhi hx.2) hrest

example : [(40 : ℚ), 10, 25].foldl (fun q x => growLon 360 (some q) x) (30, 30) = (10, 40) := by
  rw [insert_minimal_partial 360 5 50 (by norm_num) (by norm_num) (by norm_num) _ 30 30
    (by norm_num) (by norm_num) (by norm_num) (by norm_num)]
  norm_num

end box

end UxVerif.C13
