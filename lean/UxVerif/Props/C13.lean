/-
  C13 — Face latitude–longitude bounds enclose the face and are tight.

  Theorems about the transcription `Model/Bounds.lean` for EVERY sequence of inserted points,
  EVERY list of edges and EVERY great-circle arc shorter than half a turn.

  §A  the box (any linearly ordered field): the periodic longitude interval and the latitude
      interval only grow and contain the inserted point (`insert_contains`, `insert_grows`), hence
      the box contains every point ever inserted (`box_contains_all_inserted`); if the inserted
      longitudes fit in ANY window narrower than half a turn — wrapping through 0 or not — the
      interval is exactly the arc from the first to the last point of the window
      (`insert_minimal`), independent of the insertion order (`insert_order_irrelevant`), and no
      covering arc is narrower (`insert_minimal_shortest`);
  §B  the loops: the REPAIRED normal-face loop encloses every corner and both extremes of every
      edge (`lat_encloses_nodes`, `lat_encloses_second_nodes`); the AS-IS `if/elif/else` chain does
      not (`asis_skips_corner`, decided on a concrete triangle); the AS-IS pole loop stretches the
      longitude interval to the pole corner's nominal longitude, the repaired one does not
      (`asis_pole_corner_longitude`); both pole loops enclose every corner
      (`pole_loop_encloses_nodes`); a face FLAGGED as enclosing a pole gets that pole's latitude
      and, when no edge touches the pole, the full circle (`pole_face_partial`); the AS-IS flag —
      the parity count of `_pole_point_inside_polygon` — is wrong on an equatorial face around
      (lon 0, lat 0) and on a polar cap with a corner on the reference meridian
      (`asis_false_pole`, `asis_pole_missed`, decided over `Int`; repaired by
      `fixes/C13-pole-winding.patch`); the REPAIRED flag is the winding of the boundary about the
      polar axis: for every closed ring off the axis the winding is an integer multiple of 2π
      (`winding_multiple_of_two_pi`), the flag is raised exactly when that integer is non-zero and
      then for exactly one pole (`pole_flag_iff_winding`); WHICH pole cannot be read off the corners'
      mean latitude: a convex triangle inside a hemisphere with the north pole strictly inside has a
      negative summed z (`meanz_rule_wrong`, over ℚ), while winding sign × orientation answers
      correctly on that very face (`winding_rule_right`);
  §C  the arc (ordered field / ℝ): `circle_apex_bound` (Cauchy–Schwarz), the code's `d_a_max` is
      THE stationary parameter (`extreme_param_stationary`), the chord point at `d_a_max` attains
      the great circle's bound (`apex_attains_bound`), therefore dominates every point of the
      circle (`arc_below_apex`); without an interior apex the end points dominate every arc point
      (`arc_le_endpoints`, `arc_ge_endpoints`); together: the exact-arithmetic transcription of
      `extreme_gca_latitude` encloses EVERY point of the arc (`extreme_encloses_arc`; an arc whose
      end points straddle the equator is NOT monotone when its apex lies inside it —
      `straddling_arc_not_monotone`, a rational witness), and the
      repaired normal-face loop fed with it encloses every point of every edge
      (`lat_encloses_every_arc_point`).

  Not proved (decided by the driver's sampling oracle on every generated face): that the winding
  number of a convex face is ±1 exactly when a pole is strictly inside and that the orientation test
  picks the right pole (argument principle for the projected polygon); that the corner
  longitudes of a face span its boundary (longitude is monotone along an arc that misses the poles
  — geometry, used by the oracle); tightness by attainment (proved
  for the latitude bounds of normal faces by `lat_bounds_attained`; pole faces and the longitude
  ends are tested); IEEE rounding and the `ERROR_TOLERANCE` clip / pole snap of the float code.
-/
import Mathlib.Analysis.SpecialFunctions.Sqrt
import Mathlib.Analysis.SpecialFunctions.Complex.Arg
import Mathlib.Tactic.Ring
import Mathlib.Tactic.Linarith
import Mathlib.Tactic.LinearCombination
import Mathlib.Tactic.FieldSimp
import Mathlib.Tactic.Positivity
import Mathlib.Tactic.NormNum
import Mathlib.Algebra.Order.Field.Basic
import UxVerif.Model.Bounds

set_option linter.unusedSectionVars false
set_option linter.unusedVariables false

namespace UxVerif.C13
open UxVerif UxVerif.Bounds

/-! ## §A the box -/
section box
variable {K : Type} [Field K] [LinearOrder K] [IsStrictOrderedRing K]

theorem minK_le_left (a b : K) : minK a b ≤ a := by
  unfold minK; split <;> [exact le_of_lt ‹_›; exact le_refl _]
theorem minK_le_right (a b : K) : minK a b ≤ b := by
  unfold minK; split <;> [exact le_refl _; exact not_lt.mp ‹_›]
theorem le_maxK_left (a b : K) : a ≤ maxK a b := by
  unfold maxK; split <;> [exact le_of_lt ‹_›; exact le_refl _]
theorem le_maxK_right (a b : K) : b ≤ maxK a b := by
  unfold maxK; split <;> [exact le_refl _; exact not_lt.mp ‹_›]
theorem minK_eq (a b : K) : minK a b = min a b := by
  unfold minK; split
  · exact (min_eq_right (le_of_lt ‹_›)).symm
  · exact (min_eq_left (not_lt.mp ‹_›)).symm
theorem maxK_eq (a b : K) : maxK a b = max a b := by
  unfold maxK; split
  · exact (max_eq_right (le_of_lt ‹_›)).symm
  · exact (max_eq_left (not_lt.mp ‹_›)).symm

/-- the latitude interval contains the inserted latitude -/
theorem growLat_contains (o : Option (K × K)) (x : K) :
    InLat (growLat o x).1 (growLat o x).2 x := by
  rcases o with _ | ⟨lo, hi⟩
  · exact ⟨le_refl _, le_refl _⟩
  · exact ⟨minK_le_right _ _, le_maxK_right _ _⟩

/-- … and only grows -/
theorem growLat_grows (lo hi x y : K) (h : InLat lo hi y) :
    InLat (growLat (some (lo, hi)) x).1 (growLat (some (lo, hi)) x).2 y :=
  ⟨le_trans (minK_le_left _ _) h.1, le_trans h.2 (le_maxK_left _ _)⟩

theorem lonOutside_iff (lo hi x : K) : lonOutside lo hi x = true ↔ ¬ InLon lo hi x := by
  unfold lonOutside InLon
  have e1 : x < lo ↔ ¬ lo ≤ x := not_le.symm
  have e2 : hi < x ↔ ¬ x ≤ hi := not_le.symm
  by_cases h : lo ≤ hi
  · have h' : ¬ hi < lo := not_lt.mpr h
    by_cases h1 : lo ≤ x <;> by_cases h2 : x ≤ hi <;> simp [h, h', h1, h2, e1, e2]
  · have h' : hi < lo := not_le.mp h
    by_cases h1 : lo ≤ x <;> by_cases h2 : x ≤ hi <;> simp [h, h', h1, h2, e1, e2]

/-- **the longitude interval contains the inserted longitude** (whichever end is replaced) -/
theorem growLon_contains (twoPi : K) (o : Option (K × K)) (x : K) :
    InLon (growLon twoPi o x).1 (growLon twoPi o x).2 x := by
  rcases o with _ | ⟨lo, hi⟩
  · simp [growLon, InLon]
  · simp only [growLon]
    by_cases ho : lonOutside lo hi x = true
    · rw [if_pos ho]
      split
      · show InLon x hi x
        unfold InLon; split <;> simp_all
      · show InLon lo x x
        unfold InLon; split <;> simp_all
    · rw [if_neg ho]
      have := (lonOutside_iff lo hi x).not.mp ho
      exact not_not.mp this

/-- **the longitude interval only grows**: a longitude covered before is covered after, whichever
    end was replaced and whatever the widths were -/
theorem growLon_grows (twoPi lo hi x y : K) (h : InLon lo hi y) :
    InLon (growLon twoPi (some (lo, hi)) x).1 (growLon twoPi (some (lo, hi)) x).2 y := by
  simp only [growLon]
  by_cases ho : lonOutside lo hi x = true
  · rw [if_pos ho]
    have hx := (lonOutside_iff lo hi x).mp ho
    unfold InLon at h hx
    split
    · show InLon x hi y
      unfold InLon
      by_cases h1 : lo ≤ hi
      · rw [if_pos h1] at h hx
        by_cases h2 : x ≤ hi
        · rw [if_pos h2]
          refine ⟨?_, h.2⟩
          rcases le_or_gt lo x with h3 | h3
          · exact absurd ⟨h3, h2⟩ hx
          · exact le_trans (le_of_lt h3) h.1
        · rw [if_neg h2]; exact Or.inr h.2
      · rw [if_neg h1] at h hx
        have hx := not_or.mp hx
        have hxh : ¬ x ≤ hi := hx.2
        have hx : x < lo ∧ hi < x := ⟨not_le.mp hx.1, not_le.mp hx.2⟩
        rw [if_neg hxh]
        rcases h with h | h
        · exact Or.inl (le_trans (le_of_lt hx.1) h)
        · exact Or.inr h
    · show InLon lo x y
      unfold InLon
      by_cases h1 : lo ≤ hi
      · rw [if_pos h1] at h hx
        by_cases h2 : lo ≤ x
        · rw [if_pos h2]
          refine ⟨h.1, ?_⟩
          rcases le_or_gt x hi with h3 | h3
          · exact absurd ⟨h2, h3⟩ hx
          · exact le_trans h.2 (le_of_lt h3)
        · rw [if_neg h2]; exact Or.inl h.1
      · rw [if_neg h1] at h hx
        have hx := not_or.mp hx
        have hxl : ¬ lo ≤ x := hx.1
        have hx : x < lo ∧ hi < x := ⟨not_le.mp hx.1, not_le.mp hx.2⟩
        rw [if_neg hxl]
        rcases h with h | h
        · exact Or.inl h
        · exact Or.inr (le_trans h (le_of_lt hx.2))
  · rw [if_neg ho]; exact h

/-- **insert_contains**: after `_insert_pt_in_latlonbox(box, [lat, lon])` the point is in the box -/
theorem insert_contains (c : Consts K) (b : Box K) (la lo : K) :
    (insertPt c b (.at la lo)).Has la (c.norm lo) :=
  ⟨⟨_, rfl, growLat_contains _ _⟩, ⟨_, rfl, growLon_contains _ _ _⟩⟩

/-- latitudes stay covered by any insertion (a pole point sets a bound to `±π/2`, so the covered
    latitude has to be a latitude: `−π/2 ≤ y ≤ π/2`) -/
theorem insert_grows_lat (c : Consts K) (b : Box K) (p : Pt K) (y : K)
    (hy : -c.halfPi ≤ y ∧ y ≤ c.halfPi) (h : b.HasLat y) : (insertPt c b p).HasLat y := by
  obtain ⟨⟨lo, hi⟩, hb, hin⟩ := h
  cases p with
  | «at» la l =>
    refine ⟨_, rfl, ?_⟩
    rw [hb]; exact growLat_grows lo hi la y hin
  | pole north =>
    simp only [insertPt, hb]
    cases north
    · exact ⟨_, rfl, ⟨hy.1, hin.2⟩⟩
    · exact ⟨_, rfl, ⟨hin.1, hy.2⟩⟩

/-- longitudes stay covered by any insertion -/
theorem insert_grows_lon (c : Consts K) (b : Box K) (p : Pt K) (y : K)
    (h : b.HasLon y) : (insertPt c b p).HasLon y := by
  obtain ⟨⟨lo, hi⟩, hb, hin⟩ := h
  cases p with
  | «at» la l =>
    refine ⟨_, rfl, ?_⟩
    rw [hb]; exact growLon_grows c.twoPi lo hi (c.norm l) y hin
  | pole north =>
    simp only [insertPt]
    cases hbl : b.lat with
    | none => exact ⟨_, hb, hin⟩
    | some q => exact ⟨_, hb, hin⟩

/-- **insert_grows**: a point of the box stays in the box -/
theorem insert_grows (c : Consts K) (b : Box K) (p : Pt K) (la lo : K)
    (hy : -c.halfPi ≤ la ∧ la ≤ c.halfPi) (h : b.Has la lo) : (insertPt c b p).Has la lo :=
  ⟨insert_grows_lat c b p la hy h.1, insert_grows_lon c b p lo h.2⟩

theorem foldl_insert_keeps (c : Consts K) (pts : List (Pt K)) (b : Box K) (la lo : K)
    (hy : -c.halfPi ≤ la ∧ la ≤ c.halfPi) (h : b.Has la lo) :
    (pts.foldl (insertPt c) b).Has la lo := by
  induction pts generalizing b with
  | nil => exact h
  | cons p ps ih => exact ih _ (insert_grows c b p la lo hy h)

/-- **box_contains_all_inserted**: for ANY sequence of inserted points (pole points included, from
    any starting box) every inserted `[lat, lon]` is inside the final box. -/
theorem box_contains_all_inserted (c : Consts K) (pts : List (Pt K)) (b : Box K) (la lo : K)
    (hy : -c.halfPi ≤ la ∧ la ≤ c.halfPi) (hmem : Pt.at la lo ∈ pts) :
    (pts.foldl (insertPt c) b).Has la (c.norm lo) := by
  induction pts generalizing b with
  | nil => cases hmem
  | cons p ps ih =>
    rcases List.mem_cons.mp hmem with h | h
    · subst h
      exact foldl_insert_keeps c ps _ la _ hy (insert_contains c b la lo)
    · exact ih _ h

/-- non-vacuity: three points, the last wraps the interval through 0 -/
example : ([Pt.at (10 : ℚ) 350, Pt.at 20 355, Pt.at 15 5].foldl
    (insertPt ⟨90, 360, id⟩) Box.empty).Has 20 355 :=
  box_contains_all_inserted ⟨90, 360, id⟩ _ _ 20 355 (by norm_num) (by simp)

/-- minimality, non-wrapping special case stated on the raw longitudes: if every inserted longitude
    lies in a window `[A, B]` narrower than half a turn that does not wrap through 0, the interval is
    exactly `[min, max]` of the inserted longitudes.  (The general statement, wrapping windows
    included, is `insert_minimal` below.) -/
theorem insert_minimal_nowrap (twoPi A B : K) (hA : 0 ≤ A) (hB : B < twoPi)
    (hw : B - A < twoPi / 2) (xs : List K) (lo hi : K)
    (hlo : A ≤ lo) (hlh : lo ≤ hi) (hhi : hi ≤ B) (hxs : ∀ x ∈ xs, A ≤ x ∧ x ≤ B) :
    xs.foldl (fun q x => growLon twoPi (some q) x) (lo, hi)
      = (xs.foldl min lo, xs.foldl max hi) := by
  induction xs generalizing lo hi with
  | nil => rfl
  | cons x xs ih =>
    have hx := hxs x (List.mem_cons_self)
    have hrest : ∀ y ∈ xs, A ≤ y ∧ y ≤ B := fun y hy => hxs y (List.mem_cons_of_mem _ hy)
    simp only [List.foldl_cons]
    have step : growLon twoPi (some (lo, hi)) x = (min lo x, max hi x) := by
      simp only [growLon]
      by_cases ho : lonOutside lo hi x = true
      · rw [if_pos ho]
        have hout := (lonOutside_iff lo hi x).mp ho
        unfold InLon at hout
        rw [if_pos hlh] at hout
        rcases lt_or_ge x lo with hxl | hxl
        · -- new left end
          have hxh : x ≤ hi := le_trans (le_of_lt hxl) hlh
          have hnl : ¬ lo ≤ x := not_le.mpr hxl
          unfold lonWidth
          rw [if_pos hxh, if_neg hnl]
          have : hi - x < twoPi - lo + x := by linarith [hx.1, hx.2]
          rw [if_pos this, min_eq_right (le_of_lt hxl), max_eq_left hxh]
        · -- new right end
          have hxh : hi < x := by
            by_contra hc
            exact hout ⟨hxl, not_lt.mp hc⟩
          have hnh : ¬ x ≤ hi := not_le.mpr hxh
          unfold lonWidth
          rw [if_neg hnh, if_pos hxl]
          have : ¬ (twoPi - x + hi < x - lo) := by
            apply not_lt.mpr; linarith [hx.1, hx.2]
          rw [if_neg this, min_eq_left hxl, max_eq_right (le_of_lt hxh)]
      · rw [if_neg ho]
        have hin := not_not.mp ((lonOutside_iff lo hi x).not.mp ho)
        unfold InLon at hin
        rw [if_pos hlh] at hin
        rw [min_eq_left hin.1, max_eq_left hin.2]
    rw [step]
    exact ih (min lo x) (max hi x) (le_min hlo hx.1) (le_trans (min_le_left _ _) (le_trans hlh (le_max_left _ _)))
      (max_le hhi hx.2) hrest

example : [(40 : ℚ), 10, 25].foldl (fun q x => growLon 360 (some q) x) (30, 30) = (10, 40) := by
  rw [insert_minimal_nowrap 360 5 50 (by norm_num) (by norm_num) (by norm_num) _ 30 30
    (by norm_num) (by norm_num) (by norm_num) (by norm_num)]
  norm_num

end box

/-! ### minimality of the longitude interval, wrapping windows included -/
section minimal
variable {K : Type} [Field K] [LinearOrder K] [IsStrictOrderedRing K]

/-- the longitude at arc-offset `o` from the window start `s` (period `T`) -/
def pos (T s o : K) : K := if s + o < T then s + o else s + o - T

theorem pos_cases (T s o : K) :
    (s + o < T ∧ pos T s o = s + o) ∨ (T ≤ s + o ∧ pos T s o = s + o - T) := by
  unfold pos
  by_cases h : s + o < T
  · exact Or.inl ⟨h, by rw [if_pos h]⟩
  · exact Or.inr ⟨not_lt.mp h, by rw [if_neg h]⟩

section win
variable (T s L : K) (hs0 : 0 ≤ s) (hsT : s < T) (hL : 2 * L < T)
include hs0 hsT hL

theorem width_fwd (o1 o2 : K) (h1 : 0 ≤ o1) (h12 : o1 ≤ o2) (h2 : o2 ≤ L) :
    lonWidth T (pos T s o1) (pos T s o2) = o2 - o1 := by
  rcases pos_cases T s o1 with ⟨c1, e1⟩ | ⟨c1, e1⟩ <;> rcases pos_cases T s o2 with ⟨c2, e2⟩ | ⟨c2, e2⟩ <;>
    (rw [e1, e2]; unfold lonWidth; split_ifs <;> linarith)

theorem width_bwd (o1 o2 : K) (h2 : 0 ≤ o2) (h21 : o2 < o1) (h1 : o1 ≤ L) :
    lonWidth T (pos T s o1) (pos T s o2) = T - (o1 - o2) := by
  rcases pos_cases T s o1 with ⟨c1, e1⟩ | ⟨c1, e1⟩ <;> rcases pos_cases T s o2 with ⟨c2, e2⟩ | ⟨c2, e2⟩ <;>
    (rw [e1, e2]; unfold lonWidth; split_ifs <;> linarith)

theorem inLon_inside (a b o : K) (ha : 0 ≤ a) (hb : b ≤ L) (hao : a ≤ o) (hob : o ≤ b) :
    InLon (pos T s a) (pos T s b) (pos T s o) := by
  rcases pos_cases T s a with ⟨ca, ea⟩ | ⟨ca, ea⟩ <;> rcases pos_cases T s b with ⟨cb, eb⟩ | ⟨cb, eb⟩ <;>
    rcases pos_cases T s o with ⟨co, eo⟩ | ⟨co, eo⟩ <;>
    (rw [ea, eb, eo]; unfold InLon; split_ifs <;>
      first
        | exact ⟨by linarith, by linarith⟩
        | exact Or.inl (by linarith)
        | exact Or.inr (by linarith))

theorem inLon_below (a b o : K) (ho : 0 ≤ o) (hb : b ≤ L) (hoa : o < a) (hab : a ≤ b) :
    ¬ InLon (pos T s a) (pos T s b) (pos T s o) := by
  rcases pos_cases T s a with ⟨ca, ea⟩ | ⟨ca, ea⟩ <;> rcases pos_cases T s b with ⟨cb, eb⟩ | ⟨cb, eb⟩ <;>
    rcases pos_cases T s o with ⟨co, eo⟩ | ⟨co, eo⟩ <;>
    (rw [ea, eb, eo]; unfold InLon; intro h; split_ifs at h <;>
      first
        | (obtain ⟨h1, h2⟩ := h; linarith)
        | (rcases h with h | h <;> linarith))

theorem inLon_above (a b o : K) (ha : 0 ≤ a) (hab : a ≤ b) (hbo : b < o) (ho : o ≤ L) :
    ¬ InLon (pos T s a) (pos T s b) (pos T s o) := by
  rcases pos_cases T s a with ⟨ca, ea⟩ | ⟨ca, ea⟩ <;> rcases pos_cases T s b with ⟨cb, eb⟩ | ⟨cb, eb⟩ <;>
    rcases pos_cases T s o with ⟨co, eo⟩ | ⟨co, eo⟩ <;>
    (rw [ea, eb, eo]; unfold InLon; intro h; split_ifs at h <;>
      first
        | (obtain ⟨h1, h2⟩ := h; linarith)
        | (rcases h with h | h <;> linarith))

theorem growLon_window_step (a b o : K) (ha : 0 ≤ a) (hab : a ≤ b) (hb : b ≤ L)
    (ho0 : 0 ≤ o) (hoL : o ≤ L) :
    growLon T (some (pos T s a, pos T s b)) (pos T s o)
      = (pos T s (min a o), pos T s (max b o)) := by
  simp only [growLon]
  rcases lt_or_ge o a with hoa | hao
  · have hout := (lonOutside_iff _ _ _).mpr (inLon_below T s L hs0 hsT hL a b o ho0 hb hoa hab)
    rw [if_pos hout, width_fwd T s L hs0 hsT hL o b ho0 (by linarith) hb,
      width_bwd T s L hs0 hsT hL a o ho0 hoa (by linarith)]
    rw [if_pos (by linarith), min_eq_right hoa.le, max_eq_left (by linarith)]
  · rcases lt_or_ge b o with hbo | hob
    · have hout := (lonOutside_iff _ _ _).mpr (inLon_above T s L hs0 hsT hL a b o ha hab hbo hoL)
      rw [if_pos hout, width_bwd T s L hs0 hsT hL o b (by linarith) hbo hoL,
        width_fwd T s L hs0 hsT hL a o ha hao hoL]
      rw [if_neg (by linarith), min_eq_left hao, max_eq_right hbo.le]
    · have hin := inLon_inside T s L hs0 hsT hL a b o ha hb hao hob
      have hno : ¬ lonOutside (pos T s a) (pos T s b) (pos T s o) = true :=
        fun h => (lonOutside_iff _ _ _).mp h hin
      rw [if_neg hno, min_eq_left hao, max_eq_left hob]
end win

section fold
variable (T s L : K) (hs0 : 0 ≤ s) (hsT : s < T) (hL : 2 * L < T)
include hs0 hsT hL

theorem foldl_growLon_window (os : List K) (a b : K) (ha : 0 ≤ a) (hab : a ≤ b) (hb : b ≤ L)
    (hos : ∀ o ∈ os, 0 ≤ o ∧ o ≤ L) :
    (os.map (pos T s)).foldl (fun q x => growLon T (some q) x) (pos T s a, pos T s b)
      = (pos T s (os.foldl min a), pos T s (os.foldl max b)) := by
  induction os generalizing a b with
  | nil => rfl
  | cons o os ih =>
    have ho := hos o List.mem_cons_self
    simp only [List.map_cons, List.foldl_cons]
    rw [growLon_window_step T s L hs0 hsT hL a b o ha hab hb ho.1 ho.2]
    exact ih (min a o) (max b o) (le_min ha ho.1) (le_trans (min_le_left _ _) (le_trans hab (le_max_left _ _)))
      (max_le hb ho.2) (fun x hx => hos x (List.mem_cons_of_mem _ hx))
end fold

/-- the longitude row of the box after inserting a list of points only depends on the longitudes -/
theorem foldl_insertPt_lon (c : Consts K) (pts : List (K × K)) (b : Box K) (q : K × K)
    (hb : b.lon = some q) :
    (pts.foldl (fun b p => insertPt c b (.at p.1 p.2)) b).lon
      = some ((pts.map fun p => c.norm p.2).foldl (fun q x => growLon c.twoPi (some q) x) q) := by
  induction pts generalizing b q with
  | nil => exact hb
  | cons p ps ih =>
    simp only [List.foldl_cons, List.map_cons]
    apply ih
    show some (growLon c.twoPi b.lon (c.norm p.2)) = _
    rw [hb]

theorem foldl_min_le_init (os : List K) (a : K) : os.foldl min a ≤ a := by
  induction os generalizing a with
  | nil => exact le_refl _
  | cons o os ih => exact le_trans (ih _) (min_le_left _ _)
theorem init_le_foldl_max (os : List K) (a : K) : a ≤ os.foldl max a := by
  induction os generalizing a with
  | nil => exact le_refl _
  | cons o os ih => exact le_trans (le_max_left _ _) (ih _)

section main
open List
variable (c : Consts K) (s L : K) (hs0 : 0 ≤ s) (hsT : s < c.twoPi) (hL : 2 * L < c.twoPi)
include hs0 hsT hL

/-- **insert_minimal** (wrapping windows included): let every inserted longitude lie in a window
    that starts at `s ∈ [0, 2π)`, runs eastwards for `L < π` and may wrap through 0 — i.e. the
    normalised longitude of each point is `pos 2π s o` for an offset `o ∈ [0, L]`.  Then, whatever
    the order of insertion, the longitude row of the box built by `_insert_pt_in_latlonbox` from
    the empty box is exactly `[pos (min offset), pos (max offset)]`: the arc from the westernmost to
    the easternmost inserted point inside the window. -/
theorem insert_minimal (off : K → K) (p : K × K) (ps : List (K × K))
    (hwin : ∀ q ∈ p :: ps, c.norm q.2 = pos c.twoPi s (off q.2) ∧ 0 ≤ off q.2 ∧ off q.2 ≤ L) :
    ((p :: ps).foldl (fun b q => insertPt c b (.at q.1 q.2)) Box.empty).lon
      = some (pos c.twoPi s (((p :: ps).map fun q => off q.2).foldl min L),
              pos c.twoPi s (((p :: ps).map fun q => off q.2).foldl max 0)) := by
  have hp := hwin p mem_cons_self
  have hps : ∀ q ∈ ps, c.norm q.2 = pos c.twoPi s (off q.2) ∧ 0 ≤ off q.2 ∧ off q.2 ≤ L :=
    fun q hq => hwin q (mem_cons_of_mem _ hq)
  simp only [foldl_cons, map_cons]
  have h0 : (insertPt c Box.empty (.at p.1 p.2)).lon
      = some (pos c.twoPi s (off p.2), pos c.twoPi s (off p.2)) := by
    show some (growLon c.twoPi none (c.norm p.2)) = _
    rw [hp.1]; rfl
  rw [foldl_insertPt_lon c ps _ _ h0]
  have hmap : (ps.map fun q => c.norm q.2) = (ps.map fun q => off q.2).map (pos c.twoPi s) := by
    rw [map_map]
    exact map_congr_left (fun q hq => (hps q hq).1)
  rw [hmap, foldl_growLon_window c.twoPi s L hs0 hsT hL _ _ _ hp.2.1 (le_refl _) hp.2.2
    (fun o ho => by
      obtain ⟨q, hq, rfl⟩ := mem_map.mp ho
      exact (hps q hq).2)]
  rw [min_eq_right hp.2.2, max_eq_right hp.2.1]

/-- **insert_order_irrelevant**: any permutation of the inserted points gives the same longitude
    interval (traversal start and orientation of a face do not matter). -/
theorem insert_order_irrelevant (off : K → K) (l₁ l₂ : List (K × K)) (hperm : l₁ ~ l₂) (hne : l₁ ≠ [])
    (hwin : ∀ q ∈ l₁, c.norm q.2 = pos c.twoPi s (off q.2) ∧ 0 ≤ off q.2 ∧ off q.2 ≤ L) :
    (l₁.foldl (fun b q => insertPt c b (.at q.1 q.2)) Box.empty).lon
      = (l₂.foldl (fun b q => insertPt c b (.at q.1 q.2)) Box.empty).lon := by
  have hwin2 : ∀ q ∈ l₂, c.norm q.2 = pos c.twoPi s (off q.2) ∧ 0 ≤ off q.2 ∧ off q.2 ≤ L :=
    fun q hq => hwin q (hperm.mem_iff.mpr hq)
  have hne2 : l₂ ≠ [] := fun h => hne (by rw [h] at hperm; exact hperm.eq_nil)
  obtain ⟨p, ps, rfl⟩ := exists_cons_of_ne_nil hne
  obtain ⟨p', ps', rfl⟩ := exists_cons_of_ne_nil hne2
  rw [insert_minimal c s L hs0 hsT hL off p ps hwin, insert_minimal c s L hs0 hsT hL off p' ps' hwin2]
  have hm : ((p :: ps).map fun q => off q.2) ~ ((p' :: ps').map fun q => off q.2) := hperm.map _
  rw [hm.foldl_eq' (fun x _ y _ z => min_right_comm z x y) L,
      hm.foldl_eq' (fun x _ y _ z => max_right_comm z x y) 0]
end main

theorem foldl_min_mem (os : List K) (a : K) : os.foldl min a = a ∨ os.foldl min a ∈ os := by
  induction os generalizing a with
  | nil => exact Or.inl rfl
  | cons o os ih =>
    simp only [List.foldl_cons, List.mem_cons]
    rcases ih (min a o) with h | h
    · rw [h]
      rcases min_choice a o with h' | h'
      · exact Or.inl h'
      · exact Or.inr (Or.inl h')
    · exact Or.inr (Or.inr h)
theorem foldl_max_mem (os : List K) (a : K) : os.foldl max a = a ∨ os.foldl max a ∈ os := by
  induction os generalizing a with
  | nil => exact Or.inl rfl
  | cons o os ih =>
    simp only [List.foldl_cons, List.mem_cons]
    rcases ih (max a o) with h | h
    · rw [h]
      rcases max_choice a o with h' | h'
      · exact Or.inl h'
      · exact Or.inr (Or.inl h')
    · exact Or.inr (Or.inr h)

section short
variable (T s L : K) (hs0 : 0 ≤ s) (hsT : s < T) (hL : 2 * L < T)
include hs0 hsT hL

/-- any arc `[lo, hi]` (wrapping or not) that contains the two window points at offsets
    `m ≤ M` is at least `M − m` wide -/
theorem cover_width_ge (lo hi m M : K) (hlo : 0 ≤ lo ∧ lo < T) (hhi : 0 ≤ hi ∧ hi < T)
    (hm : 0 ≤ m) (hmM : m ≤ M) (hM : M ≤ L)
    (h1 : InLon lo hi (pos T s m)) (h2 : InLon lo hi (pos T s M)) : M - m ≤ lonWidth T lo hi := by
  rcases pos_cases T s m with ⟨cm, em⟩ | ⟨cm, em⟩ <;> rcases pos_cases T s M with ⟨cM, eM⟩ | ⟨cM, eM⟩ <;>
    (rw [em] at h1; rw [eM] at h2; unfold InLon at h1 h2; unfold lonWidth
     split_ifs at h1 h2 ⊢ <;>
      first
        | (obtain ⟨a1, a2⟩ := h1; obtain ⟨b1, b2⟩ := h2; linarith)
        | (rcases h1 with h1 | h1 <;> rcases h2 with h2 | h2 <;> linarith))
end short

section shortest
open List
variable (c : Consts K) (s L : K) (hs0 : 0 ≤ s) (hsT : s < c.twoPi) (hL : 2 * L < c.twoPi)
include hs0 hsT hL

/-- **insert_minimal_shortest**: the interval of `insert_minimal` IS a shortest covering arc — every
    arc `[lo, hi]` (wrapping or not) that contains all inserted longitudes is at least as wide. -/
theorem insert_minimal_shortest (off : K → K) (p : K × K) (ps : List (K × K))
    (hwin : ∀ q ∈ p :: ps, c.norm q.2 = pos c.twoPi s (off q.2) ∧ 0 ≤ off q.2 ∧ off q.2 ≤ L)
    (lo hi : K) (hlo : 0 ≤ lo ∧ lo < c.twoPi) (hhi : 0 ≤ hi ∧ hi < c.twoPi)
    (hcov : ∀ q ∈ p :: ps, InLon lo hi (c.norm q.2)) :
    ∃ r, ((p :: ps).foldl (fun b q => insertPt c b (.at q.1 q.2)) Box.empty).lon = some r ∧
      lonWidth c.twoPi r.1 r.2 ≤ lonWidth c.twoPi lo hi := by
  refine ⟨_, insert_minimal c s L hs0 hsT hL off p ps hwin, ?_⟩
  set os := (p :: ps).map fun q => off q.2 with hos
  have hall : ∀ o ∈ os, 0 ≤ o ∧ o ≤ L ∧ InLon lo hi (pos c.twoPi s o) := by
    intro o ho
    obtain ⟨q, hq, rfl⟩ := mem_map.mp ho
    have h := hwin q hq
    exact ⟨h.2.1, h.2.2, by rw [← h.1]; exact hcov q hq⟩
  have hp := hwin p mem_cons_self
  have hos' : os = off p.2 :: ps.map fun q => off q.2 := by rw [hos, map_cons]
  -- the minimum and the maximum are offsets of inserted points
  have hmin_mem : os.foldl min L ∈ os := by
    rw [hos', foldl_cons, min_eq_right hp.2.2]
    rcases foldl_min_mem (ps.map fun q => off q.2) (off p.2) with h | h
    · rw [h]; exact mem_cons_self
    · exact mem_cons_of_mem _ h
  have hmax_mem : os.foldl max 0 ∈ os := by
    rw [hos', foldl_cons, max_eq_right hp.2.1]
    rcases foldl_max_mem (ps.map fun q => off q.2) (off p.2) with h | h
    · rw [h]; exact mem_cons_self
    · exact mem_cons_of_mem _ h
  have hmM : os.foldl min L ≤ os.foldl max 0 := by
    have h1 : os.foldl min L ≤ off p.2 := by
      rw [hos', foldl_cons, min_eq_right hp.2.2]; exact foldl_min_le_init _ _
    have h2 : off p.2 ≤ os.foldl max 0 := by
      rw [hos', foldl_cons, max_eq_right hp.2.1]; exact init_le_foldl_max _ _
    exact le_trans h1 h2
  have hm := hall _ hmin_mem
  have hM := hall _ hmax_mem
  show lonWidth c.twoPi (pos c.twoPi s (os.foldl min L)) (pos c.twoPi s (os.foldl max 0)) ≤ _
  rw [width_fwd c.twoPi s L hs0 hsT hL _ _ hm.1 hmM hM.2.1]
  exact cover_width_ge c.twoPi s L hs0 hsT hL lo hi _ _ hlo hhi hm.1 hmM hM.2.1 hm.2.2 hM.2.2
end shortest

/-- non-vacuity: period 360, window starting at 350° of length 30° (wraps through 0); the points
    355°, 5°, 352° give `[352°, 5°]` -/
example : ([((0 : ℚ), (355 : ℚ)), (0, 5), (0, 352)].foldl
    (fun b q => insertPt ⟨90, 360, id⟩ b (.at q.1 q.2)) Box.empty).lon = some (352, 5) := by
  have h := insert_minimal (K := ℚ) ⟨90, 360, id⟩ 350 30 (by norm_num) (by norm_num) (by norm_num)
    (fun x => if 350 ≤ x then x - 350 else x + 10) (0, 355) [(0, 5), (0, 352)]
    (by
      intro q hq
      simp only [List.mem_cons, List.not_mem_nil, or_false] at hq
      rcases hq with rfl | rfl | rfl <;> norm_num [pos])
  rw [h]
  norm_num [pos]

end minimal

/-! ## §B the loops -/
section loops
variable {K : Type} [Field K] [LinearOrder K] [IsStrictOrderedRing K]

theorem insert_at_grows_lat (c : Consts K) (b : Box K) (la lo y : K) (h : b.HasLat y) :
    (insertPt c b (.at la lo)).HasLat y := by
  obtain ⟨⟨l, u⟩, hb, hin⟩ := h
  refine ⟨_, rfl, ?_⟩
  rw [hb]; exact growLat_grows l u la y hin

theorem insert_at_has_lat (c : Consts K) (b : Box K) (la lo : K) :
    (insertPt c b (.at la lo)).HasLat la := (insert_contains c b la lo).1

theorem insert_at_has_lon (c : Consts K) (b : Box K) (la lo : K) :
    (insertPt c b (.at la lo)).HasLon (c.norm lo) := (insert_contains c b la lo).2

/-- one repaired step keeps what was covered -/
theorem stepNormal_grows (c : Consts K) (b : Box K) (e : ES K) (la lo : K)
    (h : b.HasLat la ∧ b.HasLon lo) :
    (stepNormal c b e).HasLat la ∧ (stepNormal c b e).HasLon lo := by
  unfold stepNormal
  exact ⟨insert_at_grows_lat _ _ _ _ _ (insert_at_grows_lat _ _ _ _ _ (insert_at_grows_lat _ _ _ _ _ h.1)),
    insert_grows_lon _ _ _ _ (insert_grows_lon _ _ _ _ (insert_grows_lon _ _ _ _ h.2))⟩

/-- one repaired step covers the edge's first corner and both extremes -/
theorem stepNormal_covers (c : Consts K) (b : Box K) (e : ES K) :
    ((stepNormal c b e).HasLat e.lat1 ∧ (stepNormal c b e).HasLon (c.norm e.lon1)) ∧
    (stepNormal c b e).HasLat e.mx ∧ (stepNormal c b e).HasLat e.mn := by
  unfold stepNormal
  refine ⟨⟨?_, ?_⟩, ?_, ?_⟩
  · exact insert_at_grows_lat _ _ _ _ _ (insert_at_grows_lat _ _ _ _ _ (insert_at_has_lat _ _ _ _))
  · exact insert_grows_lon _ _ _ _ (insert_grows_lon _ _ _ _ (insert_at_has_lon _ _ _ _))
  · exact insert_at_grows_lat _ _ _ _ _ (insert_at_has_lat _ _ _ _)
  · exact insert_at_has_lat _ _ _ _

theorem foldl_stepNormal_grows (c : Consts K) (es : List (ES K)) (b : Box K) (la lo : K)
    (h : b.HasLat la ∧ b.HasLon lo) :
    (es.foldl (stepNormal c) b).HasLat la ∧ (es.foldl (stepNormal c) b).HasLon lo := by
  induction es generalizing b with
  | nil => exact h
  | cons e es ih => exact ih _ (stepNormal_grows c b e la lo h)

theorem foldl_stepNormal_grows_lat (c : Consts K) (es : List (ES K)) (b : Box K) (la : K)
    (h : b.HasLat la) : (es.foldl (stepNormal c) b).HasLat la := by
  induction es generalizing b with
  | nil => exact h
  | cons e es ih =>
    refine ih _ ?_
    unfold stepNormal
    exact insert_at_grows_lat _ _ _ _ _ (insert_at_grows_lat _ _ _ _ _ (insert_at_grows_lat _ _ _ _ _ h))

theorem foldl_stepNormal_covers (c : Consts K) (es : List (ES K)) (b : Box K) (e : ES K)
    (he : e ∈ es) :
    (es.foldl (stepNormal c) b).Has e.lat1 (c.norm e.lon1) ∧
    (es.foldl (stepNormal c) b).HasLat e.mx ∧ (es.foldl (stepNormal c) b).HasLat e.mn := by
  induction es generalizing b with
  | nil => cases he
  | cons x xs ih =>
    rcases List.mem_cons.mp he with h | h
    · subst h
      have hc := stepNormal_covers c b e
      simp only [List.foldl_cons]
      exact ⟨foldl_stepNormal_grows c xs _ _ _ hc.1,
        foldl_stepNormal_grows_lat c xs _ _ hc.2.1, foldl_stepNormal_grows_lat c xs _ _ hc.2.2⟩
    · simp only [List.foldl_cons]
      exact ih _ h

/-- **lat_encloses_nodes** (repaired normal-face loop, ANY list of edges): for every edge of the
    face, its first corner `(lat, lon)`, the arc maximum and the arc minimum are inside the final
    box.  Every corner of a face is the first corner of one of its edges, so every corner latitude
    lies in `[lat_min, lat_max]` and every corner longitude in the longitude interval. -/
theorem lat_encloses_nodes (c : Consts K) (close : K → K → Bool) (es : List (ES K)) (e : ES K)
    (he : e ∈ es) :
    (normalLoop c close .repaired es).Has e.lat1 (c.norm e.lon1) ∧
    (normalLoop c close .repaired es).HasLat e.mx ∧
    (normalLoop c close .repaired es).HasLat e.mn :=
  foldl_stepNormal_covers c es Box.empty e he

/-- second corners too, for a closed ring of edges (each edge ends where another one starts) -/
theorem lat_encloses_second_nodes (c : Consts K) (close : K → K → Bool) (es : List (ES K))
    (hring : ∀ e ∈ es, ∃ e' ∈ es, e'.lat1 = e.lat2 ∧ e'.lon1 = e.lon2) (e : ES K) (he : e ∈ es) :
    (normalLoop c close .repaired es).Has e.lat2 (c.norm e.lon2) := by
  obtain ⟨e', he', h1, h2⟩ := hring e he
  rw [← h1, ← h2]
  exact (lat_encloses_nodes c close es e' he').1

/-- non-vacuity: a triangle whose lowest corner starts a poleward-bulging edge (degrees, ℚ) -/
example : (normalLoop (K := ℚ) ⟨90, 360, id⟩ (fun a b => a == b) .repaired
    [⟨10, 0, 12, 40, 20, 10, false, false⟩, ⟨12, 40, 30, 20, 30, 12, false, false⟩,
     ⟨30, 20, 10, 0, 30, 10, false, false⟩]).HasLat 10 :=
  (lat_encloses_nodes _ _ _ ⟨10, 0, 12, 40, 20, 10, false, false⟩ (by simp)).1.1

/-! ### tightness by attainment (repaired normal-face loop) -/

/-- the three points the repaired loop inserts for one edge -/
def pts3 (e : ES K) : List (K × K) := [(e.lat1, e.lon1), (e.mx, e.lon1), (e.mn, e.lon1)]
def insAt (c : Consts K) (b : Box K) (p : K × K) : Box K := insertPt c b (.at p.1 p.2)

theorem normalLoop_eq_flat (c : Consts K) (es : List (ES K)) (b : Box K) :
    es.foldl (stepNormal c) b = (es.flatMap pts3).foldl (insAt c) b := by
  induction es generalizing b with
  | nil => rfl
  | cons e es ih =>
    simp only [List.foldl_cons, List.flatMap_cons, List.foldl_append]
    rw [ih]; rfl

theorem growLat_attained (o : Option (K × K)) (x : K) :
    ((growLat o x).1 = x ∨ ∃ q, o = some q ∧ (growLat o x).1 = q.1) ∧
    ((growLat o x).2 = x ∨ ∃ q, o = some q ∧ (growLat o x).2 = q.2) := by
  rcases o with _ | ⟨lo, hi⟩
  · exact ⟨Or.inl rfl, Or.inl rfl⟩
  · constructor
    · by_cases hx : x < lo
      · exact Or.inl (by show minK lo x = x; unfold minK; rw [if_pos hx])
      · exact Or.inr ⟨(lo, hi), rfl, by show minK lo x = lo; unfold minK; rw [if_neg hx]⟩
    · by_cases hx : hi < x
      · exact Or.inl (by show maxK hi x = x; unfold maxK; rw [if_pos hx])
      · exact Or.inr ⟨(lo, hi), rfl, by show maxK hi x = hi; unfold maxK; rw [if_neg hx]⟩

theorem foldl_insAt_attained (c : Consts K) (pts : List (K × K)) (b : Box K) (lo hi : K)
    (h : (pts.foldl (insAt c) b).lat = some (lo, hi)) :
    (lo ∈ pts.map Prod.fst ∨ ∃ q, b.lat = some q ∧ lo = q.1) ∧
    (hi ∈ pts.map Prod.fst ∨ ∃ q, b.lat = some q ∧ hi = q.2) := by
  induction pts generalizing b with
  | nil => exact ⟨Or.inr ⟨(lo, hi), h, rfl⟩, Or.inr ⟨(lo, hi), h, rfl⟩⟩
  | cons p ps ih =>
    have ih' := ih (insAt c b p) h
    have hg := growLat_attained b.lat p.1
    constructor
    · rcases ih'.1 with h1 | ⟨q, hq, h1⟩
      · exact Or.inl (by simp only [List.map_cons, List.mem_cons]; exact Or.inr h1)
      · have hq' : q = growLat b.lat p.1 := by
          have : (insAt c b p).lat = some (growLat b.lat p.1) := rfl
          rw [this] at hq; exact (Option.some.inj hq).symm
        rcases hg.1 with h2 | ⟨q0, hq0, h2⟩
        · exact Or.inl (by simp only [List.map_cons, List.mem_cons]; exact Or.inl (by rw [h1, hq', h2]))
        · exact Or.inr ⟨q0, hq0, by rw [h1, hq', h2]⟩
    · rcases ih'.2 with h1 | ⟨q, hq, h1⟩
      · exact Or.inl (by simp only [List.map_cons, List.mem_cons]; exact Or.inr h1)
      · have hq' : q = growLat b.lat p.1 := by
          have : (insAt c b p).lat = some (growLat b.lat p.1) := rfl
          rw [this] at hq; exact (Option.some.inj hq).symm
        rcases hg.2 with h2 | ⟨q0, hq0, h2⟩
        · exact Or.inl (by simp only [List.map_cons, List.mem_cons]; exact Or.inl (by rw [h1, hq', h2]))
        · exact Or.inr ⟨q0, hq0, by rw [h1, hq', h2]⟩

theorem mem_flat_pts3 (es : List (ES K)) (x : K) (h : x ∈ (es.flatMap pts3).map Prod.fst) :
    ∃ e ∈ es, x = e.lat1 ∨ x = e.mx ∨ x = e.mn := by
  obtain ⟨p, hp, rfl⟩ := List.mem_map.mp h
  obtain ⟨e, he, hpe⟩ := List.mem_flatMap.mp hp
  refine ⟨e, he, ?_⟩
  simp only [pts3, List.mem_cons, List.not_mem_nil, or_false] at hpe
  rcases hpe with rfl | rfl | rfl
  · exact Or.inl rfl
  · exact Or.inr (Or.inl rfl)
  · exact Or.inr (Or.inr rfl)

/-- **lat_bounds_attained** (tightness of the repaired normal-face loop, ANY list of edges): each
    latitude bound IS one of the inserted latitudes — a corner's latitude or an arc extreme, which
    `extreme_gca_latitude` takes from a point of the arc.  No slack is ever added. -/
theorem lat_bounds_attained (c : Consts K) (close : K → K → Bool) (es : List (ES K)) (lo hi : K)
    (h : (normalLoop c close .repaired es).lat = some (lo, hi)) :
    (∃ e ∈ es, lo = e.lat1 ∨ lo = e.mx ∨ lo = e.mn) ∧
    (∃ e ∈ es, hi = e.lat1 ∨ hi = e.mx ∨ hi = e.mn) := by
  have h' : ((es.flatMap pts3).foldl (insAt c) Box.empty).lat = some (lo, hi) := by
    rw [← normalLoop_eq_flat]; exact h
  have := foldl_insAt_attained c _ Box.empty lo hi h'
  constructor
  · rcases this.1 with h1 | ⟨q, hq, _⟩
    · exact mem_flat_pts3 es lo h1
    · cases hq
  · rcases this.2 with h1 | ⟨q, hq, _⟩
    · exact mem_flat_pts3 es hi h1
    · cases hq

end loops

/-! ### as-is counterexamples (decided over `Int`; latitudes / longitudes in degrees) -/

def cI : Consts Int := ⟨90, 360, id⟩
def eqI (a b : Int) : Bool := a == b

/-- a triangle `A(10°) → B(12°) → C(30°)`: the edge `A → B` bulges poleward to 20° -/
def asisEdges : List (ES Int) :=
  [⟨10, 0, 12, 40, 20, 10, false, false⟩, ⟨12, 40, 30, 20, 30, 12, false, false⟩,
   ⟨30, 20, 10, 0, 30, 10, false, false⟩]

/-- **asis_skips_corner**: the `if / elif / else` chain inserts the arc maximum of `A → B` INSTEAD
    of the corner `A`, no other edge inserts `A`, and `lat_min` becomes 12° > 10°; the repaired loop
    gives `[10°, 30°]`. -/
theorem asis_skips_corner :
    (normalLoop cI eqI .asIs asisEdges).lat = some (12, 30) ∧
    ¬ (normalLoop cI eqI .asIs asisEdges).HasLat 10 ∧
    (normalLoop cI eqI .repaired asisEdges).lat = some (10, 30) := by
  have h1 : (normalLoop cI eqI .asIs asisEdges).lat = some (12, 30) := by decide
  refine ⟨h1, ?_, by decide⟩
  rintro ⟨p, hp, hin⟩
  rw [h1] at hp
  cases hp
  exact absurd hin.1 (by decide)

/-- a triangle with a corner on the north pole whose nominal longitude is 0°; the other corners
    sit at 100°E and 140°E -/
def poleCornerEdges : List (ES Int) :=
  [⟨90, 0, 60, 100, 90, 60, true, true⟩, ⟨60, 100, 60, 140, 65, 60, false, false⟩,
   ⟨60, 140, 90, 0, 90, 60, false, true⟩]

/-- **asis_pole_corner_longitude**: the as-is pole loop stretches the longitude interval to the
    pole corner's nominal longitude (`[0°, 140°]`); the repaired loop reports `[100°, 140°]`. -/
theorem asis_pole_corner_longitude :
    (poleLoop cI .asIs true poleCornerEdges).lon = some (0, 140) ∧
    (poleLoop cI .repaired true poleCornerEdges).lon = some (100, 140) ∧
    (poleLoop cI .repaired true poleCornerEdges).lat = some (60, 90) := by decide

/-- exact direction vectors: "same point" = same direction -/
def sameDir (p q : V3 Int) : Bool :=
  let c := cross p q
  c.x == 0 && c.y == 0 && c.z == 0 && decide (0 < dot p q)

def fnI : Fn Int :=
  { sqrt := id, asin := id, abs := fun x => if x < 0 then -x else x, close := eqI,
    tol := 0, eps := 0, normalize := id, samePt := sameDir, nearPt := sameDir,
    atan2 := fun _ _ => 0, pi := 1 }

def faceI (l : List (V3 Int)) : List (Edge Int) :=
  (Oracle.cyc l).map fun e => ⟨e.1, e.2, 0, 0, 0, 0⟩

/-- the pole is strictly inside a counter-clockwise convex face: left of every edge -/
def poleLeftOfAll (north : Bool) (l : List (V3 Int)) : Bool :=
  (Oracle.cyc l).all fun e => decide (0 < dot (cross e.1 e.2) (poleVec north))

/-- a polar cap with a corner on the reference meridian (longitude 0) -/
def capOnMeridian : List (V3 Int) := [⟨2, 0, 1⟩, ⟨-1, 2, 1⟩, ⟨-1, -2, 1⟩]
/-- the same cap turned a little -/
def capOffMeridian : List (V3 Int) := [⟨2, 1, 1⟩, ⟨-1, 2, 1⟩, ⟨-1, -2, 1⟩]

/-- **asis_pole_missed**: the north pole is strictly inside the cap, but the only crossing of the
    reference arc is at a corner, which `_check_intersection` counts as 0 — the pole is not
    detected; turning the cap off the meridian it is. -/
theorem asis_pole_missed :
    poleLeftOfAll true capOnMeridian = true ∧ poleInside fnI true (faceI capOnMeridian) = false ∧
    poleLeftOfAll true capOffMeridian = true ∧ poleInside fnI true (faceI capOffMeridian) = true := by
  decide +kernel

/-- a small triangle on the equator around the reference point `(1, 0, 0)` -/
def equatorialFace : List (V3 Int) := [⟨100, 9, -2⟩, ⟨100, -9, 6⟩, ⟨100, 5, -5⟩]

/-- **asis_false_pole**: no pole is inside the equatorial triangle, yet the "Equator" branch
    (north edges against the northern half of the reference meridian, south edges against the
    southern half) counts an odd number of crossings for both poles. -/
theorem asis_false_pole :
    poleLeftOfAll true equatorialFace = false ∧ poleLeftOfAll false equatorialFace = false ∧
    location (faceI equatorialFace) = .equator ∧
    poleInside fnI true (faceI equatorialFace) = true ∧
    poleInside fnI false (faceI equatorialFace) = true := by
  decide +kernel

section poleface
variable {K : Type} [Field K] [LinearOrder K] [IsStrictOrderedRing K]

theorem setHi_lat (b : Box K) (v lo hi : K) (h : b.lat = some (lo, hi)) :
    (b.setHi v).lat = some (lo, v) := by simp [Box.setHi, h]
theorem setLo_lat (b : Box K) (v lo hi : K) (h : b.lat = some (lo, hi)) :
    (b.setLo v).lat = some (v, hi) := by simp [Box.setLo, h]

/-- after one iteration of the pole loop the pole-side latitude bound is the pole's latitude -/
theorem stepPole_lat (c : Consts K) (v : Variant) (north : Bool) (st : Box K × Bool) (e : ES K) :
    ∃ lo hi, (stepPole c v north st e).1.lat = some (lo, hi) ∧
      (if north then hi = c.halfPi else lo = -c.halfPi) := by
  unfold stepPole
  cases north
  · simp only [Bool.false_eq_true, if_false]
    refine ⟨_, _, setLo_lat _ _ _ _ rfl, rfl⟩
  · simp only [if_true]
    refine ⟨_, _, setHi_lat _ _ _ _ rfl, rfl⟩

theorem foldl_stepPole_centre (c : Consts K) (v : Variant) (north : Bool) (es : List (ES K))
    (b : Box K) (hno : ∀ e ∈ es, e.n1Pole = false ∧ e.onEdge = false) :
    (es.foldl (stepPole c v north) (b, true)).2 = true := by
  induction es generalizing b with
  | nil => rfl
  | cons e es ih =>
    have h := hno e List.mem_cons_self
    simp only [List.foldl_cons]
    have : stepPole c v north (b, true) e = ((stepPole c v north (b, true) e).1, true) := by
      unfold stepPole; simp [h.1, h.2]
    rw [this]
    exact ih _ (fun e he => hno e (List.mem_cons_of_mem _ he))

theorem poleLoop_lat (c : Consts K) (v : Variant) (north : Bool) (es : List (ES K)) :
    (poleLoop c v north es).lat = (es.foldl (stepPole c v north) (Box.empty, true)).1.lat := by
  unfold poleLoop
  by_cases h : (es.foldl (stepPole c v north) (Box.empty, true)).2 = true <;> simp [h]

theorem poleLoop_lon_centre (c : Consts K) (v : Variant) (north : Bool) (es : List (ES K))
    (h : (es.foldl (stepPole c v north) (Box.empty, true)).2 = true) :
    (poleLoop c v north es).lon = some (0, c.twoPi) := by
  unfold poleLoop; simp [h]

theorem poleLoop_not_centre (c : Consts K) (v : Variant) (north : Bool) (es : List (ES K))
    (h : ¬ (es.foldl (stepPole c v north) (Box.empty, true)).2 = true) :
    poleLoop c v north es = (es.foldl (stepPole c v north) (Box.empty, true)).1 := by
  unfold poleLoop; simp [h]

/-- **pole_face_partial**: a face whose parity count flags a pole (`hasN ∨ hasS`) reports that
    pole's latitude as the bound on that side, and — when no edge touches the pole (no corner on
    it, no edge through it) — the full longitude circle `[0, 2π]`.
    Full statement (property): the same with "the pole lies strictly inside the face" in place of
    the flag.  The AS-IS flag (parity count) does not agree with the geometry: `asis_pole_missed`,
    `asis_false_pole`.  The REPAIRED flag is the winding number of the boundary about the polar axis
    (`pole_flag_iff_winding` below); that a convex face has winding number ±1 iff a pole is strictly
    inside is tested on every generated face against the orientation determinants, not proved. -/
theorem pole_face_partial (c : Consts K) (close : K → K → Bool) (v : Variant) (hasN hasS : Bool)
    (es : List (ES K)) (hne : es ≠ []) (hflag : hasN = true ∨ hasS = true) :
    (∃ lo hi, (runFace c close v hasN hasS es).lat = some (lo, hi) ∧
       (if hasN then hi = c.halfPi else lo = -c.halfPi)) ∧
    ((∀ e ∈ es, e.n1Pole = false ∧ e.onEdge = false) →
       (runFace c close v hasN hasS es).lon = some (0, c.twoPi)) := by
  have hb : (hasN || hasS) = true := by rcases hflag with h | h <;> simp [h]
  unfold runFace
  rw [if_pos hb]
  constructor
  · rw [poleLoop_lat]
    obtain ⟨init, last, rfl⟩ := (List.eq_nil_or_concat es).resolve_left hne
    rw [List.concat_eq_append, List.foldl_append]
    simp only [List.foldl_cons, List.foldl_nil]
    exact stepPole_lat c v hasN (init.foldl (stepPole c v hasN) (Box.empty, true)) last
  · intro hno
    exact poleLoop_lon_centre c v hasN es (foldl_stepPole_centre c v hasN es Box.empty hno)

/-- non-vacuity: a square cap around the north pole (degrees) -/
example : (runFace (K := ℚ) ⟨90, 360, id⟩ (fun a b => a == b) .repaired true false
    [⟨60, 0, 60, 90, 69, 60, false, false⟩, ⟨60, 90, 60, 180, 69, 60, false, false⟩,
     ⟨60, 180, 60, 270, 69, 60, false, false⟩, ⟨60, 270, 60, 0, 69, 60, false, false⟩]).lon
    = some (0, 360) :=
  (pole_face_partial _ _ _ _ _ _ (by simp) (Or.inl rfl)).2 (by simp)

theorem setHi_grows (b : Box K) (v y : K) (hy : y ≤ v) (h : b.HasLat y) : (b.setHi v).HasLat y := by
  obtain ⟨⟨lo, hi⟩, hb, hin⟩ := h
  exact ⟨(lo, v), by simp [Box.setHi, hb], ⟨hin.1, hy⟩⟩
theorem setLo_grows (b : Box K) (v y : K) (hy : v ≤ y) (h : b.HasLat y) : (b.setLo v).HasLat y := by
  obtain ⟨⟨lo, hi⟩, hb, hin⟩ := h
  exact ⟨(v, hi), by simp [Box.setLo, hb], ⟨hy, hin.2⟩⟩
theorem setHi_lon (b : Box K) (v y : K) (h : b.HasLon y) : (b.setHi v).HasLon y := h
theorem setLo_lon (b : Box K) (v y : K) (h : b.HasLon y) : (b.setLo v).HasLon y := h

/-- the longitude the pole loop uses for an edge's first corner -/
def lonUsed (v : Variant) (e : ES K) : K :=
  match v with
  | .asIs => e.lon1
  | .repaired => if e.n1Pole then e.lon2 else e.lon1

theorem stepPole_grows (c : Consts K) (v : Variant) (north : Bool) (st : Box K × Bool) (e : ES K)
    (la : K) (hy : -c.halfPi ≤ la ∧ la ≤ c.halfPi) (h : st.1.HasLat la) :
    (stepPole c v north st e).1.HasLat la := by
  unfold stepPole
  have h0 : (if (e.n1Pole || e.onEdge) = true then insertPt c st.1 (.pole north) else st.1).HasLat la := by
    split
    · exact insert_grows_lat c _ _ la hy h
    · exact h
  cases north
  · simp only [Bool.false_eq_true, if_false]
    exact setLo_grows _ _ _ hy.1 (insert_at_grows_lat _ _ _ _ _ (insert_at_grows_lat _ _ _ _ _ h0))
  · simp only [if_true]
    exact setHi_grows _ _ _ hy.2 (insert_at_grows_lat _ _ _ _ _ (insert_at_grows_lat _ _ _ _ _ h0))

theorem stepPole_grows_lon (c : Consts K) (v : Variant) (north : Bool) (st : Box K × Bool) (e : ES K)
    (lo : K) (h : st.1.HasLon lo) : (stepPole c v north st e).1.HasLon lo := by
  unfold stepPole
  have h0 : (if (e.n1Pole || e.onEdge) = true then insertPt c st.1 (.pole north) else st.1).HasLon lo := by
    split
    · exact insert_grows_lon c _ _ lo h
    · exact h
  cases north
  · simp only [Bool.false_eq_true, if_false]
    exact setLo_lon _ _ _ (insert_grows_lon _ _ _ _ (insert_grows_lon _ _ _ _ h0))
  · simp only [if_true]
    exact setHi_lon _ _ _ (insert_grows_lon _ _ _ _ (insert_grows_lon _ _ _ _ h0))

theorem stepPole_covers (c : Consts K) (v : Variant) (north : Bool) (st : Box K × Bool) (e : ES K)
    (hy : -c.halfPi ≤ e.lat1 ∧ e.lat1 ≤ c.halfPi) :
    (stepPole c v north st e).1.HasLat e.lat1 ∧
    (stepPole c v north st e).1.HasLon (c.norm (lonUsed v e)) := by
  unfold stepPole
  cases north
  · simp only [Bool.false_eq_true, if_false]
    refine ⟨setLo_grows _ _ _ hy.1 (insert_at_grows_lat _ _ _ _ _ ?_),
      setLo_lon _ _ _ (insert_grows_lon _ _ _ _ ?_)⟩
    · exact insert_at_has_lat _ _ _ _
    · cases v <;> exact insert_at_has_lon _ _ _ _
  · simp only [if_true]
    refine ⟨setHi_grows _ _ _ hy.2 (insert_at_grows_lat _ _ _ _ _ ?_),
      setHi_lon _ _ _ (insert_grows_lon _ _ _ _ ?_)⟩
    · exact insert_at_has_lat _ _ _ _
    · cases v <;> exact insert_at_has_lon _ _ _ _

/-- **pole_loop_encloses_nodes** (both variants, ANY list of edges): every corner latitude is in
    `[lat_min, lat_max]`, and the longitude used for the corner is in the longitude interval
    (`[0, 2π]` contains every normalised longitude). -/
theorem pole_loop_encloses_nodes (c : Consts K) (v : Variant) (north : Bool) (es : List (ES K))
    (hnorm : ∀ x, 0 ≤ c.norm x ∧ c.norm x ≤ c.twoPi) (h2pi : 0 ≤ c.twoPi)
    (e : ES K) (he : e ∈ es) (hy : -c.halfPi ≤ e.lat1 ∧ e.lat1 ≤ c.halfPi) :
    (poleLoop c v north es).HasLat e.lat1 ∧ (poleLoop c v north es).HasLon (c.norm (lonUsed v e)) := by
  have key : ∀ (st : Box K × Bool),
      (es.foldl (stepPole c v north) st).1.HasLat e.lat1 ∧
      (es.foldl (stepPole c v north) st).1.HasLon (c.norm (lonUsed v e)) := by
    induction es with
    | nil => cases he
    | cons x xs ih =>
      intro st
      rcases List.mem_cons.mp he with h | h
      · subst h
        simp only [List.foldl_cons]
        have hc := stepPole_covers c v north st e hy
        generalize stepPole c v north st e = st' at hc
        clear ih he
        induction xs generalizing st' with
        | nil => exact hc
        | cons y ys ih2 =>
          simp only [List.foldl_cons]
          exact ih2 _ ⟨stepPole_grows c v north st' y _ hy hc.1, stepPole_grows_lon c v north st' y _ hc.2⟩
      · simp only [List.foldl_cons]
        exact ih h _
  have hk := key (Box.empty, true)
  by_cases hc : (es.foldl (stepPole c v north) (Box.empty, true)).2 = true
  · refine ⟨?_, ⟨(0, c.twoPi), poleLoop_lon_centre c v north es hc, ?_⟩⟩
    · obtain ⟨p, hp, hin⟩ := hk.1
      exact ⟨p, by rw [poleLoop_lat]; exact hp, hin⟩
    · unfold InLon
      rw [if_pos h2pi]
      exact hnorm _
  · rw [poleLoop_not_centre c v north es hc]
    exact hk

end poleface

/-! ## §C the arc -/
section arc
variable {K : Type} [Field K] [LinearOrder K] [IsStrictOrderedRing K]

/-- **circle_apex_bound** (Cauchy–Schwarz): on the great circle with unit normal `n`, every unit
    vector `p ⟂ n` has `p_z² ≤ 1 − n_z²` — a global bound for the apex value. -/
theorem circle_apex_bound (n p : V3 K) (hn : dot n n = 1) (hp : dot p p = 1) (ho : dot p n = 0) :
    p.z ^ 2 ≤ 1 - n.z ^ 2 := by
  obtain ⟨nx, ny, nz⟩ := n
  obtain ⟨px, py, pz⟩ := p
  simp only [dot] at hn hp ho ⊢
  have key : 1 - nz ^ 2 - pz ^ 2
      = (nz * nx + pz * px) ^ 2 + (nz * ny + pz * py) ^ 2 + (1 - nz ^ 2 - pz ^ 2) ^ 2 := by
    linear_combination (-(nz ^ 2)) * hn - pz ^ 2 * hp - 2 * nz * pz * ho
  have : 0 ≤ 1 - nz ^ 2 - pz ^ 2 := by rw [key]; positivity
  linarith

example : ((0 : ℚ)) ^ 2 ≤ 1 - (1 : ℚ) ^ 2 :=
  circle_apex_bound (⟨0, 0, 1⟩ : V3 ℚ) ⟨1, 0, 0⟩ (by simp [dot]) (by simp [dot]) (by simp [dot])

/-- homogeneous form (no normalisation): for ANY normal `n` and ANY `p ⟂ n`,
    `p_z² ‖n‖² ≤ ‖p‖² (‖n‖² − n_z²)`; the defect is the square of `(n × p)_z`. -/
theorem circle_bound_defect (n p : V3 K) (ho : dot n p = 0) :
    dot p p * (dot n n - n.z ^ 2) - p.z ^ 2 * dot n n = (cross n p).z ^ 2 := by
  obtain ⟨nx, ny, nz⟩ := n
  obtain ⟨px, py, pz⟩ := p
  simp only [dot, cross] at ho ⊢
  linear_combination (nx * px + ny * py - nz * pz) * ho

theorem circle_bound_hom (n p : V3 K) (ho : dot n p = 0) :
    p.z ^ 2 * dot n n ≤ dot p p * (dot n n - n.z ^ 2) := by
  have := circle_bound_defect n p ho
  have h2 : 0 ≤ (cross n p).z ^ 2 := sq_nonneg _
  linarith

/-- the chord point lies in the plane of the arc -/
theorem chord_in_plane (a b : V3 K) (t : K) : dot (cross a b) (chord a b t) = 0 := by
  obtain ⟨ax, ay, az⟩ := a
  obtain ⟨bx, b_y, bz⟩ := b
  simp only [dot, cross, chord, vadd, smul]
  ring

/-- squared length of the chord point for unit end points -/
theorem chord_normSq (a b : V3 K) (ha : dot a a = 1) (hb : dot b b = 1) (t : K) :
    dot (chord a b t) (chord a b t) = 1 - 2 * t * (1 - t) * (1 - dot a b) := by
  obtain ⟨ax, ay, az⟩ := a
  obtain ⟨bx, b_y, bz⟩ := b
  simp only [dot, chord, vadd, smul] at ha hb ⊢
  linear_combination (1 - t) ^ 2 * ha + t ^ 2 * hb

theorem chord_z (a b : V3 K) (t : K) : (chord a b t).z = (1 - t) * a.z + t * b.z := rfl

/-- `z`-component of `(a × b) × p(t)`: an affine function of `t` -/
theorem crossz_chord (a b : V3 K) (ha : dot a a = 1) (hb : dot b b = 1) (t : K) :
    (cross (cross a b) (chord a b t)).z
      = (b.z - dot a b * a.z) - t * ((1 - dot a b) * (a.z + b.z)) := by
  obtain ⟨ax, ay, az⟩ := a
  obtain ⟨bx, b_y, bz⟩ := b
  simp only [dot, cross, chord, vadd, smul] at ha hb ⊢
  linear_combination (bz * (1 - t)) * ha - (az * t) * hb

/-- `d_a_max` written with the two "rises" -/
theorem dAMax_eq (a b : V3 K) :
    dAMax a b = (b.z - dot a b * a.z) / ((1 - dot a b) * (a.z + b.z)) := by
  show (a.z * dot a b - b.z) / ((a.z + b.z) * (dot a b - 1)) = _
  rw [show (a.z * dot a b - b.z) = -(b.z - dot a b * a.z) by ring,
      show ((a.z + b.z) * (dot a b - 1)) = -((1 - dot a b) * (a.z + b.z)) by ring, neg_div_neg_eq]

/-- **extreme_param_stationary**: for unit end points,
    `z'(t)·‖p(t)‖² − z(t)·(p(t)·p'(t))` — the numerator of the derivative of `z(t)/‖p(t)‖` — is the
    affine function `(z_b − z_a) + (1 − d)(z_a − t (z_a + z_b))`; it vanishes at the code's
    `d_a_max`, and nowhere else. -/
theorem extreme_param_stationary (a b : V3 K) (ha : dot a a = 1) (hb : dot b b = 1)
    (hden : (1 - dot a b) * (a.z + b.z) ≠ 0) :
    (∀ t, (b.z - a.z) * dot (chord a b t) (chord a b t)
            - (chord a b t).z * dot (chord a b t) (vsub b a)
          = (b.z - a.z) + (1 - dot a b) * (a.z - t * (a.z + b.z))) ∧
    (b.z - a.z) + (1 - dot a b) * (a.z - dAMax a b * (a.z + b.z)) = 0 ∧
    (∀ t, (b.z - a.z) + (1 - dot a b) * (a.z - t * (a.z + b.z)) = 0 → t = dAMax a b) := by
  refine ⟨?_, ?_, ?_⟩
  · intro t
    obtain ⟨ax, ay, az⟩ := a
    obtain ⟨bx, b_y, bz⟩ := b
    simp only [dot, chord, vadd, vsub, smul] at ha hb ⊢
    linear_combination ((bz - az) * (1 - t) ^ 2 + ((1 - t) * az + t * bz) * (1 - t)) * ha
      + ((bz - az) * t ^ 2 - ((1 - t) * az + t * bz) * t) * hb
  · rw [dAMax_eq]
    have h := div_mul_cancel₀ (b.z - dot a b * a.z) hden
    linear_combination (-1 : K) * h
  · intro t ht
    rw [dAMax_eq, eq_div_iff hden]
    linear_combination -ht

example : dAMax (⟨3/5, 0, 4/5⟩ : V3 ℚ) ⟨0, 3/5, 4/5⟩ = 1/2 := by
  norm_num [dAMax, dot]

/-- **apex_attains_bound**: the chord point at `d_a_max` attains the great circle's bound
    `z² ‖n‖² = ‖p‖² (‖n‖² − n_z²)` (`n = a × b`): it IS the circle's northernmost or southernmost
    direction. -/
theorem apex_attains_bound (a b : V3 K) (ha : dot a a = 1) (hb : dot b b = 1)
    (hden : (1 - dot a b) * (a.z + b.z) ≠ 0) :
    (chord a b (dAMax a b)).z ^ 2 * dot (cross a b) (cross a b)
      = dot (chord a b (dAMax a b)) (chord a b (dAMax a b))
          * (dot (cross a b) (cross a b) - (cross a b).z ^ 2) := by
  have hz : (cross (cross a b) (chord a b (dAMax a b))).z = 0 := by
    rw [crossz_chord a b ha hb, dAMax_eq, div_mul_cancel₀ _ hden]; ring
  have := circle_bound_defect (cross a b) (chord a b (dAMax a b)) (chord_in_plane a b _)
  rw [hz] at this
  linear_combination -this

theorem normSq_nonneg (p : V3 K) : 0 ≤ dot p p := by
  obtain ⟨x, y, z⟩ := p
  simp only [dot]
  exact add_nonneg (add_nonneg (mul_self_nonneg _) (mul_self_nonneg _)) (mul_self_nonneg _)

/-- **arc_below_apex**: the chord point at `d_a_max` dominates EVERY point of the great circle
    (in particular every point of the arc): `(z(t)/‖p(t)‖)² ≤ (z(t*)/‖p(t*)‖)²`, cross-multiplied. -/
theorem arc_below_apex (a b : V3 K) (ha : dot a a = 1) (hb : dot b b = 1)
    (hden : (1 - dot a b) * (a.z + b.z) ≠ 0) (hn : 0 < dot (cross a b) (cross a b)) (t : K) :
    (chord a b t).z ^ 2 * dot (chord a b (dAMax a b)) (chord a b (dAMax a b))
      ≤ (chord a b (dAMax a b)).z ^ 2 * dot (chord a b t) (chord a b t) := by
  have h1 := circle_bound_hom (cross a b) (chord a b t) (chord_in_plane a b t)
  have h2 := apex_attains_bound a b ha hb hden
  have h3 := normSq_nonneg (chord a b (dAMax a b))
  have h4 := normSq_nonneg (chord a b t)
  set N := dot (cross a b) (cross a b)
  set Ns := dot (chord a b (dAMax a b)) (chord a b (dAMax a b))
  set Nt := dot (chord a b t) (chord a b t)
  set zs := (chord a b (dAMax a b)).z
  set zt := (chord a b t).z
  set w := N - (cross a b).z ^ 2
  -- zt² N ≤ Nt w ,  zs² N = Ns w  ⊢ zt² Ns ≤ zs² Nt
  have : (zt ^ 2 * Ns) * N ≤ (zs ^ 2 * Nt) * N := by
    calc (zt ^ 2 * Ns) * N = (zt ^ 2 * N) * Ns := by ring
      _ ≤ (Nt * w) * Ns := mul_le_mul_of_nonneg_right h1 h3
      _ = (Ns * w) * Nt := by ring
      _ = (zs ^ 2 * N) * Nt := by rw [h2]
      _ = (zs ^ 2 * Nt) * N := by ring
  exact le_of_mul_le_mul_right this hn

end arc

/-! ### every point of the arc (over ℝ) -/
section real

/-- `z_b − (a·b) z_a`: sign of the rate of change of latitude when leaving `a` towards `b` -/
def rise (a b : V3 ℝ) : ℝ := b.z - dot a b * a.z

/-- sine of the latitude of the arc point with chord parameter `t` -/
noncomputable def sinLat (a b : V3 ℝ) (t : ℝ) : ℝ :=
  (chord a b t).z / Real.sqrt (dot (chord a b t) (chord a b t))

theorem dot_comm (a b : V3 ℝ) : dot a b = dot b a := by
  simp only [dot]; ring

theorem cauchy_schwarz (a p : V3 ℝ) : (dot a p) ^ 2 ≤ dot a a * dot p p := by
  obtain ⟨ax, ay, az⟩ := a
  obtain ⟨px, py, pz⟩ := p
  simp only [dot]
  nlinarith [sq_nonneg (ax * py - ay * px), sq_nonneg (ay * pz - az * py), sq_nonneg (az * px - ax * pz)]

theorem dot_le_norm (a p : V3 ℝ) (ha : dot a a = 1) : dot a p ≤ Real.sqrt (dot p p) := by
  have h := cauchy_schwarz a p
  rw [ha, one_mul] at h
  exact le_trans (le_abs_self _) (Real.abs_le_sqrt h)

theorem dot_a_chord (a b : V3 ℝ) (ha : dot a a = 1) (t : ℝ) :
    dot a (chord a b t) = (1 - t) + t * dot a b := by
  obtain ⟨ax, ay, az⟩ := a
  obtain ⟨bx, b_y, bz⟩ := b
  simp only [dot, chord, vadd, smul] at ha ⊢
  linear_combination (1 - t) * ha

theorem dot_b_chord (a b : V3 ℝ) (hb : dot b b = 1) (t : ℝ) :
    dot b (chord a b t) = (1 - t) * dot a b + t := by
  obtain ⟨ax, ay, az⟩ := a
  obtain ⟨bx, b_y, bz⟩ := b
  simp only [dot, chord, vadd, smul] at hb ⊢
  linear_combination t * hb

theorem chord_normSq_le_one (a b : V3 ℝ) (ha : dot a a = 1) (hb : dot b b = 1)
    (hd : dot a b ≤ 1) (t : ℝ) (ht0 : 0 ≤ t) (ht1 : t ≤ 1) :
    dot (chord a b t) (chord a b t) ≤ 1 := by
  rw [chord_normSq a b ha hb]
  have : 0 ≤ t * (1 - t) * (1 - dot a b) :=
    mul_nonneg (mul_nonneg ht0 (by linarith)) (by linarith)
  linarith

theorem chord_normSq_pos (a b : V3 ℝ) (ha : dot a a = 1) (hb : dot b b = 1)
    (hd1 : dot a b ≤ 1) (hd2 : -1 < dot a b) (t : ℝ) (ht0 : 0 ≤ t) (ht1 : t ≤ 1) :
    0 < dot (chord a b t) (chord a b t) := by
  rw [chord_normSq a b ha hb]
  have h1 : t * (1 - t) ≤ 1 / 4 := by nlinarith [sq_nonneg (t - 1 / 2)]
  have h2 : t * (1 - t) * (1 - dot a b) ≤ 1 / 4 * (1 - dot a b) :=
    mul_le_mul_of_nonneg_right h1 (by linarith)
  nlinarith

/-- leaving `a` the latitude does not rise and `a` is not in the south: `a` dominates the arc -/
theorem half_a (a b : V3 ℝ) (ha : dot a a = 1) (t : ℝ) (ht0 : 0 ≤ t)
    (hr : rise a b ≤ 0) (hza : 0 ≤ a.z) :
    (chord a b t).z ≤ a.z * Real.sqrt (dot (chord a b t) (chord a b t)) := by
  have h1 : (chord a b t).z ≤ a.z * dot a (chord a b t) := by
    rw [chord_z, dot_a_chord a b ha]
    unfold rise at hr
    nlinarith [mul_nonneg ht0 (neg_nonneg.mpr hr)]
  exact le_trans h1 (mul_le_mul_of_nonneg_left (dot_le_norm a _ ha) hza)

theorem half_b (a b : V3 ℝ) (hb : dot b b = 1) (t : ℝ) (ht1 : t ≤ 1)
    (hr : rise b a ≤ 0) (hzb : 0 ≤ b.z) :
    (chord a b t).z ≤ b.z * Real.sqrt (dot (chord a b t) (chord a b t)) := by
  have h1 : (chord a b t).z ≤ b.z * dot b (chord a b t) := by
    rw [chord_z, dot_b_chord a b hb]
    unfold rise at hr
    rw [dot_comm b a] at hr
    nlinarith [mul_nonneg (sub_nonneg.mpr ht1) (neg_nonneg.mpr hr)]
  exact le_trans h1 (mul_le_mul_of_nonneg_left (dot_le_norm b _ hb) hzb)

/-- on an arc shorter than half a turn the latitude cannot fall when leaving the southern end
    AND fall when arriving at the northern end -/
theorem no_double_fall (za zb d : ℝ) (hd : d ^ 2 < 1) (h1 : zb - d * za ≤ 0) (h2 : 0 < za - d * zb)
    (hza : za < 0) (hzb : 0 < zb) : False := by
  have hd0 : d < 0 := by
    by_contra hc
    have : d * za ≤ 0 := mul_nonpos_of_nonneg_of_nonpos (not_lt.mp hc) hza.le
    linarith
  have h3 : 0 ≤ d * (zb - d * za) := mul_nonneg_of_nonpos_of_nonpos hd0.le h1
  have h4 : za * (1 - d ^ 2) < 0 := mul_neg_of_neg_of_pos hza (by linarith)
  nlinarith

/-- **arc_le_endpoints**: when the great circle's northernmost point is NOT strictly inside the arc
    (`¬ (rise a b > 0 ∧ rise b a > 0)`), every point of the arc is at most as far north as the
    more northern end point: `z(t) ≤ max(z_a, z_b)·‖p(t)‖` for all `t ∈ [0, 1]`. -/
theorem arc_le_endpoints (a b : V3 ℝ) (ha : dot a a = 1) (hb : dot b b = 1)
    (hd1 : dot a b < 1) (hd2 : -1 < dot a b) (t : ℝ) (ht0 : 0 ≤ t) (ht1 : t ≤ 1)
    (hno : ¬ (0 < rise a b ∧ 0 < rise b a)) :
    (chord a b t).z ≤ max a.z b.z * Real.sqrt (dot (chord a b t) (chord a b t)) := by
  set s := Real.sqrt (dot (chord a b t) (chord a b t)) with hs
  have hs0 : 0 ≤ s := Real.sqrt_nonneg _
  have hs1 : s ≤ 1 := by
    rw [hs]; exact Real.sqrt_le_one.mpr (chord_normSq_le_one a b ha hb hd1.le t ht0 ht1) |>.trans (le_refl _)
  have hz : (chord a b t).z ≤ max a.z b.z := by
    rw [chord_z]
    have h1 := le_max_left a.z b.z
    have h2 := le_max_right a.z b.z
    nlinarith [mul_le_mul_of_nonneg_left h1 (sub_nonneg.mpr ht1), mul_le_mul_of_nonneg_left h2 ht0]
  have hdsq : (dot a b) ^ 2 < 1 := by nlinarith
  by_cases hm : max a.z b.z ≤ 0
  · have : max a.z b.z * 1 ≤ max a.z b.z * s := mul_le_mul_of_nonpos_left hs1 hm
    linarith
  · have hm' : 0 < max a.z b.z := not_le.mp hm
    have fromA : 0 ≤ a.z → rise a b ≤ 0 → (chord a b t).z ≤ max a.z b.z * s := fun hza hr =>
      le_trans (half_a a b ha t ht0 hr hza) (mul_le_mul_of_nonneg_right (le_max_left _ _) hs0)
    have fromB : 0 ≤ b.z → rise b a ≤ 0 → (chord a b t).z ≤ max a.z b.z * s := fun hzb hr =>
      le_trans (half_b a b hb t ht1 hr hzb) (mul_le_mul_of_nonneg_right (le_max_right _ _) hs0)
    rcases not_and_or.mp hno with h | h
    · have hr : rise a b ≤ 0 := not_lt.mp h
      by_cases hza : 0 ≤ a.z
      · exact fromA hza hr
      · have hza' : a.z < 0 := not_le.mp hza
        have hzb : 0 < b.z := by
          rcases le_max_iff.mp (le_of_lt hm') with h0 | h0
          · exact absurd h0 hza
          · rcases lt_or_eq_of_le h0 with h1 | h1
            · exact h1
            · exfalso
              have : max a.z b.z = 0 := by rw [← h1]; exact max_eq_right (by linarith)
              linarith
        have hr2 : rise b a ≤ 0 := by
          by_contra hc
          have hc' : 0 < rise b a := not_le.mp hc
          unfold rise at hr hc'
          rw [dot_comm b a] at hc'
          exact no_double_fall a.z b.z (dot a b) hdsq hr hc' hza' hzb
        exact fromB hzb.le hr2
    · have hr : rise b a ≤ 0 := not_lt.mp h
      by_cases hzb : 0 ≤ b.z
      · exact fromB hzb hr
      · have hzb' : b.z < 0 := not_le.mp hzb
        have hza : 0 < a.z := by
          rcases le_max_iff.mp (le_of_lt hm') with h0 | h0
          · rcases lt_or_eq_of_le h0 with h1 | h1
            · exact h1
            · exfalso
              have : max a.z b.z = 0 := by rw [← h1]; exact max_eq_left (by linarith)
              linarith
          · exact absurd h0 hzb
        have hr2 : rise a b ≤ 0 := by
          by_contra hc
          have hc' : 0 < rise a b := not_le.mp hc
          unfold rise at hr hc'
          rw [dot_comm b a] at hr
          exact no_double_fall b.z a.z (dot a b) hdsq hr hc' hzb' hza
        exact fromA hza.le hr2

/-- reflection in the equatorial plane -/
def flipz (a : V3 ℝ) : V3 ℝ := ⟨a.x, a.y, -a.z⟩

theorem flipz_dot (a b : V3 ℝ) : dot (flipz a) (flipz b) = dot a b := by
  simp only [dot, flipz]; ring
theorem flipz_chord (a b : V3 ℝ) (t : ℝ) : chord (flipz a) (flipz b) t = flipz (chord a b t) := by
  simp only [chord, vadd, smul, flipz, V3.mk.injEq]
  refine ⟨trivial, trivial, ?_⟩
  ring
theorem flipz_rise (a b : V3 ℝ) : rise (flipz a) (flipz b) = -rise a b := by
  simp only [rise, flipz_dot]; simp only [flipz]; ring
theorem flipz_dAMax (a b : V3 ℝ) : dAMax (flipz a) (flipz b) = dAMax a b := by
  rw [dAMax_eq, dAMax_eq, flipz_dot]
  simp only [flipz]
  rw [show (-b.z - dot a b * -a.z) = -(b.z - dot a b * a.z) by ring,
      show ((1 - dot a b) * (-a.z + -b.z)) = -((1 - dot a b) * (a.z + b.z)) by ring, neg_div_neg_eq]
theorem flipz_sinLat (a b : V3 ℝ) (t : ℝ) : sinLat (flipz a) (flipz b) t = -sinLat a b t := by
  unfold sinLat
  rw [flipz_chord, flipz_dot]
  simp only [flipz]; ring

/-- **arc_ge_endpoints**: when the southernmost point of the great circle is not strictly inside
    the arc, every arc point is at least as far north as the more southern end point. -/
theorem arc_ge_endpoints (a b : V3 ℝ) (ha : dot a a = 1) (hb : dot b b = 1)
    (hd1 : dot a b < 1) (hd2 : -1 < dot a b) (t : ℝ) (ht0 : 0 ≤ t) (ht1 : t ≤ 1)
    (hno : ¬ (rise a b < 0 ∧ rise b a < 0)) :
    min a.z b.z * Real.sqrt (dot (chord a b t) (chord a b t)) ≤ (chord a b t).z := by
  have h := arc_le_endpoints (flipz a) (flipz b) (by rw [flipz_dot]; exact ha)
    (by rw [flipz_dot]; exact hb) (by rw [flipz_dot]; exact hd1) (by rw [flipz_dot]; exact hd2)
    t ht0 ht1 (by rw [flipz_rise, flipz_rise]; intro hc; exact hno ⟨by linarith [hc.1], by linarith [hc.2]⟩)
  rw [flipz_chord, flipz_dot] at h
  simp only [flipz] at h
  rw [max_neg_neg] at h
  linarith

theorem rise_add (a b : V3 ℝ) : rise a b + rise b a = (1 - dot a b) * (a.z + b.z) := by
  simp only [rise, dot_comm b a]; ring

theorem cross_normSq (a b : V3 ℝ) (ha : dot a a = 1) (hb : dot b b = 1) :
    dot (cross a b) (cross a b) = 1 - (dot a b) ^ 2 := by
  obtain ⟨ax, ay, az⟩ := a
  obtain ⟨bx, b_y, bz⟩ := b
  simp only [dot, cross] at ha hb ⊢
  linear_combination (bx * bx + b_y * b_y + bz * bz) * ha + hb

theorem sinLat_le_of_z_le (a b : V3 ℝ) (t m : ℝ)
    (hN : 0 < dot (chord a b t) (chord a b t))
    (h : (chord a b t).z ≤ m * Real.sqrt (dot (chord a b t) (chord a b t))) : sinLat a b t ≤ m := by
  unfold sinLat
  rw [div_le_iff₀ (Real.sqrt_pos.mpr hN)]
  exact h

/-- **extreme_sin_encloses_max** — the exact `extreme_gca_latitude(…, "max")`, in sine-of-latitude
    form, dominates EVERY point of the arc: if `d_a_max ∈ (0, 1)` the candidate point joins the
    end points, otherwise the end points alone suffice. -/
theorem extreme_sin_encloses_max (a b : V3 ℝ) (ha : dot a a = 1) (hb : dot b b = 1)
    (hd1 : dot a b < 1) (hd2 : -1 < dot a b) (τ : ℝ) (h0 : 0 ≤ τ) (h1 : τ ≤ 1) :
    sinLat a b τ ≤
      (if 0 < dAMax a b ∧ dAMax a b < 1 then max (sinLat a b (dAMax a b)) (max a.z b.z)
       else max a.z b.z) := by
  have hNτ := chord_normSq_pos a b ha hb hd1.le hd2 τ h0 h1
  by_cases hap : 0 < rise a b ∧ 0 < rise b a
  · -- the apex is strictly inside the arc
    have hD : 0 < (1 - dot a b) * (a.z + b.z) := by rw [← rise_add]; linarith [hap.1, hap.2]
    have ht : 0 < dAMax a b ∧ dAMax a b < 1 := by
      rw [dAMax_eq]
      refine ⟨div_pos hap.1 hD, (div_lt_one hD).mpr ?_⟩
      show rise a b < _
      rw [← rise_add]; linarith [hap.2]
    rw [if_pos ht]
    refine le_trans ?_ (le_max_left _ _)
    set ts := dAMax a b with hts
    have hNs := chord_normSq_pos a b ha hb hd1.le hd2 ts ht.1.le ht.2.le
    have hzs : 0 ≤ (chord a b ts).z := by
      have e : (chord a b ts).z * ((1 - dot a b) * (a.z + b.z))
          = a.z ^ 2 + b.z ^ 2 - 2 * dot a b * a.z * b.z := by
        rw [chord_z, hts, dAMax_eq]
        have hc := div_mul_cancel₀ (b.z - dot a b * a.z) (ne_of_gt hD)
        linear_combination (b.z - a.z) * hc
      have hnum : 0 ≤ a.z ^ 2 + b.z ^ 2 - 2 * dot a b * a.z * b.z := by
        have hdsq : 0 ≤ 1 - (dot a b) ^ 2 := by nlinarith
        nlinarith [sq_nonneg (a.z - dot a b * b.z), mul_nonneg hdsq (sq_nonneg b.z)]
      by_contra hc
      have : (chord a b ts).z * ((1 - dot a b) * (a.z + b.z)) < 0 :=
        mul_neg_of_neg_of_pos (not_le.mp hc) hD
      linarith
    have hn : 0 < dot (cross a b) (cross a b) := by
      rw [cross_normSq a b ha hb]; nlinarith
    have key := arc_below_apex a b ha hb (ne_of_gt hD) hn τ
    unfold sinLat
    by_cases hzτ : (chord a b τ).z ≤ 0
    · exact le_trans (div_nonpos_of_nonpos_of_nonneg hzτ (Real.sqrt_nonneg _))
        (div_nonneg hzs (Real.sqrt_nonneg _))
    · have hzτ' : 0 ≤ (chord a b τ).z := (not_le.mp hzτ).le
      rw [div_le_div_iff₀ (Real.sqrt_pos.mpr hNτ) (Real.sqrt_pos.mpr hNs)]
      have e1 : (chord a b τ).z * Real.sqrt (dot (chord a b ts) (chord a b ts))
          = Real.sqrt ((chord a b τ).z ^ 2 * dot (chord a b ts) (chord a b ts)) := by
        rw [Real.sqrt_mul (sq_nonneg _), Real.sqrt_sq hzτ']
      have e2 : (chord a b ts).z * Real.sqrt (dot (chord a b τ) (chord a b τ))
          = Real.sqrt ((chord a b ts).z ^ 2 * dot (chord a b τ) (chord a b τ)) := by
        rw [Real.sqrt_mul (sq_nonneg _), Real.sqrt_sq hzs]
      rw [e1, e2]
      exact Real.sqrt_le_sqrt key
  · have hU := sinLat_le_of_z_le a b τ _ hNτ (arc_le_endpoints a b ha hb hd1 hd2 τ h0 h1 hap)
    split
    · exact le_trans hU (le_max_right _ _)
    · exact hU

/-- **extreme_sin_encloses_min** — the same for `"min"`. -/
theorem extreme_sin_encloses_min (a b : V3 ℝ) (ha : dot a a = 1) (hb : dot b b = 1)
    (hd1 : dot a b < 1) (hd2 : -1 < dot a b) (τ : ℝ) (h0 : 0 ≤ τ) (h1 : τ ≤ 1) :
    (if 0 < dAMax a b ∧ dAMax a b < 1 then min (sinLat a b (dAMax a b)) (min a.z b.z)
       else min a.z b.z) ≤ sinLat a b τ := by
  have h := extreme_sin_encloses_max (flipz a) (flipz b) (by rw [flipz_dot]; exact ha)
    (by rw [flipz_dot]; exact hb) (by rw [flipz_dot]; exact hd1) (by rw [flipz_dot]; exact hd2) τ h0 h1
  rw [flipz_dAMax, flipz_sinLat, flipz_sinLat] at h
  simp only [flipz] at h
  rw [max_neg_neg, max_neg_neg] at h
  split at h
  · rename_i hc; rw [if_pos hc]; linarith
  · rename_i hc; rw [if_neg hc]; linarith

/-- the exact-arithmetic instance of the numeric runtime: real `√`, any monotone `asin`, no
    tolerance snapping -/
noncomputable def realFn (f : ℝ → ℝ) : Fn ℝ :=
  { sqrt := Real.sqrt, asin := f, abs := fun x => |x|, close := fun _ _ => false, tol := 0, eps := 0,
    normalize := id, samePt := fun _ _ => false, nearPt := fun _ _ => false,
    atan2 := fun y x => Complex.arg ⟨x, y⟩, pi := Real.pi }

theorem z_sq_le_normSq (p : V3 ℝ) : p.z ^ 2 ≤ dot p p := by
  obtain ⟨x, y, z⟩ := p
  simp only [dot]; nlinarith [mul_self_nonneg x, mul_self_nonneg y]

theorem latOfN_unit (f : ℝ → ℝ) (hp : ℝ) (a : V3 ℝ) (ha : dot a a = 1) :
    latOfN (realFn f) hp a = f a.z := by
  have hz : |a.z| ≤ 1 := by
    have := z_sq_le_normSq a
    rw [ha] at this
    exact abs_le_one_iff_mul_self_le_one.mpr (by nlinarith)
  have e : a.x * a.x + a.y * a.y + a.z * a.z = 1 := ha
  simp only [latOfN, realFn, ha, Real.sqrt_one, div_one, e, abs_one, sub_zero]
  rw [if_neg (not_lt.mpr hz)]

theorem sinLat_abs_le_one (a b : V3 ℝ) (t : ℝ) (hN : 0 < dot (chord a b t) (chord a b t)) :
    -1 ≤ sinLat a b t ∧ sinLat a b t ≤ 1 := by
  have h := z_sq_le_normSq (chord a b t)
  have hs := Real.sqrt_pos.mpr hN
  have habs : |(chord a b t).z| ≤ Real.sqrt (dot (chord a b t) (chord a b t)) := Real.abs_le_sqrt h
  unfold sinLat
  constructor
  · rw [le_div_iff₀ hs]; linarith [neg_abs_le (chord a b t).z]
  · rw [div_le_iff₀ hs]; linarith [le_abs_self (chord a b t).z]

theorem clipK_id (x : ℝ) (h : -1 ≤ x ∧ x ≤ 1) : clipK x (-1) 1 = x := by
  unfold clipK
  rw [if_neg (not_lt.mpr h.1), if_neg (not_lt.mpr h.2)]

/-- **extreme_encloses_arc** — the transcription of `extreme_gca_latitude` itself, run in exact
    arithmetic (`realFn`: real square root, any monotone inverse sine `f`, no tolerance snapping),
    encloses the latitude `f(sin lat)` of EVERY point of EVERY arc shorter than half a turn:
    `extremeLat … "min" ≤ lat(p(τ)) ≤ extremeLat … "max"` for all `τ ∈ [0, 1]`. -/
theorem extreme_encloses_arc (f : ℝ → ℝ) (hf : Monotone f) (hp : ℝ) (a b : V3 ℝ)
    (ha : dot a a = 1) (hb : dot b b = 1) (hd1 : dot a b < 1) (hd2 : -1 < dot a b)
    (τ : ℝ) (h0 : 0 ≤ τ) (h1 : τ ≤ 1) :
    extremeLat (realFn f) hp false a b ≤ f (sinLat a b τ) ∧
    f (sinLat a b τ) ≤ extremeLat (realFn f) hp true a b := by
  have hmax := hf (extreme_sin_encloses_max a b ha hb hd1 hd2 τ h0 h1)
  have hmin := hf (extreme_sin_encloses_min a b ha hb hd1 hd2 τ h0 h1)
  have hl1 := latOfN_unit f hp a ha
  have hl2 := latOfN_unit f hp b hb
  have hclose : ((realFn f).close (dAMax a b) 0 || (realFn f).close (dAMax a b) 1) = false := rfl
  unfold extremeLat
  simp only [hclose, Bool.false_eq_true, if_false, hl1, hl2]
  by_cases ht : 0 < dAMax a b ∧ dAMax a b < 1
  · have hN := chord_normSq_pos a b ha hb hd1.le hd2 _ ht.1.le ht.2.le
    have hc : clipK ((chord a b (dAMax a b)).z /
        (realFn f).sqrt (dot (chord a b (dAMax a b)) (chord a b (dAMax a b)))) (-1) 1
        = sinLat a b (dAMax a b) := clipK_id _ (sinLat_abs_le_one a b _ hN)
    rw [if_pos ht] at hmax hmin
    simp only [if_pos ht, hc, max3, min3, maxK_eq, minK_eq]
    show min (min (f (sinLat a b (dAMax a b))) (f a.z)) (f b.z) ≤ _ ∧ _ ≤ max (max (f (sinLat a b (dAMax a b))) (f a.z)) (f b.z)
    rw [hf.map_max, hf.map_max] at hmax
    rw [hf.map_min, hf.map_min] at hmin
    rw [max_assoc, min_assoc]
    exact ⟨hmin, hmax⟩
  · rw [if_neg ht] at hmax hmin
    simp only [if_neg ht, maxK_eq, minK_eq]
    rw [hf.map_max] at hmax
    rw [hf.map_min] at hmin
    exact ⟨hmin, hmax⟩

/-- non-vacuity: the arc from `(3/5, 0, 4/5)` to `(0, 3/5, 4/5)` bulges poleward of both ends
    (`d_a_max = 1/2 ∈ (0, 1)`), and the hypotheses hold -/
example : dot (⟨3/5, 0, 4/5⟩ : V3 ℝ) ⟨3/5, 0, 4/5⟩ = 1 ∧ dot (⟨0, 3/5, 4/5⟩ : V3 ℝ) ⟨0, 3/5, 4/5⟩ = 1 ∧
    dot (⟨3/5, 0, 4/5⟩ : V3 ℝ) ⟨0, 3/5, 4/5⟩ < 1 ∧ -1 < dot (⟨3/5, 0, 4/5⟩ : V3 ℝ) ⟨0, 3/5, 4/5⟩ ∧
    0 < rise (⟨3/5, 0, 4/5⟩ : V3 ℝ) ⟨0, 3/5, 4/5⟩ := by
  norm_num [dot, rise]

end real

/-! ### capstone: the repaired normal-face loop encloses every point of every edge -/
section capstone

theorem hasLat_between (b : Box ℝ) (x y w : ℝ) (hx : b.HasLat x) (hy : b.HasLat y)
    (h1 : x ≤ w) (h2 : w ≤ y) : b.HasLat w := by
  obtain ⟨p, hp, hxin⟩ := hx
  obtain ⟨q, hq, hyin⟩ := hy
  rw [hp] at hq
  cases hq
  exact ⟨p, hp, ⟨le_trans hxin.1 h1, le_trans h2 hyin.2⟩⟩

/-- **lat_encloses_every_arc_point**: run the repaired normal-face loop on ANY list of edges whose
    summaries carry the exact `extreme_gca_latitude` values; then for every edge (unit end points,
    shorter than half a turn) and every chord parameter `τ ∈ [0, 1]` the latitude of the arc point
    lies in `[lat_min, lat_max]`.  (Corners are the cases `τ = 0, 1`; they are also covered,
    together with their longitudes, by `lat_encloses_nodes`.) -/
theorem lat_encloses_every_arc_point (f : ℝ → ℝ) (hf : Monotone f) (c : Consts ℝ)
    (close : ℝ → ℝ → Bool) (north : Bool) (edges : List (Edge ℝ)) (e : Edge ℝ) (he : e ∈ edges)
    (ha : dot e.a e.a = 1) (hb : dot e.b e.b = 1) (hd1 : dot e.a e.b < 1) (hd2 : -1 < dot e.a e.b)
    (τ : ℝ) (h0 : 0 ≤ τ) (h1 : τ ≤ 1) :
    (normalLoop c close .repaired (edges.map (summ (realFn f) c.halfPi north))).HasLat
      (f (sinLat e.a e.b τ)) := by
  have hmem : summ (realFn f) c.halfPi north e ∈ edges.map (summ (realFn f) c.halfPi north) :=
    List.mem_map_of_mem he
  have h := lat_encloses_nodes c close _ _ hmem
  have hb' := extreme_encloses_arc f hf c.halfPi e.a e.b ha hb hd1 hd2 τ h0 h1
  exact hasLat_between _ _ _ _ h.2.2 h.2.1 hb'.1 hb'.2

end capstone

/-! ### the repaired pole test: winding about the polar axis -/
section windingThm

/-- horizontal projection of a point, as a complex number -/
noncomputable def hz (a : V3 ℝ) : ℂ := ⟨a.x, a.y⟩

/-- consecutive pairs of a list -/
def pairs {α : Type} : List α → List (α × α)
  | x :: y :: t => (x, y) :: pairs (y :: t)
  | _ => []

theorem zip_eq_pairs {α : Type} (a : α) (as : List α) (b : α) :
    (a :: as).zip (as ++ [b]) = pairs (a :: as ++ [b]) := by
  induction as generalizing a with
  | nil => rfl
  | cons c t ih =>
    show (a, c) :: (c :: t).zip (t ++ [b]) = (a, c) :: pairs (c :: t ++ [b])
    rw [ih]

theorem cyc_eq_pairs {α : Type} (a : α) (as : List α) :
    Oracle.cyc (a :: as) = pairs (a :: as ++ [a]) := zip_eq_pairs a as a

/-- the increment is the difference of the arguments of the horizontal projections (as angles) -/
theorem lonIncrement_angle (f : ℝ → ℝ) (a b : V3 ℝ) (ha : hz a ≠ 0) (hb : hz b ≠ 0) :
    ((lonIncrement (realFn f) a b : ℝ) : Real.Angle)
      = (Complex.arg (hz b) : Real.Angle) - (Complex.arg (hz a) : Real.Angle) := by
  have e : (⟨a.x * b.x + a.y * b.y, a.x * b.y - a.y * b.x⟩ : ℂ) = (starRingEnd ℂ) (hz a) * hz b := by
    apply Complex.ext <;> (simp [hz]; try ring)
  show ((Complex.arg ⟨a.x * b.x + a.y * b.y, a.x * b.y - a.y * b.x⟩ : ℝ) : Real.Angle) = _
  rw [e, Complex.arg_mul_coe_angle ((map_ne_zero _).mpr ha) hb, Complex.arg_conj_coe_angle]
  abel

theorem onAxis_false (f : ℝ → ℝ) (a : V3 ℝ) (ha : hz a ≠ 0) : onAxis (realFn f) a = false := by
  unfold onAxis
  rw [decide_eq_false_iff_not, not_le]
  show (0 : ℝ) < Real.sqrt (a.x * a.x + a.y * a.y)
  apply Real.sqrt_pos.mpr
  have : a.x ≠ 0 ∨ a.y ≠ 0 := by
    by_contra hc
    rw [not_or, not_not, not_not] at hc
    exact ha (Complex.ext hc.1 hc.2)
  rcases this with h | h
  · have := mul_self_pos.mpr h; nlinarith [mul_self_nonneg a.y]
  · have := mul_self_pos.mpr h; nlinarith [mul_self_nonneg a.x]

/-- the (axis-aware) increment of one edge -/
noncomputable def edgeInc (f : ℝ → ℝ) (a b : V3 ℝ) : ℝ :=
  if onAxis (realFn f) a || onAxis (realFn f) b then 0 else lonIncrement (realFn f) a b

theorem edgeInc_angle (f : ℝ → ℝ) (a b : V3 ℝ) (ha : hz a ≠ 0) (hb : hz b ≠ 0) :
    ((edgeInc f a b : ℝ) : Real.Angle)
      = (Complex.arg (hz b) : Real.Angle) - (Complex.arg (hz a) : Real.Angle) := by
  unfold edgeInc
  rw [onAxis_false f a ha, onAxis_false f b hb]
  exact lonIncrement_angle f a b ha hb

/-- last element of the non-empty list `x :: l` -/
def lastOf {α : Type} : α → List α → α
  | x, [] => x
  | _, y :: t => lastOf y t

theorem lastOf_append_singleton {α : Type} (x : α) (l : List α) (c : α) : lastOf x (l ++ [c]) = c := by
  induction l generalizing x with
  | nil => rfl
  | cons y t ih => exact ih y

theorem telescope (f : ℝ → ℝ) (x : V3 ℝ) (l : List (V3 ℝ)) (s0 : ℝ)
    (h : ∀ v ∈ x :: l, hz v ≠ 0) :
    (((pairs (x :: l)).foldl (fun s p => s + edgeInc f p.1 p.2) s0 : ℝ) : Real.Angle)
      = (s0 : Real.Angle) + ((Complex.arg (hz (lastOf x l)) : Real.Angle)
          - (Complex.arg (hz x) : Real.Angle)) := by
  induction l generalizing x s0 with
  | nil => simp [pairs, lastOf]
  | cons y t ih =>
    have hx := h x List.mem_cons_self
    have hy := h y (List.mem_cons_of_mem _ List.mem_cons_self)
    show (((pairs (y :: t)).foldl _ (s0 + edgeInc f x y) : ℝ) : Real.Angle) = _
    rw [ih y (s0 + edgeInc f x y) (fun v hv => h v (List.mem_cons_of_mem _ hv)),
      Real.Angle.coe_add, edgeInc_angle f x y hx hy]
    show _ = (s0 : Real.Angle) + ((Complex.arg (hz (lastOf y t)) : Real.Angle) - _)
    abel

/-- the edges of the closed ring through the corners -/
def ringEdges (cs : List (V3 ℝ)) : List (Edge ℝ) :=
  (Oracle.cyc cs).map fun p => ⟨p.1, p.2, 0, 0, 0, 0⟩

/-- **winding_multiple_of_two_pi**: for EVERY closed ring of corners off the polar axis the sum of the
    wrapped longitude increments is an integer multiple of `2π` — so the repaired pole test
    `|winding| < π` separates "does not go around the axis" (`0`) from "goes around" (`±2π, …`) by a
    full `π`, with no reference meridian and no touch cases. -/
theorem winding_multiple_of_two_pi (f : ℝ → ℝ) (c : V3 ℝ) (cs : List (V3 ℝ))
    (h : ∀ v ∈ c :: cs, hz v ≠ 0) :
    ∃ k : ℤ, winding (realFn f) (ringEdges (c :: cs)) = k * (2 * Real.pi) := by
  have hw : winding (realFn f) (ringEdges (c :: cs))
      = (pairs (c :: (cs ++ [c]))).foldl (fun s p => s + edgeInc f p.1 p.2) 0 := by
    unfold winding ringEdges
    rw [List.foldl_map, cyc_eq_pairs]
    rfl
  have ht := telescope f c (cs ++ [c]) 0 (by
    intro v hv
    rcases List.mem_cons.mp hv with rfl | hv
    · exact h _ List.mem_cons_self
    · rcases List.mem_append.mp hv with hv | hv
      · exact h v (List.mem_cons_of_mem _ hv)
      · rw [List.mem_singleton.mp hv]; exact h _ List.mem_cons_self)
  rw [← hw] at ht
  rw [lastOf_append_singleton] at ht
  simp only [Real.Angle.coe_zero, zero_add, sub_self] at ht
  obtain ⟨n, hn⟩ := Real.Angle.coe_eq_zero_iff.mp ht
  exact ⟨n, by rw [← hn]; simp [zsmul_eq_mul]⟩

/-- **pole_flag_iff_winding**: for EVERY closed ring of corners off the polar axis whose edges do not
    touch a pole, the repaired `_pole_point_inside_polygon` flags a pole exactly when the boundary winds
    about the axis (winding number `k ≠ 0`), and then it flags exactly ONE of the two poles.
    (That the winding number of a convex face is `±1` iff a pole lies strictly inside — the
    argument principle for the projected polygon — is not proved; it is what the driver's
    orientation-determinant oracle checks on every generated face.) -/
theorem pole_flag_iff_winding (f : ℝ → ℝ) (c : V3 ℝ) (cs : List (V3 ℝ))
    (h : ∀ v ∈ c :: cs, hz v ≠ 0)
    (hnt : ∀ north, touchesPole (realFn f) north (ringEdges (c :: cs)) = false) :
    ∃ k : ℤ, winding (realFn f) (ringEdges (c :: cs)) = k * (2 * Real.pi) ∧
      ((poleInsideWinding (realFn f) true (ringEdges (c :: cs)) = true ∨
        poleInsideWinding (realFn f) false (ringEdges (c :: cs)) = true) ↔ k ≠ 0) ∧
      ¬ (poleInsideWinding (realFn f) true (ringEdges (c :: cs)) = true ∧
         poleInsideWinding (realFn f) false (ringEdges (c :: cs)) = true) := by
  obtain ⟨k, hk⟩ := winding_multiple_of_two_pi f c cs h
  refine ⟨k, hk, ?_⟩
  have hpi := Real.pi_pos
  unfold poleInsideWinding
  simp only [hnt, Bool.false_eq_true, if_false]
  have ea : ∀ x, (realFn f).abs x = |x| := fun _ => rfl
  have ep : (realFn f).pi = Real.pi := rfl
  simp only [ea, ep, hk]
  by_cases hk0 : k = 0
  · subst hk0
    simp [hpi]
  · have hge : Real.pi ≤ |(k : ℝ) * (2 * Real.pi)| := by
      rw [abs_mul, abs_of_pos (by positivity : (0 : ℝ) < 2 * Real.pi)]
      have h1 : (1 : ℝ) ≤ |(k : ℝ)| := by
        have : (1 : ℤ) ≤ |k| := Int.one_le_abs hk0
        exact_mod_cast this
      nlinarith
    have hnlt : ¬ |(k : ℝ) * (2 * Real.pi)| < Real.pi := not_lt.mpr hge
    simp only [hnlt, if_false]
    cases (decide (0 < (k : ℝ) * (2 * Real.pi)) == isCcw (ringEdges (c :: cs))) <;> simp [hk0]


/-- non-vacuity: a square ring around the north pole (direction vectors) keeps off the axis -/
example : ∃ k : ℤ, winding (realFn id)
    (ringEdges [⟨1, 0, 1⟩, ⟨0, 1, 1⟩, ⟨-1, 0, 1⟩, ⟨0, -1, 1⟩]) = k * (2 * Real.pi) :=
  winding_multiple_of_two_pi id _ _ (by
    intro v hv
    simp only [List.mem_cons, List.not_mem_nil, or_false] at hv
    rcases hv with rfl | rfl | rfl | rfl <;> simp [hz, Complex.ext_iff])

end windingThm

/-! ### which pole: the corners' mean latitude is NOT a criterion -/
/-- a convex triangle inside a hemisphere (rational unit vectors): one corner at 79.6°N on the
    meridian 180°, two corners at 33.1°S on the meridians ∓12.5° -/
def bigA : V3 ℚ := ⟨-11/61, 0, 60/61⟩
def bigB : V3 ℚ := ⟨9/11, -2/11, -6/11⟩
def bigC : V3 ℚ := ⟨9/11, 2/11, -6/11⟩

/-- the rule "the enclosed pole is the one on the side of the corners' summed z" -/
def meanzNorth (cs : List (V3 ℚ)) : Bool := decide (0 < (cs.map (·.z)).sum)

/-- the north pole is strictly left of every edge of the counter-clockwise ring -/
def northLeftOfAll (cs : List (V3 ℚ)) : Bool :=
  (Oracle.cyc cs).all fun e => decide (0 < (cross e.1 e.2).z)

theorem meanz_rule_wrong :
    -- unit vectors, every edge shorter than half a turn, all inside the hemisphere of (1,0,1)
    (dot bigA bigA = 1 ∧ dot bigB bigB = 1 ∧ dot bigC bigC = 1) ∧
    (-1 < dot bigA bigB ∧ -1 < dot bigB bigC ∧ -1 < dot bigC bigA) ∧
    (0 < dot bigA ⟨1, 0, 1⟩ ∧ 0 < dot bigB ⟨1, 0, 1⟩ ∧ 0 < dot bigC ⟨1, 0, 1⟩) ∧
    -- the north pole is strictly inside, the south pole is not
    northLeftOfAll [bigA, bigB, bigC] = true ∧
    -- yet the corners' summed z is negative: the mean-z rule answers "south"
    meanzNorth [bigA, bigB, bigC] = false := by
  refine ⟨⟨?_, ?_, ?_⟩, ⟨?_, ?_, ?_⟩, ⟨?_, ?_, ?_⟩, ?_, ?_⟩ <;>
    simp only [dot, cross, bigA, bigB, bigC, northLeftOfAll, meanzNorth, Oracle.cyc] <;> norm_num


section meanzReal

noncomputable def rA : V3 ℝ := ⟨-11/61, 0, 60/61⟩
noncomputable def rB : V3 ℝ := ⟨9/11, -2/11, -6/11⟩
noncomputable def rC : V3 ℝ := ⟨9/11, 2/11, -6/11⟩

theorem arg_pos_of_im_pos (z : ℂ) (h : 0 < z.im) : 0 < Complex.arg z := by
  have h0 : 0 ≤ Complex.arg z := Complex.arg_nonneg_iff.mpr h.le
  rcases lt_or_eq_of_le h0 with h1 | h1
  · exact h1
  · exfalso
    have := (Complex.arg_eq_zero_iff.mp h1.symm).2
    linarith

theorem lonIncrement_pos (f : ℝ → ℝ) (a b : V3 ℝ) (h : 0 < a.x * b.y - a.y * b.x) :
    0 < lonIncrement (realFn f) a b :=
  arg_pos_of_im_pos ⟨a.x * b.x + a.y * b.y, a.x * b.y - a.y * b.x⟩ h

theorem hz_big : ∀ v ∈ [rA, rB, rC], hz v ≠ 0 := by
  intro v hv
  simp only [List.mem_cons, List.not_mem_nil, or_false] at hv
  rcases hv with rfl | rfl | rfl <;> simp [hz, rA, rB, rC, Complex.ext_iff]

theorem notouch_big (f : ℝ → ℝ) (north : Bool) :
    touchesPole (realFn f) north (ringEdges [rA, rB, rC]) = false := by
  have e0 : ∀ x : ℝ, (realFn f).abs x = |x| := fun _ => rfl
  cases north <;>
    simp [touchesPole, ringEdges, Oracle.cyc, onGca, realFn, poleVec, dot, cross, rA, rB, rC] <;> norm_num

/-- **winding_rule_right**: on the face of `meanz_rule_wrong` (same corners, over ℝ) the repaired
    `_pole_point_inside_polygon` — winding sign × orientation — answers "north: yes, south: no". -/
theorem winding_rule_right (f : ℝ → ℝ) :
    poleInsideWinding (realFn f) true (ringEdges [rA, rB, rC]) = true ∧
    poleInsideWinding (realFn f) false (ringEdges [rA, rB, rC]) = false := by
  obtain ⟨k, hk, hiff, hex⟩ := pole_flag_iff_winding f rA [rB, rC] hz_big (notouch_big f)
  have hA := onAxis_false f rA (hz_big rA (by simp))
  have hB := onAxis_false f rB (hz_big rB (by simp))
  have hC := onAxis_false f rC (hz_big rC (by simp))
  have hw : winding (realFn f) (ringEdges [rA, rB, rC])
      = 0 + lonIncrement (realFn f) rA rB + lonIncrement (realFn f) rB rC + lonIncrement (realFn f) rC rA := by
    simp [winding, ringEdges, Oracle.cyc, hA, hB, hC]
  have hpos : 0 < winding (realFn f) (ringEdges [rA, rB, rC]) := by
    rw [hw]
    have h1 := lonIncrement_pos f rA rB (by simp [rA, rB]; norm_num)
    have h2 := lonIncrement_pos f rB rC (by simp [rB, rC]; norm_num)
    have h3 := lonIncrement_pos f rC rA (by simp [rC, rA]; norm_num)
    linarith
  have hccw : isCcw (ringEdges [rA, rB, rC]) = true := by
    simp [isCcw, ringEdges, Oracle.cyc, vadd, cross, dot, rA, rB, rC]; norm_num
  have hpi := Real.pi_pos
  have hk1 : (1 : ℝ) ≤ k := by
    have : (0 : ℝ) < k := by
      rw [hk] at hpos
      by_contra hc
      have : (k : ℝ) * (2 * Real.pi) ≤ 0 :=
        mul_nonpos_of_nonpos_of_nonneg (not_lt.mp hc) (by positivity)
      linarith
    have : (0 : ℤ) < k := by exact_mod_cast this
    exact_mod_cast this
  have hnorth : poleInsideWinding (realFn f) true (ringEdges [rA, rB, rC]) = true := by
    unfold poleInsideWinding
    rw [notouch_big f true]
    have ea : (realFn f).abs (winding (realFn f) (ringEdges [rA, rB, rC]))
        = |winding (realFn f) (ringEdges [rA, rB, rC])| := rfl
    have hge : ¬ |winding (realFn f) (ringEdges [rA, rB, rC])| < Real.pi := by
      rw [abs_of_pos hpos, hk]; nlinarith
    simp only [Bool.false_eq_true, if_false, ea]
    rw [if_neg (by exact hge), hccw]
    simp [hpos]
  refine ⟨hnorth, ?_⟩
  by_contra hs
  exact hex ⟨hnorth, by simpa using hs⟩

end meanzReal

/-! ### an arc that crosses the equator need not be monotone in latitude -/
def strA : V3 ℚ := ⟨12/13, 4/13, -3/13⟩
def strB : V3 ℚ := ⟨-2/7, 3/7, 6/7⟩
/-- **straddling_arc_not_monotone** (rational witness): unit end points on opposite sides of the
    equator, an arc longer than a quarter turn (`a·b < 0`) and shorter than half a turn; the latitude rises
    when leaving EITHER end (`rise > 0` both ways: the apex is strictly inside the arc), `d_a_max ∈ (0,1)`,
    and the arc point there is higher than the higher end point: `z² / ‖p‖² > z_b²`. -/
theorem straddling_arc_not_monotone :
    dot strA strA = 1 ∧ dot strB strB = 1 ∧ strA.z < 0 ∧ 0 < strB.z ∧
    -1 < dot strA strB ∧ dot strA strB < 0 ∧
    0 < strB.z - dot strA strB * strA.z ∧ 0 < strA.z - dot strA strB * strB.z ∧
    0 < dAMax strA strB ∧ dAMax strA strB < 1 ∧
    0 < (chord strA strB (dAMax strA strB)).z ∧
    strB.z ^ 2 * dot (chord strA strB (dAMax strA strB)) (chord strA strB (dAMax strA strB))
      < (chord strA strB (dAMax strA strB)).z ^ 2 := by
  simp only [dot, dAMax, chord, vadd, smul, strA, strB]
  norm_num

end UxVerif.C13
