/-
  C18 — The dual mesh swaps nodes and faces with correct ring order.

  Theorems about the models of `construct_faces` / `_order_nodes` (uxarray/grid/dual.py) and of the
  data side of `UxDataArray.get_dual`, for EVERY node-face table (any number of nodes, any valence,
  any width) and EVERY key function / key type with a strict total comparison.

  What is proved for all inputs:
    * `construct_eq_kept`, `dual_face_count`     one row per node with ≥ 3 faces, in node order
                                                 (the `correction` bookkeeping is right);
    * `order_is_sort`, `ring_of_monotone_keys`   `_order_nodes` = first entry, then the others sorted
                                                 by key, then padding — for lists of ANY length;
    * `dual_rows_are_node_faces`, `model_meets_discrete_spec`
                                                 rows are exactly the node's faces (wherever the padding
                                                 of the node_face row sits), padding at the end;
    * `gather_asis_eq_of_endPadded`, `dualRow_asis_eq_of_endPadded`, `asis_prefix_gather_drops_face`
                                                 the prefix gather of the code as found is right exactly on
                                                 end-padded rows and loses a face on `[6, FILL, 7, 8]`;
    * `side_sign_ccw`, `side_tproj`, `tri_tproj`, `tproj_orth`
                                                 the side test is the sign of −c·(t₀×d) (polynomial
                                                 identities), unchanged by the tangent projection;
    * `dual_data_identity`, `swapDim_involutive`, `kept_all_of_closed`, `dual_row_of_node`
                                                 data untouched, dims swapped, dual face k ↔ node k;
    * `asis_chord_angle_misorders`               the key of the code AS FOUND (angle between 3-D chords)
                                                 orders two unit vectors against their azimuth, the
                                                 repaired key (tangent-plane angle) does not.
    * `order_scale_invariant`, `tproj_scale`, `side_scale`, `keyOfVecs_scale`
                                                 the repaired key depends on DIRECTIONS only: scaling the
                                                 node and each centre by any positive factors (Earth radius
                                                 in km or m, mixed radii) leaves every key unchanged;
    * `asis_unit_normal_helper_wrong`            a projection `v − (v·c)c` (unit normals only) misorders the
                                                 witness at radius 2.
    * `construct_faces_row_local`, `construct_faces_schedule_independent`
                                                 row j depends only on the j-th kept node; with the write
                                                 position `keptBefore` (input-only) the per-node iterations
                                                 give the same table in ANY order (thread-count independence);
    * `model_row_ccw` (with `key_lt_iff_before`, `keyWith_range`, `key_ne_of_before` in Lemmas/DualCcw)
                                                 over ℝ, for ANY valence: the ring returned by the repaired
                                                 algorithm satisfies the specification's own `ccwSorted`
                                                 (margin 0) under general position only (`GenPos`: every
                                                 centre in a defined half turn from the first, no two in the
                                                 same direction); distinct keys and keys in (0, 2π) are
                                                 CONSEQUENCES, not hypotheses.
  What is NOT proved (tested by the harness, judged by the Lean driver): that the face centres
  around a node are angularly ordered like the face ring (mesh geometry: ccw order of the centres =
  ring of edge-sharing faces), IEEE rounding (the theorem is over exact reals).
-/
import UxVerif.Lemmas.Dual
import UxVerif.Lemmas.DualCcw
import Mathlib.Tactic.Ring
import Mathlib.Tactic.FieldSimp
import Mathlib.Analysis.SpecialFunctions.Trigonometric.Inverse
import Mathlib.Tactic.NormNum.RealSqrt

namespace UxVerif.C18
open UxVerif UxVerif.Dual UxVerif.Incidence

/-! ### `construct_faces`: which rows exist -/

/-- **the `correction` bookkeeping**: the pre-allocated table, overwritten at `i - correction`,
    is exactly the list of rows of the nodes with at least three faces, in node order. -/
theorem construct_eq_kept (rowOf : Nat → Nat → List Int → List Int) (NF : Table) :
    constructFaces rowOf NF
      = (keptNodes NF).map (fun i => rowOf (NF.headD []).length i (rowAt NF i)) := by
  have h := cf_invariant rowOf NF (NF.headD []).length
    (NF.countP (fun r => decide (2 < valence r)))
    (List.replicate (NF.headD []).length FILL) NF.length (countP_eq_keptUpTo NF) NF.length
    (Nat.le_refl _)
  unfold constructFaces
  show ((List.range NF.length).foldl (cfStep rowOf NF (NF.headD []).length) _).2 = _
  rw [h, countP_eq_keptUpTo]
  simp [keptNodes, keptUpTo]

/-- **one dual face per primal node surrounded by at least three faces** -/
theorem dual_face_count (rowOf : Nat → Nat → List Int → List Int) (NF : Table) :
    (constructFaces rowOf NF).length = NF.countP (fun r => decide (3 ≤ valence r)) := by
  rw [construct_eq_kept, List.length_map]
  have := countP_eq_keptUpTo NF
  unfold keptNodes
  unfold keptUpTo at this
  rw [← this]
  rfl

example : (constructFaces (fun W _ r => r.take W) [[0, 1, 2], [0, 1, FILL], [3, 4, 5]]).length = 2 := by
  decide

/-! ### row locality and schedule independence (thread-count independence of a parallel loop) -/

/-- **construct_faces_row_local**: row `j` of the dual table depends only on the `j`-th kept node
    (its index and its own row of `node_face_connectivity`), on nothing computed for other nodes. -/
theorem construct_faces_row_local (rowOf : Nat → Nat → List Int → List Int) (NF : Table) (j : Nat) :
    (constructFaces rowOf NF)[j]?
      = ((keptNodes NF)[j]?).map (fun i => rowOf (NF.headD []).length i (rowAt NF i)) := by
  rw [construct_eq_kept, List.getElem?_map]

/-- **any schedule gives the same table**: if every node writes its row at `keptBefore NF i` (the
    number of kept nodes before it — a function of the input, not a loop-carried counter), the
    iterations may run in ANY order (`order` any permutation of the node numbers) and the result is
    the table of the sequential loop with its `correction` counter. -/
theorem construct_faces_schedule_independent (rowOf : Nat → Nat → List Int → List Int) (NF : Table)
    (order : List Nat) (hperm : order.Perm (List.range NF.length)) :
    constructFacesSched rowOf NF order = constructFaces rowOf NF := by
  rw [construct_eq_kept]
  have hcnt : NF.countP (fun r => decide (2 < valence r)) = (keptNodes NF).length :=
    countP_eq_keptUpTo NF
  have hnodup : (keptNodes NF).Nodup := List.Nodup.filter _ List.nodup_range
  apply List.ext_getElem?
  intro k
  unfold constructFacesSched
  simp only []
  by_cases hk : k < (keptNodes NF).length
  · have hi_mem : (keptNodes NF)[k] ∈ keptNodes NF := List.getElem_mem hk
    obtain ⟨hrange, hkept⟩ := List.mem_filter.mp hi_mem
    have hkept' : 3 ≤ valence (rowAt NF (keptNodes NF)[k]) := by simpa using hkept
    have hin : (keptNodes NF)[k] < NF.length := List.mem_range.mp hrange
    have hget : (keptNodes NF)[keptBefore NF (keptNodes NF)[k]]? = some (keptNodes NF)[k] :=
      keptUpTo_get NF NF.length _ hin hkept'
    have hpos : keptBefore NF (keptNodes NF)[k] = k := by
      have hlt : keptBefore NF (keptNodes NF)[k] < (keptNodes NF).length := by
        rcases Nat.lt_or_ge (keptBefore NF (keptNodes NF)[k]) (keptNodes NF).length with h | h
        · exact h
        · rw [List.getElem?_eq_none h] at hget; cases hget
      rw [List.getElem?_eq_getElem hlt] at hget
      injection hget with hget
      exact (hnodup.getElem_inj_iff).mp hget
    have hL := sched_fold_get rowOf NF (NF.headD []).length order
      (List.replicate (NF.countP (fun r => decide (2 < valence r))) (List.replicate (NF.headD []).length FILL))
      (keptNodes NF)[k] hkept' (hperm.mem_iff.mpr hrange) (by rw [hpos, List.length_replicate, hcnt]; exact hk)
    rw [hpos] at hL
    rw [hL, List.getElem?_map, List.getElem?_eq_getElem hk]
    rfl
  · rw [List.getElem?_eq_none (by rw [sched_fold_length, List.length_replicate, hcnt]; omega),
      List.getElem?_eq_none (by rw [List.length_map]; omega)]

/-- non-vacuity: three orders of the four nodes of a table with a skipped node -/
example :
    let NF : Table := [[4, 2, 9, FILL], [1, 2, FILL, FILL], [3, 8, 5, 6], [7, 5, 1, FILL]]
    let rowOf := dualRow (fun a b : Int => decide (a < b)) 0 100 (fun _ _ f => f)
    constructFacesSched rowOf NF [3, 1, 0, 2] = constructFaces rowOf NF ∧
    constructFacesSched rowOf NF [2, 3, 1, 0] = constructFaces rowOf NF ∧
    constructFaces rowOf NF = [[4, 2, 9, FILL], [3, 5, 6, 8], [7, 1, 5, FILL]] := by decide

/-! ### `_order_nodes`: selection by strictly increasing key is sorting -/

/-- **order_is_sort.**  For every list of `(key, value)` items (ANY length) whose keys are pairwise
    distinct and lie strictly between `zero` and `twoPi`, the loop returns the first entry, then
    the values sorted by key (a permutation of the input), then only padding. -/
theorem order_is_sort {K : Type} {lt : K → K → Bool} (h : StrictOrder lt) (zero twoPi : K)
    (W : Nat) (first : Int) (items : List (K × Int))
    (hkeys : items.Pairwise (fun a b => a.1 ≠ b.1))
    (hrange : ∀ x ∈ items, lt zero x.1 = true ∧ lt x.1 twoPi = true) :
    orderNodes lt zero twoPi W first items
        = first :: (sortByKey lt items).map (·.2) ++ List.replicate (W - (items.length + 1)) FILL
      ∧ (sortByKey lt items).Perm items
      ∧ (sortByKey lt items).Pairwise (fun a b => lt a.1 b.1 = true) := by
  have hperm := sortByKey_perm (lt := lt) items
  have hsorted := sortByKey_sorted h items hkeys
  refine ⟨?_, hperm, hsorted⟩
  have hsteps := steps_suffix h twoPi items (sortByKey lt items) hperm hsorted
    (fun x hx => (hrange x hx).2) (sortByKey lt items) [] zero (by simp) (by simp)
    (fun x hx => (hrange x (hperm.mem_iff.mp hx)).1)
  rw [hperm.length_eq] at hsteps
  unfold orderNodes
  simp only [hsteps, List.length_cons, List.length_map, hperm.length_eq, List.cons_append]

/-- **the ring, if the keys increase along it.**  If `first :: R` is ANY arrangement of the items
    along which the keys increase strictly (e.g. the true counter-clockwise ring of faces, when the
    centres are angularly ordered like it), the loop returns exactly `first :: R`, whatever order
    the items came in. -/
theorem ring_of_monotone_keys {K : Type} {lt : K → K → Bool} (h : StrictOrder lt) (zero twoPi : K)
    (W : Nat) (first : Int) (items R : List (K × Int)) (hperm : R.Perm items)
    (hmono : R.Pairwise (fun a b => lt a.1 b.1 = true))
    (hrange : ∀ x ∈ items, lt zero x.1 = true ∧ lt x.1 twoPi = true) :
    orderNodes lt zero twoPi W first items
      = first :: R.map (·.2) ++ List.replicate (W - (items.length + 1)) FILL := by
  have hsteps := steps_suffix h twoPi items R hperm hmono (fun x hx => (hrange x hx).2) R [] zero
    (by simp) (by simp) (fun x hx => (hrange x (hperm.mem_iff.mp hx)).1)
  rw [hperm.length_eq] at hsteps
  unfold orderNodes
  simp only [hsteps, List.length_cons, List.length_map, hperm.length_eq, List.cons_append]

/-- every entry the loop writes is the first entry, one of the items, or padding — with no
    hypothesis on the keys at all (ties, NaN-like keys: entries may be dropped, never invented) -/
theorem order_entries {K : Type} (lt : K → K → Bool) (zero twoPi : K) (W : Nat) (first : Int)
    (items : List (K × Int)) :
    ∀ x ∈ orderNodes lt zero twoPi W first items,
      x = first ∨ x = FILL ∨ x ∈ items.map (·.2) := by
  have hsteps : ∀ f cur, ∀ x ∈ steps lt twoPi items f cur, x = FILL ∨ x ∈ items.map (·.2) := by
    intro f
    induction f with
    | zero => intro cur x hx; cases hx
    | succ f ih =>
      intro cur x hx
      unfold steps at hx
      split at hx
      · rcases List.mem_cons.mp hx with rfl | hx
        · exact Or.inl rfl
        · exact ih _ x hx
      · rename_i it hp
        rcases List.mem_cons.mp hx with rfl | hx
        · right
          rw [pick_eq_pickFrom] at hp
          have hmem : ∀ (items : List (K × Int)) (best : Option (K × Int)) (B : K),
              pickFrom lt cur best B items = some it → best = some it ∨ it ∈ items := by
            intro items
            induction items with
            | nil => intro best B hb; exact Or.inl hb
            | cons a l ihl =>
              intro best B hb
              unfold pickFrom at hb
              split at hb
              · rcases ihl _ _ hb with h1 | h1
                · right; injection h1 with h1; rw [← h1]; exact List.mem_cons_self
                · exact Or.inr (List.mem_cons_of_mem _ h1)
              · rcases ihl _ _ hb with h1 | h1
                · exact Or.inl h1
                · exact Or.inr (List.mem_cons_of_mem _ h1)
          rcases hmem items none twoPi hp with h1 | h1
          · cases h1
          · exact List.mem_map.mpr ⟨it, h1, rfl⟩
        · exact ih _ x hx
  intro x hx
  unfold orderNodes at hx
  simp only [List.cons_append, List.mem_cons, List.mem_append] at hx
  rcases hx with rfl | hx | hx
  · exact Or.inl rfl
  · exact Or.inr (hsteps _ _ x hx)
  · exact Or.inr (Or.inl (List.mem_replicate.mp hx).2)

/-- non-vacuity: five faces, keys in scrambled order, width 8 -/
example : orderNodes (fun a b : Int => decide (a < b)) 0 360 8 7
    [(250, 1), (40, 2), (300, 3), (90, 4)] = [7, 2, 4, 1, 3, FILL, FILL, FILL] := by decide

/-- as the code stands: two equal keys (coincident directions) lose an entry — outside the
    hypothesis `hkeys` of `order_is_sort`, and harmless only because it cannot happen on a valid mesh -/
example : orderNodes (fun a b : Int => decide (a < b)) 0 360 4 7
    [(40, 1), (40, 2), (90, 3)] = [7, 1, 3, FILL] := by decide

theorem intLt_strictOrder : StrictOrder (fun a b : Int => decide (a < b)) where
  irrefl := by intro a; simp
  trans := by intro a b c h1 h2; simp only [decide_eq_true_eq] at *; omega
  total := by intro a b; simp only [decide_eq_true_eq]; omega

/-! ### rows of the dual table -/

/-- the precondition on one kept node: the keys of its faces (other than the first) are distinct
    and strictly inside `(zero, twoPi)`.  Nothing is assumed about where the padding of the
    `node_face_connectivity` row sits. -/
def NodeOK {K : Type} (lt : K → K → Bool) (zero twoPi : K) (keyOf : Nat → Int → Int → K)
    (NF : Table) (i : Nat) : Prop :=
  ∀ first rest, real (rowAt NF i) = first :: rest →
    (rest.map (keyOf i first)).Pairwise (· ≠ ·) ∧
    ∀ f ∈ rest, lt zero (keyOf i first f) = true ∧ lt (keyOf i first f) twoPi = true

/-- **each dual face's corners are exactly the primal faces meeting at the node (padding of the
    node's row ANYWHERE), the first one kept in place, the others sorted by key, padding only at
    the end.** -/
theorem dual_rows_are_node_faces {K : Type} {lt : K → K → Bool} (h : StrictOrder lt)
    (zero twoPi : K) (keyOf : Nat → Int → Int → K) (NF : Table) (W i : Nat)
    (hv : 3 ≤ valence (rowAt NF i)) (hok : NodeOK lt zero twoPi keyOf NF i) :
    RowOK (rowAt NF i) (dualRow lt zero twoPi keyOf W i (rowAt NF i)) ∧
    (dualRow lt zero twoPi keyOf W i (rowAt NF i)).head? = (real (rowAt NF i)).head? := by
  have hne := real_ne_fill (rowAt NF i)
  cases hreal : real (rowAt NF i) with
  | nil =>
    have : valence (rowAt NF i) = 0 := by unfold valence; unfold real at hreal; rw [hreal]; rfl
    omega
  | cons first rest =>
    obtain ⟨hdist, hrange⟩ := hok first rest hreal
    have hfirst : first ≠ FILL := hne first (by rw [hreal]; exact List.mem_cons_self)
    have hrest : ∀ f ∈ rest, f ≠ FILL := fun f hf => hne f (by rw [hreal]; exact List.mem_cons_of_mem _ hf)
    -- the items the code builds
    have hitems : rest.map (fun f => (if f != FILL then keyOf i first f else zero, f))
        = rest.map (fun f => (keyOf i first f, f)) := by
      apply List.map_congr_left
      intro f hf
      have : (f != FILL) = true := by simpa using hrest f hf
      simp [this]
    have hrow : dualRow lt zero twoPi keyOf W i (rowAt NF i)
        = orderNodes lt zero twoPi W first (rest.map (fun f => (keyOf i first f, f))) := by
      unfold dualRow dualRowWith gatherRow
      simp only [if_true]
      rw [hreal]
      have : (first != FILL) = true := by simpa using hfirst
      simp only [this, if_true, hitems]
    set items := rest.map (fun f => (keyOf i first f, f)) with hitemsdef
    have hk : items.Pairwise (fun a b => a.1 ≠ b.1) := by
      rw [hitemsdef, List.pairwise_map]
      rw [List.pairwise_map] at hdist
      exact hdist
    have hr : ∀ x ∈ items, lt zero x.1 = true ∧ lt x.1 twoPi = true := by
      intro x hx
      obtain ⟨f, hf, rfl⟩ := List.mem_map.mp hx
      exact hrange f hf
    obtain ⟨hout, hperm, _⟩ := order_is_sort h zero twoPi W first items hk hr
    have hvals : ((sortByKey lt items).map (·.2)).Perm rest := by
      have e : items.map (·.2) = rest := by
        rw [hitemsdef, List.map_map]
        exact List.map_id' rest
      have := hperm.map (·.2)
      rw [e] at this
      exact this
    have hbody : ∀ x ∈ first :: (sortByKey lt items).map (·.2), x ≠ FILL := by
      intro x hx
      rcases List.mem_cons.mp hx with rfl | hx
      · exact hfirst
      · exact hrest x (hvals.mem_iff.mp hx)
    obtain ⟨hep, hrl⟩ := endPadded_append_fill (first :: (sortByKey lt items).map (·.2))
      (W - (items.length + 1)) hbody
    rw [hrow, hout]
    refine ⟨⟨hep, ?_⟩, rfl⟩
    rw [hrl, hreal]
    exact List.Perm.cons first hvals

/-- the gather of the code as found (`nfc[i][0:n_edges[i]]`) agrees with the repaired one exactly
    on rows padded at the end — the hypothesis the snapshot silently relied on -/
theorem gather_asis_eq_of_endPadded (r : List Int) (h : EndPadded r) :
    gatherRow false r = gatherRow true r := by
  unfold gatherRow
  simp only [Bool.false_eq_true, if_false, if_true]
  exact (endPadded_split r h).2

theorem dualRow_asis_eq_of_endPadded {K : Type} (lt : K → K → Bool) (zero twoPi : K)
    (keyOf : Nat → Int → Int → K) (W i : Nat) (r : List Int) (h : EndPadded r) :
    dualRowWith false lt zero twoPi keyOf W i r = dualRow lt zero twoPi keyOf W i r := by
  unfold dualRow dualRowWith
  rw [gather_asis_eq_of_endPadded r h]

/-- **as found, a row with padding in the middle loses a face** (a source-supplied
    `node_face_connectivity`, e.g. MPAS `cellsOnVertex` of a regional mesh): node with faces
    6, 7, 8 stored as `[6, FILL, 7, 8]` — the prefix gather reads `[6, FILL, 7]`, face 8 is lost. -/
theorem asis_prefix_gather_drops_face :
    dualRowWith false (fun a b : Int => decide (a < b)) 0 100 (fun _ _ f => f) 4 0 [6, FILL, 7, 8]
        = [6, 7, FILL, FILL] ∧
    ¬ RowOK [6, FILL, 7, 8]
        (dualRowWith false (fun a b : Int => decide (a < b)) 0 100 (fun _ _ f => f) 4 0 [6, FILL, 7, 8]) ∧
    RowOK [6, FILL, 7, 8]
        (dualRow (fun a b : Int => decide (a < b)) 0 100 (fun _ _ f => f) 4 0 [6, FILL, 7, 8]) := by
  decide

/-- **the model meets the discrete specification**: for EVERY node-face table in which the kept
    nodes meet `NodeOK`, the table built by `construct_faces` has one row per node of valence ≥ 3
    and every row is exactly that node's faces with padding only at the end. -/
theorem model_meets_discrete_spec {K : Type} {lt : K → K → Bool} (h : StrictOrder lt)
    (zero twoPi : K) (keyOf : Nat → Int → Int → K) (NF : Table)
    (hok : ∀ i ∈ keptNodes NF, NodeOK lt zero twoPi keyOf NF i) :
    DiscreteSpec NF (constructFaces (dualRow lt zero twoPi keyOf) NF) := by
  rw [construct_eq_kept]
  refine ⟨by unfold CountOK; rw [List.length_map], ?_⟩
  unfold RowsOK
  intro p hp
  rw [List.zip_map_right] at hp
  obtain ⟨q, hq, rfl⟩ := List.mem_map.mp hp
  have hqq : q.1 = q.2 ∧ q.1 ∈ keptNodes NF := by
    have : ∀ (l : List Nat) (q : Nat × Nat), q ∈ List.zip l l → q.1 = q.2 ∧ q.1 ∈ l := by
      intro l
      induction l with
      | nil => intro q hq; cases hq
      | cons a l ih =>
        intro q hq
        rw [List.zip_cons_cons] at hq
        rcases List.mem_cons.mp hq with rfl | hq
        · exact ⟨rfl, List.mem_cons_self⟩
        · exact ⟨(ih q hq).1, List.mem_cons_of_mem _ (ih q hq).2⟩
    exact this _ q hq
  obtain ⟨heq, hmem⟩ := hqq
  have hv : 3 ≤ valence (rowAt NF q.1) := by
    have := (List.mem_filter.mp hmem).2
    simpa using this
  simp only [Prod.map_fst, Prod.map_snd, id_eq]
  rw [← heq]
  exact (dual_rows_are_node_faces h zero twoPi keyOf NF _ q.1 hv (hok q.1 hmem)).1

/-- non-vacuity of `model_meets_discrete_spec`: a table with a skipped node, keys = face number -/
example : DiscreteSpec [[4, 2, 9, FILL], [1, 2, FILL, FILL], [3, 8, 5, 6]]
    (constructFaces (dualRow (fun a b : Int => decide (a < b)) 0 100 (fun _ _ f => f))
      [[4, 2, 9, FILL], [1, 2, FILL, FILL], [3, 8, 5, 6]]) := by decide

example : constructFaces (dualRow (fun a b : Int => decide (a < b)) 0 100 (fun _ _ f => f))
      [[4, 2, 9, FILL], [1, 2, FILL, FILL], [3, 8, 5, 6]]
    = [[4, 2, 9, FILL], [3, 5, 6, 8]] := by decide

/-! ### closed grids: dual face `k` is node `k` (so node-centred data need no permutation) -/

theorem kept_all_of_closed (NF : Table) (hall : ∀ i, i < NF.length → 3 ≤ valence (rowAt NF i)) :
    keptNodes NF = List.range NF.length := by
  unfold keptNodes
  rw [List.filter_eq_self]
  intro i hi
  simpa using hall i (List.mem_range.mp hi)

theorem dual_row_of_node (rowOf : Nat → Nat → List Int → List Int) (NF : Table)
    (hall : ∀ i, i < NF.length → 3 ≤ valence (rowAt NF i)) (k : Nat) (hk : k < NF.length) :
    (constructFaces rowOf NF)[k]? = some (rowOf (NF.headD []).length k (rowAt NF k)) := by
  rw [construct_eq_kept, kept_all_of_closed NF hall]
  simp [hk]

/-! ### data side -/

/-- **values unchanged and unpermuted** -/
theorem dual_data_identity {α : Type} (dims : List Nat) (values : List α) :
    (dualData dims values).2 = values := rfl

theorem swapDim_involutive (d : Nat) : swapDim (swapDim d) = d := by
  unfold swapDim
  by_cases h2 : d = 2
  · simp [h2]
  · by_cases h0 : d = 0
    · simp [h0]
    · simp [h2, h0]

/-- face-centred becomes node-centred, node-centred becomes face-centred, everything else stays -/
theorem dual_dims_swap : swapDim 2 = 0 ∧ swapDim 0 = 2 ∧ ∀ d, d ≠ 0 → d ≠ 2 → swapDim d = d := by
  refine ⟨rfl, rfl, ?_⟩
  intro d h0 h2
  simp [swapDim, h0, h2]

theorem dual_dims_length (dims : List Nat) {α : Type} (values : List α) :
    (dualData dims values).1.length = dims.length := by
  simp [dualData]

example : dualData [7, 2, 9] [1.5, 2.5] = ([7, 0, 9], [1.5, 2.5]) := rfl

/-! ### the side test (polynomial identities) -/

section algebra
variable {K : Type} [CommRing K]

/-- **side_sign_ccw**: `d_side = (n₀ × c)·d` equals `−c·(t₀ × d)` with `t₀ = n₀ − c`: it is positive
    exactly when `d` lies clockwise of `t₀` seen from outside, which is when the code reflects the
    angle to `2π − θ`.  So the reflected angle increases counter-clockwise. -/
theorem side_sign_ccw (c n0 d : V3 K) : side c n0 d = - tri c (n0.sub c) d := by
  simp only [side, tri, dot, cross, V3.sub]
  ring

/-- the triple product ignores radial parts: subtracting any multiples of `c` changes nothing -/
theorem tri_radial (c a b : V3 K) (l m : K) :
    tri c (a.sub (V3.smul l c)) (b.sub (V3.smul m c)) = tri c a b := by
  simp only [tri, dot, cross, V3.sub, V3.smul]
  ring

theorem side_radial (c n0 d : V3 K) (l : K) : side c n0 (d.sub (V3.smul l c)) = side c n0 d := by
  simp only [side, dot, cross, V3.sub, V3.smul]
  ring

end algebra

section field
variable {K : Type} [Field K]

/-- the side test is unchanged by the tangent projection of the repaired algorithm -/
theorem side_tproj (c n0 d : V3 K) : side c n0 (tproj c d) = side c n0 d := side_radial c n0 d _

theorem tri_tproj (c a b : V3 K) : tri c (tproj c a) (tproj c b) = tri c a b := tri_radial c a b _ _

/-- the projected vector is tangent at `c` -/
theorem tproj_orth (c v : V3 K) (hc : dot c c ≠ 0) : dot (tproj c v) c = 0 := by
  have h1 : dot (tproj c v) c = dot v c - dot v c / dot c c * dot c c := by
    simp only [tproj, dot, V3.sub, V3.smul]
    ring
  rw [h1]
  generalize dot c c = s at hc
  generalize dot v c = t
  field_simp
  ring

example : side (⟨0, 0, 1⟩ : V3 ℚ) ⟨1, 0, 1⟩ ⟨0, 1, 0⟩ = -1 := by
  simp only [side, dot, cross]; norm_num

end field

/-! ### the key of the code as found vs the repaired key (regression witness)

  Exact unit vectors: node `c` at the pole, first centre `n0` at azimuth 0° (20.8° away), `s1` at
  azimuth 126.87° (cos = −3/5, 20.8° away), `s2` at azimuth 143.13° (cos = −4/5, 73.7° away).
  Counter-clockwise order from `n0` is `s1, s2`.  The chord-angle key of the snapshot puts `s2` first. -/

theorem realNum_strictOrder : StrictOrder realNum.lt := by
  refine ⟨?_, ?_, ?_⟩
  · intro a; simp [realNum]
  · intro a b c h1 h2
    simp only [realNum, decide_eq_true_eq] at *
    exact lt_trans h1 h2
  · intro a b
    simp only [realNum, decide_eq_true_eq]
    exact lt_trichotomy a b

noncomputable def wc : V3 ℝ := ⟨0, 0, 1⟩
noncomputable def wn0 : V3 ℝ := ⟨720/1681, 0, 1519/1681⟩
noncomputable def ws1 : V3 ℝ := ⟨-432/1681, 576/1681, 1519/1681⟩
noncomputable def ws2 : V3 ℝ := ⟨-96/125, 72/125, 7/25⟩

theorem key_asis_s1 : keyWith realNum false wc wn0 ws1 = Real.arccos (-879/1681) := by
  simp only [keyWith, keyOfVecs, side, Dual.norm, dot, cross, V3.sub, realNum, wc, wn0, ws1,
    Bool.false_eq_true, if_false, Bool.false_and]
  norm_num

theorem key_asis_s2 : keyWith realNum false wc wn0 ws2 = Real.arccos (-101/205) := by
  simp only [keyWith, keyOfVecs, side, Dual.norm, dot, cross, V3.sub, realNum, wc, wn0, ws2,
    Bool.false_eq_true, if_false, Bool.false_and]
  norm_num

theorem key_repaired_s1 : keyWith realNum true wc wn0 ws1 = Real.arccos (-3/5) := by
  simp only [keyWith, keyOfVecs, side, Dual.norm, tproj, dot, cross, V3.sub, V3.smul, realNum, wc, wn0, ws1,
    if_true, Bool.true_and]
  norm_num

theorem key_repaired_s2 : keyWith realNum true wc wn0 ws2 = Real.arccos (-4/5) := by
  simp only [keyWith, keyOfVecs, side, Dual.norm, tproj, dot, cross, V3.sub, V3.smul, realNum, wc, wn0, ws2,
    if_true, Bool.true_and]
  norm_num

/-- **as found, the key is not monotone in the azimuth**: all four points are unit vectors, `s1` and
    `s2` lie counter-clockwise of `n0` and `s2` counter-clockwise of `s1` (all three triple products
    positive, so 0 < az(s1) < az(s2) < π), yet the snapshot's key orders `s2` BEFORE `s1`; the repaired
    key (tangent-plane angle) orders them correctly. -/
theorem asis_chord_angle_misorders :
    dot wc wc = 1 ∧ dot wn0 wn0 = 1 ∧ dot ws1 ws1 = 1 ∧ dot ws2 ws2 = 1 ∧
    0 < tri wc (wn0.sub wc) (ws1.sub wc) ∧ 0 < tri wc (ws1.sub wc) (ws2.sub wc) ∧
    0 < tri wc (wn0.sub wc) (ws2.sub wc) ∧
    keyWith realNum false wc wn0 ws2 < keyWith realNum false wc wn0 ws1 ∧
    keyWith realNum true wc wn0 ws1 < keyWith realNum true wc wn0 ws2 := by
  refine ⟨?_, ?_, ?_, ?_, ?_, ?_, ?_, ?_, ?_⟩
  · simp only [dot, wc]; norm_num
  · simp only [dot, wn0]; norm_num
  · simp only [dot, ws1]; norm_num
  · simp only [dot, ws2]; norm_num
  · simp only [tri, dot, cross, V3.sub, wc, wn0, ws1]; norm_num
  · simp only [tri, dot, cross, V3.sub, wc, ws1, ws2]; norm_num
  · simp only [tri, dot, cross, V3.sub, wc, wn0, ws2]; norm_num
  · rw [key_asis_s1, key_asis_s2]
    exact Real.arccos_lt_arccos (by norm_num) (by norm_num) (by norm_num)
  · rw [key_repaired_s1, key_repaired_s2]
    exact Real.arccos_lt_arccos (by norm_num) (by norm_num) (by norm_num)

/-- consequently `_order_nodes` as found returns the ring `n0, s2, s1` for these centres, whatever
    order they are given in, while the repaired algorithm returns `n0, s1, s2` -/
theorem asis_order_wrong_ring :
    orderNodes realNum.lt 0 realNum.twoPi 3 0
        [(keyWith realNum false wc wn0 ws1, 1), (keyWith realNum false wc wn0 ws2, 2)] = [0, 2, 1] ∧
    orderNodes realNum.lt 0 realNum.twoPi 3 0
        [(keyWith realNum true wc wn0 ws1, 1), (keyWith realNum true wc wn0 ws2, 2)] = [0, 1, 2] := by
  have hlt : StrictOrder realNum.lt := realNum_strictOrder
  obtain ⟨_, _, _, _, _, _, _, h1, h2⟩ := asis_chord_angle_misorders
  have rng : ∀ x : ℝ, x < 1 → realNum.lt 0 (Real.arccos x) = true ∧
      realNum.lt (Real.arccos x) realNum.twoPi = true := by
    intro x hx
    simp only [realNum, decide_eq_true_eq]
    refine ⟨Real.arccos_pos.mpr hx, ?_⟩
    have := Real.arccos_le_pi x
    have := Real.pi_pos
    linarith
  constructor
  · have hr : ∀ x ∈ [(keyWith realNum false wc wn0 ws1, (1 : Int)), (keyWith realNum false wc wn0 ws2, 2)],
        realNum.lt 0 x.1 = true ∧ realNum.lt x.1 realNum.twoPi = true := by
      intro x hx
      simp only [List.mem_cons, List.not_mem_nil, or_false] at hx
      rcases hx with rfl | rfl
      · rw [key_asis_s1]; exact rng _ (by norm_num)
      · rw [key_asis_s2]; exact rng _ (by norm_num)
    have := ring_of_monotone_keys hlt 0 realNum.twoPi 3 0 _
      [(keyWith realNum false wc wn0 ws2, (2 : Int)), (keyWith realNum false wc wn0 ws1, 1)]
      (List.Perm.swap _ _ _) (by simp [realNum]; exact h1) hr
    simpa using this
  · have hr : ∀ x ∈ [(keyWith realNum true wc wn0 ws1, (1 : Int)), (keyWith realNum true wc wn0 ws2, 2)],
        realNum.lt 0 x.1 = true ∧ realNum.lt x.1 realNum.twoPi = true := by
      intro x hx
      simp only [List.mem_cons, List.not_mem_nil, or_false] at hx
      rcases hx with rfl | rfl
      · rw [key_repaired_s1]; exact rng _ (by norm_num)
      · rw [key_repaired_s2]; exact rng _ (by norm_num)
    have := ring_of_monotone_keys hlt 0 realNum.twoPi 3 0 _
      [(keyWith realNum true wc wn0 ws1, (1 : Int)), (keyWith realNum true wc wn0 ws2, 2)]
      (List.Perm.refl _) (by simp [realNum]; exact h2) hr
    simpa using this

/-! ### counter-clockwise order PROVED for the model (every valence, general position only)

  `GenPos`: seen from the node, every other centre lies in a defined half turn counter-clockwise
  from the first one (none has a vanishing tangent part or the direction of the first centre), and
  no two centres lie in the same direction.  Nothing else is assumed: no bound on the valence, no
  "no three collinear", no distinct-angle or range hypothesis — those FOLLOW (`keyWith_range`,
  `key_ne_of_before`). -/

def GenPos (c : V3 ℝ) (cents : List (V3 ℝ)) (first : Int) (rest : List Int) : Prop :=
  (∀ f ∈ rest, halfOf realNum 0 c ((vecAt cents first).sub c) ((vecAt cents f).sub c) ≠ none) ∧
  (∀ f ∈ rest, ∀ g ∈ rest, f ≠ g →
    before realNum 0 c ((vecAt cents first).sub c) ((vecAt cents f).sub c) ((vecAt cents g).sub c) ≠ none)

/-- **the ring returned by the repaired `_order_nodes` is counter-clockwise** in the sense of the
    specification's own predicate `ccwSorted` (margin 0, exact reals), and is a permutation of the
    node's faces — for ANY number of faces around the node, under general position only. -/
theorem model_row_ccw (c : V3 ℝ) (cents : List (V3 ℝ)) (first : Int) (rest : List Int) (W : Nat)
    (hc : dot c c ≠ 0) (hnd : rest.Nodup) (hfirst : first ≠ FILL) (hrest : ∀ f ∈ rest, f ≠ FILL)
    (hgp : GenPos c cents first rest) :
    ccwSorted realNum 0 c cents (real (orderNodes realNum.lt 0 realNum.twoPi W first
        (rest.map (fun f => (keyWith realNum true c (vecAt cents first) (vecAt cents f), f)))))
      = some true ∧
    (real (orderNodes realNum.lt 0 realNum.twoPi W first
        (rest.map (fun f => (keyWith realNum true c (vecAt cents first) (vecAt cents f), f))))).Perm
      (first :: rest) := by
  set keyOf : Int → ℝ := fun f => keyWith realNum true c (vecAt cents first) (vecAt cents f) with hkeyOf
  set items := rest.map (fun f => (keyOf f, f)) with hitems
  have hk : items.Pairwise (fun a b => a.1 ≠ b.1) := by
    rw [hitems, List.pairwise_map]
    refine (List.Pairwise.imp_of_mem ?_ hnd)
    intro f g hf hg hne
    exact key_ne_of_before c _ _ _ hc (hgp.2 f hf g hg hne)
  have hr : ∀ x ∈ items, realNum.lt 0 x.1 = true ∧ realNum.lt x.1 realNum.twoPi = true := by
    intro x hx
    obtain ⟨f, hf, rfl⟩ := List.mem_map.mp hx
    exact keyWith_range c _ _ hc (hgp.1 f hf)
  obtain ⟨hout, hperm, hsorted⟩ :=
    order_is_sort realNum_strictOrder 0 realNum.twoPi W first items hk hr
  have hvals : ((sortByKey realNum.lt items).map (·.2)).Perm rest := by
    have e : items.map (·.2) = rest := by
      rw [hitems, List.map_map]; exact List.map_id' rest
    have := hperm.map (·.2)
    rw [e] at this; exact this
  have hbody : ∀ x ∈ first :: (sortByKey realNum.lt items).map (·.2), x ≠ FILL := by
    intro x hx
    rcases List.mem_cons.mp hx with rfl | hx
    · exact hfirst
    · exact hrest x (hvals.mem_iff.mp hx)
  obtain ⟨_, hrl⟩ := endPadded_append_fill (first :: (sortByKey realNum.lt items).map (·.2))
    (W - (items.length + 1)) hbody
  rw [hout, hrl]
  refine ⟨?_, List.Perm.cons first hvals⟩
  -- keys increase strictly along the returned ring
  have hkeys : ((sortByKey realNum.lt items).map (·.2)).Pairwise (fun f g => keyOf f < keyOf g) := by
    rw [List.pairwise_map]
    refine List.Pairwise.imp_of_mem ?_ hsorted
    intro a b ha hb hab
    have ha' : a.1 = keyOf a.2 := by
      obtain ⟨f, _, rfl⟩ := List.mem_map.mp (hperm.mem_iff.mp ha); rfl
    have hb' : b.1 = keyOf b.2 := by
      obtain ⟨f, _, rfl⟩ := List.mem_map.mp (hperm.mem_iff.mp hb); rfl
    rw [← ha', ← hb']
    simpa [realNum] using hab
  have hndv : ((sortByKey realNum.lt items).map (·.2)).Nodup := hvals.nodup_iff.mpr hnd
  apply ccwSorted_of
  · intro f hf
    exact hgp.1 f (hvals.mem_iff.mp hf)
  · intro p hp
    obtain ⟨h1, h2⟩ := mem_zip_tail _ p hp
    have hlt := pairwise_zip_tail _ hkeys p hp
    have hne : p.1 ≠ p.2 := by
      intro he
      rw [he] at hlt
      exact lt_irrefl _ hlt
    have hdec := hgp.2 p.1 (hvals.mem_iff.mp h1) p.2 (hvals.mem_iff.mp h2) hne
    exact (key_lt_iff_before c _ _ _ hc hdec).mp hlt

/-- non-vacuity of `GenPos` / `model_row_ccw`: the exact witness centres, given in the wrong order -/
theorem genPos_witness : GenPos wc [wn0, ws1, ws2] 0 [2, 1] := by
  have v0 : vecAt [wn0, ws1, ws2] 0 = wn0 := rfl
  have v1 : vecAt [wn0, ws1, ws2] 1 = ws1 := rfl
  have v2 : vecAt [wn0, ws1, ws2] 2 = ws2 := rfl
  have t1 : tri wc (wn0.sub wc) (ws1.sub wc) = 414720 / 2825761 := by
    simp only [tri, dot, cross, V3.sub, wc, wn0, ws1]; norm_num
  have t2 : tri wc (wn0.sub wc) (ws2.sub wc) = 10368 / 42025 := by
    simp only [tri, dot, cross, V3.sub, wc, wn0, ws2]; norm_num
  have t12 : 0 < tri wc (ws1.sub wc) (ws2.sub wc) := by
    simp only [tri, dot, cross, V3.sub, wc, ws1, ws2]; norm_num
  have t21 : tri wc (ws2.sub wc) (ws1.sub wc) < 0 := by
    simp only [tri, dot, cross, V3.sub, wc, ws1, ws2]; norm_num
  have h1 : halfR (tri wc (wn0.sub wc) (ws1.sub wc)) (tdot wc (wn0.sub wc) (ws1.sub wc)) = some 0 := by
    rw [t1]; simp [halfR]
  have h2 : halfR (tri wc (wn0.sub wc) (ws2.sub wc)) (tdot wc (wn0.sub wc) (ws2.sub wc)) = some 0 := by
    rw [t2]; simp [halfR]
  constructor
  · intro f hf
    simp only [List.mem_cons, List.not_mem_nil, or_false] at hf
    rcases hf with rfl | rfl
    · rw [v0, v2, halfOf_eq_halfR, h2]; simp
    · rw [v0, v1, halfOf_eq_halfR, h1]; simp
  · intro f hf g hg hne
    simp only [List.mem_cons, List.not_mem_nil, or_false] at hf hg
    rcases hf with rfl | rfl <;> rcases hg with rfl | rfl
    · exact absurd rfl hne
    · rw [v0, v1, v2, before_eq_beforeR]; unfold beforeR; rw [h2, h1]; simp [t21, not_lt.mpr t21.le]
    · rw [v0, v1, v2, before_eq_beforeR]; unfold beforeR; rw [h1, h2]; simp [t12]
    · exact absurd rfl hne

example : ccwSorted realNum 0 wc [wn0, ws1, ws2] (real (orderNodes realNum.lt 0 realNum.twoPi 4 0
    ([2, 1].map (fun f => (keyWith realNum true wc (vecAt [wn0, ws1, ws2] 0) (vecAt [wn0, ws1, ws2] f), f)))))
    = some true :=
  (model_row_ccw wc [wn0, ws1, ws2] 0 [2, 1] 4 (by simp only [dot, wc]; norm_num) (by decide) (by decide)
    (by decide) genPos_witness).1


/-! ### radius invariance of the ordering (grids carry Cartesian coordinates on spheres of any radius)

  The repaired key divides the projection by `|c|²`, so it depends only on DIRECTIONS: scaling the
  central node and each surrounding centre by arbitrary positive factors leaves every key — hence
  the ring order — unchanged.  A projection helper that omits the division (`tprojUnit`, correct
  for unit normals only) loses this, and already misorders the witness centres at radius 2. -/

theorem dot_smul_left (k : ℝ) (a b : V3 ℝ) : dot (V3.smul k a) b = k * dot a b := by
  simp only [dot, V3.smul]; ring

theorem dot_smul_smul (k l : ℝ) (a b : V3 ℝ) : dot (V3.smul k a) (V3.smul l b) = k * l * dot a b := by
  simp only [dot, V3.smul]; ring

/-- the tangent part at `a•c` of the chord from `a•c` to `b•s` is `b` times the tangent part at `c`
    of the chord from `c` to `s` -/
theorem tproj_scale (c s : V3 ℝ) (a b : ℝ) (ha : a ≠ 0) (hc : dot c c ≠ 0) :
    tproj (V3.smul a c) ((V3.smul b s).sub (V3.smul a c)) = V3.smul b (tproj c (s.sub c)) := by
  have h1 : dot ((V3.smul b s).sub (V3.smul a c)) (V3.smul a c) = a * b * dot s c - a ^ 2 * dot c c := by
    simp only [dot, V3.sub, V3.smul]; ring
  have h2 : dot (V3.smul a c) (V3.smul a c) = a ^ 2 * dot c c := by
    simp only [dot, V3.smul]; ring
  have h3 : dot (s.sub c) c = dot s c - dot c c := by
    simp only [dot, V3.sub]; ring
  unfold tproj
  rw [h1, h2, h3]
  generalize dot s c = σ
  generalize dot c c = q at hc
  simp only [V3.sub, V3.smul]
  congr 1 <;> (field_simp; ring)

theorem side_scale (c n0 d : V3 ℝ) (a b0 b : ℝ) :
    side (V3.smul a c) (V3.smul b0 n0) (V3.smul b d) = a * b0 * b * side c n0 d := by
  simp only [side, dot, cross, V3.smul]; ring

theorem norm_smul_pos (k : ℝ) (hk : 0 < k) (v : V3 ℝ) :
    Dual.norm realNum (V3.smul k v) = k * Dual.norm realNum v := by
  simp only [Dual.norm, realNum]
  rw [dot_smul_smul, show k * k * dot v v = k ^ 2 * dot v v by ring,
    Real.sqrt_mul (sq_nonneg k), Real.sqrt_sq hk.le]

/-- the angle of two vectors and the side decision are unchanged by positive scalings -/
theorem keyOfVecs_scale (z d : V3 ℝ) (sd : ℝ) (p q r : ℝ) (hp : 0 < p) (hq : 0 < q) (hr : 0 < r) :
    keyOfVecs realNum true (V3.smul p z) (V3.smul q d) (r * sd) = keyOfVecs realNum true z d sd := by
  have hdn : dot (V3.smul p z) (V3.smul q d) /
        (Dual.norm realNum (V3.smul p z) * Dual.norm realNum (V3.smul q d))
      = dot z d / (Dual.norm realNum z * Dual.norm realNum d) := by
    rw [dot_smul_smul, norm_smul_pos p hp, norm_smul_pos q hq,
      show p * Dual.norm realNum z * (q * Dual.norm realNum d)
        = p * q * (Dual.norm realNum z * Dual.norm realNum d) by ring]
    exact mul_div_mul_left _ _ (mul_pos hp hq).ne'
  have hsd : realNum.lt 0 (r * sd) = realNum.lt 0 sd := by
    simp only [realNum]
    exact decide_eq_decide.mpr (mul_pos_iff_of_pos_left hr)
  unfold keyOfVecs
  simp only [hdn, hsd]

/-- **order_scale_invariant.**  For every central node `c ≠ 0`, first centre `n0`, centre `s` and all
    positive factors `a, b0, b`: the key computed from `a•c, b0•n0, b•s` equals the key computed from
    `c, n0, s`.  (Node coordinates at radius 6371229 with unit face centres, mixed radii, … all give
    the keys of the unit sphere, hence by `order_is_sort` the same ring.) -/
theorem order_scale_invariant (c n0 s : V3 ℝ) (a b0 b : ℝ) (ha : 0 < a) (hb0 : 0 < b0) (hb : 0 < b)
    (hc : dot c c ≠ 0) :
    keyWith realNum true (V3.smul a c) (V3.smul b0 n0) (V3.smul b s) = keyWith realNum true c n0 s := by
  unfold keyWith
  simp only [if_true]
  rw [tproj_scale c n0 a b0 ha.ne' hc, tproj_scale c s a b ha.ne' hc, side_scale]
  exact keyOfVecs_scale _ _ _ b0 b (a * b0 * b) hb0 hb (mul_pos (mul_pos ha hb0) hb)

/-- non-vacuity: the witness centres at Earth radius in metres, face centres left at unit length -/
example : keyWith realNum true (V3.smul 6371229 wc) wn0 ws1 < keyWith realNum true (V3.smul 6371229 wc) wn0 ws2 := by
  have h1 := order_scale_invariant wc wn0 ws1 6371229 1 1 (by norm_num) one_pos one_pos
    (by simp only [dot, wc]; norm_num)
  have h2 := order_scale_invariant wc wn0 ws2 6371229 1 1 (by norm_num) one_pos one_pos
    (by simp only [dot, wc]; norm_num)
  have e : ∀ v : V3 ℝ, V3.smul 1 v = v := by intro v; simp [V3.smul]
  rw [e, e] at h1 h2
  rw [h1, h2, key_repaired_s1, key_repaired_s2]
  exact Real.arccos_lt_arccos (by norm_num) (by norm_num) (by norm_num)

/-- the clamped cosine keeps its sign -/
theorem clamp_neg {x : ℝ} (hx : x < 0) :
    (if realNum.lt (if realNum.lt 1 x then 1 else x) (-1) then (-1 : ℝ) else (if realNum.lt 1 x then 1 else x)) < 0
    ∧ -1 ≤ (if realNum.lt (if realNum.lt 1 x then 1 else x) (-1) then (-1 : ℝ) else (if realNum.lt 1 x then 1 else x)) := by
  have h1 : realNum.lt 1 x = false := by simp only [realNum, decide_eq_false_iff_not]; linarith
  simp only [h1, Bool.false_eq_true, if_false]
  by_cases h2 : x < -1
  · have : realNum.lt x (-1) = true := by simp only [realNum, decide_eq_true_eq]; exact h2
    simp only [this, if_true]; constructor <;> norm_num
  · have : realNum.lt x (-1) = false := by simp only [realNum, decide_eq_false_iff_not]; exact h2
    simp only [this, Bool.false_eq_true, if_false]; exact ⟨hx, by linarith⟩

theorem clamp_pos {x : ℝ} (hx : 0 < x) :
    0 < (if realNum.lt (if realNum.lt 1 x then 1 else x) (-1) then (-1 : ℝ) else (if realNum.lt 1 x then 1 else x))
    ∧ (if realNum.lt (if realNum.lt 1 x then 1 else x) (-1) then (-1 : ℝ) else (if realNum.lt 1 x then 1 else x)) ≤ 1 := by
  by_cases h1 : 1 < x
  · have : realNum.lt 1 x = true := by simp only [realNum, decide_eq_true_eq]; exact h1
    have h2 : realNum.lt 1 (-1) = false := by simp only [realNum, decide_eq_false_iff_not]; norm_num
    simp only [this, if_true, h2, Bool.false_eq_true, if_false]; constructor <;> norm_num
  · have : realNum.lt 1 x = false := by simp only [realNum, decide_eq_false_iff_not]; exact h1
    have h2 : realNum.lt x (-1) = false := by simp only [realNum, decide_eq_false_iff_not]; linarith
    simp only [this, Bool.false_eq_true, if_false, h2]; exact ⟨hx, by linarith⟩

/-- two vectors on the non-reflected side, one with negative and one with positive cosine to `z`:
    the one with the positive cosine gets the smaller key -/
theorem keyOfVecs_lt_of_signs (z d1 d2 : V3 ℝ) (sd1 sd2 : ℝ) (h1 : sd1 ≤ 0) (h2 : sd2 ≤ 0)
    (hN1 : dot z d1 < 0) (hN2 : 0 < dot z d2) (hz : 0 < dot z z) (hd1 : 0 < dot d1 d1)
    (hd2 : 0 < dot d2 d2) :
    keyOfVecs realNum true z d2 sd2 < keyOfVecs realNum true z d1 sd1 := by
  have hs1 : realNum.lt 0 sd1 = false := by simp only [realNum, decide_eq_false_iff_not]; linarith
  have hs2 : realNum.lt 0 sd2 = false := by simp only [realNum, decide_eq_false_iff_not]; linarith
  have hx1 : dot z d1 / (Dual.norm realNum z * Dual.norm realNum d1) < 0 := by
    apply div_neg_of_neg_of_pos hN1
    exact mul_pos (Real.sqrt_pos.mpr hz) (Real.sqrt_pos.mpr hd1)
  have hx2 : 0 < dot z d2 / (Dual.norm realNum z * Dual.norm realNum d2) := by
    apply div_pos hN2
    exact mul_pos (Real.sqrt_pos.mpr hz) (Real.sqrt_pos.mpr hd2)
  simp only [keyOfVecs, Bool.true_and, hs1, hs2, Bool.false_eq_true, if_false]
  exact Real.arccos_lt_arccos (clamp_neg hx1).2 (lt_trans (clamp_neg hx1).1 (clamp_pos hx2).1)
    (clamp_pos hx2).2

/-- **a projection helper that assumes a unit normal is wrong off the unit sphere**: the same four
    witness points scaled to radius 2 (still `s1` before `s2` counter-clockwise, and the repaired key
    still says so by `order_scale_invariant`); with `vec − (vec·c) c` the cosine of `s1` is negative
    and that of `s2` positive, so `s2` is put BEFORE `s1`. -/
theorem asis_unit_normal_helper_wrong :
    keyUnitHelper realNum (V3.smul 2 wc) (V3.smul 2 wn0) (V3.smul 2 ws2)
        < keyUnitHelper realNum (V3.smul 2 wc) (V3.smul 2 wn0) (V3.smul 2 ws1) ∧
    keyWith realNum true (V3.smul 2 wc) (V3.smul 2 wn0) (V3.smul 2 ws1)
        < keyWith realNum true (V3.smul 2 wc) (V3.smul 2 wn0) (V3.smul 2 ws2) := by
  constructor
  · unfold keyUnitHelper
    apply keyOfVecs_lt_of_signs
    · simp only [side, tprojUnit, dot, cross, V3.sub, V3.smul, wc, wn0, ws1]; norm_num
    · simp only [side, tprojUnit, dot, cross, V3.sub, V3.smul, wc, wn0, ws2]; norm_num
    · simp only [tprojUnit, dot, V3.sub, V3.smul, wc, wn0, ws1]; norm_num
    · simp only [tprojUnit, dot, V3.sub, V3.smul, wc, wn0, ws2]; norm_num
    · simp only [tprojUnit, dot, V3.sub, V3.smul, wc, wn0]; norm_num
    · simp only [tprojUnit, dot, V3.sub, V3.smul, wc, ws1]; norm_num
    · simp only [tprojUnit, dot, V3.sub, V3.smul, wc, ws2]; norm_num
  · rw [order_scale_invariant wc wn0 ws1 2 2 2 two_pos two_pos two_pos (by simp only [dot, wc]; norm_num),
      order_scale_invariant wc wn0 ws2 2 2 2 two_pos two_pos two_pos (by simp only [dot, wc]; norm_num),
      key_repaired_s1, key_repaired_s2]
    exact Real.arccos_lt_arccos (by norm_num) (by norm_num) (by norm_num)

end UxVerif.C18
