/-
  C03 — Incidence tables are exact transposes of one another.

  Theorems about the models of `_build_edge_face_connectivity`, `_build_node_faces_connectivity`,
  `_build_face_face_connectivity` and `_construct_hole_edge_indices` for EVERY face-node /
  face-edge table meeting the decidable precondition `Incidence.Pre` (valid entries, every edge
  in one or two faces), of any size, padding layout and numbering.
-/
import UxVerif.Lemmas.Keyed
import UxVerif.Lemmas.Pipeline

namespace UxVerif.C03
open UxVerif UxVerif.Incidence

theorem FILL_neg : FILL < 0 := by decide

theorem ofNat_ne_fill (k : Nat) : Int.ofNat k ≠ FILL := by
  have h := FILL_neg
  have : (0 : Int) ≤ Int.ofNat k := Int.natCast_nonneg k
  omega

theorem foldl_snoc (c l : List Int) : l.foldl (fun c f => c ++ [f]) c = c ++ l := by
  induction l generalizing c with
  | nil => simp
  | cons a l ih => simp [ih]

theorem mem_padTo_ofNat (w : Nat) (l : List Int) (k : Nat) :
    Int.ofNat k ∈ padTo w l ↔ Int.ofNat k ∈ l := by
  unfold padTo
  rw [List.mem_append]
  constructor
  · rintro (h | h)
    · exact h
    · exact absurd (List.mem_replicate.mp h).2 (ofNat_ne_fill k)
  · intro h; exact Or.inl h

theorem mem_padTo (w : Nat) (l : List Int) (x : Int) : x ∈ padTo w l → x = FILL ∨ x ∈ l := by
  unfold padTo
  rw [List.mem_append]
  rintro (h | h)
  · exact Or.inr h
  · exact Or.inl (List.mem_replicate.mp h).2

theorem rowAt_map (L : List (List Int)) (g : List Int → List Int) (i : Nat) (h : i < L.length) :
    rowAt (L.map g) i = g (rowAt L i) := by
  simp [rowAt, List.getD, h]

theorem rowAt_of_get {L : List (List Int)} {i : Nat} {r : List Int} (h : L[i]? = some r) :
    rowAt L i = r := by
  simp [rowAt, List.getD, h]

/-! ### node_face_connectivity -/

theorem mem_nfEvents (t : Table) (v : Nat) (x : Int) :
    (v, x) ∈ nfEvents t ↔ ∃ f, f < t.length ∧ x = Int.ofNat f ∧
      ∃ y ∈ real (rowAt t f), y.toNat = v := by
  unfold nfEvents
  simp only [List.mem_flatMap, List.mem_range, List.mem_map, Prod.mk.injEq]
  constructor
  · rintro ⟨f, hf, y, hy, h1, h2⟩
    exact ⟨f, hf, h2.symm, y, hy, h1⟩
  · rintro ⟨f, hf, h2, y, hy, h1⟩
    exact ⟨f, hf, y, hy, h1, h2.symm⟩

theorem nodeFaceLists_get (n : Nat) (t : Table) (v : Nat) (hv : v < n) :
    (nodeFaceLists n t)[v]? = some (feed (nfEvents t) v) := by
  unfold nodeFaceLists
  rw [keyedFold_get]
  have : (List.replicate n ([] : List Int))[v]? = some [] := by simp [hv]
  rw [this]; simp only [Option.map_some]; rw [foldl_snoc]; simp

/-- **face `f` is listed in `node_face_connectivity[v]` iff `v` is a corner of `f`** -/
theorem nodeFace_ok {n : Nat} {t FE : Table} {N : List Nat} {nEdge : Nat}
    (h : Pre n t FE N nEdge) : NodeFaceOK n t (nodeFace n t) := by
  obtain ⟨_, _, _, hnodes⟩ := h
  have hlen : (nodeFaceLists n t).length = n := by
    unfold nodeFaceLists; rw [keyedFold_length]; simp
  refine ⟨by simp [nodeFace, hlen], ?_, ?_⟩
  · intro v hv f hf
    have hrow : rowAt (nodeFace n t) v
        = padTo (maxLen (nodeFaceLists n t)) (feed (nfEvents t) v) := by
      unfold nodeFace
      simp only []
      rw [rowAt_map _ _ _ (by omega), rowAt_of_get (nodeFaceLists_get n t v hv)]
    rw [hrow, mem_padTo_ofNat, mem_feed, mem_nfEvents]
    constructor
    · rintro ⟨f', hf', heq, y, hy, hyv⟩
      have : f' = f := by
        have := Int.ofNat.inj heq; omega
      subst this
      have hy0 := (hnodes f' hf' y hy).1
      have : y = Int.ofNat v := by
        have := Int.toNat_of_nonneg hy0; simp only [Int.ofNat_eq_natCast]; omega
      rw [← this]; exact hy
    · intro hmem
      exact ⟨f, hf, rfl, Int.ofNat v, hmem, by simp⟩
  · intro r hr x hx
    unfold nodeFace at hr
    simp only [List.mem_map] at hr
    obtain ⟨l, hl, rfl⟩ := hr
    rcases mem_padTo _ _ _ hx with h | h
    · exact Or.inl h
    · right
      obtain ⟨v, hv, hget⟩ := List.getElem_of_mem hl
      have hv' : v < n := by omega
      have := nodeFaceLists_get n t v hv'
      rw [List.getElem?_eq_getElem hv, hget] at this
      injection this with this
      rw [this, mem_feed, mem_nfEvents] at h
      obtain ⟨f, hf, rfl, _⟩ := h
      exact ⟨Int.natCast_nonneg f, by exact Int.ofNat_lt.mpr hf⟩

/-! ### edge_face_connectivity -/

theorem mem_efEvents (FE : Table) (N : List Nat) (e : Nat) (x : Int) :
    (e, x) ∈ efEvents FE N ↔ ∃ f, f < FE.length ∧ x = Int.ofNat f ∧
      ∃ y ∈ faceEdgesOf FE N f, y.toNat = e := by
  unfold efEvents
  simp only [List.mem_flatMap, List.mem_range, List.mem_map, Prod.mk.injEq]
  constructor
  · rintro ⟨f, hf, y, hy, h1, h2⟩
    exact ⟨f, hf, h2.symm, y, hy, h1⟩
  · rintro ⟨f, hf, h2, y, hy, h1⟩
    exact ⟨f, hf, y, hy, h1, h2.symm⟩

/-- under the precondition, the faces fed to edge `e` are exactly the faces having `e` -/
theorem mem_feed_ef {n : Nat} {t FE : Table} {N : List Nat} {nEdge : Nat}
    (h : Pre n t FE N nEdge) (e : Nat) (x : Int) :
    x ∈ feed (efEvents FE N) e ↔
      ∃ f, f < FE.length ∧ x = Int.ofNat f ∧ Int.ofNat e ∈ faceEdgesOf FE N f := by
  rw [mem_feed, mem_efEvents]
  constructor
  · rintro ⟨f, hf, hx, y, hy, hye⟩
    refine ⟨f, hf, hx, ?_⟩
    have hy0 := (h.2.1 f hf y hy).1
    have : y = Int.ofNat e := by
      have := Int.toNat_of_nonneg hy0; simp only [Int.ofNat_eq_natCast]; omega
    rw [← this]; exact hy
  · rintro ⟨f, hf, hx, hmem⟩
    exact ⟨f, hf, hx, Int.ofNat e, hmem, by simp⟩

theorem edgeFace_length (FE : Table) (N : List Nat) (nEdge : Nat) :
    (edgeFace FE N nEdge).length = nEdge := by
  unfold edgeFace; rw [keyedFold_length]; simp

theorem edgeFace_get (FE : Table) (N : List Nat) (nEdge e : Nat) (he : e < nEdge) :
    (edgeFace FE N nEdge).getD e (FILL, FILL)
      = (feed (efEvents FE N) e).foldl slotUpd (FILL, FILL) := by
  have : (edgeFace FE N nEdge)[e]? = some ((feed (efEvents FE N) e).foldl slotUpd (FILL, FILL)) := by
    unfold edgeFace
    rw [keyedFold_get]; simp [he]
  simp [List.getD, this]

theorem slot_one (a : Int) : [a].foldl slotUpd (FILL, FILL) = (a, FILL) := by
  simp [slotUpd]

theorem slot_two (a b : Int) (ha : a ≠ FILL) : [a, b].foldl slotUpd (FILL, FILL) = (a, b) := by
  simp [slotUpd, ha]

/-- **face `f` is listed in `edge_face_connectivity[e]` iff `e` is one of `f`'s edges; a
    boundary edge is one face followed by padding, an interior edge two faces** -/
theorem edgeFace_ok {n : Nat} {t FE : Table} {N : List Nat} {nEdge : Nat}
    (h : Pre n t FE N nEdge) : EdgeFaceOK FE N nEdge (edgeFace FE N nEdge) := by
  refine ⟨edgeFace_length FE N nEdge, ?_⟩
  intro e he
  simp only []
  rw [edgeFace_get FE N nEdge e he]
  have hinc := h.2.2.1 e he
  have hfeed := mem_feed_ef h e
  unfold incidence at hinc ⊢
  generalize hl : feed (efEvents FE N) e = l at hinc hfeed
  match l, hinc with
  | [a], _ =>
    obtain ⟨fa, hfa, rfl, _⟩ := (hfeed a).mp (by simp)
    rw [slot_one]
    refine ⟨ofNat_ne_fill fa, by simp, ?_, ?_⟩
    · intro x hx
      simp only [List.mem_cons, List.not_mem_nil, or_false] at hx
      rcases hx with rfl | rfl
      · exact Or.inr ⟨Int.natCast_nonneg fa, Int.ofNat_lt.mpr hfa⟩
      · exact Or.inl rfl
    · intro f hf
      constructor
      · rintro (h1 | h1)
        · obtain ⟨f', _, heq, hm⟩ := (hfeed (Int.ofNat fa)).mp (by simp)
          have : f' = f := by have := Int.ofNat.inj (h1.trans heq); omega
          subst this; exact hm
        · exact absurd h1 (ofNat_ne_fill f)
      · intro hm
        have := (hfeed (Int.ofNat f)).mpr ⟨f, hf, rfl, hm⟩
        simp only [List.mem_cons, List.not_mem_nil, or_false] at this
        exact Or.inl this
  | [a, b], _ =>
    obtain ⟨fa, hfa, rfl, _⟩ := (hfeed a).mp (by simp)
    obtain ⟨fb, hfb, rfl, _⟩ := (hfeed b).mp (by simp)
    rw [slot_two _ _ (ofNat_ne_fill fa)]
    refine ⟨ofNat_ne_fill fa, ?_, ?_, ?_⟩
    · simp only [List.length_cons, List.length_nil]
      constructor
      · intro h1; exact absurd h1 (ofNat_ne_fill fb)
      · intro h1; omega
    · intro x hx
      simp only [List.mem_cons, List.not_mem_nil, or_false] at hx
      rcases hx with rfl | rfl
      · exact Or.inr ⟨Int.natCast_nonneg fa, Int.ofNat_lt.mpr hfa⟩
      · exact Or.inr ⟨Int.natCast_nonneg fb, Int.ofNat_lt.mpr hfb⟩
    · intro f hf
      constructor
      · intro h1
        have hmem : Int.ofNat f ∈ [Int.ofNat fa, Int.ofNat fb] := by
          simp only [List.mem_cons, List.not_mem_nil, or_false]; exact h1
        obtain ⟨f', _, heq, hm⟩ := (hfeed (Int.ofNat f)).mp hmem
        have : f' = f := by have := Int.ofNat.inj heq; omega
        subst this; exact hm
      · intro hm
        have := (hfeed (Int.ofNat f)).mpr ⟨f, hf, rfl, hm⟩
        simpa only [List.mem_cons, List.not_mem_nil, or_false] using this
  | [], h0 => simp at h0
  | _ :: _ :: _ :: _, h3 => simp at h3

/-! ### hole_edge_indices -/

/-- **hole edges are exactly the edges with a single adjacent face** (for any edge-face table
    meeting `EdgeFaceOK`, in particular the model's) -/
theorem holes_ok {FE : Table} {N : List Nat} {nEdge : Nat} {EF : List (Int × Int)}
    (h : EdgeFaceOK FE N nEdge EF) : HolesOK FE N nEdge (holeEdges EF) := by
  obtain ⟨hlen, hrows⟩ := h
  refine ⟨?_, ?_, ?_⟩
  · unfold holeEdges; exact List.Pairwise.filter _ List.nodup_range
  · intro e he
    unfold holeEdges at he
    simp only [List.mem_filter, List.mem_range] at he
    omega
  · intro e he
    have := (hrows e he).2.1
    unfold holeEdges
    simp only [List.mem_filter, List.mem_range, beq_iff_eq, hlen, he, true_and]
    have hd : EF.getD e (0, 0) = EF.getD e (FILL, FILL) := by
      simp [List.getD, List.getElem?_eq_getElem (hlen ▸ he : e < EF.length)]
    rw [hd]; exact this

/-! ### face_face_connectivity (membership form) -/

theorem faceFaceLists_get (nFace : Nat) (EF : List (Int × Int)) (f : Nat) (hf : f < nFace) :
    (faceFaceLists nFace EF)[f]? = some (feed (ffEvents EF) f) := by
  unfold faceFaceLists
  rw [keyedFold_get]
  have : (List.replicate nFace ([] : List Int))[f]? = some [] := by simp [hf]
  rw [this]; simp only [Option.map_some]; rw [foldl_snoc]; simp

theorem mem_ffEvents (EF : List (Int × Int)) (f : Nat) (x : Int) :
    (f, x) ∈ ffEvents EF ↔ ∃ p ∈ EF, p.1 ≠ FILL ∧ p.2 ≠ FILL ∧
      ((p.1.toNat = f ∧ p.2 = x) ∨ (p.2.toNat = f ∧ p.1 = x)) := by
  unfold ffEvents
  simp only [List.mem_flatMap]
  constructor
  · rintro ⟨p, hp, hm⟩
    unfold ffEventsOf at hm
    split at hm
    · rename_i hc
      simp only [Bool.and_eq_true, bne_iff_ne, ne_eq] at hc
      simp only [List.mem_cons, Prod.mk.injEq, List.not_mem_nil, or_false] at hm
      refine ⟨p, hp, hc.1, hc.2, ?_⟩
      rcases hm with ⟨h1, h2⟩ | ⟨h1, h2⟩
      · exact Or.inl ⟨h1.symm, h2.symm⟩
      · exact Or.inr ⟨h1.symm, h2.symm⟩
    · cases hm
  · rintro ⟨p, hp, h1, h2, hm⟩
    refine ⟨p, hp, ?_⟩
    unfold ffEventsOf
    have : (p.1 != FILL && p.2 != FILL) = true := by simp [h1, h2]
    rw [if_pos this]
    simp only [List.mem_cons, Prod.mk.injEq, List.not_mem_nil, or_false]
    rcases hm with ⟨h3, h4⟩ | ⟨h3, h4⟩
    · exact Or.inl ⟨h3.symm, h4.symm⟩
    · exact Or.inr ⟨h3.symm, h4.symm⟩

theorem toNat_eq_ofNat {x : Int} {k : Nat} (h0 : 0 ≤ x) (h : x.toNat = k) : x = Int.ofNat k := by
  have := Int.toNat_of_nonneg h0; simp only [Int.ofNat_eq_natCast]; omega

/-- **`face_face_connectivity[f]` lists exactly the faces that share an edge with `f`**,
    for any edge-face table meeting `EdgeFaceOK`. -/
theorem faceFace_mem_ok {FE : Table} {N : List Nat} {nEdge : Nat} {EF : List (Int × Int)}
    (w : Nat) (h : EdgeFaceOK FE N nEdge EF) :
    FaceFaceMemOK FE N nEdge (faceFace FE.length w EF) := by
  obtain ⟨hlen, hrows⟩ := h
  have hL : (faceFaceLists FE.length EF).length = FE.length := by
    unfold faceFaceLists; rw [keyedFold_length]; simp
  -- every row of EF is row `e` for some `e < nEdge`
  have hp : ∀ p ∈ EF, ∃ e, e < nEdge ∧ EF.getD e (FILL, FILL) = p := by
    intro p hp
    obtain ⟨e, he, hget⟩ := List.getElem_of_mem hp
    exact ⟨e, by omega, by simp [List.getD, List.getElem?_eq_getElem he, hget]⟩
  refine ⟨by simp [faceFace, hL], ?_, ?_⟩
  · intro r hr x hx
    unfold faceFace at hr
    simp only [List.mem_map] at hr
    obtain ⟨l, hl, rfl⟩ := hr
    rcases mem_padTo _ _ _ hx with hx | hx
    · exact Or.inl hx
    · obtain ⟨f, hf, hget⟩ := List.getElem_of_mem hl
      have := faceFaceLists_get FE.length EF f (by omega)
      rw [List.getElem?_eq_getElem hf, hget] at this
      injection this with this
      rw [this, mem_feed, mem_ffEvents] at hx
      obtain ⟨p, hpm, h1, h2, hm⟩ := hx
      obtain ⟨e, he, rfl⟩ := hp p hpm
      have hent := (hrows e he).2.2.1
      rcases hm with ⟨_, h4⟩ | ⟨_, h4⟩
      · rcases hent x (by rw [← h4]; exact List.mem_cons_of_mem _ List.mem_cons_self) with h5 | h5
        · exact absurd (h4 ▸ h5) h2
        · exact Or.inr h5
      · rcases hent x (by rw [← h4]; exact List.mem_cons_self) with h5 | h5
        · exact absurd (h4 ▸ h5) h1
        · exact Or.inr h5
  · intro f hf g hg hfg
    have hrow : rowAt (faceFace FE.length w EF) f = padTo w (feed (ffEvents EF) f) := by
      unfold faceFace
      rw [rowAt_map _ _ _ (by omega), rowAt_of_get (faceFaceLists_get FE.length EF f hf)]
    rw [hrow, mem_padTo_ofNat, mem_feed, mem_ffEvents]
    unfold Shares
    constructor
    · rintro ⟨p, hpm, h1, h2, hm⟩
      obtain ⟨e, he, rfl⟩ := hp p hpm
      obtain ⟨_, _, hent, hiff⟩ := hrows e he
      refine ⟨e, List.mem_range.mpr he, ?_, ?_⟩
      · rcases hm with ⟨h3, _⟩ | ⟨h3, _⟩
        · have h0 : 0 ≤ (EF.getD e (FILL, FILL)).1 := by
            rcases hent _ List.mem_cons_self with h5 | h5
            · exact absurd h5 h1
            · exact h5.1
          exact (hiff f hf).mp (Or.inl (toNat_eq_ofNat h0 h3).symm)
        · have h0 : 0 ≤ (EF.getD e (FILL, FILL)).2 := by
            rcases hent _ (List.mem_cons_of_mem _ List.mem_cons_self) with h5 | h5
            · exact absurd h5 h2
            · exact h5.1
          exact (hiff f hf).mp (Or.inr (toNat_eq_ofNat h0 h3).symm)
      · rcases hm with ⟨_, h4⟩ | ⟨_, h4⟩
        · exact (hiff g hg).mp (Or.inr h4.symm)
        · exact (hiff g hg).mp (Or.inl h4.symm)
    · rintro ⟨e, he, hef, heg⟩
      have he' := List.mem_range.mp he
      obtain ⟨_, _, _, hiff⟩ := hrows e he'
      have hpm : EF.getD e (FILL, FILL) ∈ EF := by
        have : e < EF.length := by omega
        simp [List.getD, List.getElem?_eq_getElem this]
      have h1 := (hiff f hf).mpr hef
      have h2 := (hiff g hg).mpr heg
      have hne : Int.ofNat f ≠ Int.ofNat g := fun hh => hfg (by have := Int.ofNat.inj hh; omega)
      refine ⟨EF.getD e (FILL, FILL), hpm, ?_⟩
      rcases h1 with h1 | h1 <;> rcases h2 with h2 | h2
      · exact absurd (h1.trans h2.symm) hne
      · refine ⟨h1 ▸ ofNat_ne_fill f, h2 ▸ ofNat_ne_fill g, Or.inl ⟨?_, h2.symm⟩⟩
        rw [← h1]; simp
      · refine ⟨h2 ▸ ofNat_ne_fill g, h1 ▸ ofNat_ne_fill f, Or.inr ⟨?_, h2.symm⟩⟩
        rw [← h1]; simp
      · exact absurd (h1.trans h2.symm) hne

/-- **C03 (main theorem, membership form).**  For every input meeting `Pre`, the modelled
    builders produce mutually exact incidence tables. -/
theorem build_meets_spec_partial {n w : Nat} {t FE : Table} {N : List Nat} {nEdge : Nat}
    (h : Pre n t FE N nEdge) :
    let o := build n w t FE N nEdge
    NodeFaceOK n t o.nodeFace ∧ EdgeFaceOK FE N nEdge o.edgeFace ∧
    FaceFaceMemOK FE N nEdge o.faceFace ∧ HolesOK FE N nEdge o.holes := by
  have hef := edgeFace_ok h
  refine ⟨nodeFace_ok h, hef, ?_, holes_ok hef⟩
  have := faceFace_mem_ok w hef
  simpa [build, h.1] using this

/-! ### non-vacuity: two triangles sharing an edge, one isolated triangle -/
example : Pre 7 [[0, 1, 2], [2, 1, 3], [4, 5, 6]]
    [[0, 1, 2], [1, 3, 4], [5, 6, 7]] [3, 3, 3] 8 := by decide
example : Spec 7 [[0, 1, 2], [2, 1, 3], [4, 5, 6]] [[0, 1, 2], [1, 3, 4], [5, 6, 7]] [3, 3, 3] 8
    (build 7 3 [[0, 1, 2], [2, 1, 3], [4, 5, 6]] [[0, 1, 2], [1, 3, 4], [5, 6, 7]] [3, 3, 3] 8) := by
  decide

end UxVerif.C03

namespace UxVerif.C03
open UxVerif UxVerif.Incidence

/-! ### face_face_connectivity (count form): once per shared edge -/

theorem count_padTo_ofNat (w : Nat) (l : List Int) (k : Nat) :
    (padTo w l).count (Int.ofNat k) = l.count (Int.ofNat k) := by
  unfold padTo
  rw [List.count_append]
  have : (List.replicate (w - l.length) FILL).count (Int.ofNat k) = 0 := by
    rw [List.count_replicate]
    have := ofNat_ne_fill k
    have h2 : ¬ (FILL = (k : Int)) := fun hh => this (by simpa using hh.symm)
    simp [h2]
  omega

theorem count_feed (ev : List (Nat × Int)) (k : Nat) (x : Int) :
    (feed ev k).count x = ev.count (k, x) := by
  induction ev with
  | nil => simp [feed]
  | cons kv ev ih =>
    rw [feed_cons, List.count_cons]
    by_cases h : kv.1 = k
    · rw [if_pos h, List.count_cons, ih]
      by_cases h2 : kv.2 = x
      · have : kv = (k, x) := Prod.ext h h2
        simp [this]
      · have : ¬ kv = (k, x) := fun hh => h2 (by rw [hh])
        simp [this, h2]
    · rw [if_neg h, ih]
      have : ¬ kv = (k, x) := fun hh => h (by rw [hh])
      simp [this]

theorem count_flatMap_sum {α β : Type} [BEq β] (l : List α) (g : α → List β) (b : β) :
    (l.flatMap g).count b = (l.map (fun a => (g a).count b)).sum := by
  induction l with
  | nil => simp
  | cons a l ih => simp [List.flatMap_cons, List.count_append, ih]

theorem filter_length_sum {α : Type} (l : List α) (p : α → Bool) :
    (l.filter p).length = (l.map (fun a => if p a then 1 else 0)).sum := by
  induction l with
  | nil => simp
  | cons a l ih =>
    rw [List.filter_cons]
    by_cases h : p a = true
    · simp [h, ih]; omega
    · simp [h, ih]

theorem eq_map_getD_range {α : Type} (l : List α) (d : α) :
    l = (List.range l.length).map (fun i => l.getD i d) := by
  apply List.ext_getElem
  · simp
  · intro i h1 h2
    simp [List.getD, List.getElem?_eq_getElem h1]

/-- the contribution of one edge-face row to `count g face_face[f]` -/
theorem ffEventsOf_count {FE : Table} {N : List Nat} {nEdge : Nat} {EF : List (Int × Int)}
    (h : EdgeFaceOK FE N nEdge EF) (e : Nat) (he : e < nEdge)
    (f g : Nat) (hf : f < FE.length) (hg : g < FE.length) (hfg : f ≠ g) :
    (ffEventsOf (EF.getD e (FILL, FILL))).count (f, Int.ofNat g)
      = if (decide (Int.ofNat e ∈ faceEdgesOf FE N f) && decide (Int.ofNat e ∈ faceEdgesOf FE N g))
        then 1 else 0 := by
  obtain ⟨h1, _, hent, hiff⟩ := h.2 e he
  generalize EF.getD e (FILL, FILL) = p at h1 hent hiff
  obtain ⟨a, b⟩ := p
  simp only at h1 hent hiff
  have hA := hiff f hf
  have hB := hiff g hg
  have hne : Int.ofNat f ≠ Int.ofNat g := fun hh => hfg (by have := Int.ofNat.inj hh; omega)
  have hff := ofNat_ne_fill f
  have hgf := ofNat_ne_fill g
  have ha0 : 0 ≤ a := by
    rcases hent a List.mem_cons_self with h5 | h5
    · exact absurd h5 h1
    · exact h5.1
  unfold ffEventsOf
  by_cases hb : b = FILL
  · subst hb
    have : ((a != FILL) && (FILL != FILL)) = false := by simp
    simp only [this, Bool.false_eq_true, if_false, List.count_nil]
    have : ¬ (Int.ofNat e ∈ faceEdgesOf FE N f ∧ Int.ofNat e ∈ faceEdgesOf FE N g) := by
      rintro ⟨hA', hB'⟩
      rcases hA.mpr hA' with h5 | h5
      · rcases hB.mpr hB' with h6 | h6
        · exact hne (h5.trans h6.symm)
        · exact hgf h6
      · exact hff h5
    simp only [Bool.and_eq_true, decide_eq_true_eq]
    rw [if_neg this]
  · have hb0 : 0 ≤ b := by
      rcases hent b (List.mem_cons_of_mem _ List.mem_cons_self) with h5 | h5
      · exact absurd h5 hb
      · exact h5.1
    have : ((a != FILL) && (b != FILL)) = true := by simp [h1, hb]
    simp only [this, if_true, List.count_cons, List.count_nil, beq_iff_eq, Prod.mk.injEq,
      Bool.and_eq_true, decide_eq_true_eq]
    have ea : a.toNat = f ↔ Int.ofNat f = a := by
      constructor
      · intro h; exact (toNat_eq_ofNat ha0 h).symm
      · intro h; rw [← h]; simp
    have eb : b.toNat = f ↔ Int.ofNat f = b := by
      constructor
      · intro h; exact (toNat_eq_ofNat hb0 h).symm
      · intro h; rw [← h]; simp
    simp only [ea, eb, ← hA, ← hB]
    by_cases c1 : Int.ofNat f = a <;> by_cases c2 : Int.ofNat f = b <;>
      by_cases c3 : Int.ofNat g = a <;> by_cases c4 : Int.ofNat g = b <;>
      simp_all <;> omega

/-- **`face_face_connectivity[f]` contains each neighbour once per shared edge**, for any
    edge-face table meeting `EdgeFaceOK`. -/
theorem faceFace_count_ok {FE : Table} {N : List Nat} {nEdge : Nat} {EF : List (Int × Int)}
    (w : Nat) (h : EdgeFaceOK FE N nEdge EF) :
    FaceFaceCountOK FE N nEdge (faceFace FE.length w EF) := by
  intro f hf g hg hfg
  have hL : (faceFaceLists FE.length EF).length = FE.length := by
    unfold faceFaceLists; rw [keyedFold_length]; simp
  have hrow : rowAt (faceFace FE.length w EF) f = padTo w (feed (ffEvents EF) f) := by
    unfold faceFace
    rw [rowAt_map _ _ _ (by omega), rowAt_of_get (faceFaceLists_get FE.length EF f hf)]
  rw [hrow, count_padTo_ofNat, count_feed]
  unfold ffEvents
  rw [count_flatMap_sum, filter_length_sum]
  conv => lhs; rw [eq_map_getD_range EF (FILL, FILL)]
  rw [List.map_map, h.1]
  congr 1
  apply List.map_congr_left
  intro e he
  exact ffEventsOf_count h e (List.mem_range.mp he) f g hf hg hfg

/-- **C03 (main theorem).**  For every input meeting `Pre` — any number of faces, any size
    mix, numbering and coverage, isolated faces, nodes of any valence — the modelled builders
    satisfy the full specification. -/
theorem build_meets_spec {n w : Nat} {t FE : Table} {N : List Nat} {nEdge : Nat}
    (h : Pre n t FE N nEdge) : Spec n t FE N nEdge (build n w t FE N nEdge) := by
  have hef := edgeFace_ok h
  refine ⟨nodeFace_ok h, hef, ?_, ?_, holes_ok hef⟩
  · have := faceFace_mem_ok w hef
    simpa [build, h.1] using this
  · have := faceFace_count_ok w hef
    simpa [build, h.1] using this

/-! ### C02 → C03: the precondition is met by the edge tables C02's model derives -/

/-- **pipeline precondition**: for EVERY standard-form face table the face-edge table, corner
    counts and edge count derived by the C02 model meet `Pre`, provided the mesh is manifold
    (no edge bounds more than two face slots) — the only clause that is about the mesh and not
    about the code. -/
theorem pre_of_edges_build {n w : Nat} {t : Table} (h : Edges.StdForm n w t)
    (hman : ∀ e, e < (Edges.edges t).length →
      incidence (Edges.faceEdges t) (Edges.nNodesPerFace t) e ≤ 2) :
    Pre n t (Edges.faceEdges t) (Edges.nNodesPerFace t) (Edges.edges t).length := by
  have hlen : (Edges.faceEdges t).length = t.length := by simp [Edges.faceEdges]
  refine ⟨hlen, ?_, ?_, ?_⟩
  · intro f hf e he
    have := Pipeline.faceEdges_valid h f (by omega) e he
    exact ⟨this.1, by exact_mod_cast this.2⟩
  · intro e he
    exact ⟨Pipeline.incidence_pos h e he, hman e he⟩
  · intro f hf v hv
    have hstd := h _ (List.getElem_mem hf)
    rw [Pipeline.rowAt_eq_getElem t f hf, Pipeline.real_of_std hstd] at hv
    exact hstd.2.2.1 v hv

/-- **C02 ∘ C03 end to end**: on every manifold standard-form face table, the incidence tables
    built from the edge tables that the C02 model derives satisfy the C03 specification. -/
theorem pipeline_meets_spec {n w : Nat} {t : Table} (h : Edges.StdForm n w t)
    (hman : ∀ e, e < (Edges.edges t).length →
      incidence (Edges.faceEdges t) (Edges.nNodesPerFace t) e ≤ 2) :
    Spec n t (Edges.faceEdges t) (Edges.nNodesPerFace t) (Edges.edges t).length
      (build n w t (Edges.faceEdges t) (Edges.nNodesPerFace t) (Edges.edges t).length) :=
  build_meets_spec (pre_of_edges_build h hman)

/-- non-vacuity: two triangles sharing an edge and an isolated triangle are manifold -/
example : ∀ e, e < (Edges.edges [[0, 1, 2], [2, 1, 3], [4, 5, 6]]).length →
    incidence (Edges.faceEdges [[0, 1, 2], [2, 1, 3], [4, 5, 6]])
      (Edges.nNodesPerFace [[0, 1, 2], [2, 1, 3], [4, 5, 6]]) e ≤ 2 := by decide

/-- the specification is not trivially true: a face-face row listing a non-neighbour fails -/
example : ¬ FaceFaceMemOK [[0, 1, 2], [1, 3, 4], [5, 6, 7]] [3, 3, 3] 8
    [[1, FILL, FILL], [0, FILL, FILL], [0, FILL, FILL]] := by decide

end UxVerif.C03
