/-
  C03 — Incidence tables are exact transposes of one another.

  Theorems about the models of `_build_edge_face_connectivity`, `_build_node_faces_connectivity`,
  `_build_face_face_connectivity` and `_construct_hole_edge_indices` for EVERY face-node /
  face-edge table meeting the decidable precondition `Incidence.Pre` (valid entries, every edge
  in one or two faces), of any size, padding layout and numbering.

  Last section: the driver's efficient decision procedure (`Lemmas/C03Fast.lean`: one run of each
  builder + row-by-row comparison up to what the specification leaves free) is PROVED equal to the
  specification's own Booleans — `preFast_eq`, `specFast_eq_spec`, `failingFast_eq` — so meshes of
  any size (file-supplied MPAS tables, big generated meshes) are judged by `Incidence.Spec` itself.
-/
import UxVerif.Lemmas.Keyed
import UxVerif.Lemmas.Pipeline
import UxVerif.Lemmas.C03Basic
import UxVerif.Lemmas.C03Transport
import UxVerif.Lemmas.C03Fast

namespace UxVerif.C03
open UxVerif UxVerif.Incidence

theorem foldl_snoc (c l : List Int) : l.foldl (fun c f => c ++ [f]) c = c ++ l := by
  induction l generalizing c with
  | nil => simp
  | cons a l ih => simp [ih]

theorem mem_padTo_ofNat (w : Nat) (l : List Int) (k : Nat) :
    Int.ofNat k ∈ padTo w l ↔ Int.ofNat k ∈ l := by
  unfold padTo
  rw [List.mem_append]
  constructor
  · rintro (h | h)
    · exact h
    · exact absurd (List.mem_replicate.mp h).2 (ofNat_ne_fill k)
  · intro h; exact Or.inl h

theorem mem_padTo (w : Nat) (l : List Int) (x : Int) : x ∈ padTo w l → x = FILL ∨ x ∈ l := by
  unfold padTo
  rw [List.mem_append]
  rintro (h | h)
  · exact Or.inr h
  · exact Or.inl (List.mem_replicate.mp h).2

theorem rowAt_map (L : List (List Int)) (g : List Int → List Int) (i : Nat) (h : i < L.length) :
    rowAt (L.map g) i = g (rowAt L i) := by
  simp [rowAt, List.getD, h]

theorem rowAt_of_get {L : List (List Int)} {i : Nat} {r : List Int} (h : L[i]? = some r) :
    rowAt L i = r := by
  simp [rowAt, List.getD, h]

/-! ### node_face_connectivity -/

theorem mem_nfEvents (t : Table) (v : Nat) (x : Int) :
    (v, x) ∈ nfEvents t ↔ ∃ f, f < t.length ∧ x = Int.ofNat f ∧
      ∃ y ∈ real (rowAt t f), y.toNat = v := by
  unfold nfEvents
  simp only [List.mem_flatMap, List.mem_range, List.mem_map, Prod.mk.injEq]
  constructor
  · rintro ⟨f, hf, y, hy, h1, h2⟩
    exact ⟨f, hf, h2.symm, y, hy, h1⟩
  · rintro ⟨f, hf, h2, y, hy, h1⟩
    exact ⟨f, hf, y, hy, h1, h2.symm⟩

theorem nodeFaceLists_get (n : Nat) (t : Table) (v : Nat) (hv : v < n) :
    (nodeFaceLists n t)[v]? = some (feed (nfEvents t) v) := by
  unfold nodeFaceLists
  rw [keyedFold_get]
  have : (List.replicate n ([] : List Int))[v]? = some [] := by simp [hv]
  rw [this]; simp only [Option.map_some]; rw [foldl_snoc]; simp

/-- **face `f` is listed in `node_face_connectivity[v]` iff `v` is a corner of `f`** -/
theorem nodeFace_ok {n : Nat} {t FE : Table} {N : List Nat} {nEdge : Nat}
    (h : Pre n t FE N nEdge) : NodeFaceOK n t (nodeFace n t) := by
  obtain ⟨_, _, _, hnodes⟩ := h
  have hlen : (nodeFaceLists n t).length = n := by
    unfold nodeFaceLists; rw [keyedFold_length]; simp
  refine ⟨by simp [nodeFace, hlen], ?_, ?_⟩
  · intro v hv f hf
    have hrow : rowAt (nodeFace n t) v
        = padTo (maxLen (nodeFaceLists n t)) (feed (nfEvents t) v) := by
      unfold nodeFace
      simp only []
      rw [rowAt_map _ _ _ (by omega), rowAt_of_get (nodeFaceLists_get n t v hv)]
    rw [hrow, mem_padTo_ofNat, mem_feed, mem_nfEvents]
    constructor
    · rintro ⟨f', hf', heq, y, hy, hyv⟩
      have : f' = f := by
        have := Int.ofNat.inj heq; omega
      subst this
      have hy0 := (hnodes f' hf' y hy).1
      have : y = Int.ofNat v := by
        have := Int.toNat_of_nonneg hy0; simp only [Int.ofNat_eq_natCast]; omega
      rw [← this]; exact hy
    · intro hmem
      exact ⟨f, hf, rfl, Int.ofNat v, hmem, by simp⟩
  · intro r hr x hx
    unfold nodeFace at hr
    simp only [List.mem_map] at hr
    obtain ⟨l, hl, rfl⟩ := hr
    rcases mem_padTo _ _ _ hx with h | h
    · exact Or.inl h
    · right
      obtain ⟨v, hv, hget⟩ := List.getElem_of_mem hl
      have hv' : v < n := by omega
      have := nodeFaceLists_get n t v hv'
      rw [List.getElem?_eq_getElem hv, hget] at this
      injection this with this
      rw [this, mem_feed, mem_nfEvents] at h
      obtain ⟨f, hf, rfl, _⟩ := h
      exact ⟨Int.natCast_nonneg f, by exact Int.ofNat_lt.mpr hf⟩

/-! ### edge_face_connectivity -/

/-- **face `f` is listed in `edge_face_connectivity[e]` iff `e` is one of `f`'s edges; a
    boundary edge is one face followed by padding, an interior edge two faces** -/
theorem edgeFace_ok {n : Nat} {t FE : Table} {N : List Nat} {nEdge : Nat}
    (h : Pre n t FE N nEdge) : EdgeFaceOK FE N nEdge (edgeFace FE N nEdge) := by
  refine ⟨edgeFace_length FE N nEdge, ?_⟩
  intro e he
  simp only []
  rw [edgeFace_get FE N nEdge e he]
  have hinc := h.2.2.1 e he
  have hfeed := mem_feed_ef h e
  unfold incidence at hinc ⊢
  generalize hl : feed (efEvents FE N) e = l at hinc hfeed
  match l, hinc with
  | [a], _ =>
    obtain ⟨fa, hfa, rfl, _⟩ := (hfeed a).mp (by simp)
    rw [slot_one]
    refine ⟨ofNat_ne_fill fa, by simp, ?_, ?_⟩
    · intro x hx
      simp only [List.mem_cons, List.not_mem_nil, or_false] at hx
      rcases hx with rfl | rfl
      · exact Or.inr ⟨Int.natCast_nonneg fa, Int.ofNat_lt.mpr hfa⟩
      · exact Or.inl rfl
    · intro f hf
      constructor
      · rintro (h1 | h1)
        · obtain ⟨f', _, heq, hm⟩ := (hfeed (Int.ofNat fa)).mp (by simp)
          have : f' = f := by have := Int.ofNat.inj (h1.trans heq); omega
          subst this; exact hm
        · exact absurd h1 (ofNat_ne_fill f)
      · intro hm
        have := (hfeed (Int.ofNat f)).mpr ⟨f, hf, rfl, hm⟩
        simp only [List.mem_cons, List.not_mem_nil, or_false] at this
        exact Or.inl this
  | [a, b], _ =>
    obtain ⟨fa, hfa, rfl, _⟩ := (hfeed a).mp (by simp)
    obtain ⟨fb, hfb, rfl, _⟩ := (hfeed b).mp (by simp)
    rw [slot_two _ _ (ofNat_ne_fill fa)]
    refine ⟨ofNat_ne_fill fa, ?_, ?_, ?_⟩
    · simp only [List.length_cons, List.length_nil]
      constructor
      · intro h1; exact absurd h1 (ofNat_ne_fill fb)
      · intro h1; omega
    · intro x hx
      simp only [List.mem_cons, List.not_mem_nil, or_false] at hx
      rcases hx with rfl | rfl
      · exact Or.inr ⟨Int.natCast_nonneg fa, Int.ofNat_lt.mpr hfa⟩
      · exact Or.inr ⟨Int.natCast_nonneg fb, Int.ofNat_lt.mpr hfb⟩
    · intro f hf
      constructor
      · intro h1
        have hmem : Int.ofNat f ∈ [Int.ofNat fa, Int.ofNat fb] := by
          simp only [List.mem_cons, List.not_mem_nil, or_false]; exact h1
        obtain ⟨f', _, heq, hm⟩ := (hfeed (Int.ofNat f)).mp hmem
        have : f' = f := by have := Int.ofNat.inj heq; omega
        subst this; exact hm
      · intro hm
        have := (hfeed (Int.ofNat f)).mpr ⟨f, hf, rfl, hm⟩
        simpa only [List.mem_cons, List.not_mem_nil, or_false] using this
  | [], h0 => simp at h0
  | _ :: _ :: _ :: _, h3 => simp at h3

/-! ### hole_edge_indices -/

/-- **hole edges are exactly the edges with a single adjacent face** (for any edge-face table
    meeting `EdgeFaceOK`, in particular the model's) -/
theorem holes_ok {FE : Table} {N : List Nat} {nEdge : Nat} {EF : List (Int × Int)}
    (h : EdgeFaceOK FE N nEdge EF) : HolesOK FE N nEdge (holeEdges EF) := by
  obtain ⟨hlen, hrows⟩ := h
  refine ⟨?_, ?_, ?_⟩
  · unfold holeEdges; exact List.Pairwise.filter _ List.nodup_range
  · intro e he
    unfold holeEdges at he
    simp only [List.mem_filter, List.mem_range] at he
    omega
  · intro e he
    have := (hrows e he).2.1
    unfold holeEdges
    simp only [List.mem_filter, List.mem_range, beq_iff_eq, hlen, he, true_and]
    have hd : EF.getD e (0, 0) = EF.getD e (FILL, FILL) := by
      simp [List.getD, List.getElem?_eq_getElem (hlen ▸ he : e < EF.length)]
    rw [hd]; exact this

/-! ### face_face_connectivity (membership form) -/

theorem faceFaceLists_get (nFace : Nat) (EF : List (Int × Int)) (f : Nat) (hf : f < nFace) :
    (faceFaceLists nFace EF)[f]? = some (feed (ffEvents EF) f) := by
  unfold faceFaceLists
  rw [keyedFold_get]
  have : (List.replicate nFace ([] : List Int))[f]? = some [] := by simp [hf]
  rw [this]; simp only [Option.map_some]; rw [foldl_snoc]; simp

theorem mem_ffEvents (EF : List (Int × Int)) (f : Nat) (x : Int) :
    (f, x) ∈ ffEvents EF ↔ ∃ p ∈ EF, p.1 ≠ FILL ∧ p.2 ≠ FILL ∧
      ((p.1.toNat = f ∧ p.2 = x) ∨ (p.2.toNat = f ∧ p.1 = x)) := by
  unfold ffEvents
  simp only [List.mem_flatMap]
  constructor
  · rintro ⟨p, hp, hm⟩
    unfold ffEventsOf at hm
    split at hm
    · rename_i hc
      simp only [Bool.and_eq_true, bne_iff_ne, ne_eq] at hc
      simp only [List.mem_cons, Prod.mk.injEq, List.not_mem_nil, or_false] at hm
      refine ⟨p, hp, hc.1, hc.2, ?_⟩
      rcases hm with ⟨h1, h2⟩ | ⟨h1, h2⟩
      · exact Or.inl ⟨h1.symm, h2.symm⟩
      · exact Or.inr ⟨h1.symm, h2.symm⟩
    · cases hm
  · rintro ⟨p, hp, h1, h2, hm⟩
    refine ⟨p, hp, ?_⟩
    unfold ffEventsOf
    have : (p.1 != FILL && p.2 != FILL) = true := by simp [h1, h2]
    rw [if_pos this]
    simp only [List.mem_cons, Prod.mk.injEq, List.not_mem_nil, or_false]
    rcases hm with ⟨h3, h4⟩ | ⟨h3, h4⟩
    · exact Or.inl ⟨h3.symm, h4.symm⟩
    · exact Or.inr ⟨h3.symm, h4.symm⟩

theorem toNat_eq_ofNat {x : Int} {k : Nat} (h0 : 0 ≤ x) (h : x.toNat = k) : x = Int.ofNat k := by
  have := Int.toNat_of_nonneg h0; simp only [Int.ofNat_eq_natCast]; omega

/-- **`face_face_connectivity[f]` lists exactly the faces that share an edge with `f`**,
    for any edge-face table meeting `EdgeFaceOK`. -/
theorem faceFace_mem_ok {FE : Table} {N : List Nat} {nEdge : Nat} {EF : List (Int × Int)}
    (w : Nat) (h : EdgeFaceOK FE N nEdge EF) :
    FaceFaceMemOK FE N nEdge (faceFace FE.length w EF) := by
  obtain ⟨hlen, hrows⟩ := h
  have hL : (faceFaceLists FE.length EF).length = FE.length := by
    unfold faceFaceLists; rw [keyedFold_length]; simp
  -- every row of EF is row `e` for some `e < nEdge`
  have hp : ∀ p ∈ EF, ∃ e, e < nEdge ∧ EF.getD e (FILL, FILL) = p := by
    intro p hp
    obtain ⟨e, he, hget⟩ := List.getElem_of_mem hp
    exact ⟨e, by omega, by simp [List.getD, List.getElem?_eq_getElem he, hget]⟩
  refine ⟨by simp [faceFace, hL], ?_, ?_⟩
  · intro r hr x hx
    unfold faceFace at hr
    simp only [List.mem_map] at hr
    obtain ⟨l, hl, rfl⟩ := hr
    rcases mem_padTo _ _ _ hx with hx | hx
    · exact Or.inl hx
    · obtain ⟨f, hf, hget⟩ := List.getElem_of_mem hl
      have := faceFaceLists_get FE.length EF f (by omega)
      rw [List.getElem?_eq_getElem hf, hget] at this
      injection this with this
      rw [this, mem_feed, mem_ffEvents] at hx
      obtain ⟨p, hpm, h1, h2, hm⟩ := hx
      obtain ⟨e, he, rfl⟩ := hp p hpm
      have hent := (hrows e he).2.2.1
      rcases hm with ⟨_, h4⟩ | ⟨_, h4⟩
      · rcases hent x (by rw [← h4]; exact List.mem_cons_of_mem _ List.mem_cons_self) with h5 | h5
        · exact absurd (h4 ▸ h5) h2
        · exact Or.inr h5
      · rcases hent x (by rw [← h4]; exact List.mem_cons_self) with h5 | h5
        · exact absurd (h4 ▸ h5) h1
        · exact Or.inr h5
  · intro f hf g hg hfg
    have hrow : rowAt (faceFace FE.length w EF) f = padTo w (feed (ffEvents EF) f) := by
      unfold faceFace
      rw [rowAt_map _ _ _ (by omega), rowAt_of_get (faceFaceLists_get FE.length EF f hf)]
    rw [hrow, mem_padTo_ofNat, mem_feed, mem_ffEvents]
    unfold Shares
    constructor
    · rintro ⟨p, hpm, h1, h2, hm⟩
      obtain ⟨e, he, rfl⟩ := hp p hpm
      obtain ⟨_, _, hent, hiff⟩ := hrows e he
      refine ⟨e, List.mem_range.mpr he, ?_, ?_⟩
      · rcases hm with ⟨h3, _⟩ | ⟨h3, _⟩
        · have h0 : 0 ≤ (EF.getD e (FILL, FILL)).1 := by
            rcases hent _ List.mem_cons_self with h5 | h5
            · exact absurd h5 h1
            · exact h5.1
          exact (hiff f hf).mp (Or.inl (toNat_eq_ofNat h0 h3).symm)
        · have h0 : 0 ≤ (EF.getD e (FILL, FILL)).2 := by
            rcases hent _ (List.mem_cons_of_mem _ List.mem_cons_self) with h5 | h5
            · exact absurd h5 h2
            · exact h5.1
          exact (hiff f hf).mp (Or.inr (toNat_eq_ofNat h0 h3).symm)
      · rcases hm with ⟨_, h4⟩ | ⟨_, h4⟩
        · exact (hiff g hg).mp (Or.inr h4.symm)
        · exact (hiff g hg).mp (Or.inl h4.symm)
    · rintro ⟨e, he, hef, heg⟩
      have he' := List.mem_range.mp he
      obtain ⟨_, _, _, hiff⟩ := hrows e he'
      have hpm : EF.getD e (FILL, FILL) ∈ EF := by
        have : e < EF.length := by omega
        simp [List.getD, List.getElem?_eq_getElem this]
      have h1 := (hiff f hf).mpr hef
      have h2 := (hiff g hg).mpr heg
      have hne : Int.ofNat f ≠ Int.ofNat g := fun hh => hfg (by have := Int.ofNat.inj hh; omega)
      refine ⟨EF.getD e (FILL, FILL), hpm, ?_⟩
      rcases h1 with h1 | h1 <;> rcases h2 with h2 | h2
      · exact absurd (h1.trans h2.symm) hne
      · refine ⟨h1 ▸ ofNat_ne_fill f, h2 ▸ ofNat_ne_fill g, Or.inl ⟨?_, h2.symm⟩⟩
        rw [← h1]; simp
      · refine ⟨h2 ▸ ofNat_ne_fill g, h1 ▸ ofNat_ne_fill f, Or.inr ⟨?_, h2.symm⟩⟩
        rw [← h1]; simp
      · exact absurd (h1.trans h2.symm) hne

/-- **C03 (main theorem, membership form).**  For every input meeting `Pre`, the modelled
    builders produce mutually exact incidence tables. -/
theorem build_meets_spec_partial {n w : Nat} {t FE : Table} {N : List Nat} {nEdge : Nat}
    (h : Pre n t FE N nEdge) :
    let o := build n w t FE N nEdge
    NodeFaceOK n t o.nodeFace ∧ EdgeFaceOK FE N nEdge o.edgeFace ∧
    FaceFaceMemOK FE N nEdge o.faceFace ∧ HolesOK FE N nEdge o.holes := by
  have hef := edgeFace_ok h
  refine ⟨nodeFace_ok h, hef, ?_, holes_ok hef⟩
  have := faceFace_mem_ok w hef
  simpa [build, h.1] using this

/-! ### non-vacuity: two triangles sharing an edge, one isolated triangle -/
example : Pre 7 [[0, 1, 2], [2, 1, 3], [4, 5, 6]]
    [[0, 1, 2], [1, 3, 4], [5, 6, 7]] [3, 3, 3] 8 := by decide
example : Spec 7 [[0, 1, 2], [2, 1, 3], [4, 5, 6]] [[0, 1, 2], [1, 3, 4], [5, 6, 7]] [3, 3, 3] 8
    (build 7 3 [[0, 1, 2], [2, 1, 3], [4, 5, 6]] [[0, 1, 2], [1, 3, 4], [5, 6, 7]] [3, 3, 3] 8) := by
  decide

end UxVerif.C03

namespace UxVerif.C03
open UxVerif UxVerif.Incidence

/-! ### face_face_connectivity (count form): once per shared edge -/

theorem count_padTo_ofNat (w : Nat) (l : List Int) (k : Nat) :
    (padTo w l).count (Int.ofNat k) = l.count (Int.ofNat k) := by
  unfold padTo
  rw [List.count_append]
  have : (List.replicate (w - l.length) FILL).count (Int.ofNat k) = 0 := by
    rw [List.count_replicate]
    have := ofNat_ne_fill k
    have h2 : ¬ (FILL = (k : Int)) := fun hh => this (by simpa using hh.symm)
    simp [h2]
  omega

theorem count_feed (ev : List (Nat × Int)) (k : Nat) (x : Int) :
    (feed ev k).count x = ev.count (k, x) := by
  induction ev with
  | nil => simp [feed]
  | cons kv ev ih =>
    rw [feed_cons, List.count_cons]
    by_cases h : kv.1 = k
    · rw [if_pos h, List.count_cons, ih]
      by_cases h2 : kv.2 = x
      · have : kv = (k, x) := Prod.ext h h2
        simp [this]
      · have : ¬ kv = (k, x) := fun hh => h2 (by rw [hh])
        simp [this, h2]
    · rw [if_neg h, ih]
      have : ¬ kv = (k, x) := fun hh => h (by rw [hh])
      simp [this]

theorem count_flatMap_sum {α β : Type} [BEq β] (l : List α) (g : α → List β) (b : β) :
    (l.flatMap g).count b = (l.map (fun a => (g a).count b)).sum := by
  induction l with
  | nil => simp
  | cons a l ih => simp [List.flatMap_cons, List.count_append, ih]

theorem filter_length_sum {α : Type} (l : List α) (p : α → Bool) :
    (l.filter p).length = (l.map (fun a => if p a then 1 else 0)).sum := by
  induction l with
  | nil => simp
  | cons a l ih =>
    rw [List.filter_cons]
    by_cases h : p a = true
    · simp [h, ih]; omega
    · simp [h, ih]

theorem eq_map_getD_range {α : Type} (l : List α) (d : α) :
    l = (List.range l.length).map (fun i => l.getD i d) := by
  apply List.ext_getElem
  · simp
  · intro i h1 h2
    simp [List.getD, List.getElem?_eq_getElem h1]

/-- the contribution of one edge-face row to `count g face_face[f]` -/
theorem ffEventsOf_count {FE : Table} {N : List Nat} {nEdge : Nat} {EF : List (Int × Int)}
    (h : EdgeFaceOK FE N nEdge EF) (e : Nat) (he : e < nEdge)
    (f g : Nat) (hf : f < FE.length) (hg : g < FE.length) (hfg : f ≠ g) :
    (ffEventsOf (EF.getD e (FILL, FILL))).count (f, Int.ofNat g)
      = if (decide (Int.ofNat e ∈ faceEdgesOf FE N f) && decide (Int.ofNat e ∈ faceEdgesOf FE N g))
        then 1 else 0 := by
  obtain ⟨h1, _, hent, hiff⟩ := h.2 e he
  generalize EF.getD e (FILL, FILL) = p at h1 hent hiff
  obtain ⟨a, b⟩ := p
  simp only at h1 hent hiff
  have hA := hiff f hf
  have hB := hiff g hg
  have hne : Int.ofNat f ≠ Int.ofNat g := fun hh => hfg (by have := Int.ofNat.inj hh; omega)
  have hff := ofNat_ne_fill f
  have hgf := ofNat_ne_fill g
  have ha0 : 0 ≤ a := by
    rcases hent a List.mem_cons_self with h5 | h5
    · exact absurd h5 h1
    · exact h5.1
  unfold ffEventsOf
  by_cases hb : b = FILL
  · subst hb
    have : ((a != FILL) && (FILL != FILL)) = false := by simp
    simp only [this, Bool.false_eq_true, if_false, List.count_nil]
    have : ¬ (Int.ofNat e ∈ faceEdgesOf FE N f ∧ Int.ofNat e ∈ faceEdgesOf FE N g) := by
      rintro ⟨hA', hB'⟩
      rcases hA.mpr hA' with h5 | h5
      · rcases hB.mpr hB' with h6 | h6
        · exact hne (h5.trans h6.symm)
        · exact hgf h6
      · exact hff h5
    simp only [Bool.and_eq_true, decide_eq_true_eq]
    rw [if_neg this]
  · have hb0 : 0 ≤ b := by
      rcases hent b (List.mem_cons_of_mem _ List.mem_cons_self) with h5 | h5
      · exact absurd h5 hb
      · exact h5.1
    have : ((a != FILL) && (b != FILL)) = true := by simp [h1, hb]
    simp only [this, if_true, List.count_cons, List.count_nil, beq_iff_eq, Prod.mk.injEq,
      Bool.and_eq_true, decide_eq_true_eq]
    have ea : a.toNat = f ↔ Int.ofNat f = a := by
      constructor
      · intro h; exact (toNat_eq_ofNat ha0 h).symm
      · intro h; rw [← h]; simp
    have eb : b.toNat = f ↔ Int.ofNat f = b := by
      constructor
      · intro h; exact (toNat_eq_ofNat hb0 h).symm
      · intro h; rw [← h]; simp
    simp only [ea, eb, ← hA, ← hB]
    by_cases c1 : Int.ofNat f = a <;> by_cases c2 : Int.ofNat f = b <;>
      by_cases c3 : Int.ofNat g = a <;> by_cases c4 : Int.ofNat g = b <;>
      simp_all <;> omega

/-- **`face_face_connectivity[f]` contains each neighbour once per shared edge**, for any
    edge-face table meeting `EdgeFaceOK`. -/
theorem faceFace_count_ok {FE : Table} {N : List Nat} {nEdge : Nat} {EF : List (Int × Int)}
    (w : Nat) (h : EdgeFaceOK FE N nEdge EF) :
    FaceFaceCountOK FE N nEdge (faceFace FE.length w EF) := by
  intro f hf g hg hfg
  have hL : (faceFaceLists FE.length EF).length = FE.length := by
    unfold faceFaceLists; rw [keyedFold_length]; simp
  have hrow : rowAt (faceFace FE.length w EF) f = padTo w (feed (ffEvents EF) f) := by
    unfold faceFace
    rw [rowAt_map _ _ _ (by omega), rowAt_of_get (faceFaceLists_get FE.length EF f hf)]
  rw [hrow, count_padTo_ofNat, count_feed]
  unfold ffEvents
  rw [count_flatMap_sum, filter_length_sum]
  conv => lhs; rw [eq_map_getD_range EF (FILL, FILL)]
  rw [List.map_map, h.1]
  congr 1
  apply List.map_congr_left
  intro e he
  exact ffEventsOf_count h e (List.mem_range.mp he) f g hf hg hfg

/-- **C03 (main theorem).**  For every input meeting `Pre` — any number of faces, any size
    mix, numbering and coverage, isolated faces, nodes of any valence — the modelled builders
    satisfy the full specification. -/
theorem build_meets_spec {n w : Nat} {t FE : Table} {N : List Nat} {nEdge : Nat}
    (h : Pre n t FE N nEdge) : Spec n t FE N nEdge (build n w t FE N nEdge) := by
  have hef := edgeFace_ok h
  refine ⟨nodeFace_ok h, hef, ?_, ?_, holes_ok hef⟩
  · have := faceFace_mem_ok w hef
    simpa [build, h.1] using this
  · have := faceFace_count_ok w hef
    simpa [build, h.1] using this

/-! ### C02 → C03: the precondition is met by the edge tables C02's model derives -/

/-- **pipeline precondition**: for EVERY standard-form face table the face-edge table, corner
    counts and edge count derived by the C02 model meet `Pre`, provided the mesh is manifold
    (no edge bounds more than two face slots) — the only clause that is about the mesh and not
    about the code. -/
theorem pre_of_edges_build {n w : Nat} {t : Table} (h : Edges.StdForm n w t)
    (hman : ∀ e, e < (Edges.edges t).length →
      incidence (Edges.faceEdges t) (Edges.nNodesPerFace t) e ≤ 2) :
    Pre n t (Edges.faceEdges t) (Edges.nNodesPerFace t) (Edges.edges t).length := by
  have hlen : (Edges.faceEdges t).length = t.length := by simp [Edges.faceEdges]
  refine ⟨hlen, ?_, ?_, ?_⟩
  · intro f hf e he
    have := Pipeline.faceEdges_valid h f (by omega) e he
    exact ⟨this.1, by exact_mod_cast this.2⟩
  · intro e he
    exact ⟨Pipeline.incidence_pos h e he, hman e he⟩
  · intro f hf v hv
    have hstd := h _ (List.getElem_mem hf)
    rw [Pipeline.rowAt_eq_getElem t f hf, Pipeline.real_of_std hstd] at hv
    exact hstd.2.2.1 v hv

/-- **C02 ∘ C03 end to end**: on every manifold standard-form face table, the incidence tables
    built from the edge tables that the C02 model derives satisfy the C03 specification. -/
theorem pipeline_meets_spec {n w : Nat} {t : Table} (h : Edges.StdForm n w t)
    (hman : ∀ e, e < (Edges.edges t).length →
      incidence (Edges.faceEdges t) (Edges.nNodesPerFace t) e ≤ 2) :
    Spec n t (Edges.faceEdges t) (Edges.nNodesPerFace t) (Edges.edges t).length
      (build n w t (Edges.faceEdges t) (Edges.nNodesPerFace t) (Edges.edges t).length) :=
  build_meets_spec (pre_of_edges_build h hman)

/-- non-vacuity: two triangles sharing an edge and an isolated triangle are manifold -/
example : ∀ e, e < (Edges.edges [[0, 1, 2], [2, 1, 3], [4, 5, 6]]).length →
    incidence (Edges.faceEdges [[0, 1, 2], [2, 1, 3], [4, 5, 6]])
      (Edges.nNodesPerFace [[0, 1, 2], [2, 1, 3], [4, 5, 6]]) e ≤ 2 := by decide

/-- the specification is not trivially true: a face-face row listing a non-neighbour fails -/
example : ¬ FaceFaceMemOK [[0, 1, 2], [1, 3, 4], [5, 6, 7]] [3, 3, 3] 8
    [[1, FILL, FILL], [0, FILL, FILL], [0, FILL, FILL]] := by decide

end UxVerif.C03

namespace UxVerif.C03
open UxVerif UxVerif.Incidence

/-! ### the fast decision procedures equal the specification's own Booleans -/

theorem foldl_succ {α : Type} (l : List α) (c : Nat) : l.foldl (fun c _ => c + 1) c = c + l.length := by
  induction l generalizing c with
  | nil => simp
  | cons a l ih => simp [ih]; omega

theorem incCounts_length (FE : Table) (N : List Nat) (nEdge : Nat) :
    (incCounts FE N nEdge).length = nEdge := by
  unfold incCounts; rw [keyedFold_length]; simp

/-- one pass computes every edge's incidence -/
theorem incCounts_get (FE : Table) (N : List Nat) (nEdge e : Nat) (he : e < nEdge) :
    (incCounts FE N nEdge)[e]? = some (incidence FE N e) := by
  unfold incCounts incidence
  rw [keyedFold_get]
  simp [he]

theorem incCounts_all (FE : Table) (N : List Nat) (nEdge : Nat) (P : Nat → Prop) :
    (∀ c ∈ incCounts FE N nEdge, P c) ↔ ∀ e, e < nEdge → P (incidence FE N e) := by
  constructor
  · intro h e he
    have hg := incCounts_get FE N nEdge e he
    have hl : e < (incCounts FE N nEdge).length := by rw [incCounts_length]; exact he
    rw [List.getElem?_eq_getElem hl] at hg
    injection hg with hg
    rw [← hg]; exact h _ (List.getElem_mem hl)
  · intro h c hc
    obtain ⟨e, he, hget⟩ := List.getElem_of_mem hc
    have he' : e < nEdge := by rw [incCounts_length] at he; exact he
    have hg := incCounts_get FE N nEdge e he'
    rw [List.getElem?_eq_getElem he, hget] at hg
    injection hg with hg
    rw [hg]; exact h e he'

/-- **`preFast` decides `Pre`** (no hypothesis) -/
theorem preFast_eq (n : Nat) (t FE : Table) (N : List Nat) (nEdge : Nat) :
    preFast n t FE N nEdge = decide (Pre n t FE N nEdge) := by
  rw [Bool.eq_iff_iff, decide_eq_true_iff]
  unfold preFast Pre
  simp only [Bool.and_eq_true, decide_eq_true_eq, List.all_eq_true]
  rw [incCounts_all FE N nEdge (fun c => 1 ≤ c ∧ c ≤ 2)]
  constructor
  · rintro ⟨⟨⟨a, b⟩, c⟩, d⟩; exact ⟨a, b, c, d⟩
  · rintro ⟨a, b, c, d⟩; exact ⟨⟨⟨a, b⟩, c⟩, d⟩

theorem valid_ofNat {nFace : Nat} {x : Int} (h0 : 0 ≤ x) (h1 : x < nFace) :
    ∃ f, f < nFace ∧ x = Int.ofNat f :=
  ⟨x.toNat, by omega, by simp only [Int.ofNat_eq_natCast]; omega⟩

theorem validFace_iff (nFace : Nat) (x : Int) : validFace nFace x = true ↔ 0 ≤ x ∧ x < nFace := by
  simp [validFace]

theorem validFace_ofNat {nFace f : Nat} (h : f < nFace) : validFace nFace (Int.ofNat f) = true := by
  rw [validFace_iff]; exact ⟨Int.natCast_nonneg f, Int.ofNat_lt.mpr h⟩

/-! #### node_face -/

theorem nodeRowOK_iff (nFace : Nat) (r mr : List Int)
    (hmr : ∀ y ∈ mr, y = FILL ∨ (0 ≤ y ∧ y < nFace)) :
    nodeRowOK nFace r mr = true ↔
      (∀ x ∈ r, x = FILL ∨ (0 ≤ x ∧ x < nFace)) ∧
      ∀ f, f < nFace → (Int.ofNat f ∈ r ↔ Int.ofNat f ∈ mr) := by
  unfold nodeRowOK
  simp only [Bool.and_eq_true, List.all_eq_true, Bool.or_eq_true, beq_iff_eq, validFace_iff,
    List.contains_iff_mem]
  constructor
  · rintro ⟨h1, h2⟩
    refine ⟨fun x hx => ?_, fun f hf => ⟨fun hm => ?_, fun hm => ?_⟩⟩
    · rcases h1 x hx with h | h
      · exact Or.inl h
      · exact Or.inr h.1
    · rcases h1 _ hm with h | h
      · exact absurd h (ofNat_ne_fill f)
      · exact h.2
    · rcases h2 _ hm with h | h
      · exact absurd h (ofNat_ne_fill f)
      · exact h
  · rintro ⟨h1, h2⟩
    refine ⟨fun x hx => ?_, fun y hy => ?_⟩
    · rcases h1 x hx with h | h
      · exact Or.inl h
      · obtain ⟨f, hf, rfl⟩ := valid_ofNat h.1 h.2
        exact Or.inr ⟨h, (h2 f hf).mp hx⟩
    · rcases hmr y hy with h | h
      · exact Or.inl h
      · obtain ⟨f, hf, rfl⟩ := valid_ofNat h.1 h.2
        exact Or.inr ((h2 f hf).mpr hy)

theorem rowAt_mem {T : Table} {i : Nat} (h : i < T.length) : rowAt T i ∈ T := by
  simp [rowAt, List.getD, List.getElem?_eq_getElem h]

theorem forall_rows_iff {T : Table} {k : Nat} (hl : T.length = k) (P : List Int → Prop) :
    (∀ r ∈ T, P r) ↔ ∀ i, i < k → P (rowAt T i) := by
  constructor
  · intro h i hi; exact h _ (rowAt_mem (by omega))
  · intro h r hr
    obtain ⟨i, hi, hget⟩ := List.getElem_of_mem hr
    have := h i (by omega)
    rwa [Pipeline.rowAt_eq_getElem T i hi, hget] at this

/-- **node_face clause**: comparing with the builder's table row by row decides `NodeFaceOK` -/
theorem nodeFaceFast_eq {n : Nat} {t FE : Table} {N : List Nat} {nEdge : Nat}
    (h : Pre n t FE N nEdge) (NF : Table) :
    nodeFaceFast n t.length (nodeFace n t) NF = decide (NodeFaceOK n t NF) := by
  obtain ⟨hMlen, hMiff, hMent⟩ := nodeFace_ok h
  rw [Bool.eq_iff_iff, decide_eq_true_iff]
  unfold nodeFaceFast NodeFaceOK
  simp only [Bool.and_eq_true, beq_iff_eq, List.all_eq_true, List.mem_range]
  constructor
  · rintro ⟨hl, hrows⟩
    have hr : ∀ v, v < n → _ := fun v hv =>
      (nodeRowOK_iff t.length (rowAt NF v) (rowAt (nodeFace n t) v)
        (hMent _ (rowAt_mem (by omega)))).mp (hrows v hv)
    refine ⟨hl, fun v hv f hf => ?_, ?_⟩
    · rw [(hr v hv).2 f hf]; exact hMiff v hv f hf
    · rw [forall_rows_iff hl]; exact fun v hv => (hr v hv).1
  · rintro ⟨hl, hiff, hent⟩
    refine ⟨hl, fun v hv => ?_⟩
    rw [nodeRowOK_iff _ _ _ (hMent _ (rowAt_mem (by omega)))]
    refine ⟨(forall_rows_iff hl _).mp hent v hv, fun f hf => ?_⟩
    rw [hiff v hv f hf]; exact (hMiff v hv f hf).symm

/-! #### edge_face -/

/-- the per-edge clause of `EdgeFaceOK` -/
def EdgeRowOK (FE : Table) (N : List Nat) (e : Nat) (p : Int × Int) : Prop :=
  p.1 ≠ FILL ∧ (p.2 = FILL ↔ incidence FE N e = 1) ∧
  (∀ x ∈ [p.1, p.2], x = FILL ∨ (0 ≤ x ∧ x < FE.length)) ∧
  ∀ f, f < FE.length →
    ((Int.ofNat f = p.1 ∨ Int.ofNat f = p.2) ↔ Int.ofNat e ∈ faceEdgesOf FE N f)

theorem edgeFaceOK_iff_rows (FE : Table) (N : List Nat) (nEdge : Nat) (EF : List (Int × Int)) :
    EdgeFaceOK FE N nEdge EF ↔
      EF.length = nEdge ∧ ∀ e, e < nEdge → EdgeRowOK FE N e (EF.getD e (FILL, FILL)) := Iff.rfl

/-- given a row that meets the clause, another row meets it iff it is the same row or, for an
    interior edge, the same two faces in the other order -/
theorem pairOK_iff {FE : Table} {N : List Nat} {e : Nat} {m : Int × Int}
    (hm : EdgeRowOK FE N e m) (p : Int × Int) :
    pairOK p m = true ↔ EdgeRowOK FE N e p := by
  obtain ⟨a, b⟩ := m
  obtain ⟨p1, p2⟩ := p
  obtain ⟨ha, hb, hent, hiff⟩ := hm
  simp only at ha hb hent hiff
  have ha' : 0 ≤ a ∧ a < FE.length := by
    rcases hent a List.mem_cons_self with h | h
    · exact absurd h ha
    · exact h
  obtain ⟨fa, hfa, rfl⟩ := valid_ofNat ha'.1 ha'.2
  unfold pairOK
  simp only [Bool.or_eq_true, Bool.and_eq_true, beq_iff_eq, bne_iff_ne, ne_eq, Prod.mk.injEq]
  constructor
  · rintro (⟨rfl, rfl⟩ | ⟨hbf, rfl, rfl⟩)
    · exact ⟨ha, hb, hent, hiff⟩
    · refine ⟨hbf, ?_, ?_, ?_⟩
      · constructor
        · intro h; exact absurd h ha
        · intro h; exact absurd (hb.mpr h) hbf
      · intro x hx
        simp only [List.mem_cons, List.not_mem_nil, or_false] at hx
        rcases hx with rfl | rfl
        · exact hent _ (List.mem_cons_of_mem _ List.mem_cons_self)
        · exact hent _ List.mem_cons_self
      · intro f hf
        rw [← hiff f hf]; exact Or.comm
  · rintro ⟨hp1, hp2, hpent, hpiff⟩
    simp only at hp1 hp2 hpent hpiff
    have hp1' : 0 ≤ p1 ∧ p1 < FE.length := by
      rcases hpent p1 List.mem_cons_self with h | h
      · exact absurd h hp1
      · exact h
    obtain ⟨g1, hg1, rfl⟩ := valid_ofNat hp1'.1 hp1'.2
    -- `fa` has the edge, so it is one of `p`'s faces; `g1` has the edge, so it is `a` or `b`
    have hfaP := (hpiff fa hfa).mpr ((hiff fa hfa).mp (Or.inl rfl))
    have hg1M := (hiff g1 hg1).mpr ((hpiff g1 hg1).mp (Or.inl rfl))
    by_cases hbF : b = FILL
    · -- boundary edge: both second slots are padding
      subst hbF
      have hp2F : p2 = FILL := hp2.mpr (hb.mp rfl)
      subst hp2F
      left
      refine ⟨?_, rfl⟩
      rcases hfaP with h | h
      · exact h.symm
      · exact absurd h (ofNat_ne_fill fa)
    · have hp2F : p2 ≠ FILL := fun h => hbF (hb.mpr (hp2.mp h))
      have hb' : 0 ≤ b ∧ b < FE.length := by
        rcases hent b (List.mem_cons_of_mem _ List.mem_cons_self) with h | h
        · exact absurd h hbF
        · exact h
      obtain ⟨fb, hfb, rfl⟩ := valid_ofNat hb'.1 hb'.2
      have hp2' : 0 ≤ p2 ∧ p2 < FE.length := by
        rcases hpent p2 (List.mem_cons_of_mem _ List.mem_cons_self) with h | h
        · exact absurd h hp2F
        · exact h
      obtain ⟨g2, hg2, rfl⟩ := valid_ofNat hp2'.1 hp2'.2
      have hfbP := (hpiff fb hfb).mpr ((hiff fb hfb).mp (Or.inr rfl))
      have hg2M := (hiff g2 hg2).mpr ((hpiff g2 hg2).mp (Or.inr rfl))
      rcases hg1M with h1 | h1 <;> rcases hg2M with h2 | h2 <;>
        rcases hfaP with h3 | h3 <;> rcases hfbP with h4 | h4 <;>
        first
          | (left; exact ⟨by omega, by omega⟩)
          | (right; exact ⟨hbF, by omega, by omega⟩)

/-- **edge_face clause** -/
theorem edgeFaceFast_eq {n : Nat} {t FE : Table} {N : List Nat} {nEdge : Nat}
    (h : Pre n t FE N nEdge) (EF : List (Int × Int)) :
    edgeFaceFast nEdge (edgeFace FE N nEdge) EF = decide (EdgeFaceOK FE N nEdge EF) := by
  obtain ⟨_, hM⟩ := (edgeFaceOK_iff_rows _ _ _ _).mp (edgeFace_ok h)
  rw [Bool.eq_iff_iff, decide_eq_true_iff, edgeFaceOK_iff_rows]
  unfold edgeFaceFast
  simp only [Bool.and_eq_true, beq_iff_eq, List.all_eq_true, List.mem_range]
  constructor
  · rintro ⟨hl, hrows⟩
    exact ⟨hl, fun e he => (pairOK_iff (hM e he) _).mp (hrows e he)⟩
  · rintro ⟨hl, hrows⟩
    exact ⟨hl, fun e he => (pairOK_iff (hM e he) _).mpr (hrows e he)⟩

/-! #### hole_edge_indices -/

/-- **holes clause**: same set as the builder's list, no repetition -/
theorem holesFast_eq {FE : Table} {N : List Nat} {nEdge : Nat} {Hm : List Nat}
    (hM : HolesOK FE N nEdge Hm) (H : List Nat) :
    holesFast Hm H = decide (HolesOK FE N nEdge H) := by
  obtain ⟨_, hMlt, hMiff⟩ := hM
  rw [Bool.eq_iff_iff, decide_eq_true_iff]
  unfold holesFast HolesOK
  simp only [Bool.and_eq_true, decide_eq_true_eq, List.all_eq_true, List.contains_iff_mem]
  constructor
  · rintro ⟨⟨hnd, h1⟩, h2⟩
    refine ⟨hnd, fun e he => hMlt e (h1 e he), fun e he => ⟨fun hm => ?_, fun hi => ?_⟩⟩
    · exact (hMiff e he).mp (h1 e hm)
    · exact h2 e ((hMiff e he).mpr hi)
  · rintro ⟨hnd, hlt, hiff⟩
    refine ⟨⟨hnd, fun e he => ?_⟩, fun e he => ?_⟩
    · exact (hMiff e (hlt e he)).mpr ((hiff e (hlt e he)).mp he)
    · exact (hiff e (hMlt e he)).mpr ((hMiff e (hMlt e he)).mp he)

/-! #### face_face -/

theorem skipEntry_ofNat {nFace f g : Nat} (hg : g < nFace) (hfg : f ≠ g) :
    skipEntry nFace f (Int.ofNat g) = false := by
  unfold skipEntry
  rw [validFace_ofNat hg]
  have : (Int.ofNat g == Int.ofNat f) = false := by
    rw [beq_eq_false_iff_ne]; intro hh; exact hfg (by have := Int.ofNat.inj hh; omega)
  rw [this]; rfl

theorem skipEntry_false {nFace f : Nat} {x : Int} (h : skipEntry nFace f x = false) :
    ∃ g, g < nFace ∧ f ≠ g ∧ x = Int.ofNat g := by
  unfold skipEntry at h
  simp only [Bool.or_eq_false_iff, Bool.not_eq_false', beq_eq_false_iff_ne, ne_eq] at h
  obtain ⟨h1, h2⟩ := h
  rw [validFace_iff] at h2
  obtain ⟨g, hg, rfl⟩ := valid_ofNat h2.1 h2.2
  exact ⟨g, hg, fun hh => h1 (by rw [hh]), rfl⟩

theorem ffMemRowOK_iff (nFace f : Nat) (r mr : List Int) :
    ffMemRowOK nFace f r mr = true ↔
      ∀ g, g < nFace → f ≠ g → (Int.ofNat g ∈ r ↔ Int.ofNat g ∈ mr) := by
  unfold ffMemRowOK
  simp only [Bool.and_eq_true, List.all_eq_true, Bool.or_eq_true, List.contains_iff_mem]
  constructor
  · rintro ⟨h1, h2⟩ g hg hfg
    have hs := skipEntry_ofNat hg hfg
    constructor
    · intro hm
      rcases h1 _ hm with h | h
      · rw [hs] at h; cases h
      · exact h
    · intro hm
      rcases h2 _ hm with h | h
      · rw [hs] at h; cases h
      · exact h
  · intro h
    refine ⟨fun x hx => ?_, fun y hy => ?_⟩
    · cases hs : skipEntry nFace f x with
      | true => exact Or.inl rfl
      | false =>
        obtain ⟨g, hg, hfg, rfl⟩ := skipEntry_false hs
        exact Or.inr ((h g hg hfg).mp hx)
    · cases hs : skipEntry nFace f y with
      | true => exact Or.inl rfl
      | false =>
        obtain ⟨g, hg, hfg, rfl⟩ := skipEntry_false hs
        exact Or.inr ((h g hg hfg).mpr hy)

theorem ffCountRowOK_iff (nFace f : Nat) (r mr : List Int) :
    ffCountRowOK nFace f r mr = true ↔
      ∀ g, g < nFace → f ≠ g → r.count (Int.ofNat g) = mr.count (Int.ofNat g) := by
  unfold ffCountRowOK
  simp only [List.all_eq_true, Bool.or_eq_true, beq_iff_eq, List.mem_append]
  constructor
  · intro h g hg hfg
    by_cases hm : Int.ofNat g ∈ r ∨ Int.ofNat g ∈ mr
    · rcases h _ hm with h1 | h1
      · rw [skipEntry_ofNat hg hfg] at h1; cases h1
      · exact h1
    · have h1 : Int.ofNat g ∉ r := fun hh => hm (Or.inl hh)
      have h2 : Int.ofNat g ∉ mr := fun hh => hm (Or.inr hh)
      rw [List.count_eq_zero_of_not_mem h1, List.count_eq_zero_of_not_mem h2]
  · intro h x _
    cases hs : skipEntry nFace f x with
    | true => exact Or.inl rfl
    | false =>
      obtain ⟨g, hg, hfg, rfl⟩ := skipEntry_false hs
      exact Or.inr (h g hg hfg)

/-- **face_face, membership clause** -/
theorem faceFaceMemFast_eq {FE : Table} {N : List Nat} {nEdge : Nat} {M : Table}
    (hM : FaceFaceMemOK FE N nEdge M) (FF : Table) :
    faceFaceMemFast FE.length M FF = decide (FaceFaceMemOK FE N nEdge FF) := by
  obtain ⟨_, _, hMiff⟩ := hM
  rw [Bool.eq_iff_iff, decide_eq_true_iff]
  unfold faceFaceMemFast FaceFaceMemOK
  simp only [Bool.and_eq_true, beq_iff_eq, decide_eq_true_eq, List.all_eq_true, List.mem_range,
    ffMemRowOK_iff]
  constructor
  · rintro ⟨⟨hl, hent⟩, hrows⟩
    exact ⟨hl, hent, fun f hf g hg hfg => by rw [hrows f hf g hg hfg]; exact hMiff f hf g hg hfg⟩
  · rintro ⟨hl, hent, hiff⟩
    exact ⟨⟨hl, hent⟩, fun f hf g hg hfg => by rw [hiff f hf g hg hfg]; exact (hMiff f hf g hg hfg).symm⟩

/-- **face_face, count clause** -/
theorem faceFaceCountFast_eq {FE : Table} {N : List Nat} {nEdge : Nat} {M : Table}
    (hM : FaceFaceCountOK FE N nEdge M) (FF : Table) :
    faceFaceCountFast FE.length M FF = decide (FaceFaceCountOK FE N nEdge FF) := by
  rw [Bool.eq_iff_iff, decide_eq_true_iff]
  unfold faceFaceCountFast FaceFaceCountOK
  simp only [List.all_eq_true, List.mem_range, ffCountRowOK_iff]
  constructor
  · intro hrows f hf g hg hfg
    rw [hrows f hf g hg hfg]; exact hM f hf g hg hfg
  · intro hcnt f hf g hg hfg
    rw [hcnt f hf g hg hfg]; exact (hM f hf g hg hfg).symm

/-! #### all clauses -/

/-- **the fast procedure reports exactly the clauses the specification's own decision procedure
    reports**, for every input and every candidate output (no hypothesis: outside `Pre` it falls
    back on the specification itself) -/
theorem failingFast_eq (n : Nat) (t FE : Table) (N : List Nat) (nEdge : Nat) (o : Out) :
    failingFast n t FE N nEdge o = failing n t FE N nEdge o := by
  unfold failingFast
  split
  · rename_i hp
    rw [preFast_eq, decide_eq_true_iff] at hp
    obtain ⟨_, _, hmem, hcnt, hholes⟩ := build_meets_spec (w := 0) hp
    have e1 := nodeFaceFast_eq hp o.nodeFace
    have e2 := edgeFaceFast_eq hp o.edgeFace
    have e3 := faceFaceMemFast_eq hmem o.faceFace
    have e4 := faceFaceCountFast_eq hcnt o.faceFace
    have e5 := holesFast_eq hholes o.holes
    simp only [build] at e3 e4 e5
    simp only [failing, build, e1, e2, e3, e4, e5, decide_eq_true_eq]
  · rfl

/-- **`specFast_eq_spec`**: on every input meeting `Pre`, for EVERY candidate output, the fast
    procedure returns the Boolean of the specification -/
theorem specFast_eq_spec {n : Nat} {t FE : Table} {N : List Nat} {nEdge : Nat}
    (hp : Pre n t FE N nEdge) (o : Out) :
    specFast n t FE N nEdge o = decide (Spec n t FE N nEdge o) := by
  obtain ⟨_, _, hmem, hcnt, hholes⟩ := build_meets_spec (w := 0) hp
  have e1 := nodeFaceFast_eq hp o.nodeFace
  have e2 := edgeFaceFast_eq hp o.edgeFace
  have e3 := faceFaceMemFast_eq hmem o.faceFace
  have e4 := faceFaceCountFast_eq hcnt o.faceFace
  have e5 := holesFast_eq hholes o.holes
  simp only [build] at e3 e4 e5
  rw [Bool.eq_iff_iff, decide_eq_true_iff]
  simp only [specFast, Spec, build, e1, e2, e3, e4, e5, Bool.and_eq_true, decide_eq_true_eq]
  constructor
  · rintro ⟨⟨⟨⟨a, b⟩, c⟩, d⟩, e⟩; exact ⟨a, b, c, d, e⟩
  · rintro ⟨a, b, c, d, e⟩; exact ⟨⟨⟨⟨a, b⟩, c⟩, d⟩, e⟩

/-! non-vacuity: the procedures run on the three-triangle example; a wrong table is reported with
    the right clause names, and the general theorem instantiates -/
example : preFast 7 [[0, 1, 2], [2, 1, 3], [4, 5, 6]] [[0, 1, 2], [1, 3, 4], [5, 6, 7]] [3, 3, 3] 8 = true := by
  decide
/-- a non-manifold input (three faces on edge 0) is rejected by the one-pass count -/
example : preFast 5 [[0, 1, 2], [0, 1, 3], [0, 1, 4]] [[0, 1, 2], [0, 3, 4], [0, 5, 6]] [3, 3, 3] 7 = false := by
  decide
example : failingFast 7 [[0, 1, 2], [2, 1, 3], [4, 5, 6]] [[0, 1, 2], [1, 3, 4], [5, 6, 7]] [3, 3, 3] 8
    (build 7 3 [[0, 1, 2], [2, 1, 3], [4, 5, 6]] [[0, 1, 2], [1, 3, 4], [5, 6, 7]] [3, 3, 3] 8) = [] := by decide
/-- a permuted row, padding in front, the two faces of the interior edge swapped, holes in another
    order: all accepted (the specification leaves them free) -/
example : specFast 7 [[0, 1, 2], [2, 1, 3], [4, 5, 6]] [[0, 1, 2], [1, 3, 4], [5, 6, 7]] [3, 3, 3] 8
    { nodeFace := [[0, FILL], [1, 0], [FILL, 0, 1], [1], [2, FILL], [2, FILL], [FILL, 2]],
      edgeFace := [(0, FILL), (1, 0), (0, FILL), (1, FILL), (1, FILL), (2, FILL), (2, FILL), (2, FILL)],
      faceFace := [[FILL, 1], [0, FILL, FILL], []],
      holes := [7, 6, 5, 4, 3, 2, 0] } = true := by decide
/-- a neighbour credited to the wrong face (the flatten-and-sort test of the suite cannot see it) -/
example : failingFast 7 [[0, 1, 2], [2, 1, 3], [4, 5, 6]] [[0, 1, 2], [1, 3, 4], [5, 6, 7]] [3, 3, 3] 8
    { nodeFace := [[0, FILL], [0, 1], [0, 1], [1, FILL], [2, FILL], [2, FILL], [2, FILL]],
      edgeFace := [(0, FILL), (0, 1), (0, FILL), (1, FILL), (1, FILL), (2, FILL), (2, FILL), (2, FILL)],
      faceFace := [[1, FILL, FILL], [FILL, FILL, FILL], [0, FILL, FILL]],
      holes := [0, 2, 3, 4, 5, 6, 7] } = ["face_face_mem", "face_face_count"] := by decide
example := specFast_eq_spec (n := 7) (t := [[0, 1, 2], [2, 1, 3], [4, 5, 6]])
    (FE := [[0, 1, 2], [1, 3, 4], [5, 6, 7]]) (N := [3, 3, 3]) (nEdge := 8) (by decide)

end UxVerif.C03

namespace UxVerif.C03
open UxVerif UxVerif.Incidence

/-! ### sub-meshes: C03's precondition is inherited (incidence transport, `Lemmas/C03Transport.lean`)

  `SubMesh FE N FE' N' nEdge' idx es ren`: sub-face `i` is source face `idx[i]` (`idx` duplicate-free),
  sub-edge `k` is source edge `es[k]` (`es` duplicate-free, exactly the real edges of the selected
  faces), face-edge rows renumbered by `ren`.  Nothing is assumed about the order of `idx` / `es`. -/

section Sub
variable {FE FE' : Table} {N N' : List Nat} {nEdge' : Nat} {idx : List Nat} {es : List Int} {ren : Int → Int}

/-- **every face-slot incidence of a sub-edge comes from a distinct incidence of its source edge** -/
theorem sub_incidence_le (hS : SubMesh FE N FE' N' nEdge' idx es ren) {k : Nat} (hk : k < nEdge') :
    incidence FE' N' k ≤ incidence FE N (es[k]'(hS.es_len ▸ hk)).toNat :=
  incidence_sub_le hS hk

/-- **manifoldness (every edge in at most two face slots) is inherited by sub-meshes** -/
theorem sub_manifold {nEdge : Nat} (hS : SubMesh FE N FE' N' nEdge' idx es ren)
    (hval : ∀ f, f < FE.length → ∀ e ∈ faceEdgesOf FE N f, 0 ≤ e ∧ e < nEdge)
    (hman : ∀ e, e < nEdge → incidence FE N e ≤ 2) :
    ∀ k, k < nEdge' → incidence FE' N' k ≤ 2 :=
  manifold_sub_of_valid hS hval hman

/-- **`Pre` of a sub-mesh follows from `Pre` of its source**; only the facts about the sub-mesh's own
    face-node table remain to be supplied -/
theorem sub_pre {n n' nEdge : Nat} {t t' : Table}
    (hP : Pre n t FE N nEdge) (hS : SubMesh FE N FE' N' nEdge' idx es ren)
    (hlen : FE'.length = t'.length)
    (hnodes : ∀ f, f < t'.length → ∀ v ∈ real (rowAt t' f), 0 ≤ v ∧ v < n') :
    Pre n' t' FE' N' nEdge' :=
  pre_sub hP hS hlen hnodes

/-- **"the two faces of an edge are distinct" is inherited by sub-meshes** -/
theorem sub_distinct_faces {n nEdge : Nat} {t : Table}
    (hP : Pre n t FE N nEdge) (hS : SubMesh FE N FE' N' nEdge' idx es ren)
    (hD : ∀ p ∈ edgeFace FE N nEdge, p.1 ≠ p.2) :
    ∀ p ∈ edgeFace FE' N' nEdge', p.1 ≠ p.2 :=
  distinctFaces_sub hP hS hD

/-- an edge gets the same face in both slots iff that face lists the edge twice -/
theorem distinct_faces_iff_rows_nodup {n nEdge : Nat} {t : Table} (hP : Pre n t FE N nEdge) :
    (∀ p ∈ edgeFace FE N nEdge, p.1 ≠ p.2) ↔ (∀ f, f < FE.length → (faceEdgesOf FE N f).Nodup) :=
  distinctFaces_iff_rows_nodup hP

/-- **C03 on every sub-mesh of a mesh meeting `Pre`**: the incidence tables built on the sub-mesh's own
    tables satisfy the specification — no precondition on the subset is left to be checked at run time -/
theorem sub_meets_spec {n n' nEdge : Nat} {t t' : Table} (w : Nat)
    (hP : Pre n t FE N nEdge) (hS : SubMesh FE N FE' N' nEdge' idx es ren)
    (hlen : FE'.length = t'.length)
    (hnodes : ∀ f, f < t'.length → ∀ v ∈ real (rowAt t' f), 0 ≤ v ∧ v < n') :
    Spec n' t' FE' N' nEdge' (build n' w t' FE' N' nEdge') :=
  build_meets_spec (pre_sub hP hS hlen hnodes)

end Sub

/-- non-vacuity: faces 2 and 0 (in that order) of the three-triangle example; the hypotheses are
    satisfiable and the conclusion is the specification of the sub-mesh's tables -/
example : Spec 6 [[3, 4, 5], [0, 1, 2]] [[3, 4, 5], [0, 1, 2]] [3, 3] 6
    (build 6 3 [[3, 4, 5], [0, 1, 2]] [[3, 4, 5], [0, 1, 2]] [3, 3] 6) := by
  let ren : Int → Int := fun x => if x = 0 then 0 else if x = 1 then 1 else if x = 2 then 2
    else if x = 5 then 3 else if x = 6 then 4 else if x = 7 then 5 else FILL
  have hS : SubMesh [[0, 1, 2], [1, 3, 4], [5, 6, 7]] [3, 3, 3] [[3, 4, 5], [0, 1, 2]] [3, 3] 6 [2, 0]
      [0, 1, 2, 5, 6, 7] ren :=
    { faces := by decide, idx_nodup := by decide, idx_lt := by decide, es_len := by decide,
      es_nodup := by decide, rows := by decide, ren_es := by decide, covered := by decide,
      used := by decide }
  exact sub_meets_spec (n := 7) (t := [[0, 1, 2], [2, 1, 3], [4, 5, 6]]) (nEdge := 8) 3 (by decide) hS
    (by decide) (by decide)

end UxVerif.C03

namespace UxVerif.C03
open UxVerif UxVerif.Incidence UxVerif.Incidence.Transport

/-! ### the tables are rectangular: `np.pad` is never asked for a negative width -/

theorem le_maxLen_aux (L : List (List Int)) (m : Nat) :
    m ≤ L.foldl (fun m l => max m l.length) m ∧
    ∀ l ∈ L, l.length ≤ L.foldl (fun m l => max m l.length) m := by
  induction L generalizing m with
  | nil => simp
  | cons a L ih =>
    simp only [List.foldl_cons, List.mem_cons, forall_eq_or_imp]
    have h1 := (ih (max m a.length)).1
    refine ⟨by omega, by omega, (ih _).2⟩

theorem le_maxLen {L : List (List Int)} {l : List Int} (h : l ∈ L) : l.length ≤ maxLen L :=
  (le_maxLen_aux L 0).2 l h

theorem maxLen_attained_aux (L : List (List Int)) (m : Nat) :
    L.foldl (fun m l => max m l.length) m = m ∨
    ∃ l ∈ L, l.length = L.foldl (fun m l => max m l.length) m := by
  induction L generalizing m with
  | nil => simp
  | cons a L ih =>
    simp only [List.foldl_cons, List.mem_cons, exists_eq_or_imp]
    rcases ih (max m a.length) with h | ⟨l, hl, h⟩
    · rw [h]
      by_cases hc : a.length ≤ m
      · left; omega
      · right; left; omega
    · right; right; exact ⟨l, hl, h⟩

theorem length_padTo {w : Nat} {l : List Int} (h : l.length ≤ w) : (padTo w l).length = w := by
  unfold padTo; simp; omega

/-- **`node_face_connectivity` is rectangular**: every row has length `maxLen` (= `n_max_node_faces`) -/
theorem nodeFace_rectangular (n : Nat) (t : Table) :
    ∀ r ∈ nodeFace n t, r.length = maxLen (nodeFaceLists n t) := by
  intro r hr
  unfold nodeFace at hr
  simp only [List.mem_map] at hr
  obtain ⟨l, hl, rfl⟩ := hr
  exact length_padTo (le_maxLen hl)

/-- … and that width is the largest number of faces any node lies in: some row has no padding -/
theorem nodeFace_width_is_max_valence (n : Nat) (t : Table) (h : 0 < maxLen (nodeFaceLists n t)) :
    ∃ v, v < n ∧ (feed (nfEvents t) v).length = maxLen (nodeFaceLists n t) := by
  rcases maxLen_attained_aux (nodeFaceLists n t) 0 with h0 | ⟨l, hl, hlen⟩
  · unfold maxLen at h; omega
  · obtain ⟨v, hv, hget⟩ := List.getElem_of_mem hl
    have hn : (nodeFaceLists n t).length = n := by
      unfold nodeFaceLists; rw [keyedFold_length]; simp
    have hv' : v < n := by omega
    have := nodeFaceLists_get n t v hv'
    rw [List.getElem?_eq_getElem hv, hget] at this
    injection this with this
    exact ⟨v, hv', by rw [← this]; exact hlen⟩

/-! `face_face_connectivity`: a face has at most as many neighbour entries as real edge slots -/

theorem sum_map_add (l : List Nat) (a b : Nat → Nat) :
    (l.map (fun e => a e + b e)).sum = (l.map a).sum + (l.map b).sum := by
  induction l with
  | nil => simp
  | cons x l ih => simp only [List.map_cons, List.sum_cons, ih]; omega

theorem sum_indicator_le_one (k c : Nat) :
    ((List.range k).map (fun e => if c = e then 1 else 0)).sum ≤ 1 := by
  induction k with
  | zero => simp
  | succ k ih =>
    rw [List.range_succ, List.map_append, List.sum_append]
    simp only [List.map_cons, List.map_nil, List.sum_cons, List.sum_nil]
    by_cases h : c = k
    · subst h
      have : ((List.range c).map (fun e => if c = e then 1 else 0)).sum = 0 := by
        apply List.sum_eq_zero
        intro x hx
        simp only [List.mem_map, List.mem_range] at hx
        obtain ⟨e, he, rfl⟩ := hx
        have : ¬ c = e := by omega
        simp [this]
      simp [this]
    · simp [h]; exact ih

/-- slots holding an edge number `< k`, summed over the edge numbers, are at most all slots -/
theorem sum_countP_le_length (r : List Int) (k : Nat) :
    ((List.range k).map (fun e => r.countP (fun y => y.toNat == e))).sum ≤ r.length := by
  induction r with
  | nil => simp
  | cons y r ih =>
    have : (fun e => (y :: r).countP (fun y => y.toNat == e))
        = (fun e => r.countP (fun y => y.toNat == e) + (if y.toNat = e then 1 else 0)) := by
      funext e
      rw [List.countP_cons]
      simp
    rw [this, sum_map_add]
    have := sum_indicator_le_one k y.toNat
    simp only [List.length_cons]
    omega

theorem feed_flatMap_length {α : Type} (L : List α) (g : α → List (Nat × Int)) (k : Nat) :
    (feed (L.flatMap g) k).length = (L.map (fun a => (feed (g a) k).length)).sum := by
  induction L with
  | nil => simp [feed]
  | cons a L ih => rw [List.flatMap_cons, feed_append, List.length_append, ih]; simp

/-- one edge contributes to `face_face[f]` at most as often as `f` holds that edge -/
theorem ffEventsOf_feed_le {n : Nat} {t FE : Table} {N : List Nat} {nEdge : Nat}
    (h : Pre n t FE N nEdge) (e : Nat) (he : e < nEdge) (f : Nat) :
    (feed (ffEventsOf ((edgeFace FE N nEdge).getD e (FILL, FILL))) f).length
      ≤ (feed (efEvents FE N) e).count (Int.ofNat f) := by
  rw [edgeFace_get FE N nEdge e he]
  have hinc := h.2.2.1 e he
  have hfeed := mem_feed_ef h e
  unfold incidence at hinc
  generalize feed (efEvents FE N) e = l at hinc hfeed
  match l, hinc with
  | [a], _ =>
    rw [slot_one]
    simp [ffEventsOf, feed]
  | [a, b], _ =>
    obtain ⟨fa, _, rfl, _⟩ := (hfeed a).mp (by simp)
    obtain ⟨fb, _, rfl, _⟩ := (hfeed b).mp (by simp)
    rw [slot_two _ _ (ofNat_ne_fill fa)]
    have h1 : (Int.ofNat fa != FILL && Int.ofNat fb != FILL) = true := by
      rw [Bool.and_eq_true, bne_iff_ne, bne_iff_ne]
      exact ⟨ofNat_ne_fill fa, ofNat_ne_fill fb⟩
    unfold ffEventsOf
    simp only [h1, if_true]
    rw [feed_cons, feed_cons]
    simp only [Int.toNat_natCast, Int.ofNat_eq_natCast, List.count_cons, List.count_nil]
    by_cases c1 : fa = f <;> by_cases c2 : fb = f <;> simp [c1, c2, feed]
  | [], h0 => simp at h0
  | _ :: _ :: _ :: _, h3 => simp at h3

/-- **a face has at most as many neighbour entries as it has real edge slots** -/
theorem faceFace_row_le {n : Nat} {t FE : Table} {N : List Nat} {nEdge : Nat}
    (h : Pre n t FE N nEdge) (f : Nat) (hf : f < FE.length) :
    (feed (ffEvents (edgeFace FE N nEdge)) f).length ≤ (faceEdgesOf FE N f).length := by
  unfold ffEvents
  conv => lhs; rw [eq_map_getD_range (edgeFace FE N nEdge) (FILL, FILL)]
  rw [List.flatMap_map, feed_flatMap_length, edgeFace_length]
  refine Nat.le_trans (sum_map_le_sum_map _
      (fun e => (faceEdgesOf FE N f).countP (fun y => y.toNat == e)) ?_)
    (sum_countP_le_length _ nEdge)
  intro e he
  have := ffEventsOf_feed_le h e (List.mem_range.mp he) f
  rwa [count_feed_face, if_pos hf] at this

/-- **`face_face_connectivity` is rectangular of width `w = n_max_face_edges`** whenever no face has more
    than `w` real edges (it has `N[f] ≤ w` slots by construction of `face_edge_connectivity`): the width handed
    to `np.pad` is never negative, the builder's error branch is unreachable on the property's domain -/
theorem faceFace_rectangular {n w : Nat} {t FE : Table} {N : List Nat} {nEdge : Nat}
    (h : Pre n t FE N nEdge) (hw : ∀ f, f < FE.length → N.getD f 0 ≤ w) :
    ∀ r ∈ faceFace FE.length w (edgeFace FE N nEdge), r.length = w := by
  intro r hr
  unfold faceFace at hr
  simp only [List.mem_map] at hr
  obtain ⟨l, hl, rfl⟩ := hr
  apply length_padTo
  obtain ⟨f, hf, hget⟩ := List.getElem_of_mem hl
  have hL : (faceFaceLists FE.length (edgeFace FE N nEdge)).length = FE.length := by
    unfold faceFaceLists; rw [keyedFold_length]; simp
  have hf' : f < FE.length := by omega
  have := faceFaceLists_get FE.length (edgeFace FE N nEdge) f hf'
  rw [List.getElem?_eq_getElem hf, hget] at this
  injection this with this
  rw [this]
  have h1 := faceFace_row_le h f hf'
  have h2 : (faceEdgesOf FE N f).length ≤ N.getD f 0 := by
    unfold faceEdgesOf; rw [List.length_take]; omega
  have := hw f hf'
  omega

/-- non-vacuity, and the bound is attained: the middle quad of a strip has two neighbours and four slots;
    a triangle glued to three others has three neighbours in three slots (no padding) -/
example : ∀ r ∈ faceFace 3 3 (edgeFace [[0, 1, 2], [1, 3, 4], [5, 6, 7]] [3, 3, 3] 8), r.length = 3 :=
  faceFace_rectangular (n := 7) (w := 3) (t := [[0, 1, 2], [2, 1, 3], [4, 5, 6]])
    (FE := [[0, 1, 2], [1, 3, 4], [5, 6, 7]]) (N := [3, 3, 3]) (nEdge := 8) (by decide) (by decide)
example : faceFace 4 3 (edgeFace [[0, 1, 2], [0, 3, 4], [1, 5, 6], [2, 7, 8]] [3, 3, 3, 3] 9)
    = [[1, 2, 3], [0, FILL, FILL], [0, FILL, FILL], [0, FILL, FILL]] := by decide
/-- outside the hypothesis the model's row is longer than `w` (where NumPy raises): width 2 for triangles -/
example : (faceFace 4 2 (edgeFace [[0, 1, 2], [0, 3, 4], [1, 5, 6], [2, 7, 8]] [3, 3, 3, 3] 9)).map List.length
    = [3, 2, 2, 2] := by decide

end UxVerif.C03

namespace UxVerif.C03
open UxVerif UxVerif.Incidence UxVerif.Incidence.Transport

/-! ### the ORDER inside the rows the builders produce (what "identical to the model" means)

  The specification leaves the order inside a row free; the loops, however, are deterministic: faces are
  visited in ascending order and edges in ascending order, so node_face rows list faces ascending, an
  interior edge lists its lower-numbered face first, hole edges are ascending, and face_face rows list
  neighbours by ascending number of the shared edge — padding always last. -/

theorem feed_flatMap {α V : Type} (L : List α) (g : α → List (Nat × V)) (k : Nat) :
    feed (L.flatMap g) k = L.flatMap (fun a => feed (g a) k) := by
  induction L with
  | nil => simp [feed]
  | cons a L ih => rw [List.flatMap_cons, feed_append, ih, List.flatMap_cons]

/-- values fed by a loop over faces in ascending order are ascending -/
theorem feed_faces_ascending (F : Nat) (rows : Nat → List Int) (k : Nat) :
    (feed ((List.range F).flatMap (fun f => (rows f).map (fun y => (y.toNat, Int.ofNat f)))) k).Pairwise
      (· ≤ ·) := by
  rw [feed_flatMap, List.pairwise_flatMap]
  constructor
  · intro f _
    rw [feed_row]
    exact List.pairwise_replicate.mpr (Or.inr (Int.le_refl _))
  · refine List.Pairwise.imp ?_ List.pairwise_lt_range
    intro a b hab x hx y hy
    rw [feed_row] at hx hy
    have := (List.mem_replicate.mp hx).2
    have := (List.mem_replicate.mp hy).2
    subst_vars
    simp only [Int.ofNat_eq_natCast]; omega

/-- **node_face rows**: the faces of a node in ascending order, then only padding -/
theorem nodeFace_row_ascending (n : Nat) (t : Table) (v : Nat) (hv : v < n) :
    rowAt (nodeFace n t) v = padTo (maxLen (nodeFaceLists n t)) (feed (nfEvents t) v) ∧
    (feed (nfEvents t) v).Pairwise (· ≤ ·) := by
  have hlen : (nodeFaceLists n t).length = n := by
    unfold nodeFaceLists; rw [keyedFold_length]; simp
  refine ⟨?_, feed_faces_ascending t.length (fun f => real (rowAt t f)) v⟩
  unfold nodeFace
  simp only []
  rw [rowAt_map _ _ _ (by omega), rowAt_of_get (nodeFaceLists_get n t v hv)]

/-- **edge_face rows**: an interior edge lists its lower-numbered face first (a boundary edge: face, padding) -/
theorem edgeFace_row_ordered {n : Nat} {t FE : Table} {N : List Nat} {nEdge : Nat}
    (h : Pre n t FE N nEdge) (e : Nat) (he : e < nEdge) :
    let p := (edgeFace FE N nEdge).getD e (FILL, FILL)
    p.2 = FILL ∨ p.1 ≤ p.2 := by
  simp only []
  rw [edgeFace_get FE N nEdge e he]
  have hinc := h.2.2.1 e he
  have hfeed := mem_feed_ef h e
  have hs := feed_faces_ascending FE.length (faceEdgesOf FE N) e
  change (feed (efEvents FE N) e).Pairwise (· ≤ ·) at hs
  unfold incidence at hinc
  generalize feed (efEvents FE N) e = l at hinc hfeed hs
  match l, hinc with
  | [a], _ => left; rw [slot_one]
  | [a, b], _ =>
    obtain ⟨fa, _, rfl, _⟩ := (hfeed a).mp (by simp)
    rw [slot_two _ _ (ofNat_ne_fill fa)]
    right
    exact (List.pairwise_cons.mp hs).1 b (by simp)
  | [], h0 => simp at h0
  | _ :: _ :: _ :: _, h3 => simp at h3

/-- **hole_edge_indices** are ascending (`np.where`) -/
theorem holes_ascending (EF : List (Int × Int)) : (holeEdges EF).Pairwise (· < ·) := by
  unfold holeEdges; exact List.Pairwise.filter _ List.pairwise_lt_range

/-- **face_face rows**: the neighbours across the face's interior edges by ascending edge number, then only
    padding (closed form of the row) -/
theorem faceFace_row_by_edge (nFace w : Nat) (EF : List (Int × Int)) (f : Nat) (hf : f < nFace) :
    rowAt (faceFace nFace w EF) f
      = padTo w ((List.range EF.length).flatMap (fun e => feed (ffEventsOf (EF.getD e (FILL, FILL))) f)) := by
  have hL : (faceFaceLists nFace EF).length = nFace := by
    unfold faceFaceLists; rw [keyedFold_length]; simp
  unfold faceFace
  rw [rowAt_map _ _ _ (by omega), rowAt_of_get (faceFaceLists_get nFace EF f hf)]
  congr 1
  unfold ffEvents
  conv => lhs; rw [eq_map_getD_range EF (FILL, FILL)]
  rw [List.flatMap_map, feed_flatMap]

/-- the order on the three-triangle example, and on a fan where the order is visible: face 0 of the fan
    meets face 3 across edge 0 and face 1 across edge 1, so its row reads `[3, 1]`, not `[1, 3]` -/
example : (build 5 3 [[0, 1, 2], [0, 2, 3], [0, 3, 4], [0, 4, 1]]
      [[0, 2, 1], [1, 4, 3], [3, 6, 5], [5, 7, 0]] [3, 3, 3, 3] 8).faceFace
    = [[3, 1, FILL], [0, 2, FILL], [1, 3, FILL], [0, 2, FILL]] := by decide
example := edgeFace_row_ordered (n := 7) (t := [[0, 1, 2], [2, 1, 3], [4, 5, 6]])
    (FE := [[0, 1, 2], [1, 3, 4], [5, 6, 7]]) (N := [3, 3, 3]) (nEdge := 8) (by decide) 1 (by decide)

end UxVerif.C03

namespace UxVerif.C03
open UxVerif UxVerif.Incidence

/-- **remark: the Euler count does not determine the holes.**  A closed tetrahedron (V, E, F = 4, 6, 4) and two
    isolated triangles (6, 6, 2) both have V − E + F = 2 (in general V − E + F = 2·components − boundary loops), and
    both meet `Pre`; the first has no hole edge, in the second EVERY edge is one.  Hole edges are the
    single-incidence edges (`holes_ok`), whatever the counts say. -/
theorem euler_count_does_not_determine_holes :
    ((4 : Int) - 6 + 4 = 2 ∧ (6 : Int) - 6 + 2 = 2) ∧
    Pre 4 [[0, 1, 2], [0, 3, 1], [1, 3, 2], [2, 3, 0]] [[0, 1, 2], [3, 4, 0], [4, 5, 1], [5, 3, 2]] [3, 3, 3, 3] 6 ∧
    Pre 6 [[0, 1, 2], [3, 4, 5]] [[0, 1, 2], [3, 4, 5]] [3, 3] 6 ∧
    holeEdges (edgeFace [[0, 1, 2], [3, 4, 0], [4, 5, 1], [5, 3, 2]] [3, 3, 3, 3] 6) = [] ∧
    holeEdges (edgeFace [[0, 1, 2], [3, 4, 5]] [3, 3] 6) = [0, 1, 2, 3, 4, 5] := by decide

end UxVerif.C03
