/-
  C09 extension module (see harness/common.top_module): theorems that combine C09 with other properties' Props.
  Audited with C09's obligations. Part 1: C02 → C09 wiring.

  `Props/C09.lean` takes `DistinctFaces B.EF` and `DistinctFaces (B.slice idx).EF` ("no edge lists the
  same face twice") as hypotheses of `efdTransport_of_pre` / `efd_history_independent_of_pre`.
  C02's `edge_faces_distinct` proves that fact for every edge table meeting `Edges.Spec` on a
  standard-form table of SIMPLE faces (pairwise distinct corners, at least three).  Here the two
  hypotheses are discharged from C09's own precondition `Slice.Pre` plus `SimpleFaces B.t`:
  simplicity is inherited by the subset (the node renumbering is injective on the kept nodes).
-/
import UxVerif.Props.C09

namespace UxVerif.C09
open UxVerif UxVerif.Slice UxVerif.Edges

/-- the subset of a table of simple faces consists of simple faces -/
theorem slice_simple {n w : Nat} {s : Src} {idx : List Nat} (h : Pre n w s idx)
    (hs : SimpleFaces s.t) : SimpleFaces (sliceFaces s idx).t := by
  intro r' hr'
  obtain ⟨f, hf, rfl⟩ := mem_sub_t hr'
  have hrow : rowAt s.t f ∈ s.t := rowAt_mem (h.2.2.1 f hf)
  obtain ⟨hnd, h3⟩ := hs _ hrow
  unfold SimpleRow
  rw [faceOf_map (remapN_fill s idx)]
  refine ⟨?_, by simpa using h3⟩
  unfold List.Nodup
  rw [List.pairwise_map]
  refine List.Pairwise.imp_of_mem ?_ hnd
  intro a b ha hb hab heq
  exact hab (remap_inj (row_in_nodeSel (s := s) hf a (mem_faceOf_mem _ a ha))
    (row_in_nodeSel (s := s) hf b (mem_faceOf_mem _ b hb)) heq)

/-- `DistinctFaces` for the source: from C02's specification and simple faces -/
theorem distinctFaces_of_simple {n w : Nat} (B : Base) (idx : List Nat)
    (h : Pre n w { t := B.t, EN := B.EN, FE := B.FE } idx) (hs : SimpleFaces B.t) :
    DistinctFaces B.EF :=
  C02.edge_faces_distinct h.1 hs ⟨B.EN, B.FE, nNodesPerFace B.t⟩ h.2.1

/-- `DistinctFaces` for the subset: its tables meet C02's specification (`slice_functional`) on a
    standard-form table (`slice_std`) of simple faces (`slice_simple`) -/
theorem distinctFaces_slice_of_simple {n w : Nat} (B : Base) (idx : List Nat)
    (h : Pre n w { t := B.t, EN := B.EN, FE := B.FE } idx) (hs : SimpleFaces B.t) :
    DistinctFaces (B.slice idx).EF :=
  C02.edge_faces_distinct (slice_std h) (slice_simple h hs)
    ⟨(sliceFaces { t := B.t, EN := B.EN, FE := B.FE } idx).EN,
     (sliceFaces { t := B.t, EN := B.EN, FE := B.FE } idx).FE,
     nNodesPerFace (sliceFaces { t := B.t, EN := B.EN, FE := B.FE } idx).t⟩
    (slice_functional h)

/-- **`efd_history_independent_of_pre` without the two `DistinctFaces` hypotheses**: they follow
    from the precondition and from the faces being simple -/
theorem efd_history_independent_of_simple {n n' w : Nat} {B : Base} {g : State} (hc : Coh B g)
    (he : EfdOK B g) {idx : List Nat} (h : Pre n w { t := B.t, EN := B.EN, FE := B.FE } idx)
    (hP : Incidence.Pre n B.t B.FE B.N B.EN.length)
    (hP' : Incidence.Pre n' (B.slice idx).t (B.slice idx).FE (B.slice idx).N (B.slice idx).EN.length)
    (hs : SimpleFaces B.t) (hist order : List Var) :
    ((runHist g hist).bind (fun g => g.slice idx)).bind (fun u => u.viewEFD order)
      = some (B.slice idx).EFD :=
  efd_history_independent_of_pre hc he h hP hP' (distinctFaces_of_simple B idx h hs)
    (distinctFaces_slice_of_simple B idx h hs) hist order

/-! Part 2: C03 → C09 wiring (incidence transport `Lemmas/C03Transport.lean`): `Incidence.Pre` and `DistinctFaces`
    of the subset are THEOREMS, so the `efd` history theorems need no hypothesis about the subset. -/

section Wire
variable {n w : Nat} {s : Src} {idx : List Nat}

theorem nPerFace_getD_src (h : Pre n w s idx) {f : Nat} (hf : f < s.t.length) :
    (nNodesPerFace s.t).getD f 0 = (faceOf (rowAt s.t f)).length := by
  have hN : nNodesPerFace s.t = s.t.map (fun r => (faceOf r).length) := h.2.1.2.2.2.2
  rw [hN]
  simp [rowAt, List.getD, List.getElem?_eq_getElem hf]

/-- a real edge of a source face sits in a slot below the corner count and is a valid edge number -/
theorem real_edge_slot (h : Pre n w s idx) {f : Nat} (hf : f < s.t.length) {x : Int}
    (hx : x ∈ Incidence.faceEdgesOf s.FE (nNodesPerFace s.t) f) :
    x ∈ rowAt s.FE f ∧ x ≠ FILL := by
  unfold Incidence.faceEdgesOf at hx
  rw [nPerFace_getD_src h hf] at hx
  refine ⟨(List.take_sublist _ _).subset hx, ?_⟩
  obtain ⟨j, hj, rfl⟩ := List.getElem_of_mem hx
  rw [List.length_take] at hj
  obtain ⟨_, hrow⟩ := h.2.1.2.2.2.1
  dsimp only at hrow
  obtain ⟨hlen, hslots⟩ := hrow f hf
  have hjw : j < w := by omega
  have := hslots j hjw
  rw [if_pos (by omega)] at this
  obtain ⟨_, _, e0, he0, _⟩ := this
  have hent : entry (rowAt s.FE f) j = ((rowAt s.FE f).take (faceOf (rowAt s.t f)).length)[j]'(by
      rw [List.length_take]; omega) := by
    unfold entry; rw [getD_lt FILL (by omega), List.getElem_take]
  rw [← hent]
  intro hF
  rw [hF] at he0
  exact absurd (getI?_some he0).1 (by decide)

theorem subMesh_slice (h : Pre n w s idx) :
    Incidence.SubMesh s.FE (nNodesPerFace s.t) (sliceFaces s idx).FE (nNodesPerFace (sliceFaces s idx).t)
      (sliceFaces s idx).EN.length idx (edgeSel s idx) (remap (edgeSel s idx)) where
  faces := by simp [sliceFaces]
  idx_nodup := h.2.2.2
  idx_lt := by
    intro f hf
    have hlenFE : s.FE.length = s.t.length := h.2.1.2.2.2.1.1
    rw [hlenFE]; exact h.2.2.1 f hf
  es_len := by simp [sliceFaces]
  es_nodup := nodup_sel _
  rows := fun i hi => faceEdgesOf_sub h hi
  ren_es := by
    intro k hk
    have hek : (edgeSel s idx)[k] ∈ edgeSel s idx := List.getElem_mem hk
    rw [remap_of_ne (mem_sel.mp hek).2, idxOf_getElem_nodupI (l := edgeSel s idx) (nodup_sel _) hk]
  covered := by
    intro f hf x hx
    obtain ⟨hrow, hne⟩ := real_edge_slot h (h.2.2.1 f hf) hx
    exact mem_sel.mpr ⟨mem_gather.mpr ⟨f, hf, hrow⟩, hne⟩
  used := by
    intro e he
    obtain ⟨f, hf, j, hjw, hjk, hent, _⟩ := edge_slot h he
    refine ⟨f, hf, ?_⟩
    have hft := h.2.2.1 f hf
    unfold Incidence.faceEdgesOf
    rw [nPerFace_getD_src h hft]
    obtain ⟨_, hrow⟩ := h.2.1.2.2.2.1
    dsimp only at hrow
    obtain ⟨hlen, _⟩ := hrow f hft
    have hjl : j < (rowAt s.FE f).length := by omega
    have : e = ((rowAt s.FE f).take (faceOf (rowAt s.t f)).length)[j]'(by
        rw [List.length_take]; omega) := by
      rw [List.getElem_take, ← hent]; unfold entry; rw [getD_lt FILL hjl]
    rw [this]; exact List.getElem_mem _

end Wire

/-- **`Incidence.Pre` of the subset is a theorem** (C03 incidence transport + `slice_std`) -/
theorem pre_slice {n w : Nat} (B : Base) (idx : List Nat)
    (h : Pre n w { t := B.t, EN := B.EN, FE := B.FE } idx)
    (hP : Incidence.Pre n B.t B.FE B.N B.EN.length) :
    Incidence.Pre (sliceFaces { t := B.t, EN := B.EN, FE := B.FE } idx).nodeIdx.length
      (B.slice idx).t (B.slice idx).FE (B.slice idx).N (B.slice idx).EN.length := by
  have hS := subMesh_slice h
  refine Incidence.pre_sub hP hS (by simp [Base.slice, sliceFaces]) ?_
  intro f hf v hv
  have hstd := slice_std h
  have hr : rowAt (B.slice idx).t f ∈ (B.slice idx).t := rowAt_mem hf
  have hrow := hstd _ hr
  rw [Pipeline.real_of_std hrow] at hv
  exact hrow.2.2.1 v hv

/-- `efdTransport_of_pre` without `hP'` and `hD'` -/
theorem efdTransport_of_pre' {n w : Nat} (B : Base) (idx : List Nat)
    (h : Pre n w { t := B.t, EN := B.EN, FE := B.FE } idx)
    (hP : Incidence.Pre n B.t B.FE B.N B.EN.length)
    (hD : DistinctFaces B.EF) : EFDTransport B idx :=
  efdTransport_of_pre B idx h hP (pre_slice B idx h hP) hD
    (Incidence.distinctFaces_sub hP (subMesh_slice h) hD)

/-- `efd_history_independent_of_pre` without `hP'` and `hD'` -/
theorem efd_history_independent_of_pre' {n w : Nat} {B : Base} {g : State} (hc : Coh B g) (he : EfdOK B g)
    {idx : List Nat} (h : Pre n w { t := B.t, EN := B.EN, FE := B.FE } idx)
    (hP : Incidence.Pre n B.t B.FE B.N B.EN.length)
    (hD : DistinctFaces B.EF) (hist order : List Var) :
    ((runHist g hist).bind (fun g => g.slice idx)).bind (fun u => u.viewEFD order)
      = some (B.slice idx).EFD :=
  efd_history_independent hc he h.2.2.1 (efdTransport_of_pre' B idx h hP hD) hist order

/-- `subset_incidence` without its run-time hypothesis -/
theorem subset_incidence' {n w : Nat} (B : Base) (idx : List Nat)
    (h : Pre n w { t := B.t, EN := B.EN, FE := B.FE } idx)
    (hP : Incidence.Pre n B.t B.FE B.N B.EN.length) :
    Incidence.Spec (sliceFaces { t := B.t, EN := B.EN, FE := B.FE } idx).nodeIdx.length
      (B.slice idx).t (B.slice idx).FE (B.slice idx).N (B.slice idx).EN.length
      (Incidence.build (sliceFaces { t := B.t, EN := B.EN, FE := B.FE } idx).nodeIdx.length (B.slice idx).w
        (B.slice idx).t (B.slice idx).FE (B.slice idx).N (B.slice idx).EN.length) :=
  C03.build_meets_spec (pre_slice B idx h hP)

/-- C09x's `efd_history_independent_of_simple` without `hP'`: the only hypotheses left are about the SOURCE
    (C09's `Pre`, C03's `Pre`, simple faces) -/
theorem efd_history_independent_of_simple_src {n w : Nat} {B : Base} {g : State} (hc : Coh B g)
    (he : EfdOK B g) {idx : List Nat} (h : Pre n w { t := B.t, EN := B.EN, FE := B.FE } idx)
    (hP : Incidence.Pre n B.t B.FE B.N B.EN.length)
    (hs : SimpleFaces B.t) (hist order : List Var) :
    ((runHist g hist).bind (fun g => g.slice idx)).bind (fun u => u.viewEFD order)
      = some (B.slice idx).EFD :=
  efd_history_independent_of_simple hc he h hP (pre_slice B idx h hP) hs hist order

end UxVerif.C09
