/-
  C09 extension module (see harness/common.top_module): theorems that combine C09 with other properties' Props.
  Audited with C09's obligations. Part 1: C02 → C09 wiring.

  `Props/C09.lean` takes `DistinctFaces B.EF` and `DistinctFaces (B.slice idx).EF` ("no edge lists the
  same face twice") as hypotheses of `efdTransport_of_pre` / `efd_history_independent_of_pre`.
  C02's `edge_faces_distinct` proves that fact for every edge table meeting `Edges.Spec` on a
  standard-form table of SIMPLE faces (pairwise distinct corners, at least three).  Here the two
  hypotheses are discharged from C09's own precondition `Slice.Pre` plus `SimpleFaces B.t`:
  simplicity is inherited by the subset (the node renumbering is injective on the kept nodes).
-/
import UxVerif.Props.C09

namespace UxVerif.C09
open UxVerif UxVerif.Slice UxVerif.Edges

/-- the subset of a table of simple faces consists of simple faces -/
theorem slice_simple {n w : Nat} {s : Src} {idx : List Nat} (h : Pre n w s idx)
    (hs : SimpleFaces s.t) : SimpleFaces (sliceFaces s idx).t := by
  intro r' hr'
  obtain ⟨f, hf, rfl⟩ := mem_sub_t hr'
  have hrow : rowAt s.t f ∈ s.t := rowAt_mem (h.2.2.1 f hf)
  obtain ⟨hnd, h3⟩ := hs _ hrow
  unfold SimpleRow
  rw [faceOf_map (remapN_fill s idx)]
  refine ⟨?_, by simpa using h3⟩
  unfold List.Nodup
  rw [List.pairwise_map]
  refine List.Pairwise.imp_of_mem ?_ hnd
  intro a b ha hb hab heq
  exact hab (remap_inj (row_in_nodeSel (s := s) hf a (mem_faceOf_mem _ a ha))
    (row_in_nodeSel (s := s) hf b (mem_faceOf_mem _ b hb)) heq)

/-- `DistinctFaces` for the source: from C02's specification and simple faces -/
theorem distinctFaces_of_simple {n w : Nat} (B : Base) (idx : List Nat)
    (h : Pre n w { t := B.t, EN := B.EN, FE := B.FE } idx) (hs : SimpleFaces B.t) :
    DistinctFaces B.EF :=
  C02.edge_faces_distinct h.1 hs ⟨B.EN, B.FE, nNodesPerFace B.t⟩ h.2.1

/-- `DistinctFaces` for the subset: its tables meet C02's specification (`slice_functional`) on a
    standard-form table (`slice_std`) of simple faces (`slice_simple`) -/
theorem distinctFaces_slice_of_simple {n w : Nat} (B : Base) (idx : List Nat)
    (h : Pre n w { t := B.t, EN := B.EN, FE := B.FE } idx) (hs : SimpleFaces B.t) :
    DistinctFaces (B.slice idx).EF :=
  C02.edge_faces_distinct (slice_std h) (slice_simple h hs)
    ⟨(sliceFaces { t := B.t, EN := B.EN, FE := B.FE } idx).EN,
     (sliceFaces { t := B.t, EN := B.EN, FE := B.FE } idx).FE,
     nNodesPerFace (sliceFaces { t := B.t, EN := B.EN, FE := B.FE } idx).t⟩
    (slice_functional h)

/-- **`efd_history_independent_of_pre` without the two `DistinctFaces` hypotheses**: they follow
    from the precondition and from the faces being simple -/
theorem efd_history_independent_of_simple {n n' w : Nat} {B : Base} {g : State} (hc : Coh B g)
    (he : EfdOK B g) {idx : List Nat} (h : Pre n w { t := B.t, EN := B.EN, FE := B.FE } idx)
    (hP : Incidence.Pre n B.t B.FE B.N B.EN.length)
    (hP' : Incidence.Pre n' (B.slice idx).t (B.slice idx).FE (B.slice idx).N (B.slice idx).EN.length)
    (hs : SimpleFaces B.t) (hist order : List Var) :
    ((runHist g hist).bind (fun g => g.slice idx)).bind (fun u => u.viewEFD order)
      = some (B.slice idx).EFD :=
  efd_history_independent_of_pre hc he h hP hP' (distinctFaces_of_simple B idx h hs)
    (distinctFaces_slice_of_simple B idx h hs) hist order

end UxVerif.C09
