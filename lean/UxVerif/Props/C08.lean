/-
  C08 — Reading from a grid never changes what any grid reports.

  Model: `UxVerif/Model/Caches.lean` (world = grids + module globals; lazy store driven by a table
  of populate units; keyed caches; results are terms).  Memoisation lemmas:
  `UxVerif/Lemmas/Caches.lean`.

  Theorems (for EVERY model `M` whose table passes the decidable well-formedness check for the
  sources involved — `ux_mwf` shows the transcription of the repaired library does — and for
  histories of ANY length over ANY number of grids, grids being opened at any point):

  * `lookup_sound`               a keyed cache whose reuse test implies "same object" returns
                                 `compute key` after any request history;
  * `world_history_independent`  the result of any value operation on any grid after any history
                                 equals its result before the history and equals what a freshly
                                 opened copy of the same source returns (`refRes`);
  * `frame`                      an operation on one grid leaves every other grid's state as it was
                                 (any model) and, for well-formed models, the globals too;
  * `export_superset`            `to_xarray()` after any history contains the fresh export, and every
                                 entry (in particular every extra one) is the reference value;
  * `globals_const`              no history changes a module-level container;
  * `stepOK`/`traceOK` reflection (`traceOK_iff`) — the predicate the driver evaluates on the
                                 implementation's observations.

  As-is counterexamples (the defects of the snapshot, each switched on by one flag of
  `Caches.Flags`; the harness replays the same histories on the real code).
-/
import UxVerif.Lemmas.Caches
import UxVerif.Gen.GridWrites

namespace UxVerif.C08
open UxVerif.Caches

/-! ## a generic keyed cache -/

/-- one request to a single-slot keyed cache: `keyEq` is the comparison made on reuse, `keyStored`
    what is recorded next to the object, `force` = override/reconstruct, `store` = cache flag -/
def cacheGet {K V : Type} (keyEq : K → K → Bool) (keyStored : K → K) (compute : K → V)
    (c : Option (K × V)) (k : K) (force store : Bool) : Option (K × V) × V :=
  match (if force then none else c.filter (fun e => keyEq e.1 k)) with
  | some e => (c, e.2)
  | none => (if store then some (keyStored k, compute k) else c, compute k)

def cacheRun {K V : Type} (keyEq : K → K → Bool) (keyStored : K → K) (compute : K → V) :
    Option (K × V) → List (K × Bool × Bool) → Option (K × V)
  | c, [] => c
  | c, (k, f, s) :: rest =>
      cacheRun keyEq keyStored compute (cacheGet keyEq keyStored compute c k f s).1 rest

/-- `lookup_sound`: if a positive reuse test implies that the cached object is the one the request
    would compute (all result-relevant fields are compared and recorded), the cache returns
    `compute key` after ANY history of requests (any keys, override and cache flags). -/
theorem lookup_sound {K V : Type} (keyEq : K → K → Bool) (keyStored : K → K) (compute : K → V)
    (hsound : ∀ k k', keyEq (keyStored k) k' = true → compute k = compute k')
    (h : List (K × Bool × Bool)) (k : K) (force store : Bool) :
    (cacheGet keyEq keyStored compute (cacheRun keyEq keyStored compute none h) k force store).2
      = compute k := by
  have inv : ∀ (h : List (K × Bool × Bool)) (c : Option (K × V)),
      (∀ e, c = some e → ∃ k0, e = (keyStored k0, compute k0)) →
      ∀ e, cacheRun keyEq keyStored compute c h = some e → ∃ k0, e = (keyStored k0, compute k0) := by
    intro h
    induction h with
    | nil => intro c hc e he; exact hc e he
    | cons r rest ih =>
      intro c hc e he
      obtain ⟨k1, f1, s1⟩ := r
      simp only [cacheRun] at he
      apply ih _ _ e he
      intro e' he'
      unfold cacheGet at he'
      split at he'
      · exact hc e' he'
      · split at he'
        · simp only [Option.some.injEq] at he'; exact ⟨k1, he'.symm⟩
        · exact hc e' he'
  unfold cacheGet
  split
  · rename_i e hhit
    split at hhit
    · simp at hhit
    · cases hc : cacheRun keyEq keyStored compute none h with
      | none => simp [hc] at hhit
      | some e0 =>
        simp only [hc, Option.filter] at hhit
        split at hhit
        · rename_i hk
          simp only [Option.some.injEq] at hhit
          subst hhit
          obtain ⟨k0, hk0⟩ := inv h none (by simp) e0 hc
          subst hk0
          exact hsound k0 k hk
        · simp at hhit
  · rfl

/-- non-vacuity: a cache that compares the whole key is sound … -/
example : (cacheGet (fun a b : Nat × Nat => a == b) id (fun k => k.1 + k.2)
    (cacheRun (fun a b : Nat × Nat => a == b) id (fun k => k.1 + k.2) none [((1, 2), false, true)])
    (1, 5) false true).2 = 6 := by decide
/-- … one that compares the first field only is not (the hypothesis of `lookup_sound` is needed) -/
example : (cacheGet (fun a b : Nat × Nat => a.1 == b.1) id (fun k => k.1 + k.2)
    (cacheRun (fun a b : Nat × Nat => a.1 == b.1) id (fun k => k.1 + k.2) none [((1, 2), false, true)])
    (1, 5) false true).2 = 3 := by decide

/-! ## the lazy store is a sound memo (per grid) -/

/-- **Memoisation.**  For ANY population table passing the decidable check `wfB` and ANY store in
    which every entry is its reference value (`Inv`): a property getter returns the reference value
    `fr v` (what the pure recursion over the source yields — no store, no history), only adds
    entries, keeps `Inv`, and leaves the module globals alone.  (`Lemmas/Caches.lean`, induction on
    the nesting depth of getters; the fold over a unit's writes is `writes_fold`.) -/
theorem memo_sound {T : Table} {sig : Var → Bool} (s : Nat) (h : wfB T sig = true) (n : Nat) (v : Var)
    (σ : St) (hinv : Inv T sig s σ.1) (hfuel : sig v = true ∨ T.rk v < n) :
    Post T sig s v σ (getV T n v σ) :=
  getV_sound s (wf_of_wfB h) n v σ hinv hfuel

/-! ## worlds -/

/-- every grid of the world is consistent with its source and the module globals are pristine -/
def WorldInv (M : Model) (w : World) : Prop :=
  w.gl = {} ∧ ∀ g ∈ w.grids, MWF M g.sigF ∧ GInv M g

/-- every source opened during the history is one the model is well-formed for
    (all operations of `Caches.Op` are read-only by construction) -/
def Readonly (M : Model) (h : List Ev) : Prop :=
  ∀ sig, Ev.open_ sig ∈ h → MWF M (sigOf sig)

theorem step_inv {M : Model} {w : World} (hw : WorldInv M w) (e : Ev)
    (he : ∀ sig, e = Ev.open_ sig → MWF M (sigOf sig)) : WorldInv M (w.step M e).1 := by
  cases e with
  | on i o =>
    simp only [World.step]
    cases hgi : w.grids[i]? with
    | none => exact hw
    | some g =>
      have hmem : g ∈ w.grids := List.mem_of_getElem? hgi
      have S := stepGrid_spec (hw.2 g hmem).1 (hw.2 g hmem).2 w.gl o
      refine ⟨by simp only [S.2.1]; exact hw.1, ?_⟩
      intro g' hg'
      simp only at hg'
      rcases List.mem_or_eq_of_mem_set hg' with h | h
      · exact hw.2 g' h
      · subst h
        have hsig : (stepGrid M g w.gl o).1.sigF = g.sigF := by
          unfold Grid.sigF; rw [S.2.2.1]
        exact ⟨hsig ▸ (hw.2 g hmem).1, S.1⟩
  | open_ sig =>
    simp only [World.step]
    refine ⟨hw.1, ?_⟩
    intro g hg
    rcases List.mem_append.mp hg with h | h
    · exact hw.2 g h
    · simp only [List.mem_singleton] at h
      subst h
      exact ⟨he sig rfl, open_inv _ _ (he sig rfl)⟩

theorem run_inv {M : Model} (h : List Ev) : ∀ {w : World}, WorldInv M w → Readonly M h →
    WorldInv M (w.run M h) := by
  induction h with
  | nil => intro w hw _; exact hw
  | cons e rest ih =>
    intro w hw hr
    simp only [World.run, List.foldl_cons]
    apply ih (step_inv hw e (fun sig hs => hr sig (hs ▸ List.mem_cons_self ..)))
    intro sig hs
    exact hr sig (List.mem_cons_of_mem _ hs)

/-- grids are never removed or re-sourced: grid `i` keeps its source signature and identifier -/
theorem step_keeps {M : Model} {w : World} (hw : WorldInv M w) (e : Ev) {i : Nat} {g : Grid}
    (hg : w.grids[i]? = some g) :
    ∃ g', (w.step M e).1.grids[i]? = some g' ∧ g'.sig = g.sig ∧ g'.sid = g.sid ∧
      (∀ v, (g.st v).isSome = true → (g'.st v).isSome = true) := by
  cases e with
  | on j o =>
    simp only [World.step]
    cases hgj : w.grids[j]? with
    | none => exact ⟨g, hg, rfl, rfl, fun _ h => h⟩
    | some gj =>
      have hmem : gj ∈ w.grids := List.mem_of_getElem? hgj
      have S := stepGrid_spec (hw.2 gj hmem).1 (hw.2 gj hmem).2 w.gl o
      by_cases hij : j = i
      · subst hij
        rw [hg] at hgj; cases hgj
        have hlt : j < w.grids.length := by
          have := List.getElem?_eq_some_iff.mp hg; exact this.1
        exact ⟨(stepGrid M g w.gl o).1, by simp [hlt], S.2.2.1, S.2.2.2.1, S.2.2.2.2.1⟩
      · exact ⟨g, by simp [List.getElem?_set_ne hij, hg], rfl, rfl, fun _ h => h⟩
  | open_ sig =>
    simp only [World.step]
    have hlt : i < w.grids.length := (List.getElem?_eq_some_iff.mp hg).1
    exact ⟨g, by rw [List.getElem?_append_left hlt]; exact hg, rfl, rfl, fun _ h => h⟩

theorem run_keeps {M : Model} (h : List Ev) : ∀ {w : World}, WorldInv M w → Readonly M h →
    ∀ {i : Nat} {g : Grid}, w.grids[i]? = some g →
    ∃ g', (w.run M h).grids[i]? = some g' ∧ g'.sig = g.sig ∧ g'.sid = g.sid ∧
      (∀ v, (g.st v).isSome = true → (g'.st v).isSome = true) := by
  induction h with
  | nil => intro w _ _ i g hg; exact ⟨g, hg, rfl, rfl, fun _ h => h⟩
  | cons e rest ih =>
    intro w hw hr i g hg
    obtain ⟨g1, h1, hs1, hd1, hp1⟩ := step_keeps hw e hg
    have hw1 := step_inv hw e (fun sig hs => hr sig (hs ▸ List.mem_cons_self ..))
    obtain ⟨g2, h2, hs2, hd2, hp2⟩ := ih hw1 (fun sig hs => hr sig (List.mem_cons_of_mem _ hs)) h1
    exact ⟨g2, h2, hs2.trans hs1, hd2.trans hd1, fun v hv => hp2 v (hp1 v hv)⟩

/-- in a consistent world every value operation returns the reference result -/
theorem res_eq_spec {M : Model} {w : World} (hw : WorldInv M w) {i : Nat} {g : Grid}
    (hg : w.grids[i]? = some g) {o : Op} (ho : o.isValue = true) :
    w.res M i o = spec M g.sigF g.sid o := by
  have hmem : g ∈ w.grids := List.mem_of_getElem? hg
  simp only [World.res, World.step, hg]
  exact (stepGrid_spec (hw.2 g hmem).1 (hw.2 g hmem).2 w.gl o).2.2.2.2.2 ho

/-- what a freshly opened copy of the source returns is the reference result -/
theorem ref_eq_spec {M : Model} {sig : List Var} (sid : Nat) (hm : MWF M (sigOf sig)) {o : Op}
    (ho : o.isValue = true) : refRes M sig sid o = spec M (sigOf sig) sid o := by
  have hg := open_inv (M := M) sid {} hm
  have := (stepGrid_spec (g := openGrid M {} sig sid) hm hg {} o).2.2.2.2.2 ho
  exact this

/-- **History independence.**  After ANY history `h` (operations on any grids, sources opened at
    any point), any value operation `o` on any grid `i` returns what it returned before the
    history — and that is what a freshly opened copy of the same source returns. -/
theorem world_history_independent {M : Model} {w0 : World} (h : List Ev) (i : Nat) (o : Op)
    (hw : WorldInv M w0) (hr : Readonly M h) {g : Grid} (hg : w0.grids[i]? = some g)
    (ho : o.isValue = true) :
    (w0.run M h).res M i o = w0.res M i o ∧ w0.res M i o = refRes M g.sig g.sid o := by
  obtain ⟨g', hg', hs, hd, _⟩ := run_keeps h hw hr hg
  have hmem : g ∈ w0.grids := List.mem_of_getElem? hg
  have hsf : g'.sigF = g.sigF := by unfold Grid.sigF; rw [hs]
  constructor
  · rw [res_eq_spec (run_inv h hw hr) hg' ho, res_eq_spec hw hg ho, hsf, hd]
  · rw [res_eq_spec hw hg ho, ref_eq_spec g.sid (hw.2 g hmem).1 ho]; rfl

/-- **Frame.**  An operation on grid `i` leaves the state of every other grid as it was — in any
    model, also the as-is one (what may leak is the module globals, see `asis_leak`) … -/
theorem frame (M : Model) (w : World) (i j : Nat) (o : Op) (hij : i ≠ j) :
    (w.step M (.on i o)).1.grids[j]? = w.grids[j]? := by
  simp only [World.step]
  cases hgi : w.grids[i]? with
  | none => rfl
  | some g => simp [List.getElem?_set_ne hij]

/-- … and in a well-formed model the globals stay as well, so every other grid's results do. -/
theorem frame_results {M : Model} {w : World} (hw : WorldInv M w) (i j : Nat) (o o' : Op)
    {g : Grid} (hg : w.grids[j]? = some g) (ho' : o'.isValue = true) :
    (w.step M (.on i o)).1.res M j o' = w.res M j o' := by
  have := (world_history_independent (M := M) [.on i o] j o' hw
    (by intro sig hs; simp at hs) hg ho').1
  simpa [World.run] using this

/-- **Globals.**  No history changes a module-level container. -/
theorem globals_const {M : Model} {w0 : World} (h : List Ev) (hw : WorldInv M w0)
    (hr : Readonly M h) : (w0.run M h).gl = w0.gl := by
  rw [(run_inv h hw hr).1, hw.1]

/-- **Exports.**  `to_xarray()` after any history contains everything a fresh grid's export
    contains, and every entry — in particular every additional, derived one — holds the reference
    value of its variable. -/
theorem export_superset {M : Model} {w0 : World} (h : List Ev) (i : Nat) (hw : WorldInv M w0)
    (hr : Readonly M h) {g : Grid} (hg : w0.grids[i]? = some g) :
    ∃ l, (w0.run M h).res M i .export_ = .vars l ∧
      (∀ p, refRes M g.sig g.sid .export_ = .vars p → ∀ x ∈ p, x ∈ l) ∧
      (∀ x ∈ l, x.2 = fr (M.table g.sigF) g.sigF g.sid x.1) := by
  obtain ⟨g', hg', hs, hd, _⟩ := run_keeps h hw hr hg
  have hwi := run_inv h hw hr
  have hmem' : g' ∈ (w0.run M h).grids := List.mem_of_getElem? hg'
  have hinv := (hwi.2 g' hmem').2.inv
  have hsf : g'.sigF = g.sigF := by unfold Grid.sigF; rw [hs]
  rw [hsf, hd] at hinv
  refine ⟨exportOf g'.st, by simp [World.res, World.step, hg', stepGrid], ?_, ?_⟩
  · intro p hp x hx
    simp only [refRes, stepGrid, Res.vars.injEq] at hp
    subst hp
    simp only [exportOf, List.mem_filterMap] at hx ⊢
    obtain ⟨v, _, hv⟩ := hx
    refine ⟨v, Var.mem_all v, ?_⟩
    split at hv
    · rename_i hds
      simp only [hds, ↓reduceIte]
      -- a supplied variable: present in `g'` with the reference value
      cases hov : (openGrid M {} g.sig g.sid).st v with
      | none => simp [hov] at hv
      | some e0 =>
        simp only [hov, Option.map_some, Option.some.injEq] at hv
        have hsig : g.sigF v = true := by
          simp only [openGrid] at hov
          split at hov
          · rename_i hc; exact hc
          · simp at hov
        have hp := hinv.srcp v hsig
        cases hgv : g'.st v with
        | none => simp [hgv] at hp
        | some e =>
          simp only [Option.map_some, Option.some.injEq]
          have hopen := open_inv (M := M) g.sid {} (hw.2 g (List.mem_of_getElem? hg)).1
          have h0 := obs_sound hopen.inv hov
          have h1 := obs_sound hinv hgv
          simp only [hov, hgv, obsOf] at h0 h1
          rw [← hv, h0, h1]; rfl
    · simp at hv
  · intro x hx
    simp only [exportOf, List.mem_filterMap] at hx
    obtain ⟨v, _, hv⟩ := hx
    split at hv
    · cases hgv : g'.st v with
      | none => simp [hgv] at hv
      | some e =>
        simp only [hgv, Option.map_some, Option.some.injEq] at hv
        subst hv
        have h1 := obs_sound hinv hgv
        simpa [hgv, obsOf] using h1
    · simp at hv

/-! ## the Spec the driver evaluates on the implementation's observations -/

/-- the property on an observed trace, stated outright -/
def StepSpec {α : Type} : Step α → Prop
  | .value o r => o = r
  | .super o r d => (∀ p ∈ r, p ∈ o) ∧ (∀ p ∈ o, p ∈ r ∨ p ∈ d)
  | .globals b a i => b = a ∧ a = i

theorem stepOK_iff {α : Type} [DecidableEq α] (s : Step α) : stepOK s = true ↔ StepSpec s := by
  cases s with
  | value o r => simp [stepOK, StepSpec]
  | super o r d => simp [stepOK, StepSpec, List.all_eq_true]
  | globals b a i => simp [stepOK, StepSpec]

theorem traceOK_iff {α : Type} [DecidableEq α] (t : List (Step α)) :
    traceOK t = true ↔ ∀ s ∈ t, StepSpec s := by
  simp only [traceOK, List.all_eq_true]
  constructor
  · intro h s hs; exact (stepOK_iff s).mp (h s hs)
  · intro h s hs; exact (stepOK_iff s).mpr (h s hs)

example : traceOK [Step.value 3 3, .super [(1, 5), (2, 7)] [(1, 5)] [(2, 7)], .globals 9 9 9] = true := by decide
example : traceOK [Step.value 3 4] = false := by decide
example : traceOK [Step.super [(1, 5), (2, 8)] [(1, 5)] [(2, 7)]] = false := by decide  -- extra ≠ fresh derived
example : traceOK [Step.super [(2, 7)] [(1, 5)] [(2, 7)]] = false := by decide          -- fresh entry missing
example : traceOK [Step.globals 9 8 9] = false := by decide

/-! ## the transcription of the repaired library is well-formed -/

theorem ux_pol (c : CacheId) : SoundPolicy ((uxModel repaired).cache c) := by
  intro k k' h
  cases c <;> simp [uxModel, uxCache, repaired] at h <;> subst h <;> exact ⟨rfl, rfl⟩

theorem ux_fuel (sig : Var → Bool) (v : Var) : ((uxModel repaired).table sig).rk v < FUEL := by
  cases v <;> simp [uxModel, uxTable, uxRank, FUEL]

theorem ux_meth (sig : Var → Bool) (h2 : sig .nodeLL = true ∨ sig .nodeXYZ = true) (m : Nat) :
    methodOK ((uxModel repaired).table sig) sig ((uxModel repaired).method m) = true := by
  simp only [uxModel, uxMethod, repaired]
  split <;> simp [methodOK, peekOK, uxTable, uxUnit, applicable, F.xyzOfLL]
  rcases h2 with h | h <;> simp [h]

/-- the decidable table check is all that is left to establish for a source signature -/
theorem ux_mwf_of_wfB (sig : Var → Bool) (h : wfB (uxTable repaired sig) sig = true)
    (h2 : sig .nodeLL = true ∨ sig .nodeXYZ = true) : MWF (uxModel repaired) sig :=
  ⟨wf_of_wfB h, ux_fuel sig, ux_meth sig h2, ux_pol, fun c => by cases c <;> rfl, rfl⟩

set_option maxRecDepth 4000 in
/-- every unit of the repaired library passes the table check, whatever the source supplies
    (as long as it has faces and node coordinates of one kind) -/
theorem ux_wfVar (sig : Var → Bool) (h1 : sig .faceNode = true)
    (h2 : sig .nodeLL = true ∨ sig .nodeXYZ = true) (v : Var) :
    wfVar (uxTable repaired sig) sig v = true := by
  cases v <;>
    simp [wfVar, uxTable, uxUnit, uxRank, repaired, condOwn, argOK, applicable, staticCond, h1] <;>
    (first
      | done
      | (cases h3 : sig .nodeLL <;> cases h4 : sig .nodeXYZ <;> simp_all <;>
         cases h5 : sig .edgeLL <;> cases h6 : sig .edgeXYZ <;> simp_all)
      | (cases h3 : sig .nodeLL <;> cases h4 : sig .nodeXYZ <;> simp_all <;>
         cases h5 : sig .faceLL <;> cases h6 : sig .faceXYZ <;> simp_all)
      | (cases h3 : sig .nodeLL <;> cases h4 : sig .nodeXYZ <;> simp_all <;>
         cases h5 : sig .areas <;> simp_all))

/-- a source the library accepts: faces plus node coordinates (spherical or Cartesian);
    anything else may or may not be supplied -/
def Admissible (sig : List Var) : Prop :=
  sigOf sig .faceNode = true ∧ (sigOf sig .nodeLL = true ∨ sigOf sig .nodeXYZ = true)

instance (sig : List Var) : Decidable (Admissible sig) := by unfold Admissible; infer_instance

/-- **The transcription of the repaired library is well-formed for every admissible source.** -/
theorem ux_mwf (sig : List Var) (h : Admissible sig) : MWF (uxModel repaired) (sigOf sig) :=
  ux_mwf_of_wfB _ (by
    simp only [wfB, List.all_eq_true]
    intro v _
    exact ux_wfVar _ h.1 h.2 v) h.2

/-- **History independence of the repaired library** (all the pieces together): start with no grid
    at all, open any admissible sources and run any operations in any order (`h`), then any further
    history (`h'`): a value operation on any grid returns what a freshly opened copy of that grid's
    source returns, and the module globals are pristine. -/
theorem ux_history_independent (h h' : List Ev)
    (hadm : ∀ sig, Ev.open_ sig ∈ h ++ h' → Admissible sig) (i : Nat) (o : Op) (g : Grid)
    (hg : ((World.mk [] {}).run (uxModel repaired) h).grids[i]? = some g)
    (ho : o.isValue = true) :
    (((World.mk [] {}).run (uxModel repaired) h).run (uxModel repaired) h').res (uxModel repaired) i o
        = refRes (uxModel repaired) g.sig g.sid o ∧
    (((World.mk [] {}).run (uxModel repaired) h).run (uxModel repaired) h').gl = {} := by
  have h0 : WorldInv (uxModel repaired) (World.mk [] {}) := ⟨rfl, by intro g hg; simp at hg⟩
  have hr : Readonly (uxModel repaired) h :=
    fun sig hs => ux_mwf sig (hadm sig (List.mem_append_left _ hs))
  have hr' : Readonly (uxModel repaired) h' :=
    fun sig hs => ux_mwf sig (hadm sig (List.mem_append_right _ hs))
  have h1 := run_inv h h0 hr
  have W := world_history_independent h' i o h1 hr' hg ho
  exact ⟨W.1.trans W.2, (run_inv h' h1 hr').1⟩

/-! ### non-vacuity: concrete sources, histories and observations -/

/-- plain explicit topology; topology with supplied edges; an MPAS-like source -/
def sPlain : List Var := [.nodeLL, .faceNode]
def sEdges : List Var := [.nodeLL, .faceNode, .edgeNode]
def sMpas : List Var :=
  [.nodeLL, .nodeXYZ, .faceLL, .faceXYZ, .edgeLL, .edgeXYZ, .faceNode, .edgeNode, .faceEdge,
   .edgeFace, .faceFace, .nodeFace, .nPer, .areas, .enDist, .efDist]

example : Admissible sPlain ∧ Admissible sEdges ∧ Admissible sMpas := by decide
example : ¬ Admissible [.nodeLL] := by decide

def treeFacesSph : Op := .cached .ball [1, 0, 0] false true
def treeNodesSph : Op := .cached .ball [0, 0, 0] false true
def lineRobinson : Op := .cached .line [0, 1, 0] false true
def linePlain : Op := .cached .line [0, 0, 0] false true

/-- a three-grid history touching every family of state -/
def hDemo : List Ev :=
  [.open_ sPlain, .open_ sEdges, .on 0 (.get .faceFace), .on 1 (.get .faceEdge), .on 0 .chunk,
   .open_ sMpas, .on 0 (.method 5), .on 2 (.get .jac), .on 0 treeFacesSph, .on 0 treeNodesSph,
   .on 1 lineRobinson, .on 1 linePlain, .on 0 (.get .bounds), .on 1 (.get .edgeLL), .on 0 .export_]

/-- the repaired model on the demo history: every later observation equals the fresh one … -/
example :
    [Op.get .edgeNode, .get .faceEdge, .get .jac, .method 0, .method 15, treeNodesSph, linePlain,
     .get .efDist].all (fun o => [0, 1, 2].all (fun i =>
      match ((World.mk [] {}).run (uxModel repaired) hDemo).grids[i]? with
      | some g => ((World.mk [] {}).run (uxModel repaired) hDemo).res (uxModel repaired) i o
                    == refRes (uxModel repaired) g.sig g.sid o
      | none => false)) = true := by decide +kernel
/-- … results are genuinely different terms for different requests (the equalities above are not
    between constants) -/
example : refRes (uxModel repaired) sPlain 0 treeNodesSph ≠ refRes (uxModel repaired) sPlain 0 treeFacesSph
    ∧ refRes (uxModel repaired) sPlain 0 (.get .faceEdge) ≠ refRes (uxModel repaired) sEdges 0 (.get .faceEdge)
    ∧ refRes (uxModel repaired) sPlain 0 (.get .faceEdge) ≠ refRes (uxModel repaired) sPlain 1 (.get .faceEdge) := by
  decide +kernel
/-- the export grows with the history and stays a superset of the fresh export -/
example :
    (match ((World.mk [] {}).run (uxModel repaired) hDemo).res (uxModel repaired) 0 .export_,
           refRes (uxModel repaired) sPlain 0 .export_ with
     | .vars l, .vars p => p.all (fun x => l.contains x) && decide (p.length < l.length)
     | _, _ => false) = true := by decide +kernel

/-! ## as-is counterexamples (one flag of the snapshot each; replayed on the real code by the harness) -/

/-- (a) `_populate_edge_node_connectivity` stores its side tables in the module-level
    `EDGE_NODE_CONNECTIVITY_ATTRS`: the globals change … -/
theorem asis_globals_change :
    ((World.mk [] {}).run (uxModel { leak := true }) [.open_ sPlain, .on 0 (.get .edgeNode)]).gl ≠ {} := by
  decide +kernel

/-- … and a grid opened AFTERWARDS with a supplied `edge_node_connectivity` inherits them: its
    `face_edge_connectivity` is built from the other grid's table -/
theorem asis_leak :
    ((World.mk [] {}).run (uxModel { leak := true })
        [.open_ sPlain, .on 0 (.get .edgeNode), .open_ sEdges]).res (uxModel { leak := true }) 1 (.get .faceEdge)
      ≠ refRes (uxModel { leak := true }) sEdges 1 (.get .faceEdge) := by
  decide +kernel

/-- (b) a supplied `edge_node_connectivity` is replaced the first time `face_edge_connectivity`
    is read -/
theorem asis_replace :
    ((World.mk [] {}).run (uxModel { replace := true })
        [.open_ sEdges, .on 0 (.get .faceEdge)]).res (uxModel { replace := true }) 0 (.get .edgeNode)
      ≠ refRes (uxModel { replace := true }) sEdges 0 (.get .edgeNode) := by
  decide +kernel

/-- (c) after `Grid.chunk()` `compute_face_areas` fails -/
theorem asis_chunk_areas :
    ((World.mk [] {}).run (uxModel { numpyAreas := true })
        [.open_ sPlain, .on 0 .chunk]).res (uxModel { numpyAreas := true }) 0 (.method 0) = .err 1
    ∧ refRes (uxModel { numpyAreas := true }) sPlain 0 (.method 0) ≠ .err 1 := by
  decide +kernel

/-- (d) `compute_face_areas(rule, order)` leaves ITS jacobian behind: `face_jacobian` afterwards is
    not the fresh grid's -/
theorem asis_jacobian :
    ((World.mk [] {}).run (uxModel { jacWrite := true })
        [.open_ sPlain, .on 0 (.method 5)]).res (uxModel { jacWrite := true }) 0 (.get .jac)
      ≠ refRes (uxModel { jacWrite := true }) sPlain 0 (.get .jac) := by
  decide +kernel

/-- (C11, repaired in /repo) tree getters comparing `coordinates` only hand back the tree of the
    previous request's coordinate system -/
theorem asis_tree_key :
    ((World.mk [] {}).run (uxModel { treeKey := true })
        [.open_ sPlain, .on 0 (.cached .ball [0, 0, 0] false true)]).res (uxModel { treeKey := true }) 0
          (.cached .ball [0, 1, 1] false true)
      ≠ refRes (uxModel { treeKey := true }) sPlain 0 (.cached .ball [0, 1, 1] false true) := by
  decide +kernel

/-- **Incomplete supplied edge table** (a source whose `edge_node_connectivity` does not list every
    edge of its faces; /repo 2e3b10c9): the first read of `face_edge_connectivity` discards the table,
    drops every variable along `n_edge` and re-derives — `edge_node_connectivity` (and supplied edge
    coordinates) afterwards are not what a fresh copy of that source reports.  Known finding
    `C08/history/source:incomplete-supplied-edge-table/…`; the table of this source class does not pass
    `wfB` (a forced write with removals), so none of the theorems above is claimed for it. -/
theorem incomplete_edges_rederived :
    ((World.mk [] {}).run (uxModel { incompleteEdges := true })
        [.open_ sEdges, .on 0 (.get .faceEdge)]).res (uxModel { incompleteEdges := true }) 0 (.get .edgeNode)
      ≠ refRes (uxModel { incompleteEdges := true }) sEdges 0 (.get .edgeNode)
    ∧ ((World.mk [] {}).run (uxModel { incompleteEdges := true })
        [.open_ (.edgeLL :: sEdges), .on 0 (.get .faceEdge)]).res (uxModel { incompleteEdges := true }) 0 (.get .edgeLL)
      ≠ refRes (uxModel { incompleteEdges := true }) (.edgeLL :: sEdges) 0 (.get .edgeLL)
    ∧ wfB (uxTable { incompleteEdges := true } (sigOf sEdges)) (sigOf sEdges) = false := by
  decide +kernel

/-- … while a source without a supplied edge table is untouched by that branch -/
example :
    ((World.mk [] {}).run (uxModel { incompleteEdges := true })
        [.open_ sPlain, .on 0 (.get .faceEdge)]).res (uxModel { incompleteEdges := true }) 0 (.get .edgeNode)
      = refRes (uxModel { incompleteEdges := true }) sPlain 0 (.get .edgeNode) := by
  decide +kernel

/-- (seeded C08e) the tree wrappers keep one slot per `coordinates` kind; if the bookkeeping that
    travels with the wrapper (`_n_elements`: which `k` a query accepts) is refreshed only when a slot
    is BUILT, the history nodes → face centers → nodes hands back the node tree with the face count:
    what it accepts / rejects differs from a fresh grid's -/
theorem asis_stale_count :
    ((World.mk [] {}).run (uxModel { staleCount := true })
        [.open_ sPlain, .on 0 treeNodesSph, .on 0 treeFacesSph]).res (uxModel { staleCount := true }) 0 treeNodesSph
      ≠ refRes (uxModel { staleCount := true }) sPlain 0 treeNodesSph := by
  decide +kernel

/-- the repaired wrapper on the same revisit history (and A→B→C→A): slot reused, bookkeeping fresh -/
example :
    ((World.mk [] {}).run (uxModel repaired)
        [.open_ sPlain, .on 0 treeNodesSph, .on 0 treeFacesSph, .on 0 (.cached .ball [2, 0, 0] false true)]).res
          (uxModel repaired) 0 treeNodesSph
      = refRes (uxModel repaired) sPlain 0 treeNodesSph := by
  decide +kernel

/-- (C15) `to_linecollection` never records the projection: a projected collection answers the
    next unprojected request -/
theorem asis_line_key :
    ((World.mk [] {}).run (uxModel { lineKey := true })
        [.open_ sPlain, .on 0 lineRobinson]).res (uxModel { lineKey := true }) 0 linePlain
      ≠ refRes (uxModel { lineKey := true }) sPlain 0 linePlain := by
  decide +kernel

/-- (C04, repaired in /repo) derived `node_lon` stayed in [0, 360) until some other getter wrapped
    every longitude in place: `node_lon` after `edge_lon` differs from a fresh `node_lon` -/
theorem asis_raw_node_lon :
    ((World.mk [] {}).run (uxModel { rawNodeLon := true })
        [.open_ [.nodeXYZ, .faceNode], .on 0 (.get .nodeLL), .on 0 (.get .edgeLL)]).res
          (uxModel { rawNodeLon := true }) 0 (.get .nodeLL)
      ≠ refRes (uxModel { rawNodeLon := true }) [.nodeXYZ, .faceNode] 0 (.get .nodeLL) := by
  decide +kernel

/-- none of the as-is tables passes the check the theorems ask for -/
theorem asis_not_wf :
    wfB (uxTable { leak := true } (sigOf sPlain)) (sigOf sPlain) = false
    ∧ wfB (uxTable { replace := true } (sigOf sEdges)) (sigOf sEdges) = false
    ∧ wfB (uxTable { rawNodeLon := true } (sigOf [.nodeXYZ, .faceNode])) (sigOf [.nodeXYZ, .faceNode]) = false := by
  decide +kernel

/-! ## the population table REGENERATED from the source (`Gen/GridWrites.lean`, harness/translate_c08.py)

  `ast` over `uxarray/grid/*.py` yields, for every lazily populated `Grid` attribute, the `_ds` keys /
  private attributes its getter (and everything the getter hands the grid to) WRITES — each with a
  provenance number —, the getters it READS, its longitude-wrap calls, and every write to a
  module-level container / in-place `.data` rewrite / unmodelled key.  The theorems below are
  re-checked against whatever the source says today; they tie the table the history-independence
  theorems are about (`uxUnit repaired`, proved well-formed for every source by `ux_wfVar`) to the
  source text instead of to a hand transcription. -/

section Regenerated
open UxVerif.Gen

/-- the model's units do not depend on what the source supplies -/
theorem uxUnit_sig_indep (fl : Flags) (sig sig' : Var → Bool) (v : Var) :
    uxUnit fl sig v = uxUnit fl sig' v := by
  cases v <;> rfl

def lookupNat {β : Type} (l : List (Nat × β)) (k : Nat) : Option β := (l.find? (fun p => p.1 == k)).map Prod.snd

def subsetV (a b : List Var) : Bool := a.all (fun x => b.contains x)
def setEqV (a b : List Var) : Bool := subsetV a b && subsetV b a

/-- regenerated: groups read through getters / groups written / provenances of the writes to `k` -/
def gReads (R : List (Nat × List Nat)) (v : Var) : List Var := ((lookupNat R v.code).getD []).map Var.decode
def gWriteKeys (W : List (Nat × List (Nat × Nat))) (v : Var) : List Var :=
  (((lookupNat W v.code).getD []).map (fun p => Var.decode p.1)).eraseDups
def gProvs (W : List (Nat × List (Nat × Nat))) (v k : Var) : List Nat :=
  (((lookupNat W v.code).getD []).filter (fun p => p.1 == k.code)).map Prod.snd

def mReads (v : Var) : List Var := (uxUnit repaired (fun _ => false) v).reads
def mWrites (v : Var) : List Var := ((uxUnit repaired (fun _ => false) v).writes.map (fun w => w.var)).eraseDups

/-- the model's unit of `v` is the regenerated one: it stores what the source stores for `v`'s own
    variables, and it reads exactly what the source reads OR populates inline on the way (a populate
    function called directly — `face_edge_connectivity` → `_populate_edge_node_connectivity`,
    `face_areas` → the jacobian cell — is transcribed as a read of that variable's getter) -/
def unitsMatch (R : List (Nat × List Nat)) (W : List (Nat × List (Nat × Nat))) : Bool :=
  Var.all.all (fun v =>
    setEqV (mReads v) ((gReads R v ++ gWriteKeys W v).filter (fun x => !(mWrites v).contains x && x != v))
    && subsetV (mWrites v) (gWriteKeys W v))

/-- two getters never store different things under one key: whenever two variable groups' getters
    both write `k`, they write it from the same statements (same provenances) -/
def sameMeaning (W : List (Nat × List (Nat × Nat))) : Bool :=
  Var.all.all (fun v => Var.all.all (fun w => Var.all.all (fun k =>
    (gProvs W v k).isEmpty || (gProvs W w k).isEmpty ||
      ((gProvs W v k).all (fun p => (gProvs W w k).contains p) &&
       (gProvs W w k).all (fun p => (gProvs W v k).contains p)))))

/-- **No unlisted write.**  No `Grid` getter (nor anything it hands the grid to) writes a `_ds` key or
    private attribute outside the modelled variables, a module-level container, or a stored
    variable's `.data`; no function of the analysed modules applies an in-place operation
    (`x op= …`, `x[…] = …`, `out=x`, `x.sort()`…) to a name that may alias a stored array (bound to
    `….values` / `.data`, passed on through `np.asarray`-like calls and through calls); every modelled
    getter exists. -/
theorem gen_no_unlisted_writes :
    GridWrites.unknownWrites = [] ∧ GridWrites.moduleWrites = [] ∧ GridWrites.inplaceWrites = []
    ∧ GridWrites.missingGetters = [] := by
  decide +kernel

/-- **The only store REMOVAL.**  The one getter that rebinds `Grid._ds` without some variables is
    `face_edge_connectivity`'s (`_ds.drop_dims(ugrid.EDGE_DIM)`, taken only when a source-supplied
    `edge_node_connectivity` does not list every edge of the faces): the model's write with
    `drops := edgeDimVars` under the source class `incompleteEdges`; for every other source class the
    model's table drops nothing (part of `wfB`, proved by `ux_wfVar`). -/
theorem gen_drops :
    GridWrites.dropDims = [(Var.code .faceEdge, ["ugrid.EDGE_DIM"])]
    ∧ (Var.all.all (fun v => (uxUnit { incompleteEdges := true } (fun _ => false) v).writes.all
          (fun w => w.drops.isEmpty || (v == .faceEdge && w.drops == edgeDimVars)))) = true
    ∧ (Var.all.all (fun v => (uxUnit repaired (fun _ => false) v).writes.all (fun w => w.drops.isEmpty))) = true := by
  decide +kernel

/-- **The model's table is the source's table** (reads and writes of every unit). -/
theorem gen_units_match : unitsMatch GridWrites.reads GridWrites.writes = true := by
  decide +kernel

/-- **Same key, same meaning** on the regenerated table. -/
theorem gen_same_meaning : sameMeaning GridWrites.writes = true := by
  decide +kernel

/-- the longitude wrap: which getters call it after populating / on every call, and what it rewrites -/
theorem gen_wraps :
    GridWrites.wrapPop = (Var.all.filter (uxTable repaired (fun _ => false)).wrapPop).map Var.code
    ∧ GridWrites.wrapGet = (Var.all.filter (uxTable repaired (fun _ => false)).wrapGet).map Var.code
    ∧ GridWrites.wrapTargets = ["node_lon", "edge_lon", "face_lon"]
    ∧ GridWrites.groups.length = Var.all.length := by
  decide +kernel

/-- non-vacuity: the regenerated table has content, and the checks reject a perturbed table -/
example : gWriteKeys GridWrites.writes .faceEdge = [.edgeNode, .faceEdge]
    ∧ gReads GridWrites.reads .bounds = [.nodeLL, .nodeXYZ, .faceNode, .faceEdge]
    ∧ gWriteKeys GridWrites.writes .areas = [.areas, .jac] := by decide +kernel
/-- a getter of `bounds` that also stored `hole_edge_indices` would not match; one that stored its own
    `node_lon` (a variable it reads) is rejected by `sameMeaning` -/
example : unitsMatch GridWrites.reads ((14, [(14, 1), (17, 2)]) :: GridWrites.writes) = false
    ∧ sameMeaning ((14, [(14, 24292), (0, 2)]) :: GridWrites.writes) = false := by decide +kernel
/-- `face_jacobian` storing something else than `face_areas` leaves in the cell would not pass -/
example : sameMeaning ((20, [(20, 999)]) :: GridWrites.writes) = false := by decide +kernel

end Regenerated

end UxVerif.C08
