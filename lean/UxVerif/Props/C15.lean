/-
  C15 — Exported polygons and lines correspond one-to-one with faces.

  Theorems about the model `UxVerif.Polys` (transcription of the exporters in
  `uxarray/grid/geometry.py`, `Grid.to_geodataframe / to_polycollection / to_linecollection`,
  `UxDataArray.to_geodataframe / to_polycollection`), for EVERY grid (any number of faces, any
  crossing / NaN pattern, any piece counts), every data array, every policy, and EVERY history of
  conversions.  `splitPieces` (antimeridian.fix_polygon) and the map projections are parameters.

  The model takes repair switches (`Polys.Repairs`, one per proposed patch under fixes/ that changes what is
  modelled).  The property theorems are about the code WITH the patches (hypotheses `R.ignoreProj = true`,
  `R.sideRestore = true`, `R.copyFrame = true`, all met by `Repairs.all`) and are at full strength: every
  grid, every policy and projection, every history, every flag.  What the code does without them is proved
  wrong here (`asis_*`, about `Repairs.asIs`) and stays as regression witness.
-/
import UxVerif.Lemmas.Polys

namespace UxVerif.C15
open UxVerif UxVerif.Polys

/-! ## antimeridian faces -/

/-- **antimeridian_iff**: the test the code runs on the closed, padded shell (`np.diff` over
    `n_max_face_nodes + 1` columns, padding = repeated first corner) is true exactly when one of
    the face's own boundary segments (cyclically, including the closing one) spans ≥ 180°:
    the padding never creates and never hides a crossing.  `cross` is any relation with
    `cross a a = false` (here `|b - a| ≥ 180`). -/
theorem antimeridian_iff {α} (cross : α → α → Bool) (hirr : ∀ a, cross a a = false)
    (w : Nat) (c : List α) (hw : c.length ≤ w) :
    crossesShell cross (closedShell w c) = crossesFace cross c := by
  cases c with
  | nil => rfl
  | cons a c =>
    have hm : w - c.length = (w - c.length - 1) + 1 := by
      simp only [List.length_cons] at hw; omega
    show (adj ((a :: c) ++ List.replicate (w - c.length) a)).any (fun p => cross p.1 p.2)
        = ((a :: c).zip (c ++ [a])).any (fun p => cross p.1 p.2)
    rw [hm, List.replicate_succ, adj_append_cons, List.any_append]
    have : (adj (a :: List.replicate (w - c.length - 1) a)).any (fun p => cross p.1 p.2) = false := by
      rw [List.any_eq_false]
      intro p hp
      rw [adj_replicate a _ p hp]
      simp [hirr a]
    rw [this, Bool.or_false]

/-- the flags of a whole table are the per-face statement -/
theorem amFlags_eq {α} (cross : α → α → Bool) (hirr : ∀ a, cross a a = false)
    (w : Nat) (faces : List (List α)) (hw : ∀ c ∈ faces, c.length ≤ w) :
    amFlags cross w faces = faces.map (crossesFace cross) := by
  unfold amFlags
  apply List.map_congr_left
  intro c hc
  exact antimeridian_iff cross hirr w c (hw c hc)

/-- non-vacuity: a quad and a padded triangle, one of them crossing -/
example : amFlags (fun (a b : Int) => decide (180 ≤ (b - a).natAbs)) 4
    [[170, -170, -170, 170], [10, 20, 15]] = [true, false] := by decide

/-! ## `exclude` -/

theorem keep_eq (g : G) (p : Nat) :
    keep g p = (List.range g.n).filter (fun i => !g.am p i) := by
  unfold keep amOf
  have h := deleteIdx_idxWhere (List.range g.n) (g.am p)
  rw [List.length_range] at h
  rw [h]
  exact filterMap_getElem?_range g.n _ (fun i hi => List.mem_range.mp (List.mem_filter.mp hi).1)

theorem mem_keep (g : G) (p i : Nat) : i ∈ keep g p ↔ i < g.n ∧ g.am p i = false := by
  rw [keep_eq]; simp

theorem pairwise_range (n : Nat) : (List.range n).Pairwise (· < ·) := by
  induction n with
  | zero => simp
  | succ n ih =>
    rw [List.range_succ, List.pairwise_append]
    refine ⟨ih, by simp, ?_⟩
    intro a ha b hb
    simp at hb; subst hb
    exact List.mem_range.mp ha

/-- `np.delete(values, antimeridian_face_indices)` follows the kept faces -/
theorem delete_follows (g : G) (p : Nat) {β} (vals : List β) (hv : vals.length = g.n) :
    deleteIdx vals (amOf g p) = (keep g p).filterMap (fun i => vals[i]?) := by
  unfold amOf
  rw [← hv, deleteIdx_idxWhere, hv, ← keep_eq]

/-- **exclude_map** (no projection): the polygons are exactly the faces that do not cross, in
    face order, each once; `np.delete` on the data picks, for polygon `k`, the value of the face
    polygon `k` shows. -/
theorem exclude_map (R : Repairs) (g : G) {β} (vals : List β) (hv : vals.length = g.n) :
    gdfRows R g .exclude 0 = (List.range g.n).filter (fun i => !g.am 0 i) ∧
    (gdfRows R g .exclude 0).Pairwise (· < ·) ∧
    (∀ i, i ∈ gdfRows R g .exclude 0 ↔ i < g.n ∧ g.am 0 i = false) ∧
    (gdfData .exclude (amOf g 0) (nnOf g 0) vals).map some
      = (gdfRows R g .exclude 0).map (fun i => vals[i]?) := by
  have hr : gdfRows R g .exclude 0 = keep g 0 := by simp [gdfRows, nnOf, applyNn]
  refine ⟨by rw [hr, keep_eq], ?_, ?_, ?_⟩
  · rw [hr, keep_eq]; exact (pairwise_range g.n).filter _
  · intro i; rw [hr]; exact mem_keep g 0 i
  · rw [hr]
    simp only [gdfData, nnOf, applyNn, if_true]
    rw [delete_follows g 0 vals hv]
    exact filterMap_map_some vals _ (fun i hi => by rw [hv]; exact ((mem_keep g 0 i).mp hi).1)

/-! ## the non-NaN filter composed with the exclusion -/

theorem rows_exclude (g : G) (p : Nat) :
    applyNn (nnOf g p) (keep g p)
      = (List.range g.n).filter (fun i => !g.am p i && !(if p = 0 then false else g.nan p i)) := by
  unfold nnOf
  by_cases hp : p = 0
  · simp [hp, applyNn, keep_eq]
  · simp only [hp, if_false, applyNn]
    rw [gather_posWhere, keep_eq, List.filter_filter]
    apply List.filter_congr
    intro i _
    simp [Bool.and_comm]

/-- **nan_filter_compose**: under `exclude`, with any projection, the positions computed on the
    array WITHOUT the crossing faces, applied to the kept faces and to the kept data, give: the
    polygons are exactly the faces that neither cross nor project to NaN, in face order, and the
    data value at polygon `k` is the value of the face polygon `k` shows.  Holds for the
    GeoDataFrame, the PolyCollection and the LineCollection (same index tables). -/
theorem nan_filter_compose (R : Repairs) (g : G) (p : Nat) {β} (vals : List β) (hv : vals.length = g.n) :
    gdfRows R g .exclude p
      = (List.range g.n).filter (fun i => !g.am p i && !(if p = 0 then false else g.nan p i)) ∧
    (polyRows R g .exclude p).1 = gdfRows R g .exclude p ∧
    (lineRows R g .exclude p).1 = gdfRows R g .exclude p ∧
    (gdfData .exclude (amOf g p) (nnOf g p) vals).map some
      = (gdfRows R g .exclude p).map (fun i => vals[i]?) ∧
    polyData .exclude (amOf g p) (nnOf g p) (polyRows R g .exclude p).2.1 vals
      = gdfData .exclude (amOf g p) (nnOf g p) vals := by
  have hr : gdfRows R g .exclude p = applyNn (nnOf g p) (keep g p) := rfl
  refine ⟨by rw [hr, rows_exclude], rfl, rfl, ?_, ?_⟩
  · have hin : ∀ i ∈ gdfRows R g .exclude p, i < vals.length := by
      intro i hi
      rw [hr, rows_exclude] at hi
      rw [hv]; exact List.mem_range.mp (List.mem_filter.mp hi).1
    rw [← filterMap_map_some vals _ hin]
    congr 1
    simp only [gdfData, if_true]
    rw [delete_follows g p vals hv, hr]
    unfold nnOf
    by_cases hp : p = 0
    · simp [hp, applyNn]
    · simp only [hp, if_false, applyNn]
      rw [gather_posWhere]
      apply gather_filterMap_posWhere
      intro i hi
      have : i < vals.length := by rw [hv]; exact ((mem_keep g p i).mp hi).1
      exact ⟨vals[i], by simp [this]⟩
  · simp [polyData, gdfData]

/-! ## `split` -/

theorem mem_c2oSplit (g : G) (p k : Nat) : k ∈ c2oSplit g p ↔ k < g.n ∧ 0 < g.pieces p k := by
  unfold c2oSplit
  simp only [List.mem_flatMap, List.mem_range, List.mem_replicate]
  constructor
  · rintro ⟨i, hi, hne, rfl⟩; exact ⟨hi, Nat.pos_of_ne_zero hne⟩
  · rintro ⟨hk, hp⟩; exact ⟨k, hk, Nat.ne_of_gt hp, rfl⟩

theorem c2o_prefix (f : Nat → Nat) (m : Nat) :
    ((List.range m).flatMap (fun i => List.replicate (f i) i)).Pairwise (· ≤ ·) ∧
    (∀ x ∈ (List.range m).flatMap (fun i => List.replicate (f i) i), x < m) ∧
    ∀ i, ((List.range m).flatMap (fun i => List.replicate (f i) i)).count i
        = if i < m then f i else 0 := by
  induction m with
  | zero => simp
  | succ m ih =>
    obtain ⟨h1, h2, h3⟩ := ih
    rw [List.range_succ, List.flatMap_append]
    simp only [List.flatMap_cons, List.flatMap_nil, List.append_nil]
    refine ⟨?_, ?_, ?_⟩
    · rw [List.pairwise_append]
      refine ⟨h1, by simp [List.pairwise_replicate], ?_⟩
      intro a ha b hb
      have := h2 a ha
      have := (List.mem_replicate.mp hb).2
      omega
    · intro x hx
      rcases List.mem_append.mp hx with hx | hx
      · have := h2 x hx; omega
      · have := (List.mem_replicate.mp hx).2; omega
    · intro i
      rw [List.count_append, h3 i, List.count_replicate]
      by_cases h : i < m
      · have : ¬ (m == i) = true := by simp; omega
        simp [h, this]; omega
      · by_cases h' : i = m
        · subst h'; simp
        · have : ¬ (m == i) = true := by simp; omega
          have h'' : ¬ i < m + 1 := by omega
          simp [h, this, h'']

/-- **split_map**: every piece maps to a face, pieces come in face order, face `i` owns exactly
    `pieces i` of them (so every face with at least one piece is present), and
    `values[corrected_to_original_faces]` puts on piece `k` the value of the face it was cut from. -/
theorem split_map (R : Repairs) (g : G) (p : Nat) {β} (vals : List β) (hv : vals.length = g.n) :
    (∀ k ∈ c2oSplit g p, k < g.n) ∧
    (c2oSplit g p).Pairwise (· ≤ ·) ∧
    (∀ i, i < g.n → (c2oSplit g p).count i = g.pieces p i) ∧
    (∀ i, i < g.n → 0 < g.pieces p i → i ∈ c2oSplit g p) ∧
    (polyData .split (amOf g p) none (c2oSplit g p) vals).map some
      = (c2oSplit g p).map (fun i => vals[i]?) ∧
    gdfRows R g .split p = List.range g.n := by
  obtain ⟨h1, h2, h3⟩ := c2o_prefix (g.pieces p) g.n
  refine ⟨h2, h1, ?_, ?_, ?_, rfl⟩
  · intro i hi; have := h3 i; simp only [hi, if_true] at this; exact this
  · intro i hi hp; exact (mem_c2oSplit g p i).mpr ⟨hi, hp⟩
  · simp only [polyData, applyNn]
    exact gather_map_some vals _ (fun i hi => by rw [hv]; exact h2 i hi)

/-! ## `ignore` -/

theorem nnFor_zero (R : Repairs) (g : G) (pe : Pe) : nnFor R g pe 0 = none := by
  unfold nnFor nnOf nnAll; split <;> rfl

theorem nnFor_exclude (R : Repairs) (g : G) (p : Nat) : nnFor R g .exclude p = nnOf g p := by
  simp [nnFor]

theorem nnFor_ignore (R : Repairs) (hI : R.ignoreProj = true) (g : G) (p : Nat) :
    nnFor R g .ignore p = nnAll g p := by
  simp [nnFor, hI]

/-- **ignore_map** (no projection): the identity — polygon `i` is face `i`, value `i`. -/
theorem ignore_map (R : Repairs) (g : G) {β} (vals : List β) :
    gdfRows R g .ignore 0 = List.range g.n ∧
    (polyRows R g .ignore 0).1 = List.range g.n ∧
    (lineRows R g .ignore 0).1 = List.range g.n ∧
    gdfData .ignore (amOf g 0) (nnFor R g .ignore 0) vals = vals ∧
    polyData .ignore (amOf g 0) (nnFor R g .ignore 0) (polyRows R g .ignore 0).2.1 vals = vals := by
  have h0 : nnAll g 0 = none := by simp [nnAll]
  refine ⟨?_, ?_, ?_, ?_, ?_⟩
  · simp [gdfRows, nnFor_zero, applyNn]
  · cases hR : R.ignoreProj <;> simp [polyRows, hR, h0, applyNn]
  · cases hR : R.ignoreProj <;> simp [lineRows, hR, h0, applyNn]
  · simp [gdfData, nnFor_zero, applyNn]
  · simp [polyData, nnFor_zero, applyNn]

theorem keep_all (g : G) (p : Nat) (h : ∀ i, i < g.n → g.am p i = false) :
    keep g p = List.range g.n := by
  rw [keep_eq]
  apply List.filter_eq_self.mpr
  intro i hi
  simp [h i (List.mem_range.mp hi)]

theorem rows_ignore (g : G) (p : Nat) :
    applyNn (nnAll g p) (List.range g.n)
      = (List.range g.n).filter (fun i => !(if p = 0 then false else g.nan p i)) := by
  unfold nnAll
  by_cases hp : p = 0
  · have hft : (List.range g.n).filter (fun _ => true) = List.range g.n :=
      List.filter_eq_self.mpr (by simp)
    simp [hp, applyNn, hft]
  · simp only [hp, if_false, applyNn]
    rw [gather_posWhere]

/-- **ignore_map with a projection** (repaired code): whatever faces cross, the exported polygons are
    exactly the faces the projection can represent (no NaN), in face order, in the projected coordinates,
    for all three exporters, and the data value at polygon `k` is the value of the face polygon `k` shows. -/
theorem ignore_map_projection (R : Repairs) (hI : R.ignoreProj = true) (g : G) (p : Nat) {β}
    (vals : List β) (hv : vals.length = g.n) :
    gdfRows R g .ignore p
      = (List.range g.n).filter (fun i => !(if p = 0 then false else g.nan p i)) ∧
    polyRows R g .ignore p = (gdfRows R g .ignore p, [], p) ∧
    lineRows R g .ignore p = (gdfRows R g .ignore p, p) ∧
    (gdfData .ignore (amOf g p) (nnFor R g .ignore p) vals).map some
      = (gdfRows R g .ignore p).map (fun i => vals[i]?) ∧
    polyData .ignore (amOf g p) (nnFor R g .ignore p) (polyRows R g .ignore p).2.1 vals
      = gdfData .ignore (amOf g p) (nnFor R g .ignore p) vals := by
  have hr : gdfRows R g .ignore p = applyNn (nnAll g p) (List.range g.n) := by
    simp [gdfRows, nnFor_ignore R hI]
  refine ⟨by rw [hr, rows_ignore], by simp [polyRows, hI, hr], by simp [lineRows, hI, hr], ?_, ?_⟩
  · have hin : ∀ i ∈ gdfRows R g .ignore p, i < vals.length := by
      intro i hi
      rw [hr, rows_ignore] at hi
      rw [hv]; exact List.mem_range.mp (List.mem_filter.mp hi).1
    rw [← filterMap_map_some vals _ hin]
    congr 1
    simp only [gdfData, nnFor_ignore R hI, hr]
    have hself : (List.range g.n).filterMap (fun i => vals[i]?) = vals := by
      rw [← hv]; exact filterMap_getElem?_self vals
    unfold nnAll
    by_cases hp : p = 0
    · simp [hp, applyNn, hself]
    · simp only [hp, if_false, applyNn]
      rw [gather_posWhere]
      have := gather_filterMap_posWhere (fun i => !g.nan p i) (fun i => vals[i]?) (List.range g.n)
        (fun i hi => ⟨vals[i]'(by rw [hv]; exact List.mem_range.mp hi), by
          simp [show i < vals.length by rw [hv]; exact List.mem_range.mp hi]⟩)
      rw [hself] at this
      simpa using this
  · simp [polyData, gdfData]


/-! ## the export caches: invariant -/

section machine
variable {β : Type}

/-- a cached frame carries the side tables and the geometry of its own key -/
def GdfInv (R : Repairs) (g : G) (s : St β) : Prop :=
  ∀ e, s.gdf = some e →
    e.am = amOf g e.key.proj ∧ e.nn = nnFor R g e.key.pe e.key.proj ∧
    ∃ fr, s.heap[e.id]? = some fr ∧ fr.rows = gdfRows R g e.key.pe e.key.proj ∧ fr.tag = e.key.proj

def PolyInv (R : Repairs) (g : G) (s : St β) : Prop :=
  ∀ e, s.poly = some e →
    e.am = amOf g e.proj ∧ e.nn = nnFor R g e.pe e.proj ∧
    (e.rows, e.c2o, e.tag) = polyRows R g e.pe e.proj ∧ ¬ (e.pe = .split ∧ e.proj ≠ 0)

def LineInv (R : Repairs) (g : G) (s : St β) : Prop :=
  ∀ e, s.line = some e → (e.rows, e.tag) = lineRows R g e.pe e.proj

def Inv (R : Repairs) (g : G) (s : St β) : Prop := GdfInv R g s ∧ PolyInv R g s ∧ LineInv R g s

theorem inv_init (R : Repairs) (g : G) : Inv R g (St.init : St β) := by
  refine ⟨?_, ?_, ?_⟩ <;> intro e h <;> cases h

theorem getElem?_lt {α} {l : List α} {j : Nat} {x : α} (h : l[j]? = some x) : j < l.length := by
  rcases Nat.lt_or_ge j l.length with hlt | hge
  · exact hlt
  · rw [List.getElem?_eq_none hge] at h; cases h

/-- what `Grid.to_geodataframe` guarantees when it returns a frame (repaired: also when the frame comes
    from the cache, whatever conversions were made in between) -/
structure GdfPost (R : Repairs) (g : G) (s s1 : St β) (k : Key) (id : Nat) (nn : Option (List Nat)) :
    Prop where
  nn_eq : nn = nnFor R g k.pe k.proj
  am_eq : s1.gdfAm = amOf g k.proj
  fr : ∃ fr, s1.heap[id]? = some fr ∧ fr.rows = gdfRows R g k.pe k.proj ∧ fr.tag = k.proj
  rest : s1.poly = s.poly ∧ s1.polyNn = s.polyNn ∧ s1.polyAm = s.polyAm ∧ s1.line = s.line
  inv : GdfInv R g s1
  mono : ∀ (j : Nat) (fr : Frame β), s.heap[j]? = some fr → s1.heap[j]? = some fr

theorem gdfCompute_post (R : Repairs) (g : G) (s : St β) (hinv : GdfInv R g s) (k : Key) (c : Bool) :
    GdfPost R g s (gdfCompute R g s k c).1 k s.heap.length (nnFor R g k.pe k.proj) ∧
    (gdfCompute R g s k c).2 = some (s.heap.length, nnFor R g k.pe k.proj) := by
  have hmono : ∀ (j : Nat) (fr : Frame β), s.heap[j]? = some fr →
      (gdfCompute R g s k c).1.heap[j]? = some fr := by
    intro j fr hj
    simp only [gdfCompute]
    rw [List.getElem?_append_left (getElem?_lt hj)]; exact hj
  refine ⟨⟨rfl, rfl, ?_, ⟨rfl, rfl, rfl, rfl⟩, ?_, hmono⟩, rfl⟩
  · exact ⟨{ rows := gdfRows R g k.pe k.proj, tag := k.proj, eng := k.eng, cols := [] },
      by simp [gdfCompute], rfl, rfl⟩
  · intro e he
    cases c with
    | true =>
      simp only [gdfCompute, if_true, Option.some.injEq] at he
      subst he
      exact ⟨rfl, rfl, { rows := gdfRows R g k.pe k.proj, tag := k.proj, eng := k.eng, cols := [] },
        by simp [gdfCompute], rfl, rfl⟩
    | false =>
      simp only [gdfCompute] at he
      obtain ⟨h1, h2, fr, h3, h4, h5⟩ := hinv e he
      exact ⟨h1, h2, fr, hmono _ _ h3, h4, h5⟩

theorem gdfCore_some (R : Repairs) (hS : R.sideRestore = true) (g : G) (s : St β)
    (hinv : GdfInv R g s) (k : Key) (c o : Bool) (hk : ¬ (k.pe = .split ∧ k.proj ≠ 0)) :
    ∃ id nn, (gdfCore R g s k c o).2 = some (id, nn) ∧
      GdfPost R g s (gdfCore R g s k c o).1 k id nn := by
  unfold gdfCore
  rw [if_neg hk]
  cases hs : s.gdf with
  | none =>
    exact ⟨_, _, (gdfCompute_post R g s hinv k c).2, (gdfCompute_post R g s hinv k c).1⟩
  | some e =>
    simp only
    by_cases hh : e.key = k ∧ o = false
    · rw [if_pos hh]
      obtain ⟨h1, h2, fr, h3, h4, h5⟩ := hinv e hs
      refine ⟨e.id, e.nn, rfl, ?_⟩
      rw [hh.1] at h1 h2 h4 h5
      refine ⟨h2, by simp [hS, h1], ⟨fr, h3, h4, h5⟩, ⟨rfl, rfl, rfl, rfl⟩, ?_, fun _ _ h => h⟩
      intro e' he'
      exact hinv e' (hs.trans he')
    · rw [if_neg hh]
      exact ⟨_, _, (gdfCompute_post R g s hinv k c).2, (gdfCompute_post R g s hinv k c).1⟩

theorem gdfCore_none (R : Repairs) (g : G) (s : St β) (k : Key) (c o : Bool)
    (hk : k.pe = .split ∧ k.proj ≠ 0) : gdfCore R g s k c o = (s, none) := by
  unfold gdfCore; rw [if_pos hk]

/-- what `Grid.to_polycollection` guarantees when it returns -/
structure PolyPost (R : Repairs) (g : G) (s s1 : St β) (pe : Pe) (p : Nat)
    (r : List Nat × List Nat × Nat) : Prop where
  r_eq : r = polyRows R g pe p
  am_eq : s1.polyAm = amOf g p
  nn_eq : s1.polyNn = nnFor R g pe p
  rest : s1.heap = s.heap ∧ s1.gdf = s.gdf ∧ s1.gdfAm = s.gdfAm ∧ s1.line = s.line
  inv : PolyInv R g s1

theorem polyCore_some (R : Repairs) (hS : R.sideRestore = true) (g : G) (s : St β)
    (hinv : PolyInv R g s) (pe : Pe) (p : Nat) (c o : Bool) (hk : ¬ (pe = .split ∧ p ≠ 0)) :
    ∃ r, (polyCore R g s pe p c o).2 = some r ∧ PolyPost R g s (polyCore R g s pe p c o).1 pe p r := by
  have hcomp : PolyPost R g s (polyCompute R g s pe p c).1 pe p (polyRows R g pe p) := by
    refine ⟨rfl, rfl, rfl, ⟨rfl, rfl, rfl, rfl⟩, ?_⟩
    intro e he
    cases c with
    | true =>
      simp only [polyCompute, if_true, Option.some.injEq] at he
      subst he
      exact ⟨rfl, rfl, rfl, hk⟩
    | false =>
      simp only [polyCompute] at he
      exact hinv e he
  unfold polyCore
  cases hs : s.poly with
  | none =>
    simp only [if_neg hk]
    exact ⟨_, rfl, hcomp⟩
  | some e =>
    simp only
    by_cases hh : e.pe = pe ∧ e.proj = p ∧ o = false
    · rw [if_pos hh]
      obtain ⟨h1, h2, h3, _⟩ := hinv e hs
      rw [hh.1, hh.2.1] at h3 h2; rw [hh.2.1] at h1
      refine ⟨_, rfl, ⟨h3, by simp [hS, h1], by simp [hS, h2], ⟨rfl, rfl, rfl, rfl⟩, ?_⟩⟩
      intro e' he'
      exact hinv e' (hs.trans he')
    · rw [if_neg hh, if_neg hk]
      exact ⟨_, rfl, hcomp⟩

theorem polyCore_none (R : Repairs) (g : G) (s : St β) (hinv : PolyInv R g s) (pe : Pe) (p : Nat)
    (c o : Bool) (hk : pe = .split ∧ p ≠ 0) : polyCore R g s pe p c o = (s, none) := by
  unfold polyCore
  cases hs : s.poly with
  | none => simp only [if_pos hk]
  | some e =>
    simp only
    by_cases hh : e.pe = pe ∧ e.proj = p ∧ o = false
    · exfalso
      obtain ⟨_, _, _, h4⟩ := hinv e hs
      exact h4 ⟨hh.1 ▸ hk.1, hh.2.1 ▸ hk.2⟩
    · rw [if_neg hh, if_pos hk]

theorem lineCore_post (R : Repairs) (g : G) (s : St β) (hinv : LineInv R g s) (pe : Pe) (p : Nat)
    (c o : Bool) :
    (lineCore R g s pe p c o).2 = lineRows R g pe p ∧
    (lineCore R g s pe p c o).1.heap = s.heap ∧ (lineCore R g s pe p c o).1.gdf = s.gdf ∧
    (lineCore R g s pe p c o).1.gdfAm = s.gdfAm ∧ (lineCore R g s pe p c o).1.poly = s.poly ∧
    (lineCore R g s pe p c o).1.polyNn = s.polyNn ∧ (lineCore R g s pe p c o).1.polyAm = s.polyAm ∧
    LineInv R g (lineCore R g s pe p c o).1 := by
  have hcomp : LineInv R g (lineCompute R g s pe p c).1 := by
    intro e he
    cases c with
    | true =>
      simp only [lineCompute, if_true, Option.some.injEq] at he
      subst he; rfl
    | false =>
      simp only [lineCompute] at he
      exact hinv e he
  unfold lineCore
  cases hs : s.line with
  | none => exact ⟨rfl, rfl, rfl, rfl, rfl, rfl, rfl, hcomp⟩
  | some e =>
    simp only
    by_cases hh : e.pe = pe ∧ e.proj = p ∧ o = false
    · rw [if_pos hh]
      have := hinv e hs
      rw [hh.1, hh.2.1] at this
      exact ⟨this, rfl, rfl, rfl, rfl, rfl, rfl, hinv⟩
    · rw [if_neg hh]
      exact ⟨rfl, rfl, rfl, rfl, rfl, rfl, rfl, hcomp⟩

/-- attaching the data column: the frame handed out has the geometry of the frame it was made from and
    the column just written; every frame that existed keeps its geometry, and — with the copy — itself -/
theorem attachCol_spec (R : Repairs) (heap : List (Frame β)) (id v : Nat) (d : List β) (fr : Frame β)
    (h : heap[id]? = some fr) :
    (∃ fr', (attachCol R heap id v d).1[(attachCol R heap id v d).2]? = some fr' ∧
      fr'.rows = fr.rows ∧ fr'.tag = fr.tag ∧ col fr'.cols v = some d) ∧
    (∀ (j : Nat) (f0 : Frame β), heap[j]? = some f0 →
      ∃ f1, (attachCol R heap id v d).1[j]? = some f1 ∧ f1.rows = f0.rows ∧ f1.tag = f0.tag ∧
        f1.eng = f0.eng ∧ (R.copyFrame = true ∨ j ≠ id → f1 = f0)) := by
  unfold attachCol
  cases hC : R.copyFrame with
  | true =>
    simp only [if_true, h]
    refine ⟨⟨{ fr with cols := setCol fr.cols v d }, by simp, rfl, rfl, col_setCol _ _ _⟩, ?_⟩
    intro j f0 hj
    exact ⟨f0, by rw [List.getElem?_append_left (getElem?_lt hj)]; exact hj, rfl, rfl, rfl, fun _ => rfl⟩
  | false =>
    simp only [Bool.false_eq_true, if_false]
    obtain ⟨fr', hw1, hw2, hw3, _, _, hw6⟩ := writeCol_get heap id v d id fr h
    refine ⟨⟨fr', hw1, hw2, hw3, by rw [hw6 rfl]; exact col_setCol _ _ _⟩, ?_⟩
    intro j f0 hj
    obtain ⟨f1, g1, g2, g3, g4, g5, _⟩ := writeCol_get heap id v d j f0 hj
    refine ⟨f1, g1, g2, g3, g4, ?_⟩
    rintro (hc | hne)
    · cases hc
    · exact g5 hne

/-- one conversion from ANY consistent state returns what its arguments alone determine -/
theorem step_view (R : Repairs) (hS : R.sideRestore = true) (g : G) (s : St β) (hinv : Inv R g s)
    (op : Op β) : view (step R g s op).1 op (step R g s op).2 = pureView R g op := by
  obtain ⟨hg, hp, hl⟩ := hinv
  cases op with
  | gridGdf k c o =>
    by_cases hk : k.pe = .split ∧ k.proj ≠ 0
    · have e := gdfCore_none R g s k c o hk
      simp only [step, e]
      simp [view, pureView, hk]
    · obtain ⟨id, nn, h2, post⟩ := gdfCore_some R hS g s hg k c o hk
      cases hgc : gdfCore R g s k c o with
      | mk s1 r =>
        rw [hgc] at h2 post; simp only at h2 post; subst h2
        obtain ⟨fr, hf1, hf2, hf3⟩ := post.fr
        simp [step, hgc, view, pureView, hk, hf1, hf2, hf3]
  | daGdf v vals k c o =>
    by_cases hv : vals.length ≠ g.n
    · simp [step, hv, view, pureView]
    · by_cases hk : k.pe = .split ∧ k.proj ≠ 0
      · have e := gdfCore_none R g s k c o hk
        simp only [step, if_neg hv, e]
        simp [view, pureView, hk, hv]
      · obtain ⟨id, nn, h2, post⟩ := gdfCore_some R hS g s hg k c o hk
        cases hgc : gdfCore R g s k c o with
        | mk s1 r =>
          rw [hgc] at h2 post; simp only at h2 post; subst h2
          obtain ⟨fr, hf1, hf2, hf3⟩ := post.fr
          obtain ⟨⟨fr', hw1, hw2, hw3, hw4⟩, _⟩ :=
            attachCol_spec R s1.heap id v (gdfData k.pe s1.gdfAm nn vals) fr hf1
          simp only [step, if_neg hv, hgc, view, hw1, pureView, hk]
          rw [hw4, hw2, hw3, hf2, hf3, post.am_eq, post.nn_eq]
          simp
  | gridPoly pe p c o =>
    by_cases hk : pe = .split ∧ p ≠ 0
    · have e := polyCore_none R g s hp pe p c o hk
      simp only [step, e]
      simp [view, pureView, hk]
    · obtain ⟨r, h2, post⟩ := polyCore_some R hS g s hp pe p c o hk
      cases hgc : polyCore R g s pe p c o with
      | mk s1 r' =>
        rw [hgc] at h2 post; simp only at h2 post; subst h2
        obtain ⟨rows, c2o, tag⟩ := r
        have := post.r_eq
        simp [step, hgc, view, pureView, hk, ← this]
  | daPoly vals pe p c o =>
    by_cases hv : vals.length ≠ g.n
    · simp [step, hv, view, pureView]
    · by_cases hk : pe = .split ∧ p ≠ 0
      · have e := polyCore_none R g s hp pe p c o hk
        simp only [step, if_neg hv, e]
        simp [view, pureView, hk, hv]
      · obtain ⟨r, h2, post⟩ := polyCore_some R hS g s hp pe p c o hk
        cases hgc : polyCore R g s pe p c o with
        | mk s1 r' =>
          rw [hgc] at h2 post; simp only at h2 post; subst h2
          obtain ⟨rows, c2o, tag⟩ := r
          have := post.r_eq
          simp [step, hv, hgc, view, pureView, hk, ← this, post.am_eq, post.nn_eq]
  | gridLine pe p c o =>
    have := (lineCore_post R g s hl pe p c o).1
    cases hgc : lineCore R g s pe p c o with
    | mk s1 r =>
      rw [hgc] at this; simp only at this
      obtain ⟨rows, tag⟩ := r
      simp [step, hgc, view, pureView, ← this]

/-- EVERY conversion — cached or not, overriding or not — keeps the caches consistent -/
theorem step_inv (R : Repairs) (hS : R.sideRestore = true) (g : G) (s : St β) (hinv : Inv R g s)
    (op : Op β) : Inv R g (step R g s op).1 := by
  obtain ⟨hg, hp, hl⟩ := hinv
  cases op with
  | gridGdf k c o =>
    by_cases hk : k.pe = .split ∧ k.proj ≠ 0
    · simp only [step, gdfCore_none R g s k c o hk]; exact ⟨hg, hp, hl⟩
    · obtain ⟨id, nn, h2, post⟩ := gdfCore_some R hS g s hg k c o hk
      cases hgc : gdfCore R g s k c o with
      | mk s1 r =>
        rw [hgc] at h2 post; simp only at h2 post; subst h2
        simp only [step, hgc]
        obtain ⟨r1, r2, r3, r4⟩ := post.rest
        refine ⟨post.inv, ?_, ?_⟩
        · intro e he; rw [r1] at he; exact hp e he
        · intro e he; rw [r4] at he; exact hl e he
  | daGdf v vals k c o =>
    by_cases hv : vals.length ≠ g.n
    · simp only [step, if_pos hv]; exact ⟨hg, hp, hl⟩
    · by_cases hk : k.pe = .split ∧ k.proj ≠ 0
      · simp only [step, if_neg hv, gdfCore_none R g s k c o hk]; exact ⟨hg, hp, hl⟩
      · obtain ⟨id, nn, h2, post⟩ := gdfCore_some R hS g s hg k c o hk
        cases hgc : gdfCore R g s k c o with
        | mk s1 r =>
          rw [hgc] at h2 post; simp only at h2 post; subst h2
          simp only [step, if_neg hv, hgc]
          obtain ⟨r1, r2, r3, r4⟩ := post.rest
          obtain ⟨fr0, hf1, _, _⟩ := post.fr
          have hat := (attachCol_spec R s1.heap id v (gdfData k.pe s1.gdfAm nn vals) fr0 hf1).2
          refine ⟨?_, ?_, ?_⟩
          · intro e he
            obtain ⟨h1, h2, fr, h3, h4, h5⟩ := post.inv e he
            obtain ⟨f1, g1, g2, g3, _⟩ := hat e.id fr h3
            exact ⟨h1, h2, f1, g1, by rw [g2, h4], by rw [g3, h5]⟩
          · intro e he; exact hp e (r1 ▸ he)
          · intro e he; exact hl e (r4 ▸ he)
  | gridPoly pe p c o =>
    by_cases hk : pe = .split ∧ p ≠ 0
    · simp only [step, polyCore_none R g s hp pe p c o hk]; exact ⟨hg, hp, hl⟩
    · obtain ⟨r, h2, post⟩ := polyCore_some R hS g s hp pe p c o hk
      cases hgc : polyCore R g s pe p c o with
      | mk s1 r' =>
        rw [hgc] at h2 post; simp only at h2 post; subst h2
        obtain ⟨rows, c2o, tag⟩ := r
        simp only [step, hgc]
        obtain ⟨r1, r2, r3, r4⟩ := post.rest
        refine ⟨?_, post.inv, ?_⟩
        · intro e he; rw [r2] at he; rw [r1]; exact hg e he
        · intro e he; rw [r4] at he; exact hl e he
  | daPoly vals pe p c o =>
    by_cases hv : vals.length ≠ g.n
    · simp only [step, if_pos hv]; exact ⟨hg, hp, hl⟩
    · by_cases hk : pe = .split ∧ p ≠ 0
      · simp only [step, if_neg hv, polyCore_none R g s hp pe p c o hk]; exact ⟨hg, hp, hl⟩
      · obtain ⟨r, h2, post⟩ := polyCore_some R hS g s hp pe p c o hk
        cases hgc : polyCore R g s pe p c o with
        | mk s1 r' =>
          rw [hgc] at h2 post; simp only at h2 post; subst h2
          obtain ⟨rows, c2o, tag⟩ := r
          simp only [step, if_neg hv, hgc]
          obtain ⟨r1, r2, r3, r4⟩ := post.rest
          refine ⟨?_, post.inv, ?_⟩
          · intro e he; rw [r2] at he; rw [r1]; exact hg e he
          · intro e he; rw [r4] at he; exact hl e he
  | gridLine pe p c o =>
    obtain ⟨_, r1, r2, r3, r4, r5, r6, r7⟩ := lineCore_post R g s hl pe p c o
    cases hgc : lineCore R g s pe p c o with
    | mk s1 r =>
      rw [hgc] at r1 r2 r3 r4 r5 r6 r7; simp only at r1 r2 r3 r4 r5 r6 r7
      obtain ⟨rows, tag⟩ := r
      simp only [step, hgc]
      refine ⟨?_, ?_, r7⟩
      · intro e he; rw [r2] at he; rw [r1]; exact hg e he
      · intro e he; rw [r4] at he; exact hp e he

theorem run_inv (R : Repairs) (hS : R.sideRestore = true) (g : G) (h : List (Op β)) (s : St β)
    (hinv : Inv R g s) : Inv R g (run R g s h).1 := by
  induction h generalizing s with
  | nil => exact hinv
  | cons op ops ih =>
    simp only [run]
    exact ih _ (step_inv R hS g s hinv op)

/-- **export_history_free** (full strength, repaired code): after ANY history of conversions on the
    grid — any mix of GeoDataFrame / PolyCollection / LineCollection exports, of the grid or of any
    variables, with any `periodic_elements`, projections, engines, `cache` and `override` flags — a
    conversion returns exactly what its own arguments determine: same polygons ↦ faces, same coordinate
    system, same data on every polygon; in particular the same as on a new grid.
    Without the repair this is false: `asis_uncached_conversion_poisons`. -/
theorem export_history_free (R : Repairs) (hS : R.sideRestore = true) (g : G) (h : List (Op β))
    (op : Op β) :
    viewAfter R g h op = pureView R g op ∧ viewAfter R g h op = viewAfter R g [] op := by
  have h1 : viewAfter R g h op = pureView R g op :=
    step_view R hS g _ (run_inv R hS g h St.init (inv_init R g)) op
  have h2 : viewAfter R g [] op = pureView R g op := step_view R hS g _ (inv_init R g) op
  exact ⟨h1, by rw [h1, h2]⟩

/-! ## returned objects -/

/-- `Grid.to_geodataframe` never touches a frame that exists already; a frame it CREATES gets the
    next free address -/
theorem gdfCore_heap (R : Repairs) (g : G) (s : St β) (k : Key) (c o : Bool) :
    (∀ (j : Nat) (fr : Frame β), s.heap[j]? = some fr →
      (gdfCore R g s k c o).1.heap[j]? = some fr) ∧
    (o = true → ∀ id nn, (gdfCore R g s k c o).2 = some (id, nn) → id = s.heap.length) := by
  have hcomp : ∀ (j : Nat) (fr : Frame β), s.heap[j]? = some fr →
      (gdfCompute R g s k c).1.heap[j]? = some fr := by
    intro j fr hj
    simp only [gdfCompute]
    rw [List.getElem?_append_left (getElem?_lt hj)]; exact hj
  unfold gdfCore
  by_cases hk : k.pe = .split ∧ k.proj ≠ 0
  · rw [if_pos hk]; exact ⟨fun _ _ h => h, fun _ _ _ h => by cases h⟩
  · rw [if_neg hk]
    cases hs : s.gdf with
    | none =>
      refine ⟨hcomp, ?_⟩
      intro _ id nn h; simp only [gdfCompute, Option.some.injEq, Prod.mk.injEq] at h; exact h.1.symm
    | some e =>
      simp only
      by_cases hh : e.key = k ∧ o = false
      · rw [if_pos hh]
        exact ⟨fun _ _ h => h, fun ho => by rw [hh.2] at ho; cases ho⟩
      · rw [if_neg hh]
        refine ⟨hcomp, ?_⟩
        intro _ id nn h
        simp only [gdfCompute, Option.some.injEq, Prod.mk.injEq] at h; exact h.1.symm

theorem polyCore_heap (R : Repairs) (g : G) (s : St β) (pe : Pe) (p : Nat) (c o : Bool) :
    (polyCore R g s pe p c o).1.heap = s.heap := by
  unfold polyCore
  cases s.poly with
  | none => by_cases hk : pe = .split ∧ p ≠ 0 <;> simp [hk, polyCompute]
  | some e =>
    simp only
    by_cases hh : e.pe = pe ∧ e.proj = p ∧ o = false
    · rw [if_pos hh]
    · rw [if_neg hh]; by_cases hk : pe = .split ∧ p ≠ 0 <;> simp [hk, polyCompute]

theorem lineCore_heap (R : Repairs) (g : G) (s : St β) (pe : Pe) (p : Nat) (c o : Bool) :
    (lineCore R g s pe p c o).1.heap = s.heap := by
  unfold lineCore
  cases s.line with
  | none => simp [lineCompute]
  | some e =>
    simp only
    by_cases hh : e.pe = pe ∧ e.proj = p ∧ o = false
    · rw [if_pos hh]
    · rw [if_neg hh]; simp [lineCompute]

/-- without the copy: a conversion that can write into a frame it did not create —
    `UxDataArray.to_geodataframe` served from the cache -/
def mutates : Op β → Bool
  | .daGdf _ _ _ _ o => !o
  | _ => false

theorem attachCol_mono (R : Repairs) (heap : List (Frame β)) (id v : Nat) (d : List β) (j : Nat)
    (f0 : Frame β) (hj : heap[j]? = some f0) :
    ∃ f1, (attachCol R heap id v d).1[j]? = some f1 ∧ f1.rows = f0.rows ∧ f1.tag = f0.tag ∧
      f1.eng = f0.eng ∧ (R.copyFrame = true ∨ j ≠ id → f1 = f0) := by
  cases hid : heap[id]? with
  | some fr => exact (attachCol_spec R heap id v d fr hid).2 j f0 hj
  | none =>
    have : (attachCol R heap id v d).1 = heap := by
      unfold attachCol writeCol
      cases R.copyFrame <;> simp [hid]
    rw [this]
    exact ⟨f0, hj, rfl, rfl, rfl, fun _ => rfl⟩

/-- geometry of a handed-out frame is never altered by ANY later conversion, with or without the
    repairs; with the copy (or when the conversion is not a data conversion served from the cache)
    nothing of it is -/
theorem step_geometry (R : Repairs) (g : G) (s : St β) (op : Op β) (id : Nat) (fr : Frame β)
    (h : s.heap[id]? = some fr) :
    ∃ fr', (step R g s op).1.heap[id]? = some fr' ∧ fr'.rows = fr.rows ∧ fr'.tag = fr.tag ∧
      fr'.eng = fr.eng ∧ (R.copyFrame = true ∨ mutates op = false → fr' = fr) := by
  cases op with
  | gridGdf k c o =>
    have hm := (gdfCore_heap R g s k c o).1 id fr h
    cases hgc : gdfCore R g s k c o with
    | mk s1 r =>
      rw [hgc] at hm
      cases r with
      | none => exact ⟨fr, by simpa [step, hgc] using hm, rfl, rfl, rfl, fun _ => rfl⟩
      | some q => exact ⟨fr, by simpa [step, hgc] using hm, rfl, rfl, rfl, fun _ => rfl⟩
  | daGdf v vals k c o =>
    by_cases hv : vals.length ≠ g.n
    · exact ⟨fr, by simpa [step, if_pos hv] using h, rfl, rfl, rfl, fun _ => rfl⟩
    · have hm := (gdfCore_heap R g s k c o).1 id fr h
      have hid := (gdfCore_heap R g s k c o).2
      cases hgc : gdfCore R g s k c o with
      | mk s1 r =>
        rw [hgc] at hm hid
        cases r with
        | none => exact ⟨fr, by simpa [step, if_neg hv, hgc] using hm, rfl, rfl, rfl, fun _ => rfl⟩
        | some q =>
          obtain ⟨rid, nn⟩ := q
          obtain ⟨f1, g1, g2, g3, g4, g5⟩ :=
            attachCol_mono R s1.heap rid v (gdfData k.pe s1.gdfAm nn vals) id fr hm
          refine ⟨f1, by simpa [step, if_neg hv, hgc] using g1, g2, g3, g4, ?_⟩
          rintro (hc | hmut)
          · exact g5 (Or.inl hc)
          · have ho : o = true := by simpa [mutates] using hmut
            have : rid = s.heap.length := hid ho rid nn rfl
            apply g5; right
            have := getElem?_lt h
            omega
  | gridPoly pe p c o =>
    have hh := polyCore_heap R g s pe p c o
    cases hgc : polyCore R g s pe p c o with
    | mk s1 r =>
      rw [hgc] at hh; simp only at hh
      cases r with
      | none => exact ⟨fr, by simpa [step, hgc, hh] using h, rfl, rfl, rfl, fun _ => rfl⟩
      | some q => exact ⟨fr, by simpa [step, hgc, hh] using h, rfl, rfl, rfl, fun _ => rfl⟩
  | daPoly vals pe p c o =>
    by_cases hv : vals.length ≠ g.n
    · exact ⟨fr, by simpa [step, if_pos hv] using h, rfl, rfl, rfl, fun _ => rfl⟩
    · have hh := polyCore_heap R g s pe p c o
      cases hgc : polyCore R g s pe p c o with
      | mk s1 r =>
        rw [hgc] at hh; simp only at hh
        cases r with
        | none => exact ⟨fr, by simpa [step, if_neg hv, hgc, hh] using h, rfl, rfl, rfl, fun _ => rfl⟩
        | some q => exact ⟨fr, by simpa [step, if_neg hv, hgc, hh] using h, rfl, rfl, rfl, fun _ => rfl⟩
  | gridLine pe p c o =>
    have hh := lineCore_heap R g s pe p c o
    cases hgc : lineCore R g s pe p c o with
    | mk s1 r =>
      rw [hgc] at hh; simp only at hh
      exact ⟨fr, by simpa [step, hgc, hh] using h, rfl, rfl, rfl, fun _ => rfl⟩

/-- **returned_geometry_stable** (with or without the repairs): whatever conversions follow — any
    history, any flags, any variables — the polygons, coordinate system and engine of a frame that
    was handed out stay what they were. -/
theorem returned_geometry_stable (R : Repairs) (g : G) (h2 : List (Op β)) (s : St β) (id : Nat)
    (fr : Frame β) (h : s.heap[id]? = some fr) :
    ∃ fr', (run R g s h2).1.heap[id]? = some fr' ∧ fr'.rows = fr.rows ∧ fr'.tag = fr.tag ∧
      fr'.eng = fr.eng := by
  induction h2 generalizing s fr with
  | nil => exact ⟨fr, h, rfl, rfl, rfl⟩
  | cons op ops ih =>
    obtain ⟨fr1, h1, e1, e2, e3, _⟩ := step_geometry R g s op id fr h
    obtain ⟨fr2, h2', f1, f2, f3⟩ := ih (step R g s op).1 fr1 h1
    exact ⟨fr2, by simpa [run] using h2', f1.trans e1, f2.trans e2, f3.trans e3⟩

/-- **returned_object_stable** (full strength, repaired code): a frame that was handed out — in any state
    reached by any history — is not altered AT ALL (geometry, engine, data columns) by ANY later history of
    conversions of every kind and with every flag.
    Without the repair this is false: `asis_returned_frame_mutated`.
    PolyCollections are deep copies and LineCollections are never written to: they are values in this
    model; their stability is tested on the real objects by the harness. -/
theorem returned_object_stable (R : Repairs) (hC : R.copyFrame = true) (g : G) (h2 : List (Op β))
    (s : St β) (id : Nat) (fr : Frame β) (h : s.heap[id]? = some fr) :
    (run R g s h2).1.heap[id]? = some fr := by
  induction h2 generalizing s with
  | nil => exact h
  | cons op ops ih =>
    obtain ⟨fr1, h1, _, _, _, e⟩ := step_geometry R g s op id fr h
    rw [e (Or.inl hC)] at h1
    simpa [run] using ih (step R g s op).1 h1

end machine

/-! ## the pure semantics meets the specification -/

theorem flag_map_range (f : Nat → Bool) (n i : Nat) (hi : i < n) :
    flag ((List.range n).map f) i = f i := by
  simp [flag, hi]

theorem toNat_ofNat_lookup {β} (vals : List β) (rows : List Nat) :
    (rows.map Int.ofNat).map (fun r => if r < 0 then none else vals[r.toNat]?)
      = rows.map (fun i => vals[i]?) := by
  rw [List.map_map]
  apply List.map_congr_left
  intro i _
  show (if (i : Int) < 0 then none else vals[(i : Int).toNat]?) = vals[i]?
  have h : ¬ ((i : Int) < 0) := by omega
  rw [if_neg h]; simp

theorem in_range_ofNat (rows : List Nat) (n : Nat) (h : ∀ i ∈ rows, i < n) :
    ∀ r ∈ rows.map Int.ofNat, 0 ≤ r ∧ r < (n : Int) := by
  intro r hr
  obtain ⟨i, hi, rfl⟩ := List.mem_map.mp hr
  exact ⟨Int.natCast_nonneg i, Int.ofNat_lt.mpr (h i hi)⟩

theorem nodup_map_ofNat (rows : List Nat) (h : rows.Nodup) : (rows.map Int.ofNat).Nodup := by
  exact List.Pairwise.map Int.ofNat (fun a b hab e => hab (Int.ofNat.inj e)) h

theorem nodup_range_filter (n : Nat) (p : Nat → Bool) : ((List.range n).filter p).Nodup :=
  (List.nodup_range).filter _

/-- rows of the `exclude` policy as the specification spells them -/
theorem exclude_rows_spec (g : G) (p : Nat) :
    applyNn (nnOf g p) (keep g p)
      = (List.range g.n).filter (fun i =>
          !flag ((List.range g.n).map (g.am p)) i &&
          !(if (Int.ofNat p) = 0 then false else flag ((List.range g.n).map (g.nan p)) i)) := by
  rw [rows_exclude]
  apply List.filter_congr
  intro i hi
  have hi' := List.mem_range.mp hi
  rw [flag_map_range _ _ _ hi', flag_map_range _ _ _ hi']
  by_cases hp : p = 0 <;> simp [hp]

theorem ignore_rows_spec (g : G) (p : Nat) :
    applyNn (nnAll g p) (List.range g.n)
      = (List.range g.n).filter (fun i =>
          !(if (Int.ofNat p) = 0 then false else flag ((List.range g.n).map (g.nan p)) i)) := by
  rw [rows_ignore]
  apply List.filter_congr
  intro i hi
  rw [flag_map_range _ _ _ (List.mem_range.mp hi)]
  by_cases hp : p = 0 <;> simp [hp]

def mkCase {β} (g : G) (kd : Nat) (pe : Pe) (p : Nat) (vals : List β) : Case β :=
  { kind := kd, pe := pe, proj := p, n := g.n, am := (List.range g.n).map (g.am p),
    nan := (List.range g.n).map (g.nan p), dataIn := vals }

def mkObs {β} (rows : List Nat) (t : Nat) (d : Option (List β)) : Obs β :=
  { err := false, rows := rows.map Int.ofNat, tag := Int.ofNat t, dataOut := d }

/-- the projected coordinate system is the expected one for `exclude` / `ignore` -/
theorem tag_ok {β} (g : G) (kd p : Nat) (pe : Pe) (hpe : pe ≠ .split) (vals : List β) :
    Int.ofNat p = expTag (mkCase g kd pe p vals) := by
  unfold expTag mkCase
  by_cases hp : p = 0
  · simp [hp]
  · simp [hp, hpe]

theorem tag_split {β} (g : G) (kd p : Nat) (vals : List β) :
    Int.ofNat 0 = expTag (mkCase g kd .split p vals) := by
  simp [expTag, mkCase]

/-- family A: the `exclude` rows, in the requested coordinate system, for any exporter -/
theorem geom_exclude (g : G) {β} (kd p : Nat) (vals : List β) (d : Option (List β)) :
    VerticesOK (mkCase g kd .exclude p vals) (mkObs (applyNn (nnOf g p) (keep g p)) p d) ∧
    NoRepeat (mkCase g kd .exclude p vals) (mkObs (applyNn (nnOf g p) (keep g p)) p d) ∧
    FaceMapOK (mkCase g kd .exclude p vals) (mkObs (applyNn (nnOf g p) (keep g p)) p d) := by
  refine ⟨⟨?_, tag_ok g kd p .exclude (by decide) vals⟩, ?_, ?_⟩
  · apply in_range_ofNat
    intro i hi
    rw [rows_exclude] at hi
    exact List.mem_range.mp (List.mem_filter.mp hi).1
  · right
    apply nodup_map_ofNat
    rw [rows_exclude]; exact nodup_range_filter _ _
  · simp only [FaceMapOK, mkCase, mkObs, nanEff]
    rw [exclude_rows_spec]
    rfl

/-- family B: the `ignore` rows (repaired: all faces the projection can represent, projected) -/
theorem geom_ignore (g : G) {β} (kd p : Nat) (vals : List β) (d : Option (List β)) :
    VerticesOK (mkCase g kd .ignore p vals) (mkObs (applyNn (nnAll g p) (List.range g.n)) p d) ∧
    NoRepeat (mkCase g kd .ignore p vals) (mkObs (applyNn (nnAll g p) (List.range g.n)) p d) ∧
    FaceMapOK (mkCase g kd .ignore p vals) (mkObs (applyNn (nnAll g p) (List.range g.n)) p d) := by
  refine ⟨⟨?_, tag_ok g kd p .ignore (by decide) vals⟩, ?_, ?_⟩
  · apply in_range_ofNat
    intro i hi
    rw [rows_ignore] at hi
    exact List.mem_range.mp (List.mem_filter.mp hi).1
  · right
    apply nodup_map_ofNat
    rw [rows_ignore]; exact nodup_range_filter _ _
  · simp only [FaceMapOK, mkCase, mkObs, nanEff]
    rw [ignore_rows_spec]
    rfl

/-- family C: every face once, in lon/lat (`split` for frames: one row per face) -/
theorem geom_frame_split (g : G) {β} (p : Nat) (vals : List β) (d : Option (List β)) :
    VerticesOK (mkCase g 0 .split p vals) (mkObs (List.range g.n) 0 d) ∧
    NoRepeat (mkCase g 0 .split p vals) (mkObs (List.range g.n) 0 d) ∧
    FaceMapOK (mkCase g 0 .split p vals) (mkObs (List.range g.n) 0 d) := by
  refine ⟨⟨?_, tag_split g 0 p vals⟩, ?_, ?_⟩
  · exact in_range_ofNat _ _ (fun i hi => List.mem_range.mp hi)
  · right; exact nodup_map_ofNat _ List.nodup_range
  · simp [FaceMapOK, mkCase, mkObs]

/-- family D: the pieces of `split` (collections) -/
theorem geom_split (g : G) {β} (kd p q : Nat) (hkd : kd ≠ 0) (vals : List β) (d : Option (List β))
    (hpc : ∀ i, i < g.n → 0 < g.pieces q i) :
    VerticesOK (mkCase g kd .split p vals) (mkObs (c2oSplit g q) 0 d) ∧
    NoRepeat (mkCase g kd .split p vals) (mkObs (c2oSplit g q) 0 d) ∧
    FaceMapOK (mkCase g kd .split p vals) (mkObs (c2oSplit g q) 0 d) := by
  obtain ⟨h1, h2, _⟩ := c2o_prefix (g.pieces q) g.n
  refine ⟨⟨in_range_ofNat _ _ h2, tag_split g kd p vals⟩, Or.inl ⟨rfl, hkd⟩, ?_⟩
  simp only [FaceMapOK, mkCase, mkObs, hkd, ↓reduceIte]
  refine ⟨?_, ?_⟩
  · exact List.Pairwise.map Int.ofNat (fun a b hab => Int.ofNat_le.mpr hab) h1
  · intro i hi
    exact List.mem_map.mpr ⟨i, (mem_c2oSplit g q i).mpr ⟨hi, hpc i hi⟩, rfl⟩

theorem data_ok {β} [DecidableEq β] (g : G) (kd p : Nat) (pe : Pe) (vals : List β) (rows : List Nat)
    (t : Nat) (d : List β) (h : d.map some = rows.map (fun i => vals[i]?)) :
    DataOK (mkCase g kd pe p vals) (mkObs rows t (some d)) := by
  simp only [DataOK, mkCase, mkObs]
  rw [toNat_ofNat_lookup]; exact h

theorem map_some_self {β} (vals : List β) (n : Nat) (hv : vals.length = n) :
    vals.map some = (List.range n).map (fun i => vals[i]?) := by
  have := gather_map_some vals (List.range vals.length) (fun i hi => List.mem_range.mp hi)
  rw [gather, filterMap_getElem?_self, hv] at this
  exact this

theorem split_proj_zero {pe : Pe} {p : Nat} (hpe : pe = .split) (hk : ¬ (pe = .split ∧ p ≠ 0)) :
    p = 0 := by
  rcases Nat.eq_zero_or_pos p with h | h
  · exact h
  · exact absurd ⟨hpe, Nat.ne_of_gt h⟩ hk

/-- **`Grid.to_geodataframe` meets the specification**: every policy, every projection, every grid. -/
theorem gdf_meets_spec (R : Repairs) (hI : R.ignoreProj = true) (g : G) {β} [DecidableEq β] (k : Key)
    (c o : Bool) :
    Spec (caseOf g (.gridGdf k c o : Op β)) (obsOf (pureView R g (.gridGdf k c o : Op β))) := by
  by_cases hk : k.pe = .split ∧ k.proj ≠ 0
  · left; exact ⟨hk.1, hk.2, by simp [caseOf, Op.kind]⟩
  · right
    simp only [pureView, if_neg hk]
    show _ ∧ VerticesOK (mkCase g 0 k.pe k.proj []) (mkObs _ _ _) ∧
      NoRepeat (mkCase g 0 k.pe k.proj []) (mkObs _ _ _) ∧
      FaceMapOK (mkCase g 0 k.pe k.proj []) (mkObs _ _ _) ∧
      DataOK (mkCase g 0 k.pe k.proj []) (mkObs _ _ _)
    refine ⟨rfl, ?_⟩
    cases hpe : k.pe with
    | exclude =>
      obtain ⟨a, b, c'⟩ := geom_exclude g 0 k.proj ([] : List β) none
      exact ⟨a, b, c', by simp [DataOK, mkObs]⟩
    | split =>
      rw [split_proj_zero hpe hk]
      obtain ⟨a, b, c'⟩ := geom_frame_split g 0 ([] : List β) none
      exact ⟨a, b, c', by simp [DataOK, mkObs]⟩
    | ignore =>
      obtain ⟨a, b, c'⟩ := geom_ignore g 0 k.proj ([] : List β) none
      have hr : gdfRows R g .ignore k.proj = applyNn (nnAll g k.proj) (List.range g.n) := by
        simp [gdfRows, nnFor_ignore R hI]
      rw [hr]
      exact ⟨a, b, c', by simp [DataOK, mkObs]⟩

/-- **`UxDataArray.to_geodataframe` meets the specification** — polygons AND data. -/
theorem da_gdf_meets_spec (R : Repairs) (hI : R.ignoreProj = true) (g : G) {β} [DecidableEq β]
    (v : Nat) (vals : List β) (k : Key) (c o : Bool) (hv : vals.length = g.n) :
    Spec (caseOf g (.daGdf v vals k c o)) (obsOf (pureView R g (.daGdf v vals k c o))) := by
  by_cases hk : k.pe = .split ∧ k.proj ≠ 0
  · left; exact ⟨hk.1, hk.2, by simp [caseOf, Op.kind]⟩
  · right
    have hv' : ¬ vals.length ≠ g.n := by simp [hv]
    simp only [pureView, if_neg hv', if_neg hk]
    show _ ∧ VerticesOK (mkCase g 0 k.pe k.proj vals) (mkObs _ _ _) ∧
      NoRepeat (mkCase g 0 k.pe k.proj vals) (mkObs _ _ _) ∧
      FaceMapOK (mkCase g 0 k.pe k.proj vals) (mkObs _ _ _) ∧
      DataOK (mkCase g 0 k.pe k.proj vals) (mkObs _ _ _)
    refine ⟨rfl, ?_⟩
    cases hpe : k.pe with
    | exclude =>
      obtain ⟨a, b, c'⟩ := geom_exclude g 0 k.proj vals
        (some (gdfData .exclude (amOf g k.proj) (nnFor R g .exclude k.proj) vals))
      refine ⟨a, b, c', data_ok g 0 k.proj .exclude vals _ _ _ ?_⟩
      rw [nnFor_exclude]
      exact (nan_filter_compose R g k.proj vals hv).2.2.2.1
    | split =>
      have hp := split_proj_zero hpe hk
      rw [hp]
      obtain ⟨a, b, c'⟩ := geom_frame_split g 0 vals
        (some (gdfData .split (amOf g 0) (nnFor R g .split 0) vals))
      refine ⟨a, b, c', data_ok g 0 0 .split vals _ _ _ ?_⟩
      simp only [gdfRows, gdfData, nnFor_zero, applyNn]
      exact map_some_self vals g.n hv
    | ignore =>
      obtain ⟨a, b, c'⟩ := geom_ignore g 0 k.proj vals
        (some (gdfData .ignore (amOf g k.proj) (nnFor R g .ignore k.proj) vals))
      have hr : gdfRows R g .ignore k.proj = applyNn (nnAll g k.proj) (List.range g.n) := by
        simp [gdfRows, nnFor_ignore R hI]
      have hd := (ignore_map_projection R hI g k.proj vals hv).2.2.2.1
      rw [hr] at hd ⊢
      exact ⟨a, b, c', data_ok g 0 k.proj .ignore vals _ _ _ hd⟩

/-- **`Grid.to_polycollection` meets the specification**, all policies and projections
    (`split` needs every face to have at least one piece). -/
theorem poly_meets_spec (R : Repairs) (hI : R.ignoreProj = true) (g : G) {β} [DecidableEq β] (pe : Pe)
    (p : Nat) (c o : Bool) (hpc : ∀ i, i < g.n → 0 < g.pieces p i) :
    Spec (caseOf g (.gridPoly pe p c o : Op β)) (obsOf (pureView R g (.gridPoly pe p c o : Op β))) := by
  by_cases hk : pe = .split ∧ p ≠ 0
  · left; exact ⟨hk.1, hk.2, by simp [caseOf, Op.kind]⟩
  · right
    simp only [pureView, if_neg hk]
    show _ ∧ VerticesOK (mkCase g 1 pe p []) (mkObs _ _ _) ∧
      NoRepeat (mkCase g 1 pe p []) (mkObs _ _ _) ∧
      FaceMapOK (mkCase g 1 pe p []) (mkObs _ _ _) ∧
      DataOK (mkCase g 1 pe p []) (mkObs _ _ _)
    refine ⟨rfl, ?_⟩
    cases pe with
    | exclude =>
      obtain ⟨a, b, c'⟩ := geom_exclude g 1 p ([] : List β) none
      exact ⟨a, b, c', by simp [DataOK, mkObs]⟩
    | split =>
      obtain ⟨a, b, c'⟩ := geom_split g 1 p p (by decide) ([] : List β) none hpc
      exact ⟨a, b, c', by simp [DataOK, mkObs]⟩
    | ignore =>
      obtain ⟨a, b, c'⟩ := geom_ignore g 1 p ([] : List β) none
      simp only [polyRows, hI, if_true]
      exact ⟨a, b, c', by simp [DataOK, mkObs]⟩

/-- **`UxDataArray.to_polycollection` meets the specification** — polygons AND data. -/
theorem da_poly_meets_spec (R : Repairs) (hI : R.ignoreProj = true) (g : G) {β} [DecidableEq β]
    (vals : List β) (pe : Pe) (p : Nat) (c o : Bool) (hv : vals.length = g.n)
    (hpc : ∀ i, i < g.n → 0 < g.pieces p i) :
    Spec (caseOf g (.daPoly vals pe p c o)) (obsOf (pureView R g (.daPoly vals pe p c o))) := by
  by_cases hk : pe = .split ∧ p ≠ 0
  · left; exact ⟨hk.1, hk.2, by simp [caseOf, Op.kind]⟩
  · right
    have hv' : ¬ vals.length ≠ g.n := by simp [hv]
    simp only [pureView, if_neg hv', if_neg hk]
    show _ ∧ VerticesOK (mkCase g 1 pe p vals) (mkObs _ _ _) ∧
      NoRepeat (mkCase g 1 pe p vals) (mkObs _ _ _) ∧
      FaceMapOK (mkCase g 1 pe p vals) (mkObs _ _ _) ∧
      DataOK (mkCase g 1 pe p vals) (mkObs _ _ _)
    refine ⟨rfl, ?_⟩
    cases pe with
    | exclude =>
      obtain ⟨a, b, c'⟩ := geom_exclude g 1 p vals
        (some (polyData .exclude (amOf g p) (nnFor R g .exclude p) (polyRows R g .exclude p).2.1 vals))
      refine ⟨a, b, c', data_ok g 1 p .exclude vals _ _ _ ?_⟩
      rw [nnFor_exclude, (nan_filter_compose R g p vals hv).2.2.2.2]
      exact (nan_filter_compose R g p vals hv).2.2.2.1
    | split =>
      have hp : p = 0 := split_proj_zero rfl hk
      subst hp
      obtain ⟨a, b, c'⟩ := geom_split g 1 0 0 (by decide) vals
        (some (polyData .split (amOf g 0) (nnFor R g .split 0) (polyRows R g .split 0).2.1 vals)) hpc
      refine ⟨a, b, c', data_ok g 1 0 .split vals _ _ _ ?_⟩
      rw [nnFor_zero]
      exact (split_map R g 0 vals hv).2.2.2.2.1
    | ignore =>
      obtain ⟨h1, h2, _, h4, h5⟩ := ignore_map_projection R hI g p vals hv
      obtain ⟨a, b, c'⟩ := geom_ignore g 1 p vals
        (some (polyData .ignore (amOf g p) (nnFor R g .ignore p) (polyRows R g .ignore p).2.1 vals))
      have hr : gdfRows R g .ignore p = applyNn (nnAll g p) (List.range g.n) := by
        simp [gdfRows, nnFor_ignore R hI]
      rw [h2, hr]
      rw [hr] at h4
      refine ⟨a, b, c', data_ok g 1 p .ignore vals _ _ _ ?_⟩
      have : (polyRows R g .ignore p).2.1 = [] := by rw [h2]
      rw [h2] at h5
      rw [h5]; exact h4

/-- **`Grid.to_linecollection` meets the specification**, all policies and projections. -/
theorem line_meets_spec (R : Repairs) (hI : R.ignoreProj = true) (g : G) {β} [DecidableEq β] (pe : Pe)
    (p : Nat) (c o : Bool) (hpc : ∀ i, i < g.n → 0 < g.pieces p i) :
    Spec (caseOf g (.gridLine pe p c o : Op β)) (obsOf (pureView R g (.gridLine pe p c o : Op β))) := by
  right
  simp only [pureView]
  show _ ∧ VerticesOK (mkCase g 2 pe p []) (mkObs _ _ _) ∧
    NoRepeat (mkCase g 2 pe p []) (mkObs _ _ _) ∧
    FaceMapOK (mkCase g 2 pe p []) (mkObs _ _ _) ∧
    DataOK (mkCase g 2 pe p []) (mkObs _ _ _)
  refine ⟨rfl, ?_⟩
  cases pe with
  | exclude =>
    obtain ⟨a, b, c'⟩ := geom_exclude g 2 p ([] : List β) none
    exact ⟨a, b, c', by simp [DataOK, mkObs]⟩
  | split =>
    obtain ⟨a, b, c'⟩ := geom_split g 2 p p (by decide) ([] : List β) none hpc
    exact ⟨a, b, c', by simp [DataOK, mkObs]⟩
  | ignore =>
    obtain ⟨a, b, c'⟩ := geom_ignore g 2 p ([] : List β) none
    simp only [lineRows, hI, if_true]
    exact ⟨a, b, c', by simp [DataOK, mkObs]⟩

/-! ## every conversion after every history meets the specification -/

/-- the conversions the property is about: the data array has one value per face, and
    `antimeridian.fix_polygon` (parameter) returns at least one polygon per face -/
def Regular {β} (g : G) : Op β → Prop
  | .gridGdf _ _ _ => True
  | .daGdf _ vals _ _ _ => vals.length = g.n
  | .gridPoly _ p _ _ => ∀ i, i < g.n → 0 < g.pieces p i
  | .daPoly vals _ p _ _ => vals.length = g.n ∧ ∀ i, i < g.n → 0 < g.pieces p i
  | .gridLine _ p _ _ => ∀ i, i < g.n → 0 < g.pieces p i

theorem pure_meets_spec (R : Repairs) (hI : R.ignoreProj = true) (g : G) {β} [DecidableEq β]
    (op : Op β) (hr : Regular g op) : Spec (caseOf g op) (obsOf (pureView R g op)) := by
  cases op with
  | gridGdf k c o => exact gdf_meets_spec R hI g k c o
  | daGdf v vals k c o => exact da_gdf_meets_spec R hI g v vals k c o hr
  | gridPoly pe p c o => exact poly_meets_spec R hI g pe p c o hr
  | daPoly vals pe p c o => exact da_poly_meets_spec R hI g vals pe p c o hr.1 hr.2
  | gridLine pe p c o => exact line_meets_spec R hI g pe p c o hr

/-- **C15, end to end (repaired code, full strength)**: on every grid, after every history of
    conversions (any exporter, policy, projection, engine, variable, `cache` / `override` flag), every
    conversion exports polygons that are exactly the faces its policy promises, in order, in the requested
    coordinate system, each carrying the data value of its own face. -/
theorem export_meets_spec_after_any_history (R : Repairs) (hI : R.ignoreProj = true)
    (hS : R.sideRestore = true) (g : G) {β} [DecidableEq β] (h : List (Op β)) (op : Op β)
    (hr : Regular g op) : Spec (caseOf g op) (obsOf (viewAfter R g h op)) := by
  rw [(export_history_free R hS g h op).1]
  exact pure_meets_spec R hI g op hr

/-! ## `Grid.antimeridian_face_indices` -/

/-- **antimeridian_getter_history_free**: the property reads no cache cell — whatever conversions were made
    before (any exporter, any projection of any central longitude, cached or not, with or without the repairs),
    it returns the faces that cross for the grid's own longitudes (`p = 0`), i.e. by `antimeridian_iff` exactly
    the faces with a boundary segment spanning ≥ 180°, the same list as on a new grid, in increasing order. -/
theorem antimeridian_getter_history_free {β} (R : Repairs) (g : G) (h : List (Op β)) :
    amGetter g (run R g St.init h).1 = amGetter g (St.init : St β) ∧
    amGetter g (run R g St.init h).1 = (List.range g.n).filter (g.am 0) ∧
    (amGetter g (run R g St.init h).1).Pairwise (· < ·) := by
  refine ⟨rfl, rfl, ?_⟩
  exact (pairwise_range g.n).filter _

/-- three faces, face 0 over the antimeridian, face 1 over the seam of projection 3 (central longitude ≠ 0) -/
def gSeam : G :=
  { n := 3, am := fun p i => if p = 3 then i == 1 else i == 0, nan := fun _ _ => false,
    pieces := fun _ _ => 1 }

/-- **regression witness** (seeded change C15g): a getter that reuses the exporters' side table returns, after a
    conversion with a projection whose seam is elsewhere, the faces crossing THAT seam — a result that depends on
    the history and is not the set of faces with a ≥ 180° segment. -/
theorem asis_getter_reusing_side_table_depends_on_history :
    amGetterReusing gSeam (run .current gSeam (St.init : St Nat) [.gridGdf ⟨.exclude, 3, 0⟩ true false]).1
      ≠ amGetter gSeam (St.init : St Nat) ∧
    amGetter gSeam (run .current gSeam (St.init : St Nat) [.gridGdf ⟨.exclude, 3, 0⟩ true false]).1 = [0] := by
  decide

/-! ## witnesses: non-vacuity, and what the code without the repairs gets wrong -/

/-- three faces: face 0 crosses the antimeridian (two pieces when split), projection 1 loses
    face 1 (NaN), projection 2 loses nothing -/
def gW : G :=
  { n := 3, am := fun _ i => i == 0, nan := fun p i => p == 1 && i == 1,
    pieces := fun _ i => if i == 0 then 2 else 1 }

def valsW : List Nat := [10, 11, 12]

example : Repairs.all.ignoreProj = true ∧ Repairs.all.sideRestore = true ∧
    Repairs.all.copyFrame = true := by decide

/-- non-vacuity of `nan_filter_compose` / `exclude_map`: with projection 1 only face 2 is left and
    carries value 12; without projection faces 1, 2 with 11, 12 -/
example : gdfRows .all gW .exclude 1 = [2] ∧ gdfData .exclude (amOf gW 1) (nnOf gW 1) valsW = [12] ∧
    gdfRows .all gW .exclude 0 = [1, 2] ∧ gdfData .exclude (amOf gW 0) (nnOf gW 0) valsW = [11, 12] := by
  decide
/-- non-vacuity of `split_map`: face 0 gives two pieces, both carrying 10 -/
example : c2oSplit gW 0 = [0, 0, 1, 2] ∧
    polyData .split (amOf gW 0) (nnOf gW 0) (c2oSplit gW 0) valsW = [10, 10, 11, 12] := by decide
/-- non-vacuity of `ignore_map_projection`: the crossing face 0 stays, the NaN face 1 goes, values follow,
    the PolyCollection is projected -/
example : gdfRows .all gW .ignore 1 = [0, 2] ∧
    gdfData .ignore (amOf gW 1) (nnFor .all gW .ignore 1) valsW = [10, 12] ∧
    polyRows .all gW .ignore 1 = ([0, 2], [], 1) := by decide
/-- the specification is not trivially true: a frame whose rows are shifted by one is rejected, and so is
    a projected request answered in lon/lat -/
example : ¬ Spec (caseOf gW (.daGdf 0 valsW ⟨.exclude, 0, 0⟩ true false))
    { err := false, rows := [1, 2], tag := 0, dataOut := some [10, 11] } := by decide
example : Spec (caseOf gW (.daGdf 0 valsW ⟨.exclude, 0, 0⟩ true false))
    { err := false, rows := [1, 2], tag := 0, dataOut := some [11, 12] } := by decide
example : ¬ Spec (caseOf gW (.gridPoly .exclude 2 true false : Op Nat))
    { err := false, rows := [1, 2], tag := 0, dataOut := none } := by decide

/-- a history of conversions of every kind — cached and UN-cached, overriding or not — then a data
    conversion: the result is the non-trivial one its arguments determine -/
def histW : List (Op Nat) :=
  [.gridGdf ⟨.exclude, 1, 0⟩ true false, .daGdf 7 valsW ⟨.split, 0, 1⟩ true false,
   .gridLine .exclude 1 true false, .daPoly valsW .exclude 1 true false,
   .gridPoly .split 0 false true, .gridLine .exclude 0 true false, .gridPoly .ignore 2 false false]

example : Regular gW (.daPoly valsW .exclude 1 false false) := by
  refine ⟨by decide, ?_⟩
  intro i hi; simp only [gW]; split <;> decide
example : viewAfter .all gW histW (.daPoly valsW .exclude 1 false false)
    = { err := false, rows := [2], tag := 1, data := some [12] } := by decide

/-- **as-is** (fixes/C15-export-side-tables.patch not applied): an UN-cached conversion rewrites the side tables
    (`non_nan_polygon_indices`, `antimeridian_face_indices`) while the cached collection stays, so
    the next data conversion served from the cache re-indexes its data with the wrong tables:
    2 values on 1 polygon.  `export_history_free` is false for the unrepaired code. -/
theorem asis_uncached_conversion_poisons :
    ¬ (∀ (g : G) (h : List (Op Nat)) (op : Op Nat),
        viewAfter .asIs g h op = viewAfter .asIs g [] op) := by
  intro hall
  have := hall gW [.daPoly valsW .exclude 1 true false, .gridPoly .split 0 false false]
    (.daPoly valsW .exclude 1 true false)
  revert this; decide

theorem asis_uncached_conversion_breaks_spec :
    ¬ Spec (caseOf gW (.daPoly valsW .exclude 1 true false))
      (obsOf (viewAfter .asIs gW [.daPoly valsW .exclude 1 true false, .gridPoly .split 0 false false]
        (.daPoly valsW .exclude 1 true false))) := by decide

/-- the same history with the repair: the specification holds (instance of
    `export_meets_spec_after_any_history`) -/
example : Spec (caseOf gW (.daPoly valsW .exclude 1 true false))
    (obsOf (viewAfter .all gW [.daPoly valsW .exclude 1 true false, .gridPoly .split 0 false false]
      (.daPoly valsW .exclude 1 true false))) := by decide

/-- **current code, listed finding** (fixes/C15-dataarray-gdf-copy.patch was NOT applied: upstream tests specify the
    identical cached frame): `UxDataArray.to_geodataframe` writes its column into the frame
    `Grid.to_geodataframe` handed out earlier.  `returned_object_stable` needs `copyFrame`; it is false for
    the code as it stands (`Repairs.current`), although everything else is repaired. -/
theorem asis_returned_frame_mutated :
    ¬ (∀ (g : G) (s : St Nat) (h2 : List (Op Nat)) (id : Nat) (fr : Frame Nat),
        s.heap[id]? = some fr → (run .current g s h2).1.heap[id]? = some fr) := by
  intro hall
  have := hall gW (run .current gW St.init [.gridGdf ⟨.exclude, 0, 0⟩ true false]).1
    [.daGdf 0 valsW ⟨.exclude, 0, 0⟩ true false] 0
    { rows := [1, 2], tag := 0, eng := 0, cols := [] } (by decide)
  revert this; decide

/-- the code as it stands meets the hypotheses of `export_history_free`, `export_meets_spec_after_any_history`
    and of every `*_meets_spec` theorem (only `returned_object_stable` needs the switch that is off); the geometry of
    handed-out frames is stable in any case (`returned_geometry_stable`) -/
example : Repairs.current.ignoreProj = true ∧ Repairs.current.sideRestore = true ∧
    Repairs.current.copyFrame = false := by decide
example : viewAfter .current gW histW (.daPoly valsW .exclude 1 false false)
    = { err := false, rows := [2], tag := 1, data := some [12] } := by decide

/-- **as-is** (fixes/C15-ignore-honours-projection.patch not applied): `ignore` + projection on a grid with a
    crossing face — the non-NaN positions were computed after deleting the crossing faces but index the
    full array: the NaN face 1 is exported, faces 0 and 2 are lost. -/
theorem asis_gdf_ignore_projection_misaligned :
    ¬ Spec (caseOf gW (.gridGdf ⟨.ignore, 1, 0⟩ true false : Op Nat))
      (obsOf (pureView .asIs gW (.gridGdf ⟨.ignore, 1, 0⟩ true false : Op Nat))) := by decide

/-- **as-is** (same patch): PolyCollection `ignore` + projection — all faces are exported in lon/lat although a
    projection was requested, and the data are filtered with the non-NaN table: 1 value for 3 polygons. -/
theorem asis_poly_ignore_projection_data_misaligned :
    ¬ Spec (caseOf gW (.daPoly valsW .ignore 1 true false))
      (obsOf (pureView .asIs gW (.daPoly valsW .ignore 1 true false))) := by decide

theorem asis_line_ignore_projection_not_projected :
    ¬ Spec (caseOf gW (.gridLine .ignore 2 true false : Op Nat))
      (obsOf (pureView .asIs gW (.gridLine .ignore 2 true false : Op Nat))) := by decide

/-- **regression witness for the committed NaN-mask repair**: with the NaN mask reduced over
    one axis only, `np.where(mask)[0]` lists every good position once per coordinate column; the
    frame then shows every face twice. -/
def nnOneAxis (g : G) (p : Nat) : List Nat :=
  (posWhere (fun i => !g.nan p i) (keep g p)).flatMap (fun k => [k, k])

theorem asis_nan_mask_one_axis_duplicates :
    ¬ Spec (caseOf gW (.gridGdf ⟨.exclude, 2, 0⟩ true false : Op Nat))
      { err := false, rows := (gather (keep gW 2) (nnOneAxis gW 2)).map Int.ofNat, tag := 2,
        dataOut := none } := by decide

/-- **regression witness for the committed line-cache repair**: a line cache
    whose key omits the projection serves the projected collection to the next unprojected request. -/
def lineCoreNoProj (g : G) (s : St Nat) (pe : Pe) (p : Nat) (o : Bool) : St Nat × List Nat × Nat :=
  match s.line with
  | some e => if e.pe = pe ∧ o = false then (s, e.rows, e.tag) else lineCompute .all g s pe 0 true
  | none =>
    let r := lineRows .all g pe p
    ({ s with line := some ⟨pe, 0, r.1, r.2⟩ }, r)

theorem asis_line_cache_without_projection_is_stale :
    (lineCoreNoProj gW (lineCoreNoProj gW St.init .exclude 1 false).1 .exclude 0 false).2
      ≠ lineRows .all gW .exclude 0 := by decide

end UxVerif.C15
