/-
  C02 — Derived edges are exactly the boundary segments of the faces.

  Property theorems about the model `Edges.build` (transcription of
  `uxarray/grid/connectivity.py`) for EVERY standard-form table: any number of faces, any
  width, any padding layout, any numbering.  The specification `Edges.Spec` is the decidable
  predicate the driver evaluates on the implementation's output.
-/
import UxVerif.Lemmas.SortUniq
import UxVerif.Lemmas.Rows
import UxVerif.Lemmas.Handshake

namespace UxVerif.C02
open UxVerif UxVerif.Edges

theorem mem_uniqAll (t : Table) (p : Int × Int) :
    p ∈ uniqAll t ↔ ∃ r ∈ t, p ∈ rowPairs r := by
  unfold uniqAll allPairs
  rw [mem_uniqPair, List.mem_flatMap]

theorem mem_edges (t : Table) (p : Int × Int) :
    p ∈ edges t ↔ (∃ r ∈ t, p ∈ rowPairs r) ∧ hasFill p = false := by
  unfold edges
  rw [List.mem_filter, mem_uniqAll]; simp

/-- an edge of a standard-form table is a boundary segment of one of its rows -/
theorem edge_is_seg {n w : Nat} {t : Table} (h : StdForm n w t) (e : Int × Int)
    (he : e ∈ edges t) : ∃ r ∈ t, e ∈ rowSegs r := by
  obtain ⟨⟨r, hr, hp⟩, hnf⟩ := (mem_edges t e).mp he
  obtain ⟨tl, htl, hfill, _⟩ := rowPairs_std (h r hr)
  rw [htl, List.mem_append] at hp
  rcases hp with hp | hp
  · exact ⟨r, hr, hp⟩
  · rw [hfill e hp] at hnf; cases hnf

theorem seg_is_edge {n w : Nat} {t : Table} (h : StdForm n w t) (r : List Int) (hr : r ∈ t)
    (s : Int × Int) (hs : s ∈ rowSegs r) : s ∈ edges t := by
  refine (mem_edges t s).mpr ⟨⟨r, hr, ?_⟩, rowSegs_noFill r s hs⟩
  obtain ⟨tl, htl, _, _⟩ := rowPairs_std (h r hr)
  rw [htl]; exact List.mem_append_left _ hs

/-- **no padding, and every listed edge is a boundary segment of a face** -/
theorem edges_sound {n w : Nat} {t : Table} (h : StdForm n w t) : EdgesSound t (edges t) := by
  intro e he
  obtain ⟨r, hr, hs⟩ := edge_is_seg h e he
  have hnf := rowSegs_noFill r e hs
  have : e.1 ≠ FILL ∧ e.2 ≠ FILL := by
    unfold hasFill at hnf
    simpa using hnf
  exact ⟨this.1, this.2, r, hr, by rw [rowSegs_sorted r e hs]; exact hs⟩

/-- **every boundary segment of every face is listed** -/
theorem edges_complete {n w : Nat} {t : Table} (h : StdForm n w t) :
    EdgesComplete t (edges t) := by
  intro r hr s hs
  exact List.mem_map.mpr ⟨s, seg_is_edge h r hr s hs, rowSegs_sorted r s hs⟩

theorem edges_map_sortPair {n w : Nat} {t : Table} (h : StdForm n w t) :
    (edges t).map sortPair = edges t := by
  conv => rhs; rw [← List.map_id (edges t)]
  apply List.map_congr_left
  intro e he
  obtain ⟨r, _, hs⟩ := edge_is_seg h e he
  simpa using rowSegs_sorted r e hs

/-- **… exactly once** -/
theorem edges_once {n w : Nat} {t : Table} (h : StdForm n w t) : EdgesOnce (edges t) := by
  unfold EdgesOnce
  rw [edges_map_sortPair h]
  unfold edges
  exact (nodup_uniqPair _).filter _

theorem getI?_ofNat {α} (l : List α) (k : Nat) : getI? l (Int.ofNat k) = l[k]? := by
  unfold getI?
  have h : ¬ (Int.ofNat k < 0) := by simp
  rw [if_neg h]; simp

theorem FILL_neg : FILL < 0 := by decide

/-- renumbering a kept pair yields its position in `edges` -/
theorem renum_good (t : Table) (p : Int × Int) (hp : p ∈ uniqAll t) (hg : hasFill p = false) :
    ∃ k : Nat, renum (uniqAll t) ((uniqAll t).idxOf p) = Int.ofNat k ∧ (edges t)[k]? = some p := by
  have hi : (uniqAll t).idxOf p < (uniqAll t).length := List.idxOf_lt_length_iff.mpr hp
  refine ⟨(uniqAll t).idxOf p - (((uniqAll t).take ((uniqAll t).idxOf p + 1)).filter hasFill).length,
    ?_, ?_⟩
  · unfold renum
    rw [List.getElem?_eq_getElem hi]
    simp [List.getElem_idxOf, hg]
  · exact filter_index hasFill (uniqAll t) p hp hg

theorem renum_bad (t : Table) (p : Int × Int) (hp : p ∈ uniqAll t) (hb : hasFill p = true) :
    renum (uniqAll t) ((uniqAll t).idxOf p) = FILL := by
  have hi : (uniqAll t).idxOf p < (uniqAll t).length := List.idxOf_lt_length_iff.mpr hp
  unfold renum
  rw [List.getElem?_eq_getElem hi]
  simp [List.getElem_idxOf, hb]

/-- **`face_edge_connectivity[f, j]` is the edge joining corners `j` and `j+1` of face `f`,
    and is padding exactly where `f` has no corner** -/
theorem faceEdges_ok {n w : Nat} {t : Table} (h : StdForm n w t) :
    FaceEdgesOK t w (edges t) (faceEdges t) := by
  refine ⟨by simp [faceEdges], ?_⟩
  intro i hi
  have hr : t[i] ∈ t := List.getElem_mem hi
  have hrow : rowAt t i = t[i] := by simp [rowAt, List.getD, List.getElem?_eq_getElem hi]
  have hfe : rowAt (faceEdges t) i
      = (rowPairs t[i]).map (fun p => renum (uniqAll t) ((uniqAll t).idxOf p)) := by
    simp [rowAt, List.getD, faceEdges, List.getElem?_eq_getElem hi]
  rw [hrow, hfe]
  obtain ⟨tl, htl, hfill, hlen⟩ := rowPairs_std (h _ hr)
  have hk : (faceOf t[i]).length ≤ w := by
    have := (h _ hr).1
    have h2 : (faceOf t[i]).length ≤ (t[i]).length := length_takeWhile_le' _ _
    omega
  have hplen : (rowPairs t[i]).length = w := by
    rw [htl, List.length_append, length_rowSegs, hlen]; omega
  refine ⟨by simp [hplen], ?_⟩
  intro j hj
  have hjp : j < (rowPairs t[i]).length := by omega
  have hent : entry ((rowPairs t[i]).map (fun p => renum (uniqAll t) ((uniqAll t).idxOf p))) j
      = renum (uniqAll t) ((uniqAll t).idxOf (rowPairs t[i])[j]) := by
    simp [entry, List.getD, hjp]
  have hmem : (rowPairs t[i])[j] ∈ uniqAll t :=
    (mem_uniqAll t _).mpr ⟨_, hr, List.getElem_mem hjp⟩
  rw [hent]
  split
  · rename_i hjk
    have hjs : j < (rowSegs t[i]).length := by rw [length_rowSegs]; exact hjk
    have hpj : (rowPairs t[i])[j] = (rowSegs t[i])[j] := by
      simp only [htl]; rw [List.getElem_append_left hjs]
    have hs : (rowSegs t[i])[j] ∈ rowSegs t[i] := List.getElem_mem hjs
    obtain ⟨k, hk1, hk2⟩ := renum_good t _ (hpj ▸ hmem) (rowSegs_noFill _ _ hs)
    refine ⟨(rowSegs t[i])[j], by simp [List.getElem?_eq_getElem hjs], (rowSegs t[i])[j], ?_,
      rowSegs_sorted _ _ hs⟩
    rw [hpj, hk1, getI?_ofNat, hk2]; simp
  · rename_i hjk
    have hjs : (rowSegs t[i]).length ≤ j := by rw [length_rowSegs]; omega
    have hpj : (rowPairs t[i])[j] ∈ tl := by
      simp only [htl]; rw [List.getElem_append_right hjs]; exact List.getElem_mem _
    exact renum_bad t _ hmem (hfill _ hpj)

/-- **`n_nodes_per_face[f]` is the number of real corners of face `f`** -/
theorem nPerFace_ok {n w : Nat} {t : Table} (h : StdForm n w t) :
    NPerFaceOK t (nNodesPerFace t) := by
  unfold NPerFaceOK nNodesPerFace
  apply List.map_congr_left
  intro r hr
  exact nNodesRow_std (h r hr)

/-- **C02 (main theorem).**  For every standard-form face-node table, of any size, width,
    padding layout and numbering, the model of the edge construction satisfies the
    specification. -/
theorem build_meets_spec {n w : Nat} {t : Table} (h : StdForm n w t) : Spec t w (build t) :=
  ⟨edges_sound h, edges_complete h, edges_once h, faceEdges_ok h, nPerFace_ok h⟩

/-- all (face, corner-slot) boundary segments of the mesh, with multiplicity -/
def allSegs (t : Table) : List (Int × Int) := t.flatMap rowSegs

/-- **handshake**: summing over the derived edges the number of (face, slot) incidences of the
    edge gives the total number of corners `Σ_f n_nodes_per_face[f]` — every face slot is
    accounted for by exactly one listed edge. -/
theorem handshake {n w : Nat} {t : Table} (h : StdForm n w t) :
    ((edges t).map (fun e => (allSegs t).count e)).sum = (nNodesPerFace t).sum := by
  have hnd : (edges t).Nodup := by
    have := edges_once h
    unfold EdgesOnce at this
    rwa [edges_map_sortPair h] at this
  have hcov : ∀ s ∈ allSegs t, s ∈ edges t := by
    intro s hs
    obtain ⟨r, hr, hsr⟩ := List.mem_flatMap.mp hs
    exact seg_is_edge h r hr s hsr
  rw [sum_count_cover (edges t) (allSegs t) hnd hcov]
  have hN := nPerFace_ok h
  unfold NPerFaceOK at hN
  rw [hN]
  unfold allSegs
  induction t with
  | nil => simp
  | cons r t ih =>
    have h' : StdForm n w t := fun r' hr' => h r' (List.mem_cons_of_mem _ hr')
    simp only [List.flatMap_cons, List.length_append, List.map_cons, List.sum_cons, length_rowSegs]
    have hnd' : (edges t).Nodup := by
      have := edges_once h'
      unfold EdgesOnce at this
      rwa [edges_map_sortPair h'] at this
    have := ih h' hnd' (fun s hs => by
      obtain ⟨r', hr', hsr⟩ := List.mem_flatMap.mp hs
      exact seg_is_edge h' r' hr' s hsr) (nPerFace_ok h')
    omega

/-- on a mesh where every edge bounds exactly two face slots (a closed surface):
    `2 · n_edge = Σ_f n_nodes_per_face[f]`. -/
theorem handshake_closed {n w : Nat} {t : Table} (h : StdForm n w t)
    (h2 : ∀ e ∈ edges t, (allSegs t).count e = 2) :
    2 * (edges t).length = (nNodesPerFace t).sum := by
  rw [← handshake h]
  have : (edges t).map (fun e => (allSegs t).count e) = (edges t).map (fun _ => 2) :=
    List.map_congr_left h2
  rw [this]
  simp [Nat.mul_comm]

/-- **the specification determines the answer up to the numbering of the edges**: any output
    meeting `Spec` lists (as unordered pairs) a permutation of the model's edges, has the same
    corner counts, and each real slot of its face-edge table points at the same boundary segment
    as the model's.  (This is what justifies comparing implementation and model after
    canonicalising the edge numbering.) -/
theorem spec_unique {n w : Nat} {t : Table} (h : StdForm n w t) (o : Out) (hs : Spec t w o) :
    (o.edges.map sortPair).Perm (edges t) ∧ o.nPerFace = nNodesPerFace t ∧
    ∀ f, f < t.length → ∀ j, j < (faceOf (rowAt t f)).length →
      ∃ s, (rowSegs (rowAt t f))[j]? = some s ∧
        (∃ e ∈ getI? o.edges (entry (rowAt o.faceEdges f) j), sortPair e = s) ∧
        (∃ e ∈ getI? (edges t) (entry (rowAt (faceEdges t) f) j), sortPair e = s) := by
  obtain ⟨hsound, hcompl, honce, hfe, hN⟩ := hs
  have monce := edges_once h
  have mfe := faceEdges_ok h
  have mN := nPerFace_ok h
  refine ⟨?_, ?_, ?_⟩
  · -- two duplicate-free lists with the same members
    have hnd2 : (edges t).Nodup := by
      have := monce; unfold EdgesOnce at this; rwa [edges_map_sortPair h] at this
    apply (List.perm_ext_iff_of_nodup honce hnd2).mpr
    intro p
    constructor
    · intro hp
      obtain ⟨e, he, rfl⟩ := List.mem_map.mp hp
      obtain ⟨_, _, r, hr, hseg⟩ := hsound e he
      exact seg_is_edge h r hr _ hseg
    · intro hp
      obtain ⟨r, hr, hseg⟩ := edge_is_seg h p hp
      exact hcompl r hr p hseg
  · unfold NPerFaceOK at hN mN
    rw [hN]; exact mN.symm
  · intro f hf j hj
    have hjw : j < w := by
      have hr : rowAt t f ∈ t := by
        simp [rowAt, List.getD, List.getElem?_eq_getElem hf]
      have hstd := h _ hr
      have := length_takeWhile_le' (fun x => x != FILL) (rowAt t f)
      have hl := hstd.1
      unfold faceOf at hj; omega
    have h1 := (hfe.2 f hf).2 j hjw
    have h2 := (mfe.2 f hf).2 j hjw
    rw [if_pos hj] at h1 h2
    obtain ⟨s1, hs1, e1, he1, hse1⟩ := h1
    obtain ⟨s2, hs2, e2, he2, hse2⟩ := h2
    have : s1 = s2 := by
      have a := Option.mem_def.mp hs1
      have b := Option.mem_def.mp hs2
      rw [a] at b; exact Option.some.inj b
    subst this
    exact ⟨s1, Option.mem_def.mp hs1, ⟨e1, he1, hse1⟩, ⟨e2, he2, hse2⟩⟩

/-! ### the padded form of any mesh is standard, so the hypothesis is satisfiable for every
    mesh whose faces have between 1 and `w` corners with indices below `n` -/

theorem faceOf_padRow (w : Nat) (f : List Nat) : faceOf (padRow w f) = f.map Int.ofNat := by
  unfold faceOf padRow
  have hne : ∀ x ∈ f.map Int.ofNat, (x != FILL) = true := by
    intro x hx
    rcases List.mem_map.mp hx with ⟨a, _, rfl⟩
    have : (0 : Int) ≤ Int.ofNat a := Int.natCast_nonneg a
    have := FILL_neg
    simp; omega
  generalize f.map Int.ofNat = g at hne
  induction g with
  | nil =>
    cases hm : w - f.length with
    | zero => simp
    | succ m => simp [List.replicate_succ]
  | cons a g ih =>
    simp only [List.cons_append, List.takeWhile_cons, hne a (by simp), if_true]
    rw [ih (fun x hx => hne x (by simp [hx]))]

theorem stdForm_pad {n w : Nat} (m : Mesh)
    (hm : ∀ f ∈ m, 0 < f.length ∧ f.length ≤ w ∧ ∀ x ∈ f, x < n) : StdForm n w (pad w m) := by
  intro r hr
  rcases List.mem_map.mp hr with ⟨f, hf, rfl⟩
  obtain ⟨h1, h2, h3⟩ := hm f hf
  refine ⟨?_, ?_, ?_, ?_⟩
  · simp [padRow]; omega
  · rw [faceOf_padRow]; simpa using h1
  · rw [faceOf_padRow]
    intro x hx
    rcases List.mem_map.mp hx with ⟨a, ha, rfl⟩
    exact ⟨Int.natCast_nonneg a, Int.ofNat_lt.mpr (h3 a ha)⟩
  · rw [faceOf_padRow]
    intro x hx
    have e : List.drop (f.map Int.ofNat).length (padRow w f)
        = List.replicate (w - f.length) FILL := by
      unfold padRow; rw [List.drop_left]
    rw [e] at hx
    exact (List.mem_replicate.mp hx).2

/-- **C02 for meshes**: whatever the faces, the edge tables built from their padded table
    meet the specification. -/
theorem build_meets_spec_mesh {n w : Nat} (m : Mesh)
    (hm : ∀ f ∈ m, 0 < f.length ∧ f.length ≤ w ∧ ∀ x ∈ f, x < n) :
    Spec (pad w m) w (build (pad w m)) :=
  build_meets_spec (stdForm_pad m hm)

/-! ### non-vacuity: concrete tables meeting the hypothesis (checked by kernel evaluation) -/

/-- one triangle -/
example : StdForm 3 3 [[0, 1, 2]] := by decide
/-- the tetrahedron meets the hypothesis of `handshake_closed` (every edge in two face slots) -/
example : ∀ e ∈ edges [[0, 1, 2], [0, 3, 1], [1, 3, 2], [2, 3, 0]],
    (allSegs [[0, 1, 2], [0, 3, 1], [1, 3, 2], [2, 3, 0]]).count e = 2 := by decide
/-- two quads sharing two edges, and a pentagon among quads with padding -/
example : StdForm 6 5 [[0, 1, 2, 3, FILL], [0, 3, 2, 4, FILL], [0, 1, 2, 4, 5]] := by decide
example : Spec [[0, 1, 2, FILL], [2, 1, 3, 4]] 4 (build [[0, 1, 2, FILL], [2, 1, 3, 4]]) :=
  build_meets_spec (n := 5) (by decide)
/-- the specification is not trivially true: dropping an edge is rejected -/
example : ¬ Spec [[0, 1, 2]] 3 (Out.mk [(0, 1), (1, 2)] [[0, 1, FILL]] [3]) := by decide

end UxVerif.C02
