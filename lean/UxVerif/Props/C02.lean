/-
  C02 — Derived edges are exactly the boundary segments of the faces.

  Property theorems about the model `Edges.build` (transcription of
  `uxarray/grid/connectivity.py`) for EVERY standard-form table: any number of faces, any
  width, any padding layout, any numbering.  The specification `Edges.Spec` is the decidable
  predicate the driver evaluates on the implementation's output.

  Round E additions (after the mesh section):
  * ORDER — `np.unique(axis=0)` is modelled as sort + dedup; `edges_sorted`,
    `edges_strictly_increasing`: the model numbers the edges in the lexicographic order of their
    sorted pairs; `spec_sorted_unique`: `Spec` + that order determines the WHOLE output, so the
    harness compares implementation and model with identical numbering.
  * SIMPLE FACES — `face_lists_each_edge_once`, `edge_fed_each_face_once`, `edge_faces_distinct`:
    faces with pairwise distinct corners (≥ 3) have pairwise distinct boundary segments, hence
    no face lists an edge twice and `edge_face_connectivity` never holds a face twice.
  * SOURCE-SUPPLIED EDGE TABLE (round f) — `buildGiven`: the supplied table is kept and
    `face_edge_connectivity` indexes into it; `given_meets_spec`, `buildGiven_meets_spec`: for every
    supplied table that is the faces' edges in any order / orientation `Spec` holds with the supplied
    table as the edge table; `lookup_orientation_irrelevant`; `buildGiven_rederived`;
    `spec_given_unique`: `Spec` determines the face-edge table from the edge table.
  * OUTSIDE THE QUANTIFIER — `nPerFace_ok_any`, `edges_complete_any`, `edges_once_any`: three
    clauses hold on EVERY table; `asis_midfill_unsound`, `asis_leadfill_faceEdges`: the other two
    need the standard form (the code validates nothing, neither does the model).
-/
import UxVerif.Lemmas.SortUniq
import UxVerif.Lemmas.Rows
import UxVerif.Lemmas.Handshake
import UxVerif.Lemmas.C02Order
import UxVerif.Lemmas.C02Simple

namespace UxVerif.C02
open UxVerif UxVerif.Edges

theorem mem_uniqAll (t : Table) (p : Int × Int) :
    p ∈ uniqAll t ↔ ∃ r ∈ t, p ∈ rowPairs r := by
  unfold uniqAll allPairs
  rw [mem_uniqPair, List.mem_flatMap]

theorem mem_edges (t : Table) (p : Int × Int) :
    p ∈ edges t ↔ (∃ r ∈ t, p ∈ rowPairs r) ∧ hasFill p = false := by
  unfold edges
  rw [List.mem_filter, mem_uniqAll]; simp

/-- an edge of a standard-form table is a boundary segment of one of its rows -/
theorem edge_is_seg {n w : Nat} {t : Table} (h : StdForm n w t) (e : Int × Int)
    (he : e ∈ edges t) : ∃ r ∈ t, e ∈ rowSegs r := by
  obtain ⟨⟨r, hr, hp⟩, hnf⟩ := (mem_edges t e).mp he
  obtain ⟨tl, htl, hfill, _⟩ := rowPairs_std (h r hr)
  rw [htl, List.mem_append] at hp
  rcases hp with hp | hp
  · exact ⟨r, hr, hp⟩
  · rw [hfill e hp] at hnf; cases hnf

theorem seg_is_edge {n w : Nat} {t : Table} (h : StdForm n w t) (r : List Int) (hr : r ∈ t)
    (s : Int × Int) (hs : s ∈ rowSegs r) : s ∈ edges t := by
  refine (mem_edges t s).mpr ⟨⟨r, hr, ?_⟩, rowSegs_noFill r s hs⟩
  obtain ⟨tl, htl, _, _⟩ := rowPairs_std (h r hr)
  rw [htl]; exact List.mem_append_left _ hs

/-- **no padding, and every listed edge is a boundary segment of a face** -/
theorem edges_sound {n w : Nat} {t : Table} (h : StdForm n w t) : EdgesSound t (edges t) := by
  intro e he
  obtain ⟨r, hr, hs⟩ := edge_is_seg h e he
  have hnf := rowSegs_noFill r e hs
  have : e.1 ≠ FILL ∧ e.2 ≠ FILL := by
    unfold hasFill at hnf
    simpa using hnf
  exact ⟨this.1, this.2, r, hr, by rw [rowSegs_sorted r e hs]; exact hs⟩

/-- **every boundary segment of every face is listed** -/
theorem edges_complete {n w : Nat} {t : Table} (h : StdForm n w t) :
    EdgesComplete t (edges t) := by
  intro r hr s hs
  exact List.mem_map.mpr ⟨s, seg_is_edge h r hr s hs, rowSegs_sorted r s hs⟩

theorem edges_map_sortPair {n w : Nat} {t : Table} (h : StdForm n w t) :
    (edges t).map sortPair = edges t := by
  conv => rhs; rw [← List.map_id (edges t)]
  apply List.map_congr_left
  intro e he
  obtain ⟨r, _, hs⟩ := edge_is_seg h e he
  simpa using rowSegs_sorted r e hs

/-- **… exactly once** -/
theorem edges_once {n w : Nat} {t : Table} (h : StdForm n w t) : EdgesOnce (edges t) := by
  unfold EdgesOnce
  rw [edges_map_sortPair h]
  unfold edges
  exact (nodup_uniqPair _).filter _

theorem getI?_ofNat {α} (l : List α) (k : Nat) : getI? l (Int.ofNat k) = l[k]? := by
  unfold getI?
  have h : ¬ (Int.ofNat k < 0) := by simp
  rw [if_neg h]; simp

theorem FILL_neg : FILL < 0 := by decide

/-- renumbering a kept pair yields its position in `edges` -/
theorem renum_good (t : Table) (p : Int × Int) (hp : p ∈ uniqAll t) (hg : hasFill p = false) :
    ∃ k : Nat, renum (uniqAll t) ((uniqAll t).idxOf p) = Int.ofNat k ∧ (edges t)[k]? = some p := by
  have hi : (uniqAll t).idxOf p < (uniqAll t).length := List.idxOf_lt_length_iff.mpr hp
  refine ⟨(uniqAll t).idxOf p - (((uniqAll t).take ((uniqAll t).idxOf p + 1)).filter hasFill).length,
    ?_, ?_⟩
  · unfold renum
    rw [List.getElem?_eq_getElem hi]
    simp [List.getElem_idxOf, hg]
  · exact filter_index hasFill (uniqAll t) p hp hg

theorem renum_bad (t : Table) (p : Int × Int) (hp : p ∈ uniqAll t) (hb : hasFill p = true) :
    renum (uniqAll t) ((uniqAll t).idxOf p) = FILL := by
  have hi : (uniqAll t).idxOf p < (uniqAll t).length := List.idxOf_lt_length_iff.mpr hp
  unfold renum
  rw [List.getElem?_eq_getElem hi]
  simp [List.getElem_idxOf, hb]

/-- **`face_edge_connectivity[f, j]` is the edge joining corners `j` and `j+1` of face `f`,
    and is padding exactly where `f` has no corner** -/
theorem faceEdges_ok {n w : Nat} {t : Table} (h : StdForm n w t) :
    FaceEdgesOK t w (edges t) (faceEdges t) := by
  refine ⟨by simp [faceEdges], ?_⟩
  intro i hi
  have hr : t[i] ∈ t := List.getElem_mem hi
  have hrow : rowAt t i = t[i] := by simp [rowAt, List.getD, List.getElem?_eq_getElem hi]
  have hfe : rowAt (faceEdges t) i
      = (rowPairs t[i]).map (fun p => renum (uniqAll t) ((uniqAll t).idxOf p)) := by
    simp [rowAt, List.getD, faceEdges, List.getElem?_eq_getElem hi]
  rw [hrow, hfe]
  obtain ⟨tl, htl, hfill, hlen⟩ := rowPairs_std (h _ hr)
  have hk : (faceOf t[i]).length ≤ w := by
    have := (h _ hr).1
    have h2 : (faceOf t[i]).length ≤ (t[i]).length := length_takeWhile_le' _ _
    omega
  have hplen : (rowPairs t[i]).length = w := by
    rw [htl, List.length_append, length_rowSegs, hlen]; omega
  refine ⟨by simp [hplen], ?_⟩
  intro j hj
  have hjp : j < (rowPairs t[i]).length := by omega
  have hent : entry ((rowPairs t[i]).map (fun p => renum (uniqAll t) ((uniqAll t).idxOf p))) j
      = renum (uniqAll t) ((uniqAll t).idxOf (rowPairs t[i])[j]) := by
    simp [entry, List.getD, hjp]
  have hmem : (rowPairs t[i])[j] ∈ uniqAll t :=
    (mem_uniqAll t _).mpr ⟨_, hr, List.getElem_mem hjp⟩
  rw [hent]
  split
  · rename_i hjk
    have hjs : j < (rowSegs t[i]).length := by rw [length_rowSegs]; exact hjk
    have hpj : (rowPairs t[i])[j] = (rowSegs t[i])[j] := by
      simp only [htl]; rw [List.getElem_append_left hjs]
    have hs : (rowSegs t[i])[j] ∈ rowSegs t[i] := List.getElem_mem hjs
    obtain ⟨k, hk1, hk2⟩ := renum_good t _ (hpj ▸ hmem) (rowSegs_noFill _ _ hs)
    refine ⟨(rowSegs t[i])[j], by simp [List.getElem?_eq_getElem hjs], (rowSegs t[i])[j], ?_,
      rowSegs_sorted _ _ hs⟩
    rw [hpj, hk1, getI?_ofNat, hk2]; simp
  · rename_i hjk
    have hjs : (rowSegs t[i]).length ≤ j := by rw [length_rowSegs]; omega
    have hpj : (rowPairs t[i])[j] ∈ tl := by
      simp only [htl]; rw [List.getElem_append_right hjs]; exact List.getElem_mem _
    exact renum_bad t _ hmem (hfill _ hpj)

/-- **`n_nodes_per_face[f]` is the number of real corners of face `f`** -/
theorem nPerFace_ok {n w : Nat} {t : Table} (h : StdForm n w t) :
    NPerFaceOK t (nNodesPerFace t) := by
  unfold NPerFaceOK nNodesPerFace
  apply List.map_congr_left
  intro r hr
  exact nNodesRow_std (h r hr)

/-- **C02 (main theorem).**  For every standard-form face-node table, of any size, width,
    padding layout and numbering, the model of the edge construction satisfies the
    specification. -/
theorem build_meets_spec {n w : Nat} {t : Table} (h : StdForm n w t) : Spec t w (build t) :=
  ⟨edges_sound h, edges_complete h, edges_once h, faceEdges_ok h, nPerFace_ok h⟩

/-- all (face, corner-slot) boundary segments of the mesh, with multiplicity -/
def allSegs (t : Table) : List (Int × Int) := t.flatMap rowSegs

/-- **handshake**: summing over the derived edges the number of (face, slot) incidences of the
    edge gives the total number of corners `Σ_f n_nodes_per_face[f]` — every face slot is
    accounted for by exactly one listed edge. -/
theorem handshake {n w : Nat} {t : Table} (h : StdForm n w t) :
    ((edges t).map (fun e => (allSegs t).count e)).sum = (nNodesPerFace t).sum := by
  have hnd : (edges t).Nodup := by
    have := edges_once h
    unfold EdgesOnce at this
    rwa [edges_map_sortPair h] at this
  have hcov : ∀ s ∈ allSegs t, s ∈ edges t := by
    intro s hs
    obtain ⟨r, hr, hsr⟩ := List.mem_flatMap.mp hs
    exact seg_is_edge h r hr s hsr
  rw [sum_count_cover (edges t) (allSegs t) hnd hcov]
  have hN := nPerFace_ok h
  unfold NPerFaceOK at hN
  rw [hN]
  unfold allSegs
  induction t with
  | nil => simp
  | cons r t ih =>
    have h' : StdForm n w t := fun r' hr' => h r' (List.mem_cons_of_mem _ hr')
    simp only [List.flatMap_cons, List.length_append, List.map_cons, List.sum_cons, length_rowSegs]
    have hnd' : (edges t).Nodup := by
      have := edges_once h'
      unfold EdgesOnce at this
      rwa [edges_map_sortPair h'] at this
    have := ih h' hnd' (fun s hs => by
      obtain ⟨r', hr', hsr⟩ := List.mem_flatMap.mp hs
      exact seg_is_edge h' r' hr' s hsr) (nPerFace_ok h')
    omega

/-- on a mesh where every edge bounds exactly two face slots (a closed surface):
    `2 · n_edge = Σ_f n_nodes_per_face[f]`. -/
theorem handshake_closed {n w : Nat} {t : Table} (h : StdForm n w t)
    (h2 : ∀ e ∈ edges t, (allSegs t).count e = 2) :
    2 * (edges t).length = (nNodesPerFace t).sum := by
  rw [← handshake h]
  have : (edges t).map (fun e => (allSegs t).count e) = (edges t).map (fun _ => 2) :=
    List.map_congr_left h2
  rw [this]
  simp [Nat.mul_comm]

/-- **the specification determines the answer up to the numbering of the edges**: any output
    meeting `Spec` lists (as unordered pairs) a permutation of the model's edges, has the same
    corner counts, and each real slot of its face-edge table points at the same boundary segment
    as the model's.  (This is what justifies comparing implementation and model after
    canonicalising the edge numbering.) -/
theorem spec_unique {n w : Nat} {t : Table} (h : StdForm n w t) (o : Out) (hs : Spec t w o) :
    (o.edges.map sortPair).Perm (edges t) ∧ o.nPerFace = nNodesPerFace t ∧
    ∀ f, f < t.length → ∀ j, j < (faceOf (rowAt t f)).length →
      ∃ s, (rowSegs (rowAt t f))[j]? = some s ∧
        (∃ e ∈ getI? o.edges (entry (rowAt o.faceEdges f) j), sortPair e = s) ∧
        (∃ e ∈ getI? (edges t) (entry (rowAt (faceEdges t) f) j), sortPair e = s) := by
  obtain ⟨hsound, hcompl, honce, hfe, hN⟩ := hs
  have monce := edges_once h
  have mfe := faceEdges_ok h
  have mN := nPerFace_ok h
  refine ⟨?_, ?_, ?_⟩
  · -- two duplicate-free lists with the same members
    have hnd2 : (edges t).Nodup := by
      have := monce; unfold EdgesOnce at this; rwa [edges_map_sortPair h] at this
    apply (List.perm_ext_iff_of_nodup honce hnd2).mpr
    intro p
    constructor
    · intro hp
      obtain ⟨e, he, rfl⟩ := List.mem_map.mp hp
      obtain ⟨_, _, r, hr, hseg⟩ := hsound e he
      exact seg_is_edge h r hr _ hseg
    · intro hp
      obtain ⟨r, hr, hseg⟩ := edge_is_seg h p hp
      exact hcompl r hr p hseg
  · unfold NPerFaceOK at hN mN
    rw [hN]; exact mN.symm
  · intro f hf j hj
    have hjw : j < w := by
      have hr : rowAt t f ∈ t := by
        simp [rowAt, List.getD, List.getElem?_eq_getElem hf]
      have hstd := h _ hr
      have := length_takeWhile_le' (fun x => x != FILL) (rowAt t f)
      have hl := hstd.1
      unfold faceOf at hj; omega
    have h1 := (hfe.2 f hf).2 j hjw
    have h2 := (mfe.2 f hf).2 j hjw
    rw [if_pos hj] at h1 h2
    obtain ⟨s1, hs1, e1, he1, hse1⟩ := h1
    obtain ⟨s2, hs2, e2, he2, hse2⟩ := h2
    have : s1 = s2 := by
      have a := Option.mem_def.mp hs1
      have b := Option.mem_def.mp hs2
      rw [a] at b; exact Option.some.inj b
    subst this
    exact ⟨s1, Option.mem_def.mp hs1, ⟨e1, he1, hse1⟩, ⟨e2, he2, hse2⟩⟩

/-! ### the padded form of any mesh is standard, so the hypothesis is satisfiable for every
    mesh whose faces have between 1 and `w` corners with indices below `n` -/

theorem faceOf_padRow (w : Nat) (f : List Nat) : faceOf (padRow w f) = f.map Int.ofNat := by
  unfold faceOf padRow
  have hne : ∀ x ∈ f.map Int.ofNat, (x != FILL) = true := by
    intro x hx
    rcases List.mem_map.mp hx with ⟨a, _, rfl⟩
    have : (0 : Int) ≤ Int.ofNat a := Int.natCast_nonneg a
    have := FILL_neg
    simp; omega
  generalize f.map Int.ofNat = g at hne
  induction g with
  | nil =>
    cases hm : w - f.length with
    | zero => simp
    | succ m => simp [List.replicate_succ]
  | cons a g ih =>
    simp only [List.cons_append, List.takeWhile_cons, hne a (by simp), if_true]
    rw [ih (fun x hx => hne x (by simp [hx]))]

theorem stdForm_pad {n w : Nat} (m : Mesh)
    (hm : ∀ f ∈ m, 0 < f.length ∧ f.length ≤ w ∧ ∀ x ∈ f, x < n) : StdForm n w (pad w m) := by
  intro r hr
  rcases List.mem_map.mp hr with ⟨f, hf, rfl⟩
  obtain ⟨h1, h2, h3⟩ := hm f hf
  refine ⟨?_, ?_, ?_, ?_⟩
  · simp [padRow]; omega
  · rw [faceOf_padRow]; simpa using h1
  · rw [faceOf_padRow]
    intro x hx
    rcases List.mem_map.mp hx with ⟨a, ha, rfl⟩
    exact ⟨Int.natCast_nonneg a, Int.ofNat_lt.mpr (h3 a ha)⟩
  · rw [faceOf_padRow]
    intro x hx
    have e : List.drop (f.map Int.ofNat).length (padRow w f)
        = List.replicate (w - f.length) FILL := by
      unfold padRow; rw [List.drop_left]
    rw [e] at hx
    exact (List.mem_replicate.mp hx).2

/-- **C02 for meshes**: whatever the faces, the edge tables built from their padded table
    meet the specification. -/
theorem build_meets_spec_mesh {n w : Nat} (m : Mesh)
    (hm : ∀ f ∈ m, 0 < f.length ∧ f.length ≤ w ∧ ∀ x ∈ f, x < n) :
    Spec (pad w m) w (build (pad w m)) :=
  build_meets_spec (stdForm_pad m hm)

/-! ### the ORDER of the derived edges (`np.unique(axis=0)` = sort + dedup) -/

/-- `edge_nodes_unique` before the fill rows are dropped is strictly increasing in the
    lexicographic order of rows: this is the part of `np.unique(axis=0)` the model carries. -/
theorem uniqAll_sorted (t : Table) : SortedBy pairLt (uniqAll t) :=
  sorted_sortUniqBy pairLt_strictTotal _

/-- **the model lists the edges in the lexicographic order of their sorted pairs** (any table) -/
theorem edges_sorted (t : Table) : SortedBy pairLt (edges t) :=
  sortedBy_filter _ (uniqAll_sorted t)

/-- index form: a smaller edge number is a lexicographically smaller pair -/
theorem edges_strictly_increasing (t : Table) (i j : Nat) (hij : i < j)
    (hj : j < (edges t).length) :
    pairLt ((edges t)[i]'(Nat.lt_trans hij hj)) (edges t)[j] = true :=
  sortedBy_getElem (edges_sorted t) i j hij hj

theorem getI?_inj {α} {l : List α} (hnd : l.Nodup) {x y : Int} {a : α}
    (hx : getI? l x = some a) (hy : getI? l y = some a) : x = y := by
  unfold getI? at hx hy
  by_cases h1 : x < 0
  · simp [h1] at hx
  · by_cases h2 : y < 0
    · simp [h2] at hy
    · simp only [h1, h2, if_false] at hx hy
      obtain ⟨lx, gx⟩ := List.getElem?_eq_some_iff.mp hx
      obtain ⟨ly, gy⟩ := List.getElem?_eq_some_iff.mp hy
      have := (List.getElem_inj (h₀ := lx) (h₁ := ly) hnd).mp (by rw [gx, gy])
      omega

/-- **the specification plus the order determines the output completely**: an output meeting
    `Spec` whose edges are stored as sorted pairs in lexicographic order IS the model's output —
    same edge numbering, same face-edge table, entry for entry.  (So implementation and model
    are compared with identical numbering, not up to a renumbering.) -/
theorem spec_sorted_unique {n w : Nat} {t : Table} (h : StdForm n w t) (o : Out)
    (hs : Spec t w o) (hp : ∀ e ∈ o.edges, sortPair e = e) (hso : SortedBy pairLt o.edges) :
    o = build t := by
  obtain ⟨hperm, hN, hslots⟩ := spec_unique h o hs
  have hmap : o.edges.map sortPair = o.edges := by
    conv => rhs; rw [← List.map_id o.edges]
    exact List.map_congr_left (fun e he => by simpa using hp e he)
  rw [hmap] at hperm
  have hE : o.edges = edges t :=
    sortedBy_ext pairLt_strictTotal hso (edges_sorted t) (fun a => hperm.mem_iff)
  have hnd : (edges t).Nodup := nodup_of_sorted pairLt_strictTotal _ (edges_sorted t)
  have hfix : ∀ e ∈ edges t, sortPair e = e := fun e he => hp e (hE ▸ he)
  have mfe := faceEdges_ok h
  have ofe := hs.2.2.2.1
  have hFE : o.faceEdges = faceEdges t := by
    apply List.ext_getElem (by rw [ofe.1, mfe.1])
    intro f hf1 hf2
    have hf : f < t.length := by rw [← ofe.1]; exact hf1
    have r1 := ofe.2 f hf
    have r2 := mfe.2 f hf
    rw [rowAt_getElem _ f hf1] at r1
    rw [rowAt_getElem _ f hf2] at r2
    apply List.ext_getElem (by rw [r1.1, r2.1])
    intro j hj1 hj2
    have hjw : j < w := by rw [← r1.1]; exact hj1
    have s1 := r1.2 j hjw
    have s2 := r2.2 j hjw
    rw [entry_eq_getElem _ j hj1] at s1
    rw [entry_eq_getElem _ j hj2] at s2
    by_cases hjk : j < (faceOf (rowAt t f)).length
    · rw [if_pos hjk] at s1 s2
      obtain ⟨a, ha, ea, hea, hsa⟩ := s1
      obtain ⟨b, hb, eb, heb, hsb⟩ := s2
      have hab : a = b := by
        have x := Option.mem_def.mp ha
        have y := Option.mem_def.mp hb
        rw [x] at y; exact Option.some.inj y
      rw [hE] at hea
      have hea' := Option.mem_def.mp hea
      have heb' := Option.mem_def.mp heb
      have mema : ea ∈ edges t := by
        unfold getI? at hea'
        split at hea'
        · cases hea'
        · exact List.mem_of_getElem? hea'
      have memb : eb ∈ edges t := by
        unfold getI? at heb'
        split at heb'
        · cases heb'
        · exact List.mem_of_getElem? heb'
      have : ea = eb := by rw [← hfix ea mema, ← hfix eb memb, hsa, hsb, hab]
      rw [this] at hea'
      exact getI?_inj hnd hea' heb'
    · rw [if_neg hjk] at s1 s2
      rw [s1, s2]
  cases o
  simp only [build, Out.mk.injEq]
  exact ⟨hE, hFE, hN⟩

/-- the hypotheses of `spec_sorted_unique` are met by the model itself -/
theorem build_canonical {n w : Nat} {t : Table} (h : StdForm n w t) :
    (∀ e ∈ (build t).edges, sortPair e = e) ∧ SortedBy pairLt (build t).edges := by
  refine ⟨?_, edges_sorted t⟩
  intro e he
  obtain ⟨r, _, hs⟩ := edge_is_seg h e he
  exact rowSegs_sorted r e hs

example : SortedBy pairLt (edges [[2, 0, 1, FILL], [3, 1, 0, 2]]) := edges_sorted _
example : edges [[2, 0, 1, FILL], [3, 1, 0, 2]] = [(0, 1), (0, 2), (1, 2), (1, 3), (2, 3)] := by decide
/-- `spec_sorted_unique` is not vacuous … -/
example : Out.mk [(0, 1), (0, 2), (1, 2)] [[1, 0, 2]] [3] = build [[2, 0, 1]] :=
  spec_sorted_unique (n := 3) (w := 3) (by decide) _ (by decide) (by decide) (by decide)
/-- … and the order hypothesis is needed: the same edges numbered differently meet `Spec` -/
example : Spec [[2, 0, 1]] 3 (Out.mk [(1, 2), (0, 2), (0, 1)] [[1, 2, 0]] [3]) ∧
    Out.mk [(1, 2), (0, 2), (0, 1)] [[1, 2, 0]] [3] ≠ build [[2, 0, 1]] := by decide

/-- `np.unique`'s contract (the sorted unique rows) determines the model's result: any strictly
    increasing list with the same members as the input is `uniqPair` of it -/
theorem uniqPair_eq_of_sorted (l u : List (Int × Int)) (hs : SortedBy pairLt u)
    (hm : ∀ a, a ∈ u ↔ a ∈ l) : u = uniqPair l :=
  sortedBy_ext pairLt_strictTotal hs (sorted_sortUniqBy pairLt_strictTotal l)
    (fun a => by rw [hm a, mem_uniqPair])

example : uniqPair [(1, 2), (0, 5), (1, 2), (0, 1)] = [(0, 1), (0, 5), (1, 2)] := by decide

/-! ### simple faces (pairwise distinct corners, at least three): each face lists each of its
    edges once, and the edge→face loop never records the same face twice for an edge -/

theorem nPerFace_getD_of_spec {t : Table} {N : List Nat} (hN : NPerFaceOK t N) (f : Nat)
    (hf : f < t.length) : N.getD f 0 = (faceOf (rowAt t f)).length := by
  unfold NPerFaceOK at hN
  rw [hN, rowAt_getElem t f hf]
  simp [List.getD, List.getElem?_eq_getElem hf]

/-- **a simple face lists each of its edges once**: in ANY output meeting `Spec` the real entries
    of every face-edge row are pairwise distinct (the form `Incidence.edgeFace`'s loop reads). -/
theorem face_lists_each_edge_once {n w : Nat} {t : Table} (h : StdForm n w t)
    (hsimple : SimpleFaces t) (o : Out) (hs : Spec t w o) :
    ∀ f, f < o.faceEdges.length → (Incidence.faceEdgesOf o.faceEdges o.nPerFace f).Nodup := by
  obtain ⟨_, _, _, hfe, hN⟩ := hs
  intro f hf'
  have hf : f < t.length := by rw [← hfe.1]; exact hf'
  have hr : rowAt t f ∈ t := by rw [rowAt_getElem t f hf]; exact List.getElem_mem hf
  unfold Incidence.faceEdgesOf
  rw [nPerFace_getD_of_spec hN f hf]
  exact faceEdgeRow_nodup (faceOf_le_width (h _ hr)) (hfe.2 f hf) (hsimple _ hr)

/-- real face-edge entries of an output meeting `Spec` are valid edge numbers -/
theorem faceEdges_valid_of_spec {n w : Nat} {t : Table} (h : StdForm n w t) (o : Out)
    (hs : Spec t w o) (f : Nat) (hf : f < t.length) :
    ∀ x ∈ Incidence.faceEdgesOf o.faceEdges o.nPerFace f, 0 ≤ x ∧ x < (o.edges.length : Int) := by
  obtain ⟨_, _, _, hfe, hN⟩ := hs
  have hr : rowAt t f ∈ t := by rw [rowAt_getElem t f hf]; exact List.getElem_mem hf
  have hkw := faceOf_le_width (h _ hr)
  obtain ⟨hlen, hslots⟩ := hfe.2 f hf
  intro x hx
  unfold Incidence.faceEdgesOf at hx
  rw [nPerFace_getD_of_spec hN f hf] at hx
  obtain ⟨j, hj, rfl⟩ := List.getElem_of_mem hx
  simp only [List.length_take] at hj
  have hjk : j < (faceOf (rowAt t f)).length := by omega
  have s := hslots j (by omega)
  rw [if_pos hjk, entry_eq_getElem _ j (by omega)] at s
  obtain ⟨_, _, e, he, _⟩ := s
  rw [List.getElem_take]
  have he' := Option.mem_def.mp he
  unfold getI? at he'
  split at he'
  · cases he'
  · have := (List.getElem?_eq_some_iff.mp he').1
    omega

/-- every edge of an output meeting `Spec` is the edge of some face slot -/
theorem edge_is_fed_of_spec {n w : Nat} {t : Table} (h : StdForm n w t) (o : Out)
    (hs : Spec t w o) (e : Nat) (he : e < o.edges.length) :
    Incidence.feed (Incidence.efEvents o.faceEdges o.nPerFace) e ≠ [] := by
  have hs' := hs
  obtain ⟨hsound, _, honce, hfe, hN⟩ := hs
  obtain ⟨_, _, r, hr, hseg⟩ := hsound _ (List.getElem_mem he)
  obtain ⟨f, hf, rfl⟩ := List.getElem_of_mem hr
  obtain ⟨j, hj, hjs⟩ := List.getElem_of_mem hseg
  have hjk : j < (faceOf t[f]).length := by rw [length_rowSegs] at hj; exact hj
  have hkw := faceOf_le_width (h _ (List.getElem_mem hf))
  obtain ⟨hlen, hslots⟩ := hfe.2 f hf
  rw [rowAt_getElem t f hf] at hslots
  have s := hslots j (by omega)
  rw [if_pos hjk, entry_eq_getElem _ j (by omega)] at s
  obtain ⟨a, ha, e', he', hse⟩ := s
  have ha' : a = sortPair o.edges[e] := by
    have := Option.mem_def.mp ha
    rw [List.getElem?_eq_getElem hj] at this
    rw [← Option.some.inj this, hjs]
  -- the slot's entry is the number `e` itself (each unordered pair is listed once)
  have he'' := Option.mem_def.mp he'
  unfold getI? at he''
  split at he''
  · cases he''
  · rename_i hneg
    obtain ⟨hlt, hget⟩ := List.getElem?_eq_some_iff.mp he''
    have hidx : ((rowAt o.faceEdges f)[j]'(by omega)).toNat = e := by
      unfold EdgesOnce at honce
      have l1 : ((rowAt o.faceEdges f)[j]'(by omega)).toNat < (o.edges.map sortPair).length := by
        simpa using hlt
      have l2 : e < (o.edges.map sortPair).length := by simpa using he
      refine (List.getElem_inj (h₀ := l1) (h₁ := l2) honce).mp ?_
      simp only [List.getElem_map]
      rw [hget, hse, ha']
    have hmemFE : (rowAt o.faceEdges f)[j]'(by omega)
        ∈ Incidence.faceEdgesOf o.faceEdges o.nPerFace f := by
      unfold Incidence.faceEdgesOf
      rw [nPerFace_getD_of_spec hN f hf, rowAt_getElem t f hf]
      have hjt : j < ((rowAt o.faceEdges f).take (faceOf t[f]).length).length := by
        simp only [List.length_take]; omega
      have : (rowAt o.faceEdges f)[j]'(by omega)
          = ((rowAt o.faceEdges f).take (faceOf t[f]).length)[j]'hjt := by
        rw [List.getElem_take]
      rw [this]; exact List.getElem_mem _
    have hev : (e, Int.ofNat f) ∈ Incidence.efEvents o.faceEdges o.nPerFace := by
      unfold Incidence.efEvents
      simp only [List.mem_flatMap, List.mem_range, List.mem_map, Prod.mk.injEq]
      exact ⟨f, by rw [hfe.1]; exact hf, _, hmemFE, hidx, rfl⟩
    exact List.ne_nil_of_mem ((Incidence.mem_feed _ _ _).mpr hev)

/-- the faces the loop of `_build_edge_face_connectivity` writes into the row of one edge are
    pairwise different (no manifold hypothesis: an edge may bound any number of faces) -/
theorem edge_fed_each_face_once {n w : Nat} {t : Table} (h : StdForm n w t)
    (hsimple : SimpleFaces t) (o : Out) (hs : Spec t w o) (e : Nat) :
    (Incidence.feed (Incidence.efEvents o.faceEdges o.nPerFace) e).Nodup := by
  apply EdgeFaces.feed_ef_nodup
  intro f hf
  have hf' : f < t.length := by rw [← hs.2.2.2.1.1]; exact hf
  exact ⟨face_lists_each_edge_once h hsimple o hs f hf,
    fun x hx => (faceEdges_valid_of_spec h o hs f hf' x hx).1⟩

/-- **the two entries of every `edge_face_connectivity` row are different** (a face and the
    padding value, or two different faces), for the table C03's model builds from ANY edge tables
    meeting `Spec` on a standard-form table of simple faces.  This is `DistinctFaces` of
    `Props/C09.lean` with `EF := Incidence.edgeFace FE N EN.length`. -/
theorem edge_faces_distinct {n w : Nat} {t : Table} (h : StdForm n w t)
    (hsimple : SimpleFaces t) (o : Out) (hs : Spec t w o) :
    ∀ p ∈ Incidence.edgeFace o.faceEdges o.nPerFace o.edges.length, p.1 ≠ p.2 := by
  intro p hp
  obtain ⟨e, he, rfl⟩ := List.getElem_of_mem hp
  rw [EdgeFaces.edgeFace_len] at he
  have hget := EdgeFaces.edgeFace_getElem o.faceEdges o.nPerFace o.edges.length e he
  rw [List.getElem?_eq_getElem (by rw [EdgeFaces.edgeFace_len]; exact he)] at hget
  rw [Option.some.inj hget]
  apply EdgeFaces.slots_distinct _ (edge_is_fed_of_spec h o hs e he)
    (edge_fed_each_face_once h hsimple o hs e)
  intro x hx
  have := (Incidence.mem_feed _ _ _).mp hx
  unfold Incidence.efEvents at this
  simp only [List.mem_flatMap, List.mem_range, List.mem_map, Prod.mk.injEq] at this
  obtain ⟨f, _, _, _, _, rfl⟩ := this
  have : (0 : Int) ≤ Int.ofNat f := Int.natCast_nonneg f
  have := FILL_neg
  omega

/-- … in particular for the edge tables the C02 model derives itself -/
theorem edge_faces_distinct_build {n w : Nat} {t : Table} (h : StdForm n w t)
    (hsimple : SimpleFaces t) :
    ∀ p ∈ Incidence.edgeFace (faceEdges t) (nNodesPerFace t) (edges t).length, p.1 ≠ p.2 :=
  edge_faces_distinct h hsimple (build t) (build_meets_spec h)

/-- the padded table of a mesh whose faces have pairwise distinct corners, at least three each,
    consists of simple faces -/
theorem simpleFaces_pad (w : Nat) (m : Mesh) (hm : ∀ f ∈ m, f.Nodup ∧ 3 ≤ f.length) :
    SimpleFaces (pad w m) := by
  intro r hr
  rcases List.mem_map.mp hr with ⟨f, hf, rfl⟩
  obtain ⟨h1, h2⟩ := hm f hf
  unfold SimpleRow
  rw [faceOf_padRow]
  refine ⟨?_, by simpa using h2⟩
  unfold List.Nodup
  rw [List.pairwise_map]
  exact List.Pairwise.imp (fun hab heq => hab (Int.ofNat.inj heq)) h1

/-- non-vacuity: two triangles and a quad around a shared edge (edge (0,1) bounds THREE faces) -/
example : StdForm 5 4 [[0, 1, 2, FILL], [1, 0, 3, FILL], [0, 1, 4, 2]] ∧
    SimpleFaces [[0, 1, 2, FILL], [1, 0, 3, FILL], [0, 1, 4, 2]] := by decide
example : ∀ p ∈ Incidence.edgeFace (faceEdges [[0, 1, 2, FILL], [1, 0, 3, FILL], [0, 1, 4, 2]])
    (nNodesPerFace [[0, 1, 2, FILL], [1, 0, 3, FILL], [0, 1, 4, 2]])
    (edges [[0, 1, 2, FILL], [1, 0, 3, FILL], [0, 1, 4, 2]]).length, p.1 ≠ p.2 :=
  edge_faces_distinct_build (n := 5) (w := 4) (by decide) (by decide)
/-- both hypotheses are needed: a face visiting a corner twice (`0 1 0 2`) walks edge (0,1) twice,
    and a two-corner face lists its only edge in both slots — `edge_face` then holds a face twice -/
example : ¬ (∀ p ∈ Incidence.edgeFace (faceEdges [[0, 1, 0, 2]]) (nNodesPerFace [[0, 1, 0, 2]])
    (edges [[0, 1, 0, 2]]).length, p.1 ≠ p.2) := by decide
example : ¬ (∀ p ∈ Incidence.edgeFace (faceEdges [[0, 1, FILL]]) (nNodesPerFace [[0, 1, FILL]])
    (edges [[0, 1, FILL]]).length, p.1 ≠ p.2) := by decide

/-! ### outside the quantifier: tables NOT in standard form.
    The real builders validate nothing (no exception on padding in the middle of a row, on an empty
    row, on indices out of range): the model is total in the same way, and the harness compares
    it with the code entry for entry on a malformed-input stream.  Three of the five clauses of
    `Spec` survive on EVERY table; the other two need the standard form (counterexamples below). -/

/-- any row is its real corners followed, if anything follows, by a padding entry -/
theorem row_split (r : List Int) :
    ∃ tl, r ++ [FILL] = faceOf r ++ FILL :: tl := by
  induction r with
  | nil => exact ⟨[], by simp [faceOf]⟩
  | cons a r ih =>
    by_cases ha : a = FILL
    · subst ha
      exact ⟨r ++ [FILL], by simp [faceOf]⟩
    · obtain ⟨tl, htl⟩ := ih
      refine ⟨tl, ?_⟩
      have : faceOf (a :: r) = a :: faceOf r := by
        unfold faceOf
        rw [List.takeWhile_cons]
        simp [ha]
      rw [this, List.cons_append, htl, List.cons_append]

/-- **`n_nodes_per_face` is the number of entries before the first padding entry, for EVERY
    table** (standard form or not) -/
theorem nNodesRow_any (r : List Int) : nNodesRow r = (faceOf r).length := by
  unfold nNodesRow
  obtain ⟨tl, htl⟩ := row_split r
  rw [htl, idxOf_fill_append _ _ (faceOf_ne_fill r)]

theorem nPerFace_ok_any (t : Table) : NPerFaceOK t (nNodesPerFace t) := by
  unfold NPerFaceOK nNodesPerFace
  exact List.map_congr_left (fun r _ => nNodesRow_any r)

/-- the pairs of ANY row start with its boundary segments -/
theorem rowPairs_any (r : List Int) : ∃ tl, rowPairs r = rowSegs r ++ tl := by
  obtain ⟨tl, htl⟩ := row_split r
  unfold rowPairs rowSegs closeRow
  simp only []
  rw [htl, idxOf_fill_append _ _ (faceOf_ne_fill r),
    List.set_append_right _ _ (Nat.le_refl _)]
  simp only [Nat.sub_self, List.set_cons_zero]
  cases hf : faceOf r with
  | nil => exact ⟨(List.zip (r.headD FILL :: tl) tl).map sortPair, by simp [segs]⟩
  | cons a f =>
    have hhead : r.headD FILL = a := by
      cases r with
      | nil => simp [faceOf] at hf
      | cons b r =>
        unfold faceOf at hf
        rw [List.takeWhile_cons] at hf
        split at hf
        · simp at hf; simp [hf.1]
        · cases hf
    rw [hhead]
    refine ⟨(List.zip (a :: tl) tl).map sortPair, ?_⟩
    simp only [List.cons_append, List.tail_cons, segs_cons]
    rw [← List.map_append]
    congr 1
    have e1 : f ++ a :: tl = (f ++ [a]) ++ tl := by simp
    have e2 : a :: (f ++ [a] ++ tl) = (a :: f) ++ (a :: tl) := by simp
    rw [e1, e2, List.zip_append (by simp)]

/-- **every boundary segment of every face is listed, for EVERY table** -/
theorem edges_complete_any (t : Table) : EdgesComplete t (edges t) := by
  intro r hr s hs
  refine List.mem_map.mpr ⟨s, ?_, rowSegs_sorted r s hs⟩
  refine (mem_edges t s).mpr ⟨⟨r, hr, ?_⟩, rowSegs_noFill r s hs⟩
  obtain ⟨tl, htl⟩ := rowPairs_any r
  rw [htl]; exact List.mem_append_left _ hs

/-- **… exactly once, and never with padding, for EVERY table** -/
theorem edges_once_any (t : Table) : EdgesOnce (edges t) := by
  unfold EdgesOnce
  have hmap : (edges t).map sortPair = edges t := by
    conv => rhs; rw [← List.map_id (edges t)]
    apply List.map_congr_left
    intro e he
    obtain ⟨⟨r, _, hp⟩, _⟩ := (mem_edges t e).mp he
    unfold rowPairs at hp
    obtain ⟨q, _, rfl⟩ := List.mem_map.mp hp
    simpa using sortPair_idem q
  rw [hmap]
  exact nodup_of_sorted pairLt_strictTotal _ (edges_sorted t)

theorem edges_noFill_any (t : Table) : ∀ e ∈ edges t, e.1 ≠ FILL ∧ e.2 ≠ FILL := by
  intro e he
  have := ((mem_edges t e).mp he).2
  unfold hasFill at this
  simpa using this

/-- the standard form IS needed for the remaining two clauses: with padding in the middle of a
    row the builders (code and model alike, the harness shows identical tables) invent the edge
    (0,1) between the closing corner and what follows the padding … -/
theorem asis_midfill_unsound :
    ¬ EdgesSound [[0, FILL, 1, 2]] (build [[0, FILL, 1, 2]]).edges := by decide
/-- … and on a row whose padding starts the row the face-edge row points at an edge although
    the face has no corner -/
theorem asis_leadfill_faceEdges :
    ¬ FaceEdgesOK [[FILL, 0, 1]] 3 (build [[FILL, 0, 1]]).edges (build [[FILL, 0, 1]]).faceEdges := by
  decide

example : build [[0, FILL, 1, 2]] = ⟨[(0, 0), (0, 1), (1, 2)], [[0, 1, 2, FILL]], [1]⟩ := by decide
example : ¬ StdForm 3 4 [[0, FILL, 1, 2]] := by decide

/-! ### grids whose SOURCE supplies `edge_node_connectivity`: the table is kept and
    `face_edge_connectivity` indexes into it -/

/-- **only the unordered pairs of the supplied rows matter for the lookup** (which end node a row
    lists first is irrelevant) -/
theorem lookup_orientation_irrelevant (G G' : List (Int × Int)) (t : Table)
    (h : G.map sortPair = G'.map sortPair) : faceEdgesInto G t = faceEdgesInto G' t := by
  unfold faceEdgesInto lookupIn
  rw [h]

/-- looking a listed pair up yields a row joining exactly these two nodes -/
theorem lookupIn_get (G : List (Int × Int)) (p : Int × Int) (hp : p ∈ G.map sortPair) :
    ∃ e, getI? G (Int.ofNat (lookupIn G p)) = some e ∧ sortPair e = p := by
  unfold lookupIn
  have hi : (G.map sortPair).idxOf p < (G.map sortPair).length := List.idxOf_lt_length_iff.mpr hp
  have hi' : (G.map sortPair).idxOf p < G.length := by simpa using hi
  refine ⟨G[(G.map sortPair).idxOf p], ?_, ?_⟩
  · rw [getI?_ofNat, List.getElem?_eq_getElem hi']
  · have := List.getElem_idxOf hi
    rw [List.getElem_map] at this
    exact this

/-- **`face_edge_connectivity[f, j]` is the row of the SUPPLIED table joining corners `j`, `j+1` of
    face `f`, padding exactly where `f` has no corner** — for every supplied table that lists every
    edge of the faces (in any order, any orientation, with or without further rows) -/
theorem faceEdgesInto_ok {n w : Nat} {t : Table} (h : StdForm n w t) (G : List (Int × Int))
    (hcov : ∀ p ∈ edges t, p ∈ G.map sortPair) : FaceEdgesOK t w G (faceEdgesInto G t) := by
  refine ⟨by simp [faceEdgesInto], ?_⟩
  intro i hi
  have hr : t[i] ∈ t := List.getElem_mem hi
  have hrow : rowAt t i = t[i] := rowAt_getElem t i hi
  have hfe : rowAt (faceEdgesInto G t) i
      = (rowPairs t[i]).map (fun p => if hasFill p then FILL else Int.ofNat (lookupIn G p)) := by
    simp [rowAt, List.getD, faceEdgesInto, List.getElem?_eq_getElem hi]
  rw [hrow, hfe]
  obtain ⟨tl, htl, hfill, hlen⟩ := rowPairs_std (h _ hr)
  have hk := faceOf_le_width (h _ hr)
  have hplen : (rowPairs t[i]).length = w := by
    rw [htl, List.length_append, length_rowSegs, hlen]; omega
  refine ⟨by simp [hplen], ?_⟩
  intro j hj
  have hjp : j < (rowPairs t[i]).length := by omega
  have hent : entry ((rowPairs t[i]).map
        (fun p => if hasFill p then FILL else Int.ofNat (lookupIn G p))) j
      = (if hasFill (rowPairs t[i])[j] then FILL else Int.ofNat (lookupIn G (rowPairs t[i])[j])) := by
    simp [entry, List.getD, hjp]
  rw [hent]
  split
  · rename_i hjk
    have hjs : j < (rowSegs t[i]).length := by rw [length_rowSegs]; exact hjk
    have hpj : (rowPairs t[i])[j] = (rowSegs t[i])[j] := by
      simp only [htl]; rw [List.getElem_append_left hjs]
    have hs : (rowSegs t[i])[j] ∈ rowSegs t[i] := List.getElem_mem hjs
    rw [hpj, rowSegs_noFill _ _ hs]
    obtain ⟨e, he, hse⟩ := lookupIn_get G _ (hcov _ (seg_is_edge h _ hr _ hs))
    exact ⟨(rowSegs t[i])[j], by simp [List.getElem?_eq_getElem hjs], e, Option.mem_def.mpr he, hse⟩
  · rename_i hjk
    have hjs : (rowSegs t[i]).length ≤ j := by rw [length_rowSegs]; omega
    have hpj : (rowPairs t[i])[j] ∈ tl := by
      simp only [htl]; rw [List.getElem_append_right hjs]; exact List.getElem_mem _
    rw [hfill _ hpj]; simp

/-- **C02 with a supplied edge table**: for every standard-form table and every supplied table
    that is the faces' edges in ANY order with ANY orientation of each row, the specification
    holds with the supplied table itself as `edge_node_connectivity`. -/
theorem given_meets_spec {n w : Nat} {t : Table} (h : StdForm n w t) (G : List (Int × Int))
    (hG : (G.map sortPair).Perm (edges t)) :
    Spec t w ⟨G, faceEdgesInto G t, nNodesPerFace t⟩ := by
  refine ⟨?_, ?_, ?_, faceEdgesInto_ok h G (fun p hp => hG.mem_iff.mpr hp), nPerFace_ok h⟩
  · intro e he
    have hmem : sortPair e ∈ edges t := hG.mem_iff.mp (List.mem_map.mpr ⟨e, he, rfl⟩)
    obtain ⟨r, hr, hs⟩ := edge_is_seg h _ hmem
    have hnf := rowSegs_noFill r _ hs
    have : e.1 ≠ FILL ∧ e.2 ≠ FILL := by
      unfold hasFill sortPair at hnf
      split at hnf <;> simp at hnf <;> simp [hnf]
    exact ⟨this.1, this.2, r, hr, hs⟩
  · intro r hr s hs
    exact hG.mem_iff.mpr (seg_is_edge h r hr s hs)
  · unfold EdgesOnce
    have hnd : (edges t).Nodup := nodup_of_sorted pairLt_strictTotal _ (edges_sorted t)
    exact hG.nodup_iff.mpr hnd

/-- a non-empty standard-form table has an edge -/
theorem edges_ne_nil {n w : Nat} {t : Table} (h : StdForm n w t) (ht : t ≠ []) : edges t ≠ [] := by
  cases t with
  | nil => exact absurd rfl ht
  | cons r t =>
    have hr : r ∈ r :: t := by simp
    have hpos := (h r hr).2.1
    have hl : 0 < (rowSegs r).length := by rw [length_rowSegs]; exact hpos
    exact List.ne_nil_of_mem (seg_is_edge h r hr _ (List.getElem_mem hl))

/-- **the supplied table is kept** (same rows, same numbering, same orientation) whenever it is
    the faces' edges in some order and orientation … -/
theorem buildGiven_kept {n w : Nat} {t : Table} (h : StdForm n w t) (ht : t ≠ [])
    (G : List (Int × Int)) (hG : (G.map sortPair).Perm (edges t)) :
    buildGiven G t = ⟨G, faceEdgesInto G t, nNodesPerFace t⟩ := by
  have hne := edges_ne_nil h ht
  have hGne : G ≠ [] := by
    intro hG0; subst hG0
    exact hne (List.Perm.nil_eq hG).symm
  have hc : coversGiven G t = true := by
    unfold coversGiven
    simp only [Bool.and_eq_true, Bool.not_eq_true', List.isEmpty_eq_false_iff, List.all_eq_true,
      List.contains_iff_mem]
    exact ⟨⟨hne, hGne⟩, fun p hp => hG.mem_iff.mpr hp⟩
  unfold buildGiven
  rw [if_pos hc]

/-- … and then the grid's tables meet the specification -/
theorem buildGiven_meets_spec {n w : Nat} {t : Table} (h : StdForm n w t) (ht : t ≠ [])
    (G : List (Int × Int)) (hG : (G.map sortPair).Perm (edges t)) :
    Spec t w (buildGiven G t) ∧ (buildGiven G t).edges = G := by
  rw [buildGiven_kept h ht G hG]
  exact ⟨given_meets_spec h G hG, rfl⟩

/-- a supplied table that misses an edge of a face is replaced by the derived tables -/
theorem buildGiven_rederived {n w : Nat} {t : Table} (h : StdForm n w t) (G : List (Int × Int))
    (p : Int × Int) (hp : p ∈ edges t) (hmiss : p ∉ G.map sortPair) :
    buildGiven G t = build t ∧ Spec t w (buildGiven G t) := by
  have hc : coversGiven G t = false := by
    unfold coversGiven
    rw [Bool.and_eq_false_iff]
    right
    rw [List.all_eq_false]
    exact ⟨p, hp, by simpa using hmiss⟩
  have : buildGiven G t = build t := by unfold buildGiven; simp [hc]
  exact ⟨this, this ▸ build_meets_spec h⟩

/-- **the edge table determines the face-edge table**: any output meeting `Spec` has
    `face_edge_connectivity = faceEdgesInto` of its own edge table (whatever its numbering and
    orientation) and the model's corner counts -/
theorem spec_given_unique {n w : Nat} {t : Table} (h : StdForm n w t) (o : Out) (hs : Spec t w o) :
    o = ⟨o.edges, faceEdgesInto o.edges t, nNodesPerFace t⟩ := by
  obtain ⟨_, hcompl, honce, ofe, hN⟩ := hs
  have hcov : ∀ p ∈ edges t, p ∈ o.edges.map sortPair := by
    intro p hp
    obtain ⟨r, hr, hseg⟩ := edge_is_seg h p hp
    exact hcompl r hr p hseg
  have mfe := faceEdgesInto_ok h o.edges hcov
  have hFE : o.faceEdges = faceEdgesInto o.edges t := by
    apply List.ext_getElem (by rw [ofe.1, mfe.1])
    intro f hf1 hf2
    have hf : f < t.length := by rw [← ofe.1]; exact hf1
    have r1 := ofe.2 f hf
    have r2 := mfe.2 f hf
    rw [rowAt_getElem _ f hf1] at r1
    rw [rowAt_getElem _ f hf2] at r2
    apply List.ext_getElem (by rw [r1.1, r2.1])
    intro j hj1 hj2
    have hjw : j < w := by rw [← r1.1]; exact hj1
    have s1 := r1.2 j hjw
    have s2 := r2.2 j hjw
    rw [entry_eq_getElem _ j hj1] at s1
    rw [entry_eq_getElem _ j hj2] at s2
    by_cases hjk : j < (faceOf (rowAt t f)).length
    · rw [if_pos hjk] at s1 s2
      obtain ⟨a, ha, ea, hea, hsa⟩ := s1
      obtain ⟨b, hb, eb, heb, hsb⟩ := s2
      have hab : a = b := by
        have x := Option.mem_def.mp ha
        have y := Option.mem_def.mp hb
        rw [x] at y; exact Option.some.inj y
      -- both entries point at a row whose unordered pair is `a`; each unordered pair is listed once
      have key : ∀ (x : Int) (e : Int × Int), getI? o.edges x = some e → sortPair e = a →
          x = Int.ofNat ((o.edges.map sortPair).idxOf a) := by
        intro x e hx hse
        unfold getI? at hx
        split at hx
        · cases hx
        · rename_i hneg
          obtain ⟨hlt, hget⟩ := List.getElem?_eq_some_iff.mp hx
          have hlt' : x.toNat < (o.edges.map sortPair).length := by simpa using hlt
          have hga : (o.edges.map sortPair)[x.toNat] = a := by simp [hget, hse]
          have := List.Nodup.idxOf_getElem honce x.toNat hlt'
          rw [hga] at this
          rw [this]
          simp only [Int.ofNat_eq_natCast]
          omega
      rw [key _ ea (Option.mem_def.mp hea) hsa, key _ eb (Option.mem_def.mp heb) (hsb.trans hab.symm)]
    · rw [if_neg hjk] at s1 s2
      rw [s1, s2]
  have hN' : o.nPerFace = nNodesPerFace t := by
    have := nPerFace_ok h
    unfold NPerFaceOK at hN this
    rw [hN, this]
  cases o
  simp only [Out.mk.injEq, true_and]
  exact ⟨hFE, hN'⟩

/-- non-vacuity: the triangle's edges listed backwards, two of them from the larger node -/
example : ((([(2, 1), (0, 2), (1, 0)] : List (Int × Int)).map sortPair).Perm (edges [[2, 0, 1]])) := by
  decide
example : buildGiven [(2, 1), (0, 2), (1, 0)] [[2, 0, 1]] = ⟨[(2, 1), (0, 2), (1, 0)], [[1, 2, 0]], [3]⟩ := by
  decide
/-- a table that misses edge (0,1) is replaced -/
example : buildGiven [(2, 1), (0, 2)] [[2, 0, 1]] = build [[2, 0, 1]] := by decide
/-- the "kept" clause is not implied by the other clauses: the re-derived tables meet `Spec` too -/
example : failingGiven [[2, 0, 1]] 3 [(2, 1), (0, 2), (1, 0)] (build [[2, 0, 1]]) = ["supplied_table_kept"] := by
  decide

/-! ### non-vacuity: concrete tables meeting the hypothesis (checked by kernel evaluation) -/

/-- one triangle -/
example : StdForm 3 3 [[0, 1, 2]] := by decide
/-- the tetrahedron meets the hypothesis of `handshake_closed` (every edge in two face slots) -/
example : ∀ e ∈ edges [[0, 1, 2], [0, 3, 1], [1, 3, 2], [2, 3, 0]],
    (allSegs [[0, 1, 2], [0, 3, 1], [1, 3, 2], [2, 3, 0]]).count e = 2 := by decide
/-- two quads sharing two edges, and a pentagon among quads with padding -/
example : StdForm 6 5 [[0, 1, 2, 3, FILL], [0, 3, 2, 4, FILL], [0, 1, 2, 4, 5]] := by decide
example : Spec [[0, 1, 2, FILL], [2, 1, 3, 4]] 4 (build [[0, 1, 2, FILL], [2, 1, 3, 4]]) :=
  build_meets_spec (n := 5) (by decide)
/-- the specification is not trivially true: dropping an edge is rejected -/
example : ¬ Spec [[0, 1, 2]] 3 (Out.mk [(0, 1), (1, 2)] [[0, 1, FILL]] [3]) := by decide

end UxVerif.C02
