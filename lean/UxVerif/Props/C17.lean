/-
  C17 — Topological aggregations reduce over exactly each element's nodes.

  The theorems hold for EVERY reduction `red`, every node data function, every face-node table
  and every partition data meeting `PartsOK` (which the driver evaluates on the partitions the
  real `get_face_node_partitions` returns).
-/
import UxVerif.Lemmas.Keyed
import UxVerif.Lemmas.Rows
import UxVerif.Lemmas.Parts
import UxVerif.Model.Aggregate

namespace UxVerif.C17
open UxVerif UxVerif.Incidence UxVerif.Aggregate

variable {α β : Type}

theorem foldl_last_const (l : List β) (v : β) (init : Option β) (hne : l ≠ [])
    (hall : ∀ x ∈ l, x = v) : l.foldl (fun _ x => some x) init = some v := by
  induction l generalizing init with
  | nil => exact absurd rfl hne
  | cons a l ih =>
    simp only [List.foldl_cons]
    cases l with
    | nil => simp [hall a (by simp)]
    | cons b l => exact ih _ (by simp) (fun x hx => hall x (List.mem_cons_of_mem _ hx))

theorem mem_writes (red : List α → β) (data : Int → α) (t : Table) (p : Parts) (f : Nat) (v : β) :
    (f, v) ∈ writes red data t p ↔
      ∃ k, k < p.sizes.length ∧
        f ∈ slice p.perm (p.change.getD k 0) (p.change.getD (k + 1) 0) ∧
        v = red ((gather t f (p.sizes.getD k 0)).map data) := by
  unfold writes
  simp only [List.mem_flatMap, List.mem_range, List.mem_map, Prod.mk.injEq]
  constructor
  · rintro ⟨k, hk, f', hf', rfl, rfl⟩
    exact ⟨k, hk, hf', rfl⟩
  · rintro ⟨k, hk, hf, rfl⟩
    exact ⟨k, hk, f, hf, rfl, rfl⟩

/-- **node → face: the scatter/gather over size partitions equals the per-face reduction over
    exactly each face's corner nodes**, for every reduction and every partition data that
    groups the faces by size. -/
theorem agg_face_eq (red : List α → β) (data : Int → α) (t : Table) (N : List Nat) (p : Parts)
    (h : PartsOK t.length N p) : aggFace red data t p = faceRef red data t N := by
  obtain ⟨hsz, hcov⟩ := h
  apply List.ext_getElem?
  intro f
  unfold aggFace faceRef
  rw [keyedFold_get]
  by_cases hf : f < t.length
  · have h1 : (List.replicate t.length (none : Option β))[f]? = some none := by simp [hf]
    have h2 : ((List.range t.length).map
        (fun f => some (red ((gather t f (N.getD f 0)).map data))))[f]?
        = some (some (red ((gather t f (N.getD f 0)).map data))) := by simp [hf]
    rw [h1, h2]
    simp only [Option.map_some]
    congr 1
    apply foldl_last_const
    · obtain ⟨k, hk, hmem⟩ := hcov f hf
      have : (f, red ((gather t f (p.sizes.getD k 0)).map data)) ∈ writes red data t p :=
        (mem_writes red data t p f _).mpr ⟨k, List.mem_range.mp hk, hmem, rfl⟩
      intro hnil
      have := (mem_feed (writes red data t p) f _).mpr this
      rw [hnil] at this; cases this
    · intro x hx
      obtain ⟨k, hk, hmem, rfl⟩ := (mem_writes red data t p f x).mp ((mem_feed _ f x).mp hx)
      rw [(hsz k hk f hmem).2]
  · have h1 : (List.replicate t.length (none : Option β))[f]? = none := by simp; omega
    have h2 : ((List.range t.length).map
        (fun f => some (red ((gather t f (N.getD f 0)).map data))))[f]? = none := by simp; omega
    rw [h1, h2]; rfl

/-- **padding never contributes**: on a standard-form table the gathered indices of face `f`
    are its real corners — valid node numbers, never `FILL`. -/
theorem agg_no_padding {n w : Nat} {t : Table} (h : Edges.StdForm n w t) (f : Nat)
    (hf : f < t.length) :
    gather t f (Edges.nNodesRow (rowAt t f)) = faceOf (rowAt t f) ∧
    ∀ x ∈ gather t f (Edges.nNodesRow (rowAt t f)), x ≠ FILL ∧ 0 ≤ x ∧ x < n := by
  have hrow : rowAt t f = t[f] := by simp [rowAt, List.getD, List.getElem?_eq_getElem hf]
  have hstd := h _ (List.getElem_mem hf)
  have hg : gather t f (Edges.nNodesRow (rowAt t f)) = faceOf (rowAt t f) := by
    unfold gather
    rw [hrow, Edges.nNodesRow_std hstd]
    generalize hr : t[f] = r at hstd
    have e := Edges.stdRow_eq hstd
    generalize hk : faceOf r = k at e
    rw [e, List.take_left]
  rw [hrow] at hg ⊢
  refine ⟨hg, ?_⟩
  intro x hx
  rw [hg] at hx
  exact ⟨Edges.faceOf_ne_fill _ x hx, hstd.2.2.1 x hx⟩

/-- **node → edge**: each edge gets the reduction over exactly its two end nodes. -/
theorem agg_edge_eq (red : List α → β) (data : Int → α) (E : List (Int × Int)) (e : Nat)
    (he : e < E.length) :
    (aggEdge red data E)[e]? = some (red [data E[e].1, data E[e].2]) := by
  simp [aggEdge, he]

theorem agg_edge_length (red : List α → β) (data : Int → α) (E : List (Int × Int)) :
    (aggEdge red data E).length = E.length := by simp [aggEdge]

theorem agg_face_length (red : List α → β) (data : Int → α) (t : Table) (p : Parts) :
    (aggFace red data t p).length = t.length := by
  unfold aggFace; rw [keyedFold_length]; simp

/-- **leading dimensions**: the operator acts independently along leading indices (it is a map
    over the list of leading slices), so the per-face statement lifts to any rank. -/
theorem agg_leading (red : List α → β) (datas : List (Int → α)) (t : Table) (N : List Nat)
    (p : Parts) (h : PartsOK t.length N p) :
    datas.map (fun d => aggFace red d t p) = datas.map (fun d => faceRef red d t N) := by
  apply List.map_congr_left
  intro d _
  exact agg_face_eq red d t N p h

/-- **unsupported source/destination combinations raise**: numbers are returned only for
    node-centred data sent to faces or edges. -/
theorem agg_rejects (c : Centre) (d : Dest) :
    (dispatch c d = .toFace ↔ c = .node ∧ d = .face) ∧
    (dispatch c d = .toEdge ↔ c = .node ∧ d = .edge) := by
  cases c <;> cases d <;> simp [dispatch]

/-- **`get_face_node_partitions` is correct for every `argsort` tie-breaking**: whatever
    permutation sorts the face sizes, the partition data group the faces by size. -/
theorem parts_ok_any_argsort (N perm : List Nat) (h : SortsBy N perm) :
    PartsOK N.length N (partsOf N perm) := partsOf_ok N perm h

/-- **end to end**: with the partitions computed from ANY sorting permutation of the face sizes,
    the aggregation equals the per-face reduction over exactly each face's corner nodes. -/
theorem agg_face_eq_any_argsort (red : List α → β) (data : Int → α) (t : Table) (N perm : List Nat)
    (hN : N.length = t.length) (h : SortsBy N perm) :
    aggFace red data t (partsOf N perm) = faceRef red data t N :=
  agg_face_eq red data t N (partsOf N perm) (hN ▸ partsOf_ok N perm h)

/-- **C02 ∘ C17 end to end**: on EVERY standard-form face table, with the corner counts the C02
    model derives and the partitions computed from ANY sorting permutation of them, the
    aggregation of face `f` is the reduction over exactly the real corners of row `f` — the
    statement of the property with no intermediate table left as a hypothesis. -/
theorem agg_face_real_corners {n w : Nat} {t : Table} (h : Edges.StdForm n w t)
    (red : List α → β) (data : Int → α) (perm : List Nat)
    (hp : SortsBy (Edges.nNodesPerFace t) perm) :
    aggFace red data t (partsOf (Edges.nNodesPerFace t) perm)
      = t.map (fun r => some (red ((faceOf r).map data))) := by
  have hN : (Edges.nNodesPerFace t).length = t.length := by simp [Edges.nNodesPerFace]
  rw [agg_face_eq_any_argsort red data t _ perm hN hp]
  unfold faceRef
  apply List.ext_getElem
  · simp
  · intro f h1 h2
    have hf : f < t.length := by simpa using h1
    have hrow : rowAt t f = t[f] := by simp [rowAt, List.getD, List.getElem?_eq_getElem hf]
    have hNf : (Edges.nNodesPerFace t).getD f 0 = Edges.nNodesRow (rowAt t f) := by
      simp [Edges.nNodesPerFace, List.getD, List.getElem?_eq_getElem hf, hrow]
    have := (agg_no_padding h f hf).1
    rw [hrow] at this
    simp only [List.getElem_map, List.getElem_range, hNf, hrow, this]

/-! ### non-vacuity -/
example : SortsBy [4, 3, 4, 3, 5] [3, 1, 0, 2, 4] := by decide
/-- a triangle and a quad in "wrong" order, partitions as numpy returns them -/
example : PartsOK 3 [4, 3, 4] { change := [0, 1, 3], perm := [1, 0, 2], sizes := [3, 4] } := by
  decide
example : aggFace (fun l => l.foldl (· + ·) 0) (fun i => i) [[0, 1, 2, 3], [2, 1, 4, FILL], [5, 6, 7, 8]]
    { change := [0, 1, 3], perm := [1, 0, 2], sizes := [3, 4] } = [some 6, some 7, some 26] := by
  decide
/-- a partition that mixes sizes is rejected by the hypothesis -/
example : ¬ PartsOK 3 [4, 3, 4] { change := [0, 2, 3], perm := [1, 0, 2], sizes := [3, 4] } := by
  decide

end UxVerif.C17
