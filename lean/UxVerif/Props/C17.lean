/-
  C17 — Topological aggregations reduce over exactly each element's nodes.

  The theorems hold for EVERY reduction `red`, every node data function, every face-node table
  and every partition data meeting `PartsOK` (which the driver evaluates on the partitions the
  real `get_face_node_partitions` returns).

  Round E: the ten reductions of `NUMPY_AGGREGATIONS` are no longer only parameters.  They are
  explicit exact functions over ℚ (`Aggregate.core`; `std` through its square), every finite
  float64/int/bool being a rational, and the float clause of the spec (`Aggregate.accepts`: the
  implementation's output is within a rounding allowance of the exact reduction of exactly the
  element's corner values) is DECIDED BY THE LEAN DRIVER on every output.
  * `red_perm_invariant`, `accepts_perm_invariant` — value and verdict depend only on the multiset
    of the row (start corner / orientation of a face row, orientation of an edge are irrelevant:
    `agg_corner_order_irrelevant`, `agg_edge_orientation_irrelevant`);
  * `red_min_max_sort_spec` — min/max are the least/greatest member, the sorted row (median) is
    the ascending rearrangement;
  * `judge_accepts_exact`, `judge_exact_ops`, `judgeRows_iff` — the judge never rejects the exact
    value, is exact equality for min/max/all/any, and means one accepted finite value per row;
  * `loop_rows_are_corner_rows`, `agg_face_factor`, `agg_face_local` — the rows the partition loop
    gathers are exactly the corner values; no other node contributes;
  * `agg_edge_real_endpoints` — C02 ∘ C17 for the edge destination;
  * `agg_subgrid_commutes(_std)` — aggregation commutes with taking a face sub-grid.
-/
import UxVerif.Lemmas.Keyed
import UxVerif.Lemmas.Rows
import UxVerif.Lemmas.Parts
import UxVerif.Lemmas.C17Reduce
import UxVerif.Props.C02
import UxVerif.Model.Aggregate

namespace UxVerif.C17
open UxVerif UxVerif.Incidence UxVerif.Aggregate

variable {α β : Type}

theorem foldl_last_const (l : List β) (v : β) (init : Option β) (hne : l ≠ [])
    (hall : ∀ x ∈ l, x = v) : l.foldl (fun _ x => some x) init = some v := by
  induction l generalizing init with
  | nil => exact absurd rfl hne
  | cons a l ih =>
    simp only [List.foldl_cons]
    cases l with
    | nil => simp [hall a (by simp)]
    | cons b l => exact ih _ (by simp) (fun x hx => hall x (List.mem_cons_of_mem _ hx))

theorem mem_writes (red : List α → β) (data : Int → α) (t : Table) (p : Parts) (f : Nat) (v : β) :
    (f, v) ∈ writes red data t p ↔
      ∃ k, k < p.sizes.length ∧
        f ∈ slice p.perm (p.change.getD k 0) (p.change.getD (k + 1) 0) ∧
        v = red ((gather t f (p.sizes.getD k 0)).map data) := by
  unfold writes
  simp only [List.mem_flatMap, List.mem_range, List.mem_map, Prod.mk.injEq]
  constructor
  · rintro ⟨k, hk, f', hf', rfl, rfl⟩
    exact ⟨k, hk, hf', rfl⟩
  · rintro ⟨k, hk, hf, rfl⟩
    exact ⟨k, hk, f, hf, rfl, rfl⟩

/-- **node → face: the scatter/gather over size partitions equals the per-face reduction over
    exactly each face's corner nodes**, for every reduction and every partition data that
    groups the faces by size. -/
theorem agg_face_eq (red : List α → β) (data : Int → α) (t : Table) (N : List Nat) (p : Parts)
    (h : PartsOK t.length N p) : aggFace red data t p = faceRef red data t N := by
  obtain ⟨hsz, hcov⟩ := h
  apply List.ext_getElem?
  intro f
  unfold aggFace faceRef
  rw [keyedFold_get]
  by_cases hf : f < t.length
  · have h1 : (List.replicate t.length (none : Option β))[f]? = some none := by simp [hf]
    have h2 : ((List.range t.length).map
        (fun f => some (red ((gather t f (N.getD f 0)).map data))))[f]?
        = some (some (red ((gather t f (N.getD f 0)).map data))) := by simp [hf]
    rw [h1, h2]
    simp only [Option.map_some]
    congr 1
    apply foldl_last_const
    · obtain ⟨k, hk, hmem⟩ := hcov f hf
      have : (f, red ((gather t f (p.sizes.getD k 0)).map data)) ∈ writes red data t p :=
        (mem_writes red data t p f _).mpr ⟨k, List.mem_range.mp hk, hmem, rfl⟩
      intro hnil
      have := (mem_feed (writes red data t p) f _).mpr this
      rw [hnil] at this; cases this
    · intro x hx
      obtain ⟨k, hk, hmem, rfl⟩ := (mem_writes red data t p f x).mp ((mem_feed _ f x).mp hx)
      rw [(hsz k hk f hmem).2]
  · have h1 : (List.replicate t.length (none : Option β))[f]? = none := by simp; omega
    have h2 : ((List.range t.length).map
        (fun f => some (red ((gather t f (N.getD f 0)).map data))))[f]? = none := by simp; omega
    rw [h1, h2]; rfl

/-- **padding never contributes**: on a standard-form table the gathered indices of face `f`
    are its real corners — valid node numbers, never `FILL`. -/
theorem agg_no_padding {n w : Nat} {t : Table} (h : Edges.StdForm n w t) (f : Nat)
    (hf : f < t.length) :
    gather t f (Edges.nNodesRow (rowAt t f)) = faceOf (rowAt t f) ∧
    ∀ x ∈ gather t f (Edges.nNodesRow (rowAt t f)), x ≠ FILL ∧ 0 ≤ x ∧ x < n := by
  have hrow : rowAt t f = t[f] := by simp [rowAt, List.getD, List.getElem?_eq_getElem hf]
  have hstd := h _ (List.getElem_mem hf)
  have hg : gather t f (Edges.nNodesRow (rowAt t f)) = faceOf (rowAt t f) := by
    unfold gather
    rw [hrow, Edges.nNodesRow_std hstd]
    generalize hr : t[f] = r at hstd
    have e := Edges.stdRow_eq hstd
    generalize hk : faceOf r = k at e
    rw [e, List.take_left]
  rw [hrow] at hg ⊢
  refine ⟨hg, ?_⟩
  intro x hx
  rw [hg] at hx
  exact ⟨Edges.faceOf_ne_fill _ x hx, hstd.2.2.1 x hx⟩

/-- **node → edge**: each edge gets the reduction over exactly its two end nodes. -/
theorem agg_edge_eq (red : List α → β) (data : Int → α) (E : List (Int × Int)) (e : Nat)
    (he : e < E.length) :
    (aggEdge red data E)[e]? = some (red [data E[e].1, data E[e].2]) := by
  simp [aggEdge, he]

theorem agg_edge_length (red : List α → β) (data : Int → α) (E : List (Int × Int)) :
    (aggEdge red data E).length = E.length := by simp [aggEdge]

theorem agg_face_length (red : List α → β) (data : Int → α) (t : Table) (p : Parts) :
    (aggFace red data t p).length = t.length := by
  unfold aggFace; rw [keyedFold_length]; simp

/-- **leading dimensions**: the operator acts independently along leading indices (it is a map
    over the list of leading slices), so the per-face statement lifts to any rank. -/
theorem agg_leading (red : List α → β) (datas : List (Int → α)) (t : Table) (N : List Nat)
    (p : Parts) (h : PartsOK t.length N p) :
    datas.map (fun d => aggFace red d t p) = datas.map (fun d => faceRef red d t N) := by
  apply List.map_congr_left
  intro d _
  exact agg_face_eq red d t N p h

/-- **unsupported source/destination combinations raise**: numbers are returned only for
    node-centred data sent to faces or edges. -/
theorem agg_rejects (c : Centre) (d : Dest) :
    (dispatch c d = .toFace ↔ c = .node ∧ d = .face) ∧
    (dispatch c d = .toEdge ↔ c = .node ∧ d = .edge) := by
  cases c <;> cases d <;> simp [dispatch]

/-- **`get_face_node_partitions` is correct for every `argsort` tie-breaking**: whatever
    permutation sorts the face sizes, the partition data group the faces by size. -/
theorem parts_ok_any_argsort (N perm : List Nat) (h : SortsBy N perm) :
    PartsOK N.length N (partsOf N perm) := partsOf_ok N perm h

/-- **end to end**: with the partitions computed from ANY sorting permutation of the face sizes,
    the aggregation equals the per-face reduction over exactly each face's corner nodes. -/
theorem agg_face_eq_any_argsort (red : List α → β) (data : Int → α) (t : Table) (N perm : List Nat)
    (hN : N.length = t.length) (h : SortsBy N perm) :
    aggFace red data t (partsOf N perm) = faceRef red data t N :=
  agg_face_eq red data t N (partsOf N perm) (hN ▸ partsOf_ok N perm h)

/-- **C02 ∘ C17 end to end**: on EVERY standard-form face table, with the corner counts the C02
    model derives and the partitions computed from ANY sorting permutation of them, the
    aggregation of face `f` is the reduction over exactly the real corners of row `f` — the
    statement of the property with no intermediate table left as a hypothesis. -/
theorem agg_face_real_corners {n w : Nat} {t : Table} (h : Edges.StdForm n w t)
    (red : List α → β) (data : Int → α) (perm : List Nat)
    (hp : SortsBy (Edges.nNodesPerFace t) perm) :
    aggFace red data t (partsOf (Edges.nNodesPerFace t) perm)
      = t.map (fun r => some (red ((faceOf r).map data))) := by
  have hN : (Edges.nNodesPerFace t).length = t.length := by simp [Edges.nNodesPerFace]
  rw [agg_face_eq_any_argsort red data t _ perm hN hp]
  unfold faceRef
  apply List.ext_getElem
  · simp
  · intro f h1 h2
    have hf : f < t.length := by simpa using h1
    have hrow : rowAt t f = t[f] := by simp [rowAt, List.getD, List.getElem?_eq_getElem hf]
    have hNf : (Edges.nNodesPerFace t).getD f 0 = Edges.nNodesRow (rowAt t f) := by
      simp [Edges.nNodesPerFace, List.getD, List.getElem?_eq_getElem hf, hrow]
    have := (agg_no_padding h f hf).1
    rw [hrow] at this
    simp only [List.getElem_map, List.getElem_range, hNf, hrow, this]


/-! ## the ten reductions themselves (exact, over ℚ) and the Lean-decided float clause -/

/-- **corner order / start corner is irrelevant to every one of the ten reductions**: the exact
    value depends only on the multiset of the gathered row. -/
theorem red_perm_invariant (op : Red) (ddof : Nat) {l₁ l₂ : List Rat} (h : l₁.Perm l₂) :
    core op ddof l₁ = core op ddof l₂ := core_perm op ddof h

/-- … and so does the verdict of the float clause (value AND rounding allowance). -/
theorem accepts_perm_invariant (op : Red) (ddof : Nat) {l₁ l₂ : List Rat} (h : l₁.Perm l₂)
    (y : Rat) : accepts op ddof l₁ y = accepts op ddof l₂ y := accepts_perm op ddof h y

/-- the model's `min` / `max` are the least / greatest MEMBER of the row (never a value from
    elsewhere), its sorted row is the ascending rearrangement of the row. -/
theorem red_min_max_sort_spec (l : List Rat) :
    (∀ m, core .min 0 l = some m ↔ m ∈ l ∧ ∀ x ∈ l, m ≤ x) ∧
    (∀ m, core .max 0 l = some m ↔ m ∈ l ∧ ∀ x ∈ l, x ≤ m) ∧
    (sortQ l).Perm l ∧ (sortQ l).Pairwise (· ≤ ·) :=
  ⟨qmin_spec l, qmax_spec l, sortQ_perm_self l, sortQ_sorted l⟩

/-- **the judge never rejects the exact value** (the allowance is non-negative): a rejection is
    a deviation beyond float64 rounding. -/
theorem judge_accepts_exact (op : Red) (ddof : Nat) (row : List Rat) (y : Rat)
    (h : IsValue op ddof row y) : accepts op ddof row y = true :=
  accepts_of_isValue op ddof row y h

/-- **for min, max, all, any the judge accepts exactly the true value** (no allowance). -/
theorem judge_exact_ops (op : Red) (ddof : Nat) (row : List Rat) (y : Rat)
    (hop : op = .min ∨ op = .max ∨ op = .all ∨ op = .any) :
    accepts op ddof row y = true ↔ IsValue op ddof row y :=
  accepts_exact_iff op ddof row y hop

/-- what the driver's verdict on a result vector means: one accepted finite output per
    prescribed row. -/
theorem judgeRows_iff (op : Red) (ddof : Nat) (rows : List (List Rat)) (out : List (Option Rat)) :
    judgeRows op ddof rows out = true ↔
      rows.length = out.length ∧
      ∀ i (h₁ : i < rows.length) (h₂ : i < out.length),
        ∃ y, out[i] = some y ∧ accepts op ddof rows[i] y = true := by
  unfold judgeRows
  simp only [Bool.and_eq_true, decide_eq_true_eq, List.all_eq_true]
  constructor
  · rintro ⟨hl, hall⟩
    refine ⟨hl, fun i h₁ h₂ => ?_⟩
    have hm : (rows[i], out[i]) ∈ rows.zip out := by
      rw [List.mem_iff_getElem]
      exact ⟨i, by simp [h₁, h₂], by simp⟩
    have := hall _ hm
    cases ho : out[i] with
    | none => simp [ho] at this
    | some y => exact ⟨y, rfl, by simpa [ho] using this⟩
  · rintro ⟨hl, hall⟩
    refine ⟨hl, fun ry hm => ?_⟩
    obtain ⟨i, hi, rfl⟩ := List.mem_iff_getElem.mp hm
    have h₁ : i < rows.length := by simp at hi; omega
    have h₂ : i < out.length := by simp at hi; omega
    obtain ⟨y, hy, hacc⟩ := hall i h₁ h₂
    simp [hy, hacc]

/-- **the rows the partition loop gathers are exactly the values on each face's real corners**
    (the C02 ∘ C17 statement with `red = id`): the rows the driver judges the implementation
    against are the rows the property prescribes. -/
theorem loop_rows_are_corner_rows {n w : Nat} {t : Table} (h : Edges.StdForm n w t)
    (data : Int → Rat) (perm : List Nat) (hp : SortsBy (Edges.nNodesPerFace t) perm) :
    loopRows data t (partsOf (Edges.nNodesPerFace t) perm) = (cornerRows data t).map some := by
  unfold loopRows cornerRows
  rw [agg_face_real_corners h (fun row => row) data perm hp]
  simp

/-- the aggregation with ANY reduction is that reduction applied to the gathered rows -/
theorem agg_face_factor (red : List α → β) (data : Int → α) (t : Table) (N : List Nat) (p : Parts)
    (h : PartsOK t.length N p) :
    aggFace red data t p = (aggFace (fun row => row) data t p).map (Option.map red) := by
  rw [agg_face_eq red data t N p h, agg_face_eq (fun row => row) data t N p h]
  simp [faceRef]

/-- **locality**: the aggregated value of face `f` depends on the data only through the values
    on the real corners of `f` — no other node contributes. -/
theorem agg_face_local {n w : Nat} {t : Table} (h : Edges.StdForm n w t)
    (red : List α → β) (data data' : Int → α) (perm : List Nat)
    (hp : SortsBy (Edges.nNodesPerFace t) perm) (f : Nat) (hf : f < t.length)
    (hag : ∀ x ∈ faceOf t[f], data x = data' x) :
    (aggFace red data t (partsOf (Edges.nNodesPerFace t) perm))[f]? =
      (aggFace red data' t (partsOf (Edges.nNodesPerFace t) perm))[f]? := by
  rw [agg_face_real_corners h red data perm hp, agg_face_real_corners h red data' perm hp]
  simp only [List.getElem?_map, List.getElem?_eq_getElem hf, Option.map_some]
  congr 3
  exact List.map_congr_left hag

theorem map_corner_perm (op : Red) (ddof : Nat) (data : Int → Rat) {t t' : Table}
    (hperm : List.Forall₂ (fun r r' => (faceOf r).Perm (faceOf r')) t t') :
    t.map (fun r => some (core op ddof ((faceOf r).map data)))
      = t'.map (fun r => some (core op ddof ((faceOf r).map data))) := by
  induction hperm with
  | nil => rfl
  | cons hr _ ih =>
    simp only [List.map_cons]
    rw [ih, core_perm op ddof (hr.map data)]

/-- **start corner and orientation of each face row are irrelevant**: two standard-form tables
    whose rows list the same corners in any order give the same aggregation, for each of the ten
    reductions and any argsort tie-breaking on either side. -/
theorem agg_corner_order_irrelevant {n w n' w' : Nat} {t t' : Table}
    (h : Edges.StdForm n w t) (h' : Edges.StdForm n' w' t')
    (hperm : List.Forall₂ (fun r r' => (faceOf r).Perm (faceOf r')) t t')
    (op : Red) (ddof : Nat) (data : Int → Rat) (perm perm' : List Nat)
    (hp : SortsBy (Edges.nNodesPerFace t) perm) (hp' : SortsBy (Edges.nNodesPerFace t') perm') :
    aggFace (core op ddof) data t (partsOf (Edges.nNodesPerFace t) perm)
      = aggFace (core op ddof) data t' (partsOf (Edges.nNodesPerFace t') perm') := by
  rw [agg_face_real_corners h _ data perm hp, agg_face_real_corners h' _ data perm' hp']
  exact map_corner_perm op ddof data hperm

/-- **node → edge: the orientation of an edge is irrelevant** to each of the ten reductions, and
    the gathered edge rows are exactly the two end values. -/
theorem agg_edge_orientation_irrelevant (op : Red) (ddof : Nat) (data : Int → Rat)
    (E : List (Int × Int)) :
    edgeRows data E = E.map (fun e => [data e.1, data e.2]) ∧
    aggEdge (core op ddof) data E = aggEdge (core op ddof) data (E.map Prod.swap) := by
  refine ⟨by simp [edgeRows, aggEdge], ?_⟩
  simp only [aggEdge, List.map_map]
  apply List.map_congr_left
  intro e _
  exact core_perm op ddof (List.Perm.swap _ _ _)

/-- **C02 ∘ C17 for edges**: on the edge table the C02 model derives from ANY standard-form face
    table, each aggregated edge value is the reduction over exactly its two end values, and the two
    ends are real nodes (never padding) that are consecutive corners of some face. -/
theorem agg_edge_real_endpoints {n w : Nat} {t : Table} (h : Edges.StdForm n w t)
    (red : List α → β) (data : Int → α) (i : Nat) (hi : i < (Edges.edges t).length) :
    (aggEdge red data (Edges.edges t))[i]?
        = some (red [data (Edges.edges t)[i].1, data (Edges.edges t)[i].2]) ∧
      (Edges.edges t)[i].1 ≠ FILL ∧ (Edges.edges t)[i].2 ≠ FILL ∧
      ∃ r ∈ t, sortPair (Edges.edges t)[i] ∈ Edges.rowSegs r := by
  refine ⟨agg_edge_eq red data _ i hi, ?_⟩
  exact UxVerif.C02.edges_sound h _ (List.getElem_mem hi)

theorem faceOf_map (ren : Int → Int) (r : List Int) (hren : ∀ x ∈ r, (ren x = FILL ↔ x = FILL)) :
    faceOf (r.map ren) = (faceOf r).map ren := by
  induction r with
  | nil => rfl
  | cons a r ih =>
    have ha := hren a (by simp)
    have ih := ih (fun x hx => hren x (List.mem_cons_of_mem _ hx))
    unfold faceOf at *
    simp only [List.map_cons, List.takeWhile_cons]
    by_cases h : a = FILL
    · subst h; simp [ha.mpr rfl]
    · have : ren a ≠ FILL := fun e => h (ha.mp e)
      simp [h, this, ih]

/-- a face selection with an injective-on-padding renumbering into `[0, n')` of a standard-form
    table is in standard form (same width) -/
theorem subTable_stdForm {n w n' : Nat} {t : Table} (h : Edges.StdForm n w t)
    (idx : List Nat) (hidx : ∀ f ∈ idx, f < t.length)
    (ren : Int → Int) (hren : ∀ x, ren x = FILL ↔ x = FILL)
    (hrng : ∀ f ∈ idx, ∀ x ∈ faceOf (rowAt t f), 0 ≤ ren x ∧ ren x < n') :
    Edges.StdForm n' w (subTable t idx ren) := by
  intro r' hr'
  obtain ⟨f, hf, rfl⟩ := List.mem_map.mp hr'
  have hft := hidx f hf
  have hrow : rowAt t f = t[f] := by simp [rowAt, List.getD, List.getElem?_eq_getElem hft]
  obtain ⟨hlen, hpos, _, hfill⟩ := h _ (hrow ▸ List.getElem_mem hft)
  have hfo := faceOf_map ren (rowAt t f) (fun x _ => hren x)
  refine ⟨by simpa using hlen, by rw [hfo]; simpa using hpos, ?_, ?_⟩
  · intro x hx
    rw [hfo] at hx
    obtain ⟨y, hy, rfl⟩ := List.mem_map.mp hx
    exact hrng f hf y hy
  · intro x hx
    rw [hfo, List.length_map, ← List.map_drop] at hx
    obtain ⟨y, hy, rfl⟩ := List.mem_map.mp hx
    rw [hfill y hy]
    exact (hren FILL).mpr rfl

/-- **aggregation commutes with taking a sub-grid**: on the sub-grid whose rows are the selected
    parent rows with renumbered nodes, carrying the parent's node values along the renumbering,
    the aggregation is the selection of the parent's aggregation — for every reduction and any
    argsort tie-breaking on either grid. -/
theorem agg_subgrid_commutes {n w n' w' : Nat} {t : Table} (h : Edges.StdForm n w t)
    (idx : List Nat) (hidx : ∀ f ∈ idx, f < t.length)
    (ren : Int → Int) (hren : ∀ x, ren x = FILL ↔ x = FILL)
    (h' : Edges.StdForm n' w' (subTable t idx ren))
    (red : List α → β) (data data' : Int → α)
    (hdata : ∀ f ∈ idx, ∀ x ∈ faceOf (rowAt t f), data' (ren x) = data x)
    (perm perm' : List Nat) (hp : SortsBy (Edges.nNodesPerFace t) perm)
    (hp' : SortsBy (Edges.nNodesPerFace (subTable t idx ren)) perm') :
    aggFace red data' (subTable t idx ren) (partsOf (Edges.nNodesPerFace (subTable t idx ren)) perm')
      = idx.map (fun f => (aggFace red data t (partsOf (Edges.nNodesPerFace t) perm)).getD f none) := by
  rw [agg_face_real_corners h' red data' perm' hp', agg_face_real_corners h red data perm hp]
  unfold subTable
  rw [List.map_map]
  apply List.map_congr_left
  intro f hf
  have hft := hidx f hf
  have hrow : rowAt t f = t[f] := by simp [rowAt, List.getD, List.getElem?_eq_getElem hft]
  simp only [Function.comp, List.getD_eq_getElem?_getD, List.getElem?_map,
    List.getElem?_eq_getElem hft, Option.map_some, Option.getD_some]
  have hd := hdata f hf
  rw [hrow] at hd ⊢
  rw [faceOf_map ren _ (fun x _ => hren x), List.map_map]
  congr 2
  apply List.map_congr_left
  intro x hx
  exact hd x hx

/-- the same with the standard form of the sub-grid table DERIVED (renumbering into `[0, n')`) -/
theorem agg_subgrid_commutes_std {n w n' : Nat} {t : Table} (h : Edges.StdForm n w t)
    (idx : List Nat) (hidx : ∀ f ∈ idx, f < t.length)
    (ren : Int → Int) (hren : ∀ x, ren x = FILL ↔ x = FILL)
    (hrng : ∀ f ∈ idx, ∀ x ∈ faceOf (rowAt t f), 0 ≤ ren x ∧ ren x < n')
    (red : List α → β) (data data' : Int → α)
    (hdata : ∀ f ∈ idx, ∀ x ∈ faceOf (rowAt t f), data' (ren x) = data x)
    (perm perm' : List Nat) (hp : SortsBy (Edges.nNodesPerFace t) perm)
    (hp' : SortsBy (Edges.nNodesPerFace (subTable t idx ren)) perm') :
    aggFace red data' (subTable t idx ren) (partsOf (Edges.nNodesPerFace (subTable t idx ren)) perm')
      = idx.map (fun f => (aggFace red data t (partsOf (Edges.nNodesPerFace t) perm)).getD f none) :=
  agg_subgrid_commutes h idx hidx ren hren (subTable_stdForm h idx hidx ren hren hrng)
    red data data' hdata perm perm' hp hp'

/-! ### non-vacuity -/
example : SortsBy [4, 3, 4, 3, 5] [3, 1, 0, 2, 4] := by decide
/-- a triangle and a quad in "wrong" order, partitions as numpy returns them -/
example : PartsOK 3 [4, 3, 4] { change := [0, 1, 3], perm := [1, 0, 2], sizes := [3, 4] } := by
  decide
example : aggFace (fun l => l.foldl (· + ·) 0) (fun i => i) [[0, 1, 2, 3], [2, 1, 4, FILL], [5, 6, 7, 8]]
    { change := [0, 1, 3], perm := [1, 0, 2], sizes := [3, 4] } = [some 6, some 7, some 26] := by
  decide
/-- a partition that mixes sizes is rejected by the hypothesis -/
example : ¬ PartsOK 3 [4, 3, 4] { change := [0, 2, 3], perm := [1, 0, 2], sizes := [3, 4] } := by
  decide

/-- the ten reductions on the corner values 1, 4, 2, 2 of a quad (std: its square) -/
example : [Red.mean, .max, .min, .prod, .sum, .std, .var, .median, .all, .any].map
      (fun op => core op 0 [1, 4, 2, 2])
    = [some (9/4), some 4, some 1, some 16, some 9, some (19/16), some (19/16), some 2, some 1, some 1] := by
  decide +kernel
/-- even/odd medians, ddof = 1, a zero among non-bool data, empty rows -/
example : core .median 0 [5, 1, 3] = some 3 ∧ core .median 0 [5, 1, 3, 2] = some (5/2) ∧
    core .var 1 [1, 4, 2, 2] = some (19/12) ∧ core .all 0 [3, 0, 2] = some 0 ∧
    core .any 0 [0, 0, 2] = some 1 ∧ core .mean 0 [] = none ∧ core .var 1 [7] = none := by
  decide +kernel
/-- rotating / reversing the row changes nothing, dropping a corner or reading a padding slot does -/
example : core .mean 0 [1, 4, 2, 2] = core .mean 0 [2, 2, 4, 1] ∧
    core .mean 0 [1, 4, 2, 2] ≠ core .mean 0 [1, 4, 2] ∧
    core .median 0 [1, 4, 3, 2] ≠ core .median 0 [1, 4, 3, 2, 0] := by decide +kernel
/-- the judge: an exact value and a last-bit deviation pass, a wrong divisor (ddof) or a missing
    corner fails; for min no deviation passes -/
example : accepts .mean 0 [1, 4, 2, 2] (9/4) = true ∧
    accepts .mean 0 [1, 4, 2, 2] (9/4 + eps) = true ∧
    accepts .mean 0 [1, 4, 2, 2] (7/3) = false ∧
    accepts .var 0 [1, 4, 2, 2] (19/12) = false ∧
    accepts .std 1 [1, 3] 2 = false ∧ accepts .std 0 [1, 3] 1 = true ∧
    accepts .min 0 [1, 4, 2, 2] (1 + eps) = false := by decide +kernel
example : judgeRows .sum 0 [[1, 2, 3], [4, 5]] [some 6, some 9] = true ∧
    judgeRows .sum 0 [[1, 2, 3], [4, 5]] [some 6, none] = false ∧
    judgeRows .sum 0 [[1, 2, 3], [4, 5]] [some 6] = false := by decide +kernel
/-- a mixed table: the loop's rows are the corner rows; the same faces started at another corner -/
example : loopRows (fun i => (i : Rat) / 2) [[0, 1, 2, 3], [2, 1, 4, FILL]]
      (partsOf [4, 3] [1, 0]) = [some [0, 1/2, 1, 3/2], some [1, 1/2, 2]] := by decide +kernel
example : List.Forall₂ (fun r r' => (faceOf r).Perm (faceOf r'))
    [[0, 1, 2, 3], [2, 1, 4, FILL]] [[2, 3, 0, 1], [4, 2, 1, FILL]] := by
  refine .cons ?_ (.cons ?_ .nil) <;> decide
/-- a sub-grid: face 1 of the parent, nodes renumbered 1↦0, 2↦1, 4↦2 -/
example : subTable [[0, 1, 2, 3], [2, 1, 4, FILL]] [1]
      (fun x => if x = 1 then 0 else if x = 2 then 1 else if x = 4 then 2 else x)
    = [[1, 0, 2, FILL]] := by decide

end UxVerif.C17
