/-
  C19 — A grid shares no mutable state with its inputs, copies or exports.

  Objects are roots in a heap of references (`Model/Heap.lean`).  The theorems are about EVERY heap,
  every pair of separated objects and EVERY history of mutator actions (unbounded lists, proved by
  induction over the history); the uxarray operations are heap operations that alias or allocate.

  * `construct_readonly`      building a grid only allocates: every cell any input can reach is
                              untouched (any number of variables, any aliasing of input buffers)
  * `copy_disjoint`           `Grid.copy()` (repaired) is separated from the original
  * `copy_independent`        separated ⇒ ANY mutation history on one side leaves every cell the
                              other side can reach untouched (+ interleaved form)
  * `grid_copy_independent`   the two combined, for histories of public mutators
  * `export_disjoint_*`, `export_independent`   likewise for exported datasets / geometry objects
  * `judge_sep`, `judge_shared`, `frameJ_ok`, `frameJ_changed`   the driver's verdicts on the object
                              graph extracted from the real Python objects are certified
  * `asis_*`                  what the code does today (aliasing), with proofs that it violates the
                              property: regression witnesses for the repairs `fixes/C19-*.patch` and
                              the model of the remaining known findings.
-/
import UxVerif.Lemmas.Heap

namespace UxVerif.C19
open UxVerif.Heap

/-! ## the driver's verdicts are certified -/

theorem shared_not_sep {h : Heap} {a b x : Nat} (ha : Reach h a x) (hb : Reach h b x) : ¬ Sep h a b :=
  fun sp => sp x ha hb

/-- `judge … = sep` is a proof that the two objects share no cell -/
theorem judge_sep {h : Heap} {a b : Nat} (e : judge h a b = .sep) : Sep h a b := by
  unfold judge at e
  simp only at e
  split at e
  · split at e
    · split at e <;> cases e
    · cases e
  · split at e
    · next hc =>
      simp only [Bool.and_eq_true] at hc
      obtain ⟨⟨⟨⟨ha, hb⟩, cA⟩, cB⟩, dj⟩ := hc
      intro x hxa hxb
      have mA := closedB_sound cA (by simpa using ha) hxa
      have mB := closedB_sound cB (by simpa using hb) hxb
      have := List.all_eq_true.mp dj x mA
      simp only [Bool.not_eq_eq_eq_not, Bool.not_true, List.contains_eq_mem,
        decide_eq_false_iff_not] at this
      exact this mB
    · cases e

/-- `judge … = shared x pa pb` exhibits a cell both objects reach -/
theorem judge_shared {h : Heap} {a b x : Nat} {pa pb : Path} (e : judge h a b = .shared x pa pb) :
    Reach h a x ∧ Reach h b x := by
  unfold judge at e
  simp only at e
  split at e
  · split at e
    · split at e
      · next hc =>
        injection e with e1 e2 e3
        subst e1 e2 e3
        exact ⟨follow_reach hc.1, follow_reach hc.2⟩
      · cases e
    · cases e
  · split at e <;> cases e

theorem judge_shared_not_sep {h : Heap} {a b x : Nat} {pa pb : Path}
    (e : judge h a b = .shared x pa pb) : ¬ Sep h a b :=
  shared_not_sep (judge_shared e).1 (judge_shared e).2

/-- `frameJ … = ok` is a proof that nothing the object `r` can reach was modified -/
theorem frameJ_ok {h h' : Heap} {r : Nat} (e : frameJ h h' r = .ok) : Frame h h' r := by
  unfold frameJ at e
  simp only at e
  split at e
  · split at e <;> cases e
  · split at e
    · next hc =>
      simp only [Bool.and_eq_true] at hc
      obtain ⟨⟨hr, cl⟩, al⟩ := hc
      intro x hx
      have m := closedB_sound cl (by simpa using hr) hx
      exact of_decide_eq_true (List.all_eq_true.mp al x m)
    · cases e

/-- `frameJ … = changed x p` exhibits a reachable cell that was modified -/
theorem frameJ_changed {h h' : Heap} {r x : Nat} {p : Path} (e : frameJ h h' r = .changed x p) :
    ¬ Frame h h' r := by
  unfold frameJ at e
  simp only at e
  split at e
  · split at e
    · next hc =>
      injection e with e1 e2
      subst e1 e2
      exact fun fr => hc.2 (fr _ (follow_reach hc.1))
    · cases e
  · split at e <;> cases e

theorem wfB_wf {h : Heap} (e : wfB h = true) : WF h := wfB_sound e

/-! ## constructors -/

/-- **construct_readonly**: building a grid (`from_topology`, `from_face_vertices`, `from_dataset`
    through a reader) does not modify anything an input can reach — arrays, attribute
    dictionaries, variables, the dataset — for any number of variables and whichever input
    buffers the grid wraps without copying. -/
theorem construct_readonly (h : Heap) (vs : List VarSpec) (attrs spec : List Int) (wf : WF h)
    {i : Nat} (hi : i < h.length) : Frame h (build h vs attrs spec).1 i :=
  lowSame_frame wf hi (ext_lowSame (allocGrid_spec 0 h vs attrs spec (Nat.zero_le _)).1)

/-- the built heap has no dangling reference and the new grid is a valid root -/
theorem construct_wf (h : Heap) (vs : List VarSpec) (attrs spec : List Int) (wf : WF h)
    (ok : ∀ v ∈ vs, ∀ b, v.alias = some b → b < h.length) :
    WF (build h vs attrs spec).1 ∧ (build h vs attrs spec).2 < (build h vs attrs spec).1.length :=
  ⟨ext_wf (allocGrid_spec 0 h vs attrs spec (Nat.zero_le _)).1 ok wf,
   (allocGrid_spec 0 h vs attrs spec (Nat.zero_le _)).2.2⟩

/-- a grid built without wrapping any input buffer is separated from every input -/
theorem construct_disjoint_of_no_alias (h : Heap) (vs : List VarSpec) (attrs spec : List Int)
    (wf : WF h) (na : ∀ v ∈ vs, v.alias = none) {i : Nat} (hi : i < h.length) :
    Sep (build h vs attrs spec).1 i (build h vs attrs spec).2 :=
  alloc_sep wf hi (ext_lowSame (allocGrid_spec h.length h vs attrs spec (Nat.le_refl _)).1)
    (ext_highClosed (allocGrid_spec h.length h vs attrs spec (Nat.le_refl _)).1 na)
    (allocGrid_spec h.length h vs attrs spec (Nat.le_refl _)).2.1

/-- **as the code stands** (`from_topology` / UGRID reader, int64 table with a non-standard fill
    value or start index): whenever standardising changes the table, the caller's array is modified. -/
theorem asis_construct_writes_input (h : Heap) (inp : Nat) (c : Cell) (processed : List Int)
    (vs : List VarSpec) (attrs spec : List Int) (hc : h[inp]? = some c) (hne : processed ≠ c.data) :
    ¬ Frame h (buildAsIs h inp processed vs attrs spec).1 inp := by
  intro fr
  have hl : inp < h.length := (List.getElem?_eq_some_iff.mp hc).1
  have e := fr inp Reach.refl
  have ls := ext_lowSame (allocGrid_spec 0 (h.modify inp (setData processed)) vs attrs spec
    (Nat.zero_le _)).1 inp (by simpa using hl)
  unfold buildAsIs at e
  rw [ls, List.getElem?_modify, hc] at e
  simp only [Option.map_eq_map, Option.map_some, ↓reduceIte, Option.some.injEq] at e
  have := congrArg Cell.data e
  simp only [setData] at this
  exact hne this

/-- `Grid(ds, …)` / `from_dataset(ds, source_grid_spec=…)` without a longitude wrap leaves the
    caller's dataset untouched at construction time … -/
theorem adopt_readonly_partial (h : Heap) (ds lv : Nat) (spec : List Int) (wf : WF h)
    (hds : ds < h.length) : Frame h (adopt h ds lv none spec).1 ds :=
  lowSame_frame wf hds (lowSame_append h _)

/-- … but (known finding) the caller's dataset IS the grid's dataset: every later derivation or
    setter on the grid is a modification of the input. -/
theorem asis_adopt_shares (h : Heap) (ds lv : Nat) (spec : List Int) :
    Reach (adopt h ds lv none spec).1 (adopt h ds lv none spec).2 ds := by
  refine Reach.step Reach.refl ?_
  unfold adopt succs
  simp only
  rw [List.getElem?_append_right (by omega)]
  simp

/-! ## shallow adoption: `Grid(ds, …)` / `from_dataset(ds, source_grid_spec=…)` once repaired

  The grid keeps its own Dataset, Variable and attribute-dictionary objects around the caller's
  ARRAYS (zero-copy).  Grid and input are therefore not separated — but whatever the library does to
  the grid except writing into an array in place stays above the caller's objects. -/

theorem gridOp_clean (op : GridOp) (hop : op.noArrayWrite) : ∀ a ∈ op.acts, CleanAct a := by
  have e1 : ∀ v : Nat, ¬ kVar v = 1 := fun v => by simp only [kVar]; omega
  intro a ha
  cases op with
  | cache c =>
    cases c with
    | fill k d => simp only [GridOp.acts, CacheOp.acts, List.mem_singleton] at ha; subst ha; simp [CleanAct, cleanPath]
    | drop k => simp only [GridOp.acts, CacheOp.acts, List.mem_singleton] at ha; subst ha; simp [CleanAct, cleanPath]
    | switch k d =>
      simp only [GridOp.acts, CacheOp.acts, List.mem_singleton] at ha; subst ha
      simp only [GridOp.noArrayWrite] at hop
      simpa [CleanAct, cleanPath] using hop
  | data m =>
    cases m with
    | writeVar v d => exact absurd hop (by simp [GridOp.noArrayWrite])
    | setVar v d at' =>
      simp only [GridOp.acts, Mut.actsGrid, Mut.actsDs, List.map_cons, List.map_nil, prefixAct,
        List.mem_cons, List.not_mem_nil, or_false] at ha
      rcases ha with rfl | rfl | rfl <;> simp [CleanAct, cleanPath, kDs, kData, e1]
    | rebind v d =>
      simp only [GridOp.acts, Mut.actsGrid, Mut.actsDs, List.map_cons, List.map_nil, prefixAct,
        List.mem_singleton] at ha
      subst ha; simp [CleanAct, cleanPath, kDs, kData, e1]
    | varAttr v d =>
      simp only [GridOp.acts, Mut.actsGrid, Mut.actsDs, List.map_cons, List.map_nil, prefixAct,
        List.mem_singleton] at ha
      subst ha; simp [CleanAct, cleanPath, kDs, kData, kAttrs, e1]
    | dsAttr d =>
      simp only [GridOp.acts, Mut.actsGrid, Mut.actsDs, List.map_cons, List.map_nil, prefixAct,
        List.mem_singleton] at ha
      subst ha; simp [CleanAct, cleanPath, kDs, kData, kAttrs]
    | delVar v =>
      simp only [GridOp.acts, Mut.actsGrid, Mut.actsDs, List.map_cons, List.map_nil, prefixAct,
        List.mem_singleton] at ha
      subst ha; simp [CleanAct, cleanPath, kDs, kData]
    | writeRoot d =>
      simp only [GridOp.acts, Mut.actsGrid, Mut.actsDs, List.map_cons, List.map_nil, prefixAct,
        List.mem_singleton] at ha
      subst ha; simp [CleanAct, cleanPath, kDs, kData]

/-- **adopt_shallow_independent**: after the (repaired) `Grid(ds)` — also when a longitude had to be
    re-wrapped — ANY history of grid operations other than in-place array writes (derivations,
    setters, `.data =` rebinding, attribute edits, deletions, cache fills / switches) leaves every
    cell that existed before the call, hence everything the caller's dataset reaches, as it was. -/
theorem adopt_shallow_independent (h : Heap) (ds lv : Nat) (wrapped : Option (List Int)) (spec : List Int)
    (wf : WF h) (hds : ds < h.length) (ops : List GridOp) (hops : ∀ op ∈ ops, op.noArrayWrite) :
    Frame h (runActs (adoptShallow h ds lv wrapped spec).1 (adoptShallow h ds lv wrapped spec).2
      (ops.flatMap GridOp.acts)) ds := by
  have e1 : kVar lv ≠ kData := by simp only [kVar, kData]; omega
  obtain ⟨ex, hg, _⟩ := allocGrid_spec h.length h (dsVarsShallow h ds) (dsAttrsData h ds) spec (Nat.le_refl _)
  have ls := ext_lowSame ex
  have hl := ext_length ex
  have Q0 := allocGrid_dataOnlyLow h (dsVarsShallow h ds) (dsAttrsData h ds) spec
  generalize hr : allocGrid h (dsVarsShallow h ds) (dsAttrsData h ds) spec = r at ls hl Q0 hg
  let pre : List Act := match wrapped with
    | some d => [.fresh [kDs, kVar lv] kData d []]
    | none => []
  have hpre : ∀ a ∈ pre, CleanAct a := by
    intro a ha
    cases wrapped with
    | none => simp [pre] at ha
    | some d =>
      simp only [pre, List.mem_singleton] at ha
      subst ha
      have e2 : ¬ kVar lv = 1 := e1
      simp [CleanAct, cleanPath, kDs, kData, e2]
  have hshape : adoptShallow h ds lv wrapped spec = (runActs r.1 r.2 pre, r.2) := by
    unfold adoptShallow
    rw [hr]
    cases wrapped <;> simp [pre, runActs]
  rw [hshape]
  have hrun : runActs (runActs r.1 r.2 pre) r.2 (ops.flatMap GridOp.acts) =
      runActs r.1 r.2 (pre ++ ops.flatMap GridOp.acts) := by
    simp [runActs, List.foldl_append]
  simp only [hrun]
  have hall : ∀ a ∈ pre ++ ops.flatMap GridOp.acts, CleanAct a := by
    intro a ha
    rcases List.mem_append.mp ha with ha | ha
    · exact hpre a ha
    · obtain ⟨op, hop, hm⟩ := List.mem_flatMap.mp ha
      exact gridOp_clean op (hops op hop) a hm
  obtain ⟨ht, _⟩ := runActs_clean hg (pre ++ ops.flatMap GridOp.acts) Q0 hall
  intro x hx
  have hxl : x < h.length := reach_lt wf hds hx
  rw [runActs_lowSame _ hl ht x hxl]
  exact ls x hxl

/-- construction itself (no later operations): `Grid(ds)` leaves the caller's dataset as it was -/
theorem adopt_shallow_readonly (h : Heap) (ds lv : Nat) (wrapped : Option (List Int)) (spec : List Int)
    (wf : WF h) (hds : ds < h.length) : Frame h (adoptShallow h ds lv wrapped spec).1 ds := by
  simpa [runActs] using adopt_shallow_independent h ds lv wrapped spec wf hds [] (by simp)

/-! ## separated objects are independent under every history -/

/-- **copy_independent**: if two objects share no cell, then ANY history of mutator actions on one
    of them leaves every cell the other one can reach — payloads, dictionary keys, references —
    exactly as it was; and vice versa. -/
theorem copy_independent {h : Heap} {r s : Nat} (inv : Inv h r s) (acts : List Act) :
    Frame h (runActs h s acts) r ∧ Frame h (runActs h r acts) s :=
  ⟨(runActs_preserves acts (inv_symm inv)).1, (runActs_preserves acts inv).1⟩

/-- … and the set of cells the untouched object reaches does not change either -/
theorem copy_independent_reach {h : Heap} {r s : Nat} (inv : Inv h r s) (acts : List Act) (x : Nat) :
    Reach (runActs h s acts) r x ↔ Reach h r x :=
  frame_reach (copy_independent inv acts).1

/-- interleaved form: after ANY interleaved history on both objects, the next action of either
    object still leaves the other one untouched (and they stay separated). -/
theorem copy_independent_interleaved {h : Heap} {r s : Nat} (inv : Inv h r s)
    (pre : List (Bool × Act)) (act : Act) :
    let h1 := runBoth h r s pre
    Frame h1 (applyAct h1 s act) r ∧ Frame h1 (applyAct h1 r act) s ∧ Sep h1 r s := by
  have i1 := runBoth_inv pre inv
  exact ⟨(act_preserves (inv_symm i1) act).1, (act_preserves i1 act).1, i1.2.2.2⟩

/-! ## `Grid.copy()` -/

/-- **copy_disjoint**: the (repaired) copy shares no cell with the original, the original is
    untouched by copying, and the result is a well-formed heap with two valid roots. -/
theorem copy_disjoint {h : Heap} {g ds dm : Nat} {c : Cell} (wf : WF h) (hc : h[g]? = some c)
    (hds : field h g kDs = some ds) (hdm : field h g kDims = some dm) :
    Inv (copyGrid h g).1 g (copyGrid h g).2 ∧ Frame h (copyGrid h g).1 g := by
  have hg : g < h.length := (List.getElem?_eq_some_iff.mp hc).1
  have hdsl : ds < h.length := wf g ds (field_succs hds)
  have hdml : dm < h.length := wf g dm (field_succs hdm)
  simp only [copyGrid, hc, hds, hdm]
  have ls : LowSame h (dup h ++ [⟨c.data, [(kDs, ds + h.length), (kDims, dm + h.length)]⟩]) :=
    lowSame_trans dup_low (lowSame_append _ _) (by rw [length_dup]; omega)
  have hcl : HighClosed h.length (dup h ++ [⟨c.data, [(kDs, ds + h.length), (kDims, dm + h.length)]⟩]) := by
    refine highClosed_append dup_highClosed ?_
    intro e he y hy
    simp only [List.mem_singleton] at he
    subst he
    simp only [List.map_cons, List.map_nil, List.mem_cons, List.not_mem_nil, or_false] at hy
    rcases hy with rfl | rfl <;> omega
  have wf' : WF (dup h ++ [⟨c.data, [(kDs, ds + h.length), (kDims, dm + h.length)]⟩]) := by
    refine wf_append (dup_wf wf) ?_
    intro e he y hy
    simp only [List.mem_singleton] at he
    subst he
    rw [length_dup]
    simp only [List.map_cons, List.map_nil, List.mem_cons, List.not_mem_nil, or_false] at hy
    simp only [List.length_cons, List.length_nil]
    rcases hy with rfl | rfl <;> omega
  refine ⟨⟨wf', ?_, ?_, alloc_sep wf hg ls hcl (by omega)⟩, lowSame_frame wf hg ls⟩
  · simp only [List.length_append, length_dup, List.length_cons, List.length_nil]; omega
  · simp only [List.length_append, length_dup, List.length_cons, List.length_nil]; omega

/-- the copy reports what the original reports: its dataset is the relocated image of the
    original's dataset, cell by cell -/
theorem copy_equal {h : Heap} {g ds dm : Nat} {c : Cell} (wf : WF h) (hc : h[g]? = some c)
    (hds : field h g kDs = some ds) (hdm : field h g kDims = some dm) :
    field (copyGrid h g).1 (copyGrid h g).2 kDs = some (ds + h.length) ∧
    ∀ x, Reach h ds x →
      Reach (copyGrid h g).1 (ds + h.length) (x + h.length) ∧
      (copyGrid h g).1[x + h.length]? = (h[x]?).map (shiftCell h.length) := by
  have hdsl : ds < h.length := wf g ds (field_succs hds)
  simp only [copyGrid, hc, hds, hdm]
  constructor
  · unfold field
    rw [List.getElem?_append_right (by rw [length_dup]; omega)]
    simp [length_dup, look, kDs]
  · intro x hx
    have hxl : x < h.length := reach_lt wf hdsl hx
    have ls : LowSame (dup h) (dup h ++ [⟨c.data, [(kDs, ds + h.length), (kDims, dm + h.length)]⟩]) :=
      lowSame_append _ _
    have fr := lowSame_frame (r := ds + h.length) (dup_wf wf) (by rw [length_dup]; omega) ls
    refine ⟨(frame_reach fr).mpr (dup_iso hx), ?_⟩
    rw [ls (x + h.length) (by rw [length_dup]; omega), dup_high]

/-- **grid_copy_independent**: after `c = g.copy()`, ANY history of public mutators (lazy
    derivations, setters, in-place writes, `.data =` rebinding, attribute edits, deletions) applied
    to the copy leaves everything the original reaches untouched, and vice versa. -/
theorem grid_copy_independent {h : Heap} {g ds dm : Nat} {c : Cell} (wf : WF h) (hc : h[g]? = some c)
    (hds : field h g kDs = some ds) (hdm : field h g kDims = some dm) (ms : List Mut) :
    Frame (copyGrid h g).1 (runActs (copyGrid h g).1 (copyGrid h g).2 (ms.flatMap Mut.actsGrid)) g ∧
    Frame (copyGrid h g).1 (runActs (copyGrid h g).1 g (ms.flatMap Mut.actsGrid)) (copyGrid h g).2 :=
  copy_independent (copy_disjoint wf hc hds hdm).1 _

/-- **as the code stands**: `Grid.copy()` hands the SAME dataset (and dims dictionary) to the new
    grid — both grids reach it, so they are not separated. -/
theorem asis_copy_shares {h : Heap} {g ds dm : Nat} {c : Cell} (hc : h[g]? = some c)
    (hds : field h g kDs = some ds) (hdm : field h g kDims = some dm) :
    Reach (copyGridAsIs h g).1 g ds ∧ Reach (copyGridAsIs h g).1 (copyGridAsIs h g).2 ds ∧
    ¬ Sep (copyGridAsIs h g).1 g (copyGridAsIs h g).2 := by
  have hg : g < h.length := (List.getElem?_eq_some_iff.mp hc).1
  simp only [copyGridAsIs, hc, hds, hdm]
  have r1 : Reach (h ++ [⟨c.data, [(kDs, ds), (kDims, dm)]⟩]) g ds := by
    refine Reach.step Reach.refl ?_
    rw [succs_congr (List.getElem?_append_left hg)]
    exact field_succs hds
  have r2 : Reach (h ++ [⟨c.data, [(kDs, ds), (kDims, dm)]⟩]) h.length ds := by
    refine Reach.step Reach.refl ?_
    unfold succs
    rw [List.getElem?_append_right (Nat.le_refl _)]
    simp
  exact ⟨r1, r2, shared_not_sep r1 r2⟩

/-! ## caches (`_ball_tree`, `_kd_tree`, cached GeoDataFrame / collections, …)

  `copy_disjoint` is about EVERY original grid cell — whatever helper objects its cache fields refer
  to, including objects that refer back to the grid — so the copy never reaches a cache of the
  original.  The theorems below make the cache part explicit. -/

/-- the (repaired) copy starts with EMPTY caches: its cell has the dataset and the dims dictionary
    and nothing else -/
theorem copy_caches_empty {h : Heap} {g ds dm : Nat} {c : Cell} (hc : h[g]? = some c)
    (hds : field h g kDs = some ds) (hdm : field h g kDims = some dm) (k : Nat)
    (h1 : k ≠ kDs) (h2 : k ≠ kDims) : field (copyGrid h g).1 (copyGrid h g).2 k = none := by
  simp only [copyGrid, hc, hds, hdm]
  unfold field
  rw [List.getElem?_append_right (by rw [length_dup]; omega)]
  simp [length_dup, look, Ne.symm h1, Ne.symm h2]

/-- no cache of the original (nor anything else of it) is reachable from the copy, and vice versa -/
theorem copy_reaches_no_cache {h : Heap} {g ds dm : Nat} {c : Cell} (wf : WF h) (hc : h[g]? = some c)
    (hds : field h g kDs = some ds) (hdm : field h g kDims = some dm) {k t : Nat}
    (_hk : field h g k = some t) {x : Nat} (hx : Reach (copyGrid h g).1 g x) :
    ¬ Reach (copyGrid h g).1 (copyGrid h g).2 x :=
  fun hy => (copy_disjoint wf hc hds hdm).1.2.2.2 x hx hy

/-- **grid_copy_independent_caches**: after `c = g.copy()`, ANY history of dataset mutators AND
    cache operations (filling a tree / GeoDataFrame cache with an object that refers back to its
    grid, switching a tree in place, dropping a cache) on one side leaves everything the other side
    reaches — including its caches — untouched. -/
theorem grid_copy_independent_caches {h : Heap} {g ds dm : Nat} {c : Cell} (wf : WF h)
    (hc : h[g]? = some c) (hds : field h g kDs = some ds) (hdm : field h g kDims = some dm)
    (ops : List GridOp) :
    Frame (copyGrid h g).1 (runActs (copyGrid h g).1 (copyGrid h g).2 (ops.flatMap GridOp.acts)) g ∧
    Frame (copyGrid h g).1 (runActs (copyGrid h g).1 g (ops.flatMap GridOp.acts)) (copyGrid h g).2 :=
  copy_independent (copy_disjoint wf hc hds hdm).1 _

/-- **regression witness** (`grid._ball_tree = self._ball_tree` in `copy()`): a handed-over cache is
    reached by both grids, and when the helper object refers back to its grid (as `BallTree` does)
    the copy reaches the ORIGINAL GRID itself. -/
theorem handover_copy_shares {h : Heap} {g ds dm k t : Nat} {c : Cell} {keys : List Nat}
    (hc : h[g]? = some c) (hds : field h g kDs = some ds) (hdm : field h g kDims = some dm)
    (hk : field h g k = some t) (hin : k ∈ keys) (h1 : k ≠ kDs) (h2 : k ≠ kDims) :
    Reach (copyGridHandOver h g keys).1 g t ∧
    Reach (copyGridHandOver h g keys).1 (copyGridHandOver h g keys).2 t ∧
    ¬ Sep (copyGridHandOver h g keys).1 g (copyGridHandOver h g keys).2 ∧
    (field h t kSrc = some g →
      Reach (copyGridHandOver h g keys).1 (copyGridHandOver h g keys).2 g) := by
  have hg : g < h.length := (List.getElem?_eq_some_iff.mp hc).1
  have hkt : (k, t) ∈ c.refs := by
    unfold field at hk; rw [hc] at hk; exact look_mem hk
  simp only [copyGridHandOver, hc, hds, hdm]
  generalize hcell : (⟨c.data, [(kDs, ds + h.length), (kDims, dm + h.length)] ++
    c.refs.filter (fun p => keys.contains p.1 && p.1 != kDs && p.1 != kDims)⟩ : Cell) = cell
  have low : ∀ a, a < h.length → (dup h ++ [cell])[a]? = h[a]? := fun a ha =>
    lowSame_trans dup_low (lowSame_append _ _) (by rw [length_dup]; omega) a ha
  have r1 : Reach (dup h ++ [cell]) g t := by
    refine Reach.step Reach.refl ?_
    rw [succs_congr (low g hg)]
    exact field_succs hk
  have r2 : Reach (dup h ++ [cell]) (2 * h.length) t := by
    refine Reach.step Reach.refl ?_
    unfold succs
    rw [List.getElem?_append_right (by rw [length_dup]; omega)]
    simp only [length_dup, Nat.sub_self, List.getElem?_cons_zero]
    subst hcell
    refine List.mem_map.mpr ⟨(k, t), ?_, rfl⟩
    refine List.mem_append_right _ (List.mem_filter.mpr ⟨hkt, ?_⟩)
    simp [hin, h1, h2]
  refine ⟨r1, r2, shared_not_sep r1 r2, ?_⟩
  intro hsrc
  have ht : t < h.length := by
    unfold field at hsrc
    cases hq : h[t]? with
    | none => simp [hq] at hsrc
    | some q => exact (List.getElem?_eq_some_iff.mp hq).1
  refine Reach.step r2 ?_
  rw [succs_congr (low t ht)]
  exact field_succs hsrc

/-! ## exports -/

/-- **export_disjoint (`to_xarray("ugrid")`, `encode_as("UGRID")`, repaired)**: the returned dataset
    shares no cell with the grid and the grid is untouched by exporting. -/
theorem export_disjoint_ugrid {h : Heap} {g ds : Nat} (topo : Nat) (wf : WF h) (hg : g < h.length)
    (hds : field h g kDs = some ds) :
    Inv (exportUgrid h g topo).1 g (exportUgrid h g topo).2 ∧ Frame h (exportUgrid h g topo).1 g := by
  have hdsl : ds < h.length := wf g ds (field_succs hds)
  simp only [exportUgrid, hds]
  have i0 : Inv (dup h) (ds + h.length) g :=
    ⟨dup_wf wf, by rw [length_dup]; omega, by rw [length_dup]; omega,
     sep_symm (alloc_sep wf hg dup_low dup_highClosed (by omega))⟩
  obtain ⟨f1, i1⟩ := act_preserves i0 (.fresh [] (kVar topo) [-1] [])
  exact ⟨inv_symm i1, frame_trans (lowSame_frame wf hg dup_low) f1⟩

/-- **export_disjoint (value exporters)**: `to_xarray("exodus"|"scrip")`, `to_polycollection`
    (deep copy of its cache), `to_geodataframe(cache=False)` return a freshly built object. -/
theorem export_disjoint_fresh (h : Heap) (vs : List VarSpec) (attrs : List Int) (wf : WF h)
    {g : Nat} (hg : g < h.length) :
    Inv (exportFresh h vs attrs).1 g (exportFresh h vs attrs).2 ∧ Frame h (exportFresh h vs attrs).1 g := by
  unfold exportFresh
  have na : ∀ v ∈ vs.map (fun v => { v with alias := none }), v.alias = none := by
    intro v hv
    obtain ⟨w, _, rfl⟩ := List.mem_map.mp hv
    rfl
  obtain ⟨e, r1, r2⟩ := allocDs_spec h.length h (vs.map fun v => { v with alias := none }) attrs
    (Nat.le_refl _)
  have ls := ext_lowSame e
  have wf' := ext_wf e (by intro v hv b hb; rw [na v hv] at hb; cases hb) wf
  exact ⟨⟨wf', Nat.lt_of_lt_of_le hg (ext_length e), r2,
    alloc_sep wf hg ls (ext_highClosed e na) r1⟩, lowSame_frame wf hg ls⟩

/-- **export_independent**: the caller may apply ANY history of edits to a separated export
    (in-place writes, new variables, attribute edits, deletions): everything the grid reaches
    stays as it was — and whatever the grid does later leaves the export untouched. -/
theorem export_independent {h : Heap} {g e : Nat} (inv : Inv h g e) (edits : List Mut) (ms : List Mut) :
    Frame h (runActs h e (edits.flatMap Mut.actsDs)) g ∧
    Frame h (runActs h g (ms.flatMap Mut.actsGrid)) e :=
  ⟨(copy_independent inv _).1, (copy_independent inv _).2⟩

/-- **as the code stands**: the first `to_xarray("ugrid")` returns `Grid._ds` itself -/
theorem asis_export_ugrid_returns_internal {h : Heap} {g ds : Nat} (topo : Nat)
    (hds : field h g kDs = some ds) :
    (exportUgridAsIs h g topo).2 = ds ∧ Reach h g (exportUgridAsIs h g topo).2 := by
  simp only [exportUgridAsIs, hds, true_and]
  exact Reach.step Reach.refl (field_succs hds)

/-- **as the code stands (known finding)**: `to_geodataframe` / `to_linecollection` hand out the
    object kept in the grid's cache — the grid reaches what the caller holds, always. -/
theorem asis_export_cached_shares {h : Heap} {g k : Nat} {c : Cell} (content : List Int)
    (hc : h[g]? = some c) :
    Reach (exportCached h g k content).1 g (exportCached h g k content).2 := by
  have hg : g < h.length := (List.getElem?_eq_some_iff.mp hc).1
  unfold exportCached
  cases hf : field h g k with
  | some e => exact Reach.step Reach.refl (field_succs hf)
  | none =>
    simp only [hc, applyAct, follow]
    refine Reach.step Reach.refl ?_
    unfold succs
    rw [getElem?_upd_at hg]
    simp [setRef]


/-! ## non-vacuity and as-is counterexamples on a concrete grid

  `demo`: the caller holds three arrays (lon, lat, connectivity); `from_topology` wraps lon/lat
  without copying and stores a processed copy of the connectivity. -/

def demoInputs : Heap := [⟨[200, 10], []⟩, ⟨[5, 6], []⟩, ⟨[1, 2, 3, -1], []⟩]
def demoVars : List VarSpec :=
  [⟨0, [], [7], some 0⟩, ⟨1, [], [8], some 1⟩, ⟨2, [0, 1, 2, -9223372036854775808], [9], none⟩]
def demo : Heap × Nat := build demoInputs demoVars [42] [1]

example : wfB demoInputs = true := by decide
example : wfB demo.1 = true ∧ demo.2 < demo.1.length := by decide
/-- construct_readonly is not vacuous: the inputs exist, are reachable from the grid (zero-copy)
    and are untouched -/
example : frameJ demoInputs demo.1 0 = .ok ∧ frameJ demoInputs demo.1 2 = .ok ∧
    (judge demo.1 0 demo.2 = .shared 0 [] [kDs, kVar 0, kData]) := by decide
/-- as the code stands the connectivity array of the caller is rewritten -/
example : frameJ demoInputs (buildAsIs demoInputs 2 [0, 1, 2, -9223372036854775808] demoVars [42] [1]).1 2
    = .changed 2 [] := by decide

/-- the hypotheses of `copy_disjoint` are met by `demo` -/
example : (demo.1[demo.2]?).isSome ∧ (field demo.1 demo.2 kDs).isSome ∧
    (field demo.1 demo.2 kDims).isSome := by decide
/-- repaired copy: separated (verdict of the verified checker) -/
example : judge (copyGrid demo.1 demo.2).1 demo.2 (copyGrid demo.1 demo.2).2 = .sep := by
  decide +kernel
/-- the copy's dataset holds the same longitude payload as the original's -/
example : (follow (copyGrid demo.1 demo.2).1 (copyGrid demo.1 demo.2).2 [kDs, kVar 0, kData]).bind
      (fun a => ((copyGrid demo.1 demo.2).1[a]?).map Cell.data) = some [200, 10] := by decide +kernel

/-- a history on the copy: derive a variable, write a buffer in place, rebind data, edit attrs, delete -/
def demoHistory : List Mut :=
  [.setVar 5 [1, 1] [3], .writeVar 0 [0, 0], .rebind 1 [9, 9], .varAttr 2 [4], .dsAttr [5], .delVar 1]

/-- … changes the copy (so the history is not a no-op) and leaves the original untouched -/
example :
    let hc := copyGrid demo.1 demo.2
    let h2 := runActs hc.1 hc.2 (demoHistory.flatMap Mut.actsGrid)
    frameJ hc.1 h2 demo.2 = .ok ∧ frameJ hc.1 h2 hc.2 ≠ .ok ∧ judge h2 demo.2 hc.2 = .sep := by
  decide +kernel

/-- **as the code stands** `Grid.copy()` is not independent: deriving a variable on the copy
    (or writing a value in place) changes what the original reaches. -/
theorem asis_copy_not_independent :
    let hc := copyGridAsIs demo.1 demo.2
    ¬ Frame hc.1 (runActs hc.1 hc.2 ((Mut.setVar 5 [1, 1] [3]).actsGrid)) demo.2 ∧
    ¬ Frame hc.1 (runActs hc.1 hc.2 ((Mut.writeVar 0 [0, 0]).actsGrid)) demo.2 := by
  refine ⟨frameJ_changed (x := 11) (p := [kDs]) (by decide +kernel),
          frameJ_changed (x := 0) (p := [kDs, kVar 0, kData]) (by decide +kernel)⟩

/-- a grid whose nearest-neighbour trees were built before it is copied -/
def demoTrees : Heap × Nat :=
  (runActs demo.1 demo.2 ((CacheOp.fill kBall [1]).acts ++ (CacheOp.fill kKd [2]).acts), demo.2)

/-- the trees exist, refer back to the grid, and the hypotheses of `handover_copy_shares` are met -/
example : (field demoTrees.1 demoTrees.2 kBall).isSome ∧
    (follow demoTrees.1 demoTrees.2 [kBall, kSrc] = some demoTrees.2) ∧ wfB demoTrees.1 = true := by
  decide +kernel
/-- repaired copy of a grid with caches: separated, caches of the copy empty; switching the
    original's tree and replacing its face centres leaves the copy untouched -/
example :
    let hc := copyGrid demoTrees.1 demoTrees.2
    let ops : List GridOp := [.cache (.switch kBall [9]), .data (.setVar 7 [5, 5] [3]), .cache (.fill kGdf [4])]
    let h2 := runActs hc.1 demoTrees.2 (ops.flatMap GridOp.acts)
    judge hc.1 demoTrees.2 hc.2 = .sep ∧ field hc.1 hc.2 kBall = none ∧
    frameJ hc.1 h2 hc.2 = .ok ∧ frameJ hc.1 h2 demoTrees.2 ≠ .ok := by
  decide +kernel
/-- handing the trees over: shared, and switching the original's tree is seen through the copy -/
theorem handover_copy_not_independent :
    let hc := copyGridHandOver demoTrees.1 demoTrees.2 [kBall, kKd]
    judge hc.1 demoTrees.2 hc.2 ≠ .sep ∧
    ¬ Frame hc.1 (runActs hc.1 demoTrees.2 ((CacheOp.switch kBall [9]).acts)) hc.2 := by
  refine ⟨by decide +kernel, frameJ_changed (x := 14) (p := [kBall]) (by decide +kernel)⟩

/-- repaired export: separated, and caller edits do not reach the grid -/
example :
    let he := exportUgrid demo.1 demo.2 9
    let h2 := runActs he.1 he.2 (demoHistory.flatMap Mut.actsDs)
    judge he.1 demo.2 he.2 = .sep ∧ frameJ he.1 h2 demo.2 = .ok ∧ frameJ he.1 h2 he.2 ≠ .ok := by
  decide +kernel

/-- **as the code stands** the exported dataset is the grid's dataset: exporting already adds
    `grid_topology` to the grid, and a caller edit of the export is an edit of the grid. -/
theorem asis_export_not_independent :
    let he := exportUgridAsIs demo.1 demo.2 9
    he.2 = 11 ∧ ¬ Frame demo.1 he.1 demo.2 ∧
    ¬ Frame he.1 (runActs he.1 he.2 ((Mut.writeVar 0 [0, 0]).actsDs)) demo.2 := by
  refine ⟨by decide +kernel, frameJ_changed (x := 11) (p := [kDs]) (by decide +kernel),
          frameJ_changed (x := 0) (p := [kDs, kVar 0, kData]) (by decide +kernel)⟩

/-- **known finding** cached exporters: an edit of the returned object is seen through the grid -/
theorem asis_cached_export_not_independent :
    let he := exportCached demo.1 demo.2 kGdf [77]
    ¬ Frame he.1 (runActs he.1 he.2 ((Mut.writeRoot [78]).actsDs)) demo.2 ∧
    (exportCached he.1 demo.2 kGdf [77]).2 = he.2 := by
  refine ⟨frameJ_changed (x := 14) (p := [kGdf]) (by decide +kernel), by decide +kernel⟩

/-- **known finding** adopted dataset with a longitude above 180: construction rebinds the
    `node_lon` data of the caller's dataset, and a later derivation on the grid adds a variable to it. -/
def demoDs : Heap × Nat := allocDs [] [⟨0, [200, 10], [7], none⟩, ⟨2, [0, 1, 2], [9], none⟩] [42]

theorem asis_adopt_writes_input :
    let ha := adopt demoDs.1 demoDs.2 0 (some [-160, 10]) [1]
    ¬ Frame demoDs.1 ha.1 demoDs.2 ∧
    ¬ Frame ha.1 (runActs ha.1 ha.2 ((Mut.setVar 5 [1, 1] [3]).actsGrid)) demoDs.2 := by
  refine ⟨frameJ_changed (x := 2) (p := [kVar 0]) (by decide +kernel),
          frameJ_changed (x := 7) (p := []) (by decide +kernel)⟩

/-- repaired adoption of `demoDs` with a longitude to re-wrap: the caller's dataset is untouched by
    construction and by a history of library operations, the grid really changed, and the one
    excluded operation (an in-place write through the shared array) does reach the caller — zero-copy -/
example :
    let ha := adoptShallow demoDs.1 demoDs.2 0 (some [-160, 10]) [1]
    let ops : List GridOp := [.data (.setVar 5 [1, 1] [3]), .data (.rebind 2 [4]), .data (.varAttr 0 [6]),
      .data (.dsAttr [5]), .cache (.fill kBall [1]), .cache (.switch kBall [2]), .data (.delVar 2)]
    let h2 := runActs ha.1 ha.2 (ops.flatMap GridOp.acts)
    frameJ demoDs.1 ha.1 demoDs.2 = .ok ∧ frameJ demoDs.1 h2 demoDs.2 = .ok ∧ frameJ ha.1 h2 ha.2 ≠ .ok ∧
    frameJ ha.1 (runActs ha.1 ha.2 (Mut.writeVar 2 [7, 7, 7]).actsGrid) demoDs.2 ≠ .ok := by
  decide +kernel

end UxVerif.C19
