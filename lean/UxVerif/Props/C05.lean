/-
  C05 — Face areas are the spherical-polygon areas, invariantly.

  PART G (re-proved on every run against `Gen/QuadTables.lean`, which `harness/translate_quad.py`
  regenerates by CALLING the code's `get_tri_quadratureDG` / `get_gauss_quadratureDG`):
    every table the code returns today has weights summing to 1, positive weights, and integrates
    every monomial up to its degree (in the barycentric coordinates the code evaluates) to 1e-12 —
    so a changed digit (≥ 1e-12) in any order, tested or not, stops a theorem from checking.
    `decide +kernel` on integers, restated in ℚ (`tri_exact_rat`, `gauss_exact_rat`).
    Symmetry, the stored third column, sharpness of the degrees are REPORTED by the driver
    (`C05.tablecheck`), not demanded: a better or differently laid out table is not a violation.

  PART T (for ALL corner lists / tables / node numberings / orthogonal maps / call histories)
    about the model `Model/Area.lean` (transcription of `grid/area.py`, generic over the field):
    `area_nonneg`, `area_face_local`, `area_renumber`, `area_face_order`, `area_rotation`,
    `area_latlon_eq_xyz`, `area_split` (exact additivity), `fan_shift`, `fan_shift_approx`,
    `cache_history`, `cache_eq_fresh`; and the as-is defect `asis_cartesian_area_zero`,
    `asis_violates_input_independence` (repaired by `fixes/C05-cartesian-dim.patch`).

  PART J (what the quadrature integrates): `jacCore_eq_triple` (the Jacobian both routines evaluate
    is `|F·(A×B)|/|F|³`), `jacBary_closed` / `jacGauss_closed` (= the solid-angle density
    `|n₁·(n₂×n₃)|/|F|³` of the flat triangle, halved resp. times the collapse factor `|1−b|`),
    `baryF_partial_*` / `gaussF_partial_*` (the code's `dDaF`, `dDbF` are exactly the partial derivatives of
    its parametrisation), `normalize_hasDerivAt` (the projected tangent is the derivative of `F/|F|`),
    `bary_area_element` / `gauss_area_element` (the integrand IS `|∂ₐP × ∂_bP|` of `P = F/|F|`).
    So the table theorems (polynomial exactness) are about quadrature of the true area element.

  NOT proved (tested by the harness against the exact spherical excess): the accuracy thresholds
  1e-6 / 1e-4 / 1e-2, convergence with the order, Σ = 4π, IEEE rounding.
-/
import Mathlib.Analysis.Real.Sqrt
import Mathlib.Analysis.SpecialFunctions.Sqrt
import Mathlib.Analysis.Calculus.Deriv.Mul
import Mathlib.Analysis.Calculus.Deriv.Inv
import Mathlib.Analysis.Calculus.Deriv.Add
import Mathlib.Tactic.FieldSimp
import Mathlib.Tactic.Positivity
import UxVerif.Lemmas.Area
import UxVerif.Gen.Defaults

namespace UxVerif.C05
open UxVerif UxVerif.Area UxVerif.Gen.Quad

/-! ## G. The quadrature tables as the code returns them today -/

/-- tolerance of every table statement: `1e-12` -/
def TOL : Nat := 10 ^ 12

/-- the property's quantifier: every order it names ("triangular 1,4,8,10,12; gaussian 1..10") is
    an order for which the code returns a table today -/
theorem supported_orders :
    (∀ o ∈ [1, 4, 8, 10, 12], o ∈ TRI_ORDERS) ∧
    (∀ n ∈ [1, 2, 3, 4, 5, 6, 7, 8, 9, 10], n ∈ GAUSS_ORDERS) := by
  decide

/-! ### accept / reject is part of the model -/

/-- a table exists exactly for the listed orders (both directions, for EVERY natural number) -/
theorem tri_keys (o : Nat) : o ∈ TRI_ORDERS ↔ tri o ≠ [] := by
  constructor
  · intro h
    have hall : (TRI_ORDERS.all fun o => !(tri o).isEmpty) = true := by decide +kernel
    have := List.all_eq_true.mp hall o h
    intro he; rw [he] at this; simp at this
  · intro h
    unfold Gen.Quad.tri at h
    split at h <;> first | decide | exact absurd rfl h

theorem gauss_keys (n : Nat) : n ∈ GAUSS_ORDERS ↔ gauss n ≠ [] := by
  constructor
  · intro h
    have hall : (GAUSS_ORDERS.all fun n => !(gauss n).isEmpty) = true := by decide +kernel
    have := List.all_eq_true.mp hall n h
    intro he; rw [he] at this; simp at this
  · intro h
    unfold Gen.Quad.gauss at h
    split at h <;> first | decide | exact absurd rfl h

/-- **the model accepts `(rule, order)` iff the code has a quadrature table for it** -/
theorem supported_iff_table (rule order : Nat) :
    supported rule order = true ↔
      (rule = 1 ∧ tri order ≠ []) ∨ (rule = 0 ∧ gauss order ≠ []) := by
  unfold supported
  simp only [Bool.or_eq_true, Bool.and_eq_true, beq_iff_eq, List.contains_iff_mem, tri_keys, gauss_keys]

/-- **every rule/order the property quantifies over is accepted**; orders next to them are not -/
theorem supported_quantifier :
    (∀ o ∈ [1, 4, 8, 10, 12], supported 1 o = true) ∧
    (∀ n ∈ [1, 2, 3, 4, 5, 6, 7, 8, 9, 10], supported 0 n = true) := by
  decide

-- non-vacuity: the decision discriminates (no table for these), and no other rule number is accepted
example : supported 0 0 = false ∧ supported 0 17 = false ∧ supported 1 0 = false ∧ supported 2 4 = false := by
  decide

/-! lifting the `Bool` loops to quantified statements -/

theorem triExact_of_B {D : Nat} {t : List TriRow} {deg T : Nat} (h : triExactB D t deg T = true) :
    ∀ a b c, a + b + c ≤ deg → triMomentOK D t T a b c = true := by
  intro a b c habc
  unfold triExactB at h
  simp only [List.all_eq_true, List.mem_range] at h
  exact h a (by omega) b (by omega) c (by omega)

theorem gaussExact_of_B {D : Nat} {t : List GaussRow} {deg T : Nat}
    (h : gaussExactB D t deg T = true) : ∀ d, d ≤ deg → gaussMomentOK D t T d = true := by
  intro d hd
  unfold gaussExactB at h
  simp only [List.all_eq_true, List.mem_range] at h
  exact h d (by omega)

/-! ### triangular rules, one theorem per order (so that a broken table names its order) -/

theorem tri_exact_1 : ∀ a b c, a + b + c ≤ 1 → triMomentOK DEN (tri 1) TOL a b c = true :=
  triExact_of_B (by decide +kernel)
theorem tri_exact_4 : ∀ a b c, a + b + c ≤ 4 → triMomentOK DEN (tri 4) TOL a b c = true :=
  triExact_of_B (by decide +kernel)
theorem tri_exact_8 : ∀ a b c, a + b + c ≤ 8 → triMomentOK DEN (tri 8) TOL a b c = true :=
  triExact_of_B (by decide +kernel)
theorem tri_exact_10 : ∀ a b c, a + b + c ≤ 10 → triMomentOK DEN (tri 10) TOL a b c = true :=
  triExact_of_B (by decide +kernel)
theorem tri_exact_12 : ∀ a b c, a + b + c ≤ 12 → triMomentOK DEN (tri 12) TOL a b c = true :=
  triExact_of_B (by decide +kernel)

/-- **moment exactness of every supported triangular rule**: for every order `o` the code supports
    and every monomial `λ₀ᵃλ₁ᵇλ₂ᶜ` of total degree `≤ o`,
    `|Σ_p w_p G₀ᵃG₁ᵇG₂ᶜ − 2·a!b!c!/(a+b+c+2)!| ≤ 1e-12`. -/
theorem tri_exact : ∀ o ∈ TRI_ORDERS, ∀ a b c, a + b + c ≤ triDeg o →
    triMomentOK DEN (tri o) TOL a b c = true := by
  have h : (TRI_ORDERS.all fun o => triExactB DEN (tri o) (triDeg o) TOL) = true := by
    decide +kernel
  intro o ho
  exact triExact_of_B (List.all_eq_true.mp h o ho)

/-- `|Σ_p w_p − 1| ≤ 1e-12` -/
theorem tri_weights_sum : ∀ o ∈ TRI_ORDERS, triWeightsSumB DEN (tri o) TOL = true := by
  have h : (TRI_ORDERS.all fun o => triWeightsSumB DEN (tri o) TOL) = true := by decide +kernel
  exact fun o ho => List.all_eq_true.mp h o ho

/-- **all weights of every triangular rule are strictly positive** (true of the five rules the
    code has today; this is what `area_nonneg` needs) -/
theorem tri_weights_pos : ∀ o ∈ TRI_ORDERS, ∀ r ∈ tri o, 0 < TriRow.w r := by
  have h : (TRI_ORDERS.all fun o => triWeightsPosB (tri o)) = true := by decide +kernel
  intro o ho r hr
  have := List.all_eq_true.mp (List.all_eq_true.mp h o ho) r hr
  simpa using this

/-! ### Gauss rules on `[0,1]` (as returned, i.e. after the code's own scaling) -/

/-- **moment exactness of every supported Gauss rule**: `|Σ w xᵈ − 1/(d+1)| ≤ 1e-12` for
    `d ≤ 2n−1` (`n = 9` is a Lobatto rule in the code: `d ≤ 15`). -/
theorem gauss_exact : ∀ n ∈ GAUSS_ORDERS, ∀ d, d ≤ gaussDeg n →
    gaussMomentOK DEN (gauss n) TOL d = true := by
  have h : (GAUSS_ORDERS.all fun n => gaussExactB DEN (gauss n) (gaussDeg n) TOL) = true := by
    decide +kernel
  intro n hn
  exact gaussExact_of_B (List.all_eq_true.mp h n hn)

/-- the degree of exactness never decreases with the order (needed for "converges as the
    quadrature order rises"; orders 8 and 9 tie at 15) -/
theorem gauss_degree_monotone : ∀ m n, m ≤ n → n ≤ 10 → gaussDeg m ≤ gaussDeg n := by
  intro m n h1 h2
  unfold gaussDeg
  split <;> split <;> omega

theorem gauss_weights_pos : ∀ n ∈ GAUSS_ORDERS, ∀ r ∈ gauss n, 0 < r.2 := by
  have h : (GAUSS_ORDERS.all fun n => gaussWeightsPosB (gauss n)) = true := by decide +kernel
  intro n hn r hr
  have := List.all_eq_true.mp (List.all_eq_true.mp h n hn) r hr
  simpa using this

/-! ### what the integer checkers mean, in ℚ -/

theorem closeB_iff (S : Int) (Dp p q T : Nat) (hD : 0 < Dp) (hq : 0 < q) (hT : 0 < T) :
    closeB S Dp p q T = true ↔ |(S : ℚ) / Dp - (p : ℚ) / q| ≤ 1 / (T : ℚ) := by
  have hD' : (0 : ℚ) < Dp := by exact_mod_cast hD
  have hq' : (0 : ℚ) < q := by exact_mod_cast hq
  have hT' : (0 : ℚ) < T := by exact_mod_cast hT
  unfold closeB
  rw [decide_eq_true_iff]
  have e : (S : ℚ) / Dp - (p : ℚ) / q = ((S : ℚ) * q - p * Dp) / (Dp * q) := by
    field_simp
  rw [e, abs_div, abs_of_pos (mul_pos hD' hq'), div_le_div_iff₀ (mul_pos hD' hq') hT', one_mul]
  have c : (((S * (q : Int) - (p : Int) * (Dp : Int)).natAbs : ℕ) : ℚ) = |(S : ℚ) * q - p * Dp| := by
    rw [Nat.cast_natAbs, Int.cast_abs]; push_cast; rfl
  rw [← c]
  constructor
  · intro h
    have : (((S * (q : Int) - (p : Int) * (Dp : Int)).natAbs * T : ℕ) : ℚ) ≤ ((q * Dp : ℕ) : ℚ) := by
      exact_mod_cast h
    push_cast at this
    linarith
  · intro h
    have : (((S * (q : Int) - (p : Int) * (Dp : Int)).natAbs * T : ℕ) : ℚ) ≤ ((q * Dp : ℕ) : ℚ) := by
      push_cast; linarith
    exact_mod_cast this

/-- the quadrature sum `Σ_p w_p G₀ᵃ G₁ᵇ G₂ᶜ` of a table whose entries are `numerator / D` -/
def triSumQ (D : Nat) (t : List TriRow) (a b c : Nat) : ℚ :=
  (t.map fun r : TriRow =>
    (r.w : ℚ) / D * ((r.g0 : ℚ) / D) ^ a * ((r.g1 : ℚ) / D) ^ b
      * (1 - (r.g0 : ℚ) / D - (r.g1 : ℚ) / D) ^ c).sum

def gaussSumQ (D : Nat) (t : List GaussRow) (d : Nat) : ℚ :=
  (t.map fun r : GaussRow => (r.2 : ℚ) / D * ((r.1 : ℚ) / D) ^ d).sum

theorem foldl_add_cast {β : Type} (f : β → Int) (t : List β) (init : Int) :
    ((t.foldl (fun s r => s + f r) init : Int) : ℚ) = init + (t.map fun r => (f r : ℚ)).sum := by
  induction t generalizing init with
  | nil => simp
  | cons r t ih => rw [List.foldl_cons, ih]; simp; ring

theorem sum_map_div {β : Type} (t : List β) (f g : β → ℚ) (c : ℚ) (h : ∀ r ∈ t, f r = g r / c) :
    (t.map f).sum = (t.map g).sum / c := by
  induction t with
  | nil => simp
  | cons r t ih =>
    rw [List.map_cons, List.map_cons, List.sum_cons, List.sum_cons, add_div, h r (by simp),
      ih (fun x hx => h x (by simp [hx]))]

theorem triSumQ_eq (D : Nat) (hD : 0 < D) (t : List TriRow) (a b c : Nat) :
    triSumQ D t a b c = (triMoment D t a b c : ℚ) / (D : ℚ) ^ (a + b + c + 1) := by
  have hD' : (D : ℚ) ≠ 0 := by exact_mod_cast hD.ne'
  unfold triSumQ triMoment
  rw [foldl_add_cast, Int.cast_zero, zero_add]
  apply sum_map_div
  intro r _
  push_cast
  have e : (1 : ℚ) - (r.g0 : ℚ) / D - (r.g1 : ℚ) / D = ((D : ℚ) - r.g0 - r.g1) / D := by
    field_simp
  rw [e, div_pow, div_pow, div_pow, pow_succ, pow_add, pow_add]
  field_simp

theorem gaussSumQ_eq (D : Nat) (hD : 0 < D) (t : List GaussRow) (d : Nat) :
    gaussSumQ D t d = (gaussMoment t d : ℚ) / (D : ℚ) ^ (d + 1) := by
  have hD' : (D : ℚ) ≠ 0 := by exact_mod_cast hD.ne'
  unfold gaussSumQ gaussMoment
  rw [foldl_add_cast, Int.cast_zero, zero_add]
  apply sum_map_div
  intro r _
  push_cast
  rw [div_pow, pow_succ]
  field_simp

theorem fact_pos (n : Nat) : 0 < fact n := by
  induction n with
  | zero => decide
  | succ n ih => unfold fact; exact Nat.mul_pos (Nat.succ_pos n) ih

theorem DEN_pos : 0 < DEN := by decide +kernel

/-- **what `triMomentOK` says**: the table's quadrature sum of `λ₀ᵃλ₁ᵇλ₂ᶜ` is within `1/T` of the
    exact integral `2·a!·b!·c!/(a+b+c+2)!` (normalised to `∫ 1 = 1`, as the code halves the Jacobian). -/
theorem triMomentOK_iff (t : List TriRow) (T a b c : Nat) (hT : 0 < T) :
    triMomentOK DEN t T a b c = true ↔
      |triSumQ DEN t a b c - (2 * fact a * fact b * fact c : ℕ) / (fact (a + b + c + 2) : ℕ)| ≤ 1 / (T : ℚ) := by
  unfold triMomentOK
  rw [closeB_iff _ _ _ _ _ (Nat.pow_pos DEN_pos) (fact_pos _) hT, triSumQ_eq DEN DEN_pos]
  push_cast
  rfl

theorem gaussMomentOK_iff (t : List GaussRow) (T d : Nat) (hT : 0 < T) :
    gaussMomentOK DEN t T d = true ↔ |gaussSumQ DEN t d - 1 / ((d : ℚ) + 1)| ≤ 1 / (T : ℚ) := by
  unfold gaussMomentOK
  rw [closeB_iff _ _ _ _ _ (Nat.pow_pos DEN_pos) (Nat.succ_pos d) hT, gaussSumQ_eq DEN DEN_pos]
  push_cast
  rfl


/-- **moment exactness, in plain rational arithmetic**: for every supported triangular order `o`
    and every monomial of total degree `≤ o`, the code's table integrates it to within `1e-12`. -/
theorem tri_exact_rat : ∀ o ∈ TRI_ORDERS, ∀ a b c, a + b + c ≤ o →
    |triSumQ DEN (tri o) a b c - (2 * fact a * fact b * fact c : ℕ) / (fact (a + b + c + 2) : ℕ)|
      ≤ 1 / ((10 ^ 12 : ℕ) : ℚ) := by
  intro o ho a b c h
  exact (triMomentOK_iff (tri o) TOL a b c (by decide)).mp (tri_exact o ho a b c h)

/-- … and every supported `n`-point Gauss rule integrates `xᵈ` on `[0,1]` to within `1e-12` for
    `d ≤ 2n−1` (`n = 9`: `d ≤ 15`). -/
theorem gauss_exact_rat : ∀ n ∈ GAUSS_ORDERS, ∀ d, d ≤ gaussDeg n →
    |gaussSumQ DEN (gauss n) d - 1 / ((d : ℚ) + 1)| ≤ 1 / ((10 ^ 12 : ℕ) : ℚ) := by
  intro n hn d h
  exact (gaussMomentOK_iff (gauss n) TOL d (by decide)).mp (gauss_exact n hn d h)

-- non-vacuity: the checkers discriminate.  A synthetic one-point "rule" at (0.3, 0.3, 0.4) does not
-- integrate λ₀; the centroid rule integrates degree 1 but not degree 2; the 2-point Gauss rule with a
-- mistyped node fails.  (Sharpness of the code's own tables — degree o+1 is not integrated, order 9 is a
-- Lobatto rule — is reported in the evidence by the driver, not demanded: a better table is not a violation.)
example : triMomentOK 10 [(3, 3, 4, 10)] TOL 1 0 0 = false := by decide +kernel
example : triExactB 3 [(1, 1, 1, 3)] 1 TOL = true ∧ triMomentOK 3 [(1, 1, 1, 3)] TOL 2 0 0 = false := by
  decide +kernel
example : gaussMomentOK 100 [(21, 50), (78, 50)] TOL 1 = false := by decide +kernel
example : triMomentOK DEN (tri 12) TOL 4 4 4 = true := by decide +kernel

/-! ## T. The algorithm, for all inputs -/

section locality
variable {K : Type}

/-! ### each area depends only on that face's own corner coordinate list -/

/-- **locality**: the area reported for face `f` is a function of the coordinates of exactly the
    first `n_nodes_per_face[f]` entries of its row — no padding, no other face, no numbering. -/
theorem area_face_local {P : Type} (area : List P → K) (coord : Int → P) (t : Table) (N : List Nat)
    (f : Nat) (hf : f < t.length) (hN : f < N.length) :
    (allAreas area coord t N)[f]? = some (area ((t[f].take N[f]).map coord)) := by
  unfold allAreas
  have hz : (t.zip N)[f]? = some (t[f], N[f]) :=
    List.getElem?_zip_eq_some.mpr ⟨List.getElem?_eq_getElem hf, List.getElem?_eq_getElem hN⟩
  rw [List.getElem?_map, hz]
  rfl

/-- **node renumbering**: renumber the nodes by ANY map `σ` (the coordinate arrays are permuted
    accordingly: `coord' (σ i) = coord i` on the real corners) — every area is unchanged. -/
theorem area_renumber {P : Type} (area : List P → K) (coord coord' : Int → P) (σ : Int → Int)
    (t : Table) (N : List Nat)
    (h : ∀ p ∈ t.zip N, ∀ i ∈ p.1.take p.2, coord' (σ i) = coord i) :
    allAreas area coord' (t.map (List.map σ)) N = allAreas area coord t N := by
  unfold allAreas
  rw [List.zip_map_left, List.map_map]
  apply List.map_congr_left
  intro p hp
  simp only [Function.comp, Prod.map_fst, Prod.map_snd, id]
  congr 1
  rw [← List.map_take, List.map_map]
  apply List.map_congr_left
  intro i hi
  exact h p hp i hi

/-- **face reordering**: listing the faces in another order (any selection `idx` of face
    numbers, e.g. a permutation) lists the same areas in that order. -/
theorem area_face_order {P : Type} (area : List P → K) (coord : Int → P) (t : Table) (N : List Nat)
    (idx : List Nat) (hlen : t.length = N.length) (hidx : ∀ f ∈ idx, f < t.length) :
    allAreas area coord (idx.map fun f => t.getD f []) (idx.map fun f => N.getD f 0)
      = idx.map fun f => (allAreas area coord t N).getD f (area []) := by
  unfold allAreas
  rw [List.zip_map', List.map_map]
  apply List.map_congr_left
  intro f hf
  have h1 : f < t.length := hidx f hf
  have h2 : f < N.length := hlen ▸ h1
  have hz : (t.zip N)[f]? = some (t[f], N[f]) :=
    List.getElem?_zip_eq_some.mpr ⟨List.getElem?_eq_getElem h1, List.getElem?_eq_getElem h2⟩
  simp only [Function.comp, List.getD_eq_getElem?_getD, List.getElem?_map, hz,
    List.getElem?_eq_getElem h1, List.getElem?_eq_getElem h2, Option.map_some, Option.getD_some]

end locality

section algebra
variable {K : Type} [Field K]

/-- the code's single accumulator over all sub-triangles and points equals the fan sum of the
    per-triangle quadrature -/
theorem faceArea_eq_fan (sqrt : K → K) (q : Quad K) (cs : List (V3 K)) :
    faceArea sqrt q cs = fan (triQuad sqrt q) cs := by
  unfold faceArea fan triQuad
  rw [sumL_flatMap]

/-! ### subdivision -/

/-- **areas of a face and of the two pieces cut off by a diagonal from its start corner add up,
    exactly** — for every rule table and every corner list (the computed area is a fan sum, and fan
    sums split: `Area.fan_split`, which holds for ANY triangle functional).  For a diagonal between
    two other corners the start corner has to be moved first, which costs at most the quadrature
    error (`fan_shift_approx`). -/
theorem area_split (sqrt : K → K) (q : Quad K) (a d : V3 K) (l₁ l₂ : List (V3 K)) :
    faceArea sqrt q (a :: (l₁ ++ d :: l₂))
      = faceArea sqrt q (a :: (l₁ ++ [d])) + faceArea sqrt q (a :: d :: l₂) := by
  simp only [faceArea_eq_fan]
  exact fan_split _ a d l₁ l₂

/-! ### rigid motions -/

theorem jacBary_apply {R : M3 K} (h : R.Orthogonal) (sqrt : K → K) (n1 n2 n3 : V3 K) (dA dB : K) :
    jacBary sqrt (R.apply n1) (R.apply n2) (R.apply n3) dA dB = jacBary sqrt n1 n2 n3 dA dB := by
  unfold jacBary
  dsimp only
  rw [← jacCore_apply h sqrt
    ⟨dA * n1.x + dB * n2.x + (1 - dA - dB) * n3.x, dA * n1.y + dB * n2.y + (1 - dA - dB) * n3.y,
     dA * n1.z + dB * n2.z + (1 - dA - dB) * n3.z⟩]
  congr 2 <;> (simp only [M3.apply]; congr 1 <;> ring)

theorem jacGauss_apply {R : M3 K} (h : R.Orthogonal) (sqrt : K → K) (n1 n2 n3 : V3 K) (dA dB : K) :
    jacGauss sqrt (R.apply n1) (R.apply n2) (R.apply n3) dA dB = jacGauss sqrt n1 n2 n3 dA dB := by
  unfold jacGauss
  dsimp only
  rw [← jacCore_apply h sqrt
    ⟨(1 - dB) * ((1 - dA) * n1.x + dA * n2.x) + dB * n3.x,
     (1 - dB) * ((1 - dA) * n1.y + dA * n2.y) + dB * n3.y,
     (1 - dB) * ((1 - dA) * n1.z + dA * n2.z) + dB * n3.z⟩]
  congr 1 <;> (simp only [M3.apply]; congr 1 <;> ring)

theorem terms_apply {R : M3 K} (h : R.Orthogonal) (sqrt : K → K) (q : Quad K) (n1 n2 n3 : V3 K) :
    terms sqrt q (R.apply n1) (R.apply n2) (R.apply n3) = terms sqrt q n1 n2 n3 := by
  cases q with
  | tri rows => simp only [terms, jacBary_apply h]
  | gauss rows => simp only [terms, jacGauss_apply h]

/-- **rigid rotation (any orthogonal map `R`, `RᵀR = I`) of the corners leaves the computed
    area unchanged** — for every rule table, every corner list, every `sqrt`. -/
theorem area_rotation {R : M3 K} (h : R.Orthogonal) (sqrt : K → K) (q : Quad K)
    (corners : List (V3 K)) :
    faceArea sqrt q (corners.map R.apply) = faceArea sqrt q corners := by
  unfold faceArea
  rw [fanTris_map, List.flatMap_map]
  simp only [terms_apply h]

/-- … hence of a whole grid: rotating every node rotates no area. -/
theorem area_rotation_grid {R : M3 K} (h : R.Orthogonal) (sqrt : K → K) (q : Quad K)
    (xyz : Int → V3 K) (t : Table) (N : List Nat) :
    computeXYZ 3 sqrt q (fun i => R.apply (xyz i)) t N = computeXYZ 3 sqrt q xyz t N := by
  unfold computeXYZ allAreas
  apply List.map_congr_left
  intro p _
  have hc : ∀ l : List (V3 K), l.map (cartCorner 3) = l := by
    intro l; conv => rhs; rw [← List.map_id l]
    apply List.map_congr_left; intro v _; simp [cartCorner]
  beta_reduce
  rw [hc, hc, ← area_rotation h sqrt q ((p.1.take p.2).map xyz), List.map_map]
  rfl

/-! ### the two coordinate inputs -/

/-- **spherical input = Cartesian input** (repaired code, `dim = 3`): `compute_face_areas(latlon=True)`
    on lon/lat equals `compute_face_areas(latlon=False)` on the Cartesian coordinates of the same
    nodes. -/
theorem area_latlon_eq_xyz (sqrt sin cos : K → K) (d2r : K) (q : Quad K) (lonlat : Int → K × K)
    (t : Table) (N : List Nat) :
    computeLatLon sqrt sin cos d2r q lonlat t N
      = computeXYZ 3 sqrt q (fun i => xyzOfLonLatDeg sin cos d2r (lonlat i)) t N := by
  unfold computeLatLon computeXYZ allAreas faceAreaSph
  apply List.map_congr_left
  intro p _
  have hc : ∀ l : List (V3 K), l.map (cartCorner 3) = l := by
    intro l; conv => rhs; rw [← List.map_id l]
    apply List.map_congr_left; intro v _; simp [cartCorner]
  beta_reduce
  rw [hc, List.map_map]
  rfl

/-- **the code as it stands** (`dim = 2` also for Cartesian input, grid.py:1527): `z` is replaced by
    `x·0`, all three vectors of the Jacobian are planar and the area of EVERY face is `√0 = 0`. -/
theorem asis_cartesian_area_zero (sqrt : K → K) (h0 : sqrt 0 = 0) (q : Quad K)
    (corners : List (V3 K)) : faceArea sqrt q (corners.map (cartCorner 2)) = 0 := by
  unfold faceArea
  apply sumL_zero
  intro x hx
  rw [List.mem_flatMap] at hx
  obtain ⟨tr, htr, hx⟩ := hx
  obtain ⟨h1, h2, h3⟩ := mem_fanTris htr
  have hz : ∀ v ∈ corners.map (cartCorner (K := K) 2), v.z = 0 := by
    intro v hv
    obtain ⟨p, _, rfl⟩ := List.mem_map.mp hv
    simp [cartCorner]
  have z1 := hz _ h1
  have z2 := hz _ h2
  have z3 := hz _ h3
  cases q with
  | tri rows =>
    simp only [terms, List.mem_map] at hx
    obtain ⟨r, _, rfl⟩ := hx
    unfold jacBary
    dsimp only
    rw [jacCore_planar sqrt _ _ _ (by simp [z1, z2, z3]) (by simp [z1, z3]) (by simp [z2, z3]), h0]
    simp
  | gauss rows =>
    simp only [terms, List.mem_flatMap, List.mem_map] at hx
    obtain ⟨r, _, r', _, rfl⟩ := hx
    unfold jacGauss
    dsimp only
    rw [jacCore_planar sqrt _ _ _ (by simp [z1, z2, z3]) (by simp [z1, z2]) (by simp [z1, z2, z3]), h0]
    simp

end algebra

/-! ### non-negativity -/

section order
variable {K : Type} [Field K] [LinearOrder K] [IsStrictOrderedRing K]

/-- weights of a table over an ordered field are non-negative -/
def WeightsNonneg : Quad K → Prop
  | .tri rows => ∀ r ∈ rows, 0 ≤ r.2.2.2
  | .gauss rows => ∀ r ∈ rows, 0 ≤ r.2

/-- **the area of a face is never negative**: for every corner list (any number of corners, any
    position, degenerate or not), every table with non-negative weights, every `sqrt ≥ 0`. -/
theorem area_nonneg (sqrt : K → K) (hs : ∀ x, 0 ≤ sqrt x) (q : Quad K) (hq : WeightsNonneg q)
    (corners : List (V3 K)) : 0 ≤ faceArea sqrt q corners := by
  unfold faceArea
  apply sumL_nonneg
  intro x hx
  rw [List.mem_flatMap] at hx
  obtain ⟨tr, _, hx⟩ := hx
  cases q with
  | tri rows =>
    simp only [terms, List.mem_map] at hx
    obtain ⟨r, hr, rfl⟩ := hx
    exact mul_nonneg (hq r hr) (div_nonneg (hs _) (by norm_num))
  | gauss rows =>
    simp only [terms, List.mem_flatMap, List.mem_map] at hx
    obtain ⟨r, hr, r', hr', rfl⟩ := hx
    exact mul_nonneg (mul_nonneg (hq r hr) (hq r' hr')) (hs _)

/-- the regenerated tables as tables over a field -/
def triTable (K : Type) [Field K] (o : Nat) : Quad K :=
  .tri ((tri o).map fun r : TriRow =>
    ((r.g0 : K) / (DEN : K), (r.g1 : K) / (DEN : K), (r.g2 : K) / (DEN : K), (r.w : K) / (DEN : K)))
def gaussTable (K : Type) [Field K] (n : Nat) : Quad K :=
  .gauss ((gauss n).map fun r : GaussRow => ((r.1 : K) / (DEN : K), (r.2 : K) / (DEN : K)))

theorem triTable_nonneg (o : Nat) (ho : o ∈ TRI_ORDERS) : WeightsNonneg (triTable K o) := by
  intro r hr
  simp only [List.mem_map] at hr
  obtain ⟨r0, hr0, rfl⟩ := hr
  exact div_nonneg (Int.cast_nonneg (le_of_lt (tri_weights_pos o ho r0 hr0))) (Nat.cast_nonneg _)

theorem gaussTable_nonneg (n : Nat) (hn : n ∈ GAUSS_ORDERS) : WeightsNonneg (gaussTable K n) := by
  intro r hr
  simp only [List.mem_map] at hr
  obtain ⟨r0, hr0, rfl⟩ := hr
  exact div_nonneg (Int.cast_nonneg (le_of_lt (gauss_weights_pos n hn r0 hr0))) (Nat.cast_nonneg _)

end order

/-- **non-negativity for every rule the code has today, over ℝ with the real square root**:
    both families, every supported order, every face. -/
theorem area_nonneg_tables (corners : List (V3 ℝ)) :
    (∀ o ∈ TRI_ORDERS, 0 ≤ faceArea Real.sqrt (triTable ℝ o) corners) ∧
    (∀ n ∈ GAUSS_ORDERS, 0 ≤ faceArea Real.sqrt (gaussTable ℝ n) corners) :=
  ⟨fun o ho => area_nonneg Real.sqrt Real.sqrt_nonneg _ (triTable_nonneg o ho) corners,
   fun n hn => area_nonneg Real.sqrt Real.sqrt_nonneg _ (gaussTable_nonneg n hn) corners⟩

/-- over ℝ the as-is Cartesian path returns exactly 0 for every face and every rule -/
theorem asis_cartesian_area_zero_real (q : Quad ℝ) (corners : List (V3 ℝ)) :
    faceArea Real.sqrt q (corners.map (cartCorner 2)) = 0 :=
  asis_cartesian_area_zero Real.sqrt Real.sqrt_zero q corners

/-! ### start corner -/
section shift
variable {α K : Type} [AddCommGroup K]

/-- the hypotheses on a triangle functional `T` (think: exact spherical area of the triangle):
    symmetric under cyclic relabelling, and the two triangulations of a quadrilateral
    `p q s u` agree — required only for quadruples that occur IN ORDER in the polygon. -/
def Cyclic (T : α → α → α → K) : Prop := ∀ p q s, T p q s = T q s p
def FlipOn (T : α → α → α → K) (l : List α) : Prop :=
  ∀ p q s u, [p, q, s, u].Sublist l → T p q s + T p s u = T p q u + T q s u

theorem FlipOn.mono {T : α → α → α → K} {l l' : List α} (h : FlipOn T l') (hs : l.Sublist l') :
    FlipOn T l := fun p q s u hsub => h p q s u (hsub.trans hs)

/-- **start-corner independence**: for any `T` that is cyclically symmetric and satisfies the
    quadrilateral flip identity on the polygon, the fan from corner `b` (the list rotated by
    one) equals the fan from corner `a`. -/
theorem fan_shift (T : α → α → α → K) (hc : Cyclic T) (a b : α) (r : List α) (hr : r ≠ [])
    (hflip : FlipOn T (b :: r ++ [a])) : fan T (b :: r ++ [a]) = fan T (a :: b :: r) := by
  generalize hn : r.length = n
  induction n generalizing r with
  | zero => exact absurd (List.length_eq_zero_iff.mp hn) hr
  | succ n ih =>
    rcases List.eq_nil_or_concat r with h | ⟨r', y, h⟩
    · exact absurd h hr
    · rw [List.concat_eq_append] at h
      subst h
      rcases List.eq_nil_or_concat r' with h' | ⟨r'', x, h'⟩
      · subst h'
        simp only [List.nil_append, List.cons_append]
        rw [fan_three, fan_three, hc a b y]
      · rw [List.concat_eq_append] at h'
        subst h'
        have hlen : (r'' ++ [x]).length = n := by simp at hn ⊢; omega
        have hsub : (b :: (r'' ++ [x]) ++ [a]).Sublist (b :: (r'' ++ [x] ++ [y]) ++ [a]) := by
          simp only [List.cons_append, List.append_assoc]
          apply List.Sublist.cons_cons
          apply List.Sublist.append_left
          simp
        have IH := ih (r'' ++ [x]) (by simp) (hflip.mono hsub) hlen
        have e1 : b :: (r'' ++ [x] ++ [y]) ++ [a] = b :: ((r'' ++ [x]) ++ [y, a]) := by simp
        have e2 : b :: (r'' ++ [x]) ++ [a] = b :: (r'' ++ [x, a]) := by simp
        have e3 : a :: b :: (r'' ++ [x, y]) = a :: ((b :: r'') ++ [x, y]) := by simp
        have e4 : a :: b :: (r'' ++ [x]) = a :: ((b :: r'') ++ [x]) := by simp
        have e5 : b :: ((r'' ++ [x]) ++ [y]) = b :: (r'' ++ [x, y]) := by simp
        rw [e2, fan_snoc, e4] at IH
        rw [e1, fan_snoc, e5, fan_snoc, e3, fan_snoc, ← IH]
        have hq : [b, x, y, a].Sublist (b :: (r'' ++ [x] ++ [y]) ++ [a]) := by
          simp only [List.cons_append, List.append_assoc]
          apply List.Sublist.cons_cons
          apply List.sublist_append_of_sublist_right
          simp
        have := hflip b x y a hq
        rw [← hc a x y] at this
        rw [add_assoc, this, add_assoc]

end shift

section approx
variable {α K : Type} [Field K] [LinearOrder K] [IsStrictOrderedRing K]

/-- the fans of two functionals that are `ε`-close on the polygon's corners differ by at most
    (number of sub-triangles)·ε -/
theorem fan_close (Q T : α → α → α → K) (ε : K) (l : List α)
    (h : ∀ p ∈ l, ∀ q ∈ l, ∀ s ∈ l, |Q p q s - T p q s| ≤ ε) :
    |fan Q l - fan T l| ≤ ((fanTris l).length : K) * ε := by
  unfold fan
  apply sumL_map_close
  intro t ht
  obtain ⟨h1, h2, h3⟩ := mem_fanTris ht
  exact h _ h1 _ h2 _ h3

/-- **start-corner dependence of a quadrature is bounded by its accuracy**: if the per-triangle
    quadrature `Q` is within `ε` of a functional `T` with cyclic symmetry and the flip identity
    (the exact area), then moving the start corner changes the `n`-gon's computed area by at
    most `2(n−2)ε`. -/
theorem fan_shift_approx (Q T : α → α → α → K) (ε : K) (hc : Cyclic T) (a b : α) (r : List α)
    (hr : r ≠ []) (hflip : FlipOn T (b :: r ++ [a]))
    (h : ∀ p ∈ a :: b :: r, ∀ q ∈ a :: b :: r, ∀ s ∈ a :: b :: r, |Q p q s - T p q s| ≤ ε) :
    |fan Q (b :: r ++ [a]) - fan Q (a :: b :: r)| ≤ 2 * (r.length : K) * ε := by
  have h' : ∀ p ∈ b :: r ++ [a], ∀ q ∈ b :: r ++ [a], ∀ s ∈ b :: r ++ [a], |Q p q s - T p q s| ≤ ε := by
    have hm : ∀ p, p ∈ b :: r ++ [a] → p ∈ a :: b :: r := by
      intro p hp; simp at hp ⊢; tauto
    intro p hp q hq s hs
    exact h p (hm p hp) q (hm q hq) s (hm s hs)
  have h1 := fan_close Q T ε (b :: r ++ [a]) h'
  have h2 := fan_close Q T ε (a :: b :: r) h
  have l1 : (fanTris (b :: r ++ [a])).length = r.length := by
    cases r with
    | nil => exact absurd rfl hr
    | cons c r => simp [fanTris_length]
  have l2 : (fanTris (a :: b :: r)).length = r.length := fanTris_length a b r
  rw [l1] at h1
  rw [l2] at h2
  have hs := fan_shift T hc a b r hr hflip
  have : fan Q (b :: r ++ [a]) - fan Q (a :: b :: r)
      = (fan Q (b :: r ++ [a]) - fan T (b :: r ++ [a])) - (fan Q (a :: b :: r) - fan T (a :: b :: r)) := by
    rw [hs]; ring
  rw [this]
  calc |(fan Q (b :: r ++ [a]) - fan T (b :: r ++ [a])) - (fan Q (a :: b :: r) - fan T (a :: b :: r))|
      ≤ |fan Q (b :: r ++ [a]) - fan T (b :: r ++ [a])| + |fan Q (a :: b :: r) - fan T (a :: b :: r)| :=
        abs_sub _ _
    _ ≤ (r.length : K) * ε + (r.length : K) * ε := add_le_add h1 h2
    _ = 2 * (r.length : K) * ε := by ring

end approx

/-! ### the cache -/
section cache
variable {A : Type}

/-- the parameter combination an operation reports -/
def reportOf (dflt tdflt : Params) : Op → Params
  | .read => dflt
  | .compute p => p
  | .computeDefault => dflt
  | .total r o => (r, o, true)
  | .totalDefault => tdflt

theorem runOps_inv (fresh : Params → A) (dflt tdflt : Params) (s : St A)
    (hs : s.ds = none ∨ s.ds = some (fresh dflt)) (ops : List Op) :
    runOps fresh dflt tdflt s ops = ops.map fun op => fresh (reportOf dflt tdflt op) := by
  induction ops generalizing s with
  | nil => rfl
  | cons op ops ih =>
    simp only [runOps, List.map_cons]
    cases op with
    | read =>
      rcases hs with h | h
      · simp only [step, h]
        rw [ih _ (Or.inr rfl)]; rfl
      · simp only [step, h]
        rw [ih _ (Or.inr h)]; rfl
    | compute p => simp only [step]; rw [ih _ (by exact hs)]; rfl
    | computeDefault => simp only [step]; rw [ih _ (by exact hs)]; rfl
    | total r o => simp only [step]; rw [ih _ (by exact hs)]; rfl
    | totalDefault => simp only [step]; rw [ih _ (by exact hs)]; rfl

/-- **history independence of every area call**: whatever sequence of `face_areas`,
    `compute_face_areas(…)`, `calculate_total_face_area(…)` calls is made on a new grid, each call
    reports the fresh computation for its own parameters. -/
theorem cache_history (fresh : Params → A) (dflt tdflt : Params) (ops : List Op) :
    runOps fresh dflt tdflt { ds := none, last := none } ops
      = ops.map fun op => fresh (reportOf dflt tdflt op) :=
  runOps_inv fresh dflt tdflt _ (Or.inl rfl) ops

/-- **the cached `face_areas` equal a fresh default computation**, at any point of any history -/
theorem cache_eq_fresh (fresh : Params → A) (dflt tdflt : Params) (ops : List Op) (i : Nat)
    (h : ops[i]? = some Op.read) :
    (runOps fresh dflt tdflt { ds := none, last := none } ops)[i]? = some (fresh dflt) := by
  rw [cache_history, List.getElem?_map, h]
  rfl

example : runOps (fun p => p) (1, 4, true) (1, 4, true) { ds := none, last := none }
    [.compute (0, 7, true), .read, .total 0 3, .read] = [(0, 7, true), (1, 4, true), (0, 3, true), (1, 4, true)] := by
  decide

end cache

/-! ### non-vacuity of the hypotheses and the as-is counterexample -/

/-- twice the signed area of a planar lattice triangle: a non-trivial `T` that is cyclic and
    satisfies the flip identity on every list, so the hypotheses of `fan_shift` are satisfiable;
    its fan is (twice) the polygon's area whatever the start corner -/
def planarT (p q s : Int × Int) : Int :=
  (q.1 - p.1) * (s.2 - p.2) - (q.2 - p.2) * (s.1 - p.1)

example : Cyclic planarT ∧ (∀ l, FlipOn planarT l) ∧
    fan planarT [(0, 0), (2, 0), (3, 2), (0, 2)] = 10 ∧
    fan planarT [(2, 0), (3, 2), (0, 2), (0, 0)] = 10 := by
  refine ⟨fun p q s => by unfold planarT; ring, fun l p q s u _ => by unfold planarT; ring, ?_, ?_⟩ <;>
    decide

/-- a non-trivial orthogonal map (rotation by `atan(4/3)` about `z`) exists over ℚ -/
example : (⟨3/5, -4/5, 0, 4/5, 3/5, 0, 0, 0, 1⟩ : M3 ℚ).Orthogonal := by
  constructor <;> norm_num

/-- the one-point rule on the octant triangle gives a strictly positive area over ℝ … -/
theorem example_area_pos :
    0 < faceArea Real.sqrt (.tri [((1:ℝ)/3, (1:ℝ)/3, (1:ℝ)/3, 1)]) [⟨1, 0, 0⟩, ⟨0, 1, 0⟩, ⟨0, 0, 1⟩] := by
  simp only [faceArea, fanTris, terms, sumL, sumFrom, jacBary, List.tail_cons, List.zip_cons_cons,
    List.zip_nil_right, List.map_cons, List.map_nil, List.flatMap_cons, List.flatMap_nil,
    List.append_nil, List.foldl_cons, List.foldl_nil]
  rw [jacCore_eq]
  simp only [dot, radicand]
  norm_num

/-- … while the code as it stands returns 0 for it on Cartesian input: **the as-is code violates
    "does not depend on whether spherical or Cartesian corner coordinates are used"**
    (finding `C05/latlon-vs-xyz/z-dropped`, repaired by `fixes/C05-cartesian-dim.patch`). -/
theorem asis_violates_input_independence :
    ∃ (q : Quad ℝ) (corners : List (V3 ℝ)),
      faceArea Real.sqrt q (corners.map (cartCorner 2)) ≠ faceArea Real.sqrt q (corners.map (cartCorner 3)) := by
  refine ⟨.tri [((1:ℝ)/3, (1:ℝ)/3, (1:ℝ)/3, 1)], [⟨1, 0, 0⟩, ⟨0, 1, 0⟩, ⟨0, 0, 1⟩], ?_⟩
  rw [asis_cartesian_area_zero_real]
  have : ([⟨1, 0, 0⟩, ⟨0, 1, 0⟩, ⟨0, 0, 1⟩] : List (V3 ℝ)).map (cartCorner 3)
      = [⟨1, 0, 0⟩, ⟨0, 1, 0⟩, ⟨0, 0, 1⟩] := by simp [cartCorner]
  rw [this]
  exact (ne_of_gt example_area_pos).symm


/-! ### the default arguments (regenerated from `inspect.signature` on every run) -/

/-- **the default rule and order name a supported table**, so the accuracy clauses "with the default
    rule" are about a rule whose exactness theorems above apply; `calculate_total_face_area` uses
    the same default as `compute_face_areas`. -/
theorem default_rule_supported :
    ((Gen.Defaults.compute_face_areas_quadrature_rule = "triangular" ∧
        Gen.Defaults.compute_face_areas_order.toNat ∈ TRI_ORDERS) ∨
     (Gen.Defaults.compute_face_areas_quadrature_rule = "gaussian" ∧
        Gen.Defaults.compute_face_areas_order.toNat ∈ GAUSS_ORDERS)) ∧
    0 < Gen.Defaults.compute_face_areas_order ∧
    Gen.Defaults.calculate_total_face_area_quadrature_rule = Gen.Defaults.compute_face_areas_quadrature_rule ∧
    Gen.Defaults.calculate_total_face_area_order = Gen.Defaults.compute_face_areas_order := by
  decide


/-! ## J. The integrand IS the area element of the code's parametrisation -/

/-- scalar triple product `F · (A × B)` -/
def triple {K : Type} [Field K] (F A B : V3 K) : K := dot F (cross A B)

/-- Gram identity: the radicand of `jacCore` is `den⁴ · (F·F)³ · (F·(A×B))²` -/
theorem radicand_eq_triple {K : Type} [Field K] (F A B : V3 K) (den : K) :
    radicand (dot F F) (dot A F) (dot B F) (dot A A) (dot A B) (dot B B) den
      = den ^ 4 * (dot F F) ^ 3 * (triple F A B) ^ 2 := by
  unfold radicand triple dot cross
  ring

/-- **closed form of the Jacobian both routines evaluate** (over ℝ, `F ≠ 0`):
    `jacCore F A B = |F · (A × B)| / |F|³`. -/
theorem jacCore_eq_triple (F A B : V3 ℝ) (hF : 0 < dot F F) :
    jacCore Real.sqrt F A B = |triple F A B| / Real.sqrt (dot F F) ^ 3 := by
  have hu : 0 < Real.sqrt (dot F F) := Real.sqrt_pos.mpr hF
  have hs : Real.sqrt (dot F F) ^ 2 = dot F F := Real.sq_sqrt hF.le
  rw [jacCore_eq, radicand_eq_triple]
  have key : ∀ u s t : ℝ, 0 < u → u ^ 2 = s →
      (1 / u * (1 / u) * (1 / u)) ^ 4 * s ^ 3 * t ^ 2 = (t / u ^ 3) ^ 2 := by
    intro u s t hu hs
    subst hs
    field_simp
  have e := key _ _ (triple F A B) hu hs
  rw [e, Real.sqrt_sq_eq_abs, abs_div, abs_of_pos (pow_pos hu 3)]


/-! ### the two parametrisations and their partial derivatives -/

section param
variable {K : Type} [Field K]

/-- `w + h·v` -/
def axpy (h : K) (v w : V3 K) : V3 K := ⟨w.x + h * v.x, w.y + h * v.y, w.z + h * v.z⟩

/-- the point `dF` of `calculate_spherical_triangle_jacobian_barycentric` -/
def baryF (n1 n2 n3 : V3 K) (a b : K) : V3 K :=
  ⟨a * n1.x + b * n2.x + (1 - a - b) * n3.x, a * n1.y + b * n2.y + (1 - a - b) * n3.y,
   a * n1.z + b * n2.z + (1 - a - b) * n3.z⟩
/-- the point `dF` of `calculate_spherical_triangle_jacobian` (collapsed square) -/
def gaussF (n1 n2 n3 : V3 K) (a b : K) : V3 K :=
  ⟨(1 - b) * ((1 - a) * n1.x + a * n2.x) + b * n3.x, (1 - b) * ((1 - a) * n1.y + a * n2.y) + b * n3.y,
   (1 - b) * ((1 - a) * n1.z + a * n2.z) + b * n3.z⟩
/-- the code's `dDaF`, `dDbF` of the collapsed square -/
def gaussDa (n1 n2 : V3 K) (b : K) : V3 K :=
  ⟨(1 - b) * (n2.x - n1.x), (1 - b) * (n2.y - n1.y), (1 - b) * (n2.z - n1.z)⟩
def gaussDb (n1 n2 n3 : V3 K) (a : K) : V3 K :=
  ⟨(-(1 - a)) * n1.x - a * n2.x + n3.x, (-(1 - a)) * n1.y - a * n2.y + n3.y,
   (-(1 - a)) * n1.z - a * n2.z + n3.z⟩

theorem jacBary_unfold (sqrt : K → K) (n1 n2 n3 : V3 K) (a b : K) :
    jacBary sqrt n1 n2 n3 a b = jacCore sqrt (baryF n1 n2 n3 a b) (vsub n1 n3) (vsub n2 n3) / 2 := rfl
theorem jacGauss_unfold (sqrt : K → K) (n1 n2 n3 : V3 K) (a b : K) :
    jacGauss sqrt n1 n2 n3 a b
      = jacCore sqrt (gaussF n1 n2 n3 a b) (gaussDa n1 n2 b) (gaussDb n1 n2 n3 a) := rfl

/-- the maps are affine in each parameter and the vectors the code calls `dDaF`, `dDbF` are
    EXACTLY their partial derivatives (difference quotients without remainder) -/
theorem baryF_partial_a (n1 n2 n3 : V3 K) (a b h : K) :
    baryF n1 n2 n3 (a + h) b = axpy h (vsub n1 n3) (baryF n1 n2 n3 a b) := by
  unfold baryF axpy vsub; congr 1 <;> ring
theorem baryF_partial_b (n1 n2 n3 : V3 K) (a b h : K) :
    baryF n1 n2 n3 a (b + h) = axpy h (vsub n2 n3) (baryF n1 n2 n3 a b) := by
  unfold baryF axpy vsub; congr 1 <;> ring
theorem gaussF_partial_a (n1 n2 n3 : V3 K) (a b h : K) :
    gaussF n1 n2 n3 (a + h) b = axpy h (gaussDa n1 n2 b) (gaussF n1 n2 n3 a b) := by
  unfold gaussF axpy gaussDa; congr 1 <;> ring
theorem gaussF_partial_b (n1 n2 n3 : V3 K) (a b h : K) :
    gaussF n1 n2 n3 a (b + h) = axpy h (gaussDb n1 n2 n3 a) (gaussF n1 n2 n3 a b) := by
  unfold gaussF axpy gaussDb; congr 1 <;> ring

/-- the triple product is constant on the flat triangle … -/
theorem triple_bary (n1 n2 n3 : V3 K) (a b : K) :
    triple (baryF n1 n2 n3 a b) (vsub n1 n3) (vsub n2 n3) = triple n1 n2 n3 := by
  unfold triple baryF vsub dot cross; ring
/-- … and picks up the collapse factor `1 − b` on the square -/
theorem triple_gauss (n1 n2 n3 : V3 K) (a b : K) :
    triple (gaussF n1 n2 n3 a b) (gaussDa n1 n2 b) (gaussDb n1 n2 n3 a) = (1 - b) * triple n1 n2 n3 := by
  unfold triple gaussF gaussDa gaussDb dot cross; ring

/-- the projected tangent the code forms (`dDaG * dDenomTerm`) -/
def tang (sqrt : K → K) (F A : V3 K) : V3 K :=
  let den := 1 / sqrt (F.x * F.x + F.y * F.y + F.z * F.z) * (1 / sqrt (F.x * F.x + F.y * F.y + F.z * F.z))
    * (1 / sqrt (F.x * F.x + F.y * F.y + F.z * F.z))
  ⟨(A.x * (F.y * F.y + F.z * F.z) - F.x * (A.y * F.y + A.z * F.z)) * den,
   (A.y * (F.x * F.x + F.z * F.z) - F.y * (A.x * F.x + A.z * F.z)) * den,
   (A.z * (F.x * F.x + F.y * F.y) - F.z * (A.x * F.x + A.y * F.y)) * den⟩

/-- radial projection onto the unit sphere -/
def nrm (sqrt : K → K) (v : V3 K) : V3 K :=
  ⟨v.x / sqrt (dot v v), v.y / sqrt (dot v v), v.z / sqrt (dot v v)⟩

/-- `jacCore` is, literally, the norm of the cross product of the two projected tangents -/
theorem jacCore_is_cross_norm (sqrt : K → K) (F A B : V3 K) :
    jacCore sqrt F A B
      = sqrt (dot (cross (tang sqrt F A) (tang sqrt F B)) (cross (tang sqrt F A) (tang sqrt F B))) := rfl

end param

/-- **the projected tangent is the derivative of the normalised point**: moving the flat point along
    `F + t·A`, the point on the sphere `(F + tA)/|F + tA|` has velocity `tang F A` at `t = 0`
    (component-wise; `F ≠ 0`). -/
theorem normalize_hasDerivAt (F A : V3 ℝ) (hF : 0 < dot F F) :
    HasDerivAt (fun t => (nrm Real.sqrt (axpy t A F)).x) (tang Real.sqrt F A).x 0 ∧
    HasDerivAt (fun t => (nrm Real.sqrt (axpy t A F)).y) (tang Real.sqrt F A).y 0 ∧
    HasDerivAt (fun t => (nrm Real.sqrt (axpy t A F)).z) (tang Real.sqrt F A).z 0 := by
  have hu : 0 < Real.sqrt (dot F F) := Real.sqrt_pos.mpr hF
  have hs : Real.sqrt (dot F F) ^ 2 = dot F F := Real.sq_sqrt hF.le
  have hg : ∀ p q : ℝ, HasDerivAt (fun t : ℝ => p + t * q) q 0 := by
    intro p q
    simpa using HasDerivAt.const_add p (HasDerivAt.mul_const (hasDerivAt_id (0 : ℝ)) q)
  have hh : HasDerivAt (fun t : ℝ => (F.x + t * A.x) * (F.x + t * A.x) + (F.y + t * A.y) * (F.y + t * A.y)
      + (F.z + t * A.z) * (F.z + t * A.z)) (2 * dot A F) 0 := by
    have := HasDerivAt.add (HasDerivAt.add (HasDerivAt.mul (hg F.x A.x) (hg F.x A.x))
      (HasDerivAt.mul (hg F.y A.y) (hg F.y A.y))) (HasDerivAt.mul (hg F.z A.z) (hg F.z A.z))
    refine HasDerivAt.congr_deriv this ?_
    simp only [dot]; ring
  have h0 : (F.x + 0 * A.x) * (F.x + 0 * A.x) + (F.y + 0 * A.y) * (F.y + 0 * A.y)
      + (F.z + 0 * A.z) * (F.z + 0 * A.z) = dot F F := by simp only [dot]; ring
  have hq := HasDerivAt.sqrt hh (by rw [h0]; exact hF.ne')
  have hq0 : Real.sqrt ((F.x + 0 * A.x) * (F.x + 0 * A.x) + (F.y + 0 * A.y) * (F.y + 0 * A.y)
      + (F.z + 0 * A.z) * (F.z + 0 * A.z)) ≠ 0 := by rw [h0]; exact hu.ne'
  have fin : ∀ p q g : ℝ, g = (q * dot F F - p * dot A F) * (1 / Real.sqrt (dot F F) * (1 / Real.sqrt (dot F F))
      * (1 / Real.sqrt (dot F F))) →
      HasDerivAt (fun t : ℝ => (p + t * q) / Real.sqrt ((F.x + t * A.x) * (F.x + t * A.x)
        + (F.y + t * A.y) * (F.y + t * A.y) + (F.z + t * A.z) * (F.z + t * A.z))) g 0 := by
    intro p q g hgd
    refine HasDerivAt.congr_deriv (HasDerivAt.div (hg p q) hq hq0) ?_
    rw [hgd, h0]
    have key : ∀ u s : ℝ, 0 < u → u ^ 2 = s → ∀ ta : ℝ,
        (q * s - p * ta) * (1 / u * (1 / u) * (1 / u)) = (q * u - (p + 0 * q) * (2 * ta / (2 * u))) / u ^ 2 := by
      intro u s hu' hs' ta; subst hs'; field_simp; ring
    exact (key _ _ hu hs _).symm
  refine ⟨?_, ?_, ?_⟩
  · apply fin F.x A.x; simp only [tang, dot]; ring
  · apply fin F.y A.y; simp only [tang, dot]; ring
  · apply fin F.z A.z; simp only [tang, dot]; ring

/-- **the integrand of the triangular rules is the solid-angle density of the flat triangle**:
    at the point `F = a n₁ + b n₂ + (1−a−b) n₃`, `jacBary = |n₁·(n₂×n₃)| / (2 |F|³)`. -/
theorem jacBary_closed (n1 n2 n3 : V3 ℝ) (a b : ℝ) (hF : 0 < dot (baryF n1 n2 n3 a b) (baryF n1 n2 n3 a b)) :
    jacBary Real.sqrt n1 n2 n3 a b
      = |triple n1 n2 n3| / (2 * Real.sqrt (dot (baryF n1 n2 n3 a b) (baryF n1 n2 n3 a b)) ^ 3) := by
  rw [jacBary_unfold, jacCore_eq_triple _ _ _ hF, triple_bary, div_div, mul_comm]

/-- … and of the Gauss rules the same density times the collapse factor `|1 − b|` of the square. -/
theorem jacGauss_closed (n1 n2 n3 : V3 ℝ) (a b : ℝ) (hF : 0 < dot (gaussF n1 n2 n3 a b) (gaussF n1 n2 n3 a b)) :
    jacGauss Real.sqrt n1 n2 n3 a b
      = |1 - b| * |triple n1 n2 n3| / Real.sqrt (dot (gaussF n1 n2 n3 a b) (gaussF n1 n2 n3 a b)) ^ 3 := by
  rw [jacGauss_unfold, jacCore_eq_triple _ _ _ hF, triple_gauss, abs_mul]


/-- **the integrand IS the area element of the code's parametrisation (triangular rules)**: the map
    `P(a,b) = F(a,b)/|F(a,b)|`, `F = a n₁ + b n₂ + (1−a−b) n₃`, of the flat triangle onto the sphere has
    partial derivatives `∂ₐP`, `∂_bP` (component-wise `HasDerivAt`), and `2·jacBary = |∂ₐP × ∂_bP|` — the
    factor 2 is the area of the reference triangle that the weights (`Σ w = 1`) are normalised by. -/
theorem bary_area_element (n1 n2 n3 : V3 ℝ) (a b : ℝ)
    (hF : 0 < dot (baryF n1 n2 n3 a b) (baryF n1 n2 n3 a b)) :
    ∃ Pa Pb : V3 ℝ,
      (HasDerivAt (fun t => (nrm Real.sqrt (baryF n1 n2 n3 (a + t) b)).x) Pa.x 0 ∧
       HasDerivAt (fun t => (nrm Real.sqrt (baryF n1 n2 n3 (a + t) b)).y) Pa.y 0 ∧
       HasDerivAt (fun t => (nrm Real.sqrt (baryF n1 n2 n3 (a + t) b)).z) Pa.z 0) ∧
      (HasDerivAt (fun t => (nrm Real.sqrt (baryF n1 n2 n3 a (b + t))).x) Pb.x 0 ∧
       HasDerivAt (fun t => (nrm Real.sqrt (baryF n1 n2 n3 a (b + t))).y) Pb.y 0 ∧
       HasDerivAt (fun t => (nrm Real.sqrt (baryF n1 n2 n3 a (b + t))).z) Pb.z 0) ∧
      2 * jacBary Real.sqrt n1 n2 n3 a b = Real.sqrt (dot (cross Pa Pb) (cross Pa Pb)) := by
  refine ⟨tang Real.sqrt (baryF n1 n2 n3 a b) (vsub n1 n3), tang Real.sqrt (baryF n1 n2 n3 a b) (vsub n2 n3), ?_, ?_, ?_⟩
  · simp only [baryF_partial_a]; exact normalize_hasDerivAt _ _ hF
  · simp only [baryF_partial_b]; exact normalize_hasDerivAt _ _ hF
  · rw [jacBary_unfold, jacCore_is_cross_norm]; ring

/-- **… and of the Gauss rules** on the collapsed square `F = (1−b)((1−a) n₁ + a n₂) + b n₃`:
    `jacGauss = |∂ₐP × ∂_bP|`. -/
theorem gauss_area_element (n1 n2 n3 : V3 ℝ) (a b : ℝ)
    (hF : 0 < dot (gaussF n1 n2 n3 a b) (gaussF n1 n2 n3 a b)) :
    ∃ Pa Pb : V3 ℝ,
      (HasDerivAt (fun t => (nrm Real.sqrt (gaussF n1 n2 n3 (a + t) b)).x) Pa.x 0 ∧
       HasDerivAt (fun t => (nrm Real.sqrt (gaussF n1 n2 n3 (a + t) b)).y) Pa.y 0 ∧
       HasDerivAt (fun t => (nrm Real.sqrt (gaussF n1 n2 n3 (a + t) b)).z) Pa.z 0) ∧
      (HasDerivAt (fun t => (nrm Real.sqrt (gaussF n1 n2 n3 a (b + t))).x) Pb.x 0 ∧
       HasDerivAt (fun t => (nrm Real.sqrt (gaussF n1 n2 n3 a (b + t))).y) Pb.y 0 ∧
       HasDerivAt (fun t => (nrm Real.sqrt (gaussF n1 n2 n3 a (b + t))).z) Pb.z 0) ∧
      jacGauss Real.sqrt n1 n2 n3 a b = Real.sqrt (dot (cross Pa Pb) (cross Pa Pb)) := by
  refine ⟨tang Real.sqrt (gaussF n1 n2 n3 a b) (gaussDa n1 n2 b), tang Real.sqrt (gaussF n1 n2 n3 a b) (gaussDb n1 n2 n3 a), ?_, ?_, ?_⟩
  · simp only [gaussF_partial_a]; exact normalize_hasDerivAt _ _ hF
  · simp only [gaussF_partial_b]; exact normalize_hasDerivAt _ _ hF
  · rw [jacGauss_unfold, jacCore_is_cross_norm]

-- non-vacuity: the octant triangle at its centroid meets the hypothesis, its triple product is 1, and the
-- density there is 1 / (2 |F|³) with |F|² = 1/3
example : 0 < dot (baryF (⟨1, 0, 0⟩ : V3 ℝ) ⟨0, 1, 0⟩ ⟨0, 0, 1⟩ (1/3) (1/3)) (baryF ⟨1, 0, 0⟩ ⟨0, 1, 0⟩ ⟨0, 0, 1⟩ (1/3) (1/3))
    ∧ triple (⟨1, 0, 0⟩ : V3 ℝ) ⟨0, 1, 0⟩ ⟨0, 0, 1⟩ = 1 := by
  constructor <;> norm_num [dot, baryF, triple, cross]
example : jacBary Real.sqrt ⟨1, 0, 0⟩ ⟨0, 1, 0⟩ ⟨0, 0, 1⟩ (1/3) (1/3) = 1 / (2 * Real.sqrt (1/3) ^ 3) := by
  rw [jacBary_closed _ _ _ _ _ (by norm_num [dot, baryF])]
  norm_num [dot, baryF, triple, cross]
example : 0 < dot (gaussF (⟨1, 0, 0⟩ : V3 ℝ) ⟨0, 1, 0⟩ ⟨0, 0, 1⟩ (1/2) (1/2)) (gaussF ⟨1, 0, 0⟩ ⟨0, 1, 0⟩ ⟨0, 0, 1⟩ (1/2) (1/2)) := by
  norm_num [dot, gaussF]


end UxVerif.C05
