/-
  C11 — Neighbour queries agree with brute-force search under the tree's metric.

  Part A (any key type, any total transitive comparison — in particular IEEE `≤` on the finite
          floats the driver executes): the brute-force model meets the k-nearest / radius
          specification for distance lists of ANY length, the Boolean spec the driver evaluates on
          the implementation's output reflects the `Prop` spec, and with no ties the spec has
          exactly one solution (so "exact ties aside" is the only freedom).
  Part B (ℝ): chord = 2·sin(θ/2) is strictly increasing on [0, π]; the Cartesian chord between two
          (lat, lon) points is 2·sin(haversine/2) and the haversine value is the angle
          arccos(u·v) ∈ [0, π]; hence Cartesian trees rank elements exactly like the great-circle
          metric.  Units: deg↔rad round trip, reported-degree radius test ⇔ radian test on the
          tree, planar (lat, lon) distance is homogeneous (degrees in ⇒ degrees out).
  Part D (any linearly ordered field): ties and near-ties — an index list passes the exact
          specification IFF it is a valid k-nearest answer under the ties present (same distance at
          every position as brute force: knn_ties_profile, knn_spec_of_profile); an index list that
          passes the specification up to a tolerance eps has the brute-force distance profile up to
          eps at every position (knn_tol_profile) — this is the criterion the driver applies to rows
          with near-ties, which are therefore JUDGED, not dropped; radius_tol_sandwich likewise.
  Part C: the tree cache of `get_ball_tree` / `get_kd_tree` — for the repaired comparison the
          wrapper handed back reflects the request after ANY history; the code as it stands
          fails on a two-request history; the as-is spherical k-d tree radius is in the wrong unit.
-/
import Mathlib.Analysis.SpecialFunctions.Trigonometric.Inverse
import Mathlib.Analysis.SpecialFunctions.Sqrt
import Mathlib.Tactic.Ring
import Mathlib.Tactic.Linarith
import Mathlib.Tactic.FieldSimp
import Mathlib.Tactic.LinearCombination
import Mathlib.Tactic.NormNum
import Mathlib.Algebra.Order.Field.Basic
import UxVerif.Lemmas.Knn

namespace UxVerif.C11
open UxVerif UxVerif.Knn

/-! ## Part A — brute force meets the specification -/

section Search
variable {K : Type}

/-- The k-nearest specification on index lists (what `knnSpecB` decides). -/
structure KnnSpec (le : K → K → Bool) (D : List K) (k : Nat) (out : List Nat) : Prop where
  len : out.length = min k D.length
  range : ∀ i ∈ out, i < D.length
  nodup : out.Nodup
  /-- nearest first -/
  sorted : out.Pairwise (fun i j => leO le D[i]? D[j]? = true)
  /-- every element not returned is at least as far as every returned one -/
  minimal : ∀ i ∈ out, ∀ j, j < D.length → j ∉ out → leO le D[i]? D[j]? = true

/-- The radius specification: `j` is returned iff `D[j] ≤ r`. -/
structure RadiusSpec (le : K → K → Bool) (D : List K) (r : K) (out : List Nat) : Prop where
  range : ∀ i ∈ out, i < D.length
  nodup : out.Nodup
  iff : ∀ j, j < D.length → (j ∈ out ↔ leO le D[j]? (some r) = true)

/-- the Boolean the driver evaluates on the implementation's output IS the specification -/
theorem knnSpecB_iff (le : K → K → Bool) (D : List K) (k : Nat) (out : List Nat) :
    knnSpecB le D k out = true ↔ KnnSpec le D k out := by
  unfold knnSpecB sortedIdx
  simp only [Bool.and_eq_true, beq_iff_eq, List.all_eq_true, decide_eq_true_eq, pairwiseB_iff,
    Bool.or_eq_true, List.contains_iff_mem, List.mem_range]
  constructor
  · rintro ⟨⟨⟨⟨h1, h2⟩, h3⟩, h4⟩, h5⟩
    refine ⟨h1, h2, h3, h4, ?_⟩
    intro i hi j hj hnot
    rcases h5 i hi j hj with h | h
    · exact absurd h hnot
    · exact h
  · rintro ⟨h1, h2, h3, h4, h5⟩
    refine ⟨⟨⟨⟨h1, h2⟩, h3⟩, h4⟩, ?_⟩
    intro i hi j hj
    by_cases hm : j ∈ out
    · exact Or.inl hm
    · exact Or.inr (h5 i hi j hj hm)

theorem radiusSpecB_iff (le : K → K → Bool) (D : List K) (r : K) (out : List Nat) :
    radiusSpecB le D r out = true ↔ RadiusSpec le D r out := by
  unfold radiusSpecB
  simp only [Bool.and_eq_true, List.all_eq_true, decide_eq_true_eq, List.mem_range, beq_iff_eq]
  constructor
  · rintro ⟨⟨h1, h2⟩, h3⟩
    refine ⟨h1, h2, ?_⟩
    intro j hj
    rw [← List.contains_iff_mem, h3 j hj]
  · rintro ⟨h1, h2, h3⟩
    refine ⟨⟨h1, h2⟩, ?_⟩
    intro j hj
    have := h3 j hj
    rw [← List.contains_iff_mem] at this
    cases hc : out.contains j <;> cases hl : leO le D[j]? (some r) <;> simp_all

/-- length of the answer: `min k n` for ANY list length -/
theorem knn_length (le : K → K → Bool) (D : List K) (k : Nat) :
    (bruteKnn le D k).length = min k D.length := by
  unfold bruteKnn
  rw [List.length_take, (sortBy_perm le _).length_eq, List.length_zipIdx]

/-- every returned pair is an element with its own distance -/
theorem knn_mem (le : K → K → Bool) (D : List K) (k : Nat) (p : K × Nat)
    (h : p ∈ bruteKnn le D k) : D[p.2]? = some p.1 := by
  have h1 : p ∈ sortBy le D.zipIdx := List.mem_of_mem_take h
  exact List.mem_zipIdx_iff_getElem?.mp ((sortBy_perm le _).mem_iff.mp h1)

/-- no element is returned twice -/
theorem knn_nodup (le : K → K → Bool) (D : List K) (k : Nat) :
    ((bruteKnn le D k).map Prod.snd).Nodup := by
  unfold bruteKnn
  rw [List.map_take]
  apply List.Nodup.sublist (List.take_sublist _ _)
  rw [((sortBy_perm le D.zipIdx).map Prod.snd).nodup_iff, List.zipIdx_map_snd]
  exact List.nodup_range' 1

/-- **nearest first** -/
theorem knn_sorted {le : K → K → Bool} (htot : Total le) (htr : Trans le) (D : List K) (k : Nat) :
    (bruteKnn le D k).Pairwise (fun a b => le a.1 b.1 = true) :=
  List.Pairwise.sublist (List.take_sublist _ _) (sortBy_sorted htot htr _)

/-- **minimality**: every element that is NOT returned is at least as far as every returned one -/
theorem knn_minimal {le : K → K → Bool} (htot : Total le) (htr : Trans le) (D : List K) (k : Nat)
    (p : K × Nat) (hp : p ∈ bruteKnn le D k) (j : Nat) (d : K) (hj : D[j]? = some d)
    (hnot : j ∉ (bruteKnn le D k).map Prod.snd) : le p.1 d = true := by
  unfold bruteKnn at hp hnot
  have hs := sortBy_sorted htot htr D.zipIdx
  unfold SortedK at hs
  rw [← List.take_append_drop k (sortBy le D.zipIdx)] at hs
  have hcross := (List.pairwise_append.mp hs).2.2
  have hmem : (d, j) ∈ sortBy le D.zipIdx :=
    (sortBy_perm le _).mem_iff.mpr (List.mem_zipIdx_iff_getElem?.mpr hj)
  rw [← List.take_append_drop k (sortBy le D.zipIdx)] at hmem
  rcases List.mem_append.mp hmem with h | h
  · exact absurd (List.mem_map.mpr ⟨(d, j), h, rfl⟩) hnot
  · exact hcross p hp (d, j) h

/-- **refinement**: the brute-force model satisfies the k-nearest specification for every
    distance list and every `k` -/
theorem knn_meets_spec {le : K → K → Bool} (htot : Total le) (htr : Trans le) (D : List K) (k : Nat) :
    KnnSpec le D k ((bruteKnn le D k).map Prod.snd) := by
  have hget : ∀ p ∈ bruteKnn le D k, D[p.2]? = some p.1 := knn_mem le D k
  refine ⟨by rw [List.length_map, knn_length], ?_, knn_nodup le D k, ?_, ?_⟩
  · intro i hi
    obtain ⟨p, hp, rfl⟩ := List.mem_map.mp hi
    have := hget p hp
    exact (List.getElem?_eq_some_iff.mp this).1
  · rw [List.pairwise_map]
    refine List.Pairwise.imp_of_mem ?_ (knn_sorted htot htr D k)
    intro a b ha hb hab
    rw [hget a ha, hget b hb]; exact hab
  · intro i hi j hj hnot
    obtain ⟨p, hp, rfl⟩ := List.mem_map.mp hi
    obtain ⟨d, hd⟩ : ∃ d, D[j]? = some d := ⟨D[j], List.getElem?_eq_getElem hj⟩
    rw [hget p hp, hd]
    exact knn_minimal htot htr D k p hp j d hd hnot

/-- **radius search**: `(d, i)` is returned iff `i` is an element, `d` its distance and `d ≤ r` -/
theorem radius_iff (le : K → K → Bool) (D : List K) (r : K) (p : K × Nat) :
    p ∈ bruteRadius le D r ↔ D[p.2]? = some p.1 ∧ le p.1 r = true := by
  unfold bruteRadius
  rw [List.mem_filter, List.mem_zipIdx_iff_getElem?]

theorem radius_meets_spec (le : K → K → Bool) (D : List K) (r : K) :
    RadiusSpec le D r ((bruteRadius le D r).map Prod.snd) := by
  refine ⟨?_, ?_, ?_⟩
  · intro i hi
    obtain ⟨p, hp, rfl⟩ := List.mem_map.mp hi
    exact (List.getElem?_eq_some_iff.mp ((radius_iff le D r p).mp hp).1).1
  · unfold bruteRadius
    have : (List.map Prod.snd (D.zipIdx.filter fun p => le p.1 r)).Sublist (D.zipIdx.map Prod.snd) :=
      List.Sublist.map _ List.filter_sublist
    apply List.Nodup.sublist this
    rw [List.zipIdx_map_snd]; exact List.nodup_range' 1
  · intro j hj
    have hd : D[j]? = some D[j] := List.getElem?_eq_getElem hj
    constructor
    · intro h
      obtain ⟨p, hp, rfl⟩ := List.mem_map.mp h
      have := (radius_iff le D r p).mp hp
      rw [this.1]; exact this.2
    · intro h
      rw [hd] at h
      exact List.mem_map.mpr ⟨(D[j], j), (radius_iff le D r _).mpr ⟨hd, h⟩, rfl⟩

/-- re-keying the distances by a map that preserves the comparison ON THE DISTANCES THAT OCCUR
    does not change which elements are returned, nor their order -/
theorem knn_rekey {K' : Type} (le : K → K → Bool) (le' : K' → K' → Bool) (f : K → K') (D : List K)
    (k : Nat) (h : ∀ a ∈ D, ∀ b ∈ D, le' (f a) (f b) = le a b) :
    (bruteKnn le' (D.map f) k).map Prod.snd = (bruteKnn le D k).map Prod.snd := by
  unfold bruteKnn
  have hz : (D.map f).zipIdx = D.zipIdx.map (fun p => (f p.1, p.2)) := by
    rw [List.zipIdx_map]; rfl
  rw [hz, sortBy_map le le' f]
  · rw [← List.map_take, List.map_map]; rfl
  · intro x hx y hy
    have hx' := List.mem_zipIdx_iff_getElem?.mp hx
    have hy' := List.mem_zipIdx_iff_getElem?.mp hy
    exact h _ (List.mem_of_getElem? hx') _ (List.mem_of_getElem? hy')

theorem radius_rekey {K' : Type} (le : K → K → Bool) (le' : K' → K' → Bool) (f : K → K') (D : List K)
    (r : K) (h : ∀ a ∈ D, le' (f a) (f r) = le a r) :
    (bruteRadius le' (D.map f) (f r)).map Prod.snd = (bruteRadius le D r).map Prod.snd := by
  unfold bruteRadius
  have hz : (D.map f).zipIdx = D.zipIdx.map (fun p => (f p.1, p.2)) := by
    rw [List.zipIdx_map]; rfl
  rw [hz, List.filter_map, List.map_map]
  have : (Prod.snd ∘ fun p : K × Nat => (f p.1, p.2)) = Prod.snd := rfl
  rw [this]
  congr 1
  apply List.filter_congr
  intro x hx
  exact h _ (List.mem_of_getElem? (List.mem_zipIdx_iff_getElem?.mp hx))

end Search

/-- no two distinct elements are equidistant from the query ("exact ties aside") -/
def NoTies {K : Type} (le : K → K → Bool) (D : List K) : Prop :=
  ∀ i j, i < D.length → j < D.length →
    leO le D[i]? D[j]? = true → leO le D[j]? D[i]? = true → i = j

/-- without ties the specification has at most one solution -/
theorem spec_unique {K : Type} {le : K → K → Bool} (D : List K) (k : Nat) (A B : List Nat)
    (hnt : NoTies le D) (hA : KnnSpec le D k A) (hB : KnnSpec le D k B) : A = B := by
  have sub : ∀ {A B : List Nat}, KnnSpec le D k A → KnnSpec le D k B → A ⊆ B := by
    intro A B hA hB i hi
    by_contra hni
    have hnot : ¬ B ⊆ A := by
      intro hBA
      have hp : B.Perm A :=
        (List.subperm_of_subset hB.nodup hBA).perm_of_length_le
          (by rw [hA.len, hB.len])
      exact hni (hp.mem_iff.mpr hi)
    obtain ⟨j, hjB, hjA⟩ : ∃ j, j ∈ B ∧ j ∉ A := by
      by_contra h
      apply hnot
      intro j hj
      by_contra hjA
      exact h ⟨j, hj, hjA⟩
    have h1 := hA.minimal i hi j (hB.range j hjB) hjA
    have h2 := hB.minimal j hjB i (hA.range i hi) hni
    have := hnt i j (hA.range i hi) (hB.range j hjB) h1 h2
    subst this; exact hni hjB
  have hperm : A.Perm B :=
    (List.perm_ext_iff_of_nodup hA.nodup hB.nodup).mpr
      (fun a => ⟨fun h => sub hA hB h, fun h => sub hB hA h⟩)
  exact List.Perm.eq_of_pairwise (le := fun i j => leO le D[i]? D[j]? = true)
    (fun a b ha hb h1 h2 => hnt a b (hA.range a ha) (hB.range b hb) h1 h2) hA.sorted hB.sorted hperm

/-- **exact ties aside, the answer is determined**: any output accepted by the specification is
    the brute-force answer, element for element and in the same order -/
theorem knn_unique {K : Type} {le : K → K → Bool} (htot : Total le) (htr : Trans le) (D : List K)
    (k : Nat) (out : List Nat) (hnt : NoTies le D) (h : KnnSpec le D k out) :
    out = (bruteKnn le D k).map Prod.snd :=
  spec_unique D k _ _ hnt h (knn_meets_spec htot htr D k)

/-- the radius answer is determined as a set (no tie condition needed) -/
theorem radius_unique {K : Type} {le : K → K → Bool} (D : List K) (r : K) (out : List Nat)
    (h : RadiusSpec le D r out) : ∀ j, j ∈ out ↔ j ∈ (bruteRadius le D r).map Prod.snd := by
  intro j
  have hm := radius_meets_spec le D r
  constructor
  · intro hj; exact (hm.iff j (h.range j hj)).mpr ((h.iff j (h.range j hj)).mp hj)
  · intro hj; exact (h.iff j (hm.range j hj)).mpr ((hm.iff j (hm.range j hj)).mp hj)

/-! non-vacuity: a five-element distance list over `Int`, k = 3 -/
def leI (a b : Int) : Bool := decide (a ≤ b)
theorem leI_total : Total leI := by intro a b; simp only [leI, decide_eq_true_eq]; omega
theorem leI_trans : Trans leI := by intro a b c; simp only [leI, decide_eq_true_eq]; omega
example : (bruteKnn leI [5, 1, 4, 1, 9] 3).map Prod.snd = [1, 3, 2] := by decide
example : knnSpecB leI [5, 1, 4, 1, 9] 3 [1, 3, 2] = true := by decide
example : knnSpecB leI [5, 1, 4, 1, 9] 3 [3, 1, 2] = true := by decide   -- the other tie order
example : knnSpecB leI [5, 1, 4, 1, 9] 3 [1, 3, 0] = false := by decide  -- a farther element
example : knnSpecB leI [5, 1, 4, 1, 9] 3 [1, 2, 3] = false := by decide  -- not nearest first
example : (bruteRadius leI [5, 1, 4, 1, 9] 4).map Prod.snd = [1, 2, 3] := by decide
example : radiusSpecB leI [5, 1, 4, 1, 9] 4 [3, 2, 1] = true := by decide
example : radiusSpecB leI [5, 1, 4, 1, 9] 4 [3, 1] = false := by decide


/-! ### the wrapper level: `query` / `query_radius` of the model meet the specification -/

section Wrapper
variable {K : Type} [Add K] [Sub K] [Mul K] [Div K] [OfNat K 0] [OfNat K 2] [OfNat K 180]

/-- **`query` refines the specification**: whenever the model answers, `k` is in `1..n`, the
    indices satisfy the k-nearest specification for the tree-unit distances of the prepared
    query, and every reported distance is the unit conversion of that element's distance. -/
theorem model_query_spec (F : Fns K) {le : K → K → Bool} (htot : Total le) (htr : Trans le)
    (c : Cfg) (els : List (List K)) (q : List K) (k : Nat) (ans : List (K × Nat))
    (h : modelQuery F le c els q k = some ans) :
    ∃ D, distances F c els q = some D ∧ 1 ≤ k ∧ k ≤ els.length ∧ D.length = els.length ∧
      KnnSpec le D k (ans.map Prod.snd) ∧
      ∀ p ∈ ans, ∃ d, D[p.2]? = some d ∧ p.1 = reportDist F c.sys c.inRad d := by
  unfold modelQuery at h
  split at h
  · cases h
  · rename_i hk
    simp only [Bool.or_eq_true, decide_eq_true_eq, not_or, Nat.not_lt] at hk
    cases hD : distances F c els q with
    | none => rw [hD] at h; cases h
    | some D =>
      rw [hD] at h
      simp only [Option.map_some, Option.some.injEq] at h
      subst h
      have hlen : D.length = els.length := by
        unfold distances at hD
        cases hp : prepQuery F c.sys c.metric c.inRad q with
        | none => rw [hp] at hD; cases hD
        | some pq =>
          rw [hp] at hD
          simp only [Option.map_some, Option.some.injEq] at hD
          rw [← hD, List.length_map]
      refine ⟨D, rfl, hk.1, hk.2, hlen, ?_, ?_⟩
      · rw [List.map_map]
        exact knn_meets_spec htot htr D k
      · intro p hp
        obtain ⟨p0, hp0, rfl⟩ := List.mem_map.mp hp
        exact ⟨p0.1, knn_mem le D k p0 hp0, rfl⟩

/-- **guards**: `k < 1` or `k > n` is rejected whatever the query -/
theorem model_query_guard (F : Fns K) (le : K → K → Bool) (c : Cfg) (els : List (List K))
    (q : List K) (k : Nat) (h : k < 1 ∨ els.length < k) : modelQuery F le c els q k = none := by
  unfold modelQuery
  rw [if_pos]
  simp only [Bool.or_eq_true, decide_eq_true_eq]
  exact h

/-- **`query_radius` refines the specification** (in the tree's unit, for the radius the wrapper
    hands to the tree) -/
theorem model_radius_spec (F : Fns K) (le : K → K → Bool) (v : Variant)
    (c : Cfg) (els : List (List K)) (q : List K) (r : K) (ans : List (K × Nat))
    (h : modelRadius F le v c els q r = some ans) :
    ∃ D, distances F c els q = some D ∧ le 0 r = true ∧
      RadiusSpec le D (radiusIn F v c.kind c.sys r) (ans.map Prod.snd) ∧
      ∀ p ∈ ans, ∃ d, D[p.2]? = some d ∧ p.1 = reportDist F c.sys c.inRad d := by
  unfold modelRadius at h
  split at h
  · cases h
  · rename_i hr
    simp only [Bool.not_eq_eq_eq_not] at hr
    cases hD : distances F c els q with
    | none => rw [hD] at h; cases h
    | some D =>
      rw [hD] at h
      simp only [Option.map_some, Option.some.injEq] at h
      subst h
      refine ⟨D, rfl, by simpa using hr, ?_, ?_⟩
      · rw [List.map_map]
        exact radius_meets_spec le D _
      · intro p hp
        obtain ⟨p0, hp0, rfl⟩ := List.mem_map.mp hp
        exact ⟨p0.1, ((radius_iff le D _ p0).mp hp0).1, rfl⟩

/-- a negative radius is rejected -/
theorem model_radius_guard (F : Fns K) (le : K → K → Bool) (v : Variant) (c : Cfg)
    (els : List (List K)) (q : List K) (r : K) (h : le 0 r = false) :
    modelRadius F le v c els q r = none := by
  unfold modelRadius
  rw [if_pos]; rw [h]; rfl

end Wrapper

/-! ## Part B — metrics and units over ℝ -/

section Reals
open Real

/-- the real-number instance of the primitives (what libm approximates) -/
noncomputable def FR : Fns ℝ :=
  { sin := Real.sin, cos := Real.cos, asin := Real.arcsin, sqrt := Real.sqrt,
    abs := fun x => |x|, max := max, pi := Real.pi }

noncomputable def leR (a b : ℝ) : Bool := decide (a ≤ b)
theorem leR_total : Total leR := by
  intro a b; simp only [leR, decide_eq_true_eq]; exact le_total a b
theorem leR_trans : Trans leR := by
  intro a b c; simp only [leR, decide_eq_true_eq]; exact le_trans

/-- chord length subtending the angle θ on the unit sphere -/
noncomputable def chord (θ : ℝ) : ℝ := 2 * Real.sin (θ / 2)

/-- **chord = 2·sin(θ/2) is strictly increasing on [0, π]** -/
theorem chord_mono (θ₁ θ₂ : ℝ) (h1 : 0 ≤ θ₁) (h1' : θ₁ ≤ π) (h2 : 0 ≤ θ₂) (h2' : θ₂ ≤ π) :
    chord θ₁ ≤ chord θ₂ ↔ θ₁ ≤ θ₂ := by
  have hm := Real.strictMonoOn_sin.le_iff_le (a := θ₁ / 2) (b := θ₂ / 2)
    ⟨by linarith, by linarith⟩ ⟨by linarith, by linarith⟩
  unfold chord
  constructor
  · intro h
    have := hm.mp (by linarith)
    linarith
  · intro h
    have := hm.mpr (by linarith)
    linarith

theorem chord_strict_mono (θ₁ θ₂ : ℝ) (h1 : 0 ≤ θ₁) (h1' : θ₁ ≤ π) (h2 : 0 ≤ θ₂) (h2' : θ₂ ≤ π) :
    chord θ₁ < chord θ₂ ↔ θ₁ < θ₂ := by
  rw [← not_le, ← not_le, chord_mono θ₂ θ₁ h2 h2' h1 h1']

/-- **chord-nearest = great-circle-nearest**: ranking the elements by chord length returns the
    same elements in the same order as ranking them by the angle, for every list of angles in
    [0, π], every `k` -/
theorem chord_nearest_eq_arc_nearest (Θ : List ℝ) (k : Nat) (h : ∀ θ ∈ Θ, 0 ≤ θ ∧ θ ≤ π) :
    (bruteKnn leR (Θ.map chord) k).map Prod.snd = (bruteKnn leR Θ k).map Prod.snd := by
  apply knn_rekey
  intro a ha b hb
  simp only [leR]
  rw [decide_eq_decide]
  exact chord_mono a b (h a ha).1 (h a ha).2 (h b hb).1 (h b hb).2

/-- and the same elements fall within a chord radius as within the corresponding angle -/
theorem chord_radius_eq_arc_radius (Θ : List ℝ) (ρ : ℝ) (hρ : 0 ≤ ρ ∧ ρ ≤ π)
    (h : ∀ θ ∈ Θ, 0 ≤ θ ∧ θ ≤ π) :
    (bruteRadius leR (Θ.map chord) (chord ρ)).map Prod.snd = (bruteRadius leR Θ ρ).map Prod.snd := by
  apply radius_rekey
  intro a ha
  simp only [leR]
  rw [decide_eq_decide]
  exact chord_mono a ρ (h a ha).1 (h a ha).2 hρ.1 hρ.2

theorem sin_sq_half' (x : ℝ) : Real.sin (x / 2) ^ 2 = (1 - Real.cos x) / 2 := by
  have h1 := Real.cos_two_mul (x / 2)
  rw [show 2 * (x / 2) = x by ring] at h1
  have h2 := Real.sin_sq_add_cos_sq (x / 2)
  linarith

/-- squared Cartesian distance of two (lat, lon) points = 4 × the haversine argument -/
theorem chord_sq_eq_havArg (φ₁ l₁ φ₂ l₂ : ℝ) :
    Knn.sum (List.zipWith (fun x y => Knn.sq (x - y)) (xyzOf FR φ₁ l₁) (xyzOf FR φ₂ l₂))
      = 4 * havArg FR φ₁ l₁ φ₂ l₂ := by
  simp only [xyzOf, FR, havArg, Knn.sum, Knn.sq, List.zipWith_cons_cons, List.zipWith_nil_right,
    List.foldr_cons, List.foldr_nil]
  have e1 := sin_sq_half' (φ₁ - φ₂)
  have e2 := sin_sq_half' (l₁ - l₂)
  rw [Real.cos_sub] at e1 e2
  have a1 := Real.sin_sq_add_cos_sq φ₁
  have a2 := Real.sin_sq_add_cos_sq φ₂
  have b1 := Real.sin_sq_add_cos_sq l₁
  have b2 := Real.sin_sq_add_cos_sq l₂
  rw [pow_two] at e1 e2
  rw [e1, e2]
  linear_combination (Real.cos φ₁) ^ 2 * b1 + (Real.cos φ₂) ^ 2 * b2 + a1 + a2

theorem chord_sq_expanded (φ₁ l₁ φ₂ l₂ : ℝ) :
    (Real.cos φ₁ * Real.cos l₁ - Real.cos φ₂ * Real.cos l₂) * (Real.cos φ₁ * Real.cos l₁ - Real.cos φ₂ * Real.cos l₂)
      + ((Real.cos φ₁ * Real.sin l₁ - Real.cos φ₂ * Real.sin l₂) * (Real.cos φ₁ * Real.sin l₁ - Real.cos φ₂ * Real.sin l₂)
        + ((Real.sin φ₁ - Real.sin φ₂) * (Real.sin φ₁ - Real.sin φ₂) + 0))
      = 4 * havArg FR φ₁ l₁ φ₂ l₂ := chord_sq_eq_havArg φ₁ l₁ φ₂ l₂

theorem dot_expanded (φ₁ l₁ φ₂ l₂ : ℝ) :
    Knn.sum (List.zipWith (fun x y => x * y) (xyzOf FR φ₁ l₁) (xyzOf FR φ₂ l₂))
      = Real.cos φ₁ * Real.cos l₁ * (Real.cos φ₂ * Real.cos l₂)
        + (Real.cos φ₁ * Real.sin l₁ * (Real.cos φ₂ * Real.sin l₂) + (Real.sin φ₁ * Real.sin φ₂ + 0)) := rfl

/-- the haversine argument lies in [0, 1] -/
theorem havArg_range (φ₁ l₁ φ₂ l₂ : ℝ) :
    0 ≤ havArg FR φ₁ l₁ φ₂ l₂ ∧ havArg FR φ₁ l₁ φ₂ l₂ ≤ 1 := by
  have h := chord_sq_expanded φ₁ l₁ φ₂ l₂
  have a1 := Real.sin_sq_add_cos_sq φ₁
  have a2 := Real.sin_sq_add_cos_sq φ₂
  have b1 := Real.sin_sq_add_cos_sq l₁
  have b2 := Real.sin_sq_add_cos_sq l₂
  constructor
  · nlinarith [mul_self_nonneg (Real.cos φ₁ * Real.cos l₁ - Real.cos φ₂ * Real.cos l₂),
      mul_self_nonneg (Real.cos φ₁ * Real.sin l₁ - Real.cos φ₂ * Real.sin l₂),
      mul_self_nonneg (Real.sin φ₁ - Real.sin φ₂)]
  · have hs : (Real.cos φ₁ * Real.cos l₁ + Real.cos φ₂ * Real.cos l₂) ^ 2
        + (Real.cos φ₁ * Real.sin l₁ + Real.cos φ₂ * Real.sin l₂) ^ 2
        + (Real.sin φ₁ + Real.sin φ₂) ^ 2 = 4 - 4 * havArg FR φ₁ l₁ φ₂ l₂ := by
      linear_combination 2 * (Real.cos φ₁) ^ 2 * b1 + 2 * (Real.cos φ₂) ^ 2 * b2 + 2 * a1 + 2 * a2 - h
    nlinarith [sq_nonneg (Real.cos φ₁ * Real.cos l₁ + Real.cos φ₂ * Real.cos l₂),
      sq_nonneg (Real.cos φ₁ * Real.sin l₁ + Real.cos φ₂ * Real.sin l₂),
      sq_nonneg (Real.sin φ₁ + Real.sin φ₂)]

/-- the haversine distance of two (lat, lon) rows is an angle in [0, π] -/
theorem hav_range (φ₁ l₁ φ₂ l₂ : ℝ) :
    0 ≤ hav FR [φ₁, l₁] [φ₂, l₂] ∧ hav FR [φ₁, l₁] [φ₂, l₂] ≤ π := by
  simp only [hav]
  have h0 : 0 ≤ Real.sqrt (havArg FR φ₁ l₁ φ₂ l₂) := Real.sqrt_nonneg _
  constructor
  · have := Real.arcsin_nonneg.mpr h0
    show 0 ≤ 2 * Real.arcsin (Real.sqrt (havArg FR φ₁ l₁ φ₂ l₂))
    linarith
  · have := Real.arcsin_le_pi_div_two (Real.sqrt (havArg FR φ₁ l₁ φ₂ l₂))
    show 2 * Real.arcsin (Real.sqrt (havArg FR φ₁ l₁ φ₂ l₂)) ≤ π
    linarith

/-- **the Cartesian (chord) distance between two (lat, lon) points is 2·sin(haversine/2)** -/
theorem chord_eq_chord_of_hav (φ₁ l₁ φ₂ l₂ : ℝ) :
    l2 FR (xyzOf FR φ₁ l₁) (xyzOf FR φ₂ l₂) = chord (hav FR [φ₁, l₁] [φ₂, l₂]) := by
  obtain ⟨h0, h1⟩ := havArg_range φ₁ l₁ φ₂ l₂
  unfold l2 chord
  rw [chord_sq_eq_havArg]
  simp only [hav]
  show Real.sqrt (4 * havArg FR φ₁ l₁ φ₂ l₂)
      = 2 * Real.sin (2 * Real.arcsin (Real.sqrt (havArg FR φ₁ l₁ φ₂ l₂)) / 2)
  rw [show 2 * Real.arcsin (Real.sqrt (havArg FR φ₁ l₁ φ₂ l₂)) / 2
      = Real.arcsin (Real.sqrt (havArg FR φ₁ l₁ φ₂ l₂)) by ring]
  rw [Real.sin_arcsin (by linarith [Real.sqrt_nonneg (havArg FR φ₁ l₁ φ₂ l₂)])
      (Real.sqrt_le_one.mpr h1)]
  rw [show (4 : ℝ) = 2 ^ 2 by norm_num, Real.sqrt_mul (by positivity), Real.sqrt_sq (by norm_num)]

/-- **haversine is the angle between the two unit vectors**: `hav = arccos (u · v)` -/
theorem haversine_eq_angle (φ₁ l₁ φ₂ l₂ : ℝ) :
    hav FR [φ₁, l₁] [φ₂, l₂]
      = Real.arccos (Knn.sum (List.zipWith (fun x y => x * y) (xyzOf FR φ₁ l₁) (xyzOf FR φ₂ l₂))) := by
  obtain ⟨r0, r1⟩ := hav_range φ₁ l₁ φ₂ l₂
  obtain ⟨h0, h1⟩ := havArg_range φ₁ l₁ φ₂ l₂
  rw [← Real.arccos_cos r0 r1]
  congr 1
  have hc := chord_sq_expanded φ₁ l₁ φ₂ l₂
  rw [dot_expanded]
  simp only [hav]
  show Real.cos (2 * Real.arcsin (Real.sqrt (havArg FR φ₁ l₁ φ₂ l₂))) = _
  rw [Real.cos_two_mul, Real.cos_arcsin, Real.sq_sqrt (by
    rw [Real.sq_sqrt h0]; linarith), Real.sq_sqrt h0]
  have a1 := Real.sin_sq_add_cos_sq φ₁
  have a2 := Real.sin_sq_add_cos_sq φ₂
  have b1 := Real.sin_sq_add_cos_sq l₁
  have b2 := Real.sin_sq_add_cos_sq l₂
  linear_combination (1 / 2) * hc - (1 / 2) * ((Real.cos φ₁) ^ 2 * b1 + (Real.cos φ₂) ^ 2 * b2 + a1 + a2)

/-- **Cartesian trees rank exactly like the haversine ball tree**: for elements and a query
    given as (lat, lon) in radians, the k nearest by chord length between the unit vectors are
    the k nearest by great-circle distance, in the same order (any number of elements). -/
theorem cartesian_knn_eq_haversine_knn (q : ℝ × ℝ) (els : List (ℝ × ℝ)) (k : Nat) :
    (bruteKnn leR (els.map (fun e => l2 FR (xyzOf FR q.1 q.2) (xyzOf FR e.1 e.2))) k).map Prod.snd
      = (bruteKnn leR (els.map (fun e => hav FR [q.1, q.2] [e.1, e.2])) k).map Prod.snd := by
  have : els.map (fun e => l2 FR (xyzOf FR q.1 q.2) (xyzOf FR e.1 e.2))
      = (els.map (fun e => hav FR [q.1, q.2] [e.1, e.2])).map chord := by
    rw [List.map_map]
    apply List.map_congr_left
    intro e _
    exact chord_eq_chord_of_hav q.1 q.2 e.1 e.2
  rw [this]
  apply chord_nearest_eq_arc_nearest
  intro θ hθ
  obtain ⟨e, _, rfl⟩ := List.mem_map.mp hθ
  exact hav_range q.1 q.2 e.1 e.2

/-! ### units -/

/-- **deg ↔ rad round trip** -/
theorem unit_roundtrip (x : ℝ) : r2d FR (d2r FR x) = x ∧ d2r FR (r2d FR x) = x := by
  have hp : Real.pi ≠ 0 := Real.pi_ne_zero
  constructor <;> (simp only [r2d, d2r, FR]; field_simp)

/-- a distance reported in degrees is within `r` degrees iff the tree-unit (radian) distance is
    within `deg2rad r` -/
theorem reported_le_iff (d r : ℝ) : r2d FR d ≤ r ↔ d ≤ d2r FR r := by
  simp only [r2d, d2r, FR]
  have hc : (0 : ℝ) < 180 / Real.pi := by positivity
  have : Real.pi / 180 = (180 / Real.pi)⁻¹ := by rw [inv_div]
  rw [this, ← div_eq_mul_inv, le_div_iff₀ hc]

theorem sum_sq_scale (c : ℝ) (a b : List ℝ) :
    Knn.sum (List.zipWith (fun x y => Knn.sq (x - y)) (a.map (· * c)) (b.map (· * c)))
      = c ^ 2 * Knn.sum (List.zipWith (fun x y => Knn.sq (x - y)) a b) := by
  induction a generalizing b with
  | nil => simp [Knn.sum]
  | cons x a ih =>
    cases b with
    | nil => simp [Knn.sum]
    | cons y b =>
      have := ih b
      simp only [Knn.sum, List.map_cons, List.zipWith_cons_cons, List.foldr_cons, Knn.sq] at this ⊢
      rw [this]; ring

/-- **planar (lat, lon) distance is reported in the unit of the inputs**: querying a spherical
    k-d tree in degrees gives the Euclidean distance of the degree pairs (rows of any width) -/
theorem planar_degrees (a b : List ℝ) :
    r2d FR (l2 FR (a.map (d2r FR)) (b.map (d2r FR))) = l2 FR a b := by
  have hpi := Real.pi_pos
  have hd : d2r FR = (· * (Real.pi / 180)) := by funext x; simp [d2r, FR]
  unfold l2
  rw [hd, sum_sq_scale]
  simp only [r2d, FR]
  rw [Real.sqrt_mul (by positivity), Real.sqrt_sq (by positivity)]
  field_simp

/-- **Cartesian trees on a grid stored at radius `R`**: the tree metric is the chord between the
    STORED points, `R` times the unit-sphere chord (rows of any width) -/
theorem cartesian_radius_scale (R : ℝ) (hR : 0 ≤ R) (a b : List ℝ) :
    l2 FR (a.map (· * R)) (b.map (· * R)) = R * l2 FR a b := by
  unfold l2
  rw [sum_sq_scale]
  simp only [FR]
  rw [Real.sqrt_mul (by positivity), Real.sqrt_sq hR]

/-- hence, for `R > 0`, the same elements are returned in the same order as on the unit sphere -/
theorem cartesian_radius_knn (R : ℝ) (hR : 0 < R) (q : List ℝ) (els : List (List ℝ)) (k : Nat) :
    (bruteKnn leR (els.map (fun e => l2 FR (q.map (· * R)) (e.map (· * R)))) k).map Prod.snd
      = (bruteKnn leR (els.map (fun e => l2 FR q e)) k).map Prod.snd := by
  have : els.map (fun e => l2 FR (q.map (· * R)) (e.map (· * R)))
      = (els.map (fun e => l2 FR q e)).map (fun d => R * d) := by
    rw [List.map_map]
    apply List.map_congr_left
    intro e _
    exact cartesian_radius_scale R hR.le q e
  rw [this]
  apply knn_rekey
  intro a _ b _
  simp only [leR]
  rw [decide_eq_decide]
  exact mul_le_mul_iff_of_pos_left hR

example : l2 FR ([1, 0, 0].map (· * (5 / 2))) ([0, 1, 0].map (· * (5 / 2))) = 5 / 2 * l2 FR [1, 0, 0] [0, 1, 0] :=
  cartesian_radius_scale (5 / 2) (by norm_num) _ _

/-- **documented unit, haversine ball tree, degrees**: the user's `(lon, lat)` query and the
    grid's `(lon, lat)` element, both in degrees, reach the haversine formula as
    `(lat, lon)` radians on both sides, and the result is reported in degrees. -/
theorem doc_ball_haversine_deg (lonq latq lone late : ℝ) :
    (distances FR ⟨.ball, .spherical, .haversine, false⟩ [[lone, late]] [lonq, latq]).map
        (List.map (reportDist FR .spherical false))
      = some [r2d FR (hav FR [d2r FR latq, d2r FR lonq] [d2r FR late, d2r FR lone])] := by
  simp [distances, prepQuery, treePoint, Knn.dist, reportDist]

/-- **documented unit, spherical k-d tree, degrees**: `(lat, lon)` query in degrees ⇒ the
    planar distance of the degree pairs. -/
theorem doc_kd_spherical_deg (latq lonq lone late : ℝ) :
    (distances FR ⟨.kd, .spherical, .l2, false⟩ [[lone, late]] [latq, lonq]).map
        (List.map (reportDist FR .spherical false))
      = some [l2 FR [latq, lonq] [late, lone]] := by
  have := planar_degrees [latq, lonq] [late, lone]
  simp only [List.map_cons, List.map_nil] at this
  simp [distances, prepQuery, treePoint, Knn.dist, reportDist, this]

/-- **documented unit, Cartesian trees**: the chord, untouched. -/
theorem doc_cartesian (kind : TreeKind) (inRad : Bool) (q e : List ℝ) (hq : q.length = 3) :
    (distances FR ⟨kind, .cartesian, .l2, inRad⟩ [e] q).map
        (List.map (reportDist FR .cartesian inRad))
      = some [l2 FR q e] := by
  simp [distances, prepQuery, treePoint, Knn.dist, reportDist, hq]

/-- **documented unit, radians**: with `in_radians=True` nothing is converted, in or out. -/
theorem doc_ball_haversine_rad (lonq latq lone late : ℝ) :
    (distances FR ⟨.ball, .spherical, .haversine, true⟩ [[lone, late]] [lonq, latq]).map
        (List.map (reportDist FR .spherical true))
      = some [hav FR [latq, lonq] [d2r FR late, d2r FR lone]] := by
  simp [distances, prepQuery, treePoint, Knn.dist, reportDist]

theorem doc_kd_spherical_rad (latq lonq lone late : ℝ) :
    (distances FR ⟨.kd, .spherical, .l2, true⟩ [[lone, late]] [latq, lonq]).map
        (List.map (reportDist FR .spherical true))
      = some [l2 FR [latq, lonq] [d2r FR late, d2r FR lone]] := by
  simp [distances, prepQuery, treePoint, Knn.dist, reportDist]

/-- non-vacuity of the [0, π] hypothesis of `chord_nearest_eq_arc_nearest` -/
example : ∀ θ ∈ [Real.pi, 0, Real.pi / 2], 0 ≤ θ ∧ θ ≤ Real.pi := by
  have := Real.pi_pos
  intro θ hθ
  simp only [List.mem_cons, List.not_mem_nil, or_false] at hθ
  rcases hθ with rfl | rfl | rfl <;> constructor <;> linarith

/-- **radius unit (repaired k-d tree, and the ball tree)**: on a spherical tree queried in
    degrees, an element is returned iff its REPORTED distance is at most `r` -/
theorem radius_unit_repaired (kind : TreeKind) (D : List ℝ) (r : ℝ) (i : Nat) :
    i ∈ (bruteRadius leR D (radiusIn FR .repaired kind .spherical r)).map Prod.snd
      ↔ ∃ d, D[i]? = some d ∧ reportDist FR .spherical false d ≤ r := by
  have hr : radiusIn FR .repaired kind .spherical r = d2r FR r := by cases kind <;> rfl
  rw [hr]
  simp only [reportDist, Bool.not_false, decide_true, Bool.and_self, if_true, reported_le_iff]
  constructor
  · intro h
    obtain ⟨p, hp, rfl⟩ := List.mem_map.mp h
    obtain ⟨h1, h2⟩ := (radius_iff leR D _ p).mp hp
    exact ⟨p.1, h1, by simpa [leR] using h2⟩
  · rintro ⟨d, h1, h2⟩
    exact List.mem_map.mpr ⟨(d, i), (radius_iff leR D _ _).mpr ⟨h1, by simpa [leR] using h2⟩, rfl⟩

/-- **the spherical k-d tree as it stands** reads `r` in radians while reporting degrees: the
    single element at tree distance 1 rad (57.3°) is returned for `r = 1`. -/
theorem asis_kd_radius_unit :
    ¬ (∀ (D : List ℝ) (r : ℝ) (i : Nat),
        i ∈ (bruteRadius leR D (radiusIn FR .asIs .kd .spherical r)).map Prod.snd
          ↔ ∃ d, D[i]? = some d ∧ reportDist FR .spherical false d ≤ r) := by
  intro h
  have h1 := (h [1] 1 0).mp (by simp [bruteRadius, radiusIn, leR])
  obtain ⟨d, hd, hle⟩ := h1
  simp only [List.getElem?_cons_zero, Option.some.injEq] at hd
  subst hd
  simp only [reportDist, Bool.not_false, decide_true, Bool.and_self, if_true, r2d, FR, one_mul] at hle
  have := Real.pi_le_four
  have hp := Real.pi_pos
  rw [div_le_iff₀ hp] at hle
  linarith

end Reals

/-! ## Part C — the tree cache of `Grid.get_ball_tree` / `Grid.get_kd_tree` -/

/-- wrapper invariant: every occupied slot was built from the slot's own element kind and the
    wrapper's system / metric, the current slot is occupied, and `_n_elements` is the size of the
    CURRENT element kind -/
def TreeOK (z : Sizes) (t : TreeObj) : Prop :=
  (∀ e b, t.slot e = some b → b = ⟨e, t.sys, t.metric⟩) ∧ (t.slot t.coords).isSome = true
    ∧ t.count = z.of t.coords

theorem newTree_fields (z : Sizes) (r : Req) :
    (newTree z r).coords = r.elem ∧ (newTree z r).sys = r.sys ∧ (newTree z r).metric = r.metric
      ∧ (newTree z r).count = z.of r.elem := by
  unfold newTree
  rw [setSlot_coords, setSlot_sys, setSlot_metric, setSlot_count]
  exact ⟨rfl, rfl, rfl, rfl⟩

theorem newTree_ok (z : Sizes) (r : Req) : TreeOK z (newTree z r) := by
  obtain ⟨hc, hs, hm, hn⟩ := newTree_fields z r
  refine ⟨?_, ?_, ?_⟩
  · intro e b h
    rw [hs, hm]
    unfold newTree at h
    by_cases he : e = r.elem
    · subst he; rw [slot_setSlot_same] at h; cases h; rfl
    · rw [slot_setSlot_ne _ _ _ _ he] at h
      cases e <;> cases h
  · rw [hc]; unfold newTree; rw [slot_setSlot_same]; rfl
  · rw [hn, hc]

theorem switchTo_spec (z : Sizes) (t : TreeObj) (e : Elem) (h : TreeOK z t) :
    TreeOK z (switchTo z t e) ∧ (switchTo z t e).coords = e ∧ (switchTo z t e).sys = t.sys
      ∧ (switchTo z t e).metric = t.metric := by
  obtain ⟨h1, _, _⟩ := h
  unfold switchTo
  have hslot : ∀ e', ({ t with coords := e, count := z.of e } : TreeObj).slot e' = t.slot e' := by
    intro e'; cases e' <;> rfl
  simp only []
  split
  · refine ⟨⟨?_, ?_, ?_⟩, ?_, ?_, ?_⟩
    · intro e' b hb
      rw [setSlot_sys, setSlot_metric]
      by_cases he : e' = e
      · subst he; rw [slot_setSlot_same] at hb; cases hb; rfl
      · rw [slot_setSlot_ne _ _ _ _ he, hslot] at hb
        exact h1 e' b hb
    · rw [setSlot_coords]; show ((_ : TreeObj).slot e).isSome = true
      rw [slot_setSlot_same]; rfl
    · rw [setSlot_count, setSlot_coords]
    · rw [setSlot_coords]
    · rw [setSlot_sys]
    · rw [setSlot_metric]
  · rename_i hc
    refine ⟨⟨?_, ?_, rfl⟩, rfl, rfl, rfl⟩
    · intro e' b hb
      rw [hslot] at hb
      exact h1 e' b hb
    · show (({ t with coords := e, count := z.of e } : TreeObj).slot e).isSome = true
      simp only [Bool.or_eq_true, not_or, Bool.not_eq_true, Option.isNone_eq_false_iff] at hc
      exact hc.1

theorem reflects_of_ok (z : Sizes) (r : Req) (t : TreeObj) (h : TreeOK z t) (hc : t.coords = r.elem)
    (hs : t.sys = r.sys) (hm : t.metric = r.metric) : reflects z r t = true := by
  obtain ⟨h1, h2, h3⟩ := h
  unfold reflects TreeObj.current
  obtain ⟨b, hb⟩ := Option.isSome_iff_exists.mp h2
  have := h1 _ b hb
  rw [hb, this, h3, hc, hs, hm]
  simp

theorem getFrom_repaired (z : Sizes) (cur : Option TreeObj) (r : Req)
    (h : ∀ t, cur = some t → TreeOK z t) :
    TreeOK z (getFrom z .repaired cur r) ∧ reflects z r (getFrom z .repaired cur r) = true := by
  have hnew : TreeOK z (newTree z r) ∧ reflects z r (newTree z r) = true := by
    obtain ⟨hc, hs, hm, _⟩ := newTree_fields z r
    exact ⟨newTree_ok z r, reflects_of_ok z r _ (newTree_ok z r) hc hs hm⟩
  unfold getFrom
  cases cur with
  | none => exact hnew
  | some t =>
    have ht := h t rfl
    simp only []
    split
    · exact hnew
    · split
      · exact hnew
      · rename_i hne
        simp only [Bool.or_eq_true, bne_iff_ne, ne_eq, not_or, Decidable.not_not,
          decide_true, Bool.true_and] at hne
        split
        · obtain ⟨hok, hc, hs, hm⟩ := switchTo_spec z t r.elem ht
          exact ⟨hok, reflects_of_ok z r _ hok hc (by rw [hs, hne.1]) (by rw [hm, hne.2])⟩
        · rename_i hel
          simp only [bne_iff_ne, ne_eq, Decidable.not_not] at hel
          exact ⟨ht, reflects_of_ok z r t ht hel.symm hne.1.symm hne.2.symm⟩

def CacheOK (z : Sizes) (c : Cache) : Prop :=
  (∀ t, c.ball = some t → TreeOK z t) ∧ (∀ t, c.kd = some t → TreeOK z t)

theorem getTree_repaired (z : Sizes) (c : Cache) (r : Req) (h : CacheOK z c) :
    CacheOK z (getTree z .repaired c r).1 ∧ reflects z r (getTree z .repaired c r).2 = true := by
  unfold getTree
  cases hk : r.kind with
  | ball =>
    obtain ⟨hok, hr⟩ := getFrom_repaired z c.ball r h.1
    refine ⟨⟨?_, h.2⟩, hr⟩
    intro t ht; cases ht; exact hok
  | kd =>
    obtain ⟨hok, hr⟩ := getFrom_repaired z c.kd r h.2
    refine ⟨⟨h.1, ?_⟩, hr⟩
    intro t ht; cases ht; exact hok

theorem runReqs_repaired (z : Sizes) (c : Cache) (rs : List Req) (h : CacheOK z c) :
    CacheOK z (runReqs z .repaired c rs).1 ∧
      ∀ p ∈ List.zip rs (runReqs z .repaired c rs).2, reflects z p.1 p.2 = true := by
  induction rs generalizing c with
  | nil => exact ⟨h, by intro p hp; cases hp⟩
  | cons r rs ih =>
    obtain ⟨hc1, hr⟩ := getTree_repaired z c r h
    obtain ⟨hc2, hall⟩ := ih (getTree z .repaired c r).1 hc1
    simp only [runReqs]
    refine ⟨hc2, ?_⟩
    intro p hp
    rw [List.zip_cons_cons] at hp
    rcases List.mem_cons.mp hp with rfl | hp
    · exact hr
    · exact hall p hp

theorem cacheOK_empty (z : Sizes) : CacheOK z Cache.empty :=
  ⟨fun t h => (by cases h), fun t h => (by cases h)⟩

/-- **the tree handed back reflects the request, after ANY history** (repaired cache), on a grid
    with ANY element counts: whatever differently parameterised trees were requested from the grid
    before, the wrapper returned for `r` has the requested element kind, coordinate system and
    metric, its queries go to an sklearn tree built from exactly those, and its `_n_elements` is
    the size of the requested kind. -/
theorem tree_reflects_request (z : Sizes) (rs : List Req) (r : Req) :
    reflects z r (getTree z .repaired (runReqs z .repaired Cache.empty rs).1 r).2 = true :=
  (getTree_repaired z _ r (runReqs_repaired z Cache.empty rs (cacheOK_empty z)).1).2

/-- the same for every intermediate hand-back of a history -/
theorem every_handback_reflects (z : Sizes) (rs : List Req) :
    ∀ p ∈ List.zip rs (runReqs z .repaired Cache.empty rs).2, reflects z p.1 p.2 = true :=
  (runReqs_repaired z Cache.empty rs (cacheOK_empty z)).2

/-- **the `k` guard after ANY history**: the wrapper handed back for request `r` accepts `k`
    iff `1 ≤ k ≤ n` of the REQUESTED element kind (not of any kind visited before). -/
theorem handback_guard (z : Sizes) (rs : List Req) (r : Req) (k : Int) :
    (getTree z .repaired (runReqs z .repaired Cache.empty rs).1 r).2.accepts k = true
      ↔ 1 ≤ k ∧ k ≤ (z.of r.elem : Int) := by
  have h := tree_reflects_request z rs r
  unfold reflects at h
  simp only [Bool.and_eq_true, beq_iff_eq] at h
  unfold TreeObj.accepts
  rw [h.2]
  simp

/-- **element-kind switches on one cached wrapper** (same tree type, system and metric, no
    `reconstruct`): after ANY walk through element kinds — A,B,A, A,B,C,A, … — the wrapper handed
    back for kind `e` routes its queries to the sklearn tree built from kind `e` and guards `k`
    with the size of kind `e`. -/
theorem kind_switch_reflects (z : Sizes) (k : TreeKind) (s : Sys) (m : Metric) (es : List Elem)
    (e : Elem) :
    reflects z ⟨k, e, s, m, false⟩
      (getTree z .repaired
        (runReqs z .repaired Cache.empty (es.map fun e' => ⟨k, e', s, m, false⟩)).1
        ⟨k, e, s, m, false⟩).2 = true :=
  tree_reflects_request z _ _

/-- non-vacuity: nodes (10) → faces (7) → nodes keeps routing to the node tree and accepts k = 10 -/
example : (getTree ⟨10, 7, 15⟩ .repaired (runReqs ⟨10, 7, 15⟩ .repaired Cache.empty
      [⟨.kd, .nodes, .spherical, .l2, false⟩, ⟨.kd, .faces, .spherical, .l2, false⟩]).1
      ⟨.kd, .nodes, .spherical, .l2, false⟩).2.current = some ⟨.nodes, .spherical, .l2⟩ := by decide
example : (getTree ⟨10, 7, 15⟩ .repaired (runReqs ⟨10, 7, 15⟩ .repaired Cache.empty
      [⟨.kd, .nodes, .spherical, .l2, false⟩, ⟨.kd, .faces, .spherical, .l2, false⟩]).1
      ⟨.kd, .nodes, .spherical, .l2, false⟩).2.accepts 10 = true := by decide
example : (getTree ⟨10, 7, 15⟩ .repaired (runReqs ⟨10, 7, 15⟩ .repaired Cache.empty
      [⟨.kd, .nodes, .spherical, .l2, false⟩]).1
      ⟨.kd, .faces, .spherical, .l2, false⟩).2.accepts 8 = false := by decide

/-- **the code as it stands** (only `coordinates` compared): a ball tree requested with Cartesian
    coordinates after the default spherical one is the spherical haversine tree. -/
theorem asis_cache_stale :
    ¬ (∀ (z : Sizes) (rs : List Req) (r : Req),
        reflects z r (getTree z .asIs (runReqs z .asIs Cache.empty rs).1 r).2 = true) := by
  intro h
  have := h ⟨3, 1, 3⟩ [⟨.ball, .nodes, .spherical, .haversine, false⟩]
    ⟨.ball, .nodes, .cartesian, .l2, false⟩
  revert this; decide

/-- what the as-is cache still guarantees: the whole request is reflected when
    `reconstruct=True` is passed -/
theorem asis_partial_reconstruct (z : Sizes) (c : Cache) (r : Req) (hr : r.recon = true) :
    reflects z r (getTree z .asIs c r).2 = true := by
  obtain ⟨hc, hs, hm, _⟩ := newTree_fields z r
  have hnew := reflects_of_ok z r _ (newTree_ok z r) hc hs hm
  unfold getTree getFrom
  cases hk : r.kind <;> simp only [] <;> split <;> simp_all

example : reflects ⟨10, 7, 15⟩ ⟨.kd, .faces, .spherical, .l2, false⟩
    (getTree ⟨10, 7, 15⟩ .repaired (runReqs ⟨10, 7, 15⟩ .repaired Cache.empty
      [⟨.kd, .nodes, .cartesian, .l2, false⟩, ⟨.ball, .edges, .spherical, .haversine, false⟩,
       ⟨.kd, .faces, .cartesian, .l1, true⟩]).1 ⟨.kd, .faces, .spherical, .l2, false⟩).2 = true := by
  decide
example : reflects ⟨10, 7, 15⟩ ⟨.kd, .faces, .spherical, .l2, false⟩
    (getTree ⟨10, 7, 15⟩ .asIs (runReqs ⟨10, 7, 15⟩ .asIs Cache.empty
      [⟨.kd, .nodes, .cartesian, .l2, false⟩]).1 ⟨.kd, .faces, .spherical, .l2, false⟩).2 = false := by
  decide

/-! ## Part D — ties and near-ties: every accepted answer is a valid k-nearest answer -/

section Tol
variable {K : Type} [Field K] [LinearOrder K] [IsStrictOrderedRing K]

/-- `≤` of a linearly ordered field as the Boolean comparison of the model -/
def leK (a b : K) : Bool := decide (a ≤ b)
omit [Field K] [IsStrictOrderedRing K] in
theorem leK_total : Total (leK (K := K)) := by
  intro a b; simp only [leK, decide_eq_true_eq]; exact le_total a b
omit [Field K] [IsStrictOrderedRing K] in
theorem leK_trans : Trans (leK (K := K)) := by
  intro a b c; simp only [leK, decide_eq_true_eq]; exact le_trans

omit [IsStrictOrderedRing K] in
theorem leO_leTol_iff (eps a b : K) (x y : Option K) (hx : x = some a) (hy : y = some b) :
    leO (leTol leK eps) x y = true ↔ a ≤ b + eps := by
  subst hx; subst hy; simp [leO, leTol, leK]

/-- **near-ties: the accepted answer has the brute-force distance profile, up to `eps`.**
    If an index list passes the k-nearest specification up to the tolerance `eps ≥ 0` (nearest
    first and minimal up to `eps` — this is what the driver evaluates on a row with near-ties),
    then at EVERY position `p` the distance of the returned element differs from the `p`-th
    smallest distance (the brute-force answer) by at most `eps`. -/
theorem knn_tol_profile (D : List K) (k : Nat) (out : List Nat) (eps : K) (heps : 0 ≤ eps)
    (h : KnnSpec (leTol leK eps) D k out) (p : Nat) (hp : p < out.length) :
    ∃ a si, D[out[p]]? = some a ∧ (bruteKnn leK D k)[p]? = some si ∧
      a ≤ si.1 + eps ∧ si.1 ≤ a + eps := by
  have hlen := h.len
  have hpk : p < k := by omega
  have hpn : p < D.length := by omega
  have hop : out[p] < D.length := h.range _ (List.getElem_mem hp)
  -- the first p+1 entries of the sorted list
  have hPlen : (bruteKnn leK D (p + 1)).length = p + 1 := by rw [knn_length]; omega
  have hpP : p < (bruteKnn leK D (p + 1)).length := by omega
  let si := (bruteKnn leK D (p + 1))[p]
  have hsiP : si ∈ bruteKnn leK D (p + 1) := List.getElem_mem hpP
  have hsiD : D[si.2]? = some si.1 := knn_mem leK D (p + 1) si hsiP
  have hbk : (bruteKnn leK D k)[p]? = some si := by
    have h1 : (bruteKnn leK D k)[p]? = (sortBy leK D.zipIdx)[p]? := by
      unfold bruteKnn; exact List.getElem?_take_of_lt hpk
    have h2 : (bruteKnn leK D (p + 1))[p]? = (sortBy leK D.zipIdx)[p]? := by
      unfold bruteKnn; exact List.getElem?_take_of_lt (Nat.lt_succ_self p)
    rw [h1, ← h2]; exact List.getElem?_eq_getElem hpP
  -- (iii) every entry of P is at most s
  have hle_s : ∀ x ∈ bruteKnn leK D (p + 1), x.1 ≤ si.1 := by
    intro x hx
    obtain ⟨q, hq, rfl⟩ := List.mem_iff_getElem.mp hx
    have hs := List.pairwise_iff_getElem.mp (knn_sorted leK_total leK_trans D (p + 1))
    by_cases hqp : q < p
    · have := hs q p hq hpP hqp
      simpa [leK] using this
    · have : q = p := by omega
      subst this; exact le_refl _
  -- distances of out[p]
  refine ⟨D[out[p]], si, List.getElem?_eq_getElem hop, hbk, ?_, ?_⟩
  · -- upper bound: some index of P is not among out[0..p)
    have hnd : ((bruteKnn leK D (p + 1)).map Prod.snd).Nodup := knn_nodup leK D (p + 1)
    obtain ⟨x, hxP, hxQ⟩ : ∃ x, x ∈ (bruteKnn leK D (p + 1)).map Prod.snd ∧ x ∉ out.take p := by
      by_contra hcon
      have hsub : (bruteKnn leK D (p + 1)).map Prod.snd ⊆ out.take p := by
        intro x hx
        by_contra hx'
        exact hcon ⟨x, hx, hx'⟩
      have := (List.subperm_of_subset hnd hsub).length_le
      rw [List.length_map, hPlen, List.length_take] at this
      omega
    obtain ⟨xd, hxdP, rfl⟩ := List.mem_map.mp hxP
    have hxD : D[xd.2]? = some xd.1 := knn_mem leK D (p + 1) xd hxdP
    have hxs : xd.1 ≤ si.1 := hle_s xd hxdP
    have hxn : xd.2 < D.length := (List.getElem?_eq_some_iff.mp hxD).1
    have key : D[out[p]] ≤ xd.1 + eps := by
      by_cases hxo : xd.2 ∈ out
      · obtain ⟨q, hq, hqx⟩ := List.mem_iff_getElem.mp hxo
        have hqp : ¬ q < p := by
          intro hlt
          exact hxQ (List.mem_take_iff_getElem.mpr ⟨q, by omega, hqx⟩)
        by_cases hqe : q = p
        · subst hqe
          have : D[out[q]]? = some xd.1 := by rw [hqx]; exact hxD
          rw [List.getElem?_eq_getElem hop] at this
          have e := Option.some.inj this
          linarith
        · have hs := List.pairwise_iff_getElem.mp h.sorted p q hp hq (by omega)
          rw [hqx] at hs
          exact (leO_leTol_iff eps _ _ _ _ (List.getElem?_eq_getElem hop) hxD).mp hs
      · have hm := h.minimal _ (List.getElem_mem hp) xd.2 hxn hxo
        exact (leO_leTol_iff eps _ _ _ _ (List.getElem?_eq_getElem hop) hxD).mp hm
    linarith
  · -- lower bound: some index among out[0..p] is at least as far as s
    have hBnd : (out.take (p + 1)).Nodup := List.Nodup.sublist (List.take_sublist _ _) h.nodup
    have hBlen : (out.take (p + 1)).length = p + 1 := by rw [List.length_take]; omega
    obtain ⟨x, hxB, d, hxD, hsd⟩ : ∃ x, x ∈ out.take (p + 1) ∧ ∃ d, D[x]? = some d ∧ si.1 ≤ d := by
      by_cases hsub : out.take (p + 1) ⊆ (bruteKnn leK D (p + 1)).map Prod.snd
      · have hperm := (List.subperm_of_subset hBnd hsub).perm_of_length_le
          (by rw [List.length_map, hPlen, hBlen])
        have : si.2 ∈ out.take (p + 1) := hperm.mem_iff.mpr (List.mem_map.mpr ⟨si, hsiP, rfl⟩)
        exact ⟨si.2, this, si.1, hsiD, le_refl _⟩
      · obtain ⟨x, hxB, hxP⟩ : ∃ x, x ∈ out.take (p + 1) ∧ x ∉ (bruteKnn leK D (p + 1)).map Prod.snd := by
          by_contra hcon
          apply hsub
          intro x hx
          by_contra hx'
          exact hcon ⟨x, hx, hx'⟩
        have hxo : x ∈ out := List.mem_of_mem_take hxB
        have hxn : x < D.length := h.range x hxo
        have hmin := knn_minimal leK_total leK_trans D (p + 1) si hsiP x D[x]
          (List.getElem?_eq_getElem hxn) hxP
        exact ⟨x, hxB, D[x], List.getElem?_eq_getElem hxn, by simpa [leK] using hmin⟩
    obtain ⟨q, hq, hqx⟩ := List.mem_take_iff_getElem.mp hxB
    have hq' : q < out.length := by omega
    have key : d ≤ D[out[p]] + eps := by
      by_cases hqe : q = p
      · subst hqe
        have : D[out[q]]? = some d := by rw [hqx]; exact hxD
        rw [List.getElem?_eq_getElem hop] at this
        cases this
        linarith
      · have hs := List.pairwise_iff_getElem.mp h.sorted q p hq' hp (by omega)
        rw [hqx] at hs
        exact (leO_leTol_iff eps _ _ _ _ hxD (List.getElem?_eq_getElem hop)).mp hs
    linarith

omit [IsStrictOrderedRing K] in
theorem leTol_zero : leTol (leK (K := K)) 0 = leK := by
  funext a b; simp [leTol]

/-- **exact ties: every accepted answer is a valid k-nearest answer.**  Whatever ties the
    distance list has, an index list that passes the (exact) specification returns, position by
    position, exactly the distances of the brute-force answer — it differs from brute force only
    in WHICH of several equidistant elements it names. -/
theorem knn_ties_profile (D : List K) (k : Nat) (out : List Nat) (h : KnnSpec leK D k out)
    (p : Nat) (hp : p < out.length) :
    ∃ si, (bruteKnn leK D k)[p]? = some si ∧ D[out[p]]? = some si.1 := by
  have h0 : KnnSpec (leTol leK (0 : K)) D k out := by rw [leTol_zero]; exact h
  obtain ⟨a, si, ha, hs, h1, h2⟩ := knn_tol_profile D k out 0 (le_refl _) h0 p hp
  refine ⟨si, hs, ?_⟩
  rw [ha]; congr 1; linarith [le_antisymm (by linarith : a ≤ si.1) (by linarith : si.1 ≤ a)]

omit [Field K] [IsStrictOrderedRing K] in
/-- **and conversely every valid tie-breaking is accepted**: a list of distinct valid indices
    whose distances are, position by position, those of the brute-force answer passes the
    specification — so `KnnSpec` accepts EXACTLY the valid k-nearest answers, whatever the ties. -/
theorem knn_spec_of_profile (D : List K) (k : Nat) (out : List Nat) (hnd : out.Nodup)
    (hr : ∀ i ∈ out, i < D.length)
    (hprof : out.map (fun i => D[i]?) = (bruteKnn leK D k).map (fun q => some q.1)) :
    KnnSpec leK D k out := by
  have hlen : out.length = (bruteKnn leK D k).length := by
    have := congrArg List.length hprof; simpa using this
  have hget : ∀ p (hp : p < out.length) (hp' : p < (bruteKnn leK D k).length),
      D[out[p]]? = some ((bruteKnn leK D k)[p]).1 := by
    intro p hp hp'
    have := congrArg (fun l => l[p]?) hprof
    simpa [List.getElem?_map, List.getElem?_eq_getElem hp, List.getElem?_eq_getElem hp'] using this
  have hsorted := List.pairwise_iff_getElem.mp (knn_sorted leK_total leK_trans D k)
  refine ⟨by rw [hlen, knn_length], hr, hnd, ?_, ?_⟩
  · rw [List.pairwise_iff_getElem]
    intro i j hi hj hij
    rw [hget i hi (by omega), hget j hj (by omega)]
    exact hsorted i j (by omega) (by omega) hij
  · intro i hi j hj hjo
    obtain ⟨pi, hpi, rfl⟩ := List.mem_iff_getElem.mp hi
    -- split all indices into `out` and the rest, and the sorted list into its first k and the rest
    let f : Nat → Option K := fun i => D[i]?
    let C := (List.range D.length).filter (fun x => !(out.contains x))
    have hsplit : (out ++ C).Perm (List.range D.length) := by
      have h1 : ((List.range D.length).filter (fun x => out.contains x)).Perm out := by
        apply (List.perm_ext_iff_of_nodup (List.Nodup.filter _ List.nodup_range) hnd).mpr
        intro a
        simp only [List.mem_filter, List.mem_range, List.contains_iff_mem]
        exact ⟨fun h => h.2, fun h => ⟨hr a h, h⟩⟩
      exact (List.Perm.append_right C h1.symm).trans (List.filter_append_perm _ _)
    have hD : (List.range D.length).map f = D.map some := by
      apply List.ext_getElem?
      intro n
      simp only [List.getElem?_map, f]
      by_cases hn : n < D.length
      · simp [hn]
      · simp [hn]
    have hfull : ((sortBy leK D.zipIdx).map (fun q => some q.1)).Perm (D.map some) := by
      have := (sortBy_perm leK D.zipIdx).map (fun q : K × Nat => some q.1)
      refine this.trans (List.Perm.of_eq ?_)
      apply List.ext_getElem?
      intro n
      simp [List.getElem?_map, List.getElem?_zipIdx]
      cases D[n]? <;> rfl
    have hperm : (out.map f ++ C.map f).Perm
        ((bruteKnn leK D k).map (fun q => some q.1)
          ++ ((sortBy leK D.zipIdx).drop k).map (fun q => some q.1)) := by
      rw [← List.map_append, ← List.map_append]
      unfold bruteKnn
      rw [List.take_append_drop]
      exact ((hsplit.map f).trans (List.Perm.of_eq hD)).trans hfull.symm
    rw [show out.map f = (bruteKnn leK D k).map (fun q => some q.1) from hprof] at hperm
    have hC := (List.perm_append_left_iff _).mp hperm
    have hjC : j ∈ C := by
      simp only [C, List.mem_filter, List.mem_range, Bool.not_eq_eq_eq_not, Bool.not_true]
      exact ⟨hj, by simpa [List.contains_iff_mem] using hjo⟩
    have : f j ∈ ((sortBy leK D.zipIdx).drop k).map (fun q => some q.1) :=
      hC.mem_iff.mp (List.mem_map.mpr ⟨j, hjC, rfl⟩)
    obtain ⟨y, hy, hyj⟩ := List.mem_map.mp this
    have hcross : ∀ a ∈ (sortBy leK D.zipIdx).take k, ∀ b ∈ (sortBy leK D.zipIdx).drop k,
        leK a.1 b.1 = true := by
      have hs := sortBy_sorted leK_total leK_trans D.zipIdx
      unfold SortedK at hs
      rw [← List.take_append_drop k (sortBy leK D.zipIdx)] at hs
      exact (List.pairwise_append.mp hs).2.2
    have hpk : pi < (bruteKnn leK D k).length := by omega
    rw [hget pi hpi hpk, show D[j]? = some y.1 from hyj.symm]
    exact hcross _ (List.getElem_mem hpk) y hy

/-- the tolerant radius Boolean means: valid distinct indices, everything returned is within
    `r + eps`, everything within `r - eps` is returned -/
theorem radius_tol_sandwich (D : List K) (r eps : K) (out : List Nat)
    (h : radiusSpecTolB leK eps D r out = true) :
    (∀ j ∈ out, j ∈ (bruteRadius leK D (r + eps)).map Prod.snd) ∧
    (∀ j ∈ (bruteRadius leK D (r - eps)).map Prod.snd, j ∈ out) ∧ out.Nodup := by
  unfold radiusSpecTolB at h
  simp only [Bool.and_eq_true, List.all_eq_true, decide_eq_true_eq, List.mem_range,
    Bool.or_eq_true, List.contains_iff_mem, Bool.not_eq_eq_eq_not, Bool.not_true] at h
  obtain ⟨⟨⟨h1, h2⟩, h3⟩, h4⟩ := h
  refine ⟨?_, ?_, h2⟩
  · intro j hj
    have hjn := h1 j hj
    have hd : D[j]? = some D[j] := List.getElem?_eq_getElem hjn
    have := h3 j hj
    rw [hd] at this
    exact List.mem_map.mpr ⟨(D[j], j), (radius_iff leK D _ _).mpr ⟨hd, this⟩, rfl⟩
  · intro j hj
    obtain ⟨q, hq, rfl⟩ := List.mem_map.mp hj
    obtain ⟨hd, hle⟩ := (radius_iff leK D _ q).mp hq
    have hjn : q.2 < D.length := (List.getElem?_eq_some_iff.mp hd).1
    rcases h4 q.2 hjn with h | h
    · exact h
    · exfalso
      rw [hd] at h
      simp only [Option.map_some, leO, leK, decide_eq_false_iff_not, not_le] at h
      simp only [leK, decide_eq_true_eq] at hle
      linarith

end Tol

/-! non-vacuity: ties are accepted in either order; a near-tie passes the tolerant spec but not
    the exact one (Booleans at `Int`; the hypothesis of `knn_tol_profile` at ℚ) -/
example : knnSpecB leI [5, 1, 4, 1, 9] 3 [3, 1, 2] = true := by decide
example : knnSpecB (leTol leI 10) [500, 100, 401, 400, 900] 2 [1, 2] = true := by decide
example : knnSpecB leI [500, 100, 401, 400, 900] 2 [1, 2] = false := by decide
example : knnSpecB (leTol leI 10) [500, 100, 401, 400, 900] 2 [1, 0] = false := by decide
example : radiusSpecTolB leI 10 [500, 100, 401, 400, 900] 400 [1, 3] = true := by decide
example : radiusSpecTolB leI 10 [500, 100, 401, 400, 900] 400 [1, 2, 3] = true := by decide
example : radiusSpecTolB leI 10 [500, 100, 401, 400, 900] 400 [1] = true := by decide
example : radiusSpecTolB leI 10 [500, 100, 401, 400, 900] 400 [3] = false := by decide
example : radiusSpecTolB leI 10 [500, 100, 401, 400, 900] 400 [1, 0] = false := by decide
example : [3, 1, 2].map (fun i => ([5, 1, 4, 1, 9] : List ℚ)[i]?)
    = (bruteKnn leK ([5, 1, 4, 1, 9] : List ℚ) 3).map (fun q => some q.1) := by decide
example : KnnSpec (leTol (leK (K := ℚ)) 10) [500, 100, 401, 400, 900] 2 [1, 2] := by
  rw [← knnSpecB_iff]
  simp [knnSpecB, sortedIdx, pairwiseB, leO, leTol, leK, List.range, List.range.loop]
  norm_num

end UxVerif.C11
