/-
  C16 — Edge distances, differences and gradients follow the edge's own neighbours.

  Theorems about the models of `Model/EdgeOps.lean` for EVERY edge table, coordinate array,
  data array, number of leading slices and distance table.

  §A  geometry over ℝ: the law-of-cosines expression the code evaluates is the dot product of the
      two unit vectors, and `arccos` of it is the angle the driver's independent `atan2` oracle
      returns (so oracle and code compute the same real number);
  §B  index typing: `edge_node_distances` reads node arrays at node indices, the repaired
      `edge_face_distances` reads face-centre arrays at face indices; the unrepaired code is the
      repaired one applied to the NODE arrays (`asis_edgeFaceDist_reads_nodes`) and is wrong
      (`asis_edge_face_dist_wrong`); source-supplied MPAS tables follow the mesh's own roles;
  §C  differences / gradients over any linearly ordered field: per-edge formula, zero on boundary
      edges and for constant fields, normalised slices have unit Euclidean norm, every operator is
      a map over leading slices, result shape; the unrepaired normalisation has neither unit norm
      nor leading independence (`asis_normalize_*`);
  §D  reflection of the decidable specifications the driver evaluates.
-/
import Mathlib.Analysis.SpecialFunctions.Trigonometric.Inverse
import Mathlib.Analysis.SpecialFunctions.Complex.Arg
import Mathlib.Analysis.SpecialFunctions.Trigonometric.Arctan
import Mathlib.Analysis.SpecialFunctions.Trigonometric.Deriv
import Mathlib.Analysis.Calculus.Deriv.MeanValue
import Mathlib.Tactic.Ring
import Mathlib.Tactic.Linarith
import Mathlib.Tactic.FieldSimp
import Mathlib.Tactic.NormNum
import UxVerif.Model.EdgeOps

set_option linter.unusedSectionVars false

namespace UxVerif.C16
open UxVerif UxVerif.EdgeOps

/-! ## §A geometry over ℝ -/

/-- the real functions the code's `np.sin/np.cos/np.arccos/np.deg2rad` approximate -/
noncomputable def realTrig : Trig ℝ :=
  { sin := Real.sin, cos := Real.cos, acos := Real.arccos, deg2rad := fun x => x * (Real.pi / 180) }

/-- `atan2 y x` as the argument of `x + y i` -/
noncomputable def realAtan2 (y x : ℝ) : ℝ := Complex.arg ⟨x, y⟩

/-- **law of cosines = dot product**: `sin φ₁ sin φ₂ + cos φ₁ cos φ₂ cos(λ₁−λ₂)` is the dot
    product of the Cartesian unit vectors of the two points. -/
theorem lawcos_eq_dot (lon₁ lat₁ lon₂ lat₂ : ℝ) :
    lawcos realTrig lon₁ lat₁ lon₂ lat₂
      = dot3 (xyz realTrig lon₁ lat₁) (xyz realTrig lon₂ lat₂) := by
  simp only [lawcos, dot3, xyz, realTrig, Real.cos_sub]
  ring

/-- the Cartesian image of (lon, lat) is a unit vector -/
theorem xyz_unit (lon lat : ℝ) : dot3 (xyz realTrig lon lat) (xyz realTrig lon lat) = 1 := by
  simp only [dot3, xyz, realTrig]
  have h1 := Real.sin_sq_add_cos_sq lon
  have h2 := Real.sin_sq_add_cos_sq lat
  linear_combination (Real.cos lat) ^ 2 * h1 + h2

/-- Lagrange's identity `|a×b|² = |a|²|b|² − (a·b)²` -/
theorem lagrange (a b : V3 ℝ) :
    dot3 (cross3 a b) (cross3 a b) = dot3 a a * dot3 b b - (dot3 a b) ^ 2 := by
  cases a; cases b
  simp only [dot3, cross3]
  ring

theorem dot3_self_nonneg (a : V3 ℝ) : 0 ≤ dot3 a a := by
  cases a
  simp only [dot3]
  exact add_nonneg (add_nonneg (mul_self_nonneg _) (mul_self_nonneg _)) (mul_self_nonneg _)

/-- **the oracle's angle is the arccos of the dot product**: for unit vectors
    `atan2(|a×b|, a·b) = arccos(a·b)`. -/
theorem oracle_eq_arccos (a b : V3 ℝ) (ha : dot3 a a = 1) (hb : dot3 b b = 1) :
    oracleAngle Real.sqrt realAtan2 a b = Real.arccos (dot3 a b) := by
  unfold oracleAngle realAtan2
  set c := dot3 a b with hc
  set s := Real.sqrt (dot3 (cross3 a b) (cross3 a b)) with hs
  have hs0 : 0 ≤ s := Real.sqrt_nonneg _
  have hs2 : s ^ 2 = 1 - c ^ 2 := by
    rw [hs, Real.sq_sqrt (dot3_self_nonneg _), lagrange, ha, hb]; ring
  have hnorm : ‖(⟨c, s⟩ : ℂ)‖ = 1 := by
    rw [Complex.norm_eq_sqrt_sq_add_sq]
    simp only
    rw [hs2]
    have : c ^ 2 + (1 - c ^ 2) = 1 := by ring
    rw [this, Real.sqrt_one]
  have hne : (⟨c, s⟩ : ℂ) ≠ 0 := by
    intro h
    rw [h, norm_zero] at hnorm
    exact zero_ne_one hnorm
  rw [Complex.arg_of_im_nonneg_of_ne_zero (z := ⟨c, s⟩) hs0 hne, hnorm]
  simp

/-- **the code's distance is the oracle's distance** (as real numbers): law of cosines +
    `arccos` equals the `atan2` form on the Cartesian unit vectors. -/
theorem gcDist_eq_oracle (lonA latA lonB latB : ℝ) :
    gcDist realTrig lonA latA lonB latB
      = oracleDist realTrig Real.sqrt realAtan2 lonA latA lonB latB := by
  unfold gcDist oracleDist
  rw [oracle_eq_arccos _ _ (xyz_unit _ _) (xyz_unit _ _), lawcos_eq_dot]
  rfl

/-- the distance does not depend on which end of the edge is listed first -/
theorem gcDist_symm (lonA latA lonB latB : ℝ) :
    gcDist realTrig lonA latA lonB latB = gcDist realTrig lonB latB lonA latA := by
  simp only [gcDist, lawcos, realTrig]
  rw [← Real.cos_neg (lonA * (Real.pi / 180) - lonB * (Real.pi / 180)), neg_sub]
  ring_nf

/-- an arc length lies in `[0, π]`, and is `0` between a point and itself -/
theorem gcDist_range (lonA latA lonB latB : ℝ) :
    0 ≤ gcDist realTrig lonA latA lonB latB ∧ gcDist realTrig lonA latA lonB latB ≤ Real.pi :=
  ⟨Real.arccos_nonneg _, Real.arccos_le_pi _⟩

theorem gcDist_self (lon lat : ℝ) : gcDist realTrig lon lat lon lat = 0 := by
  have h := lawcos_eq_dot (lon * (Real.pi / 180)) (lat * (Real.pi / 180))
    (lon * (Real.pi / 180)) (lat * (Real.pi / 180))
  rw [xyz_unit] at h
  simp only [gcDist, realTrig] at h ⊢
  rw [h, Real.arccos_one]

/-- non-vacuity: a quarter of the equator -/
example : gcDist realTrig 0 0 90 0 = Real.pi / 2 := by
  simp only [gcDist, lawcos, realTrig]
  have : (90 : ℝ) * (Real.pi / 180) = Real.pi / 2 := by ring
  simp [this]

/-! ### range of the cosine and of the angle; why `arctan(sin/cos)` is not the angle -/

/-- **the exact cosine never leaves `[-1, 1]`** — a `nan` from `arccos` can only come from rounding -/
theorem lawcos_mem_Icc (lon₁ lat₁ lon₂ lat₂ : ℝ) :
    -1 ≤ lawcos realTrig lon₁ lat₁ lon₂ lat₂ ∧ lawcos realTrig lon₁ lat₁ lon₂ lat₂ ≤ 1 := by
  rw [lawcos_eq_dot]
  set a := xyz realTrig lon₁ lat₁
  set b := xyz realTrig lon₂ lat₂
  have h := lagrange a b
  rw [xyz_unit, xyz_unit] at h
  have h0 := dot3_self_nonneg (cross3 a b)
  have hsq : (dot3 a b) ^ 2 ≤ 1 := by linarith
  exact abs_le.mp (abs_le_one_iff_mul_self_le_one.mpr (by nlinarith [hsq]))

/-- clamping the cosine to `[-1, 1]` (the proposed repair of the antipodal `nan`) changes no
    exact value -/
theorem arccos_clamp_lawcos (lon₁ lat₁ lon₂ lat₂ : ℝ) :
    Real.arccos (min 1 (max (-1) (lawcos realTrig lon₁ lat₁ lon₂ lat₂)))
      = Real.arccos (lawcos realTrig lon₁ lat₁ lon₂ lat₂) := by
  obtain ⟨h1, h2⟩ := lawcos_mem_Icc lon₁ lat₁ lon₂ lat₂
  rw [max_eq_right h1, min_eq_right h2]

/-- **the oracle's angle lies in `[0, π]`** for every pair of vectors -/
theorem oracleAngle_range (a b : V3 ℝ) :
    0 ≤ oracleAngle Real.sqrt realAtan2 a b ∧ oracleAngle Real.sqrt realAtan2 a b ≤ Real.pi := by
  unfold oracleAngle realAtan2
  exact ⟨Complex.arg_nonneg_iff.mpr (Real.sqrt_nonneg _), Complex.arg_le_pi _⟩

/-- **`arctan(sin/cos)` is not the angle for obtuse arcs**: whenever the two vectors are not
    parallel and their dot product is negative (arc > 90°) the one-argument arctangent is
    negative, the angle is not -/
theorem arctan_form_wrong (a b : V3 ℝ) (hc : dot3 a b < 0)
    (hs : dot3 (cross3 a b) (cross3 a b) ≠ 0) :
    Real.arctan (Real.sqrt (dot3 (cross3 a b) (cross3 a b)) / dot3 a b) < 0 ∧
    Real.arctan (Real.sqrt (dot3 (cross3 a b) (cross3 a b)) / dot3 a b)
      ≠ oracleAngle Real.sqrt realAtan2 a b := by
  have hpos : 0 < Real.sqrt (dot3 (cross3 a b) (cross3 a b)) :=
    Real.sqrt_pos.mpr (lt_of_le_of_ne (dot3_self_nonneg _) (Ne.symm hs))
  have hneg : Real.arctan (Real.sqrt (dot3 (cross3 a b) (cross3 a b)) / dot3 a b) < 0 :=
    Real.arctan_lt_zero.mpr (div_neg_of_pos_of_neg hpos hc)
  exact ⟨hneg, fun h => absurd (h ▸ (oracleAngle_range a b).1) (not_le.mpr hneg)⟩

/-- non-vacuity: the x axis and a direction 135° away -/
example : dot3 (⟨1, 0, 0⟩ : V3 ℝ) ⟨-1, 1, 0⟩ < 0 ∧
    dot3 (cross3 (⟨1, 0, 0⟩ : V3 ℝ) ⟨-1, 1, 0⟩) (cross3 ⟨1, 0, 0⟩ ⟨-1, 1, 0⟩) ≠ 0 := by
  simp [dot3, cross3]

/-! ### conditioning of `arccos`: the tolerance of the float clause as a theorem -/

theorem sin_ge_of_mem (a ξ : ℝ) (ha0 : 0 ≤ a) (ha : a ≤ Real.pi / 2) (h1 : a ≤ ξ)
    (h2 : ξ ≤ Real.pi - a) : Real.sin a ≤ Real.sin ξ := by
  by_cases h : ξ ≤ Real.pi / 2
  · exact Real.sin_le_sin_of_le_of_le_pi_div_two (by linarith [Real.pi_pos]) h h1
  · rw [← Real.sin_pi_sub ξ]
    exact Real.sin_le_sin_of_le_of_le_pi_div_two (by linarith [Real.pi_pos]) (by linarith)
      (by linarith)

theorem angle_conditioning_lt (a θ θ' : ℝ) (ha0 : 0 < a) (ha : a ≤ Real.pi / 2)
    (h1 : a ≤ θ) (hlt : θ < θ') (h2 : θ' ≤ Real.pi - a) :
    |θ - θ'| ≤ |Real.cos θ - Real.cos θ'| / Real.sin a := by
  obtain ⟨ξ, ⟨hξ1, hξ2⟩, hξ⟩ := exists_deriv_eq_slope Real.cos hlt
    Real.continuous_cos.continuousOn Real.differentiable_cos.differentiableOn
  rw [Real.deriv_cos] at hξ
  have hsa : 0 < Real.sin a := Real.sin_pos_of_pos_of_lt_pi ha0 (by linarith [Real.pi_pos])
  have hsξ : Real.sin a ≤ Real.sin ξ := sin_ge_of_mem a ξ ha0.le ha (by linarith) (by linarith)
  have hd : 0 < θ' - θ := sub_pos.mpr hlt
  have e : Real.cos θ - Real.cos θ' = Real.sin ξ * (θ' - θ) := by
    field_simp at hξ
    linarith
  rw [le_div_iff₀ hsa, e, abs_mul, abs_of_pos (lt_of_lt_of_le hsa hsξ), abs_sub_comm,
    abs_of_pos hd, mul_comm]
  exact mul_le_mul_of_nonneg_right hsξ hd.le

/-- **conditioning of the angle in terms of its cosine**: on `[a, π − a]` an error `δ` in the
    cosine moves the angle by at most `δ / sin a` -/
theorem angle_conditioning (a θ θ' : ℝ) (ha0 : 0 < a) (ha : a ≤ Real.pi / 2)
    (hθ : a ≤ θ ∧ θ ≤ Real.pi - a) (hθ' : a ≤ θ' ∧ θ' ≤ Real.pi - a) :
    |θ - θ'| ≤ |Real.cos θ - Real.cos θ'| / Real.sin a := by
  rcases lt_trichotomy θ θ' with h | h | h
  · exact angle_conditioning_lt a θ θ' ha0 ha hθ.1 h hθ'.2
  · subst h
    simp
  · rw [abs_sub_comm θ θ', abs_sub_comm (Real.cos θ)]
    exact angle_conditioning_lt a θ' θ ha0 ha hθ'.1 h hθ.2

/-- **the tolerance of the float clause**: if the computed cosine `c'` is within `δ` of the true
    cosine `c` and both lie in `[cos(π − a), cos a]` (arcs between `a` and `π − a`), then
    `arccos c'` is within `δ / sin a` of the true arc.  With `δ = 64 eps` this is the first term of
    the driver's `tolOf`; the second term and the floor `sin a ≥ √eps` cover the rounding of the
    other operations and the two ends of the interval. -/
theorem arccos_error_bound (a c c' δ : ℝ) (ha0 : 0 < a) (ha : a ≤ Real.pi / 2)
    (hc : Real.cos (Real.pi - a) ≤ c ∧ c ≤ Real.cos a)
    (hc' : Real.cos (Real.pi - a) ≤ c' ∧ c' ≤ Real.cos a) (hδ : |c - c'| ≤ δ) :
    |Real.arccos c - Real.arccos c'| ≤ δ / Real.sin a := by
  have hsa : 0 < Real.sin a := Real.sin_pos_of_pos_of_lt_pi ha0 (by linarith [Real.pi_pos])
  have hpi : 0 ≤ Real.pi - a ∧ Real.pi - a ≤ Real.pi := ⟨by linarith [Real.pi_pos], by linarith⟩
  have hlo : -1 ≤ Real.cos (Real.pi - a) := Real.neg_one_le_cos _
  have hhi : Real.cos a ≤ 1 := Real.cos_le_one _
  have key : ∀ x, Real.cos (Real.pi - a) ≤ x → x ≤ Real.cos a →
      a ≤ Real.arccos x ∧ Real.arccos x ≤ Real.pi - a := by
    intro x h1 h2
    constructor
    · have := Real.arccos_le_arccos h2
      rwa [Real.arccos_cos ha0.le (by linarith [Real.pi_pos])] at this
    · have := Real.arccos_le_arccos h1
      rwa [Real.arccos_cos hpi.1 hpi.2] at this
  have h := angle_conditioning a (Real.arccos c) (Real.arccos c') ha0 ha
    (key c hc.1 hc.2) (key c' hc'.1 hc'.2)
  rw [Real.cos_arccos (by linarith) (by linarith), Real.cos_arccos (by linarith) (by linarith)] at h
  exact h.trans (div_le_div_of_nonneg_right hδ hsa.le)

/-- non-vacuity: arcs between 60° and 120°, cosines 0 and 1/4 -/
example : |Real.arccos 0 - Real.arccos (1 / 4)| ≤ (1 / 4) / Real.sin (Real.pi / 3) := by
  have h3 : Real.cos (Real.pi - Real.pi / 3) = -(1 / 2) := by
    rw [Real.cos_pi_sub, Real.cos_pi_div_three]
  apply arccos_error_bound (Real.pi / 3) 0 (1 / 4) (1 / 4) (by positivity)
    (by linarith [Real.pi_pos])
  · rw [h3, Real.cos_pi_div_three]; constructor <;> norm_num
  · rw [h3, Real.cos_pi_div_three]; constructor <;> norm_num
  · norm_num [abs_of_nonneg]

/-! ### distances depend only on directions (Cartesian positions of any radius) -/

theorem dot3_scale (c d : ℝ) (a b : V3 ℝ) :
    dot3 (scale3 c a) (scale3 d b) = c * d * dot3 a b := by
  cases a; cases b
  simp only [dot3, scale3]
  ring

theorem cross3_scale (c d : ℝ) (a b : V3 ℝ) :
    cross3 (scale3 c a) (scale3 d b) = scale3 (c * d) (cross3 a b) := by
  cases a; cases b
  simp only [cross3, scale3]
  congr 1 <;> ring

/-- normalising forgets a positive radius -/
theorem normalize3_scale (c : ℝ) (hc : 0 < c) (a : V3 ℝ) :
    normalize3 Real.sqrt (scale3 c a) = normalize3 Real.sqrt a := by
  have h : Real.sqrt (dot3 (scale3 c a) (scale3 c a)) = c * Real.sqrt (dot3 a a) := by
    rw [dot3_scale, show c * c * dot3 a a = c ^ 2 * dot3 a a by ring,
      Real.sqrt_mul (sq_nonneg c), Real.sqrt_sq hc.le]
  cases a
  simp only [normalize3, h]
  simp only [scale3, mul_div_mul_left _ _ hc.ne']

/-- a normalised non-zero vector is a unit vector -/
theorem normalize3_unit (a : V3 ℝ) (ha : dot3 a a ≠ 0) :
    dot3 (normalize3 Real.sqrt a) (normalize3 Real.sqrt a) = 1 := by
  have hpos : 0 < dot3 a a := lt_of_le_of_ne (dot3_self_nonneg a) (Ne.symm ha)
  have hs : Real.sqrt (dot3 a a) ≠ 0 := (Real.sqrt_pos.mpr hpos).ne'
  have hsq : Real.sqrt (dot3 a a) * Real.sqrt (dot3 a a) = dot3 a a :=
    Real.mul_self_sqrt hpos.le
  cases a with
  | mk x y z =>
    simp only [normalize3, dot3] at *
    have e : x / Real.sqrt (x * x + y * y + z * z) * (x / Real.sqrt (x * x + y * y + z * z))
        + y / Real.sqrt (x * x + y * y + z * z) * (y / Real.sqrt (x * x + y * y + z * z))
        + z / Real.sqrt (x * x + y * y + z * z) * (z / Real.sqrt (x * x + y * y + z * z))
        = (x * x + y * y + z * z)
          / (Real.sqrt (x * x + y * y + z * z) * Real.sqrt (x * x + y * y + z * z)) := by
      field_simp
    rw [e, hsq, div_self ha]

theorem normalize3_of_unit (a : V3 ℝ) (ha : dot3 a a = 1) : normalize3 Real.sqrt a = a := by
  cases a
  simp [normalize3, ha]

/-- **scale invariance of the distance model**: the arc between two positions depends only on
    their directions — `dist (c•a) (d•b) = dist a b` for `c, d > 0` (non-zero positions) -/
theorem dirDist_scale_invariant (c d : ℝ) (hc : 0 < c) (hd : 0 < d) (a b : V3 ℝ)
    (_ha : dot3 a a ≠ 0) (_hb : dot3 b b ≠ 0) :
    dirDist Real.arccos Real.sqrt (scale3 c a) (scale3 d b)
      = dirDist Real.arccos Real.sqrt a b := by
  simp only [dirDist, normalize3_scale c hc, normalize3_scale d hd]

/-- **scale invariance of the oracle**: `atan2(|a×b|, a·b)` needs no normalisation at all -/
theorem oracleAngle_scale_invariant (c d : ℝ) (hc : 0 < c) (hd : 0 < d) (a b : V3 ℝ) :
    oracleAngle Real.sqrt realAtan2 (scale3 c a) (scale3 d b)
      = oracleAngle Real.sqrt realAtan2 a b := by
  have hcd : 0 < c * d := mul_pos hc hd
  unfold oracleAngle realAtan2
  rw [cross3_scale, dot3_scale, dot3_scale,
    show c * d * (c * d) * dot3 (cross3 a b) (cross3 a b)
      = (c * d) ^ 2 * dot3 (cross3 a b) (cross3 a b) by ring,
    Real.sqrt_mul (sq_nonneg _), Real.sqrt_sq hcd.le]
  have : (⟨c * d * dot3 a b, c * d * Real.sqrt (dot3 (cross3 a b) (cross3 a b))⟩ : ℂ)
      = ((c * d : ℝ) : ℂ) * ⟨dot3 a b, Real.sqrt (dot3 (cross3 a b) (cross3 a b))⟩ := by
    apply Complex.ext <;> simp
  rw [this, Complex.arg_real_mul _ hcd]

/-- the model with the explicit normalisation step IS the oracle on raw positions -/
theorem dirDist_eq_oracle (a b : V3 ℝ) (ha : dot3 a a ≠ 0) (hb : dot3 b b ≠ 0) :
    dirDist Real.arccos Real.sqrt a b = oracleAngle Real.sqrt realAtan2 a b := by
  have hpa : 0 < dot3 a a := lt_of_le_of_ne (dot3_self_nonneg a) (Ne.symm ha)
  have hpb : 0 < dot3 b b := lt_of_le_of_ne (dot3_self_nonneg b) (Ne.symm hb)
  have ea : normalize3 Real.sqrt a = scale3 (1 / Real.sqrt (dot3 a a)) a := by
    cases a; simp only [normalize3, scale3]; congr 1 <;> ring
  have eb : normalize3 Real.sqrt b = scale3 (1 / Real.sqrt (dot3 b b)) b := by
    cases b; simp only [normalize3, scale3]; congr 1 <;> ring
  unfold dirDist
  rw [← oracle_eq_arccos _ _ (normalize3_unit a ha) (normalize3_unit b hb), ea, eb]
  exact oracleAngle_scale_invariant _ _ (one_div_pos.mpr (Real.sqrt_pos.mpr hpa))
    (one_div_pos.mpr (Real.sqrt_pos.mpr hpb)) a b

/-- on Cartesian images (of ANY radii `R, S > 0`) of two lon/lat points the direction distance
    is exactly the law-of-cosines distance the code computes from lon/lat -/
theorem dirDist_xyz_eq_gcDist (R S : ℝ) (hR : 0 < R) (hS : 0 < S) (lonA latA lonB latB : ℝ) :
    dirDist Real.arccos Real.sqrt
        (scale3 R (xyz realTrig (realTrig.deg2rad lonA) (realTrig.deg2rad latA)))
        (scale3 S (xyz realTrig (realTrig.deg2rad lonB) (realTrig.deg2rad latB)))
      = gcDist realTrig lonA latA lonB latB := by
  have h1 : dot3 (xyz realTrig (realTrig.deg2rad lonA) (realTrig.deg2rad latA))
      (xyz realTrig (realTrig.deg2rad lonA) (realTrig.deg2rad latA)) ≠ 0 := by
    rw [xyz_unit]; exact one_ne_zero
  have h2 : dot3 (xyz realTrig (realTrig.deg2rad lonB) (realTrig.deg2rad latB))
      (xyz realTrig (realTrig.deg2rad lonB) (realTrig.deg2rad latB)) ≠ 0 := by
    rw [xyz_unit]; exact one_ne_zero
  rw [dirDist_scale_invariant R S hR hS _ _ h1 h2]
  unfold dirDist gcDist
  rw [normalize3_of_unit _ (xyz_unit _ _), normalize3_of_unit _ (xyz_unit _ _), lawcos_eq_dot]
  rfl

/-- **the face-distance table is radius-invariant**: rescaling every face centre by its own
    positive factor changes nothing -/
theorem edgeFaceDistXYZ_scale_invariant (r : FaceIx → ℝ) (hr : ∀ f, 0 < r f)
    (centre : FaceIx → V3 ℝ) (hc : ∀ f, dot3 (centre f) (centre f) ≠ 0) (ef : EdgeFaces) :
    edgeFaceDistXYZ Real.arccos Real.sqrt (fun f => scale3 (r f) (centre f)) ef
      = edgeFaceDistXYZ Real.arccos Real.sqrt centre ef := by
  unfold edgeFaceDistXYZ
  apply List.map_congr_left
  rintro ⟨f, g⟩ _
  cases g with
  | none => rfl
  | some g => exact dirDist_scale_invariant _ _ (hr f) (hr g) _ _ (hc f) (hc g)

/-- the same for the node-distance table (nodes of mixed radii) -/
theorem edgeNodeDistXYZ_scale_invariant (r : NodeIx → ℝ) (hr : ∀ i, 0 < r i)
    (node : NodeIx → V3 ℝ) (hn : ∀ i, dot3 (node i) (node i) ≠ 0) (en : EdgeNodes) :
    edgeNodeDistXYZ Real.arccos Real.sqrt (fun i => scale3 (r i) (node i)) en
      = edgeNodeDistXYZ Real.arccos Real.sqrt node en := by
  unfold edgeNodeDistXYZ
  apply List.map_congr_left
  rintro ⟨a, b⟩ _
  exact dirDist_scale_invariant _ _ (hr a) (hr b) _ _ (hn a) (hn b)

/-- … and whatever the radii, it is the lon/lat table of §B: the two forms in which a source
    may give the centres denote the same distances -/
theorem edgeFaceDistXYZ_eq_edgeFaceDist (r : FaceIx → ℝ) (hr : ∀ f, 0 < r f)
    (faceLon faceLat : FaceArr ℝ) (ef : EdgeFaces) :
    edgeFaceDistXYZ Real.arccos Real.sqrt
        (fun f => scale3 (r f)
          (xyz realTrig (realTrig.deg2rad (faceLon f)) (realTrig.deg2rad (faceLat f)))) ef
      = edgeFaceDist realTrig faceLon faceLat ef := by
  unfold edgeFaceDistXYZ edgeFaceDist
  apply List.map_congr_left
  rintro ⟨f, g⟩ _
  cases g with
  | none => rfl
  | some g =>
    simp only [faceDistOf, pairDist]
    exact dirDist_xyz_eq_gcDist _ _ (hr f) (hr g) _ _ _ _

/-- non-vacuity: a seeded alternative "arc = 2 arcsin(|a−b|/2)" on raw positions is NOT
    scale invariant — two positions of radius 2 a quarter circle apart have chord 2√2, not √2 -/
example : dot3 (scale3 2 (⟨1, 0, 0⟩ : V3 ℝ)) (scale3 2 ⟨1, 0, 0⟩) = 4 ∧
    dirDist Real.arccos Real.sqrt (scale3 2 (⟨1, 0, 0⟩ : V3 ℝ)) (scale3 2 ⟨0, 1, 0⟩)
      = dirDist Real.arccos Real.sqrt ⟨1, 0, 0⟩ ⟨0, 1, 0⟩ := by
  refine ⟨by simp [dot3, scale3]; norm_num, ?_⟩
  exact dirDist_scale_invariant 2 2 (by norm_num) (by norm_num) _ _
    (by simp [dot3]) (by simp [dot3])

/-! ## §B index typing -/

section typing
variable {K : Type} [Add K] [Sub K] [Mul K] [Div K] [OfNat K 0]

/-- `edge_node_distances[e]` is the distance between edge `e`'s two NODES, read from the node
    coordinate arrays -/
theorem edgeNodeDist_uses_node_coords (T : Trig K) (nodeLon nodeLat : NodeArr K) (en : EdgeNodes)
    (e : Nat) (a b : NodeIx) (h : en[e]? = some (a, b)) :
    (edgeNodeDist T nodeLon nodeLat en)[e]?
      = some (gcDist T (nodeLon a) (nodeLat a) (nodeLon b) (nodeLat b)) := by
  simp [edgeNodeDist, pairDist, h]

theorem edgeNodeDist_length (T : Trig K) (nodeLon nodeLat : NodeArr K) (en : EdgeNodes) :
    (edgeNodeDist T nodeLon nodeLat en).length = en.length := by simp [edgeNodeDist]

/-- **`edge_face_distances[e]` (repaired) is the distance between the CENTRES of the two faces
    sharing `e`**: face indices index the face-centre arrays and nothing else -/
theorem edgeFaceDist_uses_face_centres (T : Trig K) (faceLon faceLat : FaceArr K) (ef : EdgeFaces)
    (e : Nat) (f g : FaceIx) (h : ef[e]? = some (f, some g)) :
    (edgeFaceDist T faceLon faceLat ef)[e]?
      = some (gcDist T (faceLon f) (faceLat f) (faceLon g) (faceLat g)) := by
  simp [edgeFaceDist, faceDistOf, pairDist, h]

/-- … and exactly zero on boundary edges -/
theorem edgeFaceDist_boundary_zero (T : Trig K) (faceLon faceLat : FaceArr K) (ef : EdgeFaces)
    (e : Nat) (f : FaceIx) (h : ef[e]? = some (f, none)) :
    (edgeFaceDist T faceLon faceLat ef)[e]? = some 0 := by
  simp [edgeFaceDist, faceDistOf, h]

theorem edgeFaceDist_length (T : Trig K) (faceLon faceLat : FaceArr K) (ef : EdgeFaces) :
    (edgeFaceDist T faceLon faceLat ef).length = ef.length := by simp [edgeFaceDist]

/-- what the UNREPAIRED code computes: the repaired algorithm run on the node arrays re-read at
    face numbers — the face centres never enter -/
theorem asis_edgeFaceDist_reads_nodes (T : Trig K) (nodeLon nodeLat : NodeArr K) (ef : EdgeFaces) :
    edgeFaceDistAsIs T nodeLon nodeLat ef
      = edgeFaceDist T (fun f => nodeLon f.asNode) (fun f => nodeLat f.asNode) ef := by
  unfold edgeFaceDistAsIs edgeFaceDist
  apply List.map_congr_left
  rintro ⟨f, g⟩ _
  cases g <;> rfl

/-- the unrepaired table is right exactly when, on every two-face edge, the arc between the
    NODES numbered like the two faces happens to equal the arc between the two face centres -/
theorem asis_edgeFaceDist_eq_iff (T : Trig K) (nodeLon nodeLat : NodeArr K)
    (faceLon faceLat : FaceArr K) (ef : EdgeFaces) :
    edgeFaceDistAsIs T nodeLon nodeLat ef = edgeFaceDist T faceLon faceLat ef ↔
      ∀ f g, (f, some g) ∈ ef →
        gcDist T (nodeLon f.asNode) (nodeLat f.asNode) (nodeLon g.asNode) (nodeLat g.asNode)
          = gcDist T (faceLon f) (faceLat f) (faceLon g) (faceLat g) := by
  simp only [edgeFaceDistAsIs, edgeFaceDist]
  rw [List.map_inj_left]
  constructor
  · intro h f g hm
    simpa [faceDistOf, pairDist] using h (f, some g) hm
  · rintro h ⟨f, g⟩ hm
    cases g with
    | none => simp [faceDistOf]
    | some g => simpa [faceDistOf, pairDist] using h f g hm

end typing

/-- **as-is counterexample**: one edge between faces 0 and 1 whose centres are a quarter circle
    apart, while nodes 0 and 1 are antipodal: the unrepaired code reports `π`, the property
    demands `π/2`. -/
theorem asis_edge_face_dist_wrong :
    ∃ (nodeLon nodeLat : NodeArr ℝ) (faceLon faceLat : FaceArr ℝ) (ef : EdgeFaces),
      edgeFaceDistAsIs realTrig nodeLon nodeLat ef = [Real.pi] ∧
      edgeFaceDist realTrig faceLon faceLat ef = [Real.pi / 2] ∧
      edgeFaceDistAsIs realTrig nodeLon nodeLat ef ≠ edgeFaceDist realTrig faceLon faceLat ef := by
  refine ⟨fun i => if i.n = 0 then 0 else 180, fun _ => 0,
          fun i => if i.n = 0 then 0 else 90, fun _ => 0, [(⟨0⟩, some ⟨1⟩)], ?_, ?_, ?_⟩
  · have : (180 : ℝ) * (Real.pi / 180) = Real.pi := by ring
    simp [edgeFaceDistAsIs, pairDist, gcDist, lawcos, realTrig, FaceIx.asNode, this]
  · have : (90 : ℝ) * (Real.pi / 180) = Real.pi / 2 := by ring
    simp [edgeFaceDist, faceDistOf, pairDist, gcDist, lawcos, realTrig, this]
  · have h180 : (180 : ℝ) * (Real.pi / 180) = Real.pi := by ring
    have h90 : (90 : ℝ) * (Real.pi / 180) = Real.pi / 2 := by ring
    simp [edgeFaceDistAsIs, edgeFaceDist, faceDistOf, pairDist, gcDist, lawcos, realTrig,
      FaceIx.asNode, h180, h90]
    have := Real.pi_pos
    intro h
    linarith

/-! ### source-supplied distances (MPAS) -/

/-- **the repaired reader attaches each supplied table to the element kind it measures**:
    `edge_node_distances` is the file's table between the points that are this mesh's NODES,
    `edge_face_distances` the table between the points that are its FACE CENTRES, unchanged. -/
theorem mpas_supplied_roles {K : Type} (dual : Bool) (dv dc : List K) :
    (mpasDistances dual dv dc).1 = mpasTable dv dc (mpasNodeKind dual) ∧
    (mpasDistances dual dv dc).2 = mpasTable dv dc (mpasFaceKind dual) ∧
    mpasDistances false dv dc = (dv, dc) ∧ mpasDistances true dv dc = (dc, dv) := by
  refine ⟨rfl, rfl, rfl, rfl⟩

/-- the dual mesh exchanges the roles -/
theorem mpas_dual_swaps_roles (dual : Bool) :
    mpasNodeKind (!dual) = mpasFaceKind dual ∧ mpasFaceKind (!dual) = mpasNodeKind dual := by
  cases dual <;> exact ⟨rfl, rfl⟩

/-- **as-is counterexample**: on the dual mesh the unrepaired reader hands out the tables the
    wrong way round whenever they differ -/
theorem asis_mpas_dual_swapped {K : Type} (dv dc : List K) (h : dv ≠ dc) :
    mpasDistancesAsIs true dv dc ≠ mpasDistances true dv dc ∧
    mpasDistancesAsIs false dv dc = mpasDistances false dv dc := by
  refine ⟨?_, rfl⟩
  simp only [mpasDistancesAsIs, mpasDistances, mpasTable, mpasNodeKind, mpasFaceKind]
  intro hEq
  exact h (Prod.mk.inj hEq).1

/-! ## §C differences, gradients, normalisation -/

section ops
variable {K : Type} [Field K] [LinearOrder K] [IsStrictOrderedRing K]

local notation "absK" => (fun x : K => |x|)

/-- **face difference**: entry `e` is `|d f − d g|` over the edge's own two faces -/
theorem diff_face_eq (ef : EdgeFaces) (d : FaceArr K) (e : Nat) (f g : FaceIx)
    (h : ef[e]? = some (f, some g)) : (diffFace absK ef d)[e]? = some |d f - d g| := by
  simp [diffFace, h]

/-- **zero on boundary edges** -/
theorem diff_boundary_zero (ef : EdgeFaces) (d : FaceArr K) (e : Nat) (f : FaceIx)
    (h : ef[e]? = some (f, none)) : (diffFace absK ef d)[e]? = some 0 := by
  simp [diffFace, h]

/-- the model meets the per-edge specification on every table -/
theorem diffFace_meets_spec (ef : EdgeFaces) (d : FaceArr K) :
    diffFace absK ef d = ef.map (faceDiffOf absK d) := by
  unfold diffFace
  apply List.map_congr_left
  rintro ⟨f, g⟩ _
  cases g <;> simp [faceDiffOf]

/-- **zero for constant fields** (face data) -/
theorem diff_const_zero (ef : EdgeFaces) (c : K) : ∀ x ∈ diffFace absK ef (fun _ => c), x = 0 := by
  intro x hx
  simp only [diffFace, List.mem_map] at hx
  obtain ⟨⟨f, g⟩, _, rfl⟩ := hx
  cases g <;> simp

/-- **node difference**: entry `e` is `|d a − d b|` over the edge's own two nodes -/
theorem diff_node_eq (en : EdgeNodes) (d : NodeArr K) (e : Nat) (a b : NodeIx)
    (h : en[e]? = some (a, b)) : (diffNode absK en d)[e]? = some |d a - d b| := by
  simp [diffNode, h]

theorem diff_node_const_zero (en : EdgeNodes) (c : K) :
    ∀ x ∈ diffNode absK en (fun _ => c), x = 0 := by
  intro x hx
  simp only [diffNode, List.mem_map] at hx
  obtain ⟨_, _, rfl⟩ := hx
  simp

/-- differences are absolute: non-negative, and independent of the order of the two faces -/
theorem diff_nonneg (ef : EdgeFaces) (d : FaceArr K) : ∀ x ∈ diffFace absK ef d, 0 ≤ x := by
  intro x hx
  simp only [diffFace, List.mem_map] at hx
  obtain ⟨⟨f, g⟩, _, rfl⟩ := hx
  cases g <;> simp

theorem diff_swap (d : FaceArr K) (f g : FaceIx) :
    diffFace absK [(f, some g)] d = diffFace absK [(g, some f)] d := by
  simp [diffFace, abs_sub_comm]

theorem diff_length (ef : EdgeFaces) (d : FaceArr K) : (diffFace absK ef d).length = ef.length := by
  simp [diffFace]

theorem diff_node_length (en : EdgeNodes) (d : NodeArr K) :
    (diffNode absK en d).length = en.length := by
  simp [diffNode]

/-- **gradient = difference / centre-to-centre distance** on every two-face edge -/
theorem grad_eq_diff_div_dist (ef : EdgeFaces) (dist : List K) (d : FaceArr K) (e : Nat)
    (f g : FaceIx) (δ : K) (h : ef[e]? = some (f, some g)) (hδ : dist[e]? = some δ) :
    (gradEdge absK ef dist d)[e]? = some (|d f - d g| / δ) ∧
    (diffFace absK ef d)[e]? = some |d f - d g| := by
  refine ⟨?_, diff_face_eq ef d e f g h⟩
  simp [gradEdge, List.getElem?_zipWith, h, hδ]

/-- **the gradient is zero on boundary edges** -/
theorem grad_boundary_zero (ef : EdgeFaces) (dist : List K) (d : FaceArr K) (e : Nat)
    (f : FaceIx) (δ : K) (h : ef[e]? = some (f, none)) (hδ : dist[e]? = some δ) :
    (gradEdge absK ef dist d)[e]? = some 0 := by
  simp [gradEdge, List.getElem?_zipWith, h, hδ]

/-- **the gradient of a constant field is zero** (distances non-zero: no `0/0`) -/
theorem grad_const_zero (ef : EdgeFaces) (dist : List K) (c : K) (_hd : ∀ δ ∈ dist, δ ≠ 0) :
    ∀ x ∈ gradEdge absK ef dist (fun _ => c), x = 0 := by
  intro x hx
  obtain ⟨i, hi⟩ := List.mem_iff_getElem?.mp hx
  simp only [gradEdge] at hi
  obtain ⟨⟨f, g⟩, δ, _, _, rfl⟩ := List.getElem?_zipWith_eq_some.mp hi
  cases g <;> simp

/-- the model meets the per-edge specification on every table -/
theorem gradEdge_meets_spec (ef : EdgeFaces) (dist : List K) (d : FaceArr K) :
    gradEdge absK ef dist d = List.zipWith (gradOf absK d) ef dist := by
  simp only [gradEdge]
  congr 1
  funext p δ
  rcases p with ⟨f, g⟩
  cases g <;> simp [gradOf]

theorem grad_length (ef : EdgeFaces) (dist : List K) (d : FaceArr K)
    (h : dist.length = ef.length) : (gradEdge absK ef dist d).length = ef.length := by
  simp [gradEdge, h]

/-! ### normalisation -/

theorem sumsq_nonneg (row : List K) : 0 ≤ sumsq row := by
  induction row with
  | nil => simp [sumsq]
  | cons x xs ih => simp only [sumsq]; exact add_nonneg (mul_self_nonneg x) ih

theorem sumsq_map_div (row : List K) (n : K) :
    sumsq (row.map (· / n)) = sumsq row / (n * n) := by
  induction row with
  | nil => simp [sumsq]
  | cons x xs ih =>
    simp only [List.map_cons, sumsq, ih]
    by_cases hn : n = 0
    · simp [hn]
    · field_simp

theorem sumsq_append (a b : List K) : sumsq (a ++ b) = sumsq a + sumsq b := by
  induction a with
  | nil => simp [sumsq]
  | cons x xs ih => simp only [List.cons_append, sumsq, ih]; ring

/-- **a normalised slice has unit Euclidean norm** — for ANY square-root function that is a
    right inverse of squaring on non-negative numbers, whenever the slice's gradient is not
    identically zero -/
theorem normalized_unit_norm (sqrt : K → K) (hs : ∀ x, 0 ≤ x → sqrt x * sqrt x = x)
    (row : List K) (h : sumsq row ≠ 0) : sumsq (normalizeRow sqrt row) = 1 := by
  unfold normalizeRow
  rw [sumsq_map_div, hs _ (sumsq_nonneg row), div_self h]

/-- every leading slice of the REPAIRED normalisation has unit norm -/
theorem normalizeLast_unit_norm (sqrt : K → K) (hs : ∀ x, 0 ≤ x → sqrt x * sqrt x = x)
    (rows : List (List K)) (i : Nat) (row : List K) (hi : rows[i]? = some row)
    (h : sumsq row ≠ 0) :
    ∃ r, (normalizeLast sqrt rows)[i]? = some r ∧ sumsq r = 1 := by
  refine ⟨normalizeRow sqrt row, ?_, normalized_unit_norm sqrt hs row h⟩
  simp [normalizeLast, hi]

/-- with a single leading slice (rank-1 data) the unrepaired code coincides with the repaired
    one — which is why the rank-1 test of the repository passes -/
theorem asis_normalize_single_slice_ok (sqrt : K → K) (row : List K) :
    normalizeAsIs sqrt [row] = normalizeLast sqrt [row] := by
  simp [normalizeAsIs, normalizeLast, normalizeRow]

/-! ### leading dimensions -/

/-- **every operator acts on each leading slice independently** (it is a map over the list of
    leading slices): slice `i` of the result is the operator applied to slice `i` of the data -/
theorem leading_independent (sqrt : K → K) (nrm : Bool) (ef : EdgeFaces) (en : EdgeNodes)
    (dist : List K) (datas : List (FaceArr K)) (ndatas : List (NodeArr K)) (i : Nat) :
    (differenceFaceND absK ef datas)[i]? = (datas[i]?).map (diffFace absK ef) ∧
    (differenceNodeND absK en ndatas)[i]? = (ndatas[i]?).map (diffNode absK en) ∧
    (gradientND absK sqrt nrm ef dist datas)[i]?
      = (datas[i]?).map (fun d =>
          if nrm then normalizeRow sqrt (gradEdge absK ef dist d) else gradEdge absK ef dist d) := by
  refine ⟨by simp [differenceFaceND], by simp [differenceNodeND], ?_⟩
  cases nrm <;> simp [gradientND, normalizeLast]
  cases datas[i]? <;> simp

/-- consequence: changing the data at OTHER leading indices cannot change slice `i` -/
theorem leading_frame (sqrt : K → K) (nrm : Bool) (ef : EdgeFaces) (dist : List K)
    (datas datas' : List (FaceArr K)) (i : Nat) (h : datas[i]? = datas'[i]?) :
    (gradientND absK sqrt nrm ef dist datas)[i]? = (gradientND absK sqrt nrm ef dist datas')[i]? ∧
    (differenceFaceND absK ef datas)[i]? = (differenceFaceND absK ef datas')[i]? := by
  have a := (leading_independent sqrt nrm ef [] dist datas [] i)
  have b := (leading_independent sqrt nrm ef [] dist datas' [] i)
  exact ⟨by rw [a.2.2, b.2.2, h], by rw [a.1, b.1, h]⟩

/-- **result shape**: as many leading slices as the data, each of length `n_edge`; the dimension
    names are the data's with the last one replaced by `n_edge` -/
theorem result_dims (sqrt : K → K) (nrm : Bool) (ef : EdgeFaces) (en : EdgeNodes) (dist : List K)
    (datas : List (FaceArr K)) (ndatas : List (NodeArr K)) (hd : dist.length = ef.length) :
    (differenceFaceND absK ef datas).length = datas.length ∧
    (∀ r ∈ differenceFaceND absK ef datas, r.length = ef.length) ∧
    (differenceNodeND absK en ndatas).length = ndatas.length ∧
    (∀ r ∈ differenceNodeND absK en ndatas, r.length = en.length) ∧
    (gradientND absK sqrt nrm ef dist datas).length = datas.length ∧
    (∀ r ∈ gradientND absK sqrt nrm ef dist datas, r.length = ef.length) := by
  refine ⟨by simp [differenceFaceND], ?_, by simp [differenceNodeND], ?_, ?_, ?_⟩
  · intro r hr
    simp only [differenceFaceND, List.mem_map] at hr
    obtain ⟨d, _, rfl⟩ := hr
    exact diff_length ef d
  · intro r hr
    simp only [differenceNodeND, List.mem_map] at hr
    obtain ⟨d, _, rfl⟩ := hr
    exact diff_node_length en d
  · cases nrm <;> simp [gradientND, normalizeLast]
  · intro r hr
    cases nrm
    · simp only [gradientND, Bool.false_eq_true, if_false, List.mem_map] at hr
      obtain ⟨d, _, rfl⟩ := hr
      exact grad_length ef dist d hd
    · simp only [gradientND, if_true, normalizeLast, List.mem_map] at hr
      obtain ⟨_, ⟨d, _, rfl⟩, rfl⟩ := hr
      simp [normalizeRow, grad_length ef dist d hd]

end ops

/-- dimension names: leading names kept, element dimension replaced by `n_edge` -/
theorem result_dim_names {α : Type} (edge last : α) (lead : List α) :
    resultDims edge (lead ++ [last]) = lead ++ [edge] ∧
    (resultDims edge (lead ++ [last])).length = (lead ++ [last]).length := by
  simp [resultDims]

/-- which table each wrapper uses: face-centred data → the edge's faces, node-centred data →
    the edge's nodes; numbers are returned for nothing else -/
theorem dispatch_table (c : Centre) (d : Dest) :
    (differenceDispatch c d = .edgeFaceDifference ↔ c = .face ∧ d = .edge) ∧
    (differenceDispatch c d = .edgeNodeDifference ↔ c = .node ∧ d = .edge) ∧
    (gradientDispatch c = .gradient ↔ c = .face) := by
  cases c <;> cases d <;> simp [differenceDispatch, gradientDispatch]

/-! ### the unrepaired normalisation (as-is counterexamples over ℝ) -/

theorem sqrt_25 : Real.sqrt 25 = 5 := by
  rw [show (25 : ℝ) = 5 ^ 2 by norm_num, Real.sqrt_sq (by norm_num)]

/-- **as-is counterexample (unit norm)**: two leading slices with gradients `[3]` and `[4]`: the
    unrepaired code divides both by the global norm 5, so the slices have norms 3/5 and 4/5 -/
theorem asis_normalize_global_norm :
    normalizeAsIs Real.sqrt [[3], [4]] = [[3 / 5], [4 / 5]] ∧
    (∀ r ∈ normalizeAsIs Real.sqrt [[(3 : ℝ)], [4]], sumsq r ≠ 1) ∧
    (∀ r ∈ normalizeLast Real.sqrt [[(3 : ℝ)], [4]], sumsq r = 1) := by
  have h25 : Real.sqrt (3 * 3 + 4 * 4) = 5 := by
    rw [show (3 : ℝ) * 3 + 4 * 4 = 25 by norm_num, sqrt_25]
  have h3 : Real.sqrt (3 * 3) = 3 := Real.sqrt_mul_self (by norm_num)
  have h4 : Real.sqrt (4 * 4) = 4 := Real.sqrt_mul_self (by norm_num)
  have A : normalizeAsIs Real.sqrt [[3], [4]] = [[3 / 5], [4 / 5]] := by
    simp [normalizeAsIs, sumsq, h25]
  have B : normalizeLast Real.sqrt [[(3 : ℝ)], [4]] = [[1], [1]] := by
    simp [normalizeLast, normalizeRow, sumsq, h3, h4]
  refine ⟨A, ?_, ?_⟩
  · intro r hr
    rw [A] at hr
    simp only [List.mem_cons, List.mem_nil_iff, or_false] at hr
    rcases hr with rfl | rfl <;> simp only [sumsq] <;> norm_num
  · intro r hr
    rw [B] at hr
    simp only [List.mem_cons, List.mem_nil_iff, or_false] at hr
    rcases hr with rfl | rfl <;> simp [sumsq]

/-- **as-is counterexample (leading independence)**: slice 0 of the unrepaired result changes
    when only slice 1 of the input changes -/
theorem asis_normalize_not_leading_independent :
    (normalizeAsIs Real.sqrt [[(3 : ℝ)], [4]])[0]? ≠ (normalizeAsIs Real.sqrt [[(3 : ℝ)], [0]])[0]? := by
  have h25 : Real.sqrt (3 * 3 + 4 * 4) = 5 := by
    rw [show (3 : ℝ) * 3 + 4 * 4 = 25 by norm_num, sqrt_25]
  have h3 : Real.sqrt (3 * 3) = 3 := Real.sqrt_mul_self (by norm_num)
  simp [normalizeAsIs, sumsq, h25, h3]
  norm_num

/-! ## §D reflection of the decidable specifications evaluated by the driver -/

section reflect
variable {K : Type} [Sub K] [Div K] [OfNat K 0] [BEq K] [LawfulBEq K]

/-- the Boolean the driver evaluates on the implementation's difference is the pointwise
    specification: same length, entry `e` is the property's value for edge `e` -/
theorem diffFaceSpecB_iff (abs : K → K) (ef : EdgeFaces) (d : FaceArr K) (out : List K) :
    diffFaceSpecB abs ef d out = true ↔ ∀ e : Nat, out[e]? = (ef[e]?).map (faceDiffOf abs d) := by
  simp only [diffFaceSpecB, beq_iff_eq]
  constructor
  · rintro rfl e; simp
  · intro h; apply List.ext_getElem?; intro e; simp [h e]

theorem diffNodeSpecB_iff (abs : K → K) (en : EdgeNodes) (d : NodeArr K) (out : List K) :
    diffNodeSpecB abs en d out = true ↔
      ∀ e : Nat, out[e]? = (en[e]?).map (fun p : NodeIx × NodeIx => abs (d p.1 - d p.2)) := by
  simp only [diffNodeSpecB, beq_iff_eq]
  constructor
  · rintro rfl e; simp
  · intro h; apply List.ext_getElem?; intro e; simp [h e]

theorem gradSpecB_iff (abs : K → K) (ef : EdgeFaces) (dist : List K) (d : FaceArr K)
    (out : List K) :
    gradSpecB abs ef dist d out = true ↔ out = List.zipWith (gradOf abs d) ef dist := by
  simp [gradSpecB]

end reflect

/-! ### non-vacuity (exact arithmetic over ℚ) -/

/-- a strip of two faces plus a boundary edge; rank-2 data with one constant slice -/
example :
    differenceFaceND (fun x : Rat => |x|) [(⟨0⟩, some ⟨1⟩), (⟨1⟩, none), (⟨2⟩, some ⟨0⟩)]
      [fun i => [5, 2, 9].getD i.n 0, fun _ => 7] = [[3, 0, 4], [0, 0, 0]] := by decide +kernel

example :
    gradEdge (fun x : Rat => |x|) [(⟨0⟩, some ⟨1⟩), (⟨1⟩, none), (⟨2⟩, some ⟨0⟩)] [1/2, 0, 4]
      (fun i => [5, 2, 9].getD i.n 0) = [6, 0, 1] := by decide +kernel

example :
    diffFaceSpecB (fun x : Rat => |x|) [(⟨0⟩, some ⟨1⟩), (⟨1⟩, none)] (fun i => [5, 2].getD i.n 0)
      [3, 0] = true ∧
    diffFaceSpecB (fun x : Rat => |x|) [(⟨0⟩, some ⟨1⟩), (⟨1⟩, none)] (fun i => [5, 2].getD i.n 0)
      [3, 1] = false := by decide +kernel

example : TablesWF 3 2 [(⟨0⟩, ⟨2⟩)] [(⟨1⟩, some ⟨0⟩), (⟨0⟩, none)] ∧
    ¬ TablesWF 2 3 [(⟨0⟩, ⟨2⟩)] [] := by decide

end UxVerif.C16
