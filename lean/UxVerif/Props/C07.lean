/-
  C07 — Encoding a grid and reading it back preserves the grid.

  Theorems about the model `UxVerif.Model.Encode` (transcription of `_encode_ugrid`,
  `_encode_exodus`, `_encode_scrip`, `Grid.to_xarray`, the module-level topology template and the
  parts of the readers that undo the encoders), for EVERY grid (any number of faces, any mix of
  face sizes, any padding layout), EVERY set of extra variables materialised on it, and EVERY
  history of earlier operations on any grids in the same process.

  `Cfg.repaired` is the code after `fixes/C07-*.patch`; every theorem names, as a hypothesis on
  the configuration, exactly the repair it depends on, and the `asis_*` theorems prove that the
  corresponding statement fails for the code as it stands (`Cfg.asis`).
-/
import UxVerif.Lemmas.SortUniq
import UxVerif.Lemmas.Encode
import UxVerif.Model.Readers

namespace UxVerif.C07
open UxVerif UxVerif.Encode

/-! ## 0. the regenerated conventions (re-checked against `Gen/Conventions.lean` on every run) -/

/-- the module-level template mentions only what every grid has -/
theorem template_names_minimal : ClosedIn Gen.Conv.BASE_GRID_TOPOLOGY_ATTRS coreVars := by decide

/-- … and gives the reader the node coordinates and the face-node table under their own names -/
theorem template_reader_entries :
    lookupKey Gen.Conv.BASE_GRID_TOPOLOGY_ATTRS "node_coordinates" = some ["node_lon", "node_lat"] ∧
    lookupKey Gen.Conv.BASE_GRID_TOPOLOGY_ATTRS "face_node_connectivity" = some ["face_node_connectivity"] := by
  decide

/-- the model's three defining variables carry the conventional dimensions -/
theorem coreVars_conventional :
    coreVars.all (fun v => Gen.Conv.VAR_DIMS.contains (v.name, v.dims)) = true := by decide

/-- every attribute the conventions put on a variable can be a netCDF attribute -/
theorem convention_attrs_encodable :
    Gen.Conv.VAR_ATTRS.all (fun e => e.2.all (fun a => (AttrKind.ofCode a.2).encodable)) = true := by
  decide

/-- every connectivity name the encoder may put into the topology has conventional dimensions -/
theorem connectivity_names_conventional :
    Gen.Conv.CONNECTIVITY_NAMES.all (fun c => Gen.Conv.VAR_DIMS.any (fun e => e.1 == c)) = true := by
  decide

/-- faces with 3 … 8 corners have an Exodus element type -/
theorem elemType_3_to_8 (k : Nat) (h3 : 3 ≤ k) (h8 : k ≤ 8) : elemTypeKnown k = true := by
  have h : ∀ j, j < 9 → 3 ≤ j → elemTypeKnown j = true := by decide
  exact h k (by omega) h3

/-! ## 1. UGRID: topology closed, readable, serialisable -/

theorem mem_setKey {t : Topo} {k : String} {v : List String} {e : String × List String}
    (h : e ∈ setKey t k v) : e ∈ t ∨ e = (k, v) := by
  unfold setKey at h
  split at h
  · rcases List.mem_map.mp h with ⟨a, ha, rfl⟩
    split
    · right; rfl
    · left; exact ha
  · rcases List.mem_append.mp h with h | h
    · left; exact h
    · right; simpa using h

theorem closedIn_setKey {t : Topo} {vs : List Var} {k : String} {v : List String}
    (ht : ClosedIn t vs) (hv : ∀ n ∈ v, n ∈ varNames vs ∨ n ∈ varDims vs) :
    ClosedIn (setKey t k v) vs := by
  intro e he hk n hn
  rcases mem_setKey he with h | h
  · exact ht e h hk n hn
  · subst h; exact hv n hn

theorem closedIn_fold (vs ws : List Var) (hsub : ∀ n ∈ varNames vs, n ∈ varNames ws)
    (cs : List String) :
    ∀ t : Topo, ClosedIn t ws →
      ClosedIn (cs.foldl (fun t c => if (varNames vs).contains c then setKey t c [c] else t) t) ws := by
  induction cs with
  | nil => intro t h; exact h
  | cons c cs ih =>
    intro t h
    simp only [List.foldl_cons]
    apply ih
    split
    · rename_i hc
      apply closedIn_setKey h
      intro n hn
      have : n = c := by simpa using hn
      subst this
      left; exact hsub _ (List.contains_iff_mem.mp hc)
    · exact h

/-- coordinate variables come in pairs (`face_lon` with `face_lat`, `edge_lon` with `edge_lat`) -/
def PairsOK (vs : List Var) : Prop :=
  ("face_lon" ∈ varNames vs → "face_lat" ∈ varNames vs) ∧
  ("edge_lon" ∈ varNames vs → "edge_lat" ∈ varNames vs)

instance (vs) : Decidable (PairsOK vs) := by unfold PairsOK; infer_instance

/-- the topology is computed from the variables `vs` of the grid's dataset and judged in the
    (possibly larger) exported dataset `ws` -/
theorem closedIn_topoOf {tmpl : Topo} {vs ws : List Var} (ht : ClosedIn tmpl ws)
    (hn : ∀ n ∈ varNames vs, n ∈ varNames ws) (hd : ∀ n ∈ varDims vs, n ∈ varDims ws)
    (hp : PairsOK vs) : ClosedIn (topoOf tmpl vs) ws := by
  unfold topoOf
  apply closedIn_fold vs ws hn
  have h1 : ClosedIn (if (varDims vs).contains "n_edge" then setKey tmpl "edge_dimension" ["n_edge"] else tmpl) ws := by
    split
    · rename_i hc
      apply closedIn_setKey ht
      intro n hx
      have : n = "n_edge" := by simpa using hx
      subst this; right; exact hd _ (List.contains_iff_mem.mp hc)
    · exact ht
  have h2 : ClosedIn (if (varNames vs).contains "face_lon" then
      setKey (if (varDims vs).contains "n_edge" then setKey tmpl "edge_dimension" ["n_edge"] else tmpl)
        "face_coordinates" ["face_lon", "face_lat"]
      else (if (varDims vs).contains "n_edge" then setKey tmpl "edge_dimension" ["n_edge"] else tmpl)) ws := by
    split
    · rename_i hc
      have hm := List.contains_iff_mem.mp hc
      apply closedIn_setKey h1
      intro n hx
      have : n = "face_lon" ∨ n = "face_lat" := by simpa using hx
      rcases this with rfl | rfl
      · left; exact hn _ hm
      · left; exact hn _ (hp.1 hm)
    · exact h1
  split
  · rename_i hc
    have hm := List.contains_iff_mem.mp hc
    apply closedIn_setKey h2
    intro n hx
    have : n = "edge_lon" ∨ n = "edge_lat" := by simpa using hx
    rcases this with rfl | rfl
    · left; exact hn _ hm
    · left; exact hn _ (hp.2 hm)
  · exact h2

theorem varNames_strip (vs : List Var) : varNames (vs.map Var.strip) = varNames vs := by
  simp [varNames, Var.strip, Function.comp_def]

theorem varDims_strip (vs : List Var) : varDims (vs.map Var.strip) = varDims vs := by
  simp [varDims, Var.strip, List.flatMap_map]

theorem closedIn_mono {t : Topo} {vs ws : List Var} (h : ClosedIn t vs)
    (hn : ∀ n ∈ varNames vs, n ∈ varNames ws) (hd : ∀ n ∈ varDims vs, n ∈ varDims ws) :
    ClosedIn t ws := by
  intro e he hk n hx
  rcases h e he hk n hx with h1 | h1
  · left; exact hn n h1
  · right; exact hd n h1

/-- The grid has node positions a UGRID export can name: `node_lon`/`node_lat` over `n_node` are
    in its dataset, or (repair `C07-ugrid-cartesian-source`) it has `node_x` and the export derives them. -/
def HasCoords (cfg : Cfg) (vs : List Var) : Prop :=
  ("node_lon" ∈ varNames vs ∧ "node_lat" ∈ varNames vs ∧ "n_node" ∈ varDims vs) ∨
  (cfg.ensureLonLat = true ∧ "node_lon" ∉ varNames vs ∧ "node_x" ∈ varNames vs)

instance (cfg vs) : Decidable (HasCoords cfg vs) := by unfold HasCoords; infer_instance

theorem sub_exportVars_names (cfg : Cfg) (vs : List Var) :
    ∀ n ∈ varNames vs, n ∈ varNames (exportVars cfg vs) := by
  intro n hn; unfold exportVars; split
  · simp only [varNames, List.map_append, List.mem_append]; left; exact hn
  · exact hn

theorem sub_exportVars_dims (cfg : Cfg) (vs : List Var) :
    ∀ n ∈ varDims vs, n ∈ varDims (exportVars cfg vs) := by
  intro n hn; unfold exportVars; split
  · simp only [varDims, List.flatMap_append, List.mem_append]; left; exact hn
  · exact hn

theorem exportVars_ensure (cfg : Cfg) (vs : List Var) (h1 : cfg.ensureLonLat = true)
    (h2 : "node_lon" ∉ varNames vs) (h3 : "node_x" ∈ varNames vs) :
    exportVars cfg vs = vs ++ lonlatVars := by
  unfold exportVars
  have : (varNames vs).contains "node_lon" = false := by
    cases h : (varNames vs).contains "node_lon" with
    | false => rfl
    | true => exact absurd (List.contains_iff_mem.mp h) h2
  have h3' : (varNames vs).contains "node_x" = true := List.contains_iff_mem.mpr h3
  simp only [h1, this, h3', Bool.not_false, Bool.and_self, if_true]

/-- the three defining variables are in the export -/
theorem core_sub_export {P} (cfg : Cfg) (d : Ds P) (hc : HasCoords cfg d.vars) :
    (∀ n ∈ varNames coreVars, n ∈ varNames (exportVars cfg d.vars)) ∧
    (∀ n ∈ varDims coreVars, n ∈ varDims (exportVars cfg d.vars)) := by
  have hf : fncVar ∈ d.vars := by simp [Ds.vars]
  have hfn : "face_node_connectivity" ∈ varNames d.vars := List.mem_map.mpr ⟨fncVar, hf, rfl⟩
  have hfd : ∀ x ∈ fncVar.dims, x ∈ varDims d.vars := fun x hx => List.mem_flatMap.mpr ⟨fncVar, hf, hx⟩
  rcases hc with ⟨h1, h2, h3⟩ | ⟨h1, h2, h3⟩
  · constructor
    · intro n hn
      apply sub_exportVars_names
      have : n = "node_lon" ∨ n = "node_lat" ∨ n = "face_node_connectivity" := by
        simpa [coreVars, lonlatVars, fncVar, varNames] using hn
      rcases this with rfl | rfl | rfl
      · exact h1
      · exact h2
      · exact hfn
    · intro n hn
      apply sub_exportVars_dims
      have : n = "n_node" ∨ n = "n_face" ∨ n = "n_max_face_nodes" := by
        simpa [coreVars, lonlatVars, fncVar, varDims] using hn
      rcases this with rfl | rfl | rfl
      · exact h3
      · exact hfd _ (by simp [fncVar])
      · exact hfd _ (by simp [fncVar])
  · rw [exportVars_ensure cfg _ h1 h2 h3]
    constructor
    · intro n hn
      simp only [varNames, List.map_append, List.mem_append]
      have : n = "node_lon" ∨ n = "node_lat" ∨ n = "face_node_connectivity" := by
        simpa [coreVars, lonlatVars, fncVar, varNames] using hn
      rcases this with rfl | rfl | rfl
      · right; simp [lonlatVars]
      · right; simp [lonlatVars]
      · left; exact hfn
    · intro n hn
      simp only [varDims, List.flatMap_append, List.mem_append]
      have : n = "n_node" ∨ n = "n_face" ∨ n = "n_max_face_nodes" := by
        simpa [coreVars, lonlatVars, fncVar, varDims] using hn
      rcases this with rfl | rfl | rfl
      · right; simp [lonlatVars]
      · left; exact hfd _ (by simp [fncVar])
      · left; exact hfd _ (by simp [fncVar])

/-- **topology_closed.**  For every template that mentions only what every UGRID export has (the
    regenerated `BASE_GRID_TOPOLOGY_ATTRS` does: `template_names_minimal`), every grid and EVERY
    set of further variables present in its dataset, every name mentioned by the emitted
    `grid_topology` attributes is a variable or a dimension of the emitted dataset. -/
theorem topology_closed {P} (cfg : Cfg) (tmpl : Topo) (d : Ds P)
    (ht : ClosedIn tmpl coreVars) (hc : HasCoords cfg d.vars) (hp : PairsOK d.vars) :
    (encodeUgrid cfg tmpl d).1.Closed := by
  have hcore := core_sub_export cfg d hc
  have h := closedIn_topoOf (closedIn_mono ht hcore.1 hcore.2)
    (sub_exportVars_names cfg d.vars) (sub_exportVars_dims cfg d.vars) hp
  unfold UgridOut.Closed encodeUgrid
  simp only
  split
  · intro e he hk n hn
    rw [varNames_strip, varDims_strip]
    exact h e he hk n hn
  · exact h

/-- the regenerated template in particular -/
theorem topology_closed_base {P} (cfg : Cfg) (d : Ds P) (hc : HasCoords cfg d.vars)
    (hp : PairsOK d.vars) : (encodeUgrid cfg Gen.Conv.BASE_GRID_TOPOLOGY_ATTRS d).1.Closed :=
  topology_closed cfg _ d template_names_minimal hc hp

/-- non-vacuity: a grid with edges, face centres and a user variable -/
example : (encodeUgrid (P := Nat) Cfg.repaired Gen.Conv.BASE_GRID_TOPOLOGY_ATTRS
    { table := [[0, 1, 2]], nodes := [0, 1, 2], lonlat := true,
      extras := [⟨"edge_node_connectivity", ["n_edge", "two"], [("fill_value_mask", .bool)]⟩,
                 ⟨"face_lon", ["n_face"], []⟩, ⟨"face_lat", ["n_face"], []⟩] }).1.Closed :=
  topology_closed_base _ _ (by decide) (by decide)

/-- non-vacuity: a Cartesian-only source (`node_x/y/z`, no `node_lon`) -/
example : (encodeUgrid (P := Nat) Cfg.repaired Gen.Conv.BASE_GRID_TOPOLOGY_ATTRS
    { table := [[0, 1, 2]], nodes := [0, 1, 2], lonlat := false,
      extras := [⟨"node_x", ["n_node"], []⟩, ⟨"node_y", ["n_node"], []⟩, ⟨"node_z", ["n_node"], []⟩] }).1.Closed :=
  topology_closed_base _ _ (by decide) (by decide)

/-! ### the reader finds everything it looks for -/

theorem lookupKey_map_set (k : String) (v : List String) (k' : String) (t : Topo) :
    lookupKey (t.map (fun e => if e.1 == k then (k, v) else e)) k' =
      if k' = k then (if t.any (fun e => e.1 == k) then some v else none) else lookupKey t k' := by
  induction t with
  | nil => simp [lookupKey]
  | cons e t ih =>
    unfold lookupKey at ih ⊢
    simp only [List.map_cons, List.find?_cons, List.any_cons]
    by_cases hek : e.1 = k
    · by_cases hk : k' = k
      · subst hk; simp [hek]
      · have : (k == k') = false := by simp; exact fun h => hk h.symm
        have h2 : (e.1 == k') = false := by simp [hek]; exact fun h => hk h.symm
        simp only [hek, beq_self_eq_true, if_true, this, h2]
        simpa [hk] using ih
    · have h1 : (e.1 == k) = false := by simpa using hek
      simp only [h1, Bool.false_eq_true, if_false, Bool.false_or]
      by_cases hk : k' = k
      · subst hk
        simp only [h1]
        simpa using ih
      · by_cases he' : e.1 = k'
        · simp [he', hk]
        · have h2 : (e.1 == k') = false := by simpa using he'
          simp only [h2]
          simpa [hk] using ih

theorem lookupKey_none_of_not_any (t : Topo) (k : String) (h : t.any (fun e => e.1 == k) = false) :
    lookupKey t k = none := by
  unfold lookupKey
  rw [Option.map_eq_none_iff, List.find?_eq_none]
  intro e he
  have := List.any_eq_false.mp h e he
  simpa using this

theorem lookupKey_setKey (t : Topo) (k : String) (v : List String) (k' : String) :
    lookupKey (setKey t k v) k' = if k' = k then some v else lookupKey t k' := by
  unfold setKey
  cases hany : t.any (fun e => e.1 == k) with
  | true =>
    simp only [if_true]
    rw [lookupKey_map_set, hany]; simp
  | false =>
    simp only [Bool.false_eq_true, if_false]
    unfold lookupKey
    rw [List.find?_append]
    by_cases hk : k' = k
    · subst hk
      have hn := lookupKey_none_of_not_any t k' hany
      unfold lookupKey at hn
      rw [Option.map_eq_none_iff] at hn
      simp [hn]
    · have : (k == k') = false := by simp; exact fun h => hk h.symm
      simp [hk, List.find?_cons, this]

/-- the keys `_read_ugrid` consults for variable names -/
def readerKeys : List String :=
  ["node_coordinates", "edge_coordinates", "face_coordinates"] ++ Gen.Conv.CONNECTIVITY_NAMES

/-- whatever the topology gives under a key the reader consults is a variable of the dataset -/
def ReaderOK (t : Topo) (vs : List Var) : Prop :=
  ∀ k ∈ readerKeys, ∀ n ∈ (lookupKey t k).getD [], n ∈ varNames vs

instance (t vs) : Decidable (ReaderOK t vs) := by unfold ReaderOK; infer_instance

theorem readerNames_eq (t : Topo) :
    readerNames t = readerKeys.flatMap (fun k => (lookupKey t k).getD []) := by
  simp [readerNames, readerKeys, List.flatMap_append, List.flatMap_cons]

theorem readerOK_setKey_var {t : Topo} {vs : List Var} {k : String} {v : List String}
    (h : ReaderOK t vs) (hv : ∀ n ∈ v, n ∈ varNames vs) : ReaderOK (setKey t k v) vs := by
  intro k' hk' n hn
  rw [lookupKey_setKey] at hn
  split at hn
  · exact hv n (by simpa using hn)
  · exact h k' hk' n hn

theorem readerOK_setKey_other {t : Topo} {vs : List Var} {k : String} {v : List String}
    (h : ReaderOK t vs) (hk : k ∉ readerKeys) : ReaderOK (setKey t k v) vs := by
  intro k' hk' n hn
  rw [lookupKey_setKey] at hn
  split at hn
  · rename_i he; subst he; exact absurd hk' hk
  · exact h k' hk' n hn

theorem readerOK_fold (vs ws : List Var) (hsub : ∀ n ∈ varNames vs, n ∈ varNames ws)
    (cs : List String) :
    ∀ t : Topo, ReaderOK t ws →
      ReaderOK (cs.foldl (fun t c => if (varNames vs).contains c then setKey t c [c] else t) t) ws := by
  induction cs with
  | nil => intro t h; exact h
  | cons c cs ih =>
    intro t h
    simp only [List.foldl_cons]
    apply ih
    split
    · rename_i hc
      apply readerOK_setKey_var h
      intro n hn
      have : n = c := by simpa using hn
      subst this; exact hsub _ (List.contains_iff_mem.mp hc)
    · exact h

theorem edge_dimension_not_readerKey : "edge_dimension" ∉ readerKeys := by decide

theorem readerOK_topoOf {tmpl : Topo} {vs ws : List Var} (ht : ReaderOK tmpl ws)
    (hn : ∀ n ∈ varNames vs, n ∈ varNames ws) (hp : PairsOK vs) :
    ReaderOK (topoOf tmpl vs) ws := by
  unfold topoOf
  apply readerOK_fold vs ws hn
  have h1 : ReaderOK (if (varDims vs).contains "n_edge" then setKey tmpl "edge_dimension" ["n_edge"] else tmpl) ws := by
    split
    · exact readerOK_setKey_other ht edge_dimension_not_readerKey
    · exact ht
  have h2 : ReaderOK (if (varNames vs).contains "face_lon" then
      setKey (if (varDims vs).contains "n_edge" then setKey tmpl "edge_dimension" ["n_edge"] else tmpl)
        "face_coordinates" ["face_lon", "face_lat"]
      else (if (varDims vs).contains "n_edge" then setKey tmpl "edge_dimension" ["n_edge"] else tmpl)) ws := by
    split
    · rename_i hc
      have hm := List.contains_iff_mem.mp hc
      apply readerOK_setKey_var h1
      intro n hx
      have : n = "face_lon" ∨ n = "face_lat" := by simpa using hx
      rcases this with rfl | rfl
      · exact hn _ hm
      · exact hn _ (hp.1 hm)
    · exact h1
  split
  · rename_i hc
    have hm := List.contains_iff_mem.mp hc
    apply readerOK_setKey_var h2
    intro n hx
    have : n = "edge_lon" ∨ n = "edge_lat" := by simpa using hx
    rcases this with rfl | rfl
    · exact hn _ hm
    · exact hn _ (hp.2 hm)
  · exact h2

theorem lookup_fold_other (names : List String) (k : String) (cs : List String) (hk : k ∉ cs) :
    ∀ t : Topo, lookupKey (cs.foldl (fun t c => if names.contains c then setKey t c [c] else t) t) k
      = lookupKey t k := by
  induction cs with
  | nil => intro t; rfl
  | cons c cs ih =>
    intro t
    simp only [List.foldl_cons]
    rw [ih (fun h => hk (List.mem_cons_of_mem _ h))]
    split
    · rw [lookupKey_setKey]
      have : k ≠ c := fun h => hk (by simp [h])
      simp [this]
    · rfl

theorem lookup_fold_self (names : List String) (k : String) (cs : List String) :
    ∀ t : Topo, lookupKey t k = some [k] →
      lookupKey (cs.foldl (fun t c => if names.contains c then setKey t c [c] else t) t) k = some [k] := by
  induction cs with
  | nil => intro t h; exact h
  | cons c cs ih =>
    intro t h
    simp only [List.foldl_cons]
    apply ih
    split
    · rw [lookupKey_setKey]
      split
      · rename_i he; rw [he]
      · exact h
    · exact h

theorem node_coordinates_not_conn : "node_coordinates" ∉ Gen.Conv.CONNECTIVITY_NAMES := by decide

/-- what `_read_ugrid` needs of a template: it names only variables every grid has, and names
    the node coordinates and the face-node table by their own names -/
structure TemplateOK (tmpl : Topo) : Prop where
  closed : ClosedIn tmpl coreVars
  reader : ReaderOK tmpl coreVars
  nodeCoords : lookupKey tmpl "node_coordinates" = some ["node_lon", "node_lat"]
  faceNode : lookupKey tmpl "face_node_connectivity" = some ["face_node_connectivity"]

/-- the regenerated `BASE_GRID_TOPOLOGY_ATTRS` is such a template -/
theorem base_template_ok : TemplateOK Gen.Conv.BASE_GRID_TOPOLOGY_ATTRS :=
  ⟨template_names_minimal, by decide, template_reader_entries.1, template_reader_entries.2⟩

theorem readerOK_mono {t : Topo} {vs ws : List Var} (h : ReaderOK t vs)
    (hn : ∀ n ∈ varNames vs, n ∈ varNames ws) : ReaderOK t ws :=
  fun k hk n hx => hn n (h k hk n hx)

theorem lookup_topoOf_nodeCoords (tmpl : Topo) (vs : List Var) :
    lookupKey (topoOf tmpl vs) "node_coordinates" = lookupKey tmpl "node_coordinates" := by
  unfold topoOf
  rw [lookup_fold_other _ _ _ node_coordinates_not_conn]
  split <;> split <;> split <;> simp [lookupKey_setKey]

theorem lookup_topoOf_faceNode (tmpl : Topo) (vs : List Var)
    (h : lookupKey tmpl "face_node_connectivity" = some ["face_node_connectivity"]) :
    lookupKey (topoOf tmpl vs) "face_node_connectivity" = some ["face_node_connectivity"] := by
  unfold topoOf
  apply lookup_fold_self
  split <;> split <;> split <;> simp [lookupKey_setKey, h]

/-! ### the start index (`_standardize_connectivity`) -/

/-- every connectivity variable of the conventions has `start_index = 0` -/
theorem conventions_start_index_zero :
    Gen.Conv.VAR_START_INDEX.all (fun e => e.2 == 0) = true ∧
    Gen.Conv.CONNECTIVITY_NAMES.all (fun c => Gen.Conv.VAR_START_INDEX.any (fun e => e.1 == c)) = true := by
  decide

/-- **an explicit `start_index = 0` leaves EVERY table as it is** — whatever its smallest entry:
    grids whose node 0 is no face's corner, face-face tables in which face 0 is nobody's
    neighbour, edge tables … -/
theorem standardize_zero (t : Table) : standardize (some 0) t = t := by
  unfold standardize shiftTable
  simp only
  conv => rhs; rw [← List.map_id t]
  apply List.map_congr_left
  intro r _
  conv => rhs; rw [id, ← List.map_id r]
  apply List.map_congr_left
  intro x _
  by_cases h : x = FILL
  · simp [h]
  · simp [h]

/-- without the attribute the smallest real entry is taken for the start index: a table that does
    not use index 0 is shifted (why the attribute must be honoured when it is there) -/
theorem standardize_absent_shifts :
    standardize none [[1, 2, 3, FILL], [1, 3, 4, 5]] = [[0, 1, 2, FILL], [0, 2, 3, 4]] := by decide

/-- a reader that tests the truth value of the attribute treats the explicit `0` the encoder
    writes as "absent" and shifts such a table; on tables that use index 0 the two agree, which is
    why only grids with an unused first node / an isolated first face show it -/
theorem falsy_start_index_shifts :
    standardizeFalsy (some 0) [[1, 2, 3, FILL], [1, 3, 4, 5]] ≠ [[1, 2, 3, FILL], [1, 3, 4, 5]] ∧
    standardizeFalsy (some 0) [[0, 1, 2, FILL], [1, 3, 4, 5]] = [[0, 1, 2, FILL], [1, 3, 4, 5]] := by
  decide

theorem find_fnc {P} (cfg : Cfg) (d : Ds P) :
    (exportVars cfg d.vars).find? (fun v => v.name == "face_node_connectivity") = some fncVar := by
  have h : d.vars.find? (fun v => v.name == "face_node_connectivity") = some fncVar := by
    unfold Ds.vars
    cases d.lonlat <;> simp [lonlatVars, fncVar, List.find?_cons]
  unfold exportVars
  split
  · rw [List.find?_append, h]; rfl
  · exact h

/-- the exported `face_node_connectivity` carries `start_index = 0`, stripped or not -/
theorem startOf_fnc : startOf fncVar = some 0 ∧ startOf fncVar.strip = some 0 := by decide

/-- the grid's `start_index` attribute describes the table the grid holds: reading the table under
    it changes nothing.  True of every grid built in memory (`start_index = 0`: `gridConsistent_zero`)
    and of every grid the reader makes from ANY source (`standardized_attrs_consistent`). -/
def GridConsistent {P} (d : Ds P) : Prop := standardize d.fnStart d.table = d.table

instance {P} (d : Ds P) : Decidable (GridConsistent d) := by unfold GridConsistent; infer_instance

theorem gridConsistent_zero {P} (d : Ds P) (h : d.fnStart = some 0) : GridConsistent d := by
  unfold GridConsistent; rw [h]; exact standardize_zero _

/-- **ugrid_rt.**  Whatever else is in the grid's dataset, and whatever `start_index` attribute its
    table carries consistently, the reader accepts the export and finds the same face-node table
    and the same node coordinates, in the same order. -/
theorem ugrid_rt {P} (cfg : Cfg) (tmpl : Topo) (d : Ds P) (ht : TemplateOK tmpl)
    (hc : HasCoords cfg d.vars) (hp : PairsOK d.vars) (hcons : GridConsistent d) :
    decodeUgrid (encodeUgrid cfg tmpl d).1 = some (d.table, d.nodes) := by
  have hr : ReaderOK (topoOf tmpl d.vars) (exportVars cfg d.vars) :=
    readerOK_topoOf (readerOK_mono ht.reader (core_sub_export cfg d hc).1)
      (sub_exportVars_names cfg d.vars) hp
  have hnames : ∀ vs', varNames vs' = varNames (exportVars cfg d.vars) →
      ((readerNames (topoOf tmpl d.vars)).all (fun n => (varNames vs').contains n)) = true := by
    intro vs' hv
    rw [List.all_eq_true]
    intro n hn
    rw [readerNames_eq, List.mem_flatMap] at hn
    obtain ⟨k, hk, hn⟩ := hn
    rw [hv]
    exact List.contains_iff_mem.mpr (hr k hk n hn)
  unfold decodeUgrid encodeUgrid
  simp only
  rw [lookup_topoOf_nodeCoords, ht.nodeCoords, lookup_topoOf_faceNode _ _ ht.faceNode]
  split
  · rw [hnames _ (varNames_strip _)]
    have hf : (List.map Var.strip (exportVars cfg d.vars)).find? (fun v => v.name == "face_node_connectivity")
        = some fncVar.strip := by
      rw [List.find?_map]
      have : ((fun v : Var => v.name == "face_node_connectivity") ∘ Var.strip)
          = (fun v => v.name == "face_node_connectivity") := by funext v; rfl
      rw [this, find_fnc]; rfl
    unfold GridConsistent at hcons
    simp [hf, hcons]
  · rw [hnames _ rfl]
    unfold GridConsistent at hcons
    simp [find_fnc, hcons]

/-- **serialisable** (repair `C07-ugrid-export-attrs`): with attribute stripping, the export can
    be written whatever attributes of whatever kind the grid's variables carry -/
theorem ugrid_serialisable {P} (cfg : Cfg) (hc : cfg.stripAttrs = true) (tmpl : Topo) (d : Ds P) :
    (encodeUgrid cfg tmpl d).1.serialisable = true := by
  unfold UgridOut.serialisable encodeUgrid
  simp only [hc, if_true]
  rw [List.all_eq_true]
  intro v hv
  rcases List.mem_map.mp hv with ⟨u, _, rfl⟩
  unfold Var.serialisable Var.strip
  rw [List.all_eq_true]
  intro a ha
  have := (List.mem_filter.mp ha).2
  unfold keepAttr at this
  simp only [Bool.and_eq_true] at this
  exact this.2

/-- the export has the grid's variables (plus `node_lon`/`node_lat` for a Cartesian-only grid) and
    nothing else: "differs only by those extra variables" -/
theorem ugrid_export_names {P} (cfg : Cfg) (tmpl : Topo) (d : Ds P) :
    varNames (encodeUgrid cfg tmpl d).1.vars = varNames (exportVars cfg d.vars) := by
  unfold encodeUgrid
  simp only
  split
  · rw [varNames_strip]
  · rfl

/-! ## 2. histories: the template is the only channel between grids, and it does not move -/

theorem encodeOne_tmpl {P X} (cfg : Cfg) (hc : cfg.copyTemplate = true) (env : Env P X)
    (tmpl : Topo) (d : Ds P) (f : Fmt) : (encodeOne cfg env tmpl d f).2 = tmpl := by
  cases f <;> simp [encodeOne, encodeUgrid, hc]

theorem step_tmpl {P X} (cfg : Cfg) (hc : cfg.copyTemplate = true) (env : Env P X)
    (w : World P) (op : Op) : (step cfg env w op).1.tmpl = w.tmpl := by
  cases op with
  | materialise g vs => simp [step]
  | encode g f =>
    simp only [step]
    split
    · rfl
    · simp [encodeOne_tmpl cfg hc]

/-- **template_invariant** (repair `C07-ugrid-template-copy`): over ANY sequence of
    materialisations and encodes of any grids in any formats, the module-level template is
    unchanged. -/
theorem template_invariant {P X} (cfg : Cfg) (hc : cfg.copyTemplate = true) (env : Env P X)
    (ops : List Op) : ∀ w : World P, (run cfg env w ops).1.tmpl = w.tmpl := by
  induction ops with
  | nil => intro w; rfl
  | cons op ops ih =>
    intro w
    simp only [run]
    rw [ih, step_tmpl cfg hc]

theorem Ds.add_nil {P} (d : Ds P) : d.add [] = d := by
  cases d; simp [Ds.add]

theorem Ds.add_add {P} (d : Ds P) (a b : List Var) : (d.add a).add b = d.add (a ++ b) := by
  cases d; simp [Ds.add, List.append_assoc]

theorem step_grids {P X} (cfg : Cfg) (env : Env P X) (w : World P) (op : Op) (g : Nat) :
    (step cfg env w op).1.grids[g]? =
      (w.grids[g]?).map (fun d => if op.grid = g then d.apply op else d) := by
  have hmod : (w.grids.modify op.grid (fun d => d.apply op))[g]? =
      (w.grids[g]?).map (fun d => if op.grid = g then d.apply op else d) := by
    rw [List.getElem?_modify]; rfl
  cases op with
  | materialise g' vs => simpa [step] using hmod
  | encode g' f =>
    simp only [step]
    split
    · rename_i hnone
      simp only [Op.grid]
      by_cases hg : g' = g
      · subst hg; simp [hnone]
      · simp [hg]
    · simpa using hmod

theorem run_grids {P X} (cfg : Cfg) (env : Env P X) (g : Nat) (ops : List Op) :
    ∀ w : World P, (run cfg env w ops).1.grids[g]? = (w.grids[g]?).map (fun d => evolve g d ops) := by
  induction ops with
  | nil => intro w; simp [run, evolve]
  | cons op ops ih =>
    intro w
    simp only [run, evolve]
    rw [ih, step_grids]
    cases w.grids[g]? with
    | none => rfl
    | some d => simp

/-- the operations never touch the defining payload of a grid -/
theorem evolve_core {P} (g : Nat) (ops : List Op) :
    ∀ d : Ds P, (evolve g d ops).table = d.table ∧ (evolve g d ops).nodes = d.nodes ∧
      (evolve g d ops).fnStart = d.fnStart := by
  induction ops with
  | nil => intro d; exact ⟨rfl, rfl, rfl⟩
  | cons op ops ih =>
    intro d
    simp only [evolve]
    split
    · exact ih (d.apply op)
    · exact ih d

/-- **encode_history_free.**  After ANY history, what `grids[g].to_xarray(f)` returns is what it
    returns in a fresh process for the grid as the operations on `g` ITSELF have left it
    (`evolve g d ops` skips every operation on another grid): it depends neither on which other
    grids were encoded or worked on before, nor in which formats, nor on how many times. -/
theorem encode_history_free {P X} (cfg : Cfg) (hc : cfg.copyTemplate = true) (env : Env P X)
    (w : World P) (ops : List Op) (g : Nat) (f : Fmt) (d : Ds P) (hd : w.grids[g]? = some d) :
    (step cfg env (run cfg env w ops).1 (.encode g f)).2 =
      (encodeOne cfg env w.tmpl (evolve g d ops) f).1 := by
  have h1 := run_grids cfg env g ops w
  rw [hd] at h1
  simp only [step, h1, Option.map_some, template_invariant cfg hc]

/-- non-vacuity: a history in which another grid is worked on and encoded first -/
def exWorld : World Nat :=
  { tmpl := Gen.Conv.BASE_GRID_TOPOLOGY_ATTRS
    grids := [{ table := [[0, 1, 2, FILL], [0, 2, 3, 4]], nodes := [0, 1, 2, 3, 4], lonlat := true, extras := [] },
              { table := [[0, 1, 2]], nodes := [0, 1, 2], lonlat := true, extras := [] }] }
def exEnv : Env Nat Nat := ⟨id, id, id⟩
def exOps : List Op :=
  [Op.materialise 0 [⟨"edge_node_connectivity", ["n_edge", "two"], [("fill_value_mask", .bool)]⟩],
   Op.encode 0 .ugrid, Op.encode 0 .scrip]

example :
    (step Cfg.repaired exEnv (run Cfg.repaired exEnv exWorld exOps).1 (.encode 1 .ugrid)).2 =
      (encodeOne Cfg.repaired exEnv exWorld.tmpl { table := [[0, 1, 2]], nodes := [0, 1, 2], lonlat := true, extras := [] } .ugrid).1 := by
  have := encode_history_free Cfg.repaired rfl exEnv exWorld exOps 1 .ugrid
    { table := [[0, 1, 2]], nodes := [0, 1, 2], lonlat := true, extras := [] } rfl
  simpa [evolve, Op.grid, exOps] using this

/-! ## 3. derived quantities before encoding -/

theorem encodeExodus_stored {P X} (cfg : Cfg) (hx : cfg.exoDeg2rad = true) (env : Env P X)
    (henv : ∀ p, env.toXyz p = env.radToXyz (env.deg2rad p)) (w : Nat) (t : Table) (nodes : List P) :
    encodeExodus cfg env.radToXyz env.deg2rad (some (nodes.map env.toXyz)) w t nodes =
      encodeExodus cfg env.radToXyz env.deg2rad none w t nodes := by
  unfold encodeExodus
  simp only [hx, if_true]
  have : nodes.map env.toXyz = nodes.map (fun p => env.radToXyz (env.deg2rad p)) :=
    List.map_congr_left (fun p _ => henv p)
  rw [this]

/-- the Exodus and SCRIP exports do not depend on what else has been computed on the grid
    (Exodus: given repair `C07-exodus-lonlat-degrees`, so that both coordinate paths agree) -/
theorem exodus_scrip_ignore_extras {P X} (cfg : Cfg) (hx : cfg.exoDeg2rad = true) (env : Env P X)
    (henv : ∀ p, env.toXyz p = env.radToXyz (env.deg2rad p)) (tmpl : Topo) (d : Ds P) (extra : List Var) :
    (encodeOne cfg env tmpl (d.add extra) .exodus).1 =
      Out.exodus (encodeExodus cfg env.radToXyz env.deg2rad none (tableWidth d.table) d.table d.nodes) ∧
    (encodeOne cfg env tmpl (d.add extra) .scrip).1 = Out.scrip (encodeScrip cfg d.table d.nodes) := by
  refine ⟨?_, rfl⟩
  have key : ∀ b : Bool,
      encodeExodus cfg env.radToXyz env.deg2rad (if b = true then some (d.nodes.map env.toXyz) else none)
        (tableWidth d.table) d.table d.nodes =
      encodeExodus cfg env.radToXyz env.deg2rad none (tableWidth d.table) d.table d.nodes := by
    intro b; cases b
    · rfl
    · exact encodeExodus_stored cfg hx env henv _ _ _
  exact congrArg Out.exodus (key _)

/-- **derived_then_encode.**  For EVERY list of further variables materialised on the grid before
    encoding — with attributes of any kind — the UGRID export is writable, self-consistent,
    readable with the same faces and nodes, and consists of the grid's variables and nothing
    else; the Exodus and SCRIP exports are those of the bare grid. -/
theorem derived_then_encode {P X} (cfg : Cfg) (hs : cfg.stripAttrs = true) (hx : cfg.exoDeg2rad = true)
    (env : Env P X) (henv : ∀ p, env.toXyz p = env.radToXyz (env.deg2rad p))
    (tmpl : Topo) (ht : TemplateOK tmpl) (d : Ds P) (extra : List Var)
    (hc : HasCoords cfg (d.add extra).vars) (hp : PairsOK (d.add extra).vars) (hcons : GridConsistent d) :
    let o := (encodeUgrid cfg tmpl (d.add extra)).1
    o.serialisable = true ∧ o.Closed ∧ decodeUgrid o = some (d.table, d.nodes) ∧
    varNames o.vars = varNames (exportVars cfg (d.add extra).vars) ∧
    (encodeOne cfg env tmpl (d.add extra) .exodus).1 =
      Out.exodus (encodeExodus cfg env.radToXyz env.deg2rad none (tableWidth d.table) d.table d.nodes) ∧
    (encodeOne cfg env tmpl (d.add extra) .scrip).1 = Out.scrip (encodeScrip cfg d.table d.nodes) := by
  intro o
  have hex := exodus_scrip_ignore_extras cfg hx env henv tmpl d extra
  exact ⟨ugrid_serialisable cfg hs tmpl _, topology_closed cfg tmpl _ ht.closed hc hp,
    ugrid_rt cfg tmpl (d.add extra) ht hc hp hcons, ugrid_export_names cfg tmpl _, hex.1, hex.2⟩

/-- non-vacuity: bounds (object-valued attributes) and edges (boolean array) before encoding -/
example : PairsOK (({ table := [[0, 1, 2]], nodes := [0, 1, 2], lonlat := true, extras := [] } : Ds Nat).add
    [⟨"edge_node_connectivity", ["n_edge", "two"], [("inverse_indices", .numArray), ("fill_value_mask", .bool)]⟩,
     ⟨"bounds", ["n_face", "Two", "Two"], [("latitude_intervalsIndex", .other)]⟩]).vars := by decide

/-- **history corollary**: after ANY history (repaired template handling and attribute hygiene),
    the UGRID export of any grid is writable, self-consistent and reads back as that grid. -/
theorem history_ugrid_rt {P X} (cfg : Cfg) (hc : cfg.copyTemplate = true) (hs : cfg.stripAttrs = true)
    (env : Env P X) (w : World P) (ht : TemplateOK w.tmpl) (ops : List Op) (g : Nat) (d : Ds P)
    (hd : w.grids[g]? = some d) (hco : HasCoords cfg (evolve g d ops).vars)
    (hp : PairsOK (evolve g d ops).vars) (hcons : GridConsistent d) :
    ∃ o, (step cfg env (run cfg env w ops).1 (.encode g .ugrid)).2 = Out.ugrid o ∧
      o.serialisable = true ∧ o.Closed ∧ decodeUgrid o = some (d.table, d.nodes) := by
  refine ⟨(encodeUgrid cfg w.tmpl (evolve g d ops)).1, ?_, ?_, ?_, ?_⟩
  · rw [encode_history_free cfg hc env w ops g .ugrid d hd]; rfl
  · exact ugrid_serialisable cfg hs _ _
  · exact topology_closed cfg _ _ ht.closed hco hp
  · have hc' : GridConsistent (evolve g d ops) := by
      unfold GridConsistent at hcons ⊢
      rw [(evolve_core g ops d).1, (evolve_core g ops d).2.2]; exact hcons
    rw [ugrid_rt cfg _ (evolve g d ops) ht hco hp hc', (evolve_core g ops d).1, (evolve_core g ops d).2.1]

/-! ### the code as it stands (`Cfg.asis`) -/

def leakOps : List Op :=
  [Op.materialise 0 [⟨"edge_node_connectivity", ["n_edge", "two"], [("fill_value_mask", .bool)]⟩],
   Op.encode 0 .ugrid, Op.encode 1 .ugrid]

/-- what the third operation of `leakOps` returns -/
def leakThird (cfg : Cfg) : Option (UgridOut Nat) :=
  match (run cfg exEnv exWorld leakOps).2 with
  | [_, _, Out.ugrid o] => some o
  | _ => none

instance {P} (o : UgridOut P) : Decidable o.Closed := by unfold UgridOut.Closed; infer_instance

/-- **as is, the template leaks**: after a grid with edges was exported, the export of a grid
    WITHOUT edges names `edge_node_connectivity` and `n_edge`, which it does not have, and the
    reader rejects it; the module-level template has changed. -/
theorem asis_template_leaks :
    (leakThird Cfg.asis).any (fun o => decide (¬ o.Closed) && (decodeUgrid o).isNone) = true ∧
    (run Cfg.asis exEnv exWorld leakOps).1.tmpl ≠ exWorld.tmpl := by
  decide

/-- … and with the template copied the same history is fine -/
example : (leakThird Cfg.repaired).any (fun o => decide o.Closed &&
    decodeUgrid o == some ([[0, 1, 2]], [0, 1, 2])) = true := by decide

def exCartesianOnly : Ds Nat :=
  { table := [[0, 1, 2]], nodes := [0, 1, 2], lonlat := false
    extras := [⟨"node_x", ["n_node"], []⟩, ⟨"node_y", ["n_node"], []⟩, ⟨"node_z", ["n_node"], []⟩] }

/-- **as is, a Cartesian-only source** (`Grid.from_face_vertices(…, latlon=False)` before
    `node_lon` was ever asked for): the export names `node_lon node_lat` without having them and
    cannot be read back; with repair `C07-ugrid-cartesian-source` it can -/
theorem asis_cartesian_source_not_closed :
    (¬ (encodeUgrid Cfg.asis Gen.Conv.BASE_GRID_TOPOLOGY_ATTRS exCartesianOnly).1.Closed ∧
      decodeUgrid (encodeUgrid Cfg.asis Gen.Conv.BASE_GRID_TOPOLOGY_ATTRS exCartesianOnly).1 = none) ∧
    ((encodeUgrid Cfg.repaired Gen.Conv.BASE_GRID_TOPOLOGY_ATTRS exCartesianOnly).1.Closed ∧
      decodeUgrid (encodeUgrid Cfg.repaired Gen.Conv.BASE_GRID_TOPOLOGY_ATTRS exCartesianOnly).1
        = some ([[0, 1, 2]], [0, 1, 2])) := by
  decide

/-- **as is, the export is not writable** once edges were built (boolean array attribute) -/
theorem asis_not_serialisable :
    (encodeUgrid (P := Nat) Cfg.asis Gen.Conv.BASE_GRID_TOPOLOGY_ATTRS
      { table := [[0, 1, 2]], nodes := [0, 1, 2], lonlat := true,
        extras := [⟨"edge_node_connectivity", ["n_edge", "two"], [("fill_value_mask", .bool)]⟩] }).1.serialisable
      = false := by decide

/-! ## 4. Exodus -/

theorem exoRow_fill (cfg : Cfg) (h : cfg.exoFillTest = true) (r : List Int) : exoRow cfg r = faceOf r := by
  unfold exoRow exoFill faceOf
  simp only [h, if_true]
  exact take_idxOf_eq_takeWhile FILL r

theorem exoCounts_eq (w : Nat) (rows s : List (List Int)) (hp : s.Perm rows)
    (h1 : ∀ f ∈ rows, 1 ≤ f.length) :
    (exoCounts w rows).filter (· != 0) = sizeCounts (List.range' 1 w) s := by
  unfold exoCounts sizeCounts
  congr 1
  rw [List.range'_eq_map_range, List.map_map]
  apply List.map_congr_left
  intro i _
  simp only [Function.comp]
  rw [hp.countP_eq]
  apply List.countP_congr
  intro f hf
  have h0 : f.length ≠ 0 := by have := h1 f hf; omega
  unfold bucketIdx
  simp only [h0, if_false, beq_iff_eq]
  omega

/-- **exodus_rt_perm** (repairs `C07-exodus-blocks-by-size`).  For EVERY standard-form face-node
    table — any number of faces, any mix of face sizes, hence any number of blocks — whose face
    sizes have an Exodus element type, the encoder does not raise, every `connect` block is
    rectangular, and a reader of all blocks gets back exactly the faces of the grid, each with its
    corners in the same order, as a multiset. -/
theorem exodus_rt_perm {P X} (cfg : Cfg) (h1 : cfg.exoFillTest = true) (h2 : cfg.exoStartAccum = true)
    (radToXyz : P → X) (deg2rad : P → P) (stored : Option (List X)) (n w : Nat) (t : Table)
    (nodes : List P) (hstd : StdForm n w t)
    (hk : ∀ r ∈ t, elemTypeKnown (faceOf r).length = true) :
    ∃ out, encodeExodus cfg radToXyz deg2rad stored w t nodes = some out ∧
      ((decodeExodusAll out.blocks).map faceOf).Perm (t.map faceOf) ∧
      (∀ b ∈ out.blocks, ∀ r ∈ b.connect, r.length = b.nodesPerEl) := by
  have hrows : t.map (exoRow cfg) = t.map faceOf :=
    List.map_congr_left (fun r _ => exoRow_fill cfg h1 r)
  have hp : (sortLen (t.map faceOf)).Perm (t.map faceOf) := sortLen_perm _
  -- facts about the faces
  have hface : ∀ f ∈ t.map faceOf, 1 ≤ f.length ∧ f.length ≤ w ∧ (∀ x ∈ f, 0 ≤ x) ∧
      elemTypeKnown f.length = true := by
    intro f hf
    rcases List.mem_map.mp hf with ⟨r, hr, rfl⟩
    obtain ⟨hl, hpos, hb, _⟩ := hstd r hr
    refine ⟨hpos, ?_, fun x hx => (hb x hx).1, hk r hr⟩
    have := faceOf_length_le r; omega
  have hface' : ∀ f ∈ sortLen (t.map faceOf), 1 ≤ f.length ∧ f.length ≤ w ∧ (∀ x ∈ f, 0 ≤ x) ∧
      elemTypeKnown f.length = true := fun f hf => hface f (hp.mem_iff.mp hf)
  obtain ⟨bs, hbs, hflat, hrect⟩ := exoBlocks_ok cfg h2 (sortLen (t.map faceOf)) (List.range' 1 w) 0
    List.pairwise_lt_range'
    (by rw [List.drop_zero]; exact sortLen_sorted _)
    (by rw [List.drop_zero]; intro f hf
        have := hface' f hf
        exact List.mem_range'_1.mpr ⟨this.1, by omega⟩)
    (by rw [List.drop_zero]; intro f hf; exact (hface' f hf).2.2.2)
  rw [List.drop_zero] at hbs hflat
  refine ⟨{ coord := (match stored with
      | some xyz => xyz
      | none => nodes.map (fun p => radToXyz (if cfg.exoDeg2rad then deg2rad p else p))), blocks := bs }, ?_, ?_, hrect⟩
  · unfold encodeExodus
    simp only [hrows]
    rw [exoCounts_eq w _ _ hp (fun f hf => (hface f hf).1), hbs]
    rfl
  · have hdec : (decodeExodusAll bs).map faceOf = sortLen (t.map faceOf) := by
      unfold decodeExodusAll
      rw [← List.map_flatMap, hflat, List.map_map, List.map_map]
      conv => rhs; rw [← List.map_id (sortLen (t.map faceOf))]
      apply List.map_congr_left
      intro f hf
      simp only [Function.comp, id]
      exact exoDecRow_shift _ f (hface' f hf).2.2.1
    rw [hdec]; exact hp

/-- faces with 3 … 8 corners (what the regenerated element-type table covers) -/
theorem exodus_rt_perm_3_8 {P X} (cfg : Cfg) (h1 : cfg.exoFillTest = true) (h2 : cfg.exoStartAccum = true)
    (radToXyz : P → X) (deg2rad : P → P) (stored : Option (List X)) (n w : Nat) (t : Table)
    (nodes : List P) (hstd : StdForm n w t)
    (hk : ∀ r ∈ t, 3 ≤ (faceOf r).length ∧ (faceOf r).length ≤ 8) :
    ∃ out, encodeExodus cfg radToXyz deg2rad stored w t nodes = some out ∧
      ((decodeExodusAll out.blocks).map faceOf).Perm (t.map faceOf) :=
  let ⟨out, h, hperm, _⟩ := exodus_rt_perm cfg h1 h2 radToXyz deg2rad stored n w t nodes hstd
    (fun r hr => elemType_3_to_8 _ (hk r hr).1 (hk r hr).2)
  ⟨out, h, hperm⟩

/-- non-vacuity: triangle, two quads, pentagon — three blocks -/
example : StdForm 7 5 [[0, 1, 2, 3, FILL], [4, 5, 6, FILL, FILL], [0, 1, 2, 3, 4], [2, 3, 4, 5, FILL]] ∧
    (∀ r ∈ ([[0, 1, 2, 3, FILL], [4, 5, 6, FILL, FILL], [0, 1, 2, 3, 4], [2, 3, 4, 5, FILL]] : Table),
      3 ≤ (faceOf r).length ∧ (faceOf r).length ≤ 8) := by decide
example : ((encodeExodus (P := Nat) (X := Nat) Cfg.repaired id id none 5
    [[0, 1, 2, 3, FILL], [4, 5, 6, FILL, FILL], [0, 1, 2, 3, 4], [2, 3, 4, 5, FILL]] []).map
      (fun o => o.blocks.map (·.connect))) =
    some [[[5, 6, 7]], [[1, 2, 3, 4], [3, 4, 5, 6]], [[1, 2, 3, 4, 5]]] := by decide

/-- the coordinates: with the degrees converted (repair `C07-exodus-lonlat-degrees`), reading
    the Cartesian coordinates back gives every node's position, in node order -/
theorem exodus_coord_rt {P X} (cfg : Cfg) (hx : cfg.exoDeg2rad = true) (radToXyz : P → X)
    (deg2rad : P → P) (xyzToDeg : X → P) (hinv : ∀ p, xyzToDeg (radToXyz (deg2rad p)) = p)
    (w : Nat) (t : Table) (nodes : List P) (out : ExoOut X)
    (h : encodeExodus cfg radToXyz deg2rad none w t nodes = some out) :
    out.coord.map xyzToDeg = nodes := by
  unfold encodeExodus at h
  simp only [hx, if_true, Option.map_eq_some_iff] at h
  obtain ⟨b, _, rfl⟩ := h
  simp only [List.map_map]
  conv => rhs; rw [← List.map_id nodes]
  exact List.map_congr_left (fun p _ => hinv p)

/-- **as is** the degrees are handed to the radians function: with any conversion that is not the
    identity the positions are lost (toy instance: positions are integers, `deg2rad` doubles) -/
theorem asis_exodus_degrees :
    (encodeExodus (P := Int) (X := Int) Cfg.asis id (· * 2) none 3 [[0, 1, 2]] [10, 20, 30]).map
      (fun o => o.coord.map (· / 2)) ≠ some [10, 20, 30] := by decide

/-- **the code as it stands is a different, also faithful, encoder**: looking for `-1` it never
    finds padding, so every row goes, padding included, into ONE block of the full width; the
    reader's `conn - 1` turns `FILL + 1` back into `FILL`.  For every standard-form table of width
    `w` with an element type for `w`, the as-is reader (last block only) gets the table back exactly. -/
theorem exodus_rt_single_block {P X} (cfg : Cfg) (h1 : cfg.exoFillTest = false)
    (radToXyz : P → X) (deg2rad : P → P) (stored : Option (List X)) (n w : Nat) (t : Table)
    (nodes : List P) (hstd : StdForm n w t) (hne : t ≠ []) (hk : elemTypeKnown w = true) :
    ∃ out, encodeExodus cfg radToXyz deg2rad stored w t nodes = some out ∧
      decodeExodusLast out.blocks = t ∧ out.blocks.length = 1 := by
  have hw : 0 < w := by
    cases t with
    | nil => exact absurd rfl hne
    | cons r _ =>
      obtain ⟨hl, hpos, _, _⟩ := hstd r (by simp)
      have := faceOf_length_le r; omega
  -- no entry of a standard-form row is -1
  have hentry : ∀ r ∈ t, ∀ x ∈ r, x ≠ -1 := by
    intro r hr x hx
    obtain ⟨_, _, hb, hfill⟩ := hstd r hr
    rcases mem_faceOf_or_drop r x hx with h | h
    · have := (hb x h).1; omega
    · rw [hfill x h]; decide
  have hrow : ∀ r ∈ t, exoRow cfg r = r := by
    intro r hr
    unfold exoRow exoFill
    simp only [h1, Bool.false_eq_true, if_false]
    have : (-1 : Int) ∉ r := fun h => hentry r hr (-1) h rfl
    rw [List.idxOf_eq_length this, List.take_length]
  have hrows : t.map (exoRow cfg) = t := by
    conv => rhs; rw [← List.map_id t]
    exact List.map_congr_left hrow
  have hlen : ∀ r ∈ t, r.length = w := fun r hr => (hstd r hr).1
  have hcounts : (exoCounts w t).filter (· != 0) = [t.length] := by
    obtain ⟨w', rfl⟩ : ∃ w', w = w' + 1 := ⟨w - 1, by omega⟩
    unfold exoCounts
    rw [List.range_succ, List.map_append, List.filter_append]
    have hz : ((List.range w').map (fun i => t.countP (fun r => bucketIdx (w' + 1) r.length == i))).filter
        (· != 0) = [] := by
      rw [List.filter_eq_nil_iff]
      intro c hc
      rcases List.mem_map.mp hc with ⟨i, hi, rfl⟩
      have hi' : i < w' := List.mem_range.mp hi
      have : t.countP (fun r => bucketIdx (w' + 1) r.length == i) = 0 := by
        rw [List.countP_eq_zero]
        intro r hr
        simp [bucketIdx, hlen r hr]; omega
      simp [this]
    have hl : t.countP (fun r => bucketIdx (w' + 1) r.length == w') = t.length := by
      rw [List.countP_eq_length]
      intro r hr
      simp [bucketIdx, hlen r hr]
    have htl : t.length ≠ 0 := by cases t <;> simp_all
    rw [hz]
    simp [hl, htl]
  obtain ⟨first, rest, rfl⟩ : ∃ first rest, t = first :: rest := by
    cases t with
    | nil => exact absurd rfl hne
    | cons a b => exact ⟨a, b, rfl⟩
  refine ⟨{ coord := (match stored with
      | some xyz => xyz
      | none => nodes.map (fun p => radToXyz (if cfg.exoDeg2rad then deg2rad p else p))), blocks := [Block.mk first.length ((first :: rest).map (·.map (· + 1))) 1] }, ?_, ?_, rfl⟩
  · unfold encodeExodus
    simp only [hrows, hcounts, sortLen_same_length w _ hlen]
    have hall : ((first :: rest).all fun r => r.length == first.length) = true := by
      rw [List.all_eq_true]; intro r hr
      simp [hlen r hr, hlen first (by simp)]
    have hk' : elemTypeKnown first.length = true := by rw [hlen first (by simp)]; exact hk
    simp only [exoBlocks, List.getElem?_cons_zero, List.drop_zero, List.take_length, hk', hall,
      beq_self_eq_true, Bool.and_self, if_true]
    rfl
  · have hrowdec : ∀ r ∈ first :: rest, exoDecRow (max 0 first.length) (r.map (· + 1)) = r := by
      intro r hr
      unfold exoDecRow
      have hz : (r.map (· + 1)).map (fun x => if x - 1 = -1 then FILL else x - 1) = r := by
        rw [List.map_map]
        conv => rhs; rw [← List.map_id r]
        apply List.map_congr_left
        intro x hx
        have := hentry r hr x hx
        have h' : ¬ (x + 1 - 1 = -1) := by omega
        simp only [Function.comp, h', if_false, id]; omega
      simp only [hz]
      have : max 0 first.length - r.length = 0 := by
        rw [hlen r hr, hlen first (by simp)]; omega
      rw [this]; simp
    unfold decodeExodusLast
    simp only [List.getLast?_singleton, blocksWidth, List.map_cons, List.map_nil, List.foldl_cons,
      List.foldl_nil]
    rw [hrowdec first (by simp)]
    congr 1
    rw [List.map_map]
    conv => rhs; rw [← List.map_id rest]
    apply List.map_congr_left
    intro r hr
    exact hrowdec r (by simp [hr])

/-- **as-is reader**: a reader that keeps only the last `connect` block loses faces as soon as
    there are two sizes (this is C01's finding; it is why `exodus_rt_perm` is stated for a
    reader of all blocks) -/
theorem asis_reader_last_block_loses_faces :
    ((encodeExodus (P := Nat) (X := Nat) Cfg.repaired id id none 4 [[0, 1, 2, FILL], [0, 2, 3, 4]] []).map
      (fun o => (decodeExodusLast o.blocks).map faceOf)) = some [[0, 2, 3, 4]] := by decide

/-- **as-is `start = num_faces`** (with the fill test repaired alone): three sizes and the third
    block is cut at the wrong place — a triangle is written twice, the pentagon is lost -/
theorem asis_exodus_start_three_sizes :
    (encodeExodus (P := Nat) (X := Nat) { Cfg.repaired with exoStartAccum := false } id id none 5
      [[0, 1, 2, FILL, FILL], [4, 5, 6, FILL, FILL], [0, 1, 2, 3, FILL], [0, 1, 2, 3, 4]] []).map
      (fun o => o.blocks.map (·.connect)) =
    some [[[1, 2, 3], [5, 6, 7]], [[1, 2, 3, 4]], [[5, 6, 7]]] := by
  decide

/-! ## 5. SCRIP -/

/-- the node indices the encoder gathers for a row -/
def gatherRow (cfg : Cfg) (r : List Int) : List Int := r.map (scripIdx cfg r)

theorem scripIdx_real (cfg : Cfg) (r : List Int) (x : Int) (hx : x ≠ FILL) : scripIdx cfg r x = x := by
  unfold scripIdx; simp [hx]

/-- a standard-form row gathers its corners, then its last corner in the padding slots -/
theorem gatherRow_std (cfg : Cfg) (hc : cfg.scripPadLast = true) {n w : Nat} {r : List Int}
    (h : StdRow n w r) (a : Int) (ha : (faceOf r).getLast? = some a) :
    gatherRow cfg r = faceOf r ++ List.replicate (w - (faceOf r).length) a := by
  have hr := stdRow_eq h
  have hlast : entry r ((faceOf r).length - 1) = a := by
    rw [hr, faceOf_append_fill _ _ (faceOf_no_fill r)]
    exact entry_last_eq _ _ a ha
  unfold gatherRow
  conv => lhs; arg 2; rw [hr]
  rw [List.map_append, List.map_replicate]
  congr 1
  · conv => rhs; rw [← List.map_id (faceOf r)]
    apply List.map_congr_left
    intro x hx
    exact scripIdx_real cfg r x (faceOf_no_fill r x hx)
  · unfold scripIdx; simp [hc, hlast]

/-- (repair `C07-scrip-padding`) the encoder does not raise on any standard-form table —
    any mix of face sizes — whose indices are node indices; its corner table holds, row by row,
    the positions of the gathered nodes -/
theorem scrip_encode_some {P : Type} (cfg : Cfg) (n w : Nat) (t : Table)
    (nodes : List P) (hstd : StdForm n w t) (hn : n ≤ nodes.length)
    (hc : cfg.scripPadLast = true ∨ ∀ r ∈ t, ∀ x ∈ r, x ≠ FILL) :
    ∃ C, encodeScrip cfg t nodes = some C ∧
      C.map (·.map some) = t.map (fun r => (gatherRow cfg r).map (getI? nodes)) := by
  have hget : ∀ x : Int, 0 ≤ x → x < n → ∃ y, getI? nodes x = some y := by
    intro x h0 h1
    unfold getI?
    have hlt : x.toNat < nodes.length := by omega
    exact ⟨nodes[x.toNat], by simp [show ¬ x < 0 by omega, List.getElem?_eq_getElem hlt]⟩
  have key : ∀ r ∈ t, ∀ x ∈ r, ∃ y, getI? nodes (scripIdx cfg r x) = some y := by
    intro r hr x hx
    obtain ⟨hl, hpos, hb, hfill⟩ := hstd r hr
    rcases mem_faceOf_or_drop r x hx with h | h
    · rw [scripIdx_real cfg r x (faceOf_no_fill r x h)]
      exact hget x (hb x h).1 (hb x h).2
    · have hxf : x = FILL := hfill x h
      subst hxf
      rcases hc with hc | hfull
      · have hm : entry r ((faceOf r).length - 1) ∈ faceOf r := by
          have h' := entry_last_mem (faceOf r) (r.drop (faceOf r).length) hpos
          rw [← split_faceOf r] at h'; exact h'
        unfold scripIdx
        simp only [hc, Bool.and_true, decide_true, if_true]
        exact hget _ (hb _ hm).1 (hb _ hm).2
      · exact absurd rfl (hfull r hr FILL hx)
  obtain ⟨C, hC, hCm⟩ := mapM2_option_some (fun r x => getI? nodes (scripIdx cfg r x)) t key
  refine ⟨C, hC, ?_⟩
  rw [hCm]
  apply List.map_congr_left
  intro r _
  simp [gatherRow, List.map_map, Function.comp_def]

/-- `np.unique(return_inverse)`: indexing the unique nodes with the inverse gives every corner back -/
theorem scrip_unique_rt {P : Type} [DecidableEq P] (lt : P → P → Bool) (C : List (List P)) :
    (decodeScrip lt C).2.map (fun r => r.map (getI? (decodeScrip lt C).1)) = C.map (·.map some) := by
  unfold decodeScrip
  simp only [List.map_map]
  apply List.map_congr_left
  intro c hc
  simp only [Function.comp, List.map_map]
  apply List.map_congr_left
  intro x hx
  simp only [Function.comp]
  apply getI?_rank
  rw [mem_sortUniqBy]
  exact List.mem_flatten.mpr ⟨c, hc, hx⟩

theorem faceOf_no_fill_id (r : List Int) (h : ∀ x ∈ r, x ≠ FILL) : faceOf r = r := by
  have := faceOf_append_fill r 0 h
  simpa using this

/-- **scrip_rt, grids without padding** (every face has `w` corners), through the reader as it
    stands: the re-read faces have the same corner positions in the same order, face by face. -/
theorem scrip_rt_uniform {P : Type} [DecidableEq P] (lt : P → P → Bool) (cfg : Cfg) (n w : Nat)
    (t : Table) (nodes : List P) (hstd : StdForm n w t) (hn : n ≤ nodes.length)
    (hfull : ∀ r ∈ t, ∀ x ∈ r, x ≠ FILL) :
    ∃ C, encodeScrip cfg t nodes = some C ∧
      (decodeScrip lt C).2.map (rowPositions (decodeScrip lt C).1) = t.map (rowPositions nodes) := by
  obtain ⟨C, hC, hCm⟩ := scrip_encode_some cfg n w t nodes hstd hn (Or.inr hfull)
  refine ⟨C, hC, ?_⟩
  have hu := scrip_unique_rt lt C
  -- rows of the decoded table hold ranks only, so each is its own face
  have hdec : (decodeScrip lt C).2.map (rowPositions (decodeScrip lt C).1)
      = (decodeScrip lt C).2.map (fun r => r.map (getI? (decodeScrip lt C).1)) := by
    apply List.map_congr_left
    intro r hr
    unfold rowPositions
    rw [faceOf_no_fill_id]
    intro x hx
    unfold decodeScrip at hr
    simp only [List.mem_map] at hr
    obtain ⟨c, _, rfl⟩ := hr
    obtain ⟨y, _, rfl⟩ := List.mem_map.mp hx
    exact rank_ne_fill _ y
  rw [hdec, hu, hCm]
  apply List.map_congr_left
  intro r hr
  unfold rowPositions gatherRow
  rw [faceOf_no_fill_id r (hfull r hr), List.map_map]
  apply List.map_congr_left
  intro x hx
  simp only [Function.comp]
  rw [scripIdx_real cfg r x (hfull r hr x hx)]

/-- the corners of each face lie at pairwise different positions -/
def FaceDistinct {P : Type} (nodes : List P) (t : Table) : Prop :=
  ∀ r ∈ t, ((faceOf r).map (getI? nodes)).Nodup

/-- **scrip_rt** (repair `C07-scrip-padding`; reader that reads trailing repeats of the last
    corner as padding, `C07-scrip-reader-padding`).  For EVERY standard-form table — any mix of
    face sizes — over nodes whose positions are distinct within each face, the re-read grid has,
    face by face in the same order, the same corner positions in the same cyclic order. -/
theorem scrip_rt {P : Type} [DecidableEq P] (lt : P → P → Bool) (cfg : Cfg)
    (hc : cfg.scripPadLast = true) (n w : Nat) (t : Table) (nodes : List P)
    (hstd : StdForm n w t) (hn : n ≤ nodes.length) (hd : FaceDistinct nodes t) :
    ∃ C, encodeScrip cfg t nodes = some C ∧
      (decodeScripCollapse lt C).2.map (rowPositions (decodeScripCollapse lt C).1)
        = t.map (rowPositions nodes) := by
  obtain ⟨C, hC, hCm⟩ := scrip_encode_some cfg n w t nodes hstd hn (Or.inl hc)
  refine ⟨C, hC, ?_⟩
  unfold decodeScripCollapse decodeScrip
  simp only [List.map_map]
  apply map_rel (·.map some) (fun r => (gatherRow cfg r).map (getI? nodes)) _ _ C t hCm
  intro c hcC r hr hcr
  simp only [Function.comp]
  generalize hu : sortUniqBy lt C.flatten = u
  have hmem : ∀ x ∈ c, x ∈ u := by
    intro x hx; rw [← hu, mem_sortUniqBy]; exact List.mem_flatten.mpr ⟨c, hcC, hx⟩
  have hrow := hstd r hr
  have hpos : 0 < (faceOf r).length := hrow.2.1
  obtain ⟨a, ha⟩ : ∃ a, (faceOf r).getLast? = some a := by
    cases h : (faceOf r).getLast? with
    | none => rw [List.getLast?_eq_none_iff] at h; rw [h] at hpos; simp at hpos
    | some a => exact ⟨a, rfl⟩
  rw [gatherRow_std cfg hc hrow a ha, List.map_append, List.map_replicate] at hcr
  -- split the corner row into the part of the real corners and the padding part
  have hk : (faceOf r).length ≤ c.length := by
    have := congrArg List.length hcr; simp at this; omega
  have hcF : (c.take (faceOf r).length).map some = (faceOf r).map (getI? nodes) := by
    rw [List.map_take, hcr, List.take_left' (by simp)]
  have hcP : (c.drop (faceOf r).length).map some
      = List.replicate (w - (faceOf r).length) (getI? nodes a) := by
    rw [List.map_drop, hcr, List.drop_left' (by simp)]
  obtain ⟨pl, hpl, hga⟩ : ∃ pl, (c.take (faceOf r).length).getLast? = some pl ∧ getI? nodes a = some pl := by
    have := congrArg List.getLast? hcF
    rw [List.getLast?_map, List.getLast?_map, ha] at this
    cases h : (c.take (faceOf r).length).getLast? with
    | none => rw [h] at this; simp at this
    | some pl => rw [h] at this; exact ⟨pl, rfl, by simpa using this.symm⟩
  have hpad : c.drop (faceOf r).length = List.replicate (w - (faceOf r).length) pl := by
    rw [List.eq_replicate_iff]
    refine ⟨by have := congrArg List.length hcP; simpa using this, ?_⟩
    intro b hbm
    have : some b ∈ (c.drop (faceOf r).length).map some := List.mem_map.mpr ⟨b, hbm, rfl⟩
    rw [hcP, hga] at this
    exact Option.some.inj (List.mem_replicate.mp this).2
  have hnd : (c.take (faceOf r).length).Nodup := nodup_of_map some _ (hcF ▸ hd r hr)
  obtain ⟨cB, hcB⟩ := List.getLast?_eq_some_iff.mp hpl
  have hc_eq : c = cB ++ [pl] ++ List.replicate (w - (faceOf r).length) pl := by
    rw [← hcB, ← hpad, List.take_append_drop]
  -- the ranks of the row, collapsed
  have hB : (cB.map (rank u)).getLast? ≠ some (rank u pl) := by
    rw [List.getLast?_map]
    intro h
    cases hb' : cB.getLast? with
    | none => rw [hb'] at h; simp at h
    | some b =>
      rw [hb'] at h
      have hbm : b ∈ cB := by
        obtain ⟨ys, rfl⟩ := List.getLast?_eq_some_iff.mp hb'; simp
      have hbu : b ∈ u := hmem b (by rw [hc_eq]; simp [hbm])
      have hpu : pl ∈ u := hmem pl (by rw [hc_eq]; simp)
      have : b = pl := rank_inj u b pl hbu hpu (by simpa using h)
      rw [hcB] at hnd
      have := (List.nodup_append.mp hnd).2.2 b hbm pl (by simp)
      contradiction
  have hcol : collapseRow (c.map (rank u))
      = (c.take (faceOf r).length).map (rank u) ++ List.replicate (w - (faceOf r).length) FILL := by
    conv => lhs; rw [hc_eq]
    rw [List.map_append, List.map_append, List.map_replicate, List.append_assoc]
    have : [pl].map (rank u) ++ List.replicate (w - (faceOf r).length) (rank u pl)
        = List.replicate (w - (faceOf r).length + 1) (rank u pl) := by
      simp [List.replicate_succ]
    rw [this, collapseRow_pad _ _ _ hB, hcB]
    simp
  unfold rowPositions
  rw [hcol, faceOf_append_fill]
  · rw [List.map_map, ← hcF, ]
    apply List.map_congr_left
    intro x hx
    simp only [Function.comp]
    exact getI?_rank u x (hmem x (List.mem_of_mem_take hx))
  · intro x hx
    obtain ⟨y, _, rfl⟩ := List.mem_map.mp hx
    exact rank_ne_fill u y

/-- non-vacuity: a quad and a pentagon over distinct positions -/
example : StdForm 5 5 [[0, 1, 2, 3, FILL], [0, 1, 2, 3, 4]] ∧
    FaceDistinct [10, 11, 12, 13, 14] [[0, 1, 2, 3, FILL], [0, 1, 2, 3, 4]] := by
  refine ⟨by decide, ?_⟩
  intro r hr
  simp only [List.mem_cons, List.not_mem_nil, or_false] at hr
  rcases hr with rfl | rfl <;> decide
example : (encodeScrip Cfg.repaired [[0, 1, 2, 3, FILL], [0, 1, 2, 3, 4]] [10, 11, 12, 13, 14]).map
    (fun C => (decodeScripCollapse intLt C).2) = some [[0, 1, 2, 3, FILL], [0, 1, 2, 3, 4]] := by decide

/-- **as is** the padding value itself is used as an index: a mixed grid cannot be encoded -/
theorem asis_scrip_mixed_raises :
    encodeScrip Cfg.asis [[0, 1, 2, 3, FILL], [0, 1, 2, 3, 4]] [10, 11, 12, 13, 14] = none := by decide

/-- **the reader as it stands** keeps the repeated corner: the re-read quad has five corners -/
theorem asis_scrip_reader_keeps_padding :
    (encodeScrip Cfg.repaired [[0, 1, 2, 3, FILL], [0, 1, 2, 3, 4]] [10, 11, 12, 13, 14]).map
      (fun C => (decodeScrip intLt C).2) = some [[0, 1, 2, 3, 3], [0, 1, 2, 3, 4]] := by decide

/-! ## 6. the decidable round-trip specification the driver evaluates on the real reader's output -/

theorem isRotation_refl (a : List Int) : isRotation a a = true := by
  unfold isRotation
  cases a with
  | nil => simp
  | cons x xs =>
    simp only [beq_self_eq_true, Bool.true_and, Bool.or_eq_true, List.any_eq_true]
    right
    exact ⟨0, by simp, by simp⟩

/-- what `isRotation` accepts: equal length and the same cyclic sequence from another start corner
    (never the reversed one) -/
theorem isRotation_sound (a b : List Int) (h : isRotation a b = true) :
    a.length = b.length ∧ (a = [] ∨ ∃ k, k < a.length ∧ a.rotateLeft k = b) := by
  unfold isRotation at h
  simp only [Bool.and_eq_true, beq_iff_eq, Bool.or_eq_true, List.isEmpty_iff, List.any_eq_true,
    List.mem_range] at h
  refine ⟨h.1, ?_⟩
  rcases h.2 with h2 | ⟨k, hk, h2⟩
  · left; exact h2
  · right; exact ⟨k, hk, h2⟩

theorem sameFacesOrdered_refl (fs : List (List Int)) : sameFacesOrdered fs fs = true := by
  unfold sameFacesOrdered
  simp only [beq_self_eq_true, Bool.true_and, List.all_eq_true]
  induction fs with
  | nil => simp
  | cons f fs ih =>
    intro p hp
    simp only [List.zip_cons_cons, List.mem_cons] at hp
    rcases hp with rfl | hp
    · exact isRotation_refl _
    · exact ih p hp

/-- a permutation of the faces meets the Exodus clause -/
theorem perm_sameFacesMultiset (orig got : List (List Int)) (h : orig.Perm got) :
    sameFacesMultiset orig got = true := by
  unfold sameFacesMultiset
  simp only [Bool.and_eq_true, beq_iff_eq, List.all_eq_true]
  exact ⟨h.length_eq, fun f _ => h.countP_eq _⟩

/-- the model's Exodus round trip meets the specification evaluated on the implementation -/
theorem exodus_meets_spec {P X} (cfg : Cfg) (h1 : cfg.exoFillTest = true) (h2 : cfg.exoStartAccum = true)
    (radToXyz : P → X) (deg2rad : P → P) (stored : Option (List X)) (n w : Nat) (t : Table)
    (nodes : List P) (hstd : StdForm n w t)
    (hk : ∀ r ∈ t, elemTypeKnown (faceOf r).length = true) :
    ∃ out, encodeExodus cfg radToXyz deg2rad stored w t nodes = some out ∧
      RoundTripOK .exodus (t.map faceOf) ((decodeExodusAll out.blocks).map faceOf) = true := by
  obtain ⟨out, h, hp, _⟩ := exodus_rt_perm cfg h1 h2 radToXyz deg2rad stored n w t nodes hstd hk
  exact ⟨out, h, perm_sameFacesMultiset _ _ hp.symm⟩

/-- the UGRID round trip meets it (same table, same order) -/
theorem ugrid_meets_spec {P} (cfg : Cfg) (tmpl : Topo) (d : Ds P) (ht : TemplateOK tmpl)
    (hc : HasCoords cfg d.vars) (hp : PairsOK d.vars) (hcons : GridConsistent d) :
    ∃ t nodes, decodeUgrid (encodeUgrid cfg tmpl d).1 = some (t, nodes) ∧ nodes = d.nodes ∧
      RoundTripOK .ugrid (d.table.map faceOf) (t.map faceOf) = true :=
  ⟨d.table, d.nodes, ugrid_rt cfg tmpl d ht hc hp hcons, rfl, sameFacesOrdered_refl _⟩

/-- the specification is not trivially true: a reversed face, a missing face, a face in the wrong
    place (ordered formats) are rejected; a rotated start corner and, for Exodus, another face
    order are accepted -/
example : RoundTripOK .ugrid [[0, 1, 2, 3]] [[3, 2, 1, 0]] = false := by decide
example : RoundTripOK .exodus [[0, 1, 2], [0, 2, 3, 4]] [[0, 2, 3, 4]] = false := by decide
example : RoundTripOK .scrip [[0, 1, 2], [0, 2, 3, 4]] [[0, 2, 3, 4], [0, 1, 2]] = false := by decide
example : RoundTripOK .exodus [[0, 1, 2], [0, 2, 3, 4]] [[2, 3, 4, 0], [1, 2, 0]] = true := by decide
example : RoundTripOK .scrip [[0, 1, 2], [0, 2, 3, 4]] [[1, 2, 0], [0, 2, 3, 4]] = true := by decide

/-! ## 7. the reader side of this model agrees with C01's reader models (`Model/Readers.lean`)

  C01 ties `UxVerif.Readers.decodeUgrid / decodeExodus / decodeScrip` to the real readers by its own
  correspondence run.  The theorems below state that, on everything the encoders of this file can
  emit (and in fact on far more), those decoders and the decode side of `Model/Encode.lean` give the
  same result, and re-express the three round trips THROUGH C01's decoders. -/

theorem minList_eq_min? : ∀ l : List Int, Readers.minList l = l.min?
  | [] => rfl
  | [x] => by simp [Readers.minList]
  | x :: y :: l => by
    have ih := minList_eq_min? (y :: l)
    rw [Readers.minList, ih, List.min?_cons (xs := y :: l)]
    cases h : (y :: l).min? with
    | none => simp at h
    | some m =>
      simp only [Option.elim]
      by_cases hx : x ≤ m <;> simp [hx, Int.min_def]

/-- the UGRID variable the exporter writes, as a C01 source: `int64`, `_FillValue = INT_FILL_VALUE`,
    the `start_index` attribute it carries -/
def c01Source (start : Option Int) (t : Table) : Readers.USource :=
  { cells := t.map (·.map Readers.Cell.val), fillAttr := some (.val FILL), startAttr := start, store := .i64 }

theorem c01_replaceFill (t : Table) :
    Readers.replaceFill (some (.val FILL)) (t.map (·.map Readers.Cell.val)) = t := by
  unfold Readers.replaceFill
  rw [List.map_map]
  conv => rhs; rw [← List.map_id t]
  apply List.map_congr_left
  intro r _
  simp only [Function.comp, List.map_map, id]
  conv => rhs; rw [← List.map_id r]
  apply List.map_congr_left
  intro x _
  simp only [Function.comp, Readers.cellInt, Readers.isFillCell, id]
  by_cases h : x = FILL <;> simp [h]

theorem c01_hasBad (t : Table) :
    Readers.hasBad (some (.val FILL)) (t.map (·.map Readers.Cell.val)) = false := by
  unfold Readers.hasBad
  rw [List.any_eq_false]
  intro r hr
  obtain ⟨r0, _, rfl⟩ := List.mem_map.mp hr
  rw [Bool.not_eq_true, List.any_eq_false]
  intro c hc
  obtain ⟨x, _, rfl⟩ := List.mem_map.mp hc
  simp [Readers.badCell]

/-- **UGRID readers agree** on the exporter's dialect, for EVERY table and for a present (any
    value, `0` included) as well as an absent `start_index` attribute:
    C01's repaired `_standardize_connectivity` is this file's `standardize`. -/
theorem ugrid_readers_agree (start : Option Int) (t : Table) :
    Readers.decodeUgrid (c01Source start t) = .ok (standardize start t) := by
  unfold Readers.decodeUgrid c01Source
  simp only [Readers.origFill, c01_hasBad, Bool.false_eq_true, if_false, c01_replaceFill]
  congr 1
  unfold standardize shiftTable Readers.shift Readers.shiftRow Readers.startOf minNonFill Readers.nonFill
  cases start with
  | some a => rfl
  | none => simp only [minList_eq_min?]

/-- the exported table of a padded mesh is literally C01's UGRID source in the dialect
    `base 0, start_index declared, _FillValue = INT_FILL_VALUE, int64` -/
theorem export_is_c01_dialect (w : Nat) (m : Mesh) :
    c01Source (some 0) (pad w m) =
      Readers.encodeUgrid { base := 0, declared := true, fill := .int FILL, store := .i64 } w m := by
  unfold c01Source Readers.encodeUgrid pad
  simp only [List.map_map, Readers.fillAttrOf, if_true]
  congr 1
  apply List.map_congr_left
  intro f _
  simp [Function.comp, padRow, Readers.encRow, Readers.padCell, List.map_append, List.map_map]

/-- **ugrid_rt through C01's decoder**: the reader model that C01 ties to the code, applied to
    the exported `face_node_connectivity` variable (with the `start_index` attribute it really
    carries: the grid's, copied), returns the grid's table — whatever else is in the dataset. -/
theorem ugrid_rt_via_c01 {P} (cfg : Cfg) (tmpl : Topo) (d : Ds P) (hcons : GridConsistent d) :
    Readers.decodeUgrid (c01Source (encodeUgrid cfg tmpl d).1.fnStart (encodeUgrid cfg tmpl d).1.table)
      = .ok d.table := by
  rw [ugrid_readers_agree]
  unfold GridConsistent at hcons
  simp only [encodeUgrid]
  rw [hcons]

/-- padding a row with `FILL` does not change the face it stores -/
theorem faceOf_append_replicate_fill (a : List Int) (k : Nat) :
    faceOf (a ++ List.replicate k FILL) = faceOf a := by
  unfold faceOf
  induction a with
  | nil => cases k <;> simp [List.replicate_succ]
  | cons x a ih =>
    simp only [List.cons_append, List.takeWhile_cons]
    split
    · rw [ih]
    · rfl

theorem flatMap_congr' {α β : Type} (l : List α) (f g : α → List β) (h : ∀ a ∈ l, f a = g a) :
    l.flatMap f = l.flatMap g := by
  induction l with
  | nil => rfl
  | cons a l ih =>
    simp only [List.flatMap_cons]
    rw [h a (by simp), ih (fun b hb => h b (by simp [hb]))]

/-- **Exodus readers agree** on the faces, for EVERY list of blocks: C01's repaired reader pads
    each block with zeros to the widest ROW before `- 1`, this file's pads with the fill value to the
    widest `num_nod_per_el` after it — the tables can differ only in the number of trailing padding
    columns (not at all for the rectangular, non-empty blocks the encoder writes). -/
theorem exodus_readers_agree (bs : List Block) :
    (Readers.decodeExodus (bs.map (·.connect))).map faceOf = (decodeExodusAll bs).map faceOf := by
  unfold Readers.decodeExodus decodeExodusAll
  simp only [List.flatMap_map, List.map_flatMap, List.map_map]
  apply flatMap_congr'
  intro b _
  apply List.map_congr_left
  intro r _
  simp only [Function.comp, exoDecRow, List.map_append, List.map_replicate]
  have : (if (0 : Int) - 1 = -1 then FILL else 0 - 1) = FILL := by decide
  rw [this, faceOf_append_replicate_fill, faceOf_append_replicate_fill]

/-- **exodus_rt_perm through C01's decoder** (all blocks, the reader now in the tree) -/
theorem exodus_rt_perm_via_c01 {P X} (cfg : Cfg) (h1 : cfg.exoFillTest = true) (h2 : cfg.exoStartAccum = true)
    (radToXyz : P → X) (deg2rad : P → P) (stored : Option (List X)) (n w : Nat) (t : Table)
    (nodes : List P) (hstd : StdForm n w t)
    (hk : ∀ r ∈ t, elemTypeKnown (faceOf r).length = true) :
    ∃ out, encodeExodus cfg radToXyz deg2rad stored w t nodes = some out ∧
      ((Readers.decodeExodus (out.blocks.map (·.connect))).map faceOf).Perm (t.map faceOf) := by
  obtain ⟨out, h, hp, _⟩ := exodus_rt_perm cfg h1 h2 radToXyz deg2rad stored n w t nodes hstd hk
  exact ⟨out, h, by rw [exodus_readers_agree]; exact hp⟩

/-- the Exodus encoder as it stands in the tree (one full-width block) through C01's decoder:
    the same faces in the same order -/
theorem exodus_single_block_via_c01 {P X} (cfg : Cfg) (h1 : cfg.exoFillTest = false)
    (radToXyz : P → X) (deg2rad : P → P) (stored : Option (List X)) (n w : Nat) (t : Table)
    (nodes : List P) (hstd : StdForm n w t) (hne : t ≠ []) (hk : elemTypeKnown w = true) :
    ∃ out, encodeExodus cfg radToXyz deg2rad stored w t nodes = some out ∧
      (Readers.decodeExodus (out.blocks.map (·.connect))).map faceOf = t.map faceOf := by
  obtain ⟨out, h, hdec, hlen⟩ := exodus_rt_single_block cfg h1 radToXyz deg2rad stored n w t nodes hstd hne hk
  refine ⟨out, h, ?_⟩
  rw [exodus_readers_agree]
  obtain ⟨b, hb⟩ : ∃ b, out.blocks = [b] := by
    cases hbs : out.blocks with
    | nil => rw [hbs] at hlen; simp at hlen
    | cons b rest =>
      cases rest with
      | nil => exact ⟨b, rfl⟩
      | cons c rest' => rw [hbs] at hlen; simp at hlen
  have : decodeExodusAll out.blocks = decodeExodusLast out.blocks := by
    rw [hb]; simp [decodeExodusAll, decodeExodusLast]
  rw [this, hdec]

/-- `rank` does not depend on which (lawful) equality test is used -/
theorem rank_inst {α : Type} (i1 i2 : BEq α) [@LawfulBEq α i1] [@LawfulBEq α i2] (l : List α) (x : α) :
    @rank α i1 l x = @rank α i2 l x := by
  have hb : ∀ a b : α, @BEq.beq α i1 a b = @BEq.beq α i2 a b := by
    intro a b
    by_cases h : a = b
    · subst h; rw [(@beq_iff_eq α i1 _ a a).mpr rfl, (@beq_iff_eq α i2 _ a a).mpr rfl]
    · have h1 : @BEq.beq α i1 a b = false := by
        cases hh : @BEq.beq α i1 a b with
        | false => rfl
        | true => exact absurd (@LawfulBEq.eq_of_beq α i1 _ _ _ hh) h
      have h2 : @BEq.beq α i2 a b = false := by
        cases hh : @BEq.beq α i2 a b with
        | false => rfl
        | true => exact absurd (@LawfulBEq.eq_of_beq α i2 _ _ _ hh) h
      rw [h1, h2]
  unfold rank
  congr 1
  induction l with
  | nil => rfl
  | cons a l ih =>
    rw [@List.idxOf_cons α a l x i1, @List.idxOf_cons α a l x i2, hb, ih]

/-- C01's `scripPad` + `-1 → FILL` is this file's `collapseRow` on rows of ranks -/
theorem scripPad_eq_collapseRow (r : List Int) (h : ∀ x ∈ r, x ≠ -1) :
    (Readers.scripPad r).map (fun x => if x = -1 then FILL else x) = collapseRow r := by
  unfold Readers.scripPad Readers.lastRun collapseRow
  cases hr : r.reverse with
  | nil =>
    have : r = [] := by simpa using hr
    subst this; simp
  | cons a rest =>
    have hlast : r.getLastD 0 = a := by
      have : r = (a :: rest).reverse := by rw [← hr, List.reverse_reverse]
      rw [this]; simp [List.getLastD_eq_getLast?]
    simp only [hlast, List.takeWhile_cons, beq_self_eq_true, if_true, List.length_cons,
      Nat.add_sub_cancel, List.map_append, List.map_replicate]
    congr 1
    conv => rhs; rw [← List.map_id (List.take _ r)]
    apply List.map_congr_left
    intro x hx
    have := h x (List.mem_of_mem_take hx)
    simp [this]

/-- **SCRIP readers agree** on EVERY corner table: C01's repaired `decodeScrip` is this file's
    `decodeScripCollapse` at `P = Int × Int` with the lexicographic order of `np.unique(axis=0)`. -/
theorem scrip_readers_agree (C : List (List Readers.Key)) :
    Readers.decodeScrip C = (decodeScripCollapse pairLt C).2 ∧
    Readers.scripNodes C = (decodeScripCollapse pairLt C).1 := by
  refine ⟨?_, rfl⟩
  unfold Readers.decodeScrip decodeScripCollapse decodeScrip Readers.scripNodes uniqPair
  simp only [List.map_map]
  apply List.map_congr_left
  intro row _
  simp only [Function.comp]
  have hrow : row.map (@rank Readers.Key instBEqProd (sortUniqBy pairLt C.flatten))
      = row.map (@rank Readers.Key instBEqOfDecidableEq (sortUniqBy pairLt C.flatten)) :=
    List.map_congr_left (fun k _ => rank_inst instBEqProd instBEqOfDecidableEq _ k)
  rw [hrow]
  apply scripPad_eq_collapseRow
  intro x hx
  obtain ⟨k, _, rfl⟩ := List.mem_map.mp hx
  intro hx1
  unfold rank at hx1
  have : (0 : Int) ≤ -1 := hx1 ▸ Int.natCast_nonneg _
  exact absurd this (by decide)

/-- **scrip_rt through C01's decoder**: for every standard-form table of any size mix over nodes
    at integer-pair positions that are distinct within each face, the encoder's corner table
    decoded by C01's `decodeScrip` has, face by face in order, the original corner positions. -/
theorem scrip_rt_via_c01 (cfg : Cfg) (hc : cfg.scripPadLast = true) (n w : Nat) (t : Table)
    (nodes : List Readers.Key) (hstd : StdForm n w t) (hn : n ≤ nodes.length)
    (hd : FaceDistinct nodes t) :
    ∃ C, encodeScrip cfg t nodes = some C ∧
      (Readers.decodeScrip C).map (rowPositions (Readers.scripNodes C)) = t.map (rowPositions nodes) := by
  obtain ⟨C, hC, h⟩ := scrip_rt pairLt cfg hc n w t nodes hstd hn hd
  exact ⟨C, hC, by rw [(scrip_readers_agree C).1, (scrip_readers_agree C).2]; exact h⟩

/-- non-vacuity of the agreement: a mixed table through both SCRIP decoders, and a table not
    using index 0 through both UGRID decoders with and without the attribute -/
example : (encodeScrip Cfg.repaired [[0, 1, 2, 3, FILL], [0, 1, 2, 3, 4]]
      [((10 : Int), (0 : Int)), (11, 0), (12, 0), (13, 1), (14, 5)]).map Readers.decodeScrip
    = some [[0, 1, 2, 3, FILL], [0, 1, 2, 3, 4]] := by decide
example : (Readers.decodeUgrid (c01Source (some 0) [[1, 2, 3, FILL], [1, 3, 4, 5]])).toOption
      = some [[1, 2, 3, FILL], [1, 3, 4, 5]] ∧
    (Readers.decodeUgrid (c01Source none [[1, 2, 3, FILL], [1, 3, 4, 5]])).toOption
      = some [[0, 1, 2, FILL], [0, 2, 3, 4]] := by
  decide

/-! ## 8. the entry point does not matter -/

/-- **entry_point_irrelevant.**  `Grid.to_xarray` and `Grid.encode_as` are two dispatchers onto
    the same encoders: whenever both accept their argument for the same format, they return the
    same export and leave the same template, for every grid, whatever was materialised on it —
    the export is a function of (grid, format) only.  (The harness maps both entry points to the one
    model operation `Op.encode`, so a difference between them in the code is a correspondence
    mismatch, and — as in seeded change C07d — a failure of `topology_closed` on the one that lags.) -/
theorem entry_point_irrelevant {P X} (cfg : Cfg) (env : Env P X) (tmpl : Topo) (d : Ds P)
    (e1 e2 : Entry) (s1 s2 : String) (f : Fmt) (h1 : e1.parse s1 = some f) (h2 : e2.parse s2 = some f) :
    exportVia cfg env tmpl d e1 s1 = exportVia cfg env tmpl d e2 s2 ∧
    exportVia cfg env tmpl d e1 s1 = some (encodeOne cfg env tmpl d f) := by
  unfold exportVia
  rw [h1, h2]; exact ⟨rfl, rfl⟩

/-- the accepted spellings, and that the two dispatchers cover the same formats -/
theorem entry_spellings :
    (["ugrid", "exodus", "scrip"].map (Entry.parse .toXarray) = [some .ugrid, some .exodus, some .scrip]) ∧
    (["UGRID", "Exodus", "SCRIP"].map (Entry.parse .encodeAs) = [some .ugrid, some .exodus, some .scrip]) ∧
    (["UGRID", "Ugrid", "netcdf"].map (Entry.parse .toXarray) = [none, none, none]) ∧
    (["ugrid", "EXODUS", "scrip"].map (Entry.parse .encodeAs) = [none, none, none]) := by decide

/-! ## 9. Exodus for every face size -/

theorem elemType_total (h : exoTotalFrom3 = true) (k : Nat) (h3 : 3 ≤ k) : elemTypeKnown k = true := by
  unfold exoTotalFrom3 at h
  rw [Bool.and_eq_true] at h
  by_cases hk : k < 17
  · have := List.all_eq_true.mp h.1 k (List.mem_range.mpr hk)
    have h3' : decide (k < 3) = false := by simp; omega
    simpa [h3'] using this
  · unfold elemTypeKnown
    cases hg : Gen.Conv.EXODUS_GENERIC_FROM with
    | none => rw [hg] at h; simp at h
    | some g =>
      rw [hg] at h
      have hg17 : g ≤ 17 := by simpa using h.2
      have : g ≤ k := by omega
      simp [this]

/-- **exodus_rt_perm, every face size** (repair `C07-exodus-element-type-any-size`): with an element
    type for every polygon the size hypothesis of `exodus_rt_perm` is gone — for EVERY standard-form
    table whose faces have at least three corners (9-gons, 10-gons, … included), the encoder does not
    raise, the blocks are rectangular, and a reader of all blocks (this file's and C01's) gets the
    faces back as a multiset. -/
theorem exodus_rt_perm_total {P X} (htot : exoTotalFrom3 = true) (cfg : Cfg)
    (h1 : cfg.exoFillTest = true) (h2 : cfg.exoStartAccum = true)
    (radToXyz : P → X) (deg2rad : P → P) (stored : Option (List X)) (n w : Nat) (t : Table)
    (nodes : List P) (hstd : StdForm n w t) (h3 : ∀ r ∈ t, 3 ≤ (faceOf r).length) :
    ∃ out, encodeExodus cfg radToXyz deg2rad stored w t nodes = some out ∧
      ((decodeExodusAll out.blocks).map faceOf).Perm (t.map faceOf) ∧
      ((Readers.decodeExodus (out.blocks.map (·.connect))).map faceOf).Perm (t.map faceOf) ∧
      (∀ b ∈ out.blocks, ∀ r ∈ b.connect, r.length = b.nodesPerEl) := by
  obtain ⟨out, h, hp, hr⟩ := exodus_rt_perm cfg h1 h2 radToXyz deg2rad stored n w t nodes hstd
    (fun r hr => elemType_total htot _ (h3 r hr))
  exact ⟨out, h, hp, by rw [exodus_readers_agree]; exact hp, hr⟩

/-- the single full-width block the tree's encoder writes, for every width `≥ 3` -/
theorem exodus_single_block_total {P X} (htot : exoTotalFrom3 = true) (cfg : Cfg) (h1 : cfg.exoFillTest = false)
    (radToXyz : P → X) (deg2rad : P → P) (stored : Option (List X)) (n w : Nat) (t : Table)
    (nodes : List P) (hstd : StdForm n w t) (hne : t ≠ []) (hw : 3 ≤ w) :
    ∃ out, encodeExodus cfg radToXyz deg2rad stored w t nodes = some out ∧
      decodeExodusLast out.blocks = t ∧
      (Readers.decodeExodus (out.blocks.map (·.connect))).map faceOf = t.map faceOf := by
  obtain ⟨out, h, hd, _⟩ := exodus_rt_single_block cfg h1 radToXyz deg2rad stored n w t nodes hstd hne
    (elemType_total htot w hw)
  obtain ⟨out', h', hd'⟩ := exodus_single_block_via_c01 cfg h1 radToXyz deg2rad stored n w t nodes hstd hne
    (elemType_total htot w hw)
  rw [h] at h'; cases h'
  exact ⟨out, h, hd, hd'⟩

/-- non-vacuity (holds whichever tree the tables were regenerated from): the totality facts are
    true, or the function has no rule beyond its table — and a table with a 9-gon is standard form -/
example : exoTotalFrom3 = true ∨ Gen.Conv.EXODUS_GENERIC_FROM = none := by decide
example : StdForm 9 9 [[0, 1, 2, 3, 4, 5, 6, 7, 8], [0, 1, 2, FILL, FILL, FILL, FILL, FILL, FILL]] ∧
    (∀ r ∈ ([[0, 1, 2, 3, 4, 5, 6, 7, 8], [0, 1, 2, FILL, FILL, FILL, FILL, FILL, FILL]] : Table),
      3 ≤ (faceOf r).length) := by decide

/-! ## 10. xarray's `.encoding`: the export of a file-sourced grid can be written -/

theorem encOf_map (g : String × List String → String × List String) (hg : ∀ p, (g p).1 = p.1)
    (e : Encodings) (name : String) :
    encOf (e.map g) name = ((e.find? (fun p => p.1 == name)).map (fun p => (g p).2)).getD [] := by
  unfold encOf
  rw [List.find?_map]
  have : ((fun p : String × List String => p.1 == name) ∘ g) = (fun p => p.1 == name) := by
    funext p; simp [Function.comp, hg p]
  rw [this]
  cases e.find? (fun p => p.1 == name) <;> rfl

/-- the encoding keys of an exported variable are among those of the grid's variable; with the
    repair, a variable carrying a `_FillValue` attribute keeps none of the stale keys -/
theorem exportEncoding_spec (cfg : Cfg) (vs : List Var) (e : Encodings) (name k : String)
    (hk : k ∈ encOf (exportEncoding cfg vs e) name) :
    k ∈ encOf e name ∧ (cfg.dropStaleEncoding = true → hasFillAttr vs name = true → k ∉ staleKeys) := by
  unfold exportEncoding at hk
  cases hc : cfg.dropStaleEncoding with
  | false => rw [hc] at hk; exact ⟨by simpa using hk, fun h => by cases h⟩
  | true =>
    rw [hc] at hk
    simp only [if_true] at hk
    rw [encOf_map _ (fun p => by split <;> rfl)] at hk
    unfold encOf
    cases hf : e.find? (fun p => p.1 == name) with
    | none => rw [hf] at hk; simp at hk
    | some p =>
      rw [hf] at hk
      have hpn : p.1 = name := by
        have := List.find?_some hf; simpa using this
      simp only [Option.map_some, Option.getD_some] at hk ⊢
      split at hk
      · rename_i hfill
        have := List.mem_filter.mp hk
        refine ⟨this.1, fun _ _ => ?_⟩
        intro hst
        have h2 := this.2
        simp at h2
        exact h2 hst
      · rename_i hnofill
        refine ⟨hk, fun _ hfa => ?_⟩
        rw [hpn] at hnofill
        exact absurd hfa hnofill

/-- the only attribute/encoding clashes a grid's dataset has are the fill declarations of variables
    that carry a `_FillValue` attribute (what `xr.open_dataset` + the readers' standardisation leave:
    the file's `_FillValue`/`missing_value` in `.encoding`, the standard one in `.attrs`) -/
def OnlyFillClashes (vs : List Var) (e : Encodings) : Prop :=
  ∀ v ∈ vs, ∀ k ∈ encOf e v.name, k ∈ cfEncodingKeys → (v.attrs.any (fun a => a.1 == k)) = true →
    k ∈ staleKeys ∧ (v.attrs.any (fun a => a.1 == "_FillValue")) = true

instance (vs e) : Decidable (OnlyFillClashes vs e) := by unfold OnlyFillClashes; infer_instance

/-- **export_writable** (repairs `C07-ugrid-export-attrs` and `C07-ugrid-export-stale-encoding`, the
    latter committed as d4dd3713): for EVERY grid dataset — any variables, any attributes, any
    `.encoding` left by the file it was read from — whose only attribute/encoding clashes are fill
    declarations, the UGRID export can be written by `to_netcdf`: every attribute is a netCDF
    attribute and no exported variable has a CF encoding key that is also one of its attributes. -/
theorem export_writable {P} (cfg : Cfg) (hs : cfg.stripAttrs = true) (hd : cfg.dropStaleEncoding = true)
    (tmpl : Topo) (d : Ds P)
    (hclash : OnlyFillClashes ((exportVars cfg d.vars).map Var.strip) d.encoding) :
    (encodeUgrid cfg tmpl d).1.writable = true := by
  unfold UgridOut.writable
  rw [Bool.and_eq_true]
  refine ⟨ugrid_serialisable cfg hs tmpl d, ?_⟩
  unfold encodeUgrid
  simp only [hs, if_true]
  rw [List.all_eq_true]
  intro v hv
  simp only [Bool.not_eq_eq_eq_not, Bool.not_true]
  unfold encodingConflict
  rw [List.any_eq_false]
  intro k hk hcon
  rw [Bool.and_eq_true] at hcon
  obtain ⟨hk1, hk2⟩ := exportEncoding_spec cfg _ d.encoding v.name k hk
  obtain ⟨hst, hfill⟩ := hclash v hv k hk1 (List.contains_iff_mem.mp hcon.1) hcon.2
  have hfa : hasFillAttr ((exportVars cfg d.vars).map Var.strip) v.name = true := by
    unfold hasFillAttr
    rw [List.any_eq_true]
    exact ⟨v, hv, by simp [hfill]⟩
  exact hk2 hd hfa hst

/-- a grid read from a UGRID file: the reader put the standard `_FillValue` into the attributes of
    `face_node_connectivity`, the file's one is still in its `.encoding` -/
def exFileSourced : Ds Nat :=
  { table := [[0, 1, 2]], nodes := [0, 1, 2], lonlat := true, extras := []
    encoding := [("face_node_connectivity", ["_FillValue", "dtype", "zlib", "source"]),
                 ("node_lon", ["dtype", "source"])] }

/-- **as is** (before d4dd3713) the export of such a grid is refused by `to_netcdf`; repaired it is
    written, and keeps the encoding keys that do no harm -/
theorem asis_stale_encoding_not_writable :
    (encodeUgrid { Cfg.repaired with dropStaleEncoding := false } Gen.Conv.BASE_GRID_TOPOLOGY_ATTRS exFileSourced).1.writable = false ∧
    (encodeUgrid Cfg.repaired Gen.Conv.BASE_GRID_TOPOLOGY_ATTRS exFileSourced).1.writable = true ∧
    encOf (encodeUgrid Cfg.repaired Gen.Conv.BASE_GRID_TOPOLOGY_ATTRS exFileSourced).1.encoding "face_node_connectivity"
      = ["zlib", "source"] := by decide

/-- non-vacuity of `export_writable`'s hypothesis -/
example : OnlyFillClashes ((exportVars Cfg.repaired exFileSourced.vars).map Var.strip) exFileSourced.encoding := by
  decide

/-! ## 11. grids made by the reader: the attributes describe the stored values -/

theorem minNonFill_eq (t : Table) : minNonFill t = Readers.minList (Readers.nonFill t) := by
  unfold minNonFill Readers.nonFill; rw [minList_eq_min?]

theorem shiftTable_eq (a : Int) (t : Table) : shiftTable a t = Readers.shift a t := rfl

/-- after subtracting the smallest real entry, the smallest real entry is `0` (or there is none) -/
theorem minNonFill_after_shift (t : Table) :
    (minNonFill (shiftTable ((minNonFill t).getD 0) t)).getD 0 = 0 := by
  unfold minNonFill
  cases hm : (t.flatten.filter (· != FILL)).min? with
  | none =>
    have hnil : t.flatten.filter (· != FILL) = [] := by simpa using hm
    have hall : ∀ r ∈ t, ∀ x ∈ r, x = FILL := by
      intro r hr x hx
      have := List.filter_eq_nil_iff.mp hnil x (List.mem_flatten.mpr ⟨r, hr, hx⟩)
      simpa using this
    have : (shiftTable 0 t).flatten.filter (· != FILL) = [] := by
      rw [List.filter_eq_nil_iff]
      intro x hx
      obtain ⟨r', hr', hx'⟩ := List.mem_flatten.mp hx
      obtain ⟨r, hr, rfl⟩ := List.mem_map.mp hr'
      obtain ⟨y, hy, rfl⟩ := List.mem_map.mp hx'
      simp [hall r hr y hy]
    simp [this]
  | some a =>
    obtain ⟨hmem, hle⟩ := List.min?_eq_some_iff.mp hm
    simp only [Option.getD_some]
    have hmem' := List.mem_filter.mp hmem
    have key : ((shiftTable a t).flatten.filter (· != FILL)).min? = some 0 := by
      rw [List.min?_eq_some_iff]
      constructor
      · obtain ⟨r, hr, hx⟩ := List.mem_flatten.mp hmem'.1
        have ha : a ≠ FILL := by simpa using hmem'.2
        refine List.mem_filter.mpr ⟨List.mem_flatten.mpr ⟨r.map (fun x => if x = FILL then FILL else x - a), ?_, ?_⟩, by decide⟩
        · exact List.mem_map.mpr ⟨r, hr, rfl⟩
        · exact List.mem_map.mpr ⟨a, hx, by simp [ha]⟩
      · intro b hb
        obtain ⟨hb1, hb2⟩ := List.mem_filter.mp hb
        obtain ⟨r', hr', hx'⟩ := List.mem_flatten.mp hb1
        obtain ⟨r, hr, rfl⟩ := List.mem_map.mp hr'
        obtain ⟨y, hy, rfl⟩ := List.mem_map.mp hx'
        by_cases hyf : y = FILL
        · simp [hyf] at hb2
        · have := hle y (List.mem_filter.mpr ⟨List.mem_flatten.mpr ⟨r, hr, hy⟩, by simpa using hyf⟩)
          simp only [hyf, if_false]; omega
    rw [key]; rfl

/-- **standardized_attrs_consistent.**  For EVERY UGRID source variable — every dialect: any base,
    `start_index` declared or not, any fill declaration, any storage type, any entries — what the
    tree's `_standardize_connectivity` leaves on the grid is consistent: `_FillValue` is the fill in the
    table and reading the table under its own `start_index` attribute changes nothing.  (With a
    declared start index the attribute is reset to `0`; with none, the table was re-based to its
    smallest entry, which is therefore `0`.) -/
theorem standardized_attrs_consistent (s : Readers.USource) (v : StdVar)
    (h : standardizeVar .reset s = .ok v) : v.consistent := by
  unfold standardizeVar at h
  cases hd : Readers.decodeUgrid s with
  | error e => rw [hd] at h; cases h
  | ok t =>
    rw [hd] at h
    cases h
    refine ⟨rfl, ?_⟩
    cases hs : s.startAttr with
    | some a => simp only; exact standardize_zero t
    | none =>
      simp only
      -- the table is the source's table shifted by its smallest real entry
      unfold Readers.decodeUgrid at hd
      simp only at hd
      by_cases hb : Readers.hasBad (Readers.origFill s) s.cells = true
      · rw [if_pos hb] at hd; cases hd
      · rw [if_neg hb] at hd
        simp only [hs, Readers.startOf, Except.ok.injEq] at hd
        subst hd
        rw [← shiftTable_eq, ← minNonFill_eq]
        unfold standardize
        simp only
        rw [minNonFill_after_shift]
        exact standardize_zero _

/-- **re-export of a reader-made grid, any source dialect**: the table C01's reader model makes from
    ANY source, exported with the attributes the tree's reader leaves, is read back unchanged by the
    same reader model. -/
theorem ugrid_rt_any_source (s : Readers.USource) (v : StdVar) (h : standardizeVar .reset s = .ok v) :
    Readers.decodeUgrid (c01Source v.startAttr v.table) = .ok v.table := by
  rw [ugrid_readers_agree, (standardized_attrs_consistent s v h).2]

/-- … and through the whole exporter: a grid whose table and `start_index` attribute are what the
    reader made of any source is `GridConsistent`, so `ugrid_rt` / `history_ugrid_rt` apply to it -/
theorem gridConsistent_of_reader {P} (s : Readers.USource) (v : StdVar) (h : standardizeVar .reset s = .ok v)
    (d : Ds P) (ht : d.table = v.table) (hst : d.fnStart = v.startAttr) : GridConsistent d := by
  unfold GridConsistent; rw [ht, hst]; exact (standardized_attrs_consistent s v h).2

/-- a one-based source declaring `start_index = 1` (FESOM / Fortran style), node 0 a corner -/
def exOneBased : Readers.USource :=
  Readers.encodeUgrid { base := 1, declared := true, fill := .int (-1), store := .i32 } 4 [[0, 1, 2], [0, 2, 3, 4]]

/-- non-vacuity + **as-is counterexample for `setdefault`** (seeded change C07f): the tree's reader
    leaves `start_index = 0` on the zero-based table; with `attrs.setdefault("start_index", 0)` the
    declared `1` survives on zero-based values, the variable is inconsistent, and the export
    re-read is shifted once more (node 0 becomes −1) -/
theorem asis_setdefault_inconsistent :
    (standardizeVar .reset exOneBased).toOption
      = some ⟨[[0, 1, 2, FILL], [0, 2, 3, 4]], some 0, some FILL⟩ ∧
    (standardizeVar .setdefault exOneBased).toOption
      = some ⟨[[0, 1, 2, FILL], [0, 2, 3, 4]], some 1, some FILL⟩ ∧
    ¬ (StdVar.mk [[0, 1, 2, FILL], [0, 2, 3, 4]] (some 1) (some FILL)).consistent ∧
    (Readers.decodeUgrid (c01Source (some 1) [[0, 1, 2, FILL], [0, 2, 3, 4]])).toOption
      = some [[-1, 0, 1, FILL], [-1, 1, 2, 3]] := by decide

/-- non-vacuity of the undeclared branch: a source without `start_index` whose lowest index is 5 -/
example : (standardizeVar .reset ⟨[[.val 5, .val 6, .val 7]], none, none, .i64⟩).toOption
    = some ⟨[[0, 1, 2]], none, some FILL⟩ := by decide

end UxVerif.C07
