/-
  C04 — spherical and Cartesian coordinates always denote the same points.

  Model: `UxVerif/Model/Coords.lean` (generic over the scalar type; `R tol ct` below is its
  instantiation at ℝ with `Real.sin/cos/arcsin/sqrt`, `Complex.arg` for `arctan2` and floor-mod).
  The model is the REPAIRED algorithm (`repaired`, fixes/C04-*.patch); `asIs` is the snapshot's,
  for which the property is refuted by proved witnesses (`asis_*`).

  Main theorems (all over ℝ, every list unbounded):
  * `provenance_agree` — for EVERY consistent source (any of the 3·4·4 provenance combinations of
    node / edge-centre / face-centre coordinates, either longitude convention, any radius) and EVERY
    history of accesses (the six lazy getters in any order with any repetition, with
    `normalize_cartesian_coordinates()` interleaved anywhere — induction over the access list),
    every array a getter returns is present, has longitudes in [-180,180] and latitudes in
    [-90,90], and denotes the true positions (lon/lat up to the pole snap, xyz up to length; xyz
    the source did not supply is exactly the unit vector).
  * `reports_agree` — hence any reported (lon, lat) array and any reported (x, y, z) array of the
    same kind, taken anywhere in any history, denote the same directions.
  * `unsupplied_face_centre_is_centroid`, `unsupplied_edge_centre_is_midpoint`,
    `edge_mid_equidistant`, `centroid_radius_invariant`, `derived_xyz_unit`.
  * conversions: `xyz_unit`, `normalize_unit/dir/idem`, `xyz_of_lonlat_of_xyz`,
    `lonlat_of_xyz_agree` (range + same direction incl. pole snap), periodicity
    (`xyz_mod_two_pi`, `dirDeg_wrap180`, `deg2rad_rad2deg`), `deg_range` (any floor field, ℚ, ℝ),
    `sameDir_dot` (the snap costs at most arccos(1 − tol)).
  * full-domain round trip with the code's convention: `lonlat_of_xyz_of_lonlat` (any real longitude,
    lat ∈ [-90,90]: `(wrap180 lon, lat)` outside the snap cap, `(0, ±90)` inside), `_norm`,
    `lonlat_roundtrip_id`; the seam `wrap180_of_mem`, `wrap180_seam` (+180 ↦ -180), `wrap180_periodic`;
    which inputs snap: `snap_branch_iff`, `snap_cap_iff_lat` (|φ| > arcsin (1 − tol)).
  * derived centres read only the element's own real corners: `centroid_row_local`,
    `centroid_renumber`, `centroid_orphans_irrelevant` (unused nodes inserted first / in the middle /
    LAST change nothing), `edge_centre_row_local`, `edge_centre_orphans_irrelevant`.
  * the driver's Boolean checkers decide the Props: `sameDirB_iff`, `rangeB_iff`, `closeB_iff`.
  * counterexamples for the snapshot: `asis_node_lon_out_of_range`, `asis_centre_degrees_as_radians`,
    `asis_centre_nonunit`, `asis_provenance_fails`.

  Not proved: IEEE rounding / libm (the Float run of the same definitions is compared with the
  implementation at 1e-12 by harness/c04.py); NumPy/xarray storage semantics.
-/
import UxVerif.Lemmas.Coords
import Mathlib.Data.List.Forall2
import Mathlib.Algebra.Order.Floor.Ring
import Mathlib.Analysis.SpecialFunctions.Trigonometric.Angle

namespace UxVerif.C04
open UxVerif.Coords UxVerif.CoordsR List

variable {tol ct : ℝ}

/-- the true positions: one unit vector per node, edge centre, face centre -/
structure Truth where
  node : List (V3 ℝ)
  edge : List (V3 ℝ)
  face : List (V3 ℝ)

def Truth.of (T : Truth) : Kind → List (V3 ℝ)
  | .node => T.node
  | .edge => T.edge
  | .face => T.face

/-- a reported (lon, lat) is in range and denotes `t` (to the pole snap) -/
def LLok (tol ct : ℝ) (p : Deg ℝ × Deg ℝ) (t : V3 ℝ) : Prop :=
  InRange p ∧ SameDir tol (dirDeg (R tol ct) p) t

/-- in range and denotes exactly `t` -/
def LLexact (tol ct : ℝ) (p : Deg ℝ × Deg ℝ) (t : V3 ℝ) : Prop :=
  InRange p ∧ dirDeg (R tol ct) p = t

/-- `v` is a positive multiple of `t`: same direction, any length -/
def PosMul (v t : V3 ℝ) : Prop := ∃ c : ℝ, 0 < c ∧ v = V3.smul c t

theorem LLexact.ok {p : Deg ℝ × Deg ℝ} {t : V3 ℝ} (h : LLexact tol ct p t) : LLok tol ct p t :=
  ⟨h.1, Or.inl h.2⟩

theorem PosMul.refl (t : V3 ℝ) : PosMul t t := ⟨1, one_pos, (smul_one t).symm⟩

/-! ### list helpers -/

theorem forall₂_map_self {α β : Type} {P : α → β → Prop} {f : β → α} :
    ∀ {l : List β}, (∀ t ∈ l, P (f t) t) → Forall₂ P (l.map f) l
  | [], _ => Forall₂.nil
  | a :: l, h => Forall₂.cons (h a (by simp)) (forall₂_map_self (fun t ht => h t (by simp [ht])))

theorem forall₂_refl' {β : Type} {P : β → β → Prop} :
    ∀ {l : List β}, (∀ t ∈ l, P t t) → Forall₂ P l l
  | [], _ => Forall₂.nil
  | a :: l, h => Forall₂.cons (h a (by simp)) (forall₂_refl' (fun t ht => h t (by simp [ht])))

theorem forall₂_and_right {α β : Type} {P : α → β → Prop} {Q : β → Prop} {l : List α} {t : List β}
    (h : Forall₂ P l t) (hq : ∀ b ∈ t, Q b) : Forall₂ (fun a b => P a b ∧ Q b) l t := by
  induction h with
  | nil => exact Forall₂.nil
  | cons hab _ ih =>
    exact Forall₂.cons ⟨hab, hq _ (by simp)⟩ (ih (fun b hb => hq b (by simp [hb])))

theorem map_eq_of_forall₂ {α β : Type} {f : α → β} {l : List α} {t : List β}
    (h : Forall₂ (fun a b => f a = b) l t) : l.map f = t := by
  induction h with
  | nil => rfl
  | cons hab _ ih => simp [hab, ih]

theorem forall₂_share {α β γ : Type} {P : α → γ → Prop} {Q : β → γ → Prop} {l : List α} {m : List β}
    {t : List γ} (h1 : Forall₂ P l t) (h2 : Forall₂ Q m t) :
    Forall₂ (fun a b => ∃ c, P a c ∧ Q b c) l m := by
  induction h1 generalizing m with
  | nil => cases h2; exact Forall₂.nil
  | cons hab _ ih =>
    cases h2 with
    | cons hq h2' => exact Forall₂.cons ⟨_, hab, hq⟩ (ih h2')

/-! ### `_set_desired_longitude_range` is the identity once every longitude is ≤ 180 -/

theorem wrapArr_id {l : LL ℝ} {t : List (V3 ℝ)} (h : Forall₂ (LLok tol ct) l t) :
    wrapArr (R tol ct) l = l := by
  have : l.any (fun p => (R tol ct).lt 180 p.1.val) = false := by
    rw [List.any_eq_false]
    intro p hp
    induction h with
    | nil => cases hp
    | cons hab _ ih =>
      rcases List.mem_cons.mp hp with rfl | hp'
      · have := hab.1.2.1
        simp [R, not_lt.mpr this]
      · exact ih hp'
  simp [wrapArr, this]


/-! ### invariants of the provenance state machine -/

/-- node coordinates: whatever is stored denotes the truth; stored xyz has ONE radius; xyz that the
    source did not supply is exactly the unit truth; if xyz is absent the stored lon/lat is exact
    (it came from the source), so xyz can be derived from it without loss -/
structure NodeInv (tol ct : ℝ) (sup : Bool) (tn : List (V3 ℝ)) (ll : Option (LL ℝ))
    (xyz : Option (List (V3 ℝ))) : Prop where
  ll_ok : ∀ l, ll = some l → Forall₂ (LLok tol ct) l tn
  xyz_ok : ∀ xs, xyz = some xs → ∃ r : ℝ, 0 < r ∧ xs = tn.map (V3.smul r)
  xyz_derived : sup = false → ∀ xs, xyz = some xs → xs = tn
  ll_exact : xyz = none → ∃ l, ll = some l ∧ Forall₂ (LLexact tol ct) l tn

/-- centre coordinates of one kind; `Fresh` is what is known when the source supplied neither
    representation (the truth is then the normalised mean of the corners) -/
structure CentreInv (tol ct : ℝ) (sup : Bool) (tc : List (V3 ℝ)) (Fresh : Prop) (ll : Option (LL ℝ))
    (xyz : Option (List (V3 ℝ))) : Prop where
  ll_ok : ∀ l, ll = some l → Forall₂ (LLok tol ct) l tc
  xyz_ok : ∀ xs, xyz = some xs → Forall₂ PosMul xs tc
  xyz_derived : sup = false → ∀ xs, xyz = some xs → xs = tc
  ll_exact : xyz = none → ∀ l, ll = some l → Forall₂ (LLexact tol ct) l tc
  fresh : ll = none → xyz = none → Fresh

theorem centreLL_of_posmul (h0 : 0 < tol) (h1 : tol < 1) {v t : V3 ℝ} (h : PosMul v t) (ht : normSq t = 1) :
    LLok tol ct (centreLLOfStoredXyz (R tol ct) repaired v) t := by
  obtain ⟨c, hc, rfl⟩ := h
  have : centreLLOfStoredXyz (R tol ct) repaired (V3.smul c t) = lonLatDegOfXyz (R tol ct) false t := by
    simp [centreLLOfStoredXyz, repaired, lonLatDeg_norm _ (normSq_posmul_ne c hc t ht), normalize_posmul c hc t ht]
  rw [this]
  exact lonlat_of_unit h0 h1 t ht

/-- what `_populate_node_latlon` stores for one node: latitude in range, longitude ≥ -180 but NOT
    yet wrapped (it lies in [0, 360)), denoting the true point -/
def LLpre (tol ct : ℝ) (p : Deg ℝ × Deg ℝ) (t : V3 ℝ) : Prop :=
  -180 ≤ p.1.val ∧ -90 ≤ p.2.val ∧ p.2.val ≤ 90 ∧ SameDir tol (dirDeg (R tol ct) p) t

theorem nodeLL_of_posmul (h0 : 0 < tol) (h1 : tol < 1) {c : ℝ} (hc : 0 < c) {t : V3 ℝ} (ht : normSq t = 1) :
    LLpre tol ct (nodeLLOfXyz (R tol ct) (V3.smul c t)) t := by
  have h := nodeLL_of_unit (ct := ct) h0 h1 t ht
  simp only [nodeLLOfXyz, lonLatRad_norm _ (normSq_posmul_ne c hc t ht), normalize_posmul c hc t ht]
  exact ⟨h.1.1, h.1.2.1, h.1.2.2, h.2⟩

theorem forall₂_and_left {α β : Type} {P : α → β → Prop} {Q : α → Prop} {l : List α} {t : List β}
    (h : Forall₂ P l t) (hq : ∀ a ∈ l, Q a) : Forall₂ (fun a b => P a b ∧ Q a) l t := by
  induction h with
  | nil => exact Forall₂.nil
  | cons hab _ ih =>
    exact Forall₂.cons ⟨hab, hq _ (by simp)⟩ (ih (fun b hb => hq b (by simp [hb])))

/-- `_set_desired_longitude_range` on an array whose longitudes are ≥ -180 (possibly above 180):
    afterwards every longitude is in [-180, 180] and every pair still denotes the same point -/
theorem wrapArr_gen {P : V3 ℝ → V3 ℝ → Prop} {l : LL ℝ} {t : List (V3 ℝ)}
    (h : Forall₂ (fun p t => -180 ≤ p.1.val ∧ -90 ≤ p.2.val ∧ p.2.val ≤ 90 ∧ P (dirDeg (R tol ct) p) t) l t) :
    Forall₂ (fun p t => InRange p ∧ P (dirDeg (R tol ct) p) t) (wrapArr (R tol ct) l) t := by
  unfold wrapArr
  split
  · rw [forall₂_map_left_iff]
    refine h.imp ?_
    rintro ⟨lon, lat⟩ t ⟨_, h2, h3, h4⟩
    refine ⟨⟨(wrap180_range _).1, (wrap180_range _).2.le, h2, h3⟩, ?_⟩
    rw [CoordsR.dirDeg_wrap180]; exact h4
  · rename_i hany
    have hall : ∀ p ∈ l, p.1.val ≤ 180 := by
      intro p hp
      by_contra hlt
      apply hany
      rw [List.any_eq_true]
      exact ⟨p, hp, by simpa [R] using hlt⟩
    refine (forall₂_and_left h hall).imp ?_
    rintro p t ⟨⟨h1, h2, h3, h4⟩, h5⟩
    exact ⟨⟨h1, h5, h2, h3⟩, h4⟩

theorem wrapArr_pre {l : LL ℝ} {t : List (V3 ℝ)} (h : Forall₂ (LLpre tol ct) l t) :
    Forall₂ (LLok tol ct) (wrapArr (R tol ct) l) t :=
  wrapArr_gen (P := SameDir tol) h

/-- the shared body of `_populate_face_centroids` / `_populate_edge_centroids` re-establishes the
    invariant with both representations stored -/
theorem populateCentre_inv (h0 : 0 < tol) (h1 : tol < 1) {sup : Bool} {tc con : List (V3 ℝ)} {Fresh : Prop}
    {ll : Option (LL ℝ)} {xyz : Option (List (V3 ℝ))}
    (hI : CentreInv tol ct sup tc Fresh ll xyz) (hu : ∀ t ∈ tc, normSq t = 1)
    (hcon : Fresh → con = tc) :
    CentreInv tol ct sup tc Fresh (some (populateCentre (R tol ct) repaired con ll xyz).1)
      (some (populateCentre (R tol ct) repaired con ll xyz).2) := by
  cases ll with
  | none =>
    cases xyz with
    | none =>
      have hc : con = tc := hcon (hI.fresh rfl rfl)
      subst hc
      simp only [populateCentre]
      refine ⟨?_, ?_, ?_, ?_, ?_⟩
      · intro l hl; cases hl
        exact forall₂_map_self (fun t ht => lonlat_of_unit h0 h1 t (hu t ht))
      · intro xs hx; cases hx
        exact forall₂_refl' (fun t _ => PosMul.refl t)
      · intro _ xs hx; cases hx; rfl
      · intro h; cases h
      · intro h; cases h
    | some c =>
      simp only [populateCentre]
      have hc := hI.xyz_ok c rfl
      refine ⟨?_, ?_, ?_, ?_, ?_⟩
      · intro l hl; cases hl
        rw [forall₂_map_left_iff]
        exact (forall₂_and_right hc hu).imp (fun _ _ h => centreLL_of_posmul h0 h1 h.1 h.2)
      · intro xs hx; cases hx; exact hc
      · intro hs xs hx; cases hx; exact hI.xyz_derived hs c rfl
      · intro h; cases h
      · intro h; cases h
  | some l =>
    cases xyz with
    | none =>
      simp only [populateCentre]
      have hl := hI.ll_exact rfl l rfl
      have hmap : l.map (centreXyzOfLL (R tol ct) repaired) = tc := by
        apply map_eq_of_forall₂
        exact hl.imp (fun _ _ h => by simpa [centreXyzOfLL, repaired] using h.2)
      rw [hmap]
      refine ⟨?_, ?_, ?_, ?_, ?_⟩
      · intro l' hl'; cases hl'; exact hI.ll_ok l rfl
      · intro xs hx; cases hx
        exact forall₂_refl' (fun t _ => PosMul.refl t)
      · intro _ xs hx; cases hx; rfl
      · intro h; cases h
      · intro h; cases h
    | some c =>
      simp only [populateCentre]
      refine ⟨?_, ?_, ?_, ?_, ?_⟩
      · intro l' hl'; cases hl'; exact hI.ll_ok l rfl
      · intro xs hx; cases hx; exact hI.xyz_ok c rfl
      · intro hs xs hx; cases hx; exact hI.xyz_derived hs c rfl
      · intro h; cases h
      · intro h; cases h


/-- what is known when the source supplies no face centres: the truth is the normalised mean of
    the corner unit vectors, and no mean vanishes -/
def FreshFace (tol ct : ℝ) (c : Conn) (T : Truth) : Prop :=
  T.face = c.faces.map (faceCentroid (R tol ct) T.node) ∧
  ∀ f ∈ c.faces, normSq (meanV (R tol ct) (f.map (nodeAt T.node))) ≠ 0

def FreshEdge (tol ct : ℝ) (c : Conn) (T : Truth) : Prop :=
  T.edge = c.edges.map (edgeCentroid (R tol ct) T.node) ∧
  ∀ e ∈ c.edges, normSq (meanV (R tol ct) [nodeAt T.node e.1, nodeAt T.node e.2]) ≠ 0

structure Inv (tol ct : ℝ) (sup : Kind → Bool) (c : Conn) (T : Truth) (s : St ℝ) : Prop where
  node : NodeInv tol ct (sup .node) T.node s.nodeLL s.nodeXYZ
  edge : CentreInv tol ct (sup .edge) T.edge (FreshEdge tol ct c T) s.edgeLL s.edgeXYZ
  face : CentreInv tol ct (sup .face) T.face (FreshFace tol ct c T) s.faceLL s.faceXYZ

def TruthUnit (T : Truth) : Prop := ∀ k, ∀ t ∈ T.of k, normSq t = 1

variable {sup : Kind → Bool} {c : Conn} {T : Truth} {s : St ℝ}

theorem map_smul_one (l : List (V3 ℝ)) : l.map (V3.smul 1) = l := by
  induction l with
  | nil => rfl
  | cons a l ih => simp [smul_one, ih]

theorem wrapRange_id (hI : Inv tol ct sup c T s) : wrapRange (R tol ct) s = s := by
  have hn : s.nodeLL.map (wrapArr (R tol ct)) = s.nodeLL := by
    cases h : s.nodeLL with
    | none => rfl
    | some l => simp [wrapArr_id (hI.node.ll_ok l h)]
  have he : s.edgeLL.map (wrapArr (R tol ct)) = s.edgeLL := by
    cases h : s.edgeLL with
    | none => rfl
    | some l => simp [wrapArr_id (hI.edge.ll_ok l h)]
  have hf : s.faceLL.map (wrapArr (R tol ct)) = s.faceLL := by
    cases h : s.faceLL with
    | none => rfl
    | some l => simp [wrapArr_id (hI.face.ll_ok l h)]
  simp only [wrapRange, hn, he, hf]

/-- the Cartesian node getter keeps the invariant and leaves xyz stored with one radius -/
theorem ensureNodeXYZ_spec (hI : Inv tol ct sup c T s) :
    Inv tol ct sup c T (ensureNodeXYZ (R tol ct) s) ∧
    (∃ r : ℝ, 0 < r ∧ (ensureNodeXYZ (R tol ct) s).nodeXYZ = some (T.node.map (V3.smul r))) ∧
    (ensureNodeXYZ (R tol ct) s).edgeLL = s.edgeLL ∧ (ensureNodeXYZ (R tol ct) s).edgeXYZ = s.edgeXYZ ∧
    (ensureNodeXYZ (R tol ct) s).faceLL = s.faceLL ∧ (ensureNodeXYZ (R tol ct) s).faceXYZ = s.faceXYZ ∧
    (ensureNodeXYZ (R tol ct) s).nodeLL = s.nodeLL := by
  cases h : s.nodeXYZ with
  | some xs =>
    have e : ensureNodeXYZ (R tol ct) s = s := by simp [ensureNodeXYZ, h]
    rw [e]
    obtain ⟨r, hr, hx⟩ := hI.node.xyz_ok xs h
    exact ⟨hI, ⟨r, hr, by rw [h, hx]⟩, rfl, rfl, rfl, rfl, rfl⟩
  | none =>
    obtain ⟨l, hl, hex⟩ := hI.node.ll_exact h
    have hmap : l.map (nodeXyzOfLL (R tol ct)) = T.node :=
      map_eq_of_forall₂ (hex.imp (fun _ _ h => h.2))
    have e : ensureNodeXYZ (R tol ct) s = { s with nodeXYZ := some T.node } := by
      simp [ensureNodeXYZ, h, hl, hmap]
    rw [e]
    refine ⟨⟨⟨hI.node.ll_ok, ?_, ?_, ?_⟩, hI.edge, hI.face⟩, ⟨1, one_pos, by simp [map_smul_one]⟩,
      rfl, rfl, rfl, rfl, rfl⟩
    · intro xs hx; cases hx; exact ⟨1, one_pos, (map_smul_one _).symm⟩
    · intro _ xs hx; cases hx; rfl
    · intro h'; cases h'


/-! ### every populate function and every getter keeps the invariant -/

theorem faces_constructed {r : ℝ} (hr : 0 < r) (hF : FreshFace tol ct c T) :
    c.faces.map (faceCentroid (R tol ct) (T.node.map (V3.smul r))) = T.face := by
  rw [hF.1]
  apply List.map_congr_left
  intro f hf
  exact faceCentroid_scaled r hr T.node f (hF.2 f hf)

theorem edges_constructed {r : ℝ} (hr : 0 < r) (hE : FreshEdge tol ct c T) :
    c.edges.map (edgeCentroid (R tol ct) (T.node.map (V3.smul r))) = T.edge := by
  rw [hE.1]
  apply List.map_congr_left
  intro e he
  exact edgeCentroid_scaled r hr T.node e (hE.2 e he)

theorem populateFace_spec (h0 : 0 < tol) (h1 : tol < 1) (hu : TruthUnit T) (hI : Inv tol ct sup c T s) :
    Inv tol ct sup c T (populateFace (R tol ct) repaired c s) ∧
    (∃ l, (populateFace (R tol ct) repaired c s).faceLL = some l) ∧
    (∃ xs, (populateFace (R tol ct) repaired c s).faceXYZ = some xs) := by
  obtain ⟨hI1, ⟨r, hr, hx⟩, heLL, heXYZ, hfLL, hfXYZ, hnLL⟩ := ensureNodeXYZ_spec hI
  have hnodes : (ensureNodeXYZ (R tol ct) s).nodeXYZ.getD [] = T.node.map (V3.smul r) := by rw [hx]; rfl
  simp only [populateFace]
  rw [hnodes]
  have hc := populateCentre_inv (ct := ct) h0 h1 hI1.face (hu .face)
    (con := c.faces.map (faceCentroid (R tol ct) (T.node.map (V3.smul r))))
    (fun hF => faces_constructed hr hF)
  exact ⟨⟨hI1.node, hI1.edge, hc⟩, ⟨_, rfl⟩, ⟨_, rfl⟩⟩

theorem populateEdge_spec (h0 : 0 < tol) (h1 : tol < 1) (hu : TruthUnit T) (hI : Inv tol ct sup c T s) :
    Inv tol ct sup c T (populateEdge (R tol ct) repaired c s) ∧
    (∃ l, (populateEdge (R tol ct) repaired c s).edgeLL = some l) ∧
    (∃ xs, (populateEdge (R tol ct) repaired c s).edgeXYZ = some xs) := by
  obtain ⟨hI1, ⟨r, hr, hx⟩, heLL, heXYZ, hfLL, hfXYZ, hnLL⟩ := ensureNodeXYZ_spec hI
  have hnodes : (ensureNodeXYZ (R tol ct) s).nodeXYZ.getD [] = T.node.map (V3.smul r) := by rw [hx]; rfl
  simp only [populateEdge]
  rw [hnodes]
  have hc := populateCentre_inv (ct := ct) h0 h1 hI1.edge (hu .edge)
    (con := c.edges.map (edgeCentroid (R tol ct) (T.node.map (V3.smul r))))
    (fun hE => edges_constructed hr hE)
  exact ⟨⟨hI1.node, hc, hI1.face⟩, ⟨_, rfl⟩, ⟨_, rfl⟩⟩

/-- REPAIRED `node_lon` / `node_lat` getter on a grid without node lon/lat: populate, THEN
    `_set_desired_longitude_range` -/
theorem getNodeLL_spec (h0 : 0 < tol) (h1 : tol < 1) (hu : TruthUnit T) (hI : Inv tol ct sup c T s)
    (hn : s.nodeLL = none) :
    Inv tol ct sup c T (wrapRange (R tol ct) (populateNodeLL (R tol ct) s)) ∧
    ∃ l, (wrapRange (R tol ct) (populateNodeLL (R tol ct) s)).nodeLL = some l := by
  have he : s.edgeLL.map (wrapArr (R tol ct)) = s.edgeLL := by
    cases h : s.edgeLL with
    | none => rfl
    | some l => simp [wrapArr_id (hI.edge.ll_ok l h)]
  have hf : s.faceLL.map (wrapArr (R tol ct)) = s.faceLL := by
    cases h : s.faceLL with
    | none => rfl
    | some l => simp [wrapArr_id (hI.face.ll_ok l h)]
  cases hx : s.nodeXYZ with
  | none =>
    obtain ⟨l, hl, _⟩ := hI.node.ll_exact hx
    rw [hn] at hl; cases hl
  | some xs =>
    obtain ⟨r, hr, hxs⟩ := hI.node.xyz_ok xs hx
    simp only [populateNodeLL, hx, wrapRange, he, hf, Option.map_some]
    refine ⟨⟨⟨?_, ?_, ?_, ?_⟩, hI.edge, hI.face⟩, ⟨_, rfl⟩⟩
    · intro l hl; cases hl
      apply wrapArr_pre
      rw [hxs, List.map_map]
      exact forall₂_map_self (fun t ht => nodeLL_of_posmul h0 h1 hr (hu .node t ht))
    · intro ys hy; exact hI.node.xyz_ok ys (by rw [hx]; exact hy)
    · intro hs ys hy; exact hI.node.xyz_derived hs ys (by rw [hx]; exact hy)
    · intro h; simp at h

theorem map_normalize_posmul {xs tc : List (V3 ℝ)} (h : Forall₂ PosMul xs tc) (hu : ∀ t ∈ tc, normSq t = 1) :
    xs.map (normalizeV (R tol ct)) = tc := by
  apply map_eq_of_forall₂
  refine (forall₂_and_right h hu).imp ?_
  rintro v t ⟨⟨k, hk, rfl⟩, ht⟩
  exact normalize_posmul k hk t ht

theorem posmul_of_scaled (tn : List (V3 ℝ)) {r : ℝ} (hr : 0 < r) : Forall₂ PosMul (tn.map (V3.smul r)) tn :=
  forall₂_map_self (fun _ _ => ⟨r, hr, rfl⟩)

theorem NodeInv.normalized {b : Bool} {tn : List (V3 ℝ)} {ll : Option (LL ℝ)} {xyz : Option (List (V3 ℝ))}
    (h : NodeInv tol ct b tn ll xyz) (hu : ∀ t ∈ tn, normSq t = 1) :
    NodeInv tol ct b tn ll (xyz.map (List.map (normalizeV (R tol ct)))) := by
  cases xyz with
  | none => exact h
  | some xs =>
    obtain ⟨r, hr, hxs⟩ := h.xyz_ok xs rfl
    have e : xs.map (normalizeV (R tol ct)) = tn := by
      rw [hxs]; exact map_normalize_posmul (posmul_of_scaled tn hr) hu
    simp only [Option.map_some, e]
    refine ⟨h.ll_ok, ?_, ?_, ?_⟩
    · intro ys hy; cases hy; exact ⟨1, one_pos, (map_smul_one _).symm⟩
    · intro _ ys hy; cases hy; rfl
    · intro h'; cases h'

theorem CentreInv.normalized {b : Bool} {tc : List (V3 ℝ)} {F : Prop} {ll : Option (LL ℝ)}
    {xyz : Option (List (V3 ℝ))}
    (h : CentreInv tol ct b tc F ll xyz) (hu : ∀ t ∈ tc, normSq t = 1) :
    CentreInv tol ct b tc F ll (xyz.map (List.map (normalizeV (R tol ct)))) := by
  cases xyz with
  | none => exact h
  | some xs =>
    have e : xs.map (normalizeV (R tol ct)) = tc := map_normalize_posmul (h.xyz_ok xs rfl) hu
    simp only [Option.map_some, e]
    refine ⟨h.ll_ok, ?_, ?_, ?_, ?_⟩
    · intro ys hy; cases hy; exact forall₂_refl' (fun t _ => PosMul.refl t)
    · intro _ ys hy; cases hy; rfl
    · intro h'; cases h'
    · intro _ h'; cases h'

theorem normalizeOp_inv (hu : TruthUnit T) (hI : Inv tol ct sup c T s) :
    Inv tol ct sup c T (normalizeOp (R tol ct) s) := by
  unfold normalizeOp
  split
  · exact hI
  · have hI1 : Inv tol ct sup c T
        (if s.edgeXYZ.isSome || s.faceXYZ.isSome then ensureNodeXYZ (R tol ct) s else s) := by
      split
      · exact (ensureNodeXYZ_spec hI).1
      · exact hI
    generalize (if s.edgeXYZ.isSome || s.faceXYZ.isSome then ensureNodeXYZ (R tol ct) s else s) = s1 at hI1
    simp only []
    split
    · exact ⟨hI1.node, hI1.edge, hI1.face⟩
    · exact ⟨hI1.node.normalized (hu .node), hI1.edge.normalized (hu .edge), hI1.face.normalized (hu .face)⟩


/-! ### what a getter hands back -/

/-- a reported lon/lat array: present, every longitude in [-180, 180], every latitude in [-90, 90],
    every pair denotes the true point (to the pole snap); a reported xyz array: present, every
    vector a positive multiple of the true unit vector, and exactly the unit vector when the source
    did not supply Cartesian coordinates of that kind -/
def ReportOK (tol ct : ℝ) (sup : Kind → Bool) (T : Truth) : Report ℝ → Prop
  | .ll k v => ∃ l, v = some l ∧ Forall₂ (LLok tol ct) l (T.of k)
  | .xyz k v => ∃ xs, v = some xs ∧ Forall₂ PosMul xs (T.of k) ∧ (sup k = false → xs = T.of k)
  | .unit => True

theorem Inv.reportNodeLL (hI : Inv tol ct sup c T s) {l : LL ℝ} (h : s.nodeLL = some l) :
    ReportOK tol ct sup T (.ll .node s.nodeLL) := ⟨l, h, hI.node.ll_ok l h⟩
theorem Inv.reportEdgeLL (hI : Inv tol ct sup c T s) {l : LL ℝ} (h : s.edgeLL = some l) :
    ReportOK tol ct sup T (.ll .edge s.edgeLL) := ⟨l, h, hI.edge.ll_ok l h⟩
theorem Inv.reportFaceLL (hI : Inv tol ct sup c T s) {l : LL ℝ} (h : s.faceLL = some l) :
    ReportOK tol ct sup T (.ll .face s.faceLL) := ⟨l, h, hI.face.ll_ok l h⟩
theorem Inv.reportNodeXYZ (hI : Inv tol ct sup c T s) {xs : List (V3 ℝ)} (h : s.nodeXYZ = some xs) :
    ReportOK tol ct sup T (.xyz .node s.nodeXYZ) := by
  obtain ⟨r, hr, hx⟩ := hI.node.xyz_ok xs h
  exact ⟨xs, h, by rw [hx]; exact posmul_of_scaled _ hr, fun hs => hI.node.xyz_derived hs xs h⟩
theorem Inv.reportEdgeXYZ (hI : Inv tol ct sup c T s) {xs : List (V3 ℝ)} (h : s.edgeXYZ = some xs) :
    ReportOK tol ct sup T (.xyz .edge s.edgeXYZ) :=
  ⟨xs, h, hI.edge.xyz_ok xs h, fun hs => hI.edge.xyz_derived hs xs h⟩
theorem Inv.reportFaceXYZ (hI : Inv tol ct sup c T s) {xs : List (V3 ℝ)} (h : s.faceXYZ = some xs) :
    ReportOK tol ct sup T (.xyz .face s.faceXYZ) :=
  ⟨xs, h, hI.face.xyz_ok xs h, fun hs => hI.face.xyz_derived hs xs h⟩

/-- one access (any of the six getters, or `normalize_cartesian_coordinates`) keeps the invariant
    and returns a correct report -/
theorem step_spec (h0 : 0 < tol) (h1 : tol < 1) (hu : TruthUnit T) (hI : Inv tol ct sup c T s) (op : Op) :
    Inv tol ct sup c T (step (R tol ct) repaired c s op).1 ∧
    ReportOK tol ct sup T (step (R tol ct) repaired c s op).2 := by
  cases op with
  | normalize => exact ⟨normalizeOp_inv hu hI, trivial⟩
  | getLL k =>
    cases k with
    | node =>
      simp only [step]
      cases hn : s.nodeLL with
      | none =>
        simp only [Option.isNone_none, if_true, repaired]
        obtain ⟨hI', l, hl⟩ := getNodeLL_spec h0 h1 hu hI hn
        exact ⟨hI', hI'.reportNodeLL hl⟩
      | some l =>
        simp only [Option.isNone_some, Bool.false_eq_true, if_false]
        exact ⟨hI, hI.reportNodeLL hn⟩
    | edge =>
      simp only [step]
      cases hn : s.edgeLL with
      | none =>
        simp only [Option.isNone_none, if_true]
        obtain ⟨hI', ⟨l, hl⟩, _⟩ := populateEdge_spec h0 h1 hu hI
        rw [wrapRange_id hI']
        exact ⟨hI', hI'.reportEdgeLL hl⟩
      | some l =>
        simp only [Option.isNone_some, Bool.false_eq_true, if_false, wrapRange_id hI]
        exact ⟨hI, hI.reportEdgeLL hn⟩
    | face =>
      simp only [step]
      cases hn : s.faceLL with
      | none =>
        simp only [Option.isNone_none, if_true]
        obtain ⟨hI', ⟨l, hl⟩, _⟩ := populateFace_spec h0 h1 hu hI
        rw [wrapRange_id hI']
        exact ⟨hI', hI'.reportFaceLL hl⟩
      | some l =>
        simp only [Option.isNone_some, Bool.false_eq_true, if_false]
        exact ⟨hI, hI.reportFaceLL hn⟩
  | getXYZ k =>
    cases k with
    | node =>
      simp only [step]
      obtain ⟨hI', ⟨r, _, hx⟩, _⟩ := ensureNodeXYZ_spec hI
      exact ⟨hI', hI'.reportNodeXYZ hx⟩
    | edge =>
      simp only [step]
      cases hn : s.edgeXYZ with
      | none =>
        simp only [Option.isNone_none, if_true]
        obtain ⟨hI', _, ⟨xs, hx⟩⟩ := populateEdge_spec h0 h1 hu hI
        exact ⟨hI', hI'.reportEdgeXYZ hx⟩
      | some xs =>
        simp only [Option.isNone_some, Bool.false_eq_true, if_false]
        exact ⟨hI, hI.reportEdgeXYZ hn⟩
    | face =>
      simp only [step]
      cases hn : s.faceXYZ with
      | none =>
        simp only [Option.isNone_none, if_true]
        obtain ⟨hI', _, ⟨xs, hx⟩⟩ := populateFace_spec h0 h1 hu hI
        exact ⟨hI', hI'.reportFaceXYZ hx⟩
      | some xs =>
        simp only [Option.isNone_some, Bool.false_eq_true, if_false]
        exact ⟨hI, hI.reportFaceXYZ hn⟩

/-- induction over the access list: every report of every history is correct -/
theorem run_spec (h0 : 0 < tol) (h1 : tol < 1) (hu : TruthUnit T) :
    ∀ (ops : List Op) (s : St ℝ), Inv tol ct sup c T s →
      Inv tol ct sup c T (run (R tol ct) repaired c s ops).1 ∧
      ∀ r ∈ (run (R tol ct) repaired c s ops).2, ReportOK tol ct sup T r
  | [], s, hI => ⟨hI, fun r hr => by cases hr⟩
  | op :: ops, s, hI => by
    obtain ⟨hI', hr⟩ := step_spec h0 h1 hu hI op
    obtain ⟨hI'', hrs⟩ := run_spec h0 h1 hu ops _ hI'
    refine ⟨hI'', ?_⟩
    intro r hmem
    simp only [run, List.mem_cons] at hmem
    rcases hmem with rfl | hmem
    · exact hr
    · exact hrs r hmem


/-! ### the source and `Grid.__init__` -/

/-- a source-supplied (lon, lat): latitude in range, longitude ≥ -180 but possibly in the 0..360
    convention (anything above 180), denoting exactly the true point -/
def SrcLL (tol ct : ℝ) (p : Deg ℝ × Deg ℝ) (t : V3 ℝ) : Prop :=
  -180 ≤ p.1.val ∧ -90 ≤ p.2.val ∧ p.2.val ≤ 90 ∧ dirDeg (R tol ct) p = t

/-- which Cartesian arrays the source supplies -/
def supOf (src : St ℝ) : Kind → Bool
  | .node => src.nodeXYZ.isSome
  | .edge => src.edgeXYZ.isSome
  | .face => src.faceXYZ.isSome

/-- a consistent source: every representation it supplies denotes the true points (node xyz with
    one common radius, centre xyz with any positive lengths); nodes are supplied in at least one
    representation; centres supplied in neither are the normalised means of the corners -/
structure SourceOK (tol ct : ℝ) (c : Conn) (T : Truth) (src : St ℝ) : Prop where
  unit : TruthUnit T
  node_some : src.nodeLL = none → src.nodeXYZ = none → False
  nodeLL : ∀ l, src.nodeLL = some l → Forall₂ (SrcLL tol ct) l T.node
  nodeXYZ : ∀ xs, src.nodeXYZ = some xs → ∃ r : ℝ, 0 < r ∧ xs = T.node.map (V3.smul r)
  edgeLL : ∀ l, src.edgeLL = some l → Forall₂ (SrcLL tol ct) l T.edge
  edgeXYZ : ∀ xs, src.edgeXYZ = some xs → Forall₂ PosMul xs T.edge
  edgeFresh : src.edgeLL = none → src.edgeXYZ = none → FreshEdge tol ct c T
  faceLL : ∀ l, src.faceLL = some l → Forall₂ (SrcLL tol ct) l T.face
  faceXYZ : ∀ xs, src.faceXYZ = some xs → Forall₂ PosMul xs T.face
  faceFresh : src.faceLL = none → src.faceXYZ = none → FreshFace tol ct c T

theorem wrapArr_src {l : LL ℝ} {t : List (V3 ℝ)} (h : Forall₂ (SrcLL tol ct) l t) :
    Forall₂ (LLexact tol ct) (wrapArr (R tol ct) l) t :=
  wrapArr_gen (P := fun a b => a = b) h

theorem init_inv {src : St ℝ} (hS : SourceOK tol ct c T src) :
    Inv tol ct (supOf src) c T (init (R tol ct) src) := by
  simp only [init, wrapRange]
  refine ⟨⟨?_, ?_, ?_, ?_⟩, ⟨?_, ?_, ?_, ?_, ?_⟩, ⟨?_, ?_, ?_, ?_, ?_⟩⟩
  -- node
  · intro l hl
    cases h : src.nodeLL with
    | none => rw [h] at hl; cases hl
    | some l0 =>
      rw [h] at hl; cases hl
      exact (wrapArr_src (hS.nodeLL l0 h)).imp (fun _ _ h => h.ok)
  · exact hS.nodeXYZ
  · intro hs xs hx
    have : src.nodeXYZ.isSome = true := by rw [show src.nodeXYZ = some xs from hx]; rfl
    simp [supOf, this] at hs
  · intro hx
    cases h : src.nodeLL with
    | none => exact (hS.node_some h hx).elim
    | some l0 => exact ⟨_, rfl, wrapArr_src (hS.nodeLL l0 h)⟩
  -- edge
  · intro l hl
    cases h : src.edgeLL with
    | none => rw [h] at hl; cases hl
    | some l0 =>
      rw [h] at hl; cases hl
      exact (wrapArr_src (hS.edgeLL l0 h)).imp (fun _ _ h => h.ok)
  · exact hS.edgeXYZ
  · intro hs xs hx
    have : src.edgeXYZ.isSome = true := by rw [show src.edgeXYZ = some xs from hx]; rfl
    simp [supOf, this] at hs
  · intro _ l hl
    cases h : src.edgeLL with
    | none => rw [h] at hl; cases hl
    | some l0 =>
      rw [h] at hl; cases hl
      exact wrapArr_src (hS.edgeLL l0 h)
  · intro hl hx
    cases h : src.edgeLL with
    | none => exact hS.edgeFresh h hx
    | some l0 => rw [h] at hl; cases hl
  -- face
  · intro l hl
    cases h : src.faceLL with
    | none => rw [h] at hl; cases hl
    | some l0 =>
      rw [h] at hl; cases hl
      exact (wrapArr_src (hS.faceLL l0 h)).imp (fun _ _ h => h.ok)
  · exact hS.faceXYZ
  · intro hs xs hx
    have : src.faceXYZ.isSome = true := by rw [show src.faceXYZ = some xs from hx]; rfl
    simp [supOf, this] at hs
  · intro _ l hl
    cases h : src.faceLL with
    | none => rw [h] at hl; cases hl
    | some l0 =>
      rw [h] at hl; cases hl
      exact wrapArr_src (hS.faceLL l0 h)
  · intro hl hx
    cases h : src.faceLL with
    | none => exact hS.faceFresh h hx
    | some l0 => rw [h] at hl; cases hl

/-- **C04, the provenance theorem.**  For every consistent source (any of the 3 × 4 × 4 provenance
    combinations, longitudes in either convention, any radius), and EVERY history of accesses
    (any order, any repetition, `normalize_cartesian_coordinates` interleaved anywhere), everything
    any getter returns is present, in range, and denotes the true positions. -/
theorem provenance_agree (h0 : 0 < tol) (h1 : tol < 1) {src : St ℝ}
    (hS : SourceOK tol ct c T src) (ops : List Op) :
    ∀ r ∈ (run (R tol ct) repaired c (init (R tol ct) src) ops).2, ReportOK tol ct (supOf src) T r :=
  (run_spec h0 h1 hS.unit ops _ (init_inv hS)).2

/-- two reports of the same kind, one in each coordinate system, taken ANYWHERE in any history,
    denote the same direction: `xyz(deg2rad lon, deg2rad lat)` equals the normalised `(x,y,z)`, or is
    the pole of the snapping cap that contains it; and the longitude is in [-180, 180] -/
theorem reports_agree (h0 : 0 < tol) (h1 : tol < 1) {src : St ℝ}
    (hS : SourceOK tol ct c T src) (ops : List Op) (k : Kind) (l : LL ℝ) (xs : List (V3 ℝ))
    (hl : Report.ll k (some l) ∈ (run (R tol ct) repaired c (init (R tol ct) src) ops).2)
    (hx : Report.xyz k (some xs) ∈ (run (R tol ct) repaired c (init (R tol ct) src) ops).2) :
    Forall₂ (fun p v => InRange p ∧ SameDir tol (dirDeg (R tol ct) p) (normalizeV (R tol ct) v)) l xs := by
  obtain ⟨l', e1, h1'⟩ := provenance_agree h0 h1 hS ops _ hl
  obtain ⟨xs', e2, h2', _⟩ := provenance_agree h0 h1 hS ops _ hx
  cases e1; cases e2
  have hu := hS.unit k
  refine (forall₂_share h1' (forall₂_and_right h2' hu)).imp ?_
  rintro p v ⟨t, ⟨hr, hd⟩, ⟨kk, hk, rfl⟩, ht⟩
  rw [normalize_posmul kk hk t ht]
  exact ⟨hr, hd⟩

/-! ### ranges (generic in the field; instantiated at ℚ and ℝ) -/

theorem deg_range {K : Type} [Field K] [LinearOrder K] [IsStrictOrderedRing K] [FloorRing K]
    (T : Ops K) (hT : ∀ a b, T.fmod a b = a - b * (⌊a / b⌋ : ℤ)) (d : K) :
    -180 ≤ wrap180 T d ∧ wrap180 T d < 180 := by
  simp only [wrap180, hT]
  have h1 := Int.floor_le ((d + 180) / 360)
  have h2 := Int.lt_floor_add_one ((d + 180) / 360)
  rw [le_div_iff₀ (by norm_num)] at h1
  rw [div_lt_iff₀ (by norm_num)] at h2
  constructor <;> linarith

/-- exact rational instantiation (only `fmod`, `lt`, `abs` are meaningful) -/
def Q : Ops ℚ where
  sin := id
  cos := id
  atan2 := fun _ _ => 0
  asin := id
  sqrt := id
  abs := fun x => |x|
  pi := 0
  fmod := fun a b => a - b * (⌊a / b⌋ : ℤ)
  lt := fun a b => decide (a < b)
  ofNat := fun n => (n : ℚ)
  tol := 0
  closeTol := 0

theorem deg_range_rat (d : ℚ) : -180 ≤ wrap180 Q d ∧ wrap180 Q d < 180 :=
  deg_range Q (fun _ _ => rfl) d

example : wrap180 Q 190 = -170 := by
  simp only [wrap180, Q]
  have : ⌊((190 : ℚ) + 180) / 360⌋ = 1 := by rw [Int.floor_eq_iff]; norm_num
  rw [this]; norm_num


/-! ### arc midpoint, centroid -/

/-- an edge centre is the arc midpoint: equidistant from both ends and a positive multiple of a + b -/
theorem edge_mid_equidistant (a b : V3 ℝ) (ha : normSq a = 1) (hb : normSq b = 1)
    (hab : normSq (meanV (R tol ct) [a, b]) ≠ 0) :
    dot (normalizeV (R tol ct) (meanV (R tol ct) [a, b])) a
      = dot (normalizeV (R tol ct) (meanV (R tol ct) [a, b])) b ∧
    ∃ k : ℝ, 0 < k ∧ normalizeV (R tol ct) (meanV (R tol ct) [a, b]) = V3.smul k (V3.add a b) := by
  obtain ⟨c, hc, hm⟩ := normalize_dir (tol := tol) (ct := ct) _ hab
  rw [hm]
  have ha' : a.x * a.x + a.y * a.y + a.z * a.z = 1 := ha
  have hb' : b.x * b.x + b.y * b.y + b.z * b.z = 1 := hb
  constructor
  · simp [dot, V3.smul, meanV, sumV, V3.add, V3.divS, V3.zero, R]
    linear_combination (c / 2) * ha' - (c / 2) * hb'
  · refine ⟨c / 2, by positivity, ?_⟩
    apply V3.ext' <;> simp [V3.smul, meanV, sumV, V3.add, V3.divS, V3.zero, R] <;> ring

/-- the model's face centre is, by definition, the normalised mean of the face's corners -/
theorem centroid_def (nodes : List (V3 ℝ)) (f : List Nat) :
    faceCentroid (R tol ct) nodes f = normalizeV (R tol ct) (meanV (R tol ct) (f.map (nodeAt nodes))) := rfl

theorem centroid_unit (nodes : List (V3 ℝ)) (f : List Nat)
    (h : normSq (meanV (R tol ct) (f.map (nodeAt nodes))) ≠ 0) :
    normSq (faceCentroid (R tol ct) nodes f) = 1 := normalize_unit _ h

/-- corners given with any common radius give the centroid of the corner UNIT vectors -/
theorem centroid_radius_invariant (r : ℝ) (hr : 0 < r) (tn : List (V3 ℝ)) (f : List Nat)
    (h : normSq (meanV (R tol ct) (f.map (nodeAt tn))) ≠ 0) :
    faceCentroid (R tol ct) (tn.map (V3.smul r)) f = faceCentroid (R tol ct) tn f :=
  faceCentroid_scaled r hr tn f h

/-! ### the pole snap costs at most `arccos (1 − snap)` -/

theorem sameDir_dot {snap : ℝ} (hs : 0 < snap) {p q : V3 ℝ} (h : SameDir snap p q) (hq : normSq q = 1) :
    1 - snap < dot p q := by
  rcases h with rfl | ⟨h, rfl⟩ | ⟨h, rfl⟩
  · have : dot p p = 1 := hq
    rw [this]; linarith
  · simpa [dot] using h
  · simpa [dot] using h

/-! ### the driver's Boolean checkers decide the specification (at tolerance 0 over ℝ) -/

theorem leB_iff (a b : ℝ) : leB (R tol ct) a b = true ↔ a ≤ b := by
  simp [leB, R]

theorem closeB_iff (p q : V3 ℝ) : closeB (R tol ct) 0 p q = true ↔ p = q := by
  simp only [closeB, Bool.and_eq_true, leB_iff]
  simp only [R, abs_nonpos_iff, sub_eq_zero]
  constructor
  · rintro ⟨⟨hx, hy⟩, hz⟩; exact V3.ext' hx hy hz
  · rintro rfl; exact ⟨⟨rfl, rfl⟩, rfl⟩

theorem sameDirB_iff (snap : ℝ) (p q : V3 ℝ) :
    sameDirB (R tol ct) 0 snap p q = true ↔ SameDir snap p q := by
  simp only [sameDirB, Bool.or_eq_true, Bool.and_eq_true, closeB_iff, SameDir]
  simp [R, or_assoc]

theorem rangeB_iff (p : Deg ℝ × Deg ℝ) : rangeB (R tol ct) p = true ↔ InRange p := by
  simp only [rangeB, Bool.and_eq_true, leB_iff, InRange, and_assoc]


/-! ### the snapshot's algorithm (`asIs`) violates the property: proved counterexamples -/

theorem arg_neg_imag : Complex.arg (⟨0, -1⟩ : ℂ) = -(Real.pi / 2) := by
  have : (⟨0, -1⟩ : ℂ) = -Complex.I := by apply Complex.ext <;> simp
  rw [this, Complex.arg_neg_I]

/-- defect (a): for a node supplied in Cartesian form at (0, -1, 0) (longitude -90°)
    `_populate_node_latlon` stores longitude 270°, outside [-180, 180]; the unrepaired getter
    returns it as it is (`asis_provenance_fails`) because it wraps BEFORE populating -/
theorem asis_node_lon_out_of_range (h1 : tol < 1) :
    (nodeLLOfXyz (R tol ct) ⟨0, -1, 0⟩).1.val = 270 := by
  have hu : normSq (⟨0, -1, 0⟩ : V3 ℝ) = 1 := by norm_num [normSq, dot]
  have hn : normSq (⟨0, -1, 0⟩ : V3 ℝ) ≠ 0 := by rw [hu]; norm_num
  have hm : ¬ 1 - tol < |(⟨0, -1, 0⟩ : V3 ℝ).z| := by simp; linarith
  have hpi := Real.pi_pos
  have hfl : ⌊-(Real.pi / 2) / (2 * Real.pi)⌋ = -1 := by
    have : -(Real.pi / 2) / (2 * Real.pi) = -(1 / 4) := by field_simp; ring
    rw [this, Int.floor_eq_iff]; norm_num
  simp only [nodeLLOfXyz, lonLatRad_norm _ hn, normalize_of_unit _ hu,
    lonLatRad_nomask _ hm, rad2deg, fmod_def, arg_neg_imag]
  simp only [R, hfl]
  field_simp
  norm_num

theorem sin_four_neg : Real.sin 4 < 0 := by
  have h3 := Real.pi_gt_three
  have h4 := Real.pi_lt_d2
  have : Real.sin 4 = Real.sin (4 - 2 * Real.pi) := by rw [Real.sin_sub_two_pi]
  rw [this]
  apply Real.sin_neg_of_neg_of_neg_pi_lt <;> linarith

/-- defect (b): a stored centre at (lon, lat) = (4°, 0°): the unrepaired branch hands the degrees
    to `_lonlat_rad_to_xyz` and obtains a vector in the southern half-plane y < 0, while the point
    the stored lon/lat denotes has y > 0 — the two reports do not denote the same direction -/
theorem asis_centre_degrees_as_radians :
    ¬ SameDir tol (dirDeg (R tol ct) (⟨4⟩, ⟨0⟩)) (centreXyzOfLL (R tol ct) asIs (⟨4⟩, ⟨0⟩)) := by
  have hy1 : (centreXyzOfLL (R tol ct) asIs (⟨4⟩, ⟨0⟩)).y < 0 := by
    simp [centreXyzOfLL, asIs, xyzOfLonLatRad, Deg.asRad, R]
    exact sin_four_neg
  have hy2 : 0 < (dirDeg (R tol ct) (⟨4⟩, ⟨0⟩)).y := by
    simp [dirDeg, deg2rad, xyzOfLonLatRad, R]
    have hpi := Real.pi_pos
    apply Real.sin_pos_of_pos_of_lt_pi <;> [positivity; linarith]
  have hz : (dirDeg (R tol ct) (⟨4⟩, ⟨0⟩)).z = 0 := by
    simp [dirDeg, deg2rad, xyzOfLonLatRad, R]
  rintro (h | ⟨_, h⟩ | ⟨_, h⟩)
  · rw [h] at hy2; linarith
  · rw [h] at hz; norm_num at hz
  · rw [h] at hz; norm_num at hz

/-- defect (c): a stored centre vector (1, 0, 1) (latitude 45°, radius √2): the unrepaired branch
    takes `arcsin` of the un-normalised z = 1, reports the north pole, which is not the direction
    of the stored vector -/
theorem asis_centre_nonunit (h0 : 0 < tol) (h1 : tol ≤ 1 / 4) :
    ¬ SameDir tol (dirDeg (R tol ct) (centreLLOfStoredXyz (R tol ct) asIs ⟨1, 0, 1⟩))
        (normalizeV (R tol ct) ⟨1, 0, 1⟩) := by
  have hm : 1 - tol < |(⟨1, 0, 1⟩ : V3 ℝ).z| := by simp; linarith
  have hs : signK (R tol ct) (1 : ℝ) = 1 := by simp [signK, R]
  have hpi := Real.pi_ne_zero
  have hd : dirDeg (R tol ct) (centreLLOfStoredXyz (R tol ct) asIs ⟨1, 0, 1⟩) = ⟨0, 0, 1⟩ := by
    simp only [centreLLOfStoredXyz, asIs, lonLatDegOfXyz, lonLatRad_mask _ hm, rad2deg, hs]
    have hw : wrap180 (R tol ct) (0 * (180 / (R tol ct).pi)) = 0 := by rw [zero_mul, wrap180_zero]
    rw [hw]
    have hlat : (1 * Real.pi / 2 * (180 / (R tol ct).pi)) = 90 := by
      simp only [R]; field_simp; norm_num
    rw [hlat]
    simp only [dirDeg, deg2rad, xyzOfLonLatRad, R]
    have : (90 : ℝ) * (Real.pi / 180) = Real.pi / 2 := by ring
    rw [this]
    apply V3.ext' <;> simp
  rw [hd]
  have hn : normSq (⟨1, 0, 1⟩ : V3 ℝ) ≠ 0 := by norm_num [normSq, dot]
  have hq := normalize_unit (tol := tol) (ct := ct) _ hn
  have hxz : (normalizeV (R tol ct) ⟨1, 0, 1⟩).x = (normalizeV (R tol ct) ⟨1, 0, 1⟩).z := by
    simp [normalizeV, V3.divS]
  have hy : (normalizeV (R tol ct) ⟨1, 0, 1⟩).y = 0 := by
    simp [normalizeV, V3.divS]
  generalize normalizeV (R tol ct) ⟨1, 0, 1⟩ = q at *
  have hq' : q.x * q.x + q.y * q.y + q.z * q.z = 1 := hq
  rw [hxz, hy] at hq'
  have hz2 : q.z * q.z = 1 / 2 := by linarith
  rintro (h | ⟨h, _⟩ | ⟨_, h⟩)
  · have : q.z = 1 := by rw [← h]
    rw [this] at hz2; norm_num at hz2
  · nlinarith
  · have := congrArg V3.z h; norm_num at this


/-! ### a concrete consistent source (non-vacuity of `SourceOK`) and the as-is run on it -/

/-- one triangle, nodes supplied in Cartesian form only, radius 2; no centres supplied -/
def src0 : St ℝ :=
  { nodeLL := none, nodeXYZ := some [⟨0, -2, 0⟩, ⟨2, 0, 0⟩, ⟨0, 0, 2⟩], edgeLL := none, edgeXYZ := none,
    faceLL := none, faceXYZ := none, normalized := false }

def conn0 : Conn := { faces := [[0, 1, 2]], edges := [(0, 1), (1, 2), (0, 2)] }

def node0 : List (V3 ℝ) := [⟨0, -1, 0⟩, ⟨1, 0, 0⟩, ⟨0, 0, 1⟩]

noncomputable def truth0 (tol ct : ℝ) : Truth :=
  { node := node0
    edge := conn0.edges.map (edgeCentroid (R tol ct) node0)
    face := conn0.faces.map (faceCentroid (R tol ct) node0) }

theorem freshFace0 : FreshFace tol ct conn0 (truth0 tol ct) := by
  refine ⟨rfl, ?_⟩
  intro f hf
  simp only [conn0, List.mem_singleton] at hf
  subst hf
  norm_num [truth0, node0, meanV, sumV, nodeAt, V3.add, V3.zero, V3.divS, normSq, dot, R]

theorem freshEdge0 : FreshEdge tol ct conn0 (truth0 tol ct) := by
  refine ⟨rfl, ?_⟩
  intro e he
  simp only [conn0, List.mem_cons, List.not_mem_nil, or_false] at he
  rcases he with rfl | rfl | rfl <;>
    norm_num [truth0, node0, meanV, sumV, nodeAt, V3.add, V3.zero, V3.divS, normSq, dot, R]

theorem sourceOK0 : SourceOK tol ct conn0 (truth0 tol ct) src0 where
  unit := by
    intro k t ht
    cases k with
    | node =>
      simp only [Truth.of, truth0, node0, List.mem_cons, List.not_mem_nil, or_false] at ht
      rcases ht with rfl | rfl | rfl <;> norm_num [normSq, dot]
    | edge =>
      simp only [Truth.of, truth0, List.mem_map] at ht
      obtain ⟨e, he, rfl⟩ := ht
      exact normalize_unit _ (freshEdge0.2 e he)
    | face =>
      simp only [Truth.of, truth0, List.mem_map] at ht
      obtain ⟨f, hf, rfl⟩ := ht
      exact normalize_unit _ (freshFace0.2 f hf)
  node_some := by intro _ h; simp [src0] at h
  nodeLL := by intro l h; simp [src0] at h
  nodeXYZ := by
    intro xs h
    refine ⟨2, by norm_num, ?_⟩
    simp only [src0, Option.some.injEq] at h
    subst h
    simp [truth0, node0, V3.smul]
  edgeLL := by intro l h; simp [src0] at h
  edgeXYZ := by intro l h; simp [src0] at h
  edgeFresh := fun _ _ => freshEdge0
  faceLL := by intro l h; simp [src0] at h
  faceXYZ := by intro l h; simp [src0] at h
  faceFresh := fun _ _ => freshFace0

/-- non-vacuity of `provenance_agree`: its hypotheses are met by `src0`, for every history -/
example (h0 : 0 < tol) (h1 : tol < 1) (ops : List Op) :
    ∀ r ∈ (run (R tol ct) repaired conn0 (init (R tol ct) src0) ops).2,
      ReportOK tol ct (supOf src0) (truth0 tol ct) r :=
  provenance_agree h0 h1 sourceOK0 ops

/-- the same consistent source under the UNREPAIRED algorithm: reading `node_lon` first reports
    270° for the node at longitude -90°, so the provenance theorem is false for `asIs` -/
theorem asis_provenance_fails (h1 : tol < 1) :
    ¬ ∀ r ∈ (run (R tol ct) asIs conn0 (init (R tol ct) src0) [Op.getLL Kind.node]).2,
        ReportOK tol ct (supOf src0) (truth0 tol ct) r := by
  intro h
  have hr := h (Report.ll Kind.node
      (some ([⟨0, -2, 0⟩, ⟨2, 0, 0⟩, ⟨0, 0, 2⟩].map (nodeLLOfXyz (R tol ct))))) (by
    simp [run, step, init, wrapRange, populateNodeLL, src0, asIs])
  obtain ⟨l, hl, hf⟩ := hr
  simp only [Option.some.injEq] at hl
  subst hl
  simp only [List.map_cons, Truth.of, truth0, node0] at hf
  cases hf with
  | cons h1' _ =>
    have hle := h1'.1.2.1
    have hn : normSq (⟨0, -1, 0⟩ : V3 ℝ) = 1 := by norm_num [normSq, dot]
    have e : (⟨0, -2, 0⟩ : V3 ℝ) = V3.smul 2 ⟨0, -1, 0⟩ := by simp [V3.smul]
    have h270 : (nodeLLOfXyz (R tol ct) ⟨0, -2, 0⟩).1.val = 270 := by
      have := asis_node_lon_out_of_range (tol := tol) (ct := ct) h1
      simp only [nodeLLOfXyz] at this ⊢
      rw [e, lonLatRad_norm _ (normSq_posmul_ne 2 (by norm_num) _ hn), normalize_posmul 2 (by norm_num) _ hn]
      rw [lonLatRad_norm _ (by rw [hn]; norm_num), normalize_of_unit _ hn] at this
      exact this
    rw [h270] at hle
    norm_num at hle


/-! ### corollaries of the provenance theorem -/

variable {c : Conn} {T : Truth}

/-- Cartesian coordinates the source did not supply have unit length, in every history -/
theorem derived_xyz_unit (h0 : 0 < tol) (h1 : tol < 1) {src : St ℝ}
    (hS : SourceOK tol ct c T src) (ops : List Op) (k : Kind) (xs : List (V3 ℝ))
    (hx : Report.xyz k (some xs) ∈ (run (R tol ct) repaired c (init (R tol ct) src) ops).2)
    (hk : supOf src k = false) : ∀ v ∈ xs, normSq v = 1 := by
  obtain ⟨xs', e, _, hd⟩ := provenance_agree h0 h1 hS ops _ hx
  cases e
  rw [hd hk]
  exact hS.unit k

/-- face centres the source does not supply are the normalised means of the corner unit vectors -/
theorem unsupplied_face_centre_is_centroid (h0 : 0 < tol) (h1 : tol < 1) {src : St ℝ}
    (hS : SourceOK tol ct c T src) (ops : List Op) (xs : List (V3 ℝ))
    (hx : Report.xyz Kind.face (some xs) ∈ (run (R tol ct) repaired c (init (R tol ct) src) ops).2)
    (hl : src.faceLL = none) (hc : src.faceXYZ = none) :
    xs = c.faces.map (faceCentroid (R tol ct) T.node) := by
  obtain ⟨xs', e, _, hd⟩ := provenance_agree h0 h1 hS ops _ hx
  cases e
  rw [hd (by simp [supOf, hc])]
  exact (hS.faceFresh hl hc).1

/-- edge centres the source does not supply are the arc midpoints (see `edge_mid_equidistant`) -/
theorem unsupplied_edge_centre_is_midpoint (h0 : 0 < tol) (h1 : tol < 1) {src : St ℝ}
    (hS : SourceOK tol ct c T src) (ops : List Op) (xs : List (V3 ℝ))
    (hx : Report.xyz Kind.edge (some xs) ∈ (run (R tol ct) repaired c (init (R tol ct) src) ops).2)
    (hl : src.edgeLL = none) (hc : src.edgeXYZ = none) :
    xs = c.edges.map (edgeCentroid (R tol ct) T.node) := by
  obtain ⟨xs', e, _, hd⟩ := provenance_agree h0 h1 hS ops _ hx
  cases e
  rw [hd (by simp [supOf, hc])]
  exact (hS.edgeFresh hl hc).1

/-! ### the conversion laws (statements of `Lemmas/Coords.lean`, audited here) -/

/-- derived Cartesian coordinates have unit length -/
theorem xyz_unit (lon lat : Rad ℝ) : normSq (xyzOfLonLatRad (R tol ct) lon lat) = 1 :=
  CoordsR.xyz_unit lon lat

theorem normalize_unit (v : V3 ℝ) (hv : normSq v ≠ 0) : normSq (normalizeV (R tol ct) v) = 1 :=
  CoordsR.normalize_unit v hv

/-- normalising changes lengths only -/
theorem normalize_dir (v : V3 ℝ) (hv : normSq v ≠ 0) :
    ∃ k : ℝ, 0 < k ∧ normalizeV (R tol ct) v = V3.smul k v :=
  CoordsR.normalize_dir v hv

theorem normalize_idem (v : V3 ℝ) (hv : normSq v ≠ 0) :
    normalizeV (R tol ct) (normalizeV (R tol ct) v) = normalizeV (R tol ct) v :=
  CoordsR.normalize_idem v hv

/-- xyz supplied, lon/lat derived: `(arg (x + iy), arcsin z)` maps back to exactly `(x, y, z)` -/
theorem xyz_of_lonlat_of_xyz (v : V3 ℝ) (hu : normSq v = 1) (hxy : v.x ^ 2 + v.y ^ 2 ≠ 0) :
    xyzOfLonLatRad (R tol ct) ⟨Complex.arg ⟨v.x, v.y⟩⟩ ⟨Real.arcsin v.z⟩ = v :=
  CoordsR.xyz_of_lonlat_of_xyz v hu hxy

/-- `_xyz_to_lonlat_deg(x, y, z)` (normalize=True) of ANY non-zero vector: longitude in [-180,180],
    latitude in [-90,90], and the pair denotes the vector's direction (or the pole of the snapping
    cap containing it) -/
theorem lonlat_of_xyz_agree (h0 : 0 < tol) (h1 : tol < 1) (v : V3 ℝ) (hv : normSq v ≠ 0) :
    InRange (lonLatDegOfXyz (R tol ct) true v) ∧
    SameDir tol (dirDeg (R tol ct) (lonLatDegOfXyz (R tol ct) true v)) (normalizeV (R tol ct) v) := by
  rw [lonLatDeg_norm v hv]
  exact lonlat_of_unit h0 h1 _ (CoordsR.normalize_unit v hv)

/-- lon/lat supplied, xyz derived: consistent by construction, and unit -/
theorem lonlat_supplied_agree (p : Deg ℝ × Deg ℝ) :
    nodeXyzOfLL (R tol ct) p = dirDeg (R tol ct) p ∧ normSq (nodeXyzOfLL (R tol ct) p) = 1 :=
  ⟨rfl, CoordsR.xyz_unit _ _⟩

theorem xyz_mod_two_pi (lon lat : ℝ) :
    xyzOfLonLatRad (R tol ct) ⟨(R tol ct).fmod lon (2 * (R tol ct).pi)⟩ ⟨lat⟩
      = xyzOfLonLatRad (R tol ct) ⟨lon⟩ ⟨lat⟩ :=
  CoordsR.xyz_mod_two_pi lon lat

theorem dirDeg_wrap180 (d : ℝ) (lat : Deg ℝ) :
    dirDeg (R tol ct) (⟨wrap180 (R tol ct) d⟩, lat) = dirDeg (R tol ct) (⟨d⟩, lat) :=
  CoordsR.dirDeg_wrap180 d lat

theorem deg2rad_rad2deg (r : Rad ℝ) : deg2rad (R tol ct) (rad2deg (R tol ct) r) = r :=
  CoordsR.deg2rad_rad2deg r

theorem deg_range_real (d : ℝ) : -180 ≤ wrap180 (R tol ct) d ∧ wrap180 (R tol ct) d < 180 :=
  deg_range (R tol ct) (fun _ _ => rfl) d

/-! ### non-vacuity of the conversion laws -/

example : normSq (xyzOfLonLatRad (R tol ct) ⟨2⟩ ⟨1⟩) = 1 := xyz_unit _ _
example : normSq (normalizeV (R tol ct) ⟨3, 0, 4⟩) = 1 := normalize_unit _ (by norm_num [normSq, dot])
example : xyzOfLonLatRad (R tol ct) ⟨Complex.arg ⟨0, -1⟩⟩ ⟨Real.arcsin 0⟩ = ⟨0, -1, 0⟩ :=
  xyz_of_lonlat_of_xyz ⟨0, -1, 0⟩ (by norm_num [normSq, dot]) (by norm_num)
example (h0 : 0 < tol) (h1 : tol < 1) :
    InRange (lonLatDegOfXyz (R tol ct) true ⟨0, -7, 0⟩) :=
  (lonlat_of_xyz_agree h0 h1 ⟨0, -7, 0⟩ (by norm_num [normSq, dot])).1
example : dot (normalizeV (R tol ct) (meanV (R tol ct) [⟨1, 0, 0⟩, ⟨0, 1, 0⟩])) ⟨1, 0, 0⟩
        = dot (normalizeV (R tol ct) (meanV (R tol ct) [⟨1, 0, 0⟩, ⟨0, 1, 0⟩])) ⟨0, 1, 0⟩ :=
  (edge_mid_equidistant ⟨1, 0, 0⟩ ⟨0, 1, 0⟩ (by norm_num [normSq, dot]) (by norm_num [normSq, dot])
    (by norm_num [meanV, sumV, V3.add, V3.zero, V3.divS, normSq, dot, R])).1
example : SameDir (1 / 100000000) ⟨0, 0, 1⟩ ⟨0, 0, 1⟩ := Or.inl rfl
example : sameDirB (R tol ct) 0 (1 / 2) ⟨0, 0, 1⟩ ⟨3 / 5, 0, 4 / 5⟩ = true :=
  (sameDirB_iff _ _ _).mpr (Or.inr (Or.inl ⟨by norm_num, rfl⟩))

/-! ### the ±180 seam: which representative the code's wrap returns -/

theorem wrap180_periodic (d : ℝ) (m : ℤ) : wrap180 (R tol ct) (d - m * 360) = wrap180 (R tol ct) d := by
  rw [wrap180_eq, wrap180_eq]
  have : (d - m * 360 + 180) / 360 = (d + 180) / 360 - m := by field_simp; ring
  rw [this, Int.floor_sub_intCast]
  push_cast; ring

/-- inside [-180, 180) the wrap is the identity -/
theorem wrap180_of_mem (d : ℝ) (h1 : -180 ≤ d) (h2 : d < 180) : wrap180 (R tol ct) d = d := by
  rw [wrap180_eq]
  have : ⌊(d + 180) / 360⌋ = 0 := by
    rw [Int.floor_eq_iff]
    constructor
    · simp only [Int.cast_zero]; apply div_nonneg <;> linarith
    · simp only [Int.cast_zero, zero_add]; rw [div_lt_one (by norm_num)]; linarith
  rw [this]; simp

/-- the seam convention: +180 is reported as -180 -/
theorem wrap180_seam : wrap180 (R tol ct) 180 = -180 := by
  rw [wrap180_eq]
  have : ⌊((180 : ℝ) + 180) / 360⌋ = 1 := by rw [Int.floor_eq_iff]; norm_num
  rw [this]; norm_num

example : wrap180 (R tol ct) (190 - (1 : ℤ) * 360) = wrap180 (R tol ct) 190 := wrap180_periodic 190 1
example : wrap180 (R tol ct) (-180) = -180 := wrap180_of_mem _ (by norm_num) (by norm_num)


/-! ### exactly which inputs take the pole-snap branch -/

/-- `_xyz_to_lonlat_rad` takes the snap branch (longitude 0, latitude ±π/2) exactly when
    `|z| > 1 − ERROR_TOLERANCE`; otherwise it returns `(arctan2(y, x) mod 2π, arcsin z)` -/
theorem snap_branch_iff (h0 : 0 < tol) (v : V3 ℝ) (hu : normSq v = 1) :
    (lonLatRadOfXyz (R tol ct) false v = (⟨0⟩, ⟨signK (R tol ct) v.z * Real.pi / 2⟩) ∧ 1 - tol < |v.z|) ∨
    (lonLatRadOfXyz (R tol ct) false v
        = (⟨(R tol ct).fmod (Complex.arg ⟨v.x, v.y⟩) (2 * (R tol ct).pi)⟩, ⟨Real.arcsin v.z⟩) ∧
      |v.z| ≤ 1 - tol ∧ v.x ^ 2 + v.y ^ 2 ≠ 0) := by
  by_cases hm : 1 - tol < |v.z|
  · exact Or.inl ⟨lonLatRad_mask v hm, hm⟩
  · refine Or.inr ⟨lonLatRad_nomask v hm, not_lt.mp hm, ?_⟩
    have hu' : v.x * v.x + v.y * v.y + v.z * v.z = 1 := hu
    have hz : |v.z| < 1 := by have := not_lt.mp hm; linarith
    have : v.z ^ 2 < 1 := (sq_lt_one_iff_abs_lt_one v.z).mpr hz
    intro h; nlinarith

/-- in terms of the latitude φ ∈ [-π/2, π/2] of the point: the snap cap is `|φ| > arcsin (1 − tol)`,
    i.e. within `arccos (1 − tol)` of a pole -/
theorem snap_cap_iff_lat (h0 : 0 < tol) (h1 : tol < 1) (φ : ℝ) (hlo : -(Real.pi / 2) ≤ φ) (hhi : φ ≤ Real.pi / 2) :
    1 - tol < |Real.sin φ| ↔ Real.arcsin (1 - tol) < |φ| := by
  have habs : |Real.sin φ| = Real.sin |φ| := by
    rcases le_total 0 φ with h | h
    · rw [abs_of_nonneg h, abs_of_nonneg (Real.sin_nonneg_of_nonneg_of_le_pi h (by linarith [Real.pi_pos]))]
    · rw [abs_of_nonpos h, Real.sin_neg, abs_of_nonpos (Real.sin_nonpos_of_nonpos_of_neg_pi_le h (by linarith [Real.pi_pos]))]
  have hmem : |φ| ∈ Set.Icc (-(Real.pi / 2)) (Real.pi / 2) :=
    ⟨by linarith [abs_nonneg φ, Real.pi_pos], abs_le.mpr ⟨hlo, hhi⟩⟩
  rw [habs, Real.arcsin_lt_iff_lt_sin ⟨by linarith, by linarith⟩ hmem]

/-! ### lon/lat → xyz → lon/lat on the FULL domain (any real longitude, latitude in [-90, 90]) -/

theorem cos_sin_eq_exists_int {a b : ℝ} (hc : Real.cos a = Real.cos b) (hs : Real.sin a = Real.sin b) :
    ∃ k : ℤ, a = b + k * (2 * Real.pi) := by
  obtain ⟨k, hk⟩ := Real.Angle.angle_eq_iff_two_pi_dvd_sub.mp (Real.Angle.cos_sin_inj hc hs)
  exact ⟨k, by linarith⟩

/-- **round trip with the convention the code uses.**  For EVERY (lon, lat) in degrees with
    lat ∈ [-90, 90] — any real longitude: both conventions, the ±180 seam, the poles —
    `_xyz_to_lonlat_deg(_lonlat_rad_to_xyz(deg2rad lon, deg2rad lat))` is
    * `(0, ±90)` when the point lies in the snap cap (the supplied longitude is forgotten),
    * `(wrap180 lon, lat)` otherwise: the SAME latitude and the representative of the longitude in
      [-180, 180) (so lon itself when -180 ≤ lon < 180, and -180 for lon = 180). -/
theorem lonlat_of_xyz_of_lonlat (h0 : 0 < tol) (h1 : tol < 1) (p : Deg ℝ × Deg ℝ)
    (hlo : -90 ≤ p.2.val) (hhi : p.2.val ≤ 90) :
    lonLatDegOfXyz (R tol ct) false (dirDeg (R tol ct) p) =
      if 1 - tol < |Real.sin (p.2.val * (Real.pi / 180))| then
        ((⟨0⟩ : Deg ℝ), (⟨if 0 < p.2.val then 90 else -90⟩ : Deg ℝ))
      else ((⟨wrap180 (R tol ct) p.1.val⟩ : Deg ℝ), p.2) := by
  obtain ⟨⟨lon⟩, ⟨lat⟩⟩ := p
  simp only at hlo hhi ⊢
  have hpi := Real.pi_pos
  set φ := lat * (Real.pi / 180) with hφ
  set lam := lon * (Real.pi / 180) with hlam
  have hφlo : -(Real.pi / 2) ≤ φ := by rw [hφ]; nlinarith
  have hφhi : φ ≤ Real.pi / 2 := by rw [hφ]; nlinarith
  have hv : dirDeg (R tol ct) (⟨lon⟩, ⟨lat⟩)
      = ⟨Real.cos lam * Real.cos φ, Real.sin lam * Real.cos φ, Real.sin φ⟩ := rfl
  have hu : normSq (dirDeg (R tol ct) (⟨lon⟩, ⟨lat⟩)) = 1 := CoordsR.xyz_unit _ _
  rw [hv] at hu ⊢
  by_cases hm : 1 - tol < |Real.sin φ|
  · rw [if_pos hm]
    have hz0 : Real.sin φ ≠ 0 := by intro h; rw [h, abs_zero] at hm; linarith
    have e := lonLatRad_mask (tol := tol) (ct := ct)
      (⟨Real.cos lam * Real.cos φ, Real.sin lam * Real.cos φ, Real.sin φ⟩ : V3 ℝ) hm
    simp only [lonLatDegOfXyz, e, rad2deg]
    have hw : wrap180 (R tol ct) (0 * (180 / (R tol ct).pi)) = 0 := by rw [zero_mul, wrap180_zero]
    rw [hw]
    by_cases hpos : 0 < lat
    · have hφpos : 0 < φ := by rw [hφ]; positivity
      have hs : 0 < Real.sin φ := Real.sin_pos_of_pos_of_lt_pi hφpos (by linarith)
      have hsg : signK (R tol ct) (Real.sin φ) = 1 := by simp [signK, R, hs]
      rw [hsg, if_pos hpos]
      have : (1 * Real.pi / 2 * (180 / (R tol ct).pi)) = 90 := by simp only [R]; field_simp; norm_num
      rw [this]
    · have hφnp : φ ≤ 0 := by rw [hφ]; have := not_lt.mp hpos; nlinarith
      have hφneg : φ < 0 := by
        rcases lt_or_eq_of_le hφnp with h | h
        · exact h
        · exfalso; apply hz0; rw [h, Real.sin_zero]
      have hs : Real.sin φ < 0 := Real.sin_neg_of_neg_of_neg_pi_lt hφneg (by linarith)
      have hsg : signK (R tol ct) (Real.sin φ) = -1 := by simp [signK, R, hs, not_lt.mpr hs.le]
      rw [hsg, if_neg hpos]
      have : (-1 * Real.pi / 2 * (180 / (R tol ct).pi)) = -90 := by simp only [R]; field_simp; norm_num
      rw [this]
  · rw [if_neg hm]
    have hz : |Real.sin φ| < 1 := by have := not_lt.mp hm; linarith
    -- cos φ > 0: φ is not ±π/2
    have hcos : 0 < Real.cos φ := by
      apply Real.cos_pos_of_mem_Ioo
      constructor
      · rcases lt_or_eq_of_le hφlo with h | h
        · exact h
        · exfalso; rw [← h, Real.sin_neg, Real.sin_pi_div_two] at hz; norm_num at hz
      · rcases lt_or_eq_of_le hφhi with h | h
        · exact h
        · exfalso; rw [h, Real.sin_pi_div_two] at hz; norm_num at hz
    have hxy : (Real.cos lam * Real.cos φ) ^ 2 + (Real.sin lam * Real.cos φ) ^ 2 ≠ 0 := by
      have : (Real.cos lam * Real.cos φ) ^ 2 + (Real.sin lam * Real.cos φ) ^ 2 = Real.cos φ ^ 2 := by
        have := Real.sin_sq_add_cos_sq lam; nlinarith
      rw [this]; positivity
    have hasin : Real.arcsin (Real.sin φ) = φ := Real.arcsin_sin hφlo hφhi
    -- the exact round trip xyz → (arg, arcsin) → xyz, read component-wise
    have hrt := CoordsR.xyz_of_lonlat_of_xyz (tol := tol) (ct := ct)
      ⟨Real.cos lam * Real.cos φ, Real.sin lam * Real.cos φ, Real.sin φ⟩ hu hxy
    simp only [xyzOfLonLatRad, R, hasin] at hrt
    have hx := congrArg V3.x hrt
    have hy := congrArg V3.y hrt
    simp only at hx hy
    set α := Complex.arg ⟨Real.cos lam * Real.cos φ, Real.sin lam * Real.cos φ⟩ with hα
    have hc : Real.cos α = Real.cos lam := mul_right_cancel₀ hcos.ne' hx
    have hs : Real.sin α = Real.sin lam := mul_right_cancel₀ hcos.ne' hy
    obtain ⟨k, hk⟩ := cos_sin_eq_exists_int hc hs
    have e := lonLatRad_nomask (tol := tol) (ct := ct)
      (⟨Real.cos lam * Real.cos φ, Real.sin lam * Real.cos φ, Real.sin φ⟩ : V3 ℝ) hm
    simp only [lonLatDegOfXyz, e, rad2deg, hasin]
    have hlat : φ * (180 / (R tol ct).pi) = lat := by
      simp only [R, hφ]; field_simp
    have hlon : (R tol ct).fmod α (2 * (R tol ct).pi) * (180 / (R tol ct).pi)
        = lon - ((⌊α / (2 * Real.pi)⌋ - k : ℤ) : ℝ) * 360 := by
      rw [fmod_def]
      simp only [R]
      rw [hk, hlam]
      push_cast
      field_simp
      ring
    rw [hlat, hlon, wrap180_periodic]


/-- the same with `normalize=True` (the default of `_xyz_to_lonlat_deg`): the derived vector is
    unit, so the double normalisation changes nothing -/
theorem lonlat_of_xyz_of_lonlat_norm (h0 : 0 < tol) (h1 : tol < 1) (p : Deg ℝ × Deg ℝ)
    (hlo : -90 ≤ p.2.val) (hhi : p.2.val ≤ 90) :
    lonLatDegOfXyz (R tol ct) true (dirDeg (R tol ct) p) =
      if 1 - tol < |Real.sin (p.2.val * (Real.pi / 180))| then
        ((⟨0⟩ : Deg ℝ), (⟨if 0 < p.2.val then 90 else -90⟩ : Deg ℝ))
      else ((⟨wrap180 (R tol ct) p.1.val⟩ : Deg ℝ), p.2) := by
  have hu : normSq (dirDeg (R tol ct) p) = 1 := CoordsR.xyz_unit _ _
  rw [lonLatDeg_norm _ (by rw [hu]; norm_num), normalize_of_unit _ hu]
  exact lonlat_of_xyz_of_lonlat h0 h1 p hlo hhi

/-- away from the caps and with the longitude already in [-180, 180) the round trip is the identity -/
theorem lonlat_roundtrip_id (h0 : 0 < tol) (h1 : tol < 1) (p : Deg ℝ × Deg ℝ)
    (hlo : -90 ≤ p.2.val) (hhi : p.2.val ≤ 90) (h180 : -180 ≤ p.1.val) (h180' : p.1.val < 180)
    (hcap : |Real.sin (p.2.val * (Real.pi / 180))| ≤ 1 - tol) :
    lonLatDegOfXyz (R tol ct) false (dirDeg (R tol ct) p) = p := by
  rw [lonlat_of_xyz_of_lonlat h0 h1 p hlo hhi, if_neg (not_lt.mpr hcap), wrap180_of_mem _ h180 h180']

/-! non-vacuity: the seam, a pole given with a non-zero longitude, the 0..360 convention -/

example (h0 : 0 < tol) (h1 : tol < 1) :
    lonLatDegOfXyz (R tol ct) false (dirDeg (R tol ct) (⟨180⟩, ⟨0⟩)) = (⟨-180⟩, ⟨0⟩) := by
  rw [lonlat_of_xyz_of_lonlat h0 h1 _ (by norm_num) (by norm_num)]
  have : ¬ 1 - tol < |Real.sin ((0 : ℝ) * (Real.pi / 180))| := by simp; linarith
  rw [if_neg this, wrap180_seam]

example (h0 : 0 < tol) (h1 : tol < 1) :
    lonLatDegOfXyz (R tol ct) false (dirDeg (R tol ct) (⟨37⟩, ⟨90⟩)) = (⟨0⟩, ⟨90⟩) := by
  rw [lonlat_of_xyz_of_lonlat h0 h1 _ (by norm_num) (by norm_num)]
  have e : (90 : ℝ) * (Real.pi / 180) = Real.pi / 2 := by ring
  have : 1 - tol < |Real.sin ((90 : ℝ) * (Real.pi / 180))| := by
    rw [e, Real.sin_pi_div_two, abs_one]; linarith
  rw [if_pos this]; norm_num

example (h0 : 0 < tol) (h1 : tol < 1) :
    lonLatDegOfXyz (R tol ct) false (dirDeg (R tol ct) (⟨270⟩, ⟨0⟩)) = (⟨-90⟩, ⟨0⟩) := by
  rw [lonlat_of_xyz_of_lonlat h0 h1 _ (by norm_num) (by norm_num)]
  have : ¬ 1 - tol < |Real.sin ((0 : ℝ) * (Real.pi / 180))| := by simp; linarith
  rw [if_neg this]
  have : wrap180 (R tol ct) 270 = wrap180 (R tol ct) (-90) := by
    have := wrap180_periodic (tol := tol) (ct := ct) (-90) (-1)
    rw [← this]; norm_num
  rw [this, wrap180_of_mem _ (by norm_num) (by norm_num)]

example (h0 : 0 < tol) (h1 : tol < 1) : 1 - tol < |Real.sin (Real.pi / 2)| ↔ Real.arcsin (1 - tol) < |Real.pi / 2| :=
  snap_cap_iff_lat h0 h1 _ (by linarith [Real.pi_pos]) le_rfl

example (h0 : 0 < tol) (h1 : tol < 1) :
    lonLatRadOfXyz (R tol ct) false ⟨1, 0, 0⟩
      = (⟨(R tol ct).fmod (Complex.arg ⟨1, 0⟩) (2 * (R tol ct).pi)⟩, ⟨Real.arcsin 0⟩) := by
  rcases snap_branch_iff (ct := ct) h0 ⟨1, 0, 0⟩ (by norm_num [normSq, dot]) with ⟨_, h⟩ | ⟨h, _⟩
  · simp at h; linarith
  · exact h

/-! ### derived centres depend only on the element's own real corners -/

/-- a face centroid reads only the node entries its own row names: two node arrays that agree on
    the corners of `f` give the same centroid (whatever else they contain, e.g. nodes no face uses) -/
theorem centroid_row_local (nodes nodes' : List (V3 ℝ)) (f : List Nat)
    (h : ∀ i ∈ f, nodeAt nodes' i = nodeAt nodes i) :
    faceCentroid (R tol ct) nodes' f = faceCentroid (R tol ct) nodes f := by
  simp only [faceCentroid]
  rw [List.map_congr_left h]

/-- invariance under any renumbering `ρ` of the nodes that carries the corners' positions along -/
theorem centroid_renumber (ρ : Nat → Nat) (nodes nodes' : List (V3 ℝ)) (f : List Nat)
    (h : ∀ i ∈ f, nodeAt nodes' (ρ i) = nodeAt nodes i) :
    faceCentroid (R tol ct) nodes' (f.map ρ) = faceCentroid (R tol ct) nodes f := by
  simp only [faceCentroid, List.map_map]
  have : f.map (nodeAt nodes' ∘ ρ) = f.map (nodeAt nodes) := List.map_congr_left (fun i hi => h i hi)
  rw [this]

/-- the numbering after inserting `k` extra nodes at position `pos` -/
def shiftAt (pos k : Nat) (i : Nat) : Nat := if i < pos then i else i + k

theorem nodeAt_insert (nodes extra : List (V3 ℝ)) (pos i : Nat) (hpos : pos ≤ nodes.length) :
    nodeAt (nodes.take pos ++ extra ++ nodes.drop pos) (shiftAt pos extra.length i) = nodeAt nodes i := by
  simp only [nodeAt, shiftAt, List.getD_eq_getElem?_getD]
  congr 1
  by_cases h : i < pos
  · simp only [h, if_true]
    rw [List.append_assoc, List.getElem?_append_left (by simp; omega), List.getElem?_take_of_lt h]
  · simp only [h, if_false]
    have hlen : (nodes.take pos ++ extra).length = pos + extra.length := by simp; omega
    rw [List.getElem?_append_right (by rw [hlen]; omega), hlen, List.getElem?_drop]
    congr 1; omega

/-- nodes that no face uses are irrelevant wherever they are numbered: inserting any extra nodes at
    the start, in the middle or at the END of the node arrays (and renumbering the table
    accordingly) leaves every face centroid unchanged -/
theorem centroid_orphans_irrelevant (nodes extra : List (V3 ℝ)) (pos : Nat) (hpos : pos ≤ nodes.length)
    (f : List Nat) :
    faceCentroid (R tol ct) (nodes.take pos ++ extra ++ nodes.drop pos) (f.map (shiftAt pos extra.length))
      = faceCentroid (R tol ct) nodes f :=
  centroid_renumber _ _ _ _ (fun i _ => nodeAt_insert nodes extra pos i hpos)

theorem edge_centre_row_local (nodes nodes' : List (V3 ℝ)) (e : Nat × Nat)
    (h1 : nodeAt nodes' e.1 = nodeAt nodes e.1) (h2 : nodeAt nodes' e.2 = nodeAt nodes e.2) :
    edgeCentroid (R tol ct) nodes' e = edgeCentroid (R tol ct) nodes e := by
  simp only [edgeCentroid, h1, h2]

theorem edge_centre_orphans_irrelevant (nodes extra : List (V3 ℝ)) (pos : Nat) (hpos : pos ≤ nodes.length)
    (e : Nat × Nat) :
    edgeCentroid (R tol ct) (nodes.take pos ++ extra ++ nodes.drop pos)
        (shiftAt pos extra.length e.1, shiftAt pos extra.length e.2)
      = edgeCentroid (R tol ct) nodes e := by
  simp only [edgeCentroid, nodeAt_insert nodes extra _ _ hpos]

/-- non-vacuity: an unused node appended LAST (the seeded C04e situation) and one put FIRST -/
example (a b c z : V3 ℝ) :
    faceCentroid (R tol ct) [a, b, c, z] [0, 1, 2] = faceCentroid (R tol ct) [a, b, c] [0, 1, 2] :=
  centroid_orphans_irrelevant [a, b, c] [z] 3 (by simp) [0, 1, 2]
example (a b c z : V3 ℝ) :
    faceCentroid (R tol ct) [z, a, b, c] [1, 2, 3] = faceCentroid (R tol ct) [a, b, c] [0, 1, 2] :=
  centroid_orphans_irrelevant [a, b, c] [z] 0 (by simp) [0, 1, 2]
example (a b z : V3 ℝ) :
    edgeCentroid (R tol ct) [a, z, b] (0, 2) = edgeCentroid (R tol ct) [a, b] (0, 1) :=
  edge_centre_orphans_irrelevant [a, b] [z] 1 (by simp) (0, 1)

end UxVerif.C04
