import UxVerif.Lemmas.Coords
import Mathlib.Data.List.Forall2

namespace UxVerif.C04
open UxVerif.Coords UxVerif.CoordsR List

variable {tol ct : ℝ}

/-- the true positions: one unit vector per node, edge centre, face centre -/
structure Truth where
  node : List (V3 ℝ)
  edge : List (V3 ℝ)
  face : List (V3 ℝ)

def Truth.of (T : Truth) : Kind → List (V3 ℝ)
  | .node => T.node
  | .edge => T.edge
  | .face => T.face

/-- a reported (lon, lat) is in range and denotes `t` (to the pole snap) -/
def LLok (tol ct : ℝ) (p : Deg ℝ × Deg ℝ) (t : V3 ℝ) : Prop :=
  InRange p ∧ SameDir tol (dirDeg (R tol ct) p) t

/-- in range and denotes exactly `t` -/
def LLexact (tol ct : ℝ) (p : Deg ℝ × Deg ℝ) (t : V3 ℝ) : Prop :=
  InRange p ∧ dirDeg (R tol ct) p = t

/-- `v` is a positive multiple of `t`: same direction, any length -/
def PosMul (v t : V3 ℝ) : Prop := ∃ c : ℝ, 0 < c ∧ v = V3.smul c t

theorem LLexact.ok {p : Deg ℝ × Deg ℝ} {t : V3 ℝ} (h : LLexact tol ct p t) : LLok tol ct p t :=
  ⟨h.1, Or.inl h.2⟩

theorem PosMul.refl (t : V3 ℝ) : PosMul t t := ⟨1, one_pos, (smul_one t).symm⟩

/-! ### list helpers -/

theorem forall₂_map_self {α β : Type} {P : α → β → Prop} {f : β → α} :
    ∀ {l : List β}, (∀ t ∈ l, P (f t) t) → Forall₂ P (l.map f) l
  | [], _ => Forall₂.nil
  | a :: l, h => Forall₂.cons (h a (by simp)) (forall₂_map_self (fun t ht => h t (by simp [ht])))

theorem forall₂_refl' {β : Type} {P : β → β → Prop} :
    ∀ {l : List β}, (∀ t ∈ l, P t t) → Forall₂ P l l
  | [], _ => Forall₂.nil
  | a :: l, h => Forall₂.cons (h a (by simp)) (forall₂_refl' (fun t ht => h t (by simp [ht])))

theorem forall₂_and_right {α β : Type} {P : α → β → Prop} {Q : β → Prop} {l : List α} {t : List β}
    (h : Forall₂ P l t) (hq : ∀ b ∈ t, Q b) : Forall₂ (fun a b => P a b ∧ Q b) l t := by
  induction h with
  | nil => exact Forall₂.nil
  | cons hab _ ih =>
    exact Forall₂.cons ⟨hab, hq _ (by simp)⟩ (ih (fun b hb => hq b (by simp [hb])))

theorem map_eq_of_forall₂ {α β : Type} {f : α → β} {l : List α} {t : List β}
    (h : Forall₂ (fun a b => f a = b) l t) : l.map f = t := by
  induction h with
  | nil => rfl
  | cons hab _ ih => simp [hab, ih]

theorem forall₂_share {α β γ : Type} {P : α → γ → Prop} {Q : β → γ → Prop} {l : List α} {m : List β}
    {t : List γ} (h1 : Forall₂ P l t) (h2 : Forall₂ Q m t) :
    Forall₂ (fun a b => ∃ c, P a c ∧ Q b c) l m := by
  induction h1 generalizing m with
  | nil => cases h2; exact Forall₂.nil
  | cons hab _ ih =>
    cases h2 with
    | cons hq h2' => exact Forall₂.cons ⟨_, hab, hq⟩ (ih h2')

/-! ### `_set_desired_longitude_range` is the identity once every longitude is ≤ 180 -/

theorem wrapArr_id {l : LL ℝ} {t : List (V3 ℝ)} (h : Forall₂ (LLok tol ct) l t) :
    wrapArr (R tol ct) l = l := by
  have : l.any (fun p => (R tol ct).lt 180 p.1.val) = false := by
    rw [List.any_eq_false]
    intro p hp
    induction h with
    | nil => cases hp
    | cons hab _ ih =>
      rcases List.mem_cons.mp hp with rfl | hp'
      · have := hab.1.2.1
        simp [R, not_lt.mpr this]
      · exact ih hp'
  simp [wrapArr, this]


/-! ### invariants of the provenance state machine -/

/-- node coordinates: whatever is stored denotes the truth; stored xyz has ONE radius; xyz that the
    source did not supply is exactly the unit truth; if xyz is absent the stored lon/lat is exact
    (it came from the source), so xyz can be derived from it without loss -/
structure NodeInv (tol ct : ℝ) (sup : Bool) (tn : List (V3 ℝ)) (ll : Option (LL ℝ))
    (xyz : Option (List (V3 ℝ))) : Prop where
  ll_ok : ∀ l, ll = some l → Forall₂ (LLok tol ct) l tn
  xyz_ok : ∀ xs, xyz = some xs → ∃ r : ℝ, 0 < r ∧ xs = tn.map (V3.smul r)
  xyz_derived : sup = false → ∀ xs, xyz = some xs → xs = tn
  ll_exact : xyz = none → ∃ l, ll = some l ∧ Forall₂ (LLexact tol ct) l tn

/-- centre coordinates of one kind; `Fresh` is what is known when the source supplied neither
    representation (the truth is then the normalised mean of the corners) -/
structure CentreInv (tol ct : ℝ) (sup : Bool) (tc : List (V3 ℝ)) (Fresh : Prop) (ll : Option (LL ℝ))
    (xyz : Option (List (V3 ℝ))) : Prop where
  ll_ok : ∀ l, ll = some l → Forall₂ (LLok tol ct) l tc
  xyz_ok : ∀ xs, xyz = some xs → Forall₂ PosMul xs tc
  xyz_derived : sup = false → ∀ xs, xyz = some xs → xs = tc
  ll_exact : xyz = none → ∀ l, ll = some l → Forall₂ (LLexact tol ct) l tc
  fresh : ll = none → xyz = none → Fresh

theorem centreLL_of_posmul (h0 : 0 < tol) (h1 : tol < 1) {v t : V3 ℝ} (h : PosMul v t) (ht : normSq t = 1) :
    LLok tol ct (centreLLOfStoredXyz (R tol ct) repaired v) t := by
  obtain ⟨c, hc, rfl⟩ := h
  have : centreLLOfStoredXyz (R tol ct) repaired (V3.smul c t) = lonLatDegOfXyz (R tol ct) false t := by
    simp [centreLLOfStoredXyz, repaired, normalize_posmul c hc t ht]
  rw [this]
  exact lonlat_of_unit h0 h1 t ht

theorem nodeLL_of_posmul (h0 : 0 < tol) (h1 : tol < 1) {c : ℝ} (hc : 0 < c) {t : V3 ℝ} (ht : normSq t = 1) :
    LLok tol ct (nodeLLOfXyz (R tol ct) repaired (V3.smul c t)) t := by
  have : nodeLLOfXyz (R tol ct) repaired (V3.smul c t) = lonLatDegOfXyz (R tol ct) false t := by
    simp [nodeLLOfXyz, repaired, lonLatDeg_norm _ (normSq_posmul_ne c hc t ht), normalize_posmul c hc t ht]
  rw [this]
  exact lonlat_of_unit h0 h1 t ht

/-- the shared body of `_populate_face_centroids` / `_populate_edge_centroids` re-establishes the
    invariant with both representations stored -/
theorem populateCentre_inv (h0 : 0 < tol) (h1 : tol < 1) {sup : Bool} {tc con : List (V3 ℝ)} {Fresh : Prop}
    {ll : Option (LL ℝ)} {xyz : Option (List (V3 ℝ))}
    (hI : CentreInv tol ct sup tc Fresh ll xyz) (hu : ∀ t ∈ tc, normSq t = 1)
    (hcon : Fresh → con = tc) :
    CentreInv tol ct sup tc Fresh (some (populateCentre (R tol ct) repaired con ll xyz).1)
      (some (populateCentre (R tol ct) repaired con ll xyz).2) := by
  cases ll with
  | none =>
    cases xyz with
    | none =>
      have hc : con = tc := hcon (hI.fresh rfl rfl)
      subst hc
      simp only [populateCentre]
      refine ⟨?_, ?_, ?_, ?_, ?_⟩
      · intro l hl; cases hl
        exact forall₂_map_self (fun t ht => lonlat_of_unit h0 h1 t (hu t ht))
      · intro xs hx; cases hx
        exact forall₂_refl' (fun t _ => PosMul.refl t)
      · intro _ xs hx; cases hx; rfl
      · intro h; cases h
      · intro h; cases h
    | some c =>
      simp only [populateCentre]
      have hc := hI.xyz_ok c rfl
      refine ⟨?_, ?_, ?_, ?_, ?_⟩
      · intro l hl; cases hl
        rw [forall₂_map_left_iff]
        exact (forall₂_and_right hc hu).imp (fun _ _ h => centreLL_of_posmul h0 h1 h.1 h.2)
      · intro xs hx; cases hx; exact hc
      · intro hs xs hx; cases hx; exact hI.xyz_derived hs c rfl
      · intro h; cases h
      · intro h; cases h
  | some l =>
    cases xyz with
    | none =>
      simp only [populateCentre]
      have hl := hI.ll_exact rfl l rfl
      have hmap : l.map (centreXyzOfLL (R tol ct) repaired) = tc := by
        apply map_eq_of_forall₂
        exact hl.imp (fun _ _ h => by simpa [centreXyzOfLL, repaired] using h.2)
      rw [hmap]
      refine ⟨?_, ?_, ?_, ?_, ?_⟩
      · intro l' hl'; cases hl'; exact hI.ll_ok l rfl
      · intro xs hx; cases hx
        exact forall₂_refl' (fun t _ => PosMul.refl t)
      · intro _ xs hx; cases hx; rfl
      · intro h; cases h
      · intro h; cases h
    | some c =>
      simp only [populateCentre]
      refine ⟨?_, ?_, ?_, ?_, ?_⟩
      · intro l' hl'; cases hl'; exact hI.ll_ok l rfl
      · intro xs hx; cases hx; exact hI.xyz_ok c rfl
      · intro hs xs hx; cases hx; exact hI.xyz_derived hs c rfl
      · intro h; cases h
      · intro h; cases h


/-- what is known when the source supplies no face centres: the truth is the normalised mean of
    the corner unit vectors, and no mean vanishes -/
def FreshFace (tol ct : ℝ) (c : Conn) (T : Truth) : Prop :=
  T.face = c.faces.map (faceCentroid (R tol ct) T.node) ∧
  ∀ f ∈ c.faces, normSq (meanV (R tol ct) (f.map (nodeAt T.node))) ≠ 0

def FreshEdge (tol ct : ℝ) (c : Conn) (T : Truth) : Prop :=
  T.edge = c.edges.map (edgeCentroid (R tol ct) T.node) ∧
  ∀ e ∈ c.edges, normSq (meanV (R tol ct) [nodeAt T.node e.1, nodeAt T.node e.2]) ≠ 0

structure Inv (tol ct : ℝ) (sup : Kind → Bool) (c : Conn) (T : Truth) (s : St ℝ) : Prop where
  node : NodeInv tol ct (sup .node) T.node s.nodeLL s.nodeXYZ
  edge : CentreInv tol ct (sup .edge) T.edge (FreshEdge tol ct c T) s.edgeLL s.edgeXYZ
  face : CentreInv tol ct (sup .face) T.face (FreshFace tol ct c T) s.faceLL s.faceXYZ

def TruthUnit (T : Truth) : Prop := ∀ k, ∀ t ∈ T.of k, normSq t = 1

variable {sup : Kind → Bool} {c : Conn} {T : Truth} {s : St ℝ}

theorem map_smul_one (l : List (V3 ℝ)) : l.map (V3.smul 1) = l := by
  induction l with
  | nil => rfl
  | cons a l ih => simp [smul_one, ih]

theorem wrapRange_id (hI : Inv tol ct sup c T s) : wrapRange (R tol ct) s = s := by
  have hn : s.nodeLL.map (wrapArr (R tol ct)) = s.nodeLL := by
    cases h : s.nodeLL with
    | none => rfl
    | some l => simp [wrapArr_id (hI.node.ll_ok l h)]
  have he : s.edgeLL.map (wrapArr (R tol ct)) = s.edgeLL := by
    cases h : s.edgeLL with
    | none => rfl
    | some l => simp [wrapArr_id (hI.edge.ll_ok l h)]
  have hf : s.faceLL.map (wrapArr (R tol ct)) = s.faceLL := by
    cases h : s.faceLL with
    | none => rfl
    | some l => simp [wrapArr_id (hI.face.ll_ok l h)]
  simp only [wrapRange, hn, he, hf]

/-- the Cartesian node getter keeps the invariant and leaves xyz stored with one radius -/
theorem ensureNodeXYZ_spec (hI : Inv tol ct sup c T s) :
    Inv tol ct sup c T (ensureNodeXYZ (R tol ct) s) ∧
    (∃ r : ℝ, 0 < r ∧ (ensureNodeXYZ (R tol ct) s).nodeXYZ = some (T.node.map (V3.smul r))) ∧
    (ensureNodeXYZ (R tol ct) s).edgeLL = s.edgeLL ∧ (ensureNodeXYZ (R tol ct) s).edgeXYZ = s.edgeXYZ ∧
    (ensureNodeXYZ (R tol ct) s).faceLL = s.faceLL ∧ (ensureNodeXYZ (R tol ct) s).faceXYZ = s.faceXYZ ∧
    (ensureNodeXYZ (R tol ct) s).nodeLL = s.nodeLL := by
  cases h : s.nodeXYZ with
  | some xs =>
    have e : ensureNodeXYZ (R tol ct) s = s := by simp [ensureNodeXYZ, h]
    rw [e]
    obtain ⟨r, hr, hx⟩ := hI.node.xyz_ok xs h
    exact ⟨hI, ⟨r, hr, by rw [h, hx]⟩, rfl, rfl, rfl, rfl, rfl⟩
  | none =>
    obtain ⟨l, hl, hex⟩ := hI.node.ll_exact h
    have hmap : l.map (nodeXyzOfLL (R tol ct)) = T.node :=
      map_eq_of_forall₂ (hex.imp (fun _ _ h => h.2))
    have e : ensureNodeXYZ (R tol ct) s = { s with nodeXYZ := some T.node } := by
      simp [ensureNodeXYZ, h, hl, hmap]
    rw [e]
    refine ⟨⟨⟨hI.node.ll_ok, ?_, ?_, ?_⟩, hI.edge, hI.face⟩, ⟨1, one_pos, by simp [map_smul_one]⟩,
      rfl, rfl, rfl, rfl, rfl⟩
    · intro xs hx; cases hx; exact ⟨1, one_pos, (map_smul_one _).symm⟩
    · intro _ xs hx; cases hx; rfl
    · intro h'; cases h'


/-! ### every populate function and every getter keeps the invariant -/

theorem faces_constructed {r : ℝ} (hr : 0 < r) (hF : FreshFace tol ct c T) :
    c.faces.map (faceCentroid (R tol ct) (T.node.map (V3.smul r))) = T.face := by
  rw [hF.1]
  apply List.map_congr_left
  intro f hf
  exact faceCentroid_scaled r hr T.node f (hF.2 f hf)

theorem edges_constructed {r : ℝ} (hr : 0 < r) (hE : FreshEdge tol ct c T) :
    c.edges.map (edgeCentroid (R tol ct) (T.node.map (V3.smul r))) = T.edge := by
  rw [hE.1]
  apply List.map_congr_left
  intro e he
  exact edgeCentroid_scaled r hr T.node e (hE.2 e he)

theorem populateFace_spec (h0 : 0 < tol) (h1 : tol < 1) (hu : TruthUnit T) (hI : Inv tol ct sup c T s) :
    Inv tol ct sup c T (populateFace (R tol ct) repaired c s) ∧
    (∃ l, (populateFace (R tol ct) repaired c s).faceLL = some l) ∧
    (∃ xs, (populateFace (R tol ct) repaired c s).faceXYZ = some xs) := by
  obtain ⟨hI1, ⟨r, hr, hx⟩, heLL, heXYZ, hfLL, hfXYZ, hnLL⟩ := ensureNodeXYZ_spec hI
  have hnodes : (ensureNodeXYZ (R tol ct) s).nodeXYZ.getD [] = T.node.map (V3.smul r) := by rw [hx]; rfl
  simp only [populateFace]
  rw [hnodes]
  have hc := populateCentre_inv (ct := ct) h0 h1 hI1.face (hu .face)
    (con := c.faces.map (faceCentroid (R tol ct) (T.node.map (V3.smul r))))
    (fun hF => faces_constructed hr hF)
  exact ⟨⟨hI1.node, hI1.edge, hc⟩, ⟨_, rfl⟩, ⟨_, rfl⟩⟩

theorem populateEdge_spec (h0 : 0 < tol) (h1 : tol < 1) (hu : TruthUnit T) (hI : Inv tol ct sup c T s) :
    Inv tol ct sup c T (populateEdge (R tol ct) repaired c s) ∧
    (∃ l, (populateEdge (R tol ct) repaired c s).edgeLL = some l) ∧
    (∃ xs, (populateEdge (R tol ct) repaired c s).edgeXYZ = some xs) := by
  obtain ⟨hI1, ⟨r, hr, hx⟩, heLL, heXYZ, hfLL, hfXYZ, hnLL⟩ := ensureNodeXYZ_spec hI
  have hnodes : (ensureNodeXYZ (R tol ct) s).nodeXYZ.getD [] = T.node.map (V3.smul r) := by rw [hx]; rfl
  simp only [populateEdge]
  rw [hnodes]
  have hc := populateCentre_inv (ct := ct) h0 h1 hI1.edge (hu .edge)
    (con := c.edges.map (edgeCentroid (R tol ct) (T.node.map (V3.smul r))))
    (fun hE => edges_constructed hr hE)
  exact ⟨⟨hI1.node, hc, hI1.face⟩, ⟨_, rfl⟩, ⟨_, rfl⟩⟩

theorem populateNodeLL_spec (h0 : 0 < tol) (h1 : tol < 1) (hu : TruthUnit T) (hI : Inv tol ct sup c T s)
    (hn : s.nodeLL = none) :
    Inv tol ct sup c T (populateNodeLL (R tol ct) repaired s) ∧
    ∃ l, (populateNodeLL (R tol ct) repaired s).nodeLL = some l := by
  cases hx : s.nodeXYZ with
  | none =>
    obtain ⟨l, hl, _⟩ := hI.node.ll_exact hx
    rw [hn] at hl; cases hl
  | some xs =>
    obtain ⟨r, hr, hxs⟩ := hI.node.xyz_ok xs hx
    simp only [populateNodeLL, hx]
    refine ⟨⟨⟨?_, ?_, ?_, ?_⟩, hI.edge, hI.face⟩, ⟨_, rfl⟩⟩
    · intro l hl; cases hl
      rw [hxs, List.map_map]
      exact forall₂_map_self (fun t ht => nodeLL_of_posmul h0 h1 hr (hu .node t ht))
    · intro ys hy; exact hI.node.xyz_ok ys (by rw [hx]; exact hy)
    · intro hs ys hy; exact hI.node.xyz_derived hs ys (by rw [hx]; exact hy)
    · intro h; simp at h

theorem map_normalize_posmul {xs tc : List (V3 ℝ)} (h : Forall₂ PosMul xs tc) (hu : ∀ t ∈ tc, normSq t = 1) :
    xs.map (normalizeV (R tol ct)) = tc := by
  apply map_eq_of_forall₂
  refine (forall₂_and_right h hu).imp ?_
  rintro v t ⟨⟨k, hk, rfl⟩, ht⟩
  exact normalize_posmul k hk t ht

theorem posmul_of_scaled (tn : List (V3 ℝ)) {r : ℝ} (hr : 0 < r) : Forall₂ PosMul (tn.map (V3.smul r)) tn :=
  forall₂_map_self (fun _ _ => ⟨r, hr, rfl⟩)

theorem NodeInv.normalized {b : Bool} {tn : List (V3 ℝ)} {ll : Option (LL ℝ)} {xyz : Option (List (V3 ℝ))}
    (h : NodeInv tol ct b tn ll xyz) (hu : ∀ t ∈ tn, normSq t = 1) :
    NodeInv tol ct b tn ll (xyz.map (List.map (normalizeV (R tol ct)))) := by
  cases xyz with
  | none => exact h
  | some xs =>
    obtain ⟨r, hr, hxs⟩ := h.xyz_ok xs rfl
    have e : xs.map (normalizeV (R tol ct)) = tn := by
      rw [hxs]; exact map_normalize_posmul (posmul_of_scaled tn hr) hu
    simp only [Option.map_some, e]
    refine ⟨h.ll_ok, ?_, ?_, ?_⟩
    · intro ys hy; cases hy; exact ⟨1, one_pos, (map_smul_one _).symm⟩
    · intro _ ys hy; cases hy; rfl
    · intro h'; cases h'

theorem CentreInv.normalized {b : Bool} {tc : List (V3 ℝ)} {F : Prop} {ll : Option (LL ℝ)}
    {xyz : Option (List (V3 ℝ))}
    (h : CentreInv tol ct b tc F ll xyz) (hu : ∀ t ∈ tc, normSq t = 1) :
    CentreInv tol ct b tc F ll (xyz.map (List.map (normalizeV (R tol ct)))) := by
  cases xyz with
  | none => exact h
  | some xs =>
    have e : xs.map (normalizeV (R tol ct)) = tc := map_normalize_posmul (h.xyz_ok xs rfl) hu
    simp only [Option.map_some, e]
    refine ⟨h.ll_ok, ?_, ?_, ?_, ?_⟩
    · intro ys hy; cases hy; exact forall₂_refl' (fun t _ => PosMul.refl t)
    · intro _ ys hy; cases hy; rfl
    · intro h'; cases h'
    · intro _ h'; cases h'

theorem normalizeOp_inv (hu : TruthUnit T) (hI : Inv tol ct sup c T s) :
    Inv tol ct sup c T (normalizeOp (R tol ct) s) := by
  unfold normalizeOp
  split
  · exact hI
  · have hI1 : Inv tol ct sup c T
        (if s.edgeXYZ.isSome || s.faceXYZ.isSome then ensureNodeXYZ (R tol ct) s else s) := by
      split
      · exact (ensureNodeXYZ_spec hI).1
      · exact hI
    generalize (if s.edgeXYZ.isSome || s.faceXYZ.isSome then ensureNodeXYZ (R tol ct) s else s) = s1 at hI1
    simp only []
    split
    · exact ⟨hI1.node, hI1.edge, hI1.face⟩
    · exact ⟨hI1.node.normalized (hu .node), hI1.edge.normalized (hu .edge), hI1.face.normalized (hu .face)⟩


/-! ### what a getter hands back -/

/-- a reported lon/lat array: present, every longitude in [-180, 180], every latitude in [-90, 90],
    every pair denotes the true point (to the pole snap); a reported xyz array: present, every
    vector a positive multiple of the true unit vector, and exactly the unit vector when the source
    did not supply Cartesian coordinates of that kind -/
def ReportOK (tol ct : ℝ) (sup : Kind → Bool) (T : Truth) : Report ℝ → Prop
  | .ll k v => ∃ l, v = some l ∧ Forall₂ (LLok tol ct) l (T.of k)
  | .xyz k v => ∃ xs, v = some xs ∧ Forall₂ PosMul xs (T.of k) ∧ (sup k = false → xs = T.of k)
  | .unit => True

theorem Inv.reportNodeLL (hI : Inv tol ct sup c T s) {l : LL ℝ} (h : s.nodeLL = some l) :
    ReportOK tol ct sup T (.ll .node s.nodeLL) := ⟨l, h, hI.node.ll_ok l h⟩
theorem Inv.reportEdgeLL (hI : Inv tol ct sup c T s) {l : LL ℝ} (h : s.edgeLL = some l) :
    ReportOK tol ct sup T (.ll .edge s.edgeLL) := ⟨l, h, hI.edge.ll_ok l h⟩
theorem Inv.reportFaceLL (hI : Inv tol ct sup c T s) {l : LL ℝ} (h : s.faceLL = some l) :
    ReportOK tol ct sup T (.ll .face s.faceLL) := ⟨l, h, hI.face.ll_ok l h⟩
theorem Inv.reportNodeXYZ (hI : Inv tol ct sup c T s) {xs : List (V3 ℝ)} (h : s.nodeXYZ = some xs) :
    ReportOK tol ct sup T (.xyz .node s.nodeXYZ) := by
  obtain ⟨r, hr, hx⟩ := hI.node.xyz_ok xs h
  exact ⟨xs, h, by rw [hx]; exact posmul_of_scaled _ hr, fun hs => hI.node.xyz_derived hs xs h⟩
theorem Inv.reportEdgeXYZ (hI : Inv tol ct sup c T s) {xs : List (V3 ℝ)} (h : s.edgeXYZ = some xs) :
    ReportOK tol ct sup T (.xyz .edge s.edgeXYZ) :=
  ⟨xs, h, hI.edge.xyz_ok xs h, fun hs => hI.edge.xyz_derived hs xs h⟩
theorem Inv.reportFaceXYZ (hI : Inv tol ct sup c T s) {xs : List (V3 ℝ)} (h : s.faceXYZ = some xs) :
    ReportOK tol ct sup T (.xyz .face s.faceXYZ) :=
  ⟨xs, h, hI.face.xyz_ok xs h, fun hs => hI.face.xyz_derived hs xs h⟩

/-- one access (any of the six getters, or `normalize_cartesian_coordinates`) keeps the invariant
    and returns a correct report -/
theorem step_spec (h0 : 0 < tol) (h1 : tol < 1) (hu : TruthUnit T) (hI : Inv tol ct sup c T s) (op : Op) :
    Inv tol ct sup c T (step (R tol ct) repaired c s op).1 ∧
    ReportOK tol ct sup T (step (R tol ct) repaired c s op).2 := by
  cases op with
  | normalize => exact ⟨normalizeOp_inv hu hI, trivial⟩
  | getLL k =>
    cases k with
    | node =>
      simp only [step]
      cases hn : s.nodeLL with
      | none =>
        simp only [Option.isNone_none, if_true, wrapRange_id hI]
        obtain ⟨hI', l, hl⟩ := populateNodeLL_spec h0 h1 hu hI hn
        exact ⟨hI', hI'.reportNodeLL hl⟩
      | some l =>
        simp only [Option.isNone_some, Bool.false_eq_true, if_false]
        exact ⟨hI, hI.reportNodeLL hn⟩
    | edge =>
      simp only [step]
      cases hn : s.edgeLL with
      | none =>
        simp only [Option.isNone_none, if_true]
        obtain ⟨hI', ⟨l, hl⟩, _⟩ := populateEdge_spec h0 h1 hu hI
        rw [wrapRange_id hI']
        exact ⟨hI', hI'.reportEdgeLL hl⟩
      | some l =>
        simp only [Option.isNone_some, Bool.false_eq_true, if_false, wrapRange_id hI]
        exact ⟨hI, hI.reportEdgeLL hn⟩
    | face =>
      simp only [step]
      cases hn : s.faceLL with
      | none =>
        simp only [Option.isNone_none, if_true]
        obtain ⟨hI', ⟨l, hl⟩, _⟩ := populateFace_spec h0 h1 hu hI
        rw [wrapRange_id hI']
        exact ⟨hI', hI'.reportFaceLL hl⟩
      | some l =>
        simp only [Option.isNone_some, Bool.false_eq_true, if_false]
        exact ⟨hI, hI.reportFaceLL hn⟩
  | getXYZ k =>
    cases k with
    | node =>
      simp only [step]
      obtain ⟨hI', ⟨r, _, hx⟩, _⟩ := ensureNodeXYZ_spec hI
      exact ⟨hI', hI'.reportNodeXYZ hx⟩
    | edge =>
      simp only [step]
      cases hn : s.edgeXYZ with
      | none =>
        simp only [Option.isNone_none, if_true]
        obtain ⟨hI', _, ⟨xs, hx⟩⟩ := populateEdge_spec h0 h1 hu hI
        exact ⟨hI', hI'.reportEdgeXYZ hx⟩
      | some xs =>
        simp only [Option.isNone_some, Bool.false_eq_true, if_false]
        exact ⟨hI, hI.reportEdgeXYZ hn⟩
    | face =>
      simp only [step]
      cases hn : s.faceXYZ with
      | none =>
        simp only [Option.isNone_none, if_true]
        obtain ⟨hI', _, ⟨xs, hx⟩⟩ := populateFace_spec h0 h1 hu hI
        exact ⟨hI', hI'.reportFaceXYZ hx⟩
      | some xs =>
        simp only [Option.isNone_some, Bool.false_eq_true, if_false]
        exact ⟨hI, hI.reportFaceXYZ hn⟩

/-- induction over the access list: every report of every history is correct -/
theorem run_spec (h0 : 0 < tol) (h1 : tol < 1) (hu : TruthUnit T) :
    ∀ (ops : List Op) (s : St ℝ), Inv tol ct sup c T s →
      Inv tol ct sup c T (run (R tol ct) repaired c s ops).1 ∧
      ∀ r ∈ (run (R tol ct) repaired c s ops).2, ReportOK tol ct sup T r
  | [], s, hI => ⟨hI, fun r hr => by cases hr⟩
  | op :: ops, s, hI => by
    obtain ⟨hI', hr⟩ := step_spec h0 h1 hu hI op
    obtain ⟨hI'', hrs⟩ := run_spec h0 h1 hu ops _ hI'
    refine ⟨hI'', ?_⟩
    intro r hmem
    simp only [run, List.mem_cons] at hmem
    rcases hmem with rfl | hmem
    · exact hr
    · exact hrs r hmem


/-! ### the source and `Grid.__init__` -/

/-- a source-supplied (lon, lat): latitude in range, longitude ≥ -180 but possibly in the 0..360
    convention (anything above 180), denoting exactly the true point -/
def SrcLL (tol ct : ℝ) (p : Deg ℝ × Deg ℝ) (t : V3 ℝ) : Prop :=
  -180 ≤ p.1.val ∧ -90 ≤ p.2.val ∧ p.2.val ≤ 90 ∧ dirDeg (R tol ct) p = t

/-- which Cartesian arrays the source supplies -/
def supOf (src : St ℝ) : Kind → Bool
  | .node => src.nodeXYZ.isSome
  | .edge => src.edgeXYZ.isSome
  | .face => src.faceXYZ.isSome

/-- a consistent source: every representation it supplies denotes the true points (node xyz with
    one common radius, centre xyz with any positive lengths); nodes are supplied in at least one
    representation; centres supplied in neither are the normalised means of the corners -/
structure SourceOK (tol ct : ℝ) (c : Conn) (T : Truth) (src : St ℝ) : Prop where
  unit : TruthUnit T
  node_some : src.nodeLL = none → src.nodeXYZ = none → False
  nodeLL : ∀ l, src.nodeLL = some l → Forall₂ (SrcLL tol ct) l T.node
  nodeXYZ : ∀ xs, src.nodeXYZ = some xs → ∃ r : ℝ, 0 < r ∧ xs = T.node.map (V3.smul r)
  edgeLL : ∀ l, src.edgeLL = some l → Forall₂ (SrcLL tol ct) l T.edge
  edgeXYZ : ∀ xs, src.edgeXYZ = some xs → Forall₂ PosMul xs T.edge
  edgeFresh : src.edgeLL = none → src.edgeXYZ = none → FreshEdge tol ct c T
  faceLL : ∀ l, src.faceLL = some l → Forall₂ (SrcLL tol ct) l T.face
  faceXYZ : ∀ xs, src.faceXYZ = some xs → Forall₂ PosMul xs T.face
  faceFresh : src.faceLL = none → src.faceXYZ = none → FreshFace tol ct c T

theorem forall₂_and_left {α β : Type} {P : α → β → Prop} {Q : α → Prop} {l : List α} {t : List β}
    (h : Forall₂ P l t) (hq : ∀ a ∈ l, Q a) : Forall₂ (fun a b => P a b ∧ Q a) l t := by
  induction h with
  | nil => exact Forall₂.nil
  | cons hab _ ih =>
    exact Forall₂.cons ⟨hab, hq _ (by simp)⟩ (ih (fun b hb => hq b (by simp [hb])))

/-- `_set_desired_longitude_range` on a source array: afterwards every longitude is in [-180, 180]
    and every pair still denotes the same point -/
theorem wrapArr_src {l : LL ℝ} {t : List (V3 ℝ)} (h : Forall₂ (SrcLL tol ct) l t) :
    Forall₂ (LLexact tol ct) (wrapArr (R tol ct) l) t := by
  unfold wrapArr
  split
  · rw [forall₂_map_left_iff]
    refine h.imp ?_
    rintro ⟨lon, lat⟩ t ⟨_, h2, h3, h4⟩
    refine ⟨⟨(wrap180_range _).1, (wrap180_range _).2.le, h2, h3⟩, ?_⟩
    rw [dirDeg_wrap180]; exact h4
  · rename_i hany
    have hall : ∀ p ∈ l, p.1.val ≤ 180 := by
      intro p hp
      by_contra hlt
      apply hany
      rw [List.any_eq_true]
      exact ⟨p, hp, by simpa [R] using hlt⟩
    refine (forall₂_and_left h hall).imp ?_
    rintro p t ⟨⟨h1, h2, h3, h4⟩, h5⟩
    exact ⟨⟨h1, h5, h2, h3⟩, h4⟩

theorem init_inv {src : St ℝ} (hS : SourceOK tol ct c T src) :
    Inv tol ct (supOf src) c T (init (R tol ct) src) := by
  simp only [init, wrapRange]
  refine ⟨⟨?_, ?_, ?_, ?_⟩, ⟨?_, ?_, ?_, ?_, ?_⟩, ⟨?_, ?_, ?_, ?_, ?_⟩⟩
  -- node
  · intro l hl
    cases h : src.nodeLL with
    | none => rw [h] at hl; cases hl
    | some l0 =>
      rw [h] at hl; cases hl
      exact (wrapArr_src (hS.nodeLL l0 h)).imp (fun _ _ h => h.ok)
  · exact hS.nodeXYZ
  · intro hs xs hx
    have : src.nodeXYZ.isSome = true := by rw [show src.nodeXYZ = some xs from hx]; rfl
    simp [supOf, this] at hs
  · intro hx
    cases h : src.nodeLL with
    | none => exact (hS.node_some h hx).elim
    | some l0 => exact ⟨_, rfl, wrapArr_src (hS.nodeLL l0 h)⟩
  -- edge
  · intro l hl
    cases h : src.edgeLL with
    | none => rw [h] at hl; cases hl
    | some l0 =>
      rw [h] at hl; cases hl
      exact (wrapArr_src (hS.edgeLL l0 h)).imp (fun _ _ h => h.ok)
  · exact hS.edgeXYZ
  · intro hs xs hx
    have : src.edgeXYZ.isSome = true := by rw [show src.edgeXYZ = some xs from hx]; rfl
    simp [supOf, this] at hs
  · intro _ l hl
    cases h : src.edgeLL with
    | none => rw [h] at hl; cases hl
    | some l0 =>
      rw [h] at hl; cases hl
      exact wrapArr_src (hS.edgeLL l0 h)
  · intro hl hx
    cases h : src.edgeLL with
    | none => exact hS.edgeFresh h hx
    | some l0 => rw [h] at hl; cases hl
  -- face
  · intro l hl
    cases h : src.faceLL with
    | none => rw [h] at hl; cases hl
    | some l0 =>
      rw [h] at hl; cases hl
      exact (wrapArr_src (hS.faceLL l0 h)).imp (fun _ _ h => h.ok)
  · exact hS.faceXYZ
  · intro hs xs hx
    have : src.faceXYZ.isSome = true := by rw [show src.faceXYZ = some xs from hx]; rfl
    simp [supOf, this] at hs
  · intro _ l hl
    cases h : src.faceLL with
    | none => rw [h] at hl; cases hl
    | some l0 =>
      rw [h] at hl; cases hl
      exact wrapArr_src (hS.faceLL l0 h)
  · intro hl hx
    cases h : src.faceLL with
    | none => exact hS.faceFresh h hx
    | some l0 => rw [h] at hl; cases hl

/-- **C04, the provenance theorem.**  For every consistent source (any of the 3 × 4 × 4 provenance
    combinations, longitudes in either convention, any radius), and EVERY history of accesses
    (any order, any repetition, `normalize_cartesian_coordinates` interleaved anywhere), everything
    any getter returns is present, in range, and denotes the true positions. -/
theorem provenance_agree (h0 : 0 < tol) (h1 : tol < 1) {src : St ℝ}
    (hS : SourceOK tol ct c T src) (ops : List Op) :
    ∀ r ∈ (run (R tol ct) repaired c (init (R tol ct) src) ops).2, ReportOK tol ct (supOf src) T r :=
  (run_spec h0 h1 hS.unit ops _ (init_inv hS)).2

/-- two reports of the same kind, one in each coordinate system, taken ANYWHERE in any history,
    denote the same direction: `xyz(deg2rad lon, deg2rad lat)` equals the normalised `(x,y,z)`, or is
    the pole of the snapping cap that contains it; and the longitude is in [-180, 180] -/
theorem reports_agree (h0 : 0 < tol) (h1 : tol < 1) {src : St ℝ}
    (hS : SourceOK tol ct c T src) (ops : List Op) (k : Kind) (l : LL ℝ) (xs : List (V3 ℝ))
    (hl : Report.ll k (some l) ∈ (run (R tol ct) repaired c (init (R tol ct) src) ops).2)
    (hx : Report.xyz k (some xs) ∈ (run (R tol ct) repaired c (init (R tol ct) src) ops).2) :
    Forall₂ (fun p v => InRange p ∧ SameDir tol (dirDeg (R tol ct) p) (normalizeV (R tol ct) v)) l xs := by
  obtain ⟨l', e1, h1'⟩ := provenance_agree h0 h1 hS ops _ hl
  obtain ⟨xs', e2, h2', _⟩ := provenance_agree h0 h1 hS ops _ hx
  cases e1; cases e2
  have hu := hS.unit k
  refine (forall₂_share h1' (forall₂_and_right h2' hu)).imp ?_
  rintro p v ⟨t, ⟨hr, hd⟩, ⟨kk, hk, rfl⟩, ht⟩
  rw [normalize_posmul kk hk t ht]
  exact ⟨hr, hd⟩

end UxVerif.C04
