import UxVerif.Model.Slice
import UxVerif.Lemmas.SortUniq

namespace UxVerif.C09
open UxVerif UxVerif.Slice

theorem faces_recorded (s : Src) (idx : List Nat) : (sliceFaces s idx).faceIdx = idx := rfl

end UxVerif.C09
